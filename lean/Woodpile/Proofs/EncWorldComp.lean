/-
Composition of the HCOBS codec refinement (on the abstract `Pipe`,
`Proofs/HcobsEnc.lean`, `HcobsDec.lean`) with the structural `OwningIovec`
refinement (`Proofs/IovecInv.lean`, `IovecAbs.lean`): the state machines of
`Model/EncWorld.lean` (`encInit`, `encFeed`, `encFinish`, `decFeed`), which
issue the iovec calls the Rust `Encoder` / `Decoder` make, never panic and keep
the iovec's abstraction equal to the abstract pipe run of the same emits, up to
the renaming of placeholder ids (sequential ids on the pipe side, backref keys
on the iovec side).

Scope: input methods borrow (`encode` / `decode`: `OwningIovec::push` of a
sub-slice of a caller buffer) and copy (`encode_copy` / `decode_copy`).  The
anchored method (`read_n` into the codec's own arena followed by a borrowed
push of the chunk slice and `push_anchor`) is outside the proved iovec
vocabulary and is left out.
-/
import Woodpile.Model.EncWorld
import Woodpile.Proofs.IovecAbs
import Woodpile.Proofs.HcobsEnc
import Woodpile.Proofs.HcobsDec
import Woodpile.Gen.Consts

namespace Woodpile.EncWorld
open Woodpile.Hcobs Woodpile.Iovec Woodpile.Arena
open Woodpile.Pipe (Cell Pipe cellBytes fillCells Ev runEv prodOps stepEv)

/-! ### Renaming placeholder ids -/

def renameCell (f : Nat → Nat) : Cell → Cell
  | .byte b => .byte b
  | .hole j => .hole (f j)

@[simp] theorem renameCell_byte (f : Nat → Nat) (b : UInt8) : renameCell f (.byte b) = .byte b := rfl
@[simp] theorem renameCell_hole (f : Nat → Nat) (j : Nat) : renameCell f (.hole j) = .hole (f j) := rfl

theorem rename_map_byte (f : Nat → Nat) (bs : List UInt8) :
    (bs.map Cell.byte).map (renameCell f) = bs.map Cell.byte := by
  induction bs with
  | nil => rfl
  | cons b t ih => simp [ih]

theorem rename_replicate_hole (f : Nat → Nat) (n j : Nat) :
    (List.replicate n (Cell.hole j)).map (renameCell f) = List.replicate n (Cell.hole (f j)) := by
  simp

theorem rename_congr (f g : Nat → Nat) (l : List Cell) (h : ∀ j, Cell.hole j ∈ l → f j = g j) :
    l.map (renameCell f) = l.map (renameCell g) := by
  apply List.map_congr_left
  intro c hc
  cases c with
  | byte b => rfl
  | hole j => simp [h j hc]

theorem isByte_rename (f : Nat → Nat) (c : Cell) : (renameCell f c).isByte = c.isByte := by
  cases c <;> rfl

theorem cellBytes_rename (f : Nat → Nat) (l : List Cell) : cellBytes (l.map (renameCell f)) = cellBytes l := by
  induction l with
  | nil => rfl
  | cons c t ih => cases c <;> simp [cellBytes, ih]

theorem takeWhile_rename (f : Nat → Nat) (l : List Cell) :
    (l.map (renameCell f)).takeWhile Cell.isByte = (l.takeWhile Cell.isByte).map (renameCell f) := by
  induction l with
  | nil => rfl
  | cons c t ih =>
    cases c with
    | byte b => simp [List.takeWhile_cons, Cell.isByte, ih]
    | hole j => simp [Cell.isByte]

/-- Renaming does not change what is stable. -/
theorem stable_rename (f : Nat → Nat) (l : List Cell) :
    cellBytes ((l.map (renameCell f)).takeWhile Cell.isByte) = cellBytes (l.takeWhile Cell.isByte) := by
  rw [takeWhile_rename, cellBytes_rename]

theorem rename_of_no_hole (f : Nat → Nat) (l : List Cell) (h : l.any (fun c => !c.isByte) = false) :
    l.map (renameCell f) = l := by
  induction l with
  | nil => rfl
  | cons c t ih =>
    cases c with
    | byte b =>
      simp only [List.any_cons, Cell.isByte, Bool.not_true, Bool.false_or] at h
      simp [ih h]
    | hole j => simp [Cell.isByte] at h

theorem fillCells_hole_nil (id j : Nat) (t : List Cell) :
    fillCells id (.hole j :: t) [] = .hole j :: fillCells id t [] := by
  simp [fillCells]

theorem fillCells_hole_cons (id j : Nat) (t : List Cell) (b : UInt8) (bs : List UInt8) :
    fillCells id (.hole j :: t) (b :: bs) =
      if j = id then .byte b :: fillCells id t bs else .hole j :: fillCells id t (b :: bs) := by
  simp [fillCells]

/-- Filling commutes with a renaming that separates the filled id from the other pending ids. -/
theorem rename_fill (f : Nat → Nat) (id : Nat) (l : List Cell) (bs : List UInt8)
    (h : ∀ j, Cell.hole j ∈ l → f j = f id → j = id) :
    fillCells (f id) (l.map (renameCell f)) bs = (fillCells id l bs).map (renameCell f) := by
  induction l generalizing bs with
  | nil => simp [fillCells]
  | cons c t ih =>
    have ht : ∀ j, Cell.hole j ∈ t → f j = f id → j = id := fun j hj => h j (by simp [hj])
    cases c with
    | byte b =>
      simp only [List.map_cons, renameCell_byte, Woodpile.Pipe.fillCells_byte]
      rw [ih bs ht]
    | hole j =>
      cases bs with
      | nil =>
        simp only [List.map_cons, renameCell_hole, fillCells_hole_nil]
        rw [ih [] ht]
      | cons b bs =>
        simp only [List.map_cons, renameCell_hole, fillCells_hole_cons]
        by_cases hj : j = id
        · subst hj; simp [ih bs ht]
        · have : ¬ f j = f id := fun e => hj (h j (by simp) e)
          simp [hj, this, ih (b :: bs) ht]

theorem count_hole_map_byte' (l : List UInt8) (id : Nat) : (l.map Cell.byte).count (Cell.hole id) = 0 :=
  Woodpile.Hcobs.EncProof.count_hole_map_byte l id

/-- Filling placeholder `id` with exactly as many bytes as it has cells leaves no cell of it. -/
theorem fillCells_removes (id : Nat) (l : List Cell) (bs : List UInt8)
    (h : l.count (Cell.hole id) = bs.length) : Cell.hole id ∉ fillCells id l bs := by
  induction l generalizing bs with
  | nil => simp [fillCells]
  | cons c t ih =>
    cases c with
    | byte b =>
      simp only [Woodpile.Pipe.fillCells_byte, List.mem_cons, reduceCtorEq, false_or]
      apply ih
      simpa using h
    | hole j =>
      by_cases hj : j = id
      · subst hj
        cases bs with
        | nil => simp at h
        | cons b bs =>
          simp only [fillCells_hole_cons, if_true, List.mem_cons, reduceCtorEq, false_or]
          apply ih
          simpa using h
      · have hc : (Cell.hole j :: t).count (Cell.hole id) = t.count (Cell.hole id) := by
          rw [List.count_cons]; simp [hj]
        rw [hc] at h
        cases bs with
        | nil =>
          simp only [fillCells_hole_nil, List.mem_cons, Cell.hole.injEq]
          rintro (e | e)
          · exact hj e.symm
          · exact ih [] h e
        | cons b bs =>
          simp only [fillCells_hole_cons, if_neg hj, List.mem_cons, Cell.hole.injEq]
          rintro (e | e)
          · exact hj e.symm
          · exact ih (b :: bs) h e

/-- Filling one placeholder does not touch the cells of another. -/
theorem fillCells_count_ne (id j : Nat) (hne : j ≠ id) (l : List Cell) (bs : List UInt8) :
    (fillCells id l bs).count (Cell.hole j) = l.count (Cell.hole j) := by
  induction l generalizing bs with
  | nil => simp [fillCells]
  | cons c t ih =>
    cases c with
    | byte b => simp [ih bs]
    | hole k =>
      cases bs with
      | nil => simp [fillCells_hole_nil, List.count_cons, ih []]
      | cons b bs =>
        simp only [fillCells_hole_cons]
        by_cases hk : k = id
        · subst hk
          have : ¬ k = j := fun e => hne e.symm
          simp [ih bs, this]
        · simp [hk, List.count_cons, ih (b :: bs)]

theorem fillCells_mem_hole (id j : Nat) (l : List Cell) (bs : List UInt8)
    (h : Cell.hole j ∈ fillCells id l bs) : Cell.hole j ∈ l := by
  induction l generalizing bs with
  | nil => simp [fillCells] at h
  | cons c t ih =>
    cases c with
    | byte b =>
      simp only [Woodpile.Pipe.fillCells_byte, List.mem_cons, reduceCtorEq, false_or] at h
      simp [ih bs h]
    | hole k =>
      cases bs with
      | nil =>
        simp only [fillCells_hole_nil, List.mem_cons, Cell.hole.injEq] at h
        rcases h with e | e
        · simp [e]
        · simp [ih [] e]
      | cons b bs =>
        simp only [fillCells_hole_cons] at h
        by_cases hk : k = id
        · simp only [hk, if_true, List.mem_cons, reduceCtorEq, false_or] at h
          simp [ih bs h]
        · simp only [if_neg hk, List.mem_cons, Cell.hole.injEq] at h
          rcases h with e | e
          · simp [e]
          · simp [ih (b :: bs) e]

/-! ### Caller buffers known to the world -/

/-- Caller buffer `b` of the world holds `bs` at offset `off`. -/
def InBuf (w : World) (b off : Nat) (bs : List UInt8) : Prop :=
  ∃ pre post, w.exts.getD b [] = pre ++ bs ++ post ∧ pre.length = off

theorem InBuf.of_exts {w w' : World} {b off : Nat} {bs : List UInt8} (h : InBuf w b off bs)
    (he : w'.exts = w.exts) : InBuf w' b off bs := by
  unfold InBuf at *; rw [he]; exact h

theorem InBuf.drop {w : World} {b off : Nat} {bs : List UInt8} (h : InBuf w b off bs) (c : Nat)
    (hc : c ≤ bs.length) : InBuf w b (off + c) (bs.drop c) := by
  obtain ⟨pre, post, h1, h2⟩ := h
  refine ⟨pre ++ bs.take c, post, ?_, by simp [h2, Nat.min_eq_left hc]⟩
  rw [h1]
  conv => lhs; rw [← List.take_append_drop c bs]
  simp

theorem InBuf.prefix {w : World} {b off : Nat} {bs bs' : List UInt8} (h : InBuf w b off bs)
    (hp : bs' <+: bs) : InBuf w b off bs' := by
  obtain ⟨pre, post, h1, h2⟩ := h
  obtain ⟨t, rfl⟩ := hp
  exact ⟨pre, t ++ post, by rw [h1]; simp, h2⟩

theorem InBuf.lentOk {w : World} {b off : Nat} {bs : List UInt8} (h : InBuf w b off bs) :
    LentOk w ⟨.ext b, off, bs.length⟩ bs := by
  obtain ⟨pre, post, h1, h2⟩ := h
  have hb : w.sliceBytes ⟨.ext b, off, bs.length⟩ = bs := by
    simp only [World.sliceBytes, h1]
    rw [List.append_assoc, List.drop_left' h2, List.take_left' rfl]
  refine ⟨⟨b, rfl⟩, rfl, hb, ?_⟩
  intro hne a
  refine ⟨List.length_pos_iff.mpr hne, ?_, by intro c hc; cases hc⟩
  intro b' hb'
  cases hb'
  simp only [h1, List.length_append]
  omega

theorem InBuf.addExt (w : World) (d : List UInt8) : InBuf (w.addExt d).1 w.exts.length 0 d := by
  refine ⟨[], [], ?_, rfl⟩
  simp [World.addExt, List.getD_eq_getElem?_getD]

theorem addExt_eq_lend (w : World) (d : List UInt8) : (w.addExt d).1 = (w.lend ⟨[], [], d⟩).1 := rfl

/-! ### World-level facts not stated in `IovecAbs` -/

theorem World.registerPatch_exts (w w' : World) (i : Nat) (v : Iov) (pat : List UInt8) (b : Backref)
    (hv : w.iov i = some v) (hinv : IovInv w v) (h : w.registerPatch i pat = some (w', b)) :
    w'.exts = w.exts := by
  by_cases hne : pat = []
  · subst hne
    have : w.registerPatch i [] = some (w, none) := by unfold World.registerPatch; rfl
    rw [this] at h; cases h; rfl
  · obtain ⟨w1, v1, h1, h2, _, _, _, _, _, _, _, h10, _, _, _, ⟨pre, last, c, hl1, _, _⟩, _, _⟩ :=
      World.pushCopy_spec w i v pat hv hinv hne
    have hpe : pat.isEmpty = false := by cases pat with | nil => exact absurd rfl hne | cons _ _ => rfl
    have hlast : v1.slices.getLast? = some last := by rw [hl1]; simp
    rw [registerPatch_eq w w1 i v1 pat last hpe h1 h2 hlast] at h
    split at h
    · cases h
    · cases h; exact h10

/-- `OwningIovec::push` of a slice of a caller buffer already known to the world: copied or borrowed,
exactly its bytes are appended. -/
theorem World.pushAt_total (w : World) (i : Nat) (v : Iov) (s : Slice) (bs : List UInt8)
    (hv : w.iov i = some v) (hinv : IovInv w v) (hl : LentOk w s bs) :
    ∃ w' v', w.push i s = some w' ∧ w'.iov i = some v' ∧ Pushed w w' v v' bs ∧ w'.exts = w.exts := by
  rcases World.push_eq w i v s hv with h | h
  · rw [h, hl.bytes]
    exact World.pushCopy_total w i v bs hv hinv
  · rw [h]
    by_cases hb : bs = []
    · subst hb
      have h0 : s.len = 0 := by rw [hl.len]; rfl
      refine ⟨w, v, ?_, hv, Pushed.refl hinv, rfl⟩
      unfold World.pushBorrowed
      rw [hv]; simp [h0]
    · obtain ⟨v1, g1, g2, g3, g4, _, g6, g7, g8, g9, g10⟩ :=
        World.pushBorrowed_spec w i v s hv hinv (hl.ok hb _) hl.ext
      rw [hl.bytes] at g3 g8
      refine ⟨_, v1, g1, by simp, ?_, rfl⟩
      exact Pushed.setIov
        { inv := g2, cells := g3, flat := g8, backrefs := g4, consumedSize := g6,
          consumedSlices := g9, logicalSize := by rw [g7, hl.len]
          visible := visible_push bs hinv g4 g9 g8 (fun _ _ => rfl) g10
          pol := rfl, tun := rfl } i _

/-! ### The coupling invariant between the iovec and the abstract pipe -/

/-- Key of a backref token (`0` for the zero-sized token). -/
def bkey : Backref → Nat
  | some (k, _) => k
  | none => 0

/-- The renaming: placeholder id `j` of the pipe (registration order) ↦ key of the `j`-th token. -/
def tokKey (toks : List Backref) (j : Nat) : Nat := bkey (toks.getD j none)

/-- Admissible producer op on pipe `q`: registrations are non-empty, a fill targets a pending
placeholder and brings exactly as many bytes as it has cells. -/
def OpOk (q : Pipe) : Woodpile.Pipe.Op → Prop
  | .append _ => True
  | .register n => 1 ≤ n
  | .fill id bs => 1 ≤ bs.length ∧ q.cells.count (Cell.hole id) = bs.length

def OpsOk (q : Pipe) : List Woodpile.Pipe.Op → Prop
  | [] => True
  | op :: t => OpOk q op ∧ OpsOk (q.apply op) t

/-- Iovec `v` of world `w`, with `ghost` the bytes handed to the consumer so far and `toks` the
tokens returned by the registrations so far, represents pipe `q` (sequential placeholder ids). -/
structure SimV (w : World) (v : Iov) (ghost : List UInt8) (toks : List Backref) (q : Pipe) : Prop where
  inv : IovInv w v
  cells : absCells w v = q.cells.map (renameCell (tokKey toks))
  ghost : ghost = q.consumed
  nid : q.nextId = toks.length
  holes_lt : ∀ j, Cell.hole j ∈ q.cells → j < toks.length
  tk_sorted : (toks.map bkey).Pairwise (· < ·)
  tk_le : ∀ b ∈ toks, bkey b ≤ v.logicalSize
  tk_ok : ∀ e ∈ v.backrefs, some e ∈ toks
  tk_len : ∀ j e, toks[j]? = some (some e) → Cell.hole j ∈ q.cells → e.2.len = q.cells.count (Cell.hole j)

theorem tokKey_inj {toks : List Backref} (hs : (toks.map bkey).Pairwise (· < ·)) {a b : Nat}
    (ha : a < toks.length) (hb : b < toks.length) (h : tokKey toks a = tokKey toks b) : a = b := by
  rw [List.pairwise_iff_getElem] at hs
  unfold tokKey at h
  simp only [List.getD_eq_getElem?_getD, List.getElem?_eq_getElem ha, List.getElem?_eq_getElem hb,
    Option.getD_some] at h
  rcases Nat.lt_trichotomy a b with hlt | heq | hgt
  · have := hs a b (by simpa using ha) (by simpa using hb) hlt
    simp only [List.getElem_map] at this
    omega
  · exact heq
  · have := hs b a (by simpa using hb) (by simpa using ha) hgt
    simp only [List.getElem_map] at this
    omega

theorem tokKey_append_left (toks : List Backref) (b : Backref) {j : Nat} (hj : j < toks.length) :
    tokKey (toks ++ [b]) j = tokKey toks j := by
  unfold tokKey
  simp [List.getD_eq_getElem?_getD, List.getElem?_append_left hj]

theorem tokKey_append_self (toks : List Backref) (b : Backref) : tokKey (toks ++ [b]) toks.length = bkey b := by
  unfold tokKey
  simp [List.getD_eq_getElem?_getD]

theorem map_rename_eq_bytes (f : Nat → Nat) (l : List Cell) (bs : List UInt8)
    (h : l.map (renameCell f) = bs.map Cell.byte) : l = bs.map Cell.byte := by
  induction l generalizing bs with
  | nil => cases bs <;> simp_all
  | cons c t ih =>
    cases bs with
    | nil => simp at h
    | cons b bs =>
      simp only [List.map_cons, List.cons.injEq] at h ⊢
      obtain ⟨h1, h2⟩ := h
      refine ⟨?_, ih bs h2⟩
      cases c with
      | byte x => simpa using h1
      | hole j => simp at h1

theorem mem_hole_map_byte (bs : List UInt8) (j : Nat) : Cell.hole j ∉ bs.map Cell.byte := by
  simp

theorem SimV.setIov {w : World} {v : Iov} {g : List UInt8} {toks : List Backref} {q : Pipe}
    (h : SimV w v g toks q) (i : Nat) (o : Option Iov) : SimV (w.setIov i o) v g toks q :=
  { h with inv := h.inv.setIov i o, cells := by rw [absCells_setIov]; exact h.cells }

theorem SimV.addExt {w : World} {v : Iov} {g : List UInt8} {toks : List Backref} {q : Pipe}
    (h : SimV w v g toks q) (d : List UInt8) : SimV (w.addExt d).1 v g toks q := by
  rw [addExt_eq_lend]
  exact { h with inv := h.inv.lend _, cells := by rw [absCells_lend h.inv]; exact h.cells }

/-- Appending bytes (by either push method). -/
theorem SimV.append {w w' : World} {v v' : Iov} {g : List UInt8} {toks : List Backref} {q : Pipe}
    {bs : List UInt8} (h : SimV w v g toks q) (hp : Pushed w w' v v' bs) :
    SimV w' v' g toks (q.append bs) :=
  { inv := hp.inv
    cells := by rw [hp.cells, h.cells]; simp [Pipe.append]
    ghost := h.ghost
    nid := h.nid
    holes_lt := by
      intro j hj
      simp only [Pipe.append, List.mem_append] at hj
      rcases hj with hj | hj
      · exact h.holes_lt j hj
      · exact absurd hj (mem_hole_map_byte _ _)
    tk_sorted := h.tk_sorted
    tk_le := by intro b hb; have := h.tk_le b hb; rw [hp.logicalSize]; omega
    tk_ok := by intro e he; rw [hp.backrefs] at he; exact h.tk_ok e he
    tk_len := by
      intro j e hj hm
      simp only [Pipe.append, List.mem_append] at hm
      rcases hm with hm | hm
      · rw [h.tk_len j e hj hm]
        simp [Pipe.append, List.count_append, count_hole_map_byte']
      · exact absurd hm (mem_hole_map_byte _ _) }

/-- `register_patch` of `n ≥ 1` zero bytes never panics and registers placeholder `q.nextId`. -/
theorem SimV.register {w : World} {v : Iov} {g : List UInt8} {toks : List Backref} {q : Pipe}
    (i : Nat) (hv : w.iov i = some v) (h : SimV w v g toks q) (n : Nat) (hn : 1 ≤ n) :
    ∃ w' v' b, w.registerPatch i (List.replicate n 0) = some (w', b) ∧ w'.iov i = some v' ∧
      SimV w' v' g (toks ++ [b]) (q.register n).1 ∧ w'.exts = w.exts := by
  have hne : List.replicate n (0 : UInt8) ≠ [] := by
    intro e; have := congrArg List.length e; simp at this; omega
  obtain ⟨w', v', info, h1, h2, h3, h4, h5, h6, h7, h8, h9⟩ :=
    World.registerPatch_spec w i v (List.replicate n 0) hv h.inv hne
  simp only [List.length_replicate] at h1 h4 h5 h6 h7 h8
  have hex := World.registerPatch_exts w w' i v _ _ hv h.inv h1
  refine ⟨w', v', _, h1, h2, ?_, hex⟩
  have hnid : Cell.hole q.nextId ∉ q.cells := by
    intro hm; have := h.holes_lt _ hm; rw [h.nid] at this; omega
  exact
    { inv := h3
      cells := by
        rw [h5, h.cells]
        simp only [Pipe.register, List.map_append, rename_replicate_hole]
        congr 1
        · apply rename_congr
          intro j hj
          exact (tokKey_append_left toks _ (h.holes_lt j hj)).symm
        · rw [h.nid, tokKey_append_self]; rfl
      ghost := h.ghost
      nid := by simp [Pipe.register, h.nid]
      holes_lt := by
        intro j hj
        simp only [Pipe.register, List.mem_append, List.mem_replicate] at hj
        rcases hj with hj | ⟨_, hj⟩
        · have := h.holes_lt j hj; simp; omega
        · cases hj; simp [h.nid]
      tk_sorted := by
        rw [List.map_append, List.pairwise_append]
        refine ⟨h.tk_sorted, by simp, ?_⟩
        intro a ha b hb
        simp only [List.map_cons, List.map_nil, List.mem_singleton] at hb
        subst hb
        obtain ⟨t, ht, rfl⟩ := List.mem_map.mp ha
        have := h.tk_le t ht
        have hk : bkey (some (v.logicalSize + n, info)) = v.logicalSize + n := rfl
        omega
      tk_le := by
        intro b hb
        simp only [List.mem_append, List.mem_singleton] at hb
        rcases hb with hb | rfl
        · have := h.tk_le b hb; omega
        · simp only [bkey]; omega
      tk_ok := by
        intro e he
        rw [h7] at he
        simp only [List.mem_append, List.mem_singleton] at he ⊢
        rcases he with he | rfl
        · exact Or.inl (h.tk_ok e he)
        · exact Or.inr rfl
      tk_len := by
        intro j e hj hm
        simp only [Pipe.register, List.mem_append, List.mem_replicate] at hm
        simp only [Pipe.register, List.count_append]
        rcases hm with hm | ⟨_, hm⟩
        · have hlt := h.holes_lt j hm
          rw [List.getElem?_append_left hlt] at hj
          rw [h.tk_len j e hj hm]
          have : ¬ q.nextId = j := by rw [h.nid]; omega
          simp [List.count_replicate, this]
        · cases hm
          rw [h.nid, List.getElem?_append_right (Nat.le_refl _)] at hj
          simp only [Nat.sub_self, List.getElem?_cons_zero, Option.some.injEq] at hj
          cases hj
          rw [List.count_eq_zero_of_not_mem hnid]
          simp [h4] }

/-- The token of a pending placeholder of the pipe is a pending backref of the iovec, with the size
of the placeholder. -/
theorem SimV.token {w : World} {v : Iov} {g : List UInt8} {toks : List Backref} {q : Pipe}
    (h : SimV w v g toks q) (id : Nat) (hm : Cell.hole id ∈ q.cells) :
    ∃ e, toks[id]? = some (some e) ∧ e ∈ v.backrefs ∧ e.1 = tokKey toks id ∧
      e.2.len = q.cells.count (Cell.hole id) := by
  have hid := h.holes_lt id hm
  have hmem : Cell.hole (tokKey toks id) ∈ absCells w v := by
    rw [h.cells]
    exact List.mem_map.mpr ⟨_, hm, rfl⟩
  obtain ⟨e, he, hk⟩ := mem_mkCells_hole _ _ _ _ hmem
  obtain ⟨j, hj, hje⟩ := List.getElem_of_mem (h.tk_ok e he)
  have hkj : tokKey toks j = tokKey toks id := by
    rw [← hk]; unfold tokKey
    simp [List.getD_eq_getElem?_getD, List.getElem?_eq_getElem hj, hje, bkey]
  have := tokKey_inj h.tk_sorted hj hid hkj
  subst this
  have hget : toks[j]? = some (some e) := by rw [List.getElem?_eq_getElem hj, hje]
  exact ⟨e, hget, he, hk, h.tk_len j e hget hm⟩

/-- `backfill_or_panic` of a pending placeholder with a source of its size never panics. -/
theorem SimV.fill {w : World} {v : Iov} {g : List UInt8} {toks : List Backref} {q : Pipe}
    (i : Nat) (hv : w.iov i = some v) (h : SimV w v g toks q) (id : Nat) (bs : List UInt8)
    (hok : OpOk q (.fill id bs)) :
    ∃ w' v' b, toks[id]? = some b ∧ w.backfill i b bs = some w' ∧ w'.iov i = some v' ∧
      SimV w' v' g toks (q.fill id bs) ∧ w'.exts = w.exts := by
  obtain ⟨hpos, hcnt⟩ := hok
  have hm : Cell.hole id ∈ q.cells := by
    apply List.count_pos_iff.mp; omega
  obtain ⟨e, hget, he, hk, hlen⟩ := h.token id hm
  obtain ⟨w', v', h1, h2, h3, h4, h5, h6, h7, h8, h9, _⟩ :=
    World.backfill_spec w i v e bs hv h.inv he (by omega)
  refine ⟨w', v', some e, hget, h1, h2, ?_, h9⟩
  exact
    { inv := h3
      cells := by
        rw [h4, h.cells, hk]
        simp only [Pipe.fill]
        apply rename_fill
        intro j hj hjk
        exact tokKey_inj h.tk_sorted (h.holes_lt j hj) (h.holes_lt id hm) hjk
      ghost := h.ghost
      nid := h.nid
      holes_lt := fun j hj => h.holes_lt j (fillCells_mem_hole id j _ _ hj)
      tk_sorted := h.tk_sorted
      tk_le := by intro b hb; rw [h8]; exact h.tk_le b hb
      tk_ok := by
        intro e' he'
        rw [h5] at he'
        exact h.tk_ok e' (List.mem_filter.mp he').1
      tk_len := by
        intro j e' hj hmj
        simp only [Pipe.fill] at hmj ⊢
        by_cases hji : j = id
        · subst hji
          exact absurd hmj (fillCells_removes j _ _ hcnt)
        · rw [fillCells_count_ne id j hji]
          exact h.tk_len j e' hj (fillCells_mem_hole id j _ _ hmj) }

/-- A consumer call that removes `m` stable bytes from the front. -/
theorem SimV.consumed {w : World} {v v' : Iov} {g : List UInt8} {toks : List Backref} {q : Pipe} {m : Nat}
    (h : SimV w v g toks q) (hc : Consumed w v v' m) (hm : m ≤ sumLens (v.slices.take v.stableN)) :
    SimV w v' (g ++ (w.flat v.slices).take m) toks (q.consume m).1 ∧
      (w.flat v.slices).take m <+: q.stable ∧ ((w.flat v.slices).take m).length = m := by
  have hcells := absCells_consumed h.inv hc v.stableN h.inv.noBrBelow_stableN hm
  have hlen : ((w.flat v.slices).take m).length = m := by
    rw [List.length_take, h.inv.flat_length]
    have := sumLens_take_le v.slices v.stableN
    omega
  generalize hrm : (w.flat v.slices).take m = rm at hcells hlen ⊢
  rw [h.cells] at hcells
  have hsplit : q.cells = rm.map Cell.byte ++ q.cells.drop m := by
    have e1 : (q.cells.take m).map (renameCell (tokKey toks)) = rm.map Cell.byte := by
      rw [List.map_take, hcells, List.take_left' (by simpa using hlen)]
    conv => lhs; rw [← List.take_append_drop m q.cells]
    rw [map_rename_eq_bytes _ _ _ e1]
  have hdrop : absCells w v' = (q.cells.drop m).map (renameCell (tokKey toks)) := by
    rw [List.map_drop, hcells, List.drop_left' (by simpa using hlen)]
  obtain ⟨hcons, hpre⟩ := Pipe.consume_of_cells q rm _ hsplit
  rw [hlen] at hcons
  refine ⟨?_, hpre, hlen⟩
  rw [hcons]
  exact
    { inv := hc.inv
      cells := hdrop
      ghost := by rw [h.ghost]
      nid := h.nid
      holes_lt := fun j hj => h.holes_lt j (List.mem_of_mem_drop hj)
      tk_sorted := h.tk_sorted
      tk_le := by intro b hb; rw [hc.logicalSize]; exact h.tk_le b hb
      tk_ok := by intro e he; rw [hc.backrefs] at he; exact h.tk_ok e he
      tk_len := by
        intro j e hj hmj
        simp only at hmj ⊢
        rw [h.tk_len j e hj (List.mem_of_mem_drop hmj)]
        conv => lhs; rw [hsplit]
        simp [List.count_append, count_hole_map_byte'] }

/-! ### One emit, one step's emits -/

/-- Where the borrowed appends of a step take their bytes: caller buffer `b`, from offset `off`. -/
def SrcOk (w : World) (src : Slice) (es : List Emit) : Prop :=
  ∀ e ∈ es, e.method = .borrow → ∀ bs, e.op = .append bs → ∃ b, src.region = .ext b ∧ InBuf w b src.off bs

theorem applyEmit_sim {w : World} {v : Iov} {g : List UInt8} {toks : List Backref} {q : Pipe}
    (i : Nat) (hv : w.iov i = some v) (h : SimV w v g toks q) (e : Emit) (src : Slice)
    (hok : OpOk q e.op) (hsrc : SrcOk w src [e]) :
    ∃ w' v' toks', applyEmit w i toks e src = some (w', toks') ∧ w'.iov i = some v' ∧
      SimV w' v' g toks' (q.apply e.op) ∧ w'.exts = w.exts := by
  obtain ⟨op, m⟩ := e
  cases op with
  | append bs =>
    cases m with
    | copy =>
      obtain ⟨w', v', h1, h2, h3, h4⟩ := World.pushCopy_total w i v bs hv h.inv
      exact ⟨w', v', toks, by simp [applyEmit, h1], h2, h.append h3, h4⟩
    | borrow =>
      obtain ⟨b, hb, hin⟩ := hsrc ⟨.append bs, .borrow⟩ (by simp) rfl bs rfl
      have hl : LentOk w { src with len := bs.length } bs := by
        have := hin.lentOk
        obtain ⟨r, o, l⟩ := src
        simp only at hb
        subst hb
        exact this
      obtain ⟨w', v', h1, h2, h3, h4⟩ := World.pushAt_total w i v _ bs hv h.inv hl
      exact ⟨w', v', toks, by simp [applyEmit, h1], h2, h.append h3, h4⟩
  | register n =>
    obtain ⟨w', v', b, h1, h2, h3, h4⟩ := h.register i hv n hok
    exact ⟨w', v', toks ++ [b], by simp [applyEmit, h1], h2, h3, h4⟩
  | fill id bs =>
    obtain ⟨w', v', b, h0, h1, h2, h3, h4⟩ := h.fill i hv id bs hok
    exact ⟨w', v', toks, by simp [applyEmit, h0, h1], h2, h3, h4⟩

theorem applyStep_sim (i : Nat) (g : List UInt8) (src : Slice) (es : List Emit) :
    ∀ (w : World) (v : Iov) (toks : List Backref) (q : Pipe), w.iov i = some v → SimV w v g toks q →
      OpsOk q (es.map (·.op)) → SrcOk w src es →
      ∃ w' v' toks', applyStep w i toks es src = some (w', toks') ∧ w'.iov i = some v' ∧
        SimV w' v' g toks' (q.run (es.map (·.op))) ∧ w'.exts = w.exts := by
  induction es with
  | nil =>
    intro w v toks q hv h _ _
    exact ⟨w, v, toks, rfl, hv, h, rfl⟩
  | cons e t ih =>
    intro w v toks q hv h hok hsrc
    obtain ⟨hok1, hok2⟩ := hok
    obtain ⟨w1, v1, toks1, h1, h2, h3, h4⟩ := applyEmit_sim i hv h e src hok1
      (fun x hx => hsrc x (by simp only [List.mem_singleton] at hx; simp [hx]))
    obtain ⟨w2, v2, toks2, g1, g2, g3, g4⟩ := ih w1 v1 toks1 _ h2 h3 hok2
      (fun x hx hb bs hop => by
        obtain ⟨b, hb1, hb2⟩ := hsrc x (by simp [hx]) hb bs hop
        exact ⟨b, hb1, hb2.of_exts h4⟩)
    refine ⟨w2, v2, toks2, ?_, g2, ?_, g4.trans h4⟩
    · simp only [applyStep, h1]; exact g1
    · simpa [Pipe.run] using g3

/-! ### Admissibility of the encoder's emits -/

open Woodpile.Hcobs.EncProof in
theorem run_total (q : Pipe) (ops : List Woodpile.Pipe.Op) : (q.run ops).total = q.total.run ops := by
  induction ops generalizing q with
  | nil => rfl
  | cons op t ih =>
    simp only [Pipe.run, List.foldl_cons] at ih ⊢
    rw [ih, Woodpile.Pipe.apply_total]

theorem count_hole_total (q : Pipe) (id : Nat) :
    q.total.cells.count (Cell.hole id) = q.cells.count (Cell.hole id) := by
  simp [Woodpile.Pipe.Pipe.total, List.count_append, count_hole_map_byte']

theorem opsOk_append (q : Pipe) (a b : List Woodpile.Pipe.Op) :
    OpsOk q (a ++ b) ↔ OpsOk q a ∧ OpsOk (q.run a) b := by
  induction a generalizing q with
  | nil => simp [OpsOk, Pipe.run]
  | cons op t ih =>
    simp only [List.cons_append, OpsOk, ih, Pipe.run, List.foldl_cons, and_assoc]

theorem opsOk_appends (q : Pipe) (ops : List Woodpile.Pipe.Op) (h : ops.all Woodpile.Pipe.Op.isAppend = true) :
    OpsOk q ops := by
  induction ops generalizing q with
  | nil => trivial
  | cons op t ih =>
    simp only [List.all_cons, Bool.and_eq_true] at h
    cases op with
    | append bs => exact ⟨trivial, ih _ h.2⟩
    | register n => simp [Woodpile.Pipe.Op.isAppend] at h
    | fill id bs => simp [Woodpile.Pipe.Op.isAppend] at h

theorem count_run_appends (q : Pipe) (ops : List Woodpile.Pipe.Op) (h : ops.all Woodpile.Pipe.Op.isAppend = true)
    (id : Nat) : (q.run ops).cells.count (Cell.hole id) = q.cells.count (Cell.hole id) := by
  rw [Woodpile.Pipe.run_appendOnly q ops h]
  simp [List.count_append, count_hole_map_byte']

open Woodpile.Hcobs.EncProof

theorem all_isAppend_of (A : List Emit) (hA : ∀ e ∈ A, Woodpile.Pipe.Op.isAppend e.op = true) :
    (A.map (·.op)).all Woodpile.Pipe.Op.isAppend = true := by
  simp only [List.all_map, List.all_eq_true]
  exact fun e he => hA e he

theorem closeE_opsOk (p : Params) (q : Pipe) (s2 : EncState) (hk1 : 1 ≤ s2.brLen) (hk2 : s2.brLen ≤ 2)
    (hc : q.cells.count (Cell.hole s2.backref) = s2.brLen) : OpsOk q ((closeE p s2).map (·.op)) := by
  have hl : ((header p false s2.cur).take s2.brLen).length = s2.brLen := by
    simp [header]; omega
  simp only [closeE, Enc.closeHeader, List.map_cons, List.map_nil, OpsOk, OpOk, and_true]
  exact ⟨⟨by omega, by omega⟩, by omega⟩

theorem appends_close_opsOk (p : Params) (q : Pipe) (A : List Emit)
    (hA : ∀ e ∈ A, Woodpile.Pipe.Op.isAppend e.op = true) (s2 : EncState) (hk1 : 1 ≤ s2.brLen)
    (hk2 : s2.brLen ≤ 2) (hc : q.cells.count (Cell.hole s2.backref) = s2.brLen) :
    OpsOk q ((A ++ closeE p s2).map (·.op)) := by
  rw [List.map_append, opsOk_append]
  refine ⟨opsOk_appends _ _ (all_isAppend_of A hA), closeE_opsOk p _ s2 hk1 hk2 ?_⟩
  rw [count_run_appends _ _ (all_isAppend_of A hA)]
  exact hc

theorem mem_append_isAppend {A B : List Emit} (hA : ∀ e ∈ A, Woodpile.Pipe.Op.isAppend e.op = true)
    (hB : ∀ e ∈ B, Woodpile.Pipe.Op.isAppend e.op = true) :
    ∀ e ∈ A ++ B, Woodpile.Pipe.Op.isAppend e.op = true := by
  intro e he
  rcases List.mem_append.mp he with h | h
  · exact hA e h
  · exact hB e h

/-- The emits of one `consume_once` call are admissible on the (possibly drained) output pipe:
`backfill_or_panic` finds its placeholder, with the right size. -/
theorem once_opsOk (p : Params) {s : EncState} {nid : Nat} {q0 : Pipe} {σ : BS}
    (hrel : Rel p s nid q0 σ) (q : Pipe) (hq : q.total = q0) (m : Method) (input : List UInt8) :
    OpsOk q ((Enc.consumeOnce p s nid m input).emits.map (·.op)) := by
  obtain ⟨_, _, _, hbr, _, hq0⟩ := hrel
  have hcnt : q.cells.count (Cell.hole s.backref) = s.brLen := by
    rw [← count_hole_total, hq, hq0, count_hole_pipeOf]
  have hk : 1 ≤ s.brLen ∧ s.brLen ≤ 2 := by cases hf : σ.first <;> simp [hbr, hf]
  have hfbr : (flushS s).brLen = s.brLen ∧ (flushS s).backref = s.backref := by
    unfold flushS; split <;> exact ⟨rfl, rfl⟩
  by_cases hA : s.mid ∧ input.head? = some FD
  · rw [consumeOnce_mid p s nid m input hA]
    exact closeE_opsOk p q s hk.1 hk.2 hcnt
  · cases hfs : findStuff (input.take ((flushS s).maxChunk - (flushS s).cur)) with
    | some i =>
      rw [consumeOnce_stuff p s nid m input hA hfs]
      exact appends_close_opsOk p q _ (mem_append_isAppend (flushE_isAppend s) (writeE_isAppend m _ _)) _
        (by simp only; rw [hfbr.1]; exact hk.1) (by simp only; rw [hfbr.1]; exact hk.2)
        (by simp only; rw [hfbr.1, hfbr.2]; exact hcnt)
    | none =>
      by_cases hfull : (input.take ((flushS s).maxChunk - (flushS s).cur)).length
          = (flushS s).maxChunk - (flushS s).cur
      · rw [consumeOnce_full p s nid m input hA hfs hfull]
        exact appends_close_opsOk p q _ (mem_append_isAppend (flushE_isAppend s) (writeE_isAppend m _ _)) _
          (by simp only; rw [hfbr.1]; exact hk.1) (by simp only; rw [hfbr.1]; exact hk.2)
          (by simp only; rw [hfbr.1, hfbr.2]; exact hcnt)
      · rw [consumeOnce_part p s nid m input hA hfs hfull]
        exact opsOk_appends _ _ (all_isAppend_of _
          (mem_append_isAppend (flushE_isAppend s) (writeE_isAppend m _ _)))

theorem finish_opsOk (p : Params) {s : EncState} {nid : Nat} {q0 : Pipe} {σ : BS}
    (hrel : Rel p s nid q0 σ) (q : Pipe) (hq : q.total = q0) :
    OpsOk q ((Enc.finish p s).map (·.op)) := by
  obtain ⟨_, _, _, hbr, _, hq0⟩ := hrel
  have hcnt : q.cells.count (Cell.hole s.backref) = s.brLen := by
    rw [← count_hole_total, hq, hq0, count_hole_pipeOf]
  have hk : 1 ≤ s.brLen ∧ s.brLen ≤ 2 := by cases hf : σ.first <;> simp [hbr, hf]
  have hfbr : (flushS s).brLen = s.brLen ∧ (flushS s).backref = s.backref := by
    unfold flushS; split <;> exact ⟨rfl, rfl⟩
  rw [finish_eq, List.map_append, opsOk_append]
  refine ⟨opsOk_appends _ _ (all_isAppend_of _ (flushE_isAppend s)), ?_⟩
  have hl : ((header p false (flushS s).cur).take (flushS s).brLen).length = (flushS s).brLen := by
    simp [header]; omega
  simp only [Enc.closeHeader, List.map_cons, List.map_nil, OpsOk, OpOk, and_true]
  rw [count_run_appends _ _ (all_isAppend_of _ (flushE_isAppend s)), hfbr.2, hl, hfbr.1]
  exact ⟨by omega, hcnt⟩

/-- Borrowed appends of a `consume_once` call are prefixes of its input. -/
theorem once_borrow_prefix (p : Params) (s : EncState) (nid : Nat) (m : Method) (input : List UInt8) :
    ∀ e ∈ (Enc.consumeOnce p s nid m input).emits, e.method = .borrow → ∀ bs, e.op = .append bs →
      m = .borrow ∧ bs <+: input := by
  have hflush : ∀ e ∈ flushE s, e.method = .borrow → False := by
    intro e he hb
    unfold flushE at he
    split at he
    · simp only [List.mem_singleton] at he; subst he; cases hb
    · cases he
  have hwrite : ∀ (n : Nat) (X : List UInt8), X <+: input → ∀ e ∈ writeE m n X, e.method = .borrow →
      ∀ bs, e.op = .append bs → m = .borrow ∧ bs <+: input := by
    intro n X hX e he hb bs hop
    unfold writeE at he
    split at he
    · cases he
    · simp only [List.mem_singleton] at he; subst he
      simp only [Woodpile.Pipe.Op.append.injEq] at hop; subst hop; exact ⟨hb, hX⟩
  have hclose : ∀ s2, ∀ e ∈ closeE p s2, ∀ bs, e.op = .append bs → False := by
    intro s2 e he bs hop
    simp only [closeE, Enc.closeHeader, List.mem_cons, List.not_mem_nil, or_false] at he
    rcases he with rfl | rfl <;> cases hop
  have ht1 : ∀ r, input.take r <+: input := fun r => List.take_prefix _ _
  have ht2 : ∀ r k, (input.take r).take k <+: input :=
    fun r k => List.IsPrefix.trans (List.take_prefix _ _) (List.take_prefix _ _)
  intro e he hb bs hop
  by_cases hA : s.mid ∧ input.head? = some FD
  · rw [consumeOnce_mid p s nid m input hA] at he
    exact (hclose _ e he bs hop).elim
  · cases hfs : findStuff (input.take ((flushS s).maxChunk - (flushS s).cur)) with
    | some i =>
      rw [consumeOnce_stuff p s nid m input hA hfs] at he
      simp only [List.mem_append] at he
      rcases he with (he | he) | he
      · exact (hflush e he hb).elim
      · exact hwrite _ _ (ht2 _ _) e he hb bs hop
      · exact (hclose _ e he bs hop).elim
    | none =>
      by_cases hfull : (input.take ((flushS s).maxChunk - (flushS s).cur)).length
          = (flushS s).maxChunk - (flushS s).cur
      · rw [consumeOnce_full p s nid m input hA hfs hfull] at he
        simp only [List.mem_append] at he
        rcases he with (he | he) | he
        · exact (hflush e he hb).elim
        · exact hwrite _ _ (ht1 _) e he hb bs hop
        · exact (hclose _ e he bs hop).elim
      · rw [consumeOnce_part p s nid m input hA hfs hfull] at he
        simp only [List.mem_append] at he
        rcases he with he | he
        · exact (hflush e he hb).elim
        · exact hwrite _ _ (ht2 _ _) e he hb bs hop

/-! ### Whole calls -/

theorem encFeed_zero (p : Params) (w : World) (i : Nat) (e : EncW) (m : Method) (base : Slice)
    (input : List UInt8) (pos : Nat) : encFeed p 0 w i e m base input pos = some (w, e) := rfl

theorem encFeed_nil (p : Params) (fuel : Nat) (w : World) (i : Nat) (e : EncW) (m : Method) (base : Slice)
    (pos : Nat) : encFeed p fuel w i e m base [] pos = some (w, e) := by
  cases fuel <;> simp [encFeed]

theorem encFeed_succ (p : Params) (fuel : Nat) (w : World) (i : Nat) (e : EncW) (m : Method) (base : Slice)
    (input : List UInt8) (pos : Nat) (hne : input ≠ []) :
    encFeed p (fuel + 1) w i e m base input pos =
      match applyStep w i e.toks (Enc.consumeOnce p e.st e.nid m input).emits
          { base with off := base.off + pos, len := base.len - pos } with
      | none => none
      | some (w', toks') =>
        encFeed p fuel w' i ⟨(Enc.consumeOnce p e.st e.nid m input).st,
          (Enc.consumeOnce p e.st e.nid m input).nextId, toks'⟩ m base
          (input.drop (Enc.consumeOnce p e.st e.nid m input).consumed)
          (pos + (Enc.consumeOnce p e.st e.nid m input).consumed) := by
  cases input with
  | nil => exact absurd rfl hne
  | cons b t => simp [encFeed]; rfl

/-- One `encode` / `encode_copy` call on the structural iovec: it does not panic, and the iovec
keeps representing the pipe on which the same emits are run. -/
theorem encFeed_sim (p : Params) (hp : p.Valid) (i : Nat) (m : Method) (g : List UInt8) (base : Slice)
    (fuel : Nat) :
    ∀ (w : World) (v : Iov) (e : EncW) (q : Pipe) (σ : BS) (input : List UInt8) (pos : Nat),
    w.iov i = some v → SimV w v g e.toks q → Rel p e.st e.nid q.total σ → σ.Inv p → σ.Inv2 →
    (m = .borrow → ∃ b, base.region = .ext b ∧ InBuf w b (base.off + pos) input) →
    ∃ w' v' e', encFeed p fuel w i e m base input pos = some (w', e') ∧ w'.iov i = some v' ∧
      SimV w' v' g e'.toks (q.run ((Enc.feed p fuel e.st e.nid m input).2.2.map (·.op))) ∧
      e'.st = (Enc.feed p fuel e.st e.nid m input).1 ∧ e'.nid = (Enc.feed p fuel e.st e.nid m input).2.1 ∧
      w'.exts = w.exts := by
  induction fuel with
  | zero =>
    intro w v e q σ input pos hv h _ _ _ _
    exact ⟨w, v, e, rfl, hv, by simpa [feed_zero, Pipe.run] using h, rfl, rfl, rfl⟩
  | succ fuel ih =>
    intro w v e q σ input pos hv h hrel h1 h2 hbuf
    by_cases hne : input = []
    · subst hne
      exact ⟨w, v, e, encFeed_nil .., hv, by simpa [feed_nil, Pipe.run] using h,
        by simp [feed_nil], by simp [feed_nil], rfl⟩
    · have hok := once_opsOk p hrel q rfl m input
      have hsrc : SrcOk w { base with off := base.off + pos, len := base.len - pos }
          (Enc.consumeOnce p e.st e.nid m input).emits := by
        intro x hx hb bs hop
        obtain ⟨hm, hpre⟩ := once_borrow_prefix p e.st e.nid m input x hx hb bs hop
        obtain ⟨b, hb1, hb2⟩ := hbuf hm
        exact ⟨b, hb1, hb2.prefix hpre⟩
      obtain ⟨w1, v1, toks1, g1, g2, g3, g4⟩ := applyStep_sim i g _ _ w v e.toks q hv h hok hsrc
      obtain ⟨hc, hrel'⟩ := consumeOnce_sim p hp e.st e.nid q.total σ m input hrel h1
      obtain ⟨hc0, hc1, hfold⟩ := onceA_eq_fold p σ input hne h1
      rw [← hc] at hc0 hc1 hfold
      obtain ⟨h1', h2'⟩ := fold_inv p hp (input.take (Enc.consumeOnce p e.st e.nid m input).consumed) σ h1 h2
      rw [← hfold] at h1' h2'
      have hrel'' : Rel p (Enc.consumeOnce p e.st e.nid m input).st (Enc.consumeOnce p e.st e.nid m input).nextId
          (q.run ((Enc.consumeOnce p e.st e.nid m input).emits.map (·.op))).total (onceA p σ input).1 := by
        rw [run_total]; exact hrel'
      obtain ⟨w2, v2, e2, k1, k2, k3, k4, k5, k6⟩ := ih w1 v1
        ⟨(Enc.consumeOnce p e.st e.nid m input).st, (Enc.consumeOnce p e.st e.nid m input).nextId, toks1⟩
        _ _ (input.drop (Enc.consumeOnce p e.st e.nid m input).consumed)
        (pos + (Enc.consumeOnce p e.st e.nid m input).consumed) g2 g3 hrel'' h1' h2'
        (by
          intro hm
          obtain ⟨b, hb1, hb2⟩ := hbuf hm
          refine ⟨b, hb1, ?_⟩
          have := (hb2.of_exts g4).drop _ hc1
          rwa [Nat.add_assoc] at this)
      refine ⟨w2, v2, e2, ?_, k2, ?_, ?_, ?_, k6.trans g4⟩
      · rw [encFeed_succ p fuel w i e m base input pos hne, g1]
        exact k1
      · rw [feed_succ p fuel e.st e.nid m input hne]
        simp only [List.map_append, Woodpile.Pipe.run_append]
        exact k3
      · rw [feed_succ p fuel e.st e.nid m input hne]; exact k4
      · rw [feed_succ p fuel e.st e.nid m input hne]; exact k5

/-! ### Whole runs: `Encoder::new`, any calls, `finish` -/

/-- One call on the encoder (`encode` = borrow, `encode_copy` = copy) or on the consumer side of
its iovec (`ConsumingIovec::consume` by slices, `advance_slices` by bytes). -/
inductive Call where
  | feed (m : Method) (d : List UInt8)
  | consume (k : Nat)
  | advance (k : Nat)
  deriving Repr, DecidableEq

/-- The world, the encoder, and every byte the consumer took out so far. -/
structure Run where
  w : World
  e : EncW
  drained : List UInt8

/-- One call, as the harness family `codecw` performs it (`Driver/CodecW.lean`): a borrowed piece
lives in a fresh caller buffer. -/
def encCall (p : Params) (i : Nat) (r : Run) : Call → Option Run
  | .feed .borrow d =>
    (encFeed p (2 * d.length + 2) (r.w.addExt d).1 i r.e .borrow ⟨.ext r.w.exts.length, 0, d.length⟩ d 0).map
      fun x => ⟨x.1, x.2, r.drained⟩
  | .feed .copy d =>
    (encFeed p (2 * d.length + 2) r.w i r.e .copy ⟨.ext 0, 0, 0⟩ d 0).map fun x => ⟨x.1, x.2, r.drained⟩
  | .consume k =>
    match r.w.iov i with
    | none => none
    | some v => (r.w.consume i k).map fun x => ⟨x.1, r.e, r.drained ++ r.w.flat (v.slices.take x.2)⟩
  | .advance k =>
    match r.w.iov i with
    | none => none
    | some v => (r.w.advance i k).map fun x => ⟨x.1, r.e, r.drained ++ (r.w.flat v.slices).take x.2⟩

def encCalls (p : Params) (i : Nat) : Run → List Call → Option Run
  | r, [] => some r
  | r, c :: t =>
    match encCall p i r c with
    | none => none
    | some r' => encCalls p i r' t

/-- A fresh world holding one empty iovec (index 0), as `State.init`. -/
def World.fresh (pol : Policy) (tun : Tuning) : World := ((World.init pol tun).addIov Iov.empty).1

/-- `Encoder::new()`, the calls, `Encoder::finish()`: the final world and the drained bytes. -/
def encRun (p : Params) (pol : Policy) (tun : Tuning) (calls : List Call) : Option (World × List UInt8) :=
  match encInit p (World.fresh pol tun) 0 with
  | none => none
  | some (w1, e1) =>
    match encCalls p 0 ⟨w1, e1, []⟩ calls with
    | none => none
    | some r => (encFinish p r.w 0 r.e).map fun w' => (w', r.drained)

/-- The pieces fed by a call list. -/
def pieces : List Call → List (Method × List UInt8)
  | [] => []
  | .feed m d :: t => (m, d) :: pieces t
  | _ :: t => pieces t

/-- All input bytes of a call list. -/
def inputOf (calls : List Call) : List UInt8 := ((pieces calls).map (·.2)).flatten

theorem runEv_prods (q : Pipe) (ops : List Woodpile.Pipe.Op) : runEv q (ops.map Ev.prod) = q.run ops := by
  induction ops generalizing q with
  | nil => rfl
  | cons op t ih => simp only [List.map_cons, runEv, List.foldl_cons, stepEv, Pipe.run] at ih ⊢; exact ih _

theorem prodOps_prods (ops : List Woodpile.Pipe.Op) : prodOps (ops.map Ev.prod) = ops := by
  induction ops with
  | nil => rfl
  | cons op t ih => simp [prodOps, ih]

/-- The invariant between calls: the iovec represents the pipe `runEv Pipe.empty evs` (producer ops
= the encoder's emits so far, `acc`, with some drain schedule interleaved), whose undrained view
represents the abstract encoder state after `input`. -/
def RunInv (p : Params) (i : Nat) (r : Run) (input : List UInt8) (acc : List Emit) : Prop :=
  ∃ v q evs, r.w.iov i = some v ∧ SimV r.w v r.drained r.e.toks q ∧ q = runEv Pipe.empty evs ∧
    prodOps evs = acc.map (·.op) ∧ Rel p r.e.st r.e.nid q.total (input.foldl (byteStep p) BS.init)

theorem fold_init_inv (p : Params) (hp : p.Valid) (input : List UInt8) :
    (input.foldl (byteStep p) BS.init).Inv p ∧ (input.foldl (byteStep p) BS.init).Inv2 := by
  obtain ⟨h1, h2⟩ := init_inv p hp
  exact fold_inv p hp input BS.init h1 h2

theorem encFeed_run (p : Params) (hp : p.Valid) (i : Nat) (m : Method) (d : List UInt8) (base : Slice)
    (w : World) (e : EncW) (g : List UInt8) (input : List UInt8) (acc : List Emit)
    (hinv : RunInv p i ⟨w, e, g⟩ input acc)
    (hbuf : m = .borrow → ∃ b, base.region = .ext b ∧ InBuf w b (base.off + 0) d) :
    ∃ w' e', encFeed p (2 * d.length + 2) w i e m base d 0 = some (w', e') ∧
      RunInv p i ⟨w', e', g⟩ (input ++ d) (acc ++ (Enc.feedAll p e.st e.nid m d).2.2) ∧
      e'.st = (Enc.feedAll p e.st e.nid m d).1 ∧ e'.nid = (Enc.feedAll p e.st e.nid m d).2.1 := by
  obtain ⟨v, q, evs, hv, hsim, hq, hev, hrel⟩ := hinv
  obtain ⟨h1, h2⟩ := fold_init_inv p hp input
  obtain ⟨w', v', e', k1, k2, k3, k4, k5, _⟩ :=
    encFeed_sim p hp i m g base (2 * d.length + 2) w v e q _ d 0 hv hsim hrel h1 h2 hbuf
  have hfs := feed_sim p hp m (2 * d.length + 2) e.st e.nid q.total _ d hrel h1 h2 (by omega)
  refine ⟨w', e', k1, ?_, k4, k5⟩
  refine ⟨v', _, evs ++ ((Enc.feed p (2 * d.length + 2) e.st e.nid m d).2.2.map (·.op)).map Ev.prod, k2, k3, ?_, ?_, ?_⟩
  · rw [Woodpile.Pipe.runEv_append, ← hq, runEv_prods]
  · rw [Woodpile.Pipe.prodOps_append, hev, prodOps_prods, List.map_append]; rfl
  · rw [k4, k5, run_total, List.foldl_append]
    exact hfs

theorem encCall_sim (p : Params) (hp : p.Valid) (i : Nat) (r : Run) (c : Call) (input : List UInt8)
    (acc : List Emit) (hinv : RunInv p i r input acc) :
    ∃ r' acc', encCall p i r c = some r' ∧ RunInv p i r' (input ++ inputOf [c]) acc' ∧
      ∀ rest, Enc.runPieces.go p (pieces (c :: rest)) r.e.st r.e.nid acc =
        Enc.runPieces.go p (pieces rest) r'.e.st r'.e.nid acc' := by
  obtain ⟨w, e, g⟩ := r
  cases c with
  | feed m d =>
    have hgo : ∀ (e' : EncW), e'.st = (Enc.feedAll p e.st e.nid m d).1 → e'.nid = (Enc.feedAll p e.st e.nid m d).2.1 →
        ∀ rest, Enc.runPieces.go p (pieces (.feed m d :: rest)) e.st e.nid acc =
          Enc.runPieces.go p (pieces rest) e'.st e'.nid (acc ++ (Enc.feedAll p e.st e.nid m d).2.2) := by
      intro e' h1 h2 rest
      rw [h1, h2]; rfl
    have hin : inputOf [Call.feed m d] = d := by simp [inputOf, pieces]
    rw [hin]
    cases m with
    | copy =>
      obtain ⟨w', e', k1, k2, k3, k4⟩ := encFeed_run p hp i .copy d ⟨.ext 0, 0, 0⟩ w e g input acc hinv
        (fun h => by cases h)
      exact ⟨⟨w', e', g⟩, _, by simp [encCall, k1], k2, hgo e' k3 k4⟩
    | borrow =>
      obtain ⟨v, q, evs, hv, hsim, hrest⟩ := hinv
      have hinv' : RunInv p i ⟨(w.addExt d).1, e, g⟩ input acc := ⟨v, q, evs, hv, hsim.addExt d, hrest⟩
      obtain ⟨w', e', k1, k2, k3, k4⟩ := encFeed_run p hp i .borrow d ⟨.ext w.exts.length, 0, d.length⟩
        (w.addExt d).1 e g input acc hinv' (fun _ => ⟨w.exts.length, rfl, InBuf.addExt w d⟩)
      exact ⟨⟨w', e', g⟩, _, by simp [encCall, k1], k2, hgo e' k3 k4⟩
  | consume k =>
    obtain ⟨v, q, evs, hv, hsim, hq, hev, hrel⟩ := hinv
    simp only at hv hsim hrel
    obtain ⟨v', h1, h2, _⟩ := World.consume_spec w i v k hv hsim.inv
    have hm : sumLens (v.slices.take (min k v.stableN)) ≤ sumLens (v.slices.take v.stableN) :=
      sumLens_take_mono _ (Nat.min_le_right _ _)
    obtain ⟨g1, _, _⟩ := hsim.consumed h2 hm
    rw [flat_take_prefix w v.arena v.slices _ hsim.inv.slices_ok] at g1
    refine ⟨⟨w.setIov i (some v'), e, g ++ w.flat (v.slices.take (min k v.stableN))⟩, acc,
      by simp [encCall, hv, h1], ?_, fun rest => rfl⟩
    refine ⟨v', _, evs ++ [.drain (sumLens (v.slices.take (min k v.stableN)))], by simp, g1.setIov i _, ?_, ?_, ?_⟩
    · rw [Woodpile.Pipe.runEv_append, ← hq]; rfl
    · rw [Woodpile.Pipe.prodOps_append, hev]; simp [prodOps]
    · simp only [inputOf, pieces, List.map_nil, List.flatten_nil, List.append_nil]
      rw [Woodpile.Pipe.consume_total]; exact hrel
  | advance k =>
    obtain ⟨v, q, evs, hv, hsim, hq, hev, hrel⟩ := hinv
    simp only at hv hsim hrel
    obtain ⟨v', h1, h2⟩ := World.advance_spec w i v k hv hsim.inv
    obtain ⟨g1, _, _⟩ := hsim.consumed h2 (Nat.min_le_right _ _)
    refine ⟨⟨w.setIov i (some v'), e, g ++ (w.flat v.slices).take (min k (sumLens (v.slices.take v.stableN)))⟩, acc,
      by simp [encCall, hv, h1], ?_, fun rest => rfl⟩
    refine ⟨v', _, evs ++ [.drain (min k (sumLens (v.slices.take v.stableN)))], by simp, g1.setIov i _, ?_, ?_, ?_⟩
    · rw [Woodpile.Pipe.runEv_append, ← hq]; rfl
    · rw [Woodpile.Pipe.prodOps_append, hev]; simp [prodOps]
    · simp only [inputOf, pieces, List.map_nil, List.flatten_nil, List.append_nil]
      rw [Woodpile.Pipe.consume_total]; exact hrel

theorem inputOf_cons (c : Call) (t : List Call) : inputOf (c :: t) = inputOf [c] ++ inputOf t := by
  cases c <;> simp [inputOf, pieces]

theorem encCalls_sim (p : Params) (hp : p.Valid) (i : Nat) (calls : List Call) :
    ∀ (r : Run) (input : List UInt8) (acc : List Emit), RunInv p i r input acc →
    ∃ r' acc', encCalls p i r calls = some r' ∧ RunInv p i r' (input ++ inputOf calls) acc' ∧
      Enc.runPieces.go p (pieces calls) r.e.st r.e.nid acc = Enc.runPieces.go p [] r'.e.st r'.e.nid acc' := by
  induction calls with
  | nil =>
    intro r input acc h
    exact ⟨r, acc, rfl, by simpa [inputOf, pieces] using h, rfl⟩
  | cons c t ih =>
    intro r input acc h
    obtain ⟨r1, acc1, h1, h2, h3⟩ := encCall_sim p hp i r c input acc h
    obtain ⟨r2, acc2, k1, k2, k3⟩ := ih r1 _ acc1 h2
    refine ⟨r2, acc2, by simp [encCalls, h1, k1], ?_, (h3 t).trans k3⟩
    rw [inputOf_cons, ← List.append_assoc]; exact k2

theorem simV_fresh (pol : Policy) (tun : Tuning) : SimV (World.fresh pol tun) Iov.empty [] [] Woodpile.Pipe.empty :=
  { inv := IovInv.empty _ ⟨none⟩ (by intro ca h; cases h)
    cells := rfl
    ghost := rfl
    nid := rfl
    holes_lt := by intro j hj; cases hj
    tk_sorted := List.Pairwise.nil
    tk_le := by intro b hb; cases hb
    tk_ok := by intro e he; cases he
    tk_len := by intro j e hj; simp at hj }

/-- `Encoder::new` on a fresh iovec. -/
theorem encInit_sim (p : Params) (pol : Policy) (tun : Tuning) :
    ∃ w1 e1, encInit p (World.fresh pol tun) 0 = some (w1, e1) ∧
      RunInv p 0 ⟨w1, e1, []⟩ [] (Enc.init p 0).2 ∧ e1.st = (Enc.init p 0).1 ∧ e1.nid = 1 := by
  have hv : (World.fresh pol tun).iov 0 = some Iov.empty := rfl
  obtain ⟨w1, v1, toks1, h1, h2, h3, _⟩ := applyStep_sim 0 [] ⟨.ext 0, 0, 0⟩ (Enc.init p 0).2
    (World.fresh pol tun) Iov.empty [] Woodpile.Pipe.empty hv (simV_fresh pol tun)
    (by simp [Enc.init, OpsOk, OpOk])
    (by intro e he hb; simp only [Enc.init, List.mem_singleton] at he; subst he; cases hb)
  refine ⟨w1, ⟨(Enc.init p 0).1, 1, toks1⟩, by simp only [encInit, h1], ?_, rfl, rfl⟩
  refine ⟨v1, _, ((Enc.init p 0).2.map (·.op)).map Ev.prod, h2, h3, (runEv_prods _ _).symm, prodOps_prods _, ?_⟩
  rw [run_total, Woodpile.Pipe.total_empty]
  exact ⟨rfl, rfl, rfl, rfl, rfl, rfl⟩

theorem finish_no_borrow (p : Params) (s : EncState) : ∀ e ∈ Enc.finish p s, e.method = .borrow → False := by
  intro e he hb
  rw [finish_eq] at he
  simp only [List.mem_append, List.mem_singleton] at he
  rcases he with he | he
  · unfold flushE at he
    split at he
    · simp only [List.mem_singleton] at he; subst he; cases hb
    · cases he
  · subst he; cases hb

theorem cells_of_total_bytes (q : Pipe) (bs : List UInt8) (h : q.total.cells = bs.map Cell.byte) :
    q.cells.any (fun c => !c.isByte) = false ∧ q.consumed ++ cellBytes q.cells = bs := by
  simp only [Woodpile.Pipe.Pipe.total] at h
  constructor
  · have : q.cells = (bs.drop q.consumed.length).map Cell.byte := by
      have := congrArg (List.drop q.consumed.length) h
      rw [List.drop_left' (by simp)] at this
      rw [this, List.map_drop]
    rw [this]; exact Woodpile.Pipe.any_hole_map_byte _
  · have := congrArg cellBytes h
    rw [Woodpile.Pipe.cellBytes_append] at this
    simpa using this

/-- `Encoder::finish`: does not panic; afterwards nothing is pending, no renaming is left, and
drained ++ buffered is `Spec.encode` of all the input. -/
theorem encFinish_sim (p : Params) (hp : p.Valid) (i : Nat) (r : Run) (input : List UInt8) (acc : List Emit)
    (h : RunInv p i r input acc) :
    ∃ w' v' evs, encFinish p r.w i r.e = some w' ∧ w'.iov i = some v' ∧ IovInv w' v' ∧
      prodOps evs = (acc ++ Enc.finish p r.e.st).map (·.op) ∧
      absCells w' v' = (runEv Woodpile.Pipe.empty evs).cells ∧
      r.drained = (runEv Woodpile.Pipe.empty evs).consumed ∧
      v'.hasPending = false ∧ r.drained ++ w'.flat v'.slices = Spec.encode p input ∧
      w'.visible v' = w'.flat v'.slices := by
  obtain ⟨v, q, evs, hv, hsim, hq, hev, hrel⟩ := h
  obtain ⟨h1, _⟩ := fold_init_inv p hp input
  obtain ⟨w', v', toks', k1, k2, k3, _⟩ := applyStep_sim i r.drained ⟨.ext 0, 0, 0⟩ (Enc.finish p r.e.st)
    r.w v r.e.toks q hv hsim (finish_opsOk p hrel q rfl)
    (fun e he hb => (finish_no_borrow p _ e he hb).elim)
  have hfin := finish_sim p hp r.e.st r.e.nid q.total _ hrel h1
  rw [fold_finish_encode p hp input] at hfin
  have htot : (q.run ((Enc.finish p r.e.st).map (·.op))).total.cells = (Spec.encode p input).map Cell.byte := by
    rw [run_total]; unfold runE at hfin; rw [hfin]
  obtain ⟨hnh, hbytes⟩ := cells_of_total_bytes _ _ htot
  have hcells : absCells w' v' = (q.run ((Enc.finish p r.e.st).map (·.op))).cells := by
    rw [k3.cells, rename_of_no_hole _ _ hnh]
  have hpend : v'.hasPending = false := by
    rw [hasPending_eq_pending k3.inv, hcells]; exact hnh
  obtain ⟨g1, g2⟩ := visible_all_of_no_pending k3.inv hpend
  have hflat : w'.flat v'.slices = cellBytes (q.run ((Enc.finish p r.e.st).map (·.op))).cells := by
    rw [← hcells, g2, g1]; simp
  refine ⟨w', v', evs ++ ((Enc.finish p r.e.st).map (·.op)).map Ev.prod, by simp only [encFinish, k1]; rfl, k2,
    k3.inv, ?_, ?_, ?_, hpend, ?_, g1⟩
  · rw [Woodpile.Pipe.prodOps_append, hev, prodOps_prods, List.map_append]
  · rw [Woodpile.Pipe.runEv_append, ← hq, runEv_prods]; exact hcells
  · rw [Woodpile.Pipe.runEv_append, ← hq, runEv_prods]; exact k3.ghost
  · rw [hflat, k3.ghost]; exact hbytes

/-- `Encoder::new` followed by any calls: never panics; the invariant holds between calls. -/
def encPrefix (p : Params) (pol : Policy) (tun : Tuning) (calls : List Call) : Option Run :=
  match encInit p (World.fresh pol tun) 0 with
  | none => none
  | some (w1, e1) => encCalls p 0 ⟨w1, e1, []⟩ calls

theorem encPrefix_inv (p : Params) (hp : p.Valid) (pol : Policy) (tun : Tuning) (calls : List Call) :
    ∃ r acc, encPrefix p pol tun calls = some r ∧ RunInv p 0 r (inputOf calls) acc ∧
      Enc.runPieces p (pieces calls) = acc ++ Enc.finish p r.e.st := by
  obtain ⟨w1, e1, h1, h2, h3, h4⟩ := encInit_sim p pol tun
  obtain ⟨r, acc, k1, k2, k3⟩ := encCalls_sim p hp 0 calls ⟨w1, e1, []⟩ [] _ h2
  refine ⟨r, acc, by simp only [encPrefix, h1, k1], by simpa using k2, ?_⟩
  simp only at k3
  rw [h3, h4] at k3
  exact k3

theorem encRun_eq (p : Params) (pol : Policy) (tun : Tuning) (calls : List Call) :
    encRun p pol tun calls =
      match encPrefix p pol tun calls with
      | none => none
      | some r => (encFinish p r.w 0 r.e).map fun w' => (w', r.drained) := by
  unfold encRun encPrefix
  cases encInit p (World.fresh pol tun) 0 with
  | none => rfl
  | some x => rfl

/-- The whole run. -/
theorem encRun_sim (p : Params) (hp : p.Valid) (pol : Policy) (tun : Tuning) (calls : List Call) :
    ∃ w' v' dr evs, encRun p pol tun calls = some (w', dr) ∧ w'.iov 0 = some v' ∧ IovInv w' v' ∧
      prodOps evs = (Enc.runPieces p (pieces calls)).map (·.op) ∧
      absCells w' v' = (runEv Woodpile.Pipe.empty evs).cells ∧
      dr = (runEv Woodpile.Pipe.empty evs).consumed ∧
      v'.hasPending = false ∧ dr ++ w'.flat v'.slices = Spec.encode p (inputOf calls) ∧
      w'.visible v' = w'.flat v'.slices := by
  obtain ⟨r, acc, h1, h2, h3⟩ := encPrefix_inv p hp pol tun calls
  obtain ⟨w', v', evs, k1, k2, k3, k4, k5, k6, k7, k8, k9⟩ := encFinish_sim p hp 0 r _ acc h2
  refine ⟨w', v', r.drained, evs, ?_, k2, k3, by rw [h3]; exact k4, k5, k6, k7, k8, k9⟩
  rw [encRun_eq, h1]
  simp only [k1, Option.map_some]

/-! ### Target 1: the run as a list of operations of the C03/C04 vocabulary -/

/-- What the codec, its caller and its consumer do to the world: the operations of C03/C04
(`Woodpile.Iovec.Op`), with `Op.push b` split into its two halves — the caller making a buffer known
to the world (`lend`; not an iovec call) and `OwningIovec::push` of a slice of an already known
buffer (`pushAt`).  (`Op.push b` lends a fresh buffer for every push; the encoder pushes many
sub-slices of ONE caller buffer.) -/
inductive XOp where
  | lend (buf : List UInt8)
  | pushAt (s : Slice)
  | op (o : Woodpile.Iovec.Op)
  deriving Repr, DecidableEq

def xstep (i : Nat) (s : State) : XOp → Option (State × Ret)
  | .lend buf => some ({ s with w := (s.w.addExt buf).1 }, .unit)
  | .pushAt sl => (s.w.push i sl).map fun w' => ({ s with w := w' }, .unit)
  | .op o => step i s o

def xrun (i : Nat) : State → List XOp → Option (State × List Ret)
  | s, [] => some (s, [])
  | s, o :: ops =>
    match xstep i s o with
    | none => none
    | some (s', r) =>
      match xrun i s' ops with
      | none => none
      | some (s'', rs) => some (s'', r :: rs)

/-- `Op.push b` is `lend` of `b`'s buffer followed by `pushAt` of the lent slice. -/
theorem push_is_lend_pushAt (i : Nat) (s : State) (b : Borrow) :
    (xrun i s [.op (.push b)]).map (·.1) =
      (xrun i s [.lend (b.pre ++ b.bs ++ b.post), .pushAt (s.w.lend b).2]).map (·.1) := by
  have e : (s.w.addExt (b.pre ++ b.bs ++ b.post)).1 = (s.w.lend b).1 := rfl
  simp only [xrun, xstep, step, e]
  cases h : (s.w.lend b).1.push i (s.w.lend b).2 <;> rfl

/-- `ops` runs from `s` to `s'` without panicking. -/
def XR (i : Nat) (s : State) (ops : List XOp) (s' : State) : Prop := ∃ rs, xrun i s ops = some (s', rs)

theorem XR.nil (i : Nat) (s : State) : XR i s [] s := ⟨[], rfl⟩

theorem XR.cons {i : Nat} {s s1 s2 : State} {o : XOp} {ops : List XOp} {r : Ret}
    (h1 : xstep i s o = some (s1, r)) (h2 : XR i s1 ops s2) : XR i s (o :: ops) s2 := by
  obtain ⟨rs, h2⟩ := h2
  exact ⟨r :: rs, by simp [xrun, h1, h2]⟩

theorem XR.append {i : Nat} {s s1 s2 : State} {a b : List XOp} (h1 : XR i s a s1) (h2 : XR i s1 b s2) :
    XR i s (a ++ b) s2 := by
  induction a generalizing s with
  | nil =>
    obtain ⟨rs, h1⟩ := h1
    simp only [xrun, Option.some.injEq, Prod.mk.injEq] at h1
    obtain ⟨rfl, _⟩ := h1
    exact h2
  | cons o t ih =>
    obtain ⟨rs, h1⟩ := h1
    simp only [xrun] at h1
    cases hs : xstep i s o with
    | none => rw [hs] at h1; cases h1
    | some sr =>
      obtain ⟨s', r⟩ := sr
      rw [hs] at h1
      simp only at h1
      cases hr : xrun i s' t with
      | none => rw [hr] at h1; cases h1
      | some srs =>
        obtain ⟨s'', rs'⟩ := srs
        rw [hr] at h1
        simp only [Option.some.injEq, Prod.mk.injEq] at h1
        obtain ⟨rfl, _⟩ := h1
        exact XR.cons hs (ih ⟨rs', hr⟩)

/-- The operation an emit becomes (`toks` = the tokens returned by the registrations so far). -/
def emitOp (toks : List Backref) (e : Emit) (src : Slice) : XOp :=
  match e.op with
  | .append bs =>
    match e.method with
    | .copy => .op (.pushCopy bs)
    | .borrow => .pushAt { src with len := bs.length }
  | .register n => .op (.registerPatch (List.replicate n 0))
  | .fill id bs => .op (.backfill (toks.getD id none) bs)

theorem applyEmit_xstep {w w' : World} {i : Nat} {toks toks' : List Backref} {e : Emit} {src : Slice}
    (g : List UInt8) (n : Nat) (h : applyEmit w i toks e src = some (w', toks')) :
    ∃ r n', xstep i ⟨w, g, n⟩ (emitOp toks e src) = some (⟨w', g, n'⟩, r) := by
  obtain ⟨op, m⟩ := e
  cases op with
  | append bs =>
    cases m with
    | copy =>
      simp only [applyEmit, Option.map_eq_some_iff, Prod.mk.injEq] at h
      obtain ⟨w1, h1, rfl, _⟩ := h
      exact ⟨.unit, n, by simp [emitOp, xstep, step, h1]⟩
    | borrow =>
      simp only [applyEmit, Option.map_eq_some_iff, Prod.mk.injEq] at h
      obtain ⟨w1, h1, rfl, _⟩ := h
      exact ⟨.unit, n, by simp [emitOp, xstep, h1]⟩
  | register k =>
    simp only [applyEmit] at h
    cases h1 : w.registerPatch i (List.replicate k 0) with
    | none => rw [h1] at h; cases h
    | some x =>
      obtain ⟨w1, b⟩ := x
      rw [h1] at h
      simp only [Option.some.injEq, Prod.mk.injEq] at h
      obtain ⟨rfl, _⟩ := h
      exact ⟨.token b, n + 1, by simp [emitOp, xstep, step, h1]⟩
  | fill id bs =>
    simp only [applyEmit] at h
    cases h0 : toks[id]? with
    | none => rw [h0] at h; cases h
    | some b =>
      rw [h0] at h
      simp only [Option.map_eq_some_iff, Prod.mk.injEq] at h
      obtain ⟨w1, h1, rfl, _⟩ := h
      exact ⟨.unit, n, by simp [emitOp, xstep, step, h0, h1]⟩

/-- The operations of one state-machine step. -/
def stepOps (w : World) (i : Nat) (toks : List Backref) : List Emit → Slice → List XOp
  | [], _ => []
  | e :: rest, src =>
    emitOp toks e src ::
      match applyEmit w i toks e src with
      | some (w', toks') => stepOps w' i toks' rest src
      | none => []

theorem applyStep_xrun {i : Nat} {src : Slice} (g : List UInt8) (es : List Emit) :
    ∀ {w w' : World} {toks toks' : List Backref} (n : Nat), applyStep w i toks es src = some (w', toks') →
      ∃ n', XR i ⟨w, g, n⟩ (stepOps w i toks es src) ⟨w', g, n'⟩ := by
  induction es with
  | nil =>
    intro w w' toks toks' n h
    simp only [applyStep, Option.some.injEq, Prod.mk.injEq] at h
    obtain ⟨rfl, _⟩ := h
    exact ⟨n, XR.nil _ _⟩
  | cons e t ih =>
    intro w w' toks toks' n h
    simp only [applyStep] at h
    cases h1 : applyEmit w i toks e src with
    | none => rw [h1] at h; cases h
    | some x =>
      obtain ⟨w1, toks1⟩ := x
      rw [h1] at h
      obtain ⟨r, n1, hx⟩ := applyEmit_xstep g n h1
      obtain ⟨n2, h2⟩ := ih n1 h
      refine ⟨n2, ?_⟩
      simp only [stepOps, h1]
      exact XR.cons hx h2

/-- The operations of one `encode` / `encode_copy` call. -/
def feedOps (p : Params) : Nat → World → Nat → EncW → Method → Slice → List UInt8 → Nat → List XOp
  | 0, _, _, _, _, _, _, _ => []
  | fuel + 1, w, i, e, m, base, input, pos =>
    if input.isEmpty then []
    else
      stepOps w i e.toks (Enc.consumeOnce p e.st e.nid m input).emits
          { base with off := base.off + pos, len := base.len - pos } ++
        match applyStep w i e.toks (Enc.consumeOnce p e.st e.nid m input).emits
            { base with off := base.off + pos, len := base.len - pos } with
        | none => []
        | some (w', toks') =>
          feedOps p fuel w' i ⟨(Enc.consumeOnce p e.st e.nid m input).st,
            (Enc.consumeOnce p e.st e.nid m input).nextId, toks'⟩ m base
            (input.drop (Enc.consumeOnce p e.st e.nid m input).consumed)
            (pos + (Enc.consumeOnce p e.st e.nid m input).consumed)

theorem encFeed_xrun (p : Params) (i : Nat) (m : Method) (base : Slice) (g : List UInt8) (fuel : Nat) :
    ∀ (w w' : World) (e e' : EncW) (input : List UInt8) (pos n : Nat),
      encFeed p fuel w i e m base input pos = some (w', e') →
      ∃ n', XR i ⟨w, g, n⟩ (feedOps p fuel w i e m base input pos) ⟨w', g, n'⟩ := by
  induction fuel with
  | zero =>
    intro w w' e e' input pos n h
    simp only [encFeed_zero, Option.some.injEq, Prod.mk.injEq] at h
    obtain ⟨rfl, _⟩ := h
    exact ⟨n, XR.nil _ _⟩
  | succ fuel ih =>
    intro w w' e e' input pos n h
    by_cases hne : input = []
    · subst hne
      simp only [encFeed_nil, Option.some.injEq, Prod.mk.injEq] at h
      obtain ⟨rfl, _⟩ := h
      exact ⟨n, by simp only [feedOps, List.isEmpty_nil, if_true]; exact XR.nil _ _⟩
    · rw [encFeed_succ p fuel w i e m base input pos hne] at h
      have hie : input.isEmpty = false := by cases input with | nil => exact absurd rfl hne | cons _ _ => rfl
      cases h1 : applyStep w i e.toks (Enc.consumeOnce p e.st e.nid m input).emits
          { base with off := base.off + pos, len := base.len - pos } with
      | none => rw [h1] at h; cases h
      | some x =>
        obtain ⟨w1, toks1⟩ := x
        rw [h1] at h
        obtain ⟨n1, hx⟩ := applyStep_xrun g _ n h1
        obtain ⟨n2, h2⟩ := ih w1 w' _ e' _ _ n1 h
        refine ⟨n2, ?_⟩
        simp only [feedOps, hie, Bool.false_eq_true, if_false, h1]
        exact XR.append hx h2

/-- The operations of one call. -/
def callOps (p : Params) (i : Nat) (r : Run) : Call → List XOp
  | .feed .borrow d =>
    .lend d :: feedOps p (2 * d.length + 2) (r.w.addExt d).1 i r.e .borrow ⟨.ext r.w.exts.length, 0, d.length⟩ d 0
  | .feed .copy d => feedOps p (2 * d.length + 2) r.w i r.e .copy ⟨.ext 0, 0, 0⟩ d 0
  | .consume k => [.op (.consume k)]
  | .advance k => [.op (.advance k)]

def callsOps (p : Params) (i : Nat) : Run → List Call → List XOp
  | _, [] => []
  | r, c :: t =>
    callOps p i r c ++
      match encCall p i r c with
      | some r' => callsOps p i r' t
      | none => []

theorem encCall_xrun (p : Params) (i : Nat) (r r' : Run) (c : Call) (n : Nat) (h : encCall p i r c = some r') :
    ∃ n', XR i ⟨r.w, r.drained, n⟩ (callOps p i r c) ⟨r'.w, r'.drained, n'⟩ := by
  cases c with
  | feed m d =>
    cases m with
    | copy =>
      simp only [encCall, Option.map_eq_some_iff] at h
      obtain ⟨x, h1, rfl⟩ := h
      exact encFeed_xrun p i .copy _ r.drained _ r.w x.1 r.e x.2 d 0 n h1
    | borrow =>
      simp only [encCall, Option.map_eq_some_iff] at h
      obtain ⟨x, h1, rfl⟩ := h
      obtain ⟨n', h2⟩ := encFeed_xrun p i .borrow _ r.drained _ (r.w.addExt d).1 x.1 r.e x.2 d 0 n h1
      exact ⟨n', XR.cons (r := .unit) rfl h2⟩
  | consume k =>
    simp only [encCall] at h
    cases hv : r.w.iov i with
    | none => rw [hv] at h; cases h
    | some v =>
      rw [hv] at h
      simp only [Option.map_eq_some_iff] at h
      obtain ⟨x, h1, rfl⟩ := h
      refine ⟨n, XR.cons (r := .took x.2 (r.w.flat (v.slices.take x.2))) ?_ (XR.nil _ _)⟩
      simp [xstep, step, hv, h1]
  | advance k =>
    simp only [encCall] at h
    cases hv : r.w.iov i with
    | none => rw [hv] at h; cases h
    | some v =>
      rw [hv] at h
      simp only [Option.map_eq_some_iff] at h
      obtain ⟨x, h1, rfl⟩ := h
      refine ⟨n, XR.cons (r := .took x.2 ((r.w.flat v.slices).take x.2)) ?_ (XR.nil _ _)⟩
      simp [xstep, step, hv, h1]

theorem encCalls_xrun (p : Params) (i : Nat) (calls : List Call) :
    ∀ (r r' : Run) (n : Nat), encCalls p i r calls = some r' →
      ∃ n', XR i ⟨r.w, r.drained, n⟩ (callsOps p i r calls) ⟨r'.w, r'.drained, n'⟩ := by
  induction calls with
  | nil =>
    intro r r' n h
    simp only [encCalls, Option.some.injEq] at h
    subst h
    exact ⟨n, XR.nil _ _⟩
  | cons c t ih =>
    intro r r' n h
    simp only [encCalls] at h
    cases h1 : encCall p i r c with
    | none => rw [h1] at h; cases h
    | some r1 =>
      rw [h1] at h
      obtain ⟨n1, hx⟩ := encCall_xrun p i r r1 c n h1
      obtain ⟨n2, h2⟩ := ih r1 r' n1 h
      exact ⟨n2, by simp only [callsOps, h1]; exact XR.append hx h2⟩

/-- The operation list of a whole run: `Encoder::new`'s, each call's, `finish`'s. -/
def encRunOps (p : Params) (pol : Policy) (tun : Tuning) (calls : List Call) : List XOp :=
  stepOps (World.fresh pol tun) 0 [] (Enc.init p 0).2 ⟨.ext 0, 0, 0⟩ ++
    match encInit p (World.fresh pol tun) 0 with
    | none => []
    | some (w1, e1) =>
      callsOps p 0 ⟨w1, e1, []⟩ calls ++
        match encCalls p 0 ⟨w1, e1, []⟩ calls with
        | none => []
        | some r => stepOps r.w 0 r.e.toks (Enc.finish p r.e.st) ⟨.ext 0, 0, 0⟩

theorem encRun_xrun (p : Params) (pol : Policy) (tun : Tuning) (calls : List Call) (w' : World) (dr : List UInt8)
    (h : encRun p pol tun calls = some (w', dr)) :
    ∃ n, XR 0 (State.init pol tun) (encRunOps p pol tun calls) ⟨w', dr, n⟩ := by
  unfold encRun at h
  cases h0 : applyStep (World.fresh pol tun) 0 [] (Enc.init p 0).2 ⟨.ext 0, 0, 0⟩ with
  | none => simp [encInit, h0] at h
  | some x =>
    obtain ⟨w1, toks1⟩ := x
    have hi : encInit p (World.fresh pol tun) 0 = some (w1, ⟨(Enc.init p 0).1, 1, toks1⟩) := by
      simp only [encInit, h0]
    rw [hi] at h
    simp only at h
    obtain ⟨n1, hx1⟩ := applyStep_xrun (i := 0) [] _ 0 h0
    cases h1 : encCalls p 0 ⟨w1, ⟨(Enc.init p 0).1, 1, toks1⟩, []⟩ calls with
    | none => rw [h1] at h; cases h
    | some r =>
      rw [h1] at h
      simp only [encFinish, Option.map_eq_some_iff, Prod.mk.injEq] at h
      obtain ⟨wf, ⟨x, h2, rfl⟩, rfl, rfl⟩ := h
      obtain ⟨n2, hx2⟩ := encCalls_xrun p 0 calls _ r n1 h1
      obtain ⟨n3, hx3⟩ := applyStep_xrun (i := 0) r.drained _ n2 (toks' := x.2) (w' := x.1) h2
      refine ⟨n3, ?_⟩
      unfold encRunOps
      rw [hi]
      simp only [h1]
      exact XR.append hx1 (XR.append hx2 hx3)

/-! ### The decoder -/

/-- What one decoder step emits: nothing borrowed on error; on success it consumes at most its
input, and a borrowed append (only by the borrow method) is a prefix of the input. -/
theorem dec_once_src (p : Params) (m : Method) (s : DecState) (b : UInt8) (rest : List UInt8) :
    (∀ err es, Dec.once p m s b rest = .error (err, es) → ∀ e ∈ es, e.method = .borrow → False) ∧
    (∀ o, Dec.once p m s b rest = .ok o → o.consumed ≤ (b :: rest).length ∧
      ∀ e ∈ o.emits, e.method = .borrow → ∀ bs, e.op = .append bs → m = .borrow ∧ bs <+: (b :: rest)) := by
  constructor
  · intro err es h e he hb
    cases s with
    | initial =>
      simp only [Dec.once] at h
      split at h
      · cases h; cases he
      · split at h <;> cases h
    | beforeChunk ins =>
      simp only [Dec.once] at h
      split at h
      · cases h
        cases ins
        · cases he
        · simp only [if_true, List.mem_singleton] at he; subst he; cases hb
      · cases h
    | midHeader b0 =>
      simp only [Dec.once] at h
      split at h
      · cases h; cases he
      · split at h
        · cases h; cases he
        · split at h <;> cases h
    | inChunk rem term => simp only [Dec.once] at h; cases h
  · intro o h
    cases s with
    | initial =>
      simp only [Dec.once] at h
      split at h
      · cases h
      · split at h <;> (cases h; exact ⟨by simp, by intro e he; cases he⟩)
    | beforeChunk ins =>
      simp only [Dec.once] at h
      split at h
      · cases h
      · cases h
        refine ⟨by simp, ?_⟩
        intro e he hb
        cases ins
        · cases he
        · simp only [if_true, List.mem_singleton] at he; subst he; cases hb
    | midHeader b0 =>
      simp only [Dec.once] at h
      split at h
      · cases h
      · split at h
        · cases h
        · split at h <;> (cases h; exact ⟨by simp, by intro e he; cases he⟩)
    | inChunk rem term =>
      simp only [Dec.once, Except.ok.injEq] at h
      subst h
      refine ⟨Nat.min_le_left _ _, ?_⟩
      intro e he hb bs hop
      simp only [List.mem_singleton] at he
      subst he
      simp only [Woodpile.Pipe.Op.append.injEq] at hop
      subst hop
      exact ⟨hb, List.take_prefix _ _⟩

theorem applyEmit_toks_append {w w' : World} {i : Nat} {toks toks' : List Backref} {e : Emit} {src : Slice}
    (ha : Woodpile.Pipe.Op.isAppend e.op = true) (h : applyEmit w i toks e src = some (w', toks')) : toks' = toks := by
  obtain ⟨op, m⟩ := e
  cases op with
  | append bs =>
    cases m <;> simp only [applyEmit, Option.map_eq_some_iff, Prod.mk.injEq] at h <;>
      (obtain ⟨_, _, _, h2⟩ := h; exact h2.symm)
  | register n => simp [Woodpile.Pipe.Op.isAppend] at ha
  | fill id bs => simp [Woodpile.Pipe.Op.isAppend] at ha

theorem applyStep_toks_appends {i : Nat} {src : Slice} (es : List Emit)
    (ha : (es.map (·.op)).all Woodpile.Pipe.Op.isAppend = true) :
    ∀ {w w' : World} {toks toks' : List Backref}, applyStep w i toks es src = some (w', toks') → toks' = toks := by
  induction es with
  | nil =>
    intro w w' toks toks' h
    simp only [applyStep, Option.some.injEq, Prod.mk.injEq] at h
    exact h.2.symm
  | cons e t ih =>
    intro w w' toks toks' h
    simp only [List.map_cons, List.all_cons, Bool.and_eq_true] at ha
    simp only [applyStep] at h
    cases h1 : applyEmit w i toks e src with
    | none => rw [h1] at h; cases h
    | some x =>
      obtain ⟨w1, toks1⟩ := x
      rw [h1] at h
      have := applyEmit_toks_append ha.1 h1
      subst this
      exact ih ha.2 h

theorem decFeed_zero (p : Params) (m : Method) (w : World) (i : Nat) (s : DecState) (base : Slice)
    (input : List UInt8) (pos : Nat) : decFeed p m 0 w i s base input pos = some (w, .ok s) := rfl

theorem decFeed_nil (p : Params) (m : Method) (fuel : Nat) (w : World) (i : Nat) (s : DecState) (base : Slice)
    (pos : Nat) : decFeed p m fuel w i s base [] pos = some (w, .ok s) := by
  cases fuel <;> rfl

theorem decFeed_cons_error (p : Params) (m : Method) (fuel : Nat) (w : World) (i : Nat) (s : DecState)
    (base : Slice) (b : UInt8) (rest : List UInt8) (pos : Nat) (err : DecErr) (es : List Emit)
    (h : Dec.once p m s b rest = .error (err, es)) :
    decFeed p m (fuel + 1) w i s base (b :: rest) pos =
      match applyStep w i [] es base with
      | some (w', _) => some (w', .error err)
      | none => none := by
  simp only [decFeed, h]; rfl

theorem decFeed_cons_ok (p : Params) (m : Method) (fuel : Nat) (w : World) (i : Nat) (s : DecState)
    (base : Slice) (b : UInt8) (rest : List UInt8) (pos : Nat) (o : Dec.OnceOut)
    (h : Dec.once p m s b rest = .ok o) :
    decFeed p m (fuel + 1) w i s base (b :: rest) pos =
      match applyStep w i [] o.emits { base with off := base.off + pos, len := base.len - pos } with
      | none => none
      | some (w', _) => decFeed p m fuel w' i o.st base ((b :: rest).drop o.consumed) (pos + o.consumed) := by
  simp only [decFeed, h]; rfl

theorem decfeed_cons_error (p : Params) (m : Method) (fuel : Nat) (s : DecState) (b : UInt8) (rest : List UInt8)
    (ee : DecErr × List Emit) (h : Dec.once p m s b rest = .error ee) :
    Dec.feed p m (fuel + 1) s (b :: rest) = .error ee := by
  simp only [Dec.feed, h]

theorem decfeed_cons_ok (p : Params) (m : Method) (fuel : Nat) (s : DecState) (b : UInt8) (rest : List UInt8)
    (o : Dec.OnceOut) (h : Dec.once p m s b rest = .ok o) :
    Dec.feed p m (fuel + 1) s (b :: rest) =
      match Dec.feed p m fuel o.st ((b :: rest).drop o.consumed) with
      | .error (e, es) => .error (e, o.emits ++ es)
      | .ok (s', es) => .ok (s', o.emits ++ es) := by
  simp only [Dec.feed, h]; rfl

/-- One `decode` / `decode_copy` call on the structural iovec: no panic; the same verdict as the
pipe-level decoder; the iovec keeps representing the pipe on which the same emits are run (those
emitted before a rejected byte included). -/
theorem decFeed_sim (p : Params) (i : Nat) (m : Method) (g : List UInt8) (base : Slice) (fuel : Nat) :
    ∀ (w : World) (v : Iov) (s : DecState) (q : Pipe) (input : List UInt8) (pos : Nat),
    w.iov i = some v → SimV w v g [] q →
    (m = .borrow → ∃ b, base.region = .ext b ∧ InBuf w b (base.off + pos) input) →
    ∃ w' v' res, decFeed p m fuel w i s base input pos = some (w', res) ∧ w'.iov i = some v' ∧
      w'.exts = w.exts ∧
      (∀ s' es, Dec.feed p m fuel s input = .ok (s', es) → res = .ok s' ∧
        SimV w' v' g [] (q.run (es.map (·.op)))) ∧
      (∀ err es, Dec.feed p m fuel s input = .error (err, es) → res = .error err ∧
        SimV w' v' g [] (q.run (es.map (·.op)))) := by
  induction fuel with
  | zero =>
    intro w v s q input pos hv h _
    refine ⟨w, v, .ok s, rfl, hv, rfl, ?_, ?_⟩
    · intro s' es he; simp only [Dec.feed, Except.ok.injEq, Prod.mk.injEq] at he
      obtain ⟨rfl, rfl⟩ := he; exact ⟨rfl, by simpa [Pipe.run] using h⟩
    · intro err es he; simp [Dec.feed] at he
  | succ fuel ih =>
    intro w v s q input pos hv h hbuf
    cases input with
    | nil =>
      refine ⟨w, v, .ok s, decFeed_nil .., hv, rfl, ?_, ?_⟩
      · intro s' es he; simp only [Dec.feed, Except.ok.injEq, Prod.mk.injEq] at he
        obtain ⟨rfl, rfl⟩ := he; exact ⟨rfl, by simpa [Pipe.run] using h⟩
      · intro err es he; simp [Dec.feed] at he
    | cons b rest =>
      obtain ⟨hsrcE, hsrcO⟩ := dec_once_src p m s b rest
      have hao := Woodpile.Hcobs.DecProof.once_appendOnly p m s b rest
      cases ho : Dec.once p m s b rest with
      | error ee =>
        obtain ⟨err, es⟩ := ee
        rw [ho] at hao
        obtain ⟨w1, v1, toks1, g1, g2, g3, g4⟩ := applyStep_sim i g base es w v [] q hv h
          (opsOk_appends _ _ hao) (fun e he hb => (hsrcE err es ho e he hb).elim)
        have := applyStep_toks_appends es hao g1
        subst this
        have hf : decFeed p m (fuel + 1) w i s base (b :: rest) pos = some (w1, .error err) := by
          rw [decFeed_cons_error p m fuel w i s base b rest pos err es ho, g1]
        rw [decfeed_cons_error p m fuel s b rest _ ho]
        refine ⟨w1, v1, .error err, hf, g2, g4, ?_, ?_⟩
        · intro s' es' he; cases he
        · intro err' es' he
          simp only [Except.error.injEq, Prod.mk.injEq] at he
          obtain ⟨rfl, rfl⟩ := he
          exact ⟨rfl, g3⟩
      | ok o =>
        rw [ho] at hao
        obtain ⟨hcl, hpre⟩ := hsrcO o ho
        have hsrc : SrcOk w { base with off := base.off + pos, len := base.len - pos } o.emits := by
          intro x hx hb bs hop
          obtain ⟨hm, hp⟩ := hpre x hx hb bs hop
          obtain ⟨bb, hb1, hb2⟩ := hbuf hm
          exact ⟨bb, hb1, hb2.prefix hp⟩
        obtain ⟨w1, v1, toks1, g1, g2, g3, g4⟩ := applyStep_sim i g _ o.emits w v [] q hv h
          (opsOk_appends _ _ hao) hsrc
        have := applyStep_toks_appends o.emits hao g1
        subst this
        obtain ⟨w2, v2, res, k1, k2, k3, k4, k5⟩ := ih w1 v1 o.st _ ((b :: rest).drop o.consumed)
          (pos + o.consumed) g2 g3
          (by
            intro hm
            obtain ⟨bb, hb1, hb2⟩ := hbuf hm
            refine ⟨bb, hb1, ?_⟩
            have := (hb2.of_exts g4).drop _ hcl
            rwa [Nat.add_assoc] at this)
        have hf : decFeed p m (fuel + 1) w i s base (b :: rest) pos = some (w2, res) := by
          rw [decFeed_cons_ok p m fuel w i s base b rest pos o ho, g1]; exact k1
        rw [decfeed_cons_ok p m fuel s b rest o ho]
        refine ⟨w2, v2, res, hf, k2, k3.trans g4, ?_, ?_⟩
        · intro s' es he
          cases hr : Dec.feed p m fuel o.st ((b :: rest).drop o.consumed) with
          | error ee => rw [hr] at he; obtain ⟨e1, es1⟩ := ee; cases he
          | ok se =>
            obtain ⟨s1, es1⟩ := se
            rw [hr] at he
            simp only [Except.ok.injEq, Prod.mk.injEq] at he
            obtain ⟨rfl, rfl⟩ := he
            obtain ⟨a1, a2⟩ := k4 s1 es1 hr
            exact ⟨a1, by simpa [List.map_append, Woodpile.Pipe.run_append] using a2⟩
        · intro err es he
          cases hr : Dec.feed p m fuel o.st ((b :: rest).drop o.consumed) with
          | ok se => rw [hr] at he; obtain ⟨s1, es1⟩ := se; cases he
          | error ee =>
            obtain ⟨e1, es1⟩ := ee
            rw [hr] at he
            simp only [Except.error.injEq, Prod.mk.injEq] at he
            obtain ⟨rfl, rfl⟩ := he
            obtain ⟨a1, a2⟩ := k5 e1 es1 hr
            exact ⟨a1, by simpa [List.map_append, Woodpile.Pipe.run_append] using a2⟩

/-- A pipe without pending placeholder: the iovec has no pending backref, everything buffered is
stable, and its flattened bytes are the pipe's. -/
theorem SimV.no_pending {w : World} {v : Iov} {g : List UInt8} {toks : List Backref} {q : Pipe}
    (h : SimV w v g toks q) (hp : q.pending = false) :
    v.hasPending = false ∧ w.visible v = w.flat v.slices ∧ w.flat v.slices = q.bytes ∧
      absCells w v = q.cells := by
  have hcells : absCells w v = q.cells := by rw [h.cells, rename_of_no_hole _ _ hp]
  have hpend : v.hasPending = false := by
    rw [hasPending_eq_pending h.inv, hcells]; exact hp
  obtain ⟨g1, g2⟩ := visible_all_of_no_pending h.inv hpend
  refine ⟨hpend, g1, ?_, hcells⟩
  unfold Pipe.bytes
  rw [← hcells, g2, g1]; simp

/-- One decoder call: a borrowed piece lives in a fresh caller buffer (as in `Driver/CodecW.lean`). -/
def decFeedCall (p : Params) (i : Nat) (w : World) (s : DecState) : Method → List UInt8 →
    Option (World × Except DecErr DecState)
  | .borrow, d => decFeed p .borrow (d.length + 1) (w.addExt d).1 i s ⟨.ext w.exts.length, 0, d.length⟩ d 0
  | .copy, d => decFeed p .copy (d.length + 1) w i s ⟨.ext 0, 0, 0⟩ d 0

/-- The calls, then `Decoder::finish`; stops at the first decoding error (the Rust decoder is
consumed by the error).  Returns the world, the drained bytes and the verdict. -/
def decCalls (p : Params) (i : Nat) : World → DecState → List UInt8 → List Call →
    Option (World × List UInt8 × Except DecErr Unit)
  | w, s, dr, [] => some (w, dr, Dec.finish s)
  | w, s, dr, .feed m d :: t =>
    match decFeedCall p i w s m d with
    | none => none
    | some (w', .ok s') => decCalls p i w' s' dr t
    | some (w', .error e) => some (w', dr, .error e)
  | w, s, dr, .consume k :: t =>
    match w.iov i, w.consume i k with
    | some v, some x => decCalls p i x.1 s (dr ++ w.flat (v.slices.take x.2)) t
    | _, _ => none
  | w, s, dr, .advance k :: t =>
    match w.iov i, w.advance i k with
    | some v, some x => decCalls p i x.1 s (dr ++ (w.flat v.slices).take x.2) t
    | _, _ => none

/-- `Decoder::new()` on a fresh iovec, the calls, `finish()`. -/
def decRun (p : Params) (pol : Policy) (tun : Tuning) (calls : List Call) :
    Option (World × List UInt8 × Except DecErr Unit) :=
  decCalls p 0 (World.fresh pol tun) .initial [] calls

theorem decFeedCall_sim (p : Params) (i : Nat) (m : Method) (d : List UInt8) (w : World) (v : Iov)
    (g : List UInt8) (s : DecState) (q : Pipe) (hv : w.iov i = some v) (h : SimV w v g [] q) :
    ∃ w' v' res, decFeedCall p i w s m d = some (w', res) ∧ w'.iov i = some v' ∧
      (∀ s' es, Dec.feedAll p m s d = .ok (s', es) → res = .ok s' ∧ SimV w' v' g [] (q.run (es.map (·.op)))) ∧
      (∀ err es, Dec.feedAll p m s d = .error (err, es) → res = .error err ∧
        SimV w' v' g [] (q.run (es.map (·.op)))) := by
  cases m with
  | copy =>
    obtain ⟨w', v', res, h1, h2, _, h4, h5⟩ := decFeed_sim p i .copy g ⟨.ext 0, 0, 0⟩ (d.length + 1) w v s q d 0 hv h
      (fun hm => by cases hm)
    exact ⟨w', v', res, h1, h2, h4, h5⟩
  | borrow =>
    obtain ⟨w', v', res, h1, h2, _, h4, h5⟩ := decFeed_sim p i .borrow g ⟨.ext w.exts.length, 0, d.length⟩
      (d.length + 1) (w.addExt d).1 v s q d 0 hv (h.addExt d) (fun _ => ⟨w.exts.length, rfl, InBuf.addExt w d⟩)
    exact ⟨w', v', res, h1, h2, h4, h5⟩

/-- The decoder's whole run on the structural iovec agrees with the pipe-level run
(`Dec.runPieces`): no panic, the same verdict; the iovec represents the pipe built by the emits
(all appends) under some drain schedule. -/
theorem decCalls_sim (p : Params) (i : Nat) (calls : List Call) :
    ∀ (w : World) (v : Iov) (s : DecState) (dr : List UInt8) (evs : List Ev) (acc : List Emit),
    w.iov i = some v → SimV w v dr [] (runEv Woodpile.Pipe.empty evs) → prodOps evs = acc.map (·.op) →
    Woodpile.Hcobs.DecProof.AppendOnly acc →
    ∃ w' v' dr' res evs', decCalls p i w s dr calls = some (w', dr', res) ∧ w'.iov i = some v' ∧
      SimV w' v' dr' [] (runEv Woodpile.Pipe.empty evs') ∧
      (prodOps evs').all Woodpile.Pipe.Op.isAppend = true ∧
      (∀ e, Dec.runPieces p (pieces calls) s acc = .error e → res = .error e) ∧
      (∀ es, Dec.runPieces p (pieces calls) s acc = .ok es → res = .ok () ∧ prodOps evs' = es.map (·.op)) := by
  induction calls with
  | nil =>
    intro w v s dr evs acc hv h hev hacc
    refine ⟨w, v, dr, Dec.finish s, evs, rfl, hv, h, by rw [hev]; exact hacc, ?_, ?_⟩
    · intro e he
      simp only [pieces, Dec.runPieces] at he
      cases hf : Dec.finish s with
      | error e' => rw [hf] at he; simp only [Except.error.injEq] at he; rw [he]
      | ok u => rw [hf] at he; cases he
    · intro es he
      simp only [pieces, Dec.runPieces] at he
      cases hf : Dec.finish s with
      | error e' => rw [hf] at he; cases he
      | ok u => rw [hf] at he; simp only [Except.ok.injEq] at he; subst he; exact ⟨rfl, hev⟩
  | cons c t ih =>
    intro w v s dr evs acc hv h hev hacc
    cases c with
    | feed m d =>
      obtain ⟨w1, v1, res1, h1, h2, h3, h4⟩ := decFeedCall_sim p i m d w v dr s _ hv h
      have hao := Woodpile.Hcobs.DecProof.feed_appendOnly p m (d.length + 1) s d
      cases hf : Dec.feedAll p m s d with
      | error ee =>
        obtain ⟨err, es⟩ := ee
        obtain ⟨a1, a2⟩ := h4 err es hf
        subst a1
        unfold Dec.feedAll at hf
        rw [hf] at hao
        refine ⟨w1, v1, dr, .error err, evs ++ (es.map (·.op)).map Ev.prod, by simp only [decCalls, h1], h2, ?_, ?_, ?_, ?_⟩
        · rw [Woodpile.Pipe.runEv_append, runEv_prods]; exact a2
        · rw [Woodpile.Pipe.prodOps_append, prodOps_prods, hev, List.all_append, Bool.and_eq_true]
          exact ⟨hacc, hao⟩
        · intro e he
          simp only [pieces, Dec.runPieces, Dec.feedAll, hf, Except.error.injEq] at he
          rw [he]
        · intro es' he
          simp only [pieces, Dec.runPieces, Dec.feedAll, hf] at he
          cases he
      | ok se =>
        obtain ⟨s1, es⟩ := se
        obtain ⟨a1, a2⟩ := h3 s1 es hf
        subst a1
        have hf' := hf
        unfold Dec.feedAll at hf'
        rw [hf'] at hao
        obtain ⟨w2, v2, dr2, res2, evs2, k1, k2, k3, k4, k5, k6⟩ := ih w1 v1 s1 dr
          (evs ++ (es.map (·.op)).map Ev.prod) (acc ++ es) h2
          (by rw [Woodpile.Pipe.runEv_append, runEv_prods]; exact a2)
          (by rw [Woodpile.Pipe.prodOps_append, prodOps_prods, hev, List.map_append])
          (Woodpile.Hcobs.DecProof.appendOnly_append hacc hao)
        refine ⟨w2, v2, dr2, res2, evs2, by simp only [decCalls, h1]; exact k1, k2, k3, k4, ?_, ?_⟩
        · intro e he
          simp only [pieces, Dec.runPieces, hf] at he
          exact k5 e he
        · intro es' he
          simp only [pieces, Dec.runPieces, hf] at he
          exact k6 es' he
    | consume k =>
      obtain ⟨v', h1, h2, _⟩ := World.consume_spec w i v k hv h.inv
      have hm : sumLens (v.slices.take (min k v.stableN)) ≤ sumLens (v.slices.take v.stableN) :=
        sumLens_take_mono _ (Nat.min_le_right _ _)
      obtain ⟨g1, _, _⟩ := h.consumed h2 hm
      rw [flat_take_prefix w v.arena v.slices _ h.inv.slices_ok] at g1
      obtain ⟨w2, v2, dr2, res2, evs2, k1, k2, k3, k4, k5, k6⟩ := ih (w.setIov i (some v')) v' s
        (dr ++ w.flat (v.slices.take (min k v.stableN)))
        (evs ++ [.drain (sumLens (v.slices.take (min k v.stableN)))]) acc (by simp)
        (by rw [Woodpile.Pipe.runEv_append]; exact g1.setIov i _)
        (by rw [Woodpile.Pipe.prodOps_append, hev]; simp [prodOps]) hacc
      exact ⟨w2, v2, dr2, res2, evs2, by simp only [decCalls, hv, h1]; exact k1, k2, k3, k4, k5, k6⟩
    | advance k =>
      obtain ⟨v', h1, h2⟩ := World.advance_spec w i v k hv h.inv
      obtain ⟨g1, _, _⟩ := h.consumed h2 (Nat.min_le_right _ _)
      obtain ⟨w2, v2, dr2, res2, evs2, k1, k2, k3, k4, k5, k6⟩ := ih (w.setIov i (some v')) v' s
        (dr ++ (w.flat v.slices).take (min k (sumLens (v.slices.take v.stableN))))
        (evs ++ [.drain (min k (sumLens (v.slices.take v.stableN)))]) acc (by simp)
        (by rw [Woodpile.Pipe.runEv_append]; exact g1.setIov i _)
        (by rw [Woodpile.Pipe.prodOps_append, hev]; simp [prodOps]) hacc
      exact ⟨w2, v2, dr2, res2, evs2, by simp only [decCalls, hv, h1]; exact k1, k2, k3, k4, k5, k6⟩

/-- The decoder's whole run: never panics; `Ok` exactly when the pipe-level decoder (hence
`Spec.decode`) accepts the concatenated input, and then drained ++ flattened is the decoded data;
an error is the pipe-level decoder's error; in both cases nothing is ever pending (lag 0). -/
theorem decRun_sim (p : Params) (pol : Policy) (tun : Tuning) (calls : List Call) :
    ∃ w' v' dr res, decRun p pol tun calls = some (w', dr, res) ∧ w'.iov 0 = some v' ∧ IovInv w' v' ∧
      v'.hasPending = false ∧ w'.visible v' = w'.flat v'.slices ∧
      (∀ e, res = .error e ↔ Dec.output p (pieces calls) = .error e) ∧
      (res = .ok () ↔ Dec.output p (pieces calls) = .ok (dr ++ w'.flat v'.slices)) ∧
      (res = .ok () ↔ ∃ d, Dec.output p (pieces calls) = .ok d) := by
  obtain ⟨w', v', dr, res, evs, h1, h2, h3, h4, h5, h6⟩ := decCalls_sim p 0 calls (World.fresh pol tun) Iov.empty
    .initial [] [] [] rfl (simV_fresh pol tun) rfl rfl
  have hlag := Woodpile.Pipe.drain_complete Woodpile.Pipe.empty evs
  rw [Woodpile.Pipe.total_empty] at hlag
  have hpend : (runEv Woodpile.Pipe.empty evs).pending = false := by
    rw [hlag.2]; exact Woodpile.Pipe.pending_run_appendOnly _ _ h4 rfl
  obtain ⟨g1, g2, g3, _⟩ := h3.no_pending hpend
  have hbytes : dr ++ w'.flat v'.slices = (Woodpile.Pipe.empty.run (prodOps evs)).bytes := by
    rw [g3, h3.ghost]; exact hlag.1
  refine ⟨w', v', dr, res, h1, h2, h3.inv, g1, g2, ?_⟩
  unfold Dec.output
  cases hr : Dec.runPieces p (pieces calls) .initial [] with
  | error e0 =>
    have := h5 e0 hr
    subst this
    refine ⟨fun e => by simp, by simp, by simp⟩
  | ok es =>
    obtain ⟨a1, a2⟩ := h6 es hr
    subst a1
    rw [a2] at hbytes
    refine ⟨fun e => by simp, by simp [hbytes], by simp⟩

/-! ### C09, structural half: the lag of an iovec with one pending placeholder -/

/-- The cell at index `j` of the abstraction is a hole exactly when logical offset
`consumedSize + j` lies in a pending backref's range. -/
theorem absCells_hole_of_inRange {w : World} {v : Iov} (h : IovInv w v) {e : Nat × BackrefInfo}
    (he : e ∈ v.backrefs) {j : Nat} (hj : j < (absCells w v).length) (hr : InRange e (v.consumedSize + j)) :
    (absCells w v)[j]? = some (Cell.hole e.1) := by
  unfold absCells at hj ⊢
  rw [mkCells_length] at hj
  rw [mkCells_getElem?, List.getElem?_eq_getElem hj]
  simp only [Option.map_some, cellAt, holeAt_eq_some_of_mem h.br_sorted he hr]

theorem absCells_inRange_of_hole {w : World} {v : Iov} (_h : IovInv w v) {j K : Nat}
    (hc : (absCells w v)[j]? = some (Cell.hole K)) :
    ∃ e ∈ v.backrefs, e.1 = K ∧ InRange e (v.consumedSize + j) := by
  unfold absCells at hc
  rw [mkCells_getElem?] at hc
  cases hb : (w.flat v.slices)[j]? with
  | none => rw [hb] at hc; cases hc
  | some b =>
    rw [hb] at hc
    simp only [Option.map_some, cellAt, Option.some.injEq] at hc
    cases hh : holeAt v.backrefs (v.consumedSize + j) with
    | none => rw [hh] at hc; cases hc
    | some k =>
      rw [hh] at hc
      simp only [Cell.hole.injEq] at hc
      subst hc
      obtain ⟨e, he, hk, hr⟩ := holeAt_some_mem _ _ _ hh
      exact ⟨e, he, hk, hr⟩

/-- An iovec whose abstraction is `bytes, k ≥ 1 cells of ONE placeholder, bytes` (the encoder's
shape between calls): the placeholder is the only pending backref that matters for `stable_prefix`,
it sits in an owned slice `s` at offset `begin`, and the lag — `total_size` minus the bytes of the
stable prefix — is exactly `begin + k + |bytes after it|`. -/
theorem lag_of_single_hole {w : World} {v : Iov} (h : IovInv w v) (A B : List UInt8) (k K : Nat) (hk : 1 ≤ k)
    (hcells : absCells w v = A.map Cell.byte ++ List.replicate k (Cell.hole K) ++ B.map Cell.byte)
    (e : Nat × BackrefInfo) (he : e ∈ v.backrefs) (heK : e.1 = K) (hek : e.2.len = k) :
    v.totalSize - (w.visible v).length = e.2.begin + k + B.length ∧
    ∃ s c, v.slices[e.2.sliceIndex - v.consumedSlices]? = some s ∧ s.region = .chunk c ∧
      e.2.begin + k ≤ s.len := by
  have hlen : (absCells w v).length = A.length + k + B.length := by rw [hcells]; simp; omega
  have hlen2 : (absCells w v).length = sumLens v.slices := by
    unfold absCells; rw [mkCells_length, h.flat_length]
  have hsz := h.size_eq
  have hb := h.br_ok e he
  have hpos : ∀ x ∈ v.backrefs, 0 < x.2.len := fun x hx => (h.br_ok x hx).len_pos
  -- every hole of the abstraction is `K`
  have hholes : ∀ (j x : Nat), (absCells w v)[j]? = some (Cell.hole x) → x = K := by
    intro j x hx
    have hm := List.mem_of_getElem? hx
    rw [hcells] at hm
    simp only [List.mem_append, List.mem_map, List.mem_replicate, reduceCtorEq, and_false, exists_false,
      false_or, or_false] at hm
    obtain ⟨_, hm⟩ := hm
    exact (Cell.hole.inj hm)
  -- the key: logical end of the hole range
  have hkey : e.1 = v.consumedSize + A.length + k := by
    have hlast : (absCells w v)[A.length + k - 1]? = some (Cell.hole K) := by
      rw [hcells, List.append_assoc, List.getElem?_append_right (by simp; omega)]
      simp only [List.length_map]
      rw [List.getElem?_append_left (by simp; omega)]
      simp [List.getElem?_replicate]; omega
    obtain ⟨e', he', hk', hr'⟩ := absCells_inRange_of_hole h hlast
    have := br_key_unique h.br_sorted hpos he' he (by rw [hk', heK])
    subst this
    unfold InRange at hr'
    by_cases hgt : e'.1 ≤ v.consumedSize + A.length + k
    · omega
    · exfalso
      have hkl := hb.key_le hsz
      have hB : A.length + k < (absCells w v).length := by omega
      have hr2 : InRange e' (v.consumedSize + (A.length + k)) := by unfold InRange; omega
      have hc2 := absCells_hole_of_inRange h he hB hr2
      rw [hcells, List.getElem?_append_right (by simp)] at hc2
      simp only [List.length_append, List.length_map, List.length_replicate, Nat.sub_self] at hc2
      cases B with
      | nil => simp at hc2
      | cons b t => simp at hc2
  -- the head of the pending backrefs is `e`
  have hhead : v.backrefs.head? = some e := by
    cases hbr : v.backrefs with
    | nil => rw [hbr] at he; cases he
    | cons hd t =>
      have hhd : hd ∈ v.backrefs := by rw [hbr]; simp
      have hbh := h.br_ok hd hhd
      have hkl := hbh.key_le hsz
      have hsg := hbh.start_ge
      have hlp := hbh.len_pos
      have hj : hd.1 - 1 - v.consumedSize < (absCells w v).length := by omega
      have hr : InRange hd (v.consumedSize + (hd.1 - 1 - v.consumedSize)) := by unfold InRange; omega
      have hc := absCells_hole_of_inRange h hhd hj hr
      have := hholes _ _ hc
      have := br_key_unique h.br_sorted hpos hhd he (by rw [this, heK])
      subst this
      rfl
  obtain ⟨s, c, hget, hreg, hle⟩ := hb.slice
  have hjlt : e.2.sliceIndex - v.consumedSlices < v.slices.length := by
    rcases Nat.lt_or_ge (e.2.sliceIndex - v.consumedSlices) v.slices.length with h1 | h1
    · exact h1
    · rw [List.getElem?_eq_none h1] at hget; cases hget
  have hst : v.stableN = e.2.sliceIndex - v.consumedSlices := by
    unfold Iov.stableN; rw [hhead]; simp only; omega
  have hke := hb.key_eq
  unfold sliceStart at hke
  refine ⟨?_, s, c, hget, hreg, by omega⟩
  rw [h.visible_length, hst]
  unfold Iov.totalSize
  omega

/-- The cells of a drained pipe whose undrained view is `pipeOf done k id body`. -/
theorem cells_of_total_pipeOf (q : Pipe) (done body : List UInt8) (k id : Nat) (hk : 1 ≤ k)
    (h : q.total = pipeOf done k id body) :
    q.cells = (done.drop q.consumed.length).map Cell.byte ++ List.replicate k (Cell.hole id) ++ body.map Cell.byte := by
  have hc : q.consumed.map Cell.byte ++ q.cells
      = done.map Cell.byte ++ List.replicate k (Cell.hole id) ++ body.map Cell.byte := by
    have := congrArg Pipe.cells h
    simpa [Woodpile.Pipe.Pipe.total, pipeOf] using this
  have hle : q.consumed.length ≤ done.length := by
    rcases Nat.lt_or_ge done.length q.consumed.length with hlt | hge
    · exfalso
      have h1 : (q.consumed.map Cell.byte ++ q.cells)[done.length]? =
          (done.map Cell.byte ++ List.replicate k (Cell.hole id) ++ body.map Cell.byte)[done.length]? := by rw [hc]
      rw [List.getElem?_append_left (by simpa using hlt), List.append_assoc,
        List.getElem?_append_right (by simp)] at h1
      simp only [List.length_map, Nat.sub_self] at h1
      rw [List.getElem?_append_left (by simp; omega)] at h1
      simp [List.getElem?_replicate, List.getElem?_eq_getElem hlt] at h1
    · exact hge
  have := congrArg (List.drop q.consumed.length) hc
  rw [List.drop_left' (by simp), List.append_assoc, List.drop_append_of_le_length (by simpa using hle),
    ← List.map_drop] at this
  rw [this, List.append_assoc]

/-- Structural lag of the encoder between calls (any calls so far, any drain schedule): the
pending size header is a backref `e` of the iovec, in an owned slice `s` (one arena chunk `c`) at
offset `e.begin`; `total_size − |stable prefix| = e.begin + brLen + cur`; and
`cur + (1 if an FE is held) < maxChunk ∈ {maxInit, maxSub}`. -/
theorem enc_lag_struct (p : Params) (hp : p.Valid) (pol : Policy) (tun : Tuning) (calls : List Call) :
    ∃ r v e s c, encPrefix p pol tun calls = some r ∧ r.w.iov 0 = some v ∧ IovInv r.w v ∧
      e ∈ v.backrefs ∧ e.2.len = r.e.st.brLen ∧
      v.slices[e.2.sliceIndex - v.consumedSlices]? = some s ∧ s.region = .chunk c ∧
      e.2.begin + r.e.st.brLen ≤ s.len ∧
      v.totalSize - (r.w.visible v).length = e.2.begin + r.e.st.brLen + r.e.st.cur ∧
      1 ≤ r.e.st.brLen ∧ r.e.st.brLen ≤ 2 ∧
      r.e.st.cur + (if r.e.st.mid then 1 else 0) < r.e.st.maxChunk ∧
      (r.e.st.maxChunk = p.maxInit ∨ r.e.st.maxChunk = p.maxSub) := by
  obtain ⟨r, acc, h1, ⟨v, q, evs, hv, hsim, _, _, hrel⟩, _⟩ := encPrefix_inv p hp pol tun calls
  obtain ⟨hi1, _⟩ := fold_init_inv p hp (inputOf calls)
  generalize (inputOf calls).foldl (byteStep p) BS.init = σ at hrel hi1
  obtain ⟨hmax, hcur, hmid, hbr, hnid, hq⟩ := hrel
  have hk : 1 ≤ r.e.st.brLen ∧ r.e.st.brLen ≤ 2 := by cases hf : σ.first <;> simp [hbr, hf]
  have hcells := cells_of_total_pipeOf q σ.done σ.body r.e.st.brLen r.e.st.backref hk.1 hq
  have hm : Cell.hole r.e.st.backref ∈ q.cells := by
    rw [hcells]
    simp only [List.mem_append, List.mem_replicate]
    exact Or.inl (Or.inr ⟨by omega, trivial⟩)
  obtain ⟨e, _, he, hek, hel⟩ := hsim.token _ hm
  have hcnt : q.cells.count (Cell.hole r.e.st.backref) = r.e.st.brLen := by
    rw [← count_hole_total, hq, count_hole_pipeOf]
  have habs : absCells r.w v = (σ.done.drop q.consumed.length).map Cell.byte ++
      List.replicate r.e.st.brLen (Cell.hole (tokKey r.e.toks r.e.st.backref)) ++ σ.body.map Cell.byte := by
    rw [hsim.cells, hcells, List.map_append, List.map_append, rename_map_byte, rename_map_byte,
      rename_replicate_hole]
  obtain ⟨g1, s, c, g2, g3, g4⟩ := lag_of_single_hole hsim.inv _ _ _ _ hk.1 habs e he hek (by rw [hel, hcnt])
  have hinv' : σ.eff.length < Spec.limit p σ.first := hi1
  have hM : σ.M p = Spec.limit p σ.first := rfl
  rw [BS.eff_length, ← hmid, ← hcur] at hinv'
  refine ⟨r, v, e, s, c, h1, hv, hsim.inv, he, by rw [hel, hcnt], g2, g3, g4, ?_, hk.1, hk.2, by omega, ?_⟩
  · rw [g1, hcur]
  · cases hf : σ.first
    · right; rw [hmax, hM, hf]; rfl
    · left; rw [hmax, hM, hf]; rfl

/-! ### Chunk capacities chosen by the arena (production tuning) -/

/-- `BUMP_REGION_SIZE_SEQUENCE`, `BUMP_REGION_SIZE_FACTOR` as extracted from the Rust sources. -/
def prodTuning : Tuning := ⟨Woodpile.Gen.bumpSeq, Woodpile.Gen.bumpFactor⟩

theorem firstAtLeast_le (wanted dflt M : Nat) (l : List Nat) (hd : dflt ≤ M) (hl : ∀ x ∈ l, x ≤ M) :
    firstAtLeast wanted dflt l ≤ M := by
  induction l with
  | nil => exact hd
  | cons x rest ih =>
    unfold firstAtLeast
    split
    · exact hl x (by simp)
    · exact ih (fun y hy => hl y (by simp [hy]))

/-- `find_hint_size` with the production tuning: a request of fewer than 2^20 bytes never makes the
arena allocate a chunk of more than 2^20 bytes, whatever the previous chunk's capacity. -/
theorem findHintSize_le_prod (len prevCap : Nat) (h : len < 1048576) :
    max (findHintSize prodTuning len prevCap) len ≤ 1048576 := by
  have hlast : prodTuning.seq.getLast?.getD 0 = 1048576 := by decide
  have hseq : ∀ x ∈ prodTuning.seq, x ≤ 1048576 := by decide
  have : findHintSize prodTuning len prevCap ≤ 1048576 := by
    unfold findHintSize
    simp only [hlast]
    rw [if_neg (by omega)]
    split
    · exact Nat.le_refl _
    · exact firstAtLeast_le _ _ _ _ (Nat.le_refl _) hseq
  omega

/-- Every cache the arena holds after `alloc` of fewer than 2^20 bytes has capacity ≤ 2^20, if the
one before had. -/
theorem alloc_cap_le_prod (a : Arena) (next len : Nat) (h : len < 1048576)
    (hc : ∀ c, a.cache = some c → c.cap ≤ 1048576) :
    ∀ c', (alloc prodTuning a next len).1.cache = some c' → c'.cap ≤ 1048576 := by
  intro c' hc'
  unfold alloc ensureCapacity at hc'
  cases hca : a.cache with
  | none =>
    simp only [hca, Option.some.injEq] at hc'
    subst hc'
    exact findHintSize_le_prod len 0 h
  | some c =>
    simp only [hca] at hc'
    by_cases hr : c.remaining ≥ len
    · simp only [hr, if_true, hca, Option.some.injEq] at hc'
      subst hc'
      exact hc c hca
    · simp only [hr, if_false, Option.some.injEq] at hc'
      subst hc'
      exact findHintSize_le_prod len c.cap h

end Woodpile.EncWorld

/-
Lemmas about the abstract byte pipe (`Woodpile.Model.Pipe`): cell/byte
conversions, append-only runs, filling the unique placeholder, and the
consumer-side (`consume`) commutation facts used by C09.

Core Lean only.
-/
import Woodpile.Model.Pipe

namespace Woodpile.Pipe

/-! ### `cellBytes` -/

@[simp] theorem cellBytes_nil : cellBytes [] = [] := rfl
@[simp] theorem cellBytes_byte (b : UInt8) (t : List Cell) :
    cellBytes (.byte b :: t) = b :: cellBytes t := rfl
@[simp] theorem cellBytes_hole (i : Nat) (t : List Cell) :
    cellBytes (.hole i :: t) = cellBytes t := rfl

theorem cellBytes_append (a b : List Cell) : cellBytes (a ++ b) = cellBytes a ++ cellBytes b := by
  induction a with
  | nil => rfl
  | cons c t ih => cases c <;> simp [ih]

@[simp] theorem cellBytes_map_byte (l : List UInt8) : cellBytes (l.map Cell.byte) = l := by
  induction l with
  | nil => rfl
  | cons b t ih => simp [ih]

@[simp] theorem cellBytes_replicate_hole (n i : Nat) : cellBytes (List.replicate n (Cell.hole i)) = [] := by
  induction n with
  | zero => rfl
  | succ n ih => simp [List.replicate_succ, ih]

@[simp] theorem any_hole_map_byte (l : List UInt8) :
    (l.map Cell.byte).any (fun c => !c.isByte) = false := by
  induction l with
  | nil => rfl
  | cons b t _ => simp [Cell.isByte]

@[simp] theorem takeWhile_isByte_map_byte (l : List UInt8) (rest : List Cell) :
    (l.map Cell.byte ++ rest).takeWhile Cell.isByte = l.map Cell.byte ++ rest.takeWhile Cell.isByte := by
  induction l with
  | nil => rfl
  | cons b t ih => simp [List.takeWhile_cons, Cell.isByte, ih]

/-! ### append-only op lists -/

/-- The op is an `append`. -/
def Op.isAppend : Op → Bool
  | .append _ => true
  | _ => false

/-- Payload of an op list, counting only the `append`s. -/
def opsBytes : List Op → List UInt8
  | [] => []
  | .append bs :: t => bs ++ opsBytes t
  | _ :: t => opsBytes t

theorem opsBytes_append (a b : List Op) : opsBytes (a ++ b) = opsBytes a ++ opsBytes b := by
  induction a with
  | nil => rfl
  | cons o t ih => cases o <;> simp [opsBytes, ih]

/-- Running append-only ops only adds their payload at the end of the cells. -/
theorem run_appendOnly (q : Pipe) (ops : List Op) (h : ops.all Op.isAppend = true) :
    q.run ops = { q with cells := q.cells ++ (opsBytes ops).map Cell.byte } := by
  induction ops generalizing q with
  | nil => simp [Pipe.run, opsBytes]
  | cons o t ih =>
    cases o with
    | append bs =>
      simp only [List.all_cons, Bool.and_eq_true] at h
      have := ih (q.append bs) h.2
      simp only [Pipe.run, List.foldl_cons, Pipe.apply] at this ⊢
      rw [this]
      simp [Pipe.append, opsBytes]
    | register n => simp [Op.isAppend] at h
    | fill i bs => simp [Op.isAppend] at h

theorem run_appendOnly_bytes (q : Pipe) (ops : List Op) (h : ops.all Op.isAppend = true) :
    (q.run ops).bytes = q.bytes ++ opsBytes ops := by
  rw [run_appendOnly q ops h]; simp [Pipe.bytes, cellBytes_append]

theorem run_append (q : Pipe) (a b : List Op) : q.run (a ++ b) = (q.run a).run b := by
  simp [Pipe.run, List.foldl_append]

/-! ### filling the single placeholder -/

@[simp] theorem fillCells_byte (id : Nat) (b : UInt8) (t : List Cell) (bs : List UInt8) :
    fillCells id (.byte b :: t) bs = .byte b :: fillCells id t bs := by
  cases bs <;> simp [fillCells]

theorem fillCells_map_byte_append (id : Nat) (ds : List UInt8) (rest : List Cell) (bs : List UInt8) :
    fillCells id (ds.map Cell.byte ++ rest) bs = ds.map Cell.byte ++ fillCells id rest bs := by
  induction ds with
  | nil => rfl
  | cons d t ih => simp [ih]

theorem fillCells_nil_map_byte (id : Nat) (ds : List UInt8) :
    fillCells id (ds.map Cell.byte) [] = ds.map Cell.byte := by
  induction ds with
  | nil => rfl
  | cons d t ih => simp [ih]

theorem fillCells_replicate (id : Nat) (bs : List UInt8) (rest : List Cell) :
    fillCells id (List.replicate bs.length (Cell.hole id) ++ rest) bs = bs.map Cell.byte ++ fillCells id rest [] := by
  induction bs with
  | nil => simp
  | cons b t ih => simp [List.replicate_succ, fillCells, ih]

/-- Filling placeholder `id` when the pipe is `bytes ++ (the placeholder) ++ bytes`. -/
theorem fillCells_single (id : Nat) (ds bs body : List UInt8) (k : Nat) (hk : bs.length = k) :
    fillCells id (ds.map Cell.byte ++ List.replicate k (Cell.hole id) ++ body.map Cell.byte) bs
      = (ds ++ bs ++ body).map Cell.byte := by
  subst hk
  rw [List.append_assoc, fillCells_map_byte_append, fillCells_replicate, fillCells_nil_map_byte]
  simp

end Woodpile.Pipe

/-
Lemmas about the abstract byte pipe (`Woodpile.Model.Pipe`): cell/byte
conversions, append-only runs, filling the unique placeholder, and the
consumer-side (`consume`) commutation facts used by C09.

Core Lean only.
-/
import Woodpile.Model.Pipe

namespace Woodpile.Pipe

/-! ### `cellBytes` -/

@[simp] theorem cellBytes_nil : cellBytes [] = [] := rfl
@[simp] theorem cellBytes_byte (b : UInt8) (t : List Cell) :
    cellBytes (.byte b :: t) = b :: cellBytes t := rfl
@[simp] theorem cellBytes_hole (i : Nat) (t : List Cell) :
    cellBytes (.hole i :: t) = cellBytes t := rfl

theorem cellBytes_append (a b : List Cell) : cellBytes (a ++ b) = cellBytes a ++ cellBytes b := by
  induction a with
  | nil => rfl
  | cons c t ih => cases c <;> simp [ih]

@[simp] theorem cellBytes_map_byte (l : List UInt8) : cellBytes (l.map Cell.byte) = l := by
  induction l with
  | nil => rfl
  | cons b t ih => simp [ih]

@[simp] theorem cellBytes_replicate_hole (n i : Nat) : cellBytes (List.replicate n (Cell.hole i)) = [] := by
  induction n with
  | zero => rfl
  | succ n ih => simp [List.replicate_succ, ih]

@[simp] theorem any_hole_map_byte (l : List UInt8) :
    (l.map Cell.byte).any (fun c => !c.isByte) = false := by
  induction l with
  | nil => rfl
  | cons b t _ => simp [Cell.isByte]

@[simp] theorem takeWhile_isByte_map_byte (l : List UInt8) (rest : List Cell) :
    (l.map Cell.byte ++ rest).takeWhile Cell.isByte = l.map Cell.byte ++ rest.takeWhile Cell.isByte := by
  induction l with
  | nil => rfl
  | cons b t ih => simp [List.takeWhile_cons, Cell.isByte, ih]

/-! ### append-only op lists -/

/-- The op is an `append`. -/
def Op.isAppend : Op → Bool
  | .append _ => true
  | _ => false

/-- Payload of an op list, counting only the `append`s. -/
def opsBytes : List Op → List UInt8
  | [] => []
  | .append bs :: t => bs ++ opsBytes t
  | _ :: t => opsBytes t

theorem opsBytes_append (a b : List Op) : opsBytes (a ++ b) = opsBytes a ++ opsBytes b := by
  induction a with
  | nil => rfl
  | cons o t ih => cases o <;> simp [opsBytes, ih]

/-- Running append-only ops only adds their payload at the end of the cells. -/
theorem run_appendOnly (q : Pipe) (ops : List Op) (h : ops.all Op.isAppend = true) :
    q.run ops = { q with cells := q.cells ++ (opsBytes ops).map Cell.byte } := by
  induction ops generalizing q with
  | nil => simp [Pipe.run, opsBytes]
  | cons o t ih =>
    cases o with
    | append bs =>
      simp only [List.all_cons, Bool.and_eq_true] at h
      have := ih (q.append bs) h.2
      simp only [Pipe.run, List.foldl_cons, Pipe.apply] at this ⊢
      rw [this]
      simp [Pipe.append, opsBytes]
    | register n => simp [Op.isAppend] at h
    | fill i bs => simp [Op.isAppend] at h

theorem run_appendOnly_bytes (q : Pipe) (ops : List Op) (h : ops.all Op.isAppend = true) :
    (q.run ops).bytes = q.bytes ++ opsBytes ops := by
  rw [run_appendOnly q ops h]; simp [Pipe.bytes, cellBytes_append]

theorem run_append (q : Pipe) (a b : List Op) : q.run (a ++ b) = (q.run a).run b := by
  simp [Pipe.run, List.foldl_append]

/-! ### filling the single placeholder -/

@[simp] theorem fillCells_byte (id : Nat) (b : UInt8) (t : List Cell) (bs : List UInt8) :
    fillCells id (.byte b :: t) bs = .byte b :: fillCells id t bs := by
  cases bs <;> simp [fillCells]

theorem fillCells_map_byte_append (id : Nat) (ds : List UInt8) (rest : List Cell) (bs : List UInt8) :
    fillCells id (ds.map Cell.byte ++ rest) bs = ds.map Cell.byte ++ fillCells id rest bs := by
  induction ds with
  | nil => rfl
  | cons d t ih => simp [ih]

theorem fillCells_nil_map_byte (id : Nat) (ds : List UInt8) :
    fillCells id (ds.map Cell.byte) [] = ds.map Cell.byte := by
  induction ds with
  | nil => rfl
  | cons d t ih => simp [ih]

theorem fillCells_replicate (id : Nat) (bs : List UInt8) (rest : List Cell) :
    fillCells id (List.replicate bs.length (Cell.hole id) ++ rest) bs = bs.map Cell.byte ++ fillCells id rest [] := by
  induction bs with
  | nil => simp
  | cons b t ih => simp [List.replicate_succ, fillCells, ih]

/-- Filling placeholder `id` when the pipe is `bytes ++ (the placeholder) ++ bytes`. -/
theorem fillCells_single (id : Nat) (ds bs body : List UInt8) (k : Nat) (hk : bs.length = k) :
    fillCells id (ds.map Cell.byte ++ List.replicate k (Cell.hole id) ++ body.map Cell.byte) bs
      = (ds ++ bs ++ body).map Cell.byte := by
  subst hk
  rw [List.append_assoc, fillCells_map_byte_append, fillCells_replicate, fillCells_nil_map_byte]
  simp

/-! ### the consumer side: draining commutes with producing -/

/-- One event on a pipe shared by a producer and a consumer. -/
inductive Ev where
  | prod (op : Op)
  | drain (k : Nat)
  deriving Repr, DecidableEq

def stepEv (q : Pipe) : Ev → Pipe
  | .prod op => q.apply op
  | .drain k => (q.consume k).1

def runEv (q : Pipe) (evs : List Ev) : Pipe := evs.foldl stepEv q

/-- The producer's ops in an event list. -/
def prodOps : List Ev → List Op
  | [] => []
  | .prod op :: t => op :: prodOps t
  | .drain _ :: t => prodOps t

theorem prodOps_append (a b : List Ev) : prodOps (a ++ b) = prodOps a ++ prodOps b := by
  induction a with
  | nil => rfl
  | cons e t ih => cases e <;> simp [prodOps, ih]

theorem runEv_append (q : Pipe) (a b : List Ev) : runEv q (a ++ b) = runEv (runEv q a) b := by
  simp [runEv, List.foldl_append]

/-- The pipe as it would be had nothing been consumed since the last `clear`. -/
def Pipe.total (q : Pipe) : Pipe := ⟨q.consumed.map Cell.byte ++ q.cells, [], q.nextId⟩

theorem stable_eq (q : Pipe) : ∃ rest, q.cells = q.stable.map Cell.byte ++ rest ∧
    rest.takeWhile Cell.isByte = [] := by
  obtain ⟨cells, consumed, nid⟩ := q
  simp only [Pipe.stable]
  induction cells with
  | nil => exact ⟨[], rfl, rfl⟩
  | cons c t ih =>
    cases c with
    | byte b =>
      obtain ⟨rest, h1, h2⟩ := ih
      refine ⟨rest, ?_, h2⟩
      simp only [List.takeWhile_cons, Cell.isByte, if_true, cellBytes_byte, List.map_cons, List.cons_append]
      rw [← h1]
    | hole i => exact ⟨.hole i :: t, by simp [Cell.isByte], by simp [Cell.isByte]⟩

theorem drop_map_byte_append (l : List UInt8) (rest : List Cell) (n : Nat) (hn : n ≤ l.length) :
    (l.map Cell.byte ++ rest).drop n = (l.drop n).map Cell.byte ++ rest := by
  rw [List.drop_append_of_le_length (by simpa using hn), List.map_drop]

/-- Consuming moves stable bytes from the buffered cells to the consumed ghost: the total view
does not change. -/
theorem consume_total (q : Pipe) (k : Nat) : (q.consume k).1.total = q.total := by
  obtain ⟨rest, h1, _⟩ := stable_eq q
  have hn : min k q.stable.length ≤ q.stable.length := Nat.min_le_right _ _
  simp only [Pipe.consume, Pipe.total, Pipe.mk.injEq, and_true]
  conv => lhs; rw [h1]
  rw [drop_map_byte_append _ _ _ hn]
  conv => rhs; rw [h1]
  rw [List.map_append, List.append_assoc, ← List.append_assoc ((q.stable.take _).map _), ← List.map_append,
    List.take_append_drop]

/-- A producer op acts on the total view exactly as on an undrained pipe. -/
theorem apply_total (q : Pipe) (op : Op) : (q.apply op).total = q.total.apply op := by
  cases op with
  | append bs => simp [Pipe.apply, Pipe.append, Pipe.total]
  | register n => simp [Pipe.apply, Pipe.register, Pipe.total]
  | fill i bs => simp [Pipe.apply, Pipe.fill, Pipe.total, fillCells_map_byte_append]

theorem total_total (q : Pipe) : q.total.total = q.total := by simp [Pipe.total]

theorem total_empty : Pipe.empty.total = Pipe.empty := rfl

/-- `drain_commutes`: with any drain schedule interleaved, what the producer has built (consumed
ghost ++ buffered cells, placeholder ids included) is what it would have built undrained. -/
theorem runEv_total (q : Pipe) (evs : List Ev) : (runEv q evs).total = q.total.run (prodOps evs) := by
  induction evs generalizing q with
  | nil => rfl
  | cons e t ih =>
    cases e with
    | prod op =>
      simp only [runEv, List.foldl_cons, stepEv, prodOps, Pipe.run] at ih ⊢
      rw [ih, apply_total]
    | drain k =>
      simp only [runEv, List.foldl_cons, stepEv, prodOps] at ih ⊢
      rw [ih, consume_total]

/-- What the consumer has seen or may see now = the stable prefix of the total view. -/
theorem consumed_stable (q : Pipe) : q.consumed ++ q.stable = q.total.stable := by
  simp [Pipe.total, Pipe.stable, cellBytes_append]

theorem consumed_bytes (q : Pipe) : q.consumed ++ q.bytes = q.total.bytes := by
  simp [Pipe.total, Pipe.bytes, cellBytes_append]

theorem pending_total (q : Pipe) : q.total.pending = q.pending := by
  simp only [Pipe.total, Pipe.pending, List.any_append, any_hole_map_byte, Bool.false_or]

theorem size_sub_stable_total (q : Pipe) :
    q.total.size - q.total.stable.length = q.size - q.stable.length := by
  rw [← consumed_stable]
  simp only [Pipe.total, Pipe.size, List.length_append, List.length_map]
  omega

/-- Stable bytes stay: the stable prefix only grows under producer ops. -/
theorem fillCells_takeWhile (id : Nat) (cells : List Cell) (bs : List UInt8) :
    ∃ more, (fillCells id cells bs).takeWhile Cell.isByte = cells.takeWhile Cell.isByte ++ more := by
  induction cells generalizing bs with
  | nil => exact ⟨[], by simp [fillCells]⟩
  | cons c t ih =>
    cases c with
    | byte b =>
      obtain ⟨more, h⟩ := ih bs
      exact ⟨more, by simp [List.takeWhile_cons, Cell.isByte, h]⟩
    | hole j => exact ⟨(fillCells id (.hole j :: t) bs).takeWhile Cell.isByte, by simp [Cell.isByte]⟩

theorem takeWhile_append_prefix (a b : List Cell) :
    ∃ more, (a ++ b).takeWhile Cell.isByte = a.takeWhile Cell.isByte ++ more := by
  induction a with
  | nil => exact ⟨b.takeWhile Cell.isByte, by simp⟩
  | cons c t ih =>
    obtain ⟨more, h⟩ := ih
    by_cases hc : c.isByte = true
    · exact ⟨more, by simp [hc, h]⟩
    · exact ⟨[], by simp [hc]⟩

theorem stable_apply_prefix (q : Pipe) (op : Op) : q.stable <+: (q.apply op).stable := by
  have key : ∃ more, (q.apply op).cells.takeWhile Cell.isByte = q.cells.takeWhile Cell.isByte ++ more := by
    cases op with
    | append bs => exact takeWhile_append_prefix _ _
    | register n => exact takeWhile_append_prefix _ _
    | fill i bs => exact fillCells_takeWhile _ _ _
  obtain ⟨more, h⟩ := key
  exact ⟨cellBytes more, by simp [Pipe.stable, h, cellBytes_append]⟩

theorem stable_run_prefix (q : Pipe) (ops : List Op) : q.stable <+: (q.run ops).stable := by
  induction ops generalizing q with
  | nil => exact List.prefix_refl _
  | cons op t ih =>
    simp only [Pipe.run, List.foldl_cons] at ih ⊢
    exact List.IsPrefix.trans (stable_apply_prefix q op) (ih _)

theorem stable_prefix_bytes (q : Pipe) : q.stable <+: q.bytes := by
  obtain ⟨rest, h1, _⟩ := stable_eq q
  refine ⟨cellBytes rest, ?_⟩
  conv => rhs; rw [Pipe.bytes, h1]
  simp [cellBytes_append]

/-- `drain_prefix`: at any moment of any interleaving, what was drained so far followed by what
is stable now is a prefix of the final bytes. -/
theorem drain_prefix (q : Pipe) (evs1 evs2 : List Ev) :
    (runEv q evs1).consumed ++ (runEv q evs1).stable <+: (q.total.run (prodOps (evs1 ++ evs2))).bytes := by
  rw [consumed_stable, runEv_total, prodOps_append, run_append]
  exact List.IsPrefix.trans (stable_run_prefix _ _) (stable_prefix_bytes _)

/-- `drain_complete`: everything drained plus what is still buffered at the end is the final output. -/
theorem drain_complete (q : Pipe) (evs : List Ev) :
    (runEv q evs).consumed ++ (runEv q evs).bytes = (q.total.run (prodOps evs)).bytes ∧
    (runEv q evs).pending = (q.total.run (prodOps evs)).pending := by
  rw [consumed_bytes, ← pending_total, runEv_total]
  exact ⟨rfl, rfl⟩

/-- Step form of the commutation: consuming `n` currently stable bytes before or after a producer
op gives the same pipe and the same count. -/
theorem consume_apply_comm (q : Pipe) (op : Op) (n : Nat) (hn : n ≤ q.stable.length) :
    (q.apply op).consume n = (((q.consume n).1).apply op, n) := by
  obtain ⟨rest, h1, _⟩ := stable_eq q
  obtain ⟨more, hmore⟩ := stable_apply_prefix q op
  have hmin1 : min n q.stable.length = n := by omega
  have hmin2 : min n (q.apply op).stable.length = n := by
    rw [← hmore]; simp only [List.length_append]; omega
  have htake : (q.apply op).stable.take n = q.stable.take n := by
    rw [← hmore, List.take_append_of_le_length hn]
  simp only [Pipe.consume, hmin1, hmin2, htake, Prod.mk.injEq, and_true]
  cases op with
  | append bs =>
    simp only [Pipe.apply, Pipe.append, Pipe.mk.injEq, and_true]
    rw [h1, List.append_assoc, drop_map_byte_append _ _ _ hn, drop_map_byte_append _ _ _ hn, List.append_assoc]
  | register k =>
    simp only [Pipe.apply, Pipe.register, Pipe.mk.injEq, and_true]
    rw [h1, List.append_assoc, drop_map_byte_append _ _ _ hn, drop_map_byte_append _ _ _ hn, List.append_assoc]
  | fill i bs =>
    simp only [Pipe.apply, Pipe.fill, Pipe.mk.injEq, and_true]
    rw [h1, fillCells_map_byte_append, drop_map_byte_append _ _ _ hn, drop_map_byte_append _ _ _ hn,
      fillCells_map_byte_append]

/-! ### no placeholder ever: everything is immediately stable (decoder side) -/

theorem stable_of_not_pending (q : Pipe) (h : q.pending = false) :
    q.stable = q.bytes ∧ q.stable.length = q.size := by
  obtain ⟨cells, consumed, nid⟩ := q
  simp only [Pipe.pending, Pipe.stable, Pipe.bytes, Pipe.size] at *
  induction cells with
  | nil => exact ⟨rfl, rfl⟩
  | cons c t ih =>
    cases c with
    | byte b =>
      have h' : (t.any fun c => !c.isByte) = false := by
        simpa only [List.any_cons, Cell.isByte, Bool.not_true, Bool.false_or] using h
      obtain ⟨h1, h2⟩ := ih h'
      rw [h1] at h2
      have ht : List.takeWhile Cell.isByte (Cell.byte b :: t) = Cell.byte b :: List.takeWhile Cell.isByte t := by
        simp [List.takeWhile_cons, Cell.isByte]
      rw [ht, cellBytes_byte, h1]
      exact ⟨rfl, by simp [h2]⟩
    | hole i => simp [Cell.isByte] at h

theorem pending_run_appendOnly (q : Pipe) (ops : List Op) (h : ops.all Op.isAppend = true)
    (hq : q.pending = false) : (q.run ops).pending = false := by
  rw [run_appendOnly q ops h]
  simp only [Pipe.pending, List.any_append, any_hole_map_byte, Bool.or_false] at hq ⊢
  exact hq

end Woodpile.Pipe

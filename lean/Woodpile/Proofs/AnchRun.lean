/-
Codec runs with ALL input methods as chains of micro-steps (`Proofs/AnchGuard.lean`: `HStep`, `HPath`).

`encFeed` / `decFeed` (one `encode` / `decode` call of `Model/EncWorld.lean`) whose borrowed input is an
in-bounds caller buffer or the anchored slice the call holds is a chain of `HStep`s; so is every call of
`encCallA` / `decCallsA` (`.read`: `read_n` on the codec's own arena — the call holds the result —, the
feed, the `push_anchor`).  No simulation and no validity hypothesis is needed: a state-machine step only
ever borrows a PREFIX of its input (`once_borrow_prefix`, `dec_once_src`).

Hence `HInv` (`IovOkZ` guard + `ArenaInv` with the held slice registered) holds between the calls of —
and after — every encoder and decoder run, and at every micro-step in between.
-/
import Woodpile.Proofs.AnchGuard
import Woodpile.Proofs.EncFootprint

namespace Woodpile.EncWorld
open Woodpile.Hcobs Woodpile.Iovec Woodpile.Arena

/-- Where the borrowed appends of a feed loop may point: an in-bounds range of a caller buffer, or a
range of the anchored slice the call holds. -/
def SrcFine (exts : List (List UInt8)) (held : Option ASlice) (base : Slice) : Prop :=
  (∃ b, base.region = .ext b ∧ b < exts.length ∧ base.off + base.len ≤ (exts.getD b []).length) ∨
  (∃ a k, held = some a ∧ base.region = .chunk k ∧ a.slice.region = .chunk k ∧ a.slice.off ≤ base.off ∧
    base.off + base.len ≤ a.slice.off + a.slice.len)

theorem SrcFine.sub {exts : List (List UInt8)} {held : Option ASlice} {base s : Slice} (h : SrcFine exts held base)
    (hr : s.region = base.region) (h1 : base.off ≤ s.off) (h2 : s.off + s.len ≤ base.off + base.len) :
    SrcFine exts held s := by
  rcases h with ⟨b, hb, hlt, hle⟩ | ⟨a, k, ha, hk, hak, ho, hl⟩
  · exact Or.inl ⟨b, by rw [hr]; exact hb, hlt, by omega⟩
  · exact Or.inr ⟨a, k, ha, by rw [hr]; exact hk, hak, by omega, by omega⟩

/-- One emit as a micro-step. -/
theorem applyEmit_hstep {w w' : World} {i : Nat} {held : Option ASlice} {toks toks' : List Backref} {e : Emit}
    {src : Slice}
    (hsrc : e.method = .borrow → ∀ bs, e.op = .append bs → SrcFine w.exts held src ∧ bs.length ≤ src.len)
    (h : applyEmit w i toks e src = some (w', toks')) : HStep i w held w' held := by
  obtain ⟨op, m⟩ := e
  cases op with
  | append bs =>
    cases m with
    | copy =>
      simp only [applyEmit, Option.map_eq_some_iff, Prod.mk.injEq] at h
      obtain ⟨w1, h1, rfl, _⟩ := h
      exact .copy h1
    | borrow =>
      simp only [applyEmit, Option.map_eq_some_iff, Prod.mk.injEq] at h
      obtain ⟨w1, h1, rfl, _⟩ := h
      obtain ⟨hf, hlen⟩ := hsrc rfl bs rfl
      rcases hf with ⟨b, hb, hlt, hle⟩ | ⟨a, k, ha, hk, hak, ho, hl⟩
      · refine .pushExt h1 ⟨b, hb⟩ ?_
        intro b' hb'
        simp only at hb'
        rw [hb] at hb'
        cases hb'
        exact ⟨hlt, by simp only; omega⟩
      · subst ha
        exact .pushHeld h1 (by simp only; rw [hk, hak]) ⟨k, hk⟩ (by simp only; omega) (by simp only; omega)
  | register n =>
    simp only [applyEmit] at h
    cases h1 : w.registerPatch i (List.replicate n 0) with
    | none => rw [h1] at h; cases h
    | some x =>
      obtain ⟨w1, b⟩ := x
      rw [h1] at h
      simp only [Option.some.injEq, Prod.mk.injEq] at h
      obtain ⟨rfl, _⟩ := h
      exact .register h1
  | fill id bs =>
    simp only [applyEmit] at h
    cases h0 : toks[id]? with
    | none => rw [h0] at h; cases h
    | some b =>
      rw [h0] at h
      simp only [Option.map_eq_some_iff, Prod.mk.injEq] at h
      obtain ⟨w1, h1, rfl, _⟩ := h
      exact .backfill h1

theorem applyStep_hpath (i : Nat) (held : Option ASlice) (src : Slice) : ∀ (es : List Emit) (w w' : World)
    (toks toks' : List Backref),
    (∀ e ∈ es, e.method = .borrow → ∀ bs, e.op = .append bs → SrcFine w.exts held src ∧ bs.length ≤ src.len) →
    applyStep w i toks es src = some (w', toks') → HPath i w held w' held ∧ w'.exts = w.exts := by
  intro es
  induction es with
  | nil =>
    intro w w' toks toks' _ h
    simp only [applyStep, Option.some.injEq, Prod.mk.injEq] at h
    obtain ⟨rfl, rfl⟩ := h
    exact ⟨.nil _ _, rfl⟩
  | cons e t ih =>
    intro w w' toks toks' hsrc h
    simp only [applyStep] at h
    cases h1 : applyEmit w i toks e src with
    | none => rw [h1] at h; cases h
    | some x =>
      obtain ⟨w1, toks1⟩ := x
      rw [h1] at h
      have hst := applyEmit_hstep (held := held) (hsrc e (by simp)) h1
      have hex := applyEmit_exts h1
      obtain ⟨hp, hex2⟩ := ih w1 w' toks1 toks' (fun x hx hb bs hop => by rw [hex]; exact hsrc x (by simp [hx]) hb bs hop) h
      exact ⟨.cons hst hp, hex2.trans hex⟩

/-- One `encode` / `encode_copy` call whose borrowed input (if any) lies in `base`. -/
theorem encFeed_hpath (p : Params) (i : Nat) (m : Method) (held : Option ASlice) (base : Slice) (fuel : Nat) :
    ∀ (w : World) (e : EncW) (input : List UInt8) (pos : Nat) (w' : World) (e' : EncW),
    (m = .borrow → SrcFine w.exts held base) → (m = .borrow → input ≠ [] → input.length + pos ≤ base.len) →
    encFeed p fuel w i e m base input pos = some (w', e') → HPath i w held w' held ∧ w'.exts = w.exts := by
  induction fuel with
  | zero =>
    intro w e input pos w' e' _ _ h
    simp only [encFeed_zero, Option.some.injEq, Prod.mk.injEq] at h
    obtain ⟨rfl, rfl⟩ := h
    exact ⟨.nil _ _, rfl⟩
  | succ fuel ih =>
    intro w e input pos w' e' hsf hlen h
    by_cases hne : input = []
    · subst hne
      simp only [encFeed_nil, Option.some.injEq, Prod.mk.injEq] at h
      obtain ⟨rfl, rfl⟩ := h
      exact ⟨.nil _ _, rfl⟩
    · rw [encFeed_succ p fuel w i e m base input pos hne] at h
      cases h1 : applyStep w i e.toks (Enc.consumeOnce p e.st e.nid m input).emits
          { base with off := base.off + pos, len := base.len - pos } with
      | none => rw [h1] at h; cases h
      | some x =>
        obtain ⟨w1, toks1⟩ := x
        rw [h1] at h
        obtain ⟨hp1, hex1⟩ := applyStep_hpath i held _ _ w w1 e.toks toks1 (by
          intro x hx hb bs hop
          obtain ⟨hm, hpre⟩ := once_borrow_prefix p e.st e.nid m input x hx hb bs hop
          have := hpre.length_le
          have hl := hlen hm hne
          exact ⟨(hsf hm).sub rfl (by simp only; omega) (by simp only; omega), by simp only; omega⟩) h1
        have hlen2 : m = .borrow → input.drop (Enc.consumeOnce p e.st e.nid m input).consumed ≠ [] →
            (input.drop (Enc.consumeOnce p e.st e.nid m input).consumed).length +
              (pos + (Enc.consumeOnce p e.st e.nid m input).consumed) ≤ base.len := by
          intro hm hne'
          have hl := hlen hm hne
          have hc : (Enc.consumeOnce p e.st e.nid m input).consumed < input.length := by
            apply Nat.lt_of_not_le
            intro hc
            exact hne' (List.drop_eq_nil_of_le hc)
          simp only [List.length_drop]; omega
        obtain ⟨hp2, hex2⟩ := ih w1 _ _ _ w' e' (fun hm => by rw [hex1]; exact hsf hm) hlen2 h
        exact ⟨hp1.trans hp2, hex2.trans hex1⟩

/-- One `decode` / `decode_copy` call whose borrowed input (if any) lies in `base`. -/
theorem decFeed_hpath (p : Params) (i : Nat) (m : Method) (held : Option ASlice) (base : Slice) (fuel : Nat) :
    ∀ (w : World) (s : DecState) (input : List UInt8) (pos : Nat) (w' : World) (res : Except DecErr DecState),
    (m = .borrow → SrcFine w.exts held base) → (m = .borrow → input.length + pos ≤ base.len) →
    decFeed p m fuel w i s base input pos = some (w', res) → HPath i w held w' held ∧ w'.exts = w.exts := by
  induction fuel with
  | zero =>
    intro w s input pos w' res _ _ h
    simp only [decFeed_zero, Option.some.injEq, Prod.mk.injEq] at h
    obtain ⟨rfl, rfl⟩ := h
    exact ⟨.nil _ _, rfl⟩
  | succ fuel ih =>
    intro w s input pos w' res hsf hlen h
    cases input with
    | nil =>
      simp only [decFeed_nil, Option.some.injEq, Prod.mk.injEq] at h
      obtain ⟨rfl, rfl⟩ := h
      exact ⟨.nil _ _, rfl⟩
    | cons b rest =>
      obtain ⟨hsrc_err, hsrc_ok⟩ := dec_once_src p m s b rest
      cases ho : Dec.once p m s b rest with
      | error ee =>
        obtain ⟨err, es⟩ := ee
        rw [decFeed_cons_error p m fuel w i s base b rest pos err es ho] at h
        cases h1 : applyStep w i [] es base with
        | none => rw [h1] at h; cases h
        | some x =>
          obtain ⟨w1, toks1⟩ := x
          rw [h1] at h
          simp only [Option.some.injEq, Prod.mk.injEq] at h
          obtain ⟨rfl, rfl⟩ := h
          exact applyStep_hpath i held base es w w1 [] toks1
            (fun e he hb => (hsrc_err err es ho e he hb).elim) h1
      | ok o =>
        rw [decFeed_cons_ok p m fuel w i s base b rest pos o ho] at h
        obtain ⟨hcons, hpre⟩ := hsrc_ok o ho
        cases h1 : applyStep w i [] o.emits { base with off := base.off + pos, len := base.len - pos } with
        | none => rw [h1] at h; cases h
        | some x =>
          obtain ⟨w1, toks1⟩ := x
          rw [h1] at h
          simp only at h
          obtain ⟨hp1, hex1⟩ := applyStep_hpath i held _ _ w w1 [] toks1 (by
            intro x hx hb bs hop
            obtain ⟨hm, hp⟩ := hpre x hx hb bs hop
            have := hp.length_le
            have hl := hlen hm
            simp only [List.length_cons] at hl this
            exact ⟨(hsf hm).sub rfl (by simp only; omega) (by simp only; omega), by simp only; omega⟩) h1
          obtain ⟨hp2, hex2⟩ := ih w1 o.st _ _ w' res (fun hm => by rw [hex1]; exact hsf hm) (by
            intro hm
            have hl := hlen hm
            simp only [List.length_drop]; omega) h
          exact ⟨hp1.trans hp2, hex2.trans hex1⟩

theorem sliceBytes_len0 (w : World) (s : Slice) (h : s.len = 0) : w.sliceBytes s = [] := by
  unfold World.sliceBytes
  cases s.region with
  | chunk k => simp [Heap.read, h]
  | ext b => simp [h]

theorem srcFine_lent (w : World) (held : Option ASlice) (d : List UInt8) :
    SrcFine (w.addExt d).1.exts held ⟨.ext w.exts.length, 0, d.length⟩ := by
  refine Or.inl ⟨w.exts.length, rfl, by simp [World.addExt], ?_⟩
  simp [World.addExt, List.getD_eq_getElem?_getD]

/-- `encode_anchored(a)` of a non-empty slice the call holds: the feed, then the anchor. -/
theorem encodeAnchored_hpath (p : Params) (i : Nat) (w w' : World) (e e' : EncW) (a : ASlice)
    (hl : a.slice.len ≠ 0) (hreg : ∃ c, a.slice.region = .chunk c)
    (h : encodeAnchored p w i e a = some (w', e')) : HPath i w (some a) w' none := by
  simp only [encodeAnchored] at h
  cases hf : encFeed p (2 * (w.sliceBytes a.slice).length + 2) w i e .borrow a.slice (w.sliceBytes a.slice) 0 with
  | none => rw [hf] at h; cases h
  | some z =>
    obtain ⟨w2, e2⟩ := z
    rw [hf] at h
    simp only [pushAnchorOf, hl, if_false] at h
    cases hpa : w2.pushAnchor i a.anchor with
    | none => rw [hpa] at h; cases h
    | some w3 =>
      rw [hpa] at h
      simp only [Option.some.injEq, Prod.mk.injEq] at h
      obtain ⟨rfl, rfl⟩ := h
      obtain ⟨c, hc⟩ := hreg
      obtain ⟨hp, _⟩ := encFeed_hpath p i .borrow (some a) a.slice _ w e _ 0 w2 e2
        (fun _ => Or.inr ⟨a, c, rfl, hc, hc, Nat.le_refl _, Nat.le_refl _⟩)
        (fun _ _ => by rw [sliceBytes_chunk_length w a.slice ⟨c, hc⟩]; omega) hf
      exact hp.trans (.single (.anchor hpa))

/-- `decode_anchored(a)` of a non-empty slice the call holds. -/
theorem decodeAnchored_hpath (p : Params) (i : Nat) (w w' : World) (s : DecState) (a : ASlice)
    (res : Except DecErr DecState) (hl : a.slice.len ≠ 0) (hreg : ∃ c, a.slice.region = .chunk c)
    (h : decodeAnchored p w i s a = some (w', res)) : HPath i w (some a) w' none := by
  simp only [decodeAnchored] at h
  cases hf : decFeed p .borrow ((w.sliceBytes a.slice).length + 1) w i s a.slice (w.sliceBytes a.slice) 0 with
  | none => rw [hf] at h; cases h
  | some z =>
    obtain ⟨w2, r2⟩ := z
    rw [hf] at h
    simp only [pushAnchorOf, hl, if_false] at h
    cases hpa : w2.pushAnchor i a.anchor with
    | none => rw [hpa] at h; cases h
    | some w3 =>
      rw [hpa] at h
      simp only [Option.some.injEq, Prod.mk.injEq] at h
      obtain ⟨rfl, rfl⟩ := h
      obtain ⟨c, hc⟩ := hreg
      obtain ⟨hp, _⟩ := decFeed_hpath p i .borrow (some a) a.slice _ w s _ 0 w2 r2
        (fun _ => Or.inr ⟨a, c, rfl, hc, hc, Nat.le_refl _, Nat.le_refl _⟩)
        (fun _ => by rw [sliceBytes_chunk_length w a.slice ⟨c, hc⟩]; omega) hf
      exact hp.trans (.single (.anchor hpa))

/-- `encode_anchored` / `decode_anchored` of an EMPTY slice do nothing. -/
theorem encodeAnchored_empty (p : Params) (i : Nat) (w : World) (e : EncW) (a : ASlice) (hl : a.slice.len = 0) :
    encodeAnchored p w i e a = some (w, e) := by
  simp [encodeAnchored, sliceBytes_len0 w a.slice hl, encFeed_nil, pushAnchorOf, hl]

theorem decodeAnchored_empty (p : Params) (i : Nat) (w : World) (s : DecState) (a : ASlice) (hl : a.slice.len = 0) :
    decodeAnchored p w i s a = some (w, .ok s) := by
  simp [decodeAnchored, sliceBytes_len0 w a.slice hl, decFeed_nil, pushAnchorOf, hl]

/-- One encoder call of the full vocabulary. -/
theorem encCallA_hpath (p : Params) (i : Nat) (r r' : Run) (c : ACall) (h : encCallA p i r c = some r') :
    HPath i r.w none r'.w none := by
  cases c with
  | call c =>
    cases c with
    | feed m d =>
      cases m with
      | copy =>
        simp only [encCallA, encCall, Option.map_eq_some_iff] at h
        obtain ⟨x, hx, rfl⟩ := h
        exact (encFeed_hpath p i .copy none _ _ r.w r.e d 0 x.1 x.2 (fun hm => by cases hm)
          (fun hm => by cases hm) hx).1
      | borrow =>
        simp only [encCallA, encCall, Option.map_eq_some_iff] at h
        obtain ⟨x, hx, rfl⟩ := h
        exact (HPath.single (.lend d)).trans
          (encFeed_hpath p i .borrow none _ _ (r.w.addExt d).1 r.e d 0 x.1 x.2 (fun _ => srcFine_lent r.w none d)
            (fun _ _ => by simp) hx).1
    | consume k =>
      simp only [encCallA, encCall] at h
      cases hv : r.w.iov i with
      | none => rw [hv] at h; cases h
      | some v =>
        rw [hv] at h
        simp only [Option.map_eq_some_iff] at h
        obtain ⟨x, hx, rfl⟩ := h
        exact .single (.consume (n := x.2) (by rw [hx]))
    | advance k =>
      simp only [encCallA, encCall] at h
      cases hv : r.w.iov i with
      | none => rw [hv] at h; cases h
      | some v =>
        rw [hv] at h
        simp only [Option.map_eq_some_iff] at h
        obtain ⟨x, hx, rfl⟩ := h
        exact .single (.advance (n := x.2) (by rw [hx]))
  | read count attempts src script =>
    simp only [encCallA, Option.map_eq_some_iff] at h
    obtain ⟨x, hx, rfl⟩ := h
    simp only [encodeRead] at hx
    cases hro : readOwn r.w i ⟨src, script⟩ count attempts with
    | none => rw [hro] at hx; cases hx
    | some y =>
      obtain ⟨w1, res, o⟩ := y
      rw [hro] at hx
      obtain ⟨_, _, _, _, _, _, _, hshape⟩ := readOwn_shape hro
      cases res with
      | error k =>
        simp only [Option.some.injEq] at hx
        subst hx
        exact .single (.readErr hro)
      | ok a =>
        simp only at hx
        by_cases hl : a.slice.len = 0
        · rw [encodeAnchored_empty p i w1 r.e a hl] at hx
          simp only [Option.some.injEq] at hx
          subst hx
          exact .single (.readEmpty hro hl)
        · cases hea : encodeAnchored p w1 i r.e a with
          | none => rw [hea] at hx; cases hx
          | some z =>
            obtain ⟨w2, e2⟩ := z
            rw [hea] at hx
            simp only [Option.some.injEq] at hx
            subst hx
            have hreg : ∃ c, a.slice.region = .chunk c := by
              rcases hshape a rfl with h0 | h0
              · exact absurd h0 hl
              · exact h0
            exact (HPath.single (.readOk hro hl)).trans (encodeAnchored_hpath p i w1 w2 r.e e2 a hl hreg hea)

theorem encCallsA_hpath (p : Params) (i : Nat) (calls : List ACall) : ∀ (r r' : Run),
    encCallsA p i r calls = some r' → HPath i r.w none r'.w none := by
  induction calls with
  | nil =>
    intro r r' h
    simp only [encCallsA, Option.some.injEq] at h
    subst h; exact .nil _ _
  | cons c t ih =>
    intro r r' h
    simp only [encCallsA] at h
    cases h1 : encCallA p i r c with
    | none => rw [h1] at h; cases h
    | some r1 =>
      rw [h1] at h
      exact (encCallA_hpath p i r r1 c h1).trans (ih r1 r' h)

theorem encInit_hpath (p : Params) (i : Nat) (w w' : World) (e : EncW) (h : encInit p w i = some (w', e)) :
    HPath i w none w' none := by
  simp only [encInit] at h
  cases h0 : applyStep w i [] (Enc.init p 0).2 ⟨.ext 0, 0, 0⟩ with
  | none => rw [h0] at h; cases h
  | some x =>
    obtain ⟨wa, toksa⟩ := x
    rw [h0] at h
    simp only [Option.some.injEq, Prod.mk.injEq] at h
    obtain ⟨rfl, _⟩ := h
    refine (applyStep_hpath i none _ _ w wa [] toksa ?_ h0).1
    intro x hx hb
    simp only [Enc.init, List.mem_singleton] at hx
    subst hx; cases hb

/-- `Encoder::new` and any calls, all input methods: a chain of micro-steps from the fresh world. -/
theorem encPrefixA_hpath (p : Params) (pol : Policy) (tun : Tuning) (calls : List ACall) (r : Run)
    (h : encPrefixA p pol tun calls = some r) : HPath 0 (World.fresh pol tun) none r.w none := by
  simp only [encPrefixA] at h
  cases h0 : encInit p (World.fresh pol tun) 0 with
  | none => rw [h0] at h; cases h
  | some x =>
    obtain ⟨w1, e1⟩ := x
    rw [h0] at h
    exact (encInit_hpath p 0 _ w1 e1 h0).trans (encCallsA_hpath p 0 calls ⟨w1, e1, []⟩ r h)

/-- … and `finish`. -/
theorem encRunA_hpath (p : Params) (pol : Policy) (tun : Tuning) (calls : List ACall) (w' : World) (dr : List UInt8)
    (h : encRunA p pol tun calls = some (w', dr)) : HPath 0 (World.fresh pol tun) none w' none := by
  simp only [encRunA] at h
  cases h1 : encPrefixA p pol tun calls with
  | none => rw [h1] at h; cases h
  | some r =>
    rw [h1] at h
    simp only [encFinish, Option.map_eq_some_iff, Prod.mk.injEq] at h
    obtain ⟨wf, ⟨x, hx, rfl⟩, rfl, _⟩ := h
    refine (encPrefixA_hpath p pol tun calls r h1).trans (applyStep_hpath 0 none _ _ r.w x.1 r.e.toks x.2 ?_ hx).1
    intro e he hb
    exact (finish_no_borrow p _ e he hb).elim

/-- The decoder's calls, all input methods (whatever the verdict). -/
theorem decCallsA_hpath (p : Params) (i : Nat) (calls : List ACall) :
    ∀ (w : World) (s : DecState) (dr : List UInt8) (w' : World) (dr' : List UInt8) (res : Except DecErr Unit),
    decCallsA p i w s dr calls = some (w', dr', res) → HPath i w none w' none := by
  induction calls with
  | nil =>
    intro w s dr w' dr' res hc
    simp only [decCallsA, Option.some.injEq, Prod.mk.injEq] at hc
    rw [← hc.1]; exact .nil _ _
  | cons c t ih =>
    intro w s dr w' dr' res hc
    cases c with
    | call c =>
      cases c with
      | feed m d =>
        simp only [decCallsA] at hc
        cases h1 : decFeedCall p i w s m d with
        | none => rw [h1] at hc; cases hc
        | some x =>
          obtain ⟨w1, r1⟩ := x
          rw [h1] at hc
          have hw1 : HPath i w none w1 none := by
            cases m with
            | copy =>
              exact (decFeed_hpath p i .copy none _ _ w s d 0 w1 r1 (fun hm => by cases hm) (fun hm => by cases hm) h1).1
            | borrow =>
              exact (HPath.single (.lend d)).trans
                (decFeed_hpath p i .borrow none _ _ (w.addExt d).1 s d 0 w1 r1 (fun _ => srcFine_lent w none d)
                  (fun _ => by simp) h1).1
          cases r1 with
          | ok s1 => exact hw1.trans (ih w1 s1 dr w' dr' res hc)
          | error e =>
            simp only [Option.some.injEq, Prod.mk.injEq] at hc
            rw [← hc.1]; exact hw1
      | consume k =>
        simp only [decCallsA] at hc
        cases hv : w.iov i with
        | none => rw [hv] at hc; cases hc
        | some v =>
          cases hx : w.consume i k with
          | none => rw [hv, hx] at hc; cases hc
          | some x =>
            rw [hv, hx] at hc
            exact (HPath.single (.consume (n := x.2) (by rw [hx]))).trans (ih x.1 s _ w' dr' res hc)
      | advance k =>
        simp only [decCallsA] at hc
        cases hv : w.iov i with
        | none => rw [hv] at hc; cases hc
        | some v =>
          cases hx : w.advance i k with
          | none => rw [hv, hx] at hc; cases hc
          | some x =>
            rw [hv, hx] at hc
            exact (HPath.single (.advance (n := x.2) (by rw [hx]))).trans (ih x.1 s _ w' dr' res hc)
    | read count attempts src script =>
      simp only [decCallsA] at hc
      cases hd : decodeRead p w i s ⟨src, script⟩ count attempts with
      | none => rw [hd] at hc; cases hc
      | some y =>
        obtain ⟨w1, rr, o⟩ := y
        rw [hd] at hc
        have hw1 : HPath i w none w1 none := by
          simp only [decodeRead] at hd
          cases hro : readOwn w i ⟨src, script⟩ count attempts with
          | none => rw [hro] at hd; cases hd
          | some z =>
            obtain ⟨wa, resa, oa⟩ := z
            rw [hro] at hd
            obtain ⟨_, _, _, _, _, _, _, hshape⟩ := readOwn_shape hro
            cases resa with
            | error k =>
              simp only [Option.some.injEq, Prod.mk.injEq] at hd
              rw [← hd.1]; exact .single (.readErr hro)
            | ok a =>
              simp only at hd
              by_cases hl : a.slice.len = 0
              · rw [decodeAnchored_empty p i wa s a hl] at hd
                simp only [Option.some.injEq, Prod.mk.injEq] at hd
                rw [← hd.1]; exact .single (.readEmpty hro hl)
              · cases hda : decodeAnchored p wa i s a with
                | none => rw [hda] at hd; cases hd
                | some u =>
                  obtain ⟨wb, resb⟩ := u
                  rw [hda] at hd
                  simp only [Option.some.injEq, Prod.mk.injEq] at hd
                  rw [← hd.1]
                  have hreg : ∃ c, a.slice.region = .chunk c := by
                    rcases hshape a rfl with h0 | h0
                    · exact absurd h0 hl
                    · exact h0
                  exact (HPath.single (.readOk hro hl)).trans (decodeAnchored_hpath p i wa wb s a resb hl hreg hda)
        cases rr with
        | error k => exact hw1.trans (ih w1 s dr w' dr' res hc)
        | ok q =>
          obtain ⟨n, verdict⟩ := q
          cases verdict with
          | ok s1 => exact hw1.trans (ih w1 s1 dr w' dr' res hc)
          | error e =>
            simp only [Option.some.injEq, Prod.mk.injEq] at hc
            rw [← hc.1]; exact hw1

theorem decRunA_hpath (p : Params) (pol : Policy) (tun : Tuning) (calls : List ACall) (w' : World) (dr : List UInt8)
    (res : Except DecErr Unit) (h : decRunA p pol tun calls = some (w', dr, res)) :
    HPath 0 (World.fresh pol tun) none w' none :=
  decCallsA_hpath p 0 calls _ _ _ w' dr res h

theorem hinv_fresh (pol : Policy) (tun : Tuning) : HInv 0 (World.fresh pol tun) none := (good_fresh pol tun).hInv 0

end Woodpile.EncWorld

namespace Woodpile.Iovec
open Woodpile.Arena

/-! ### What the invariant says between calls -/

/-- `C05.exposed_live` from `HInv` (no head condition needed). -/
theorem HInv.exposed_live {i : Nat} {w : World} (h : HInv i w none) : ∃ caps : Nat → Nat,
    (∀ j v n, w.iov j = some v → v.stableCount = some n → ∀ s ∈ v.slices.take n,
      Live w s ∧ ∀ k, s.region = .chunk k → k ∈ anchorChunks v.anchors ∧ s.off + s.len ≤ caps k) ∧
    (∀ j a, w.aslice j = some a → a.slice.len ≠ 0 →
      Live w a.slice ∧ ∃ k, a.slice.region = .chunk k ∧ a.anchor.chunk = some k ∧
        a.slice.off + a.slice.len ≤ caps k) := by
  obtain ⟨caps, ha⟩ := h.arena
  simp only [holding_none] at ha
  refine ⟨caps, fun j v n hv _ s hs => ?_, fun j a haj hl => ?_⟩
  · have hm := List.mem_of_mem_take hs
    have hok := h.iovOk j v hv
    have hz : (if j = i then heldZs none else []) = ([] : List Anchor) := by split <;> rfl
    rw [hz] at hok
    have hg : ∀ k, s.region = .chunk k → k ∈ anchorChunks v.anchors := by
      intro k hk
      have := (hok.guard.mem s hm).2 k hk
      simpa using this
    refine ⟨?_, fun k hk => ⟨hg k hk, ha.inCap s k (Or.inl ⟨j, v, hv, hm⟩) hk⟩⟩
    unfold Live
    split
    · rename_i b hb; exact hok.extOk s hm b hb
    · rename_i k hk
      have := hg k hk
      exact mem_liveChunks.2 ⟨hok.anchorsLt k (by simpa using this), Or.inl ⟨j, v, hv, Or.inr this⟩⟩
  · have hok := h.asliceOk j a haj
    cases hr : a.slice.region with
    | ext b => exact absurd (hok.extEmpty b hr) hl
    | chunk k =>
      have hk := hok.anchored k hr
      refine ⟨?_, k, rfl, hk, ha.inCap a.slice k (Or.inr ⟨j, a, haj, rfl⟩) hr⟩
      unfold Live
      rw [hr]
      exact mem_liveChunks.2 ⟨hok.chunkLt k hk, Or.inr (Or.inr ⟨j, a, haj, hk⟩)⟩

/-- `C05.below_bump` from `HInv`. -/
theorem HInv.below_bump {i : Nat} {w : World} (h : HInv i w none) : ∃ caps : Nat → Nat,
    (∀ x x' c c', w.cacheAt x = some c → w.cacheAt x' = some c' → c.chunk = c'.chunk → x = x') ∧
    (∀ x c, w.cacheAt x = some c → c.bump ≤ c.cap ∧ caps c.chunk = c.cap ∧
      ∀ s, w.HasSlice s → s.region = .chunk c.chunk → s.off + s.len ≤ c.bump) := by
  obtain ⟨caps, ha⟩ := h.arena
  simp only [holding_none] at ha
  exact ⟨caps, ha.unique, fun x c hc => ⟨(ha.bumpLe x c hc).1, (ha.bumpLe x c hc).2,
    fun s hs hr => ha.below x c s hc hs hr⟩⟩

/-- The guard in index form (`C05.slice_guarded`) from `HInv`. -/
theorem HInv.slice_guarded {i : Nat} {w : World} (h : HInv i w none) {j : Nat} {v : Iov} (hv : w.iov j = some v) :
    countSum v.anchors = v.slices.length ∧
    ∀ n s, v.slices[n]? = some s →
      0 < s.len ∧ ∃ m, Counts v.anchors m n ∧ ∀ k, s.region = .chunk k →
        ∃ m' : Nat, ∃ a : Anchor, m ≤ m' ∧ v.anchors[m']? = some a ∧ a.chunk = some k := by
  have hok := h.iovOk j v hv
  have hz : (if j = i then heldZs none else []) = ([] : List Anchor) := by split <;> rfl
  rw [hz] at hok
  have hg : Guarded v.anchors v.slices := by simpa using hok.guard
  exact ⟨hg.countSum_eq, fun n s hs => hg.index n s hs⟩

end Woodpile.Iovec

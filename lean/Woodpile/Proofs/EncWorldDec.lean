/-
The structural decoder as an OBJECT (track apileft, helper decw; audit gaps 8/15 leftovers and 19 leftovers).

`Proofs/EncWorldComp.lean` / `EncWorldAnch.lean` run the decoder state machine on the structural iovec
model up to the FIRST decoding error (`decCalls`, `decCallsA`: "stops at the first error"), and only as a
whole run ending in `finish`.  The Rust `Decoder` is not consumed by an error: `Decoder::decode` swaps
`Default::default()` into `self.state` before it runs the state machine and returns early on `Err`
(hcobs/src/lib.rs:282-295), so the object lives on in `InitialState` over the SAME iovec, which keeps what
was pushed before the error (`Model/EncWorld.decResume`; `Model/HcobsP.Dec.call` is the same fact one
level up, on the abstract pipe).  Here:

* the call vocabulary `BCall` = `ACall` (borrow / copy pieces, `consume`, `advance_slices`,
  `decode_read` / `encode_read` with any scripted reader) + `rd k`, a drain through
  `impl Read for ConsumingIovec` (`consumer().read(&mut buf[..k])` = `Model/EncWorld.readDrain` =
  `World.readInto`);
* `decCallB` / `decCallsB` / `decSessB`: the decoder object over that vocabulary, CONTINUING after
  errors, with a between-calls state `DRun` (world, decoder state, bytes drained, errors returned so
  far) — the prefix function the old whole-run `decRunA` lacked;
* `decCallsB_sim`: every such run agrees with the pipe-level session `Dec.calls` of
  `Model/HcobsP.lean` (track hc3): never panics, same state, same errors, and the iovec represents the
  pipe built by the session's emits (all appends: nothing is ever pending) under the drain schedule;
* the encoder over `BCall` (`encCallB` …) with the same invariants as over `ACall`
  (`RunInv`, the capacity invariant of `Proofs/EncWorldCap.lean`).

Statements for the property files: `Props/C09D.lean` (prefix / completeness / lag, decoder and `_r`
encoder versions) and `Props/C07W.lean` (after an error; sessions; ownership).
-/
import Woodpile.Proofs.EncWorldAnch
import Woodpile.Proofs.EncWorldCap
import Woodpile.Proofs.HcobsPanic
import Woodpile.Proofs.DecGlue
import Woodpile.Props.C07P

namespace Woodpile.EncWorld
open Woodpile.Hcobs Woodpile.Iovec Woodpile.Arena
open Woodpile.Hcobs.EncProof
open Woodpile.Pipe (Cell Pipe cellBytes fillCells Ev runEv prodOps stepEv)

/-! ### `impl Read for ConsumingIovec` on a represented iovec -/

/-- `SimV` only looks at the memory of the world. -/
theorem SimV.sameMem {w w' : World} {v : Iov} {g : List UInt8} {toks : List Backref} {q : Pipe}
    (h : SimV w v g toks q) (hm : SameMem w w') : SimV w' v g toks q :=
  { h with
    inv := hm.inv h.inv
    cells := by
      have := h.cells
      unfold absCells at this ⊢
      rw [hm.flat]; exact this }

/-- `consumer().read(&mut buf[..k])`: never panics; copies out exactly the first `k` bytes of the stable
prefix (all of it when shorter) and consumes exactly those; a consumer event of the pipe. -/
theorem readDrain_sim {w : World} {v : Iov} {g : List UInt8} {toks : List Backref} {q : Pipe} (i k : Nat)
    (hv : w.iov i = some v) (h : SimV w v g toks q) :
    ∃ w' v', readDrain w i k = some (w', (w.visible v).take k) ∧ w'.iov i = some v' ∧
      SimV w' v' (g ++ (w.visible v).take k) toks (q.consume (min k (w.visible v).length)).1 ∧
      (w.visible v).take k <+: q.stable ∧ SameMem w w' := by
  obtain ⟨w', v', h1, h2, h3, h4⟩ := World.readInto_spec i (k + 2) w v k [] hv h.inv (by omega)
  have hm : min k (w.visible v).length ≤ sumLens (v.slices.take v.stableN) := by
    rw [h.inv.visible_length]; exact Nat.min_le_right _ _
  obtain ⟨g1, g2, _⟩ := h.consumed h4 hm
  have hrm : (w.flat v.slices).take (min k (w.visible v).length) = (w.visible v).take k := by
    obtain ⟨rest, hrest⟩ := visible_prefix_flat w v
    rw [← hrest, List.take_append_of_le_length (Nat.min_le_right _ _)]
    rw [List.take_eq_take_iff]; simp
  rw [hrm] at g1 g2
  simp only [List.nil_append] at h1
  exact ⟨w', v', h1, h2, g1.sameMem h3, g2, h3⟩

/-! ### The vocabulary with `Read` drains -/

/-- A call of the full vocabulary: an `ACall` (borrow / copy piece, `consume`, `advance_slices`, anchored
read), or a drain of at most `k` bytes through `impl Read for ConsumingIovec`. -/
inductive BCall where
  | a (c : ACall)
  | rd (k : Nat)
  deriving Repr, DecidableEq

/-- The pieces fed by a call list. -/
def bpieces : List BCall → List (Method × List UInt8)
  | [] => []
  | .a c :: t => apieces [c] ++ bpieces t
  | .rd _ :: t => bpieces t

/-- All input bytes of a call list. -/
def binputOf (calls : List BCall) : List UInt8 := ((bpieces calls).map (·.2)).flatten

theorem bpieces_append (x y : List BCall) : bpieces (x ++ y) = bpieces x ++ bpieces y := by
  induction x with
  | nil => rfl
  | cons c t ih => cases c <;> simp [bpieces, ih]

theorem binputOf_append (x y : List BCall) : binputOf (x ++ y) = binputOf x ++ binputOf y := by
  simp [binputOf, bpieces_append]

theorem bpieces_cons (c : BCall) (t : List BCall) : bpieces (c :: t) = bpieces [c] ++ bpieces t := by
  cases c <;> simp [bpieces]

theorem apieces_cons (c : ACall) (t : List ACall) : apieces (c :: t) = apieces [c] ++ apieces t := by
  cases c <;> simp [apieces]

theorem bpieces_a (calls : List ACall) : bpieces (calls.map .a) = apieces calls := by
  induction calls with
  | nil => rfl
  | cons c t ih =>
    simp only [List.map_cons, bpieces, ih]
    exact (apieces_cons c t).symm

theorem binputOf_a (calls : List ACall) : binputOf (calls.map .a) = ainputOf calls := by
  simp [binputOf, ainputOf, bpieces_a]

theorem bpieces_feeds (X : List (Method × List UInt8)) :
    bpieces (X.map fun x => BCall.a (ACall.call (Call.feed x.1 x.2))) = X := by
  induction X with
  | nil => rfl
  | cons x t ih => simp [bpieces, apieces, pieces, ih]

/-! ### The decoder object: calls continue after an error -/

/-- The decoder between two calls: the world, `self.state`, every byte the consumer took out so far, and
every `Err` a call returned so far (in order). -/
structure DRun where
  w : World
  s : DecState
  drained : List UInt8
  errs : List DecErr

/-- The `Err` of a call, if any. -/
def errOf : Except DecErr DecState → List DecErr
  | .ok _ => []
  | .error e => [e]

/-- One call on the `Decoder` object (as the harness family `codecw` performs it, `Driver/CodecW.lean`):
`decode` / `decode_copy` / `decode_read` leave `decResume verdict` in `self.state` — `InitialState` after
an `Err` — over the same iovec, whatever was pushed before the error included; a failed `read_n` (io
error) decodes nothing; the drains do not touch the decoder. -/
def decCallB (p : Params) (i : Nat) (r : DRun) : BCall → Option DRun
  | .a (.call (.feed m d)) =>
    match decFeedCall p i r.w r.s m d with
    | none => none
    | some (w', res) => some ⟨w', decResume res, r.drained, r.errs ++ errOf res⟩
  | .a (.call (.consume k)) =>
    match r.w.iov i, r.w.consume i k with
    | some v, some x => some ⟨x.1, r.s, r.drained ++ r.w.flat (v.slices.take x.2), r.errs⟩
    | _, _ => none
  | .a (.call (.advance k)) =>
    match r.w.iov i, r.w.advance i k with
    | some v, some x => some ⟨x.1, r.s, r.drained ++ (r.w.flat v.slices).take x.2, r.errs⟩
    | _, _ => none
  | .a (.read count attempts src script) =>
    match decodeRead p r.w i r.s ⟨src, script⟩ count attempts with
    | none => none
    | some (w', .error _, _) => some ⟨w', r.s, r.drained, r.errs⟩
    | some (w', .ok (_, res), _) => some ⟨w', decResume res, r.drained, r.errs ++ errOf res⟩
  | .rd k =>
    match readDrain r.w i k with
    | none => none
    | some (w', bytes) => some ⟨w', r.s, r.drained ++ bytes, r.errs⟩

def decCallsB (p : Params) (i : Nat) : DRun → List BCall → Option DRun
  | r, [] => some r
  | r, c :: t =>
    match decCallB p i r c with
    | none => none
    | some r' => decCallsB p i r' t

/-- `Decoder::new()` on a fresh iovec followed by any calls, errors or not. -/
def decSessB (p : Params) (pol : Policy) (tun : Tuning) (calls : List BCall) : Option DRun :=
  decCallsB p 0 ⟨World.fresh pol tun, .initial, [], []⟩ calls

theorem decCallsB_append (p : Params) (i : Nat) (x y : List BCall) (r : DRun) :
    decCallsB p i r (x ++ y) = (decCallsB p i r x).bind fun r' => decCallsB p i r' y := by
  induction x generalizing r with
  | nil => rfl
  | cons c t ih =>
    simp only [List.cons_append, decCallsB]
    cases decCallB p i r c with
    | none => rfl
    | some r' => exact ih r'

/-- The errors of a pipe-level session, in order. -/
def errsOf (o : Dec.CallsOut) : List DecErr := o.verdicts.filterMap id

theorem calls_nil (p : Params) (s : DecState) : Dec.calls p s [] = ⟨[], [], s⟩ := rfl

theorem calls_single (p : Params) (s : DecState) (m : Method) (d : List UInt8) :
    Dec.calls p s [(m, d)] = ⟨[(Dec.call p m s d).err], (Dec.call p m s d).emits ++ [], (Dec.call p m s d).st⟩ := rfl

theorem calls_appendOnly (p : Params) (X : List (Method × List UInt8)) :
    ∀ s, DecProof.AppendOnly (Dec.calls p s X).emits := by
  induction X with
  | nil => intro s; exact DecProof.appendOnly_nil
  | cons md rest ih =>
    intro s
    obtain ⟨m, d⟩ := md
    simp only [Dec.calls]
    refine DecProof.appendOnly_append ?_ (ih _)
    have := DecProof.feed_appendOnly p m (d.length + 1) s d
    unfold Dec.call Dec.feedAll
    cases hf : Dec.feed p m (d.length + 1) s d with
    | error ee => obtain ⟨e, es⟩ := ee; rw [hf] at this; exact this
    | ok se => obtain ⟨s', es⟩ := se; rw [hf] at this; exact this

/-- One call on the decoder object agrees with the pipe-level `Dec.calls` on the pieces it feeds: no
panic; the same state afterwards (`InitialState` after an error), the same error if any; the iovec
represents the pipe on which the call's emits (those before a rejected byte included) were run, under the
drain schedule. -/
theorem decCallB_sim (p : Params) (i : Nat) (r : DRun) (c : BCall) (v : Iov) (evs : List Ev) (acc : List Emit)
    (hv : r.w.iov i = some v) (h : SimV r.w v r.drained [] (runEv Woodpile.Pipe.empty evs))
    (hev : prodOps evs = acc.map (·.op)) :
    ∃ r' v' evs', decCallB p i r c = some r' ∧ r'.w.iov i = some v' ∧
      SimV r'.w v' r'.drained [] (runEv Woodpile.Pipe.empty evs') ∧
      prodOps evs' = (acc ++ (Dec.calls p r.s (bpieces [c])).emits).map (·.op) ∧
      r'.s = (Dec.calls p r.s (bpieces [c])).st ∧
      r'.errs = r.errs ++ errsOf (Dec.calls p r.s (bpieces [c])) := by
  obtain ⟨w, s, dr, errs⟩ := r
  simp only at hv h
  -- a piece `(m, d)` whose feed was simulated: shared by `feed` and `read`
  have piece : ∀ (m : Method) (d : List UInt8) (w1 : World) (v1 : Iov) (res1 : Except DecErr DecState),
      w1.iov i = some v1 →
      (∀ s' es, Dec.feedAll p m s d = .ok (s', es) → res1 = .ok s' ∧
        SimV w1 v1 dr [] ((runEv Woodpile.Pipe.empty evs).run (es.map (·.op)))) →
      (∀ err es, Dec.feedAll p m s d = .error (err, es) → res1 = .error err ∧
        SimV w1 v1 dr [] ((runEv Woodpile.Pipe.empty evs).run (es.map (·.op)))) →
      ∃ evs', SimV w1 v1 dr [] (runEv Woodpile.Pipe.empty evs') ∧
        prodOps evs' = (acc ++ (Dec.calls p s [(m, d)]).emits).map (·.op) ∧
        decResume res1 = (Dec.calls p s [(m, d)]).st ∧
        errs ++ errOf res1 = errs ++ errsOf (Dec.calls p s [(m, d)]) := by
    intro m d w1 v1 res1 _ h3 h4
    rw [calls_single]
    unfold Dec.call
    cases hf : Dec.feedAll p m s d with
    | error ee =>
      obtain ⟨err, es⟩ := ee
      obtain ⟨a1, a2⟩ := h4 err es hf
      subst a1
      refine ⟨evs ++ (es.map (·.op)).map Ev.prod, ?_, ?_, rfl, rfl⟩
      · rw [Woodpile.Pipe.runEv_append, runEv_prods]; exact a2
      · rw [Woodpile.Pipe.prodOps_append, prodOps_prods, hev]; simp
    | ok se =>
      obtain ⟨s1, es⟩ := se
      obtain ⟨a1, a2⟩ := h3 s1 es hf
      subst a1
      refine ⟨evs ++ (es.map (·.op)).map Ev.prod, ?_, ?_, rfl, rfl⟩
      · rw [Woodpile.Pipe.runEv_append, runEv_prods]; exact a2
      · rw [Woodpile.Pipe.prodOps_append, prodOps_prods, hev]; simp
  cases c with
  | a c =>
    cases c with
    | call c =>
      cases c with
      | feed m d =>
        obtain ⟨w1, v1, res1, h1, h2, h3, h4⟩ := decFeedCall_sim p i m d w v dr s _ hv h
        obtain ⟨evs', g1, g2, g3, g4⟩ := piece m d w1 v1 res1 h2 h3 h4
        have hb : bpieces [BCall.a (ACall.call (Call.feed m d))] = [(m, d)] := by simp [bpieces, apieces, pieces]
        rw [hb]
        exact ⟨⟨w1, decResume res1, dr, errs ++ errOf res1⟩, v1, evs', by simp only [decCallB, h1], h2, g1, g2, g3, g4⟩
      | consume k =>
        obtain ⟨v', h1, h2, _⟩ := World.consume_spec w i v k hv h.inv
        have hm : sumLens (v.slices.take (min k v.stableN)) ≤ sumLens (v.slices.take v.stableN) :=
          sumLens_take_mono _ (Nat.min_le_right _ _)
        obtain ⟨g1, _, _⟩ := h.consumed h2 hm
        rw [flat_take_prefix w v.arena v.slices _ h.inv.slices_ok] at g1
        have hb : bpieces [BCall.a (ACall.call (Call.consume k))] = [] := by simp [bpieces, apieces, pieces]
        rw [hb, calls_nil]
        refine ⟨⟨w.setIov i (some v'), s, dr ++ w.flat (v.slices.take (min k v.stableN)), errs⟩, v',
          evs ++ [.drain (sumLens (v.slices.take (min k v.stableN)))], by simp only [decCallB, hv, h1], by simp, ?_, ?_,
          rfl, by simp [errsOf]⟩
        · rw [Woodpile.Pipe.runEv_append]; exact g1.setIov i _
        · rw [Woodpile.Pipe.prodOps_append, hev]; simp [prodOps]
      | advance k =>
        obtain ⟨v', h1, h2⟩ := World.advance_spec w i v k hv h.inv
        obtain ⟨g1, _, _⟩ := h.consumed h2 (Nat.min_le_right _ _)
        have hb : bpieces [BCall.a (ACall.call (Call.advance k))] = [] := by simp [bpieces, apieces, pieces]
        rw [hb, calls_nil]
        refine ⟨⟨w.setIov i (some v'), s, dr ++ (w.flat v.slices).take (min k (sumLens (v.slices.take v.stableN))), errs⟩,
          v', evs ++ [.drain (min k (sumLens (v.slices.take v.stableN)))], by simp only [decCallB, hv, h1], by simp, ?_, ?_,
          rfl, by simp [errsOf]⟩
        · rw [Woodpile.Pipe.runEv_append]; exact g1.setIov i _
        · rw [Woodpile.Pipe.prodOps_append, hev]; simp [prodOps]
    | read count attempts src script =>
      obtain ⟨w1, v1, res1, o, h1, h2, h3, h4⟩ := decodeRead_sim p i w v dr s _ count attempts src script hv h
      cases hres : (ReadN.readNCore ⟨src, script⟩ count attempts).res with
      | err k =>
        obtain ⟨a1, a2⟩ := h3 k hres
        subst a1
        have hb : bpieces [BCall.a (ACall.read count attempts src script)] = [] := by
          simp [bpieces, apieces, readPiece, hres]
        rw [hb, calls_nil]
        exact ⟨⟨w1, s, dr, errs⟩, v1, evs, by simp only [decCallB, h1], h2, a2, by simpa using hev, rfl,
          by simp [errsOf]⟩
      | ok got =>
        obtain ⟨dres, a1, a2, a3⟩ := h4 got hres
        subst a1
        obtain ⟨evs', g1, g2, g3, g4⟩ := piece .borrow got w1 v1 dres h2 a2 a3
        have hb : bpieces [BCall.a (ACall.read count attempts src script)] = [(.borrow, got)] := by
          simp [bpieces, apieces, readPiece, hres]
        rw [hb]
        exact ⟨⟨w1, decResume dres, dr, errs ++ errOf dres⟩, v1, evs', by simp only [decCallB, h1], h2, g1, g2, g3, g4⟩
  | rd k =>
    obtain ⟨w', v', h1, h2, h3, _, _⟩ := readDrain_sim i k hv h
    have hb : bpieces [BCall.rd k] = [] := rfl
    rw [hb, calls_nil]
    refine ⟨⟨w', s, dr ++ (w.visible v).take k, errs⟩, v', evs ++ [.drain (min k (w.visible v).length)],
      by simp only [decCallB, h1], h2, ?_, ?_, rfl, by simp [errsOf]⟩
    · rw [Woodpile.Pipe.runEv_append]; exact h3
    · rw [Woodpile.Pipe.prodOps_append, hev]; simp [prodOps]

/-- Any calls on the decoder object, errors or not: no panic; state, errors and emits are those of the
pipe-level session `Dec.calls` on the pieces fed; the iovec represents the pipe built by exactly those
emits under the drain schedule. -/
theorem decCallsB_sim (p : Params) (i : Nat) (calls : List BCall) :
    ∀ (r : DRun) (v : Iov) (evs : List Ev) (acc : List Emit),
    r.w.iov i = some v → SimV r.w v r.drained [] (runEv Woodpile.Pipe.empty evs) → prodOps evs = acc.map (·.op) →
    ∃ r' v' evs', decCallsB p i r calls = some r' ∧ r'.w.iov i = some v' ∧
      SimV r'.w v' r'.drained [] (runEv Woodpile.Pipe.empty evs') ∧
      prodOps evs' = (acc ++ (Dec.calls p r.s (bpieces calls)).emits).map (·.op) ∧
      r'.s = (Dec.calls p r.s (bpieces calls)).st ∧
      r'.errs = r.errs ++ errsOf (Dec.calls p r.s (bpieces calls)) := by
  induction calls with
  | nil =>
    intro r v evs acc hv h hev
    exact ⟨r, v, evs, rfl, hv, h, by simpa [bpieces, calls_nil] using hev, rfl, by simp [bpieces, calls_nil, errsOf]⟩
  | cons c t ih =>
    intro r v evs acc hv h hev
    obtain ⟨r1, v1, evs1, h1, h2, h3, h4, h5, h6⟩ := decCallB_sim p i r c v evs acc hv h hev
    obtain ⟨r2, v2, evs2, k1, k2, k3, k4, k5, k6⟩ := ih r1 v1 evs1 _ h2 h3 h4
    refine ⟨r2, v2, evs2, by simp only [decCallsB, h1]; exact k1, k2, k3, ?_, ?_, ?_⟩
    · rw [k4, bpieces_cons c t, DecProof.calls_append, ← h5, List.append_assoc]
    · rw [k5, bpieces_cons c t, DecProof.calls_append, ← h5]
    · rw [k6, h6, bpieces_cons c t, DecProof.calls_append, ← h5]
      simp [errsOf, List.append_assoc]

/-! ### The decoder session from `Decoder::new()` -/

/-- Nothing pending: `stable_prefix()` is every buffered slice. -/
theorem stableCount_of_no_pending (v : Iov) (h : v.hasPending = false) :
    v.stableCount = some v.slices.length := by
  unfold Iov.hasPending at h
  unfold Iov.stableCount
  cases hb : v.backrefs with
  | nil => rfl
  | cons e t => rw [hb] at h; simp at h

theorem findSome_id_none_iff (l : List (Option DecErr)) : l.findSome? id = none ↔ l.filterMap id = [] := by
  induction l with
  | nil => simp
  | cons x t ih => cases x <;> simp [ih]

theorem run_empty_appendOnly_bytes (es : List Emit) (h : DecProof.AppendOnly es) :
    (Pipe.run Pipe.empty (es.map (·.op))).bytes = DecProof.emitBytes es := by
  rw [Woodpile.Pipe.run_appendOnly_bytes _ _ h]
  rfl

/-- The decoder object from `Decoder::new()`, any calls, errors or not: never panics; between calls the
iovec satisfies `IovInv`, nothing is pending, everything buffered is stable, and the bytes drained so far
followed by the buffered ones are exactly the bytes the pipe-level session emitted (what every call,
failed or not, pushed); state and errors are the session's. -/
theorem decSessB_sim (p : Params) (pol : Policy) (tun : Tuning) (calls : List BCall) :
    ∃ r v, decSessB p pol tun calls = some r ∧ r.w.iov 0 = some v ∧ IovInv r.w v ∧
      v.hasPending = false ∧ r.w.visible v = r.w.flat v.slices ∧
      r.drained ++ r.w.flat v.slices = DecProof.emitBytes (Dec.calls p .initial (bpieces calls)).emits ∧
      r.s = (Dec.calls p .initial (bpieces calls)).st ∧
      r.errs = errsOf (Dec.calls p .initial (bpieces calls)) := by
  obtain ⟨r, v, evs, h1, h2, h3, h4, h5, h6⟩ := decCallsB_sim p 0 calls ⟨World.fresh pol tun, .initial, [], []⟩
    Iov.empty [] [] rfl (simV_fresh pol tun) rfl
  simp only [List.nil_append] at h4 h6
  have hao := calls_appendOnly p (bpieces calls) .initial
  have hlag := Woodpile.Pipe.drain_complete Woodpile.Pipe.empty evs
  rw [Woodpile.Pipe.total_empty, h4] at hlag
  have hpend : (runEv Woodpile.Pipe.empty evs).pending = false := by
    rw [hlag.2]; exact Woodpile.Pipe.pending_run_appendOnly _ _ hao rfl
  obtain ⟨g1, g2, g3, _⟩ := h3.no_pending hpend
  refine ⟨r, v, h1, h2, h3.inv, g1, g2, ?_, h5, h6⟩
  rw [g3, h3.ghost, hlag.1]
  exact run_empty_appendOnly_bytes _ hao

/-- `Dec.output` (the run that stops at the first `Err`: the convention of C01 / C07) accepts exactly when
the session has no error and `finish` accepts; the data is then the bytes the session emitted. -/
theorem output_ok_iff (p : Params) (X : List (Method × List UInt8)) (d : List UInt8) :
    Dec.output p X = .ok d ↔
      errsOf (Dec.calls p .initial X) = [] ∧ Dec.finish (Dec.calls p .initial X).st = .ok () ∧
        d = DecProof.emitBytes (Dec.calls p .initial X).emits := by
  rw [Woodpile.Props.C07P.output_of_session]
  unfold Dec.session errsOf
  simp only
  cases hfs : (Dec.calls p .initial X).verdicts.findSome? id with
  | some e =>
    have : (Dec.calls p .initial X).verdicts.filterMap id ≠ [] := by
      intro h; rw [← findSome_id_none_iff] at h; rw [h] at hfs; cases hfs
    simp [this]
  | none =>
    have h0 := (findSome_id_none_iff _).1 hfs
    simp only [h0, true_and]
    cases hf : Dec.finish (Dec.calls p .initial X).st with
    | error e => simp
    | ok u =>
      cases u
      simp only [Except.ok.injEq, true_and]
      rw [run_empty_appendOnly_bytes _ (calls_appendOnly p X .initial)]
      exact eq_comm

/-! ### The encoder over the vocabulary with `Read` drains -/

def encCallB (p : Params) (i : Nat) (r : Run) : BCall → Option Run
  | .a c => encCallA p i r c
  | .rd k => (readDrain r.w i k).map fun x => ⟨x.1, r.e, r.drained ++ x.2⟩

def encCallsB (p : Params) (i : Nat) : Run → List BCall → Option Run
  | r, [] => some r
  | r, c :: t =>
    match encCallB p i r c with
    | none => none
    | some r' => encCallsB p i r' t

/-- `Encoder::new` followed by any calls. -/
def encPrefixB (p : Params) (pol : Policy) (tun : Tuning) (calls : List BCall) : Option Run :=
  match encInit p (World.fresh pol tun) 0 with
  | none => none
  | some (w1, e1) => encCallsB p 0 ⟨w1, e1, []⟩ calls

/-- `Encoder::new()`, the calls, `Encoder::finish()`: the final world and the drained bytes. -/
def encRunB (p : Params) (pol : Policy) (tun : Tuning) (calls : List BCall) : Option (World × List UInt8) :=
  match encPrefixB p pol tun calls with
  | none => none
  | some r => (encFinish p r.w 0 r.e).map fun w' => (w', r.drained)

/-- The vocabulary of `Proofs/EncWorldAnch.lean` embedded. -/
theorem encCallsB_a (p : Params) (i : Nat) (calls : List ACall) (r : Run) :
    encCallsB p i r (calls.map .a) = encCallsA p i r calls := by
  induction calls generalizing r with
  | nil => rfl
  | cons c t ih =>
    simp only [List.map_cons, encCallsB, encCallsA, encCallB]
    cases encCallA p i r c with
    | none => rfl
    | some r' => exact ih r'

theorem encPrefixB_a (p : Params) (pol : Policy) (tun : Tuning) (calls : List ACall) :
    encPrefixB p pol tun (calls.map .a) = encPrefixA p pol tun calls := by
  unfold encPrefixB encPrefixA
  cases encInit p (World.fresh pol tun) 0 with
  | none => rfl
  | some x => obtain ⟨w1, e1⟩ := x; exact encCallsB_a p 0 calls _

theorem encRunB_a (p : Params) (pol : Policy) (tun : Tuning) (calls : List ACall) :
    encRunB p pol tun (calls.map .a) = encRunA p pol tun calls := by
  unfold encRunB encRunA
  rw [encPrefixB_a]
  cases encPrefixA p pol tun calls <;> rfl

theorem binputOf_cons (c : BCall) (t : List BCall) : binputOf (c :: t) = binputOf [c] ++ binputOf t := by
  rw [show c :: t = [c] ++ t from rfl, binputOf_append]

/-- One call of the vocabulary with `Read` drains keeps the run invariant. -/
theorem encCallB_sim (p : Params) (hp : p.Valid) (i : Nat) (r : Run) (c : BCall) (input : List UInt8)
    (acc : List Emit) (hinv : RunInv p i r input acc) :
    ∃ r' acc', encCallB p i r c = some r' ∧ RunInv p i r' (input ++ binputOf [c]) acc' ∧
      ∀ Y, Enc.runPieces.go p (bpieces [c] ++ Y) r.e.st r.e.nid acc =
        Enc.runPieces.go p Y r'.e.st r'.e.nid acc' := by
  cases c with
  | a c =>
    obtain ⟨r', acc', h1, h2, h3⟩ := encCallA_sim p hp i r c input acc hinv
    refine ⟨r', acc', h1, ?_, ?_⟩
    · have : binputOf [BCall.a c] = ainputOf [c] := by simp [binputOf, ainputOf, bpieces]
      rw [this]; exact h2
    · intro Y
      have e1 := h3 (Y.map fun x => ACall.call (Call.feed x.1 x.2))
      rw [apieces_cons, apieces_feeds] at e1
      have : bpieces [BCall.a c] = apieces [c] := by simp [bpieces]
      rw [this]; exact e1
  | rd k =>
    obtain ⟨w, e, g⟩ := r
    obtain ⟨v, q, evs, hv, hsim, hq, hev, hrel⟩ := hinv
    simp only at hv hsim hrel
    obtain ⟨w', v', h1, h2, h3, _, _⟩ := readDrain_sim i k hv hsim
    refine ⟨⟨w', e, g ++ (w.visible v).take k⟩, acc, by simp only [encCallB, h1, Option.map_some], ?_,
      fun Y => rfl⟩
    refine ⟨v', _, evs ++ [.drain (min k (w.visible v).length)], h2, h3, ?_, ?_, ?_⟩
    · rw [Woodpile.Pipe.runEv_append, ← hq]; rfl
    · rw [Woodpile.Pipe.prodOps_append, hev]; simp [prodOps]
    · have : binputOf [BCall.rd k] = [] := rfl
      rw [this, List.append_nil, Woodpile.Pipe.consume_total]; exact hrel

/-- Any calls keep the run invariant; the emits of the calls are a prefix of the emits of any continuation. -/
theorem encCallsB_go (p : Params) (hp : p.Valid) (i : Nat) (calls : List BCall) :
    ∀ (r : Run) (input : List UInt8) (acc : List Emit), RunInv p i r input acc →
    ∃ r' acc', encCallsB p i r calls = some r' ∧ RunInv p i r' (input ++ binputOf calls) acc' ∧
      ∀ Y, Enc.runPieces.go p (bpieces calls ++ Y) r.e.st r.e.nid acc = Enc.runPieces.go p Y r'.e.st r'.e.nid acc' := by
  induction calls with
  | nil =>
    intro r input acc h
    exact ⟨r, acc, rfl, by simpa [binputOf, bpieces] using h, fun Y => rfl⟩
  | cons c t ih =>
    intro r input acc h
    obtain ⟨r1, acc1, h1, h2, h3⟩ := encCallB_sim p hp i r c input acc h
    obtain ⟨r2, acc2, k1, k2, k3⟩ := ih r1 _ acc1 h2
    refine ⟨r2, acc2, by simp [encCallsB, h1, k1], ?_, ?_⟩
    · rw [binputOf_cons, ← List.append_assoc]; exact k2
    · intro Y
      rw [bpieces_cons, List.append_assoc, h3]; exact k3 Y

/-- `Encoder::new` followed by any calls (all input methods, all drains): never panics; the invariant
holds between calls. -/
theorem encPrefixB_inv (p : Params) (hp : p.Valid) (pol : Policy) (tun : Tuning) (calls : List BCall) :
    ∃ r acc, encPrefixB p pol tun calls = some r ∧ RunInv p 0 r (binputOf calls) acc ∧
      Enc.runPieces p (bpieces calls) = acc ++ Enc.finish p r.e.st := by
  obtain ⟨w1, e1, h1, h2, h3, h4⟩ := encInit_sim p pol tun
  obtain ⟨r, acc, k1, k2, k3⟩ := encCallsB_go p hp 0 calls ⟨w1, e1, []⟩ [] _ h2
  refine ⟨r, acc, by simp only [encPrefixB, h1, k1], by simpa using k2, ?_⟩
  have := k3 []
  simp only [List.append_nil] at this
  rw [h3, h4] at this
  exact this

/-- The whole run. -/
theorem encRunB_sim (p : Params) (hp : p.Valid) (pol : Policy) (tun : Tuning) (calls : List BCall) :
    ∃ w' v' dr evs, encRunB p pol tun calls = some (w', dr) ∧ w'.iov 0 = some v' ∧ IovInv w' v' ∧
      prodOps evs = (Enc.runPieces p (bpieces calls)).map (·.op) ∧
      absCells w' v' = (runEv Woodpile.Pipe.empty evs).cells ∧
      dr = (runEv Woodpile.Pipe.empty evs).consumed ∧
      v'.hasPending = false ∧ dr ++ w'.flat v'.slices = Spec.encode p (binputOf calls) ∧
      w'.visible v' = w'.flat v'.slices := by
  obtain ⟨r, acc, h1, h2, h3⟩ := encPrefixB_inv p hp pol tun calls
  obtain ⟨w', v', evs, k1, k2, k3, k4, k5, k6, k7, k8, k9⟩ := encFinish_sim p hp 0 r _ acc h2
  refine ⟨w', v', r.drained, evs, ?_, k2, k3, by rw [h3]; exact k4, k5, k6, k7, k8, k9⟩
  simp only [encRunB, h1, k1, Option.map_some]

/-- Structural lag of the encoder between calls (as `enc_lag_structA`). -/
theorem enc_lag_structB (p : Params) (hp : p.Valid) (pol : Policy) (tun : Tuning) (calls : List BCall) :
    ∃ r v e s c, encPrefixB p pol tun calls = some r ∧ r.w.iov 0 = some v ∧ IovInv r.w v ∧
      e ∈ v.backrefs ∧ e.2.len = r.e.st.brLen ∧
      v.slices[e.2.sliceIndex - v.consumedSlices]? = some s ∧ s.region = .chunk c ∧
      e.2.begin + r.e.st.brLen ≤ s.len ∧
      v.totalSize - (r.w.visible v).length = e.2.begin + r.e.st.brLen + r.e.st.cur ∧
      1 ≤ r.e.st.brLen ∧ r.e.st.brLen ≤ 2 ∧
      r.e.st.cur + (if r.e.st.mid then 1 else 0) < r.e.st.maxChunk ∧
      (r.e.st.maxChunk = p.maxInit ∨ r.e.st.maxChunk = p.maxSub) := by
  obtain ⟨r, acc, h1, ⟨v, q, evs, hv, hsim, _, _, hrel⟩, _⟩ := encPrefixB_inv p hp pol tun calls
  obtain ⟨hi1, _⟩ := fold_init_inv p hp (binputOf calls)
  generalize (binputOf calls).foldl (byteStep p) BS.init = σ at hrel hi1
  obtain ⟨hmax, hcur, hmid, hbr, hnid, hq⟩ := hrel
  have hk : 1 ≤ r.e.st.brLen ∧ r.e.st.brLen ≤ 2 := by cases hf : σ.first <;> simp [hbr, hf]
  have hcells := cells_of_total_pipeOf q σ.done σ.body r.e.st.brLen r.e.st.backref hk.1 hq
  have hm : Cell.hole r.e.st.backref ∈ q.cells := by
    rw [hcells]
    simp only [List.mem_append, List.mem_replicate]
    exact Or.inl (Or.inr ⟨by omega, trivial⟩)
  obtain ⟨e, _, he, hek, hel⟩ := hsim.token _ hm
  have hcnt : q.cells.count (Cell.hole r.e.st.backref) = r.e.st.brLen := by
    rw [← count_hole_total, hq, count_hole_pipeOf]
  have habs : absCells r.w v = (σ.done.drop q.consumed.length).map Cell.byte ++
      List.replicate r.e.st.brLen (Cell.hole (tokKey r.e.toks r.e.st.backref)) ++ σ.body.map Cell.byte := by
    rw [hsim.cells, hcells, List.map_append, List.map_append, rename_map_byte, rename_map_byte,
      rename_replicate_hole]
  obtain ⟨g1, s, c, g2, g3, g4⟩ := lag_of_single_hole hsim.inv _ _ _ _ hk.1 habs e he hek (by rw [hel, hcnt])
  have hinv' : σ.eff.length < Spec.limit p σ.first := hi1
  have hM : σ.M p = Spec.limit p σ.first := rfl
  rw [BS.eff_length, ← hmid, ← hcur] at hinv'
  refine ⟨r, v, e, s, c, h1, hv, hsim.inv, he, by rw [hel, hcnt], g2, g3, g4, ?_, hk.1, hk.2, by omega, ?_⟩
  · rw [g1, hcur]
  · cases hf : σ.first
    · right; rw [hmax, hM, hf]; rfl
    · left; rw [hmax, hM, hf]; rfl

/-- C09's prefix clause on the structural iovec, `Read` drains included (as `enc_prefix_struct`). -/
theorem enc_prefix_structB (p : Params) (hp : p.Valid) (pol : Policy) (tun : Tuning) (c1 c2 : List BCall) :
    ∃ r v, encPrefixB p pol tun c1 = some r ∧ r.w.iov 0 = some v ∧ IovInv r.w v ∧
      r.drained ++ r.w.visible v <+: Spec.encode p (binputOf (c1 ++ c2)) := by
  obtain ⟨w1, e1, h1, h2, h3, h4⟩ := encInit_sim p pol tun
  obtain ⟨r, acc, k1, k2, k3⟩ := encCallsB_go p hp 0 c1 ⟨w1, e1, []⟩ [] _ h2
  obtain ⟨v, q, evs, hv, hsim, hq, hev, _⟩ := k2
  refine ⟨r, v, by simp only [encPrefixB, h1, k1], hv, hsim.inv, ?_⟩
  have hvis : r.w.visible v <+: q.stable := by
    have hc := absCells_visible hsim.inv
    rw [hsim.cells] at hc
    have := Pipe.stable_of_cells ⟨q.cells.map (renameCell (tokKey r.e.toks)), [], 0⟩ (r.w.visible v) _ hc
    simp only [Pipe.stable] at this
    rw [stable_rename] at this
    exact ⟨_, this.symm⟩
  have hgo := k3 (bpieces c2)
  simp only at hgo
  rw [h3, h4] at hgo
  obtain ⟨t, ht⟩ := go_prefix p (bpieces c2) r.e.st r.e.nid acc
  have hrun : Enc.runPieces p (bpieces (c1 ++ c2)) = acc ++ t := by
    rw [bpieces_append]
    exact hgo.trans ht
  have hpre := Woodpile.Pipe.drain_prefix Pipe.empty evs ((t.map (·.op)).map Ev.prod)
  rw [Woodpile.Pipe.total_empty, Woodpile.Pipe.prodOps_append, prodOps_prods, hev, ← List.map_append, ← hrun, ← hq] at hpre
  have hspec := (Woodpile.Props.C01.enc_impl_refines_spec p hp (bpieces (c1 ++ c2))).1
  unfold Enc.output at hspec
  rw [hspec] at hpre
  rw [hsim.ghost]
  refine List.IsPrefix.trans ?_ hpre
  obtain ⟨x, hx⟩ := hvis
  exact ⟨x, by rw [← hx, List.append_assoc]⟩

/-! ### The capacity invariant (`Proofs/EncWorldCap.lean`) over the vocabulary with `Read` drains -/

theorem readInto_cap {T : Tuning} {S i : Nat} (fuel : Nat) : ∀ (w w' : World) (room : Nat) (acc out : List UInt8),
    CapW T S i w → World.readInto fuel w i room acc = some (w', out) → CapW T S i w' := by
  induction fuel with
  | zero =>
    intro w w' room acc out hw h
    simp only [World.readInto, Option.some.injEq, Prod.mk.injEq] at h
    rw [← h.1]; exact hw
  | succ fuel ih =>
    intro w w' room acc out hw h
    rw [World.readInto] at h
    by_cases hr : room = 0
    · rw [if_pos hr] at h
      simp only [Option.some.injEq, Prod.mk.injEq] at h
      rw [← h.1]; exact hw
    · rw [if_neg hr] at h
      cases hv : w.iov i with
      | none => rw [hv] at h; cases h
      | some v =>
        rw [hv] at h
        simp only at h
        cases hs : v.stableCount with
        | none => rw [hs] at h; cases h
        | some n =>
          rw [hs] at h
          simp only at h
          cases hh : (v.slices.take n).head? with
          | none =>
            rw [hh] at h
            simp only [Option.some.injEq, Prod.mk.injEq] at h
            rw [← h.1]; exact hw
          | some s0 =>
            rw [hh] at h
            simp only at h
            cases ha : w.advance i (min s0.len room) with
            | none => rw [ha] at h; cases h
            | some x =>
              obtain ⟨w1, n1⟩ := x
              rw [ha] at h
              exact ih w1 w' _ _ out (advance_cap _ n1 hw ha) h

/-- The requests of a call list: every anchored read asks for at most `B` bytes. -/
def ReadsLeB (B : Nat) : List BCall → Prop
  | [] => True
  | .a (.call _) :: t => ReadsLeB B t
  | .a (.read count _ _ _) :: t => count ≤ B ∧ ReadsLeB B t
  | .rd _ :: t => ReadsLeB B t

theorem encCallsB_cap {T : Tuning} {B S : Nat} (hH : Hint T B S) (hB2 : 2 ≤ B) (p : Params) (hsub : p.maxSub ≤ B)
    (i : Nat) (calls : List BCall) :
    ∀ (r r' : Run), ReadsLeB B calls → CapW T S i r.w → max 1 r.e.st.maxChunk ≤ B →
      encCallsB p i r calls = some r' → CapW T S i r'.w := by
  induction calls with
  | nil =>
    intro r r' _ hw _ h
    simp only [encCallsB, Option.some.injEq] at h
    subst h; exact hw
  | cons c t ih =>
    intro r r' hc hw hm h
    simp only [encCallsB] at h
    cases h1 : encCallB p i r c with
    | none => rw [h1] at h; cases h
    | some r1 =>
      rw [h1] at h
      cases c with
      | a c =>
        have hc1 : ReadsLe B [c] ∧ ReadsLeB B t := by
          cases c with
          | call c => exact ⟨trivial, hc⟩
          | read count attempts src script => exact ⟨⟨hc.1, trivial⟩, hc.2⟩
        obtain ⟨hw1, hm1⟩ := encCallA_cap hH hB2 p hsub i r r1 c hc1.1 hw hm h1
        exact ih r1 r' hc1.2 hw1 hm1 h
      | rd k =>
        simp only [encCallB, readDrain, Option.map_eq_some_iff] at h1
        obtain ⟨⟨w1, out⟩, hx, rfl⟩ := h1
        exact ih ⟨w1, r.e, r.drained ++ out⟩ r' hc (readInto_cap (k + 2) r.w w1 k [] out hw hx) hm h

/-- Between the calls of any run on arena tuning `T` (all input methods, all drains), every owned slice of
the encoder's iovec ends within `S` bytes of the start of its chunk (as `encPrefixA_cap`). -/
theorem encPrefixB_cap {T : Tuning} {B S : Nat} (hH : Hint T B S) (hB2 : 2 ≤ B) (p : Params)
    (hinit : p.maxInit ≤ B) (hsub : p.maxSub ≤ B) (pol : Policy) (calls : List BCall) (hc : ReadsLeB B calls) (r : Run)
    (h : encPrefixB p pol T calls = some r) :
    ∀ v, r.w.iov 0 = some v → ∀ s ∈ v.slices, ∀ c, s.region = .chunk c → s.off + s.len ≤ S := by
  have hfresh : CapW T S 0 (World.fresh pol T) :=
    ⟨rfl, Iov.empty, rfl, ⟨(fun ca h => by cases h), (fun s hs => by cases hs)⟩⟩
  simp only [encPrefixB] at h
  cases h0 : encInit p (World.fresh pol T) 0 with
  | none => rw [h0] at h; cases h
  | some x =>
    obtain ⟨w1, e1⟩ := x
    rw [h0] at h
    simp only at h
    obtain ⟨hw1, hm1⟩ := encInit_cap hH hB2 p hinit hfresh h0
    obtain ⟨_, v', hv', hcap⟩ := encCallsB_cap hH hB2 p hsub 0 calls ⟨w1, e1, []⟩ r hc hw1 hm1 h
    intro v hv
    rw [hv'] at hv
    cases hv
    exact hcap.slices

/-! ### World predicates along decoder sessions (borrowed / copied input, all drains) -/

theorem readInto_closed {B : Nat} {P : World → List Backref → Prop} (hc : EncClosed B P) (i : Nat) (fuel : Nat) :
    ∀ (w w' : World) (room : Nat) (acc out : List UInt8),
    P w [] → World.readInto fuel w i room acc = some (w', out) → P w' [] := by
  induction fuel with
  | zero =>
    intro w w' room acc out hw h
    simp only [World.readInto, Option.some.injEq, Prod.mk.injEq] at h
    rw [← h.1]; exact hw
  | succ fuel ih =>
    intro w w' room acc out hw h
    rw [World.readInto] at h
    by_cases hr : room = 0
    · rw [if_pos hr] at h
      simp only [Option.some.injEq, Prod.mk.injEq] at h
      rw [← h.1]; exact hw
    · rw [if_neg hr] at h
      cases hv : w.iov i with
      | none => rw [hv] at h; cases h
      | some v =>
        rw [hv] at h
        simp only at h
        cases hs : v.stableCount with
        | none => rw [hs] at h; cases h
        | some n =>
          rw [hs] at h
          simp only at h
          cases hh : (v.slices.take n).head? with
          | none =>
            rw [hh] at h
            simp only [Option.some.injEq, Prod.mk.injEq] at h
            rw [← h.1]; exact hw
          | some s0 =>
            rw [hh] at h
            simp only at h
            cases ha : w.advance i (min s0.len room) with
            | none => rw [ha] at h; cases h
            | some x =>
              obtain ⟨w1, n1⟩ := x
              rw [ha] at h
              exact ih w1 w' _ _ out (hc.advance ha hw) h

/-- No anchored read in the call list: borrowed / copied pieces and drains (the vocabulary for which the
guard half of `WorldInv` is proved, see `Props/C05H.lean`). -/
def Plain : List BCall → Prop
  | [] => True
  | .a (.call _) :: t => Plain t
  | .a (.read _ _ _ _) :: _ => False
  | .rd _ :: t => Plain t

/-- Every world predicate closed under one emit / one lent buffer / one drain holds between the calls of a
decoder session, ACROSS errors (a failed call has applied the emits before the rejected byte, and the state
it leaves, `InitialState`, waits for no chunk). -/
theorem decCallsB_closed {B : Nat} {P : World → List Backref → Prop} (hc : EncClosed B P) (p : Params)
    (hB : max p.maxInit p.maxSub ≤ B) (hB2 : 2 ≤ B) (i : Nat) (calls : List BCall) :
    ∀ (r r' : DRun), Plain calls → DecSmall B r.s → P r.w [] → decCallsB p i r calls = some r' →
      P r'.w [] ∧ DecSmall B r'.s := by
  induction calls with
  | nil =>
    intro r r' _ hs hP h
    simp only [decCallsB, Option.some.injEq] at h
    subst h; exact ⟨hP, hs⟩
  | cons c t ih =>
    intro r r' hpl hs hP h
    simp only [decCallsB] at h
    cases h1 : decCallB p i r c with
    | none => rw [h1] at h; cases h
    | some r1 =>
      rw [h1] at h
      simp only at h
      cases c with
      | a c =>
        cases c with
        | call c =>
          have hpl' : Plain t := hpl
          cases c with
          | feed m d =>
            simp only [decCallB] at h1
            cases h2 : decFeedCall p i r.w r.s m d with
            | none => rw [h2] at h1; cases h1
            | some x =>
              obtain ⟨w1, res⟩ := x
              rw [h2] at h1
              simp only [Option.some.injEq] at h1
              subst h1
              obtain ⟨hP1, hs1⟩ := decFeedCall_closed hc p hB hB2 i r.w r.s m d hs hP w1 res h2
              refine ih ⟨w1, decResume res, r.drained, _⟩ r' hpl' ?_ hP1 h
              cases res with
              | ok s1 => exact hs1 s1 rfl
              | error e => exact trivial
          | consume k =>
            simp only [decCallB] at h1
            cases hv : r.w.iov i with
            | none => rw [hv] at h1; cases h1
            | some v =>
              cases hx : r.w.consume i k with
              | none => rw [hv, hx] at h1; cases h1
              | some x =>
                obtain ⟨w1, n1⟩ := x
                rw [hv, hx] at h1
                simp only [Option.some.injEq] at h1
                subst h1
                exact ih ⟨w1, r.s, _, r.errs⟩ r' hpl' hs (hc.consume hx hP) h
          | advance k =>
            simp only [decCallB] at h1
            cases hv : r.w.iov i with
            | none => rw [hv] at h1; cases h1
            | some v =>
              cases hx : r.w.advance i k with
              | none => rw [hv, hx] at h1; cases h1
              | some x =>
                obtain ⟨w1, n1⟩ := x
                rw [hv, hx] at h1
                simp only [Option.some.injEq] at h1
                subst h1
                exact ih ⟨w1, r.s, _, r.errs⟩ r' hpl' hs (hc.advance hx hP) h
        | read count attempts src script => exact hpl.elim
      | rd k =>
        simp only [decCallB, readDrain] at h1
        cases hx : World.readInto (k + 2) r.w i k [] with
        | none => rw [hx] at h1; cases h1
        | some x =>
          obtain ⟨w1, out⟩ := x
          rw [hx] at h1
          simp only [Option.some.injEq] at h1
          subst h1
          exact ih ⟨w1, r.s, _, r.errs⟩ r' hpl hs (readInto_closed hc i (k + 2) r.w w1 k [] out hP hx) h

/-! ### The old whole-run functions (stop at the first error) are the object read up to its first error -/

theorem decCallB_errs (p : Params) (i : Nat) (r r' : DRun) (c : BCall) (h : decCallB p i r c = some r') :
    ∃ x, r'.errs = r.errs ++ x := by
  cases c with
  | a c =>
    cases c with
    | call c =>
      cases c with
      | feed m d =>
        simp only [decCallB] at h
        cases h2 : decFeedCall p i r.w r.s m d with
        | none => rw [h2] at h; cases h
        | some x => rw [h2] at h; cases h; exact ⟨_, rfl⟩
      | consume k =>
        simp only [decCallB] at h
        cases hv : r.w.iov i with
        | none => rw [hv] at h; cases h
        | some v =>
          cases hx : r.w.consume i k with
          | none => rw [hv, hx] at h; cases h
          | some x => rw [hv, hx] at h; cases h; exact ⟨[], by simp⟩
      | advance k =>
        simp only [decCallB] at h
        cases hv : r.w.iov i with
        | none => rw [hv] at h; cases h
        | some v =>
          cases hx : r.w.advance i k with
          | none => rw [hv, hx] at h; cases h
          | some x => rw [hv, hx] at h; cases h; exact ⟨[], by simp⟩
    | read count attempts src script =>
      simp only [decCallB] at h
      cases h2 : decodeRead p r.w i r.s ⟨src, script⟩ count attempts with
      | none => rw [h2] at h; cases h
      | some x =>
        obtain ⟨w1, res, o⟩ := x
        rw [h2] at h
        cases res with
        | error k => cases h; exact ⟨[], by simp⟩
        | ok y => obtain ⟨n, dres⟩ := y; cases h; exact ⟨_, rfl⟩
  | rd k =>
    simp only [decCallB] at h
    cases hx : readDrain r.w i k with
    | none => rw [hx] at h; cases h
    | some x => rw [hx] at h; cases h; exact ⟨[], by simp⟩

theorem decCallsB_errs (p : Params) (i : Nat) (calls : List BCall) :
    ∀ (r r' : DRun), decCallsB p i r calls = some r' → ∃ x, r'.errs = r.errs ++ x := by
  induction calls with
  | nil => intro r r' h; cases h; exact ⟨[], by simp⟩
  | cons c t ih =>
    intro r r' h
    simp only [decCallsB] at h
    cases h1 : decCallB p i r c with
    | none => rw [h1] at h; cases h
    | some r1 =>
      rw [h1] at h
      obtain ⟨x, hx⟩ := decCallB_errs p i r r1 c h1
      obtain ⟨y, hy⟩ := ih r1 r' h
      exact ⟨x ++ y, by rw [hy, hx, List.append_assoc]⟩

/-- One step of the old run in terms of the object: the old run continues exactly when the call returned
no error, and otherwise ends in the world the failed call left. -/
theorem decCallsA_cons (p : Params) (i : Nat) (c : ACall) (t : List ACall) (r : DRun) :
    decCallsA p i r.w r.s r.drained (c :: t) =
      match decCallB p i r (.a c) with
      | none => none
      | some r' =>
        match r'.errs.drop r.errs.length with
        | [] => decCallsA p i r'.w r'.s r'.drained t
        | e :: _ => some (r'.w, r'.drained, .error e) := by
  cases c with
  | call c =>
    cases c with
    | feed m d =>
      simp only [decCallsA, decCallB]
      cases decFeedCall p i r.w r.s m d with
      | none => rfl
      | some x =>
        obtain ⟨w1, res⟩ := x
        cases res with
        | ok s1 => simp [errOf, decResume]
        | error e => simp [errOf]
    | consume k =>
      simp only [decCallsA, decCallB]
      cases r.w.iov i <;> cases r.w.consume i k <;> simp
    | advance k =>
      simp only [decCallsA, decCallB]
      cases r.w.iov i <;> cases r.w.advance i k <;> simp
  | read count attempts src script =>
    simp only [decCallsA, decCallB]
    cases decodeRead p r.w i r.s ⟨src, script⟩ count attempts with
    | none => rfl
    | some x =>
      obtain ⟨w1, res, o⟩ := x
      cases res with
      | error k => simp
      | ok y =>
        obtain ⟨n, dres⟩ := y
        cases dres with
        | ok s1 => simp [errOf, decResume]
        | error e => simp [errOf]

/-- A session without error IS the old whole run (followed by `finish`). -/
theorem decCallsA_of_no_error (p : Params) (i : Nat) (calls : List ACall) :
    ∀ (r r' : DRun), decCallsB p i r (calls.map .a) = some r' → r'.errs = r.errs →
      decCallsA p i r.w r.s r.drained calls = some (r'.w, r'.drained, Dec.finish r'.s) := by
  induction calls with
  | nil =>
    intro r r' h _
    simp only [List.map_nil, decCallsB, Option.some.injEq] at h
    subst h; rfl
  | cons c t ih =>
    intro r r' h he
    simp only [List.map_cons, decCallsB] at h
    rw [decCallsA_cons]
    cases h1 : decCallB p i r (.a c) with
    | none => rw [h1] at h; cases h
    | some r1 =>
      rw [h1] at h
      simp only at h ⊢
      obtain ⟨x, hx⟩ := decCallB_errs p i r r1 (.a c) h1
      obtain ⟨y, hy⟩ := decCallsB_errs p i (t.map .a) r1 r' h
      have hxy : x = [] ∧ y = [] := by
        rw [hy, hx, List.append_assoc] at he
        have := congrArg List.length he
        simp only [List.length_append] at this
        constructor <;> apply List.eq_nil_of_length_eq_zero <;> omega
      rw [hx, hxy.1, List.append_nil, List.drop_length]
      simp only
      exact ih r1 r' h (by rw [hy, hxy.2, List.append_nil])

/-- A session whose LAST call is the first to return an error IS the old whole run of any call list that
starts with it: the old run stops there, in that world, with that error. -/
theorem decCallsA_of_first_error (p : Params) (i : Nat) (pre : List ACall) (c : ACall) (post : List ACall) (e : DecErr) :
    ∀ (r r1 r' : DRun), decCallsB p i r (pre.map .a) = some r1 → r1.errs = r.errs →
      decCallB p i r1 (.a c) = some r' → r'.errs = r.errs ++ [e] →
      decCallsA p i r.w r.s r.drained (pre ++ c :: post) = some (r'.w, r'.drained, .error e) := by
  induction pre with
  | nil =>
    intro r r1 r' h _ hc he
    simp only [List.map_nil, decCallsB, Option.some.injEq] at h
    subst h
    simp only [List.nil_append]
    rw [decCallsA_cons, hc]
    simp only [he, List.drop_left]
  | cons c0 t ih =>
    intro r r1 r' h he1 hc he
    simp only [List.map_cons, decCallsB] at h
    simp only [List.cons_append]
    rw [decCallsA_cons]
    cases h1 : decCallB p i r (.a c0) with
    | none => rw [h1] at h; cases h
    | some r0 =>
      rw [h1] at h
      simp only at h ⊢
      obtain ⟨x, hx⟩ := decCallB_errs p i r r0 (.a c0) h1
      obtain ⟨y, hy⟩ := decCallsB_errs p i (t.map .a) r0 r1 h
      have hxy : x = [] ∧ y = [] := by
        rw [hy, hx, List.append_assoc] at he1
        have := congrArg List.length he1
        simp only [List.length_append] at this
        constructor <;> apply List.eq_nil_of_length_eq_zero <;> omega
      have h0 : r0.errs = r.errs := by rw [hx, hxy.1, List.append_nil]
      rw [h0, List.drop_length]
      simp only
      exact ih r0 r1 r' h (by rw [hy, hxy.2, List.append_nil]) hc (by rw [he, h0])

/-- A call that returned `Err` leaves the decoder in `InitialState`. -/
theorem decCallB_failed (p : Params) (i : Nat) (r r' : DRun) (c : BCall) (e : DecErr)
    (h : decCallB p i r c = some r') (he : r'.errs = r.errs ++ [e]) : r'.s = .initial := by
  have key : ∀ (res : Except DecErr DecState), r.errs ++ errOf res = r.errs ++ [e] → decResume res = .initial := by
    intro res hres
    cases res with
    | ok s1 => simp [errOf] at hres
    | error e1 => rfl
  cases c with
  | a c =>
    cases c with
    | call c =>
      cases c with
      | feed m d =>
        simp only [decCallB] at h
        cases h2 : decFeedCall p i r.w r.s m d with
        | none => rw [h2] at h; cases h
        | some x => rw [h2] at h; cases h; exact key _ he
      | consume k =>
        simp only [decCallB] at h
        cases hv : r.w.iov i with
        | none => rw [hv] at h; cases h
        | some v =>
          cases hx : r.w.consume i k with
          | none => rw [hv, hx] at h; cases h
          | some x => rw [hv, hx] at h; cases h; simp at he
      | advance k =>
        simp only [decCallB] at h
        cases hv : r.w.iov i with
        | none => rw [hv] at h; cases h
        | some v =>
          cases hx : r.w.advance i k with
          | none => rw [hv, hx] at h; cases h
          | some x => rw [hv, hx] at h; cases h; simp at he
    | read count attempts src script =>
      simp only [decCallB] at h
      cases h2 : decodeRead p r.w i r.s ⟨src, script⟩ count attempts with
      | none => rw [h2] at h; cases h
      | some x =>
        obtain ⟨w1, res, o⟩ := x
        rw [h2] at h
        cases res with
        | error k => cases h; simp at he
        | ok y => obtain ⟨n, dres⟩ := y; cases h; exact key _ he
  | rd k =>
    simp only [decCallB] at h
    cases hx : readDrain r.w i k with
    | none => rw [hx] at h; cases h
    | some x => rw [hx] at h; cases h; simp at he

end Woodpile.EncWorld

/-
The structural decoder as an OBJECT (track apileft, helper decw; audit gaps 8/15 leftovers and 19 leftovers).

`Proofs/EncWorldComp.lean` / `EncWorldAnch.lean` run the decoder state machine on the structural iovec
model up to the FIRST decoding error (`decCalls`, `decCallsA`: "stops at the first error"), and only as a
whole run ending in `finish`.  The Rust `Decoder` is not consumed by an error: `Decoder::decode` swaps
`Default::default()` into `self.state` before it runs the state machine and returns early on `Err`
(hcobs/src/lib.rs:282-295), so the object lives on in `InitialState` over the SAME iovec, which keeps what
was pushed before the error (`Model/EncWorld.decResume`; `Model/HcobsP.Dec.call` is the same fact one
level up, on the abstract pipe).  Here:

* the call vocabulary `BCall` = `ACall` (borrow / copy pieces, `consume`, `advance_slices`,
  `decode_read` / `encode_read` with any scripted reader) + `rd k`, a drain through
  `impl Read for ConsumingIovec` (`consumer().read(&mut buf[..k])` = `Model/EncWorld.readDrain` =
  `World.readInto`);
* `decCallB` / `decCallsB` / `decSessB`: the decoder object over that vocabulary, CONTINUING after
  errors, with a between-calls state `DRun` (world, decoder state, bytes drained, errors returned so
  far) — the prefix function the old whole-run `decRunA` lacked;
* `decCallsB_sim`: every such run agrees with the pipe-level session `Dec.calls` of
  `Model/HcobsP.lean` (track hc3): never panics, same state, same errors, and the iovec represents the
  pipe built by the session's emits (all appends: nothing is ever pending) under the drain schedule;
* the encoder over `BCall` (`encCallB` …) with the same invariants as over `ACall`
  (`RunInv`, the capacity invariant of `Proofs/EncWorldCap.lean`).

Statements for the property files: `Props/C09D.lean` (prefix / completeness / lag, decoder and `_r`
encoder versions) and `Props/C07W.lean` (after an error; sessions; ownership).
-/
import Woodpile.Proofs.EncWorldAnch
import Woodpile.Proofs.EncWorldCap
import Woodpile.Proofs.HcobsPanic
import Woodpile.Proofs.DecGlue

namespace Woodpile.EncWorld
open Woodpile.Hcobs Woodpile.Iovec Woodpile.Arena
open Woodpile.Hcobs.EncProof
open Woodpile.Pipe (Cell Pipe cellBytes fillCells Ev runEv prodOps stepEv)

/-! ### `impl Read for ConsumingIovec` on a represented iovec -/

/-- `SimV` only looks at the memory of the world. -/
theorem SimV.sameMem {w w' : World} {v : Iov} {g : List UInt8} {toks : List Backref} {q : Pipe}
    (h : SimV w v g toks q) (hm : SameMem w w') : SimV w' v g toks q :=
  { h with
    inv := hm.inv h.inv
    cells := by
      have := h.cells
      unfold absCells at this ⊢
      rw [hm.flat]; exact this }

/-- `consumer().read(&mut buf[..k])`: never panics; copies out exactly the first `k` bytes of the stable
prefix (all of it when shorter) and consumes exactly those; a consumer event of the pipe. -/
theorem readDrain_sim {w : World} {v : Iov} {g : List UInt8} {toks : List Backref} {q : Pipe} (i k : Nat)
    (hv : w.iov i = some v) (h : SimV w v g toks q) :
    ∃ w' v', readDrain w i k = some (w', (w.visible v).take k) ∧ w'.iov i = some v' ∧
      SimV w' v' (g ++ (w.visible v).take k) toks (q.consume (min k (w.visible v).length)).1 ∧
      (w.visible v).take k <+: q.stable ∧ SameMem w w' := by
  obtain ⟨w', v', h1, h2, h3, h4⟩ := World.readInto_spec i (k + 2) w v k [] hv h.inv (by omega)
  have hm : min k (w.visible v).length ≤ sumLens (v.slices.take v.stableN) := by
    rw [h.inv.visible_length]; exact Nat.min_le_right _ _
  obtain ⟨g1, g2, _⟩ := h.consumed h4 hm
  have hrm : (w.flat v.slices).take (min k (w.visible v).length) = (w.visible v).take k := by
    obtain ⟨rest, hrest⟩ := visible_prefix_flat w v
    rw [← hrest, List.take_append_of_le_length (Nat.min_le_right _ _)]
    rw [List.take_eq_take_iff]; simp
  rw [hrm] at g1 g2
  simp only [List.nil_append] at h1
  exact ⟨w', v', h1, h2, g1.sameMem h3, g2, h3⟩

/-! ### The vocabulary with `Read` drains -/

/-- A call of the full vocabulary: an `ACall` (borrow / copy piece, `consume`, `advance_slices`, anchored
read), or a drain of at most `k` bytes through `impl Read for ConsumingIovec`. -/
inductive BCall where
  | a (c : ACall)
  | rd (k : Nat)
  deriving Repr, DecidableEq

/-- The pieces fed by a call list. -/
def bpieces : List BCall → List (Method × List UInt8)
  | [] => []
  | .a c :: t => apieces [c] ++ bpieces t
  | .rd _ :: t => bpieces t

/-- All input bytes of a call list. -/
def binputOf (calls : List BCall) : List UInt8 := ((bpieces calls).map (·.2)).flatten

theorem bpieces_append (x y : List BCall) : bpieces (x ++ y) = bpieces x ++ bpieces y := by
  induction x with
  | nil => rfl
  | cons c t ih => cases c <;> simp [bpieces, ih]

theorem binputOf_append (x y : List BCall) : binputOf (x ++ y) = binputOf x ++ binputOf y := by
  simp [binputOf, bpieces_append]

theorem bpieces_cons (c : BCall) (t : List BCall) : bpieces (c :: t) = bpieces [c] ++ bpieces t := by
  cases c <;> simp [bpieces]

theorem apieces_cons (c : ACall) (t : List ACall) : apieces (c :: t) = apieces [c] ++ apieces t := by
  cases c <;> simp [apieces]

theorem bpieces_a (calls : List ACall) : bpieces (calls.map .a) = apieces calls := by
  induction calls with
  | nil => rfl
  | cons c t ih =>
    simp only [List.map_cons, bpieces, ih]
    exact (apieces_cons c t).symm

theorem binputOf_a (calls : List ACall) : binputOf (calls.map .a) = ainputOf calls := by
  simp [binputOf, ainputOf, bpieces_a]

theorem bpieces_feeds (X : List (Method × List UInt8)) :
    bpieces (X.map fun x => BCall.a (ACall.call (Call.feed x.1 x.2))) = X := by
  induction X with
  | nil => rfl
  | cons x t ih => simp [bpieces, apieces, pieces, ih]

/-! ### The decoder object: calls continue after an error -/

/-- The decoder between two calls: the world, `self.state`, every byte the consumer took out so far, and
every `Err` a call returned so far (in order). -/
structure DRun where
  w : World
  s : DecState
  drained : List UInt8
  errs : List DecErr

/-- The `Err` of a call, if any. -/
def errOf : Except DecErr DecState → List DecErr
  | .ok _ => []
  | .error e => [e]

/-- One call on the `Decoder` object (as the harness family `codecw` performs it, `Driver/CodecW.lean`):
`decode` / `decode_copy` / `decode_read` leave `decResume verdict` in `self.state` — `InitialState` after
an `Err` — over the same iovec, whatever was pushed before the error included; a failed `read_n` (io
error) decodes nothing; the drains do not touch the decoder. -/
def decCallB (p : Params) (i : Nat) (r : DRun) : BCall → Option DRun
  | .a (.call (.feed m d)) =>
    match decFeedCall p i r.w r.s m d with
    | none => none
    | some (w', res) => some ⟨w', decResume res, r.drained, r.errs ++ errOf res⟩
  | .a (.call (.consume k)) =>
    match r.w.iov i, r.w.consume i k with
    | some v, some x => some ⟨x.1, r.s, r.drained ++ r.w.flat (v.slices.take x.2), r.errs⟩
    | _, _ => none
  | .a (.call (.advance k)) =>
    match r.w.iov i, r.w.advance i k with
    | some v, some x => some ⟨x.1, r.s, r.drained ++ (r.w.flat v.slices).take x.2, r.errs⟩
    | _, _ => none
  | .a (.read count attempts src script) =>
    match decodeRead p r.w i r.s ⟨src, script⟩ count attempts with
    | none => none
    | some (w', .error _, _) => some ⟨w', r.s, r.drained, r.errs⟩
    | some (w', .ok (_, res), _) => some ⟨w', decResume res, r.drained, r.errs ++ errOf res⟩
  | .rd k =>
    match readDrain r.w i k with
    | none => none
    | some (w', bytes) => some ⟨w', r.s, r.drained ++ bytes, r.errs⟩

def decCallsB (p : Params) (i : Nat) : DRun → List BCall → Option DRun
  | r, [] => some r
  | r, c :: t =>
    match decCallB p i r c with
    | none => none
    | some r' => decCallsB p i r' t

/-- `Decoder::new()` on a fresh iovec followed by any calls, errors or not. -/
def decSessB (p : Params) (pol : Policy) (tun : Tuning) (calls : List BCall) : Option DRun :=
  decCallsB p 0 ⟨World.fresh pol tun, .initial, [], []⟩ calls

theorem decCallsB_append (p : Params) (i : Nat) (x y : List BCall) (r : DRun) :
    decCallsB p i r (x ++ y) = (decCallsB p i r x).bind fun r' => decCallsB p i r' y := by
  induction x generalizing r with
  | nil => rfl
  | cons c t ih =>
    simp only [List.cons_append, decCallsB]
    cases decCallB p i r c with
    | none => rfl
    | some r' => exact ih r'

/-- The errors of a pipe-level session, in order. -/
def errsOf (o : Dec.CallsOut) : List DecErr := o.verdicts.filterMap id

theorem calls_nil (p : Params) (s : DecState) : Dec.calls p s [] = ⟨[], [], s⟩ := rfl

theorem calls_single (p : Params) (s : DecState) (m : Method) (d : List UInt8) :
    Dec.calls p s [(m, d)] = ⟨[(Dec.call p m s d).err], (Dec.call p m s d).emits ++ [], (Dec.call p m s d).st⟩ := rfl

theorem calls_appendOnly (p : Params) (X : List (Method × List UInt8)) :
    ∀ s, DecProof.AppendOnly (Dec.calls p s X).emits := by
  induction X with
  | nil => intro s; exact DecProof.appendOnly_nil
  | cons md rest ih =>
    intro s
    obtain ⟨m, d⟩ := md
    simp only [Dec.calls]
    refine DecProof.appendOnly_append ?_ (ih _)
    have := DecProof.feed_appendOnly p m (d.length + 1) s d
    unfold Dec.call Dec.feedAll
    cases hf : Dec.feed p m (d.length + 1) s d with
    | error ee => obtain ⟨e, es⟩ := ee; rw [hf] at this; exact this
    | ok se => obtain ⟨s', es⟩ := se; rw [hf] at this; exact this

/-- One call on the decoder object agrees with the pipe-level `Dec.calls` on the pieces it feeds: no
panic; the same state afterwards (`InitialState` after an error), the same error if any; the iovec
represents the pipe on which the call's emits (those before a rejected byte included) were run, under the
drain schedule. -/
theorem decCallB_sim (p : Params) (i : Nat) (r : DRun) (c : BCall) (v : Iov) (evs : List Ev) (acc : List Emit)
    (hv : r.w.iov i = some v) (h : SimV r.w v r.drained [] (runEv Woodpile.Pipe.empty evs))
    (hev : prodOps evs = acc.map (·.op)) :
    ∃ r' v' evs', decCallB p i r c = some r' ∧ r'.w.iov i = some v' ∧
      SimV r'.w v' r'.drained [] (runEv Woodpile.Pipe.empty evs') ∧
      prodOps evs' = (acc ++ (Dec.calls p r.s (bpieces [c])).emits).map (·.op) ∧
      r'.s = (Dec.calls p r.s (bpieces [c])).st ∧
      r'.errs = r.errs ++ errsOf (Dec.calls p r.s (bpieces [c])) := by
  obtain ⟨w, s, dr, errs⟩ := r
  simp only at hv h
  -- a piece `(m, d)` whose feed was simulated: shared by `feed` and `read`
  have piece : ∀ (m : Method) (d : List UInt8) (w1 : World) (v1 : Iov) (res1 : Except DecErr DecState),
      w1.iov i = some v1 →
      (∀ s' es, Dec.feedAll p m s d = .ok (s', es) → res1 = .ok s' ∧
        SimV w1 v1 dr [] ((runEv Woodpile.Pipe.empty evs).run (es.map (·.op)))) →
      (∀ err es, Dec.feedAll p m s d = .error (err, es) → res1 = .error err ∧
        SimV w1 v1 dr [] ((runEv Woodpile.Pipe.empty evs).run (es.map (·.op)))) →
      ∃ evs', SimV w1 v1 dr [] (runEv Woodpile.Pipe.empty evs') ∧
        prodOps evs' = (acc ++ (Dec.calls p s [(m, d)]).emits).map (·.op) ∧
        decResume res1 = (Dec.calls p s [(m, d)]).st ∧
        errs ++ errOf res1 = errs ++ errsOf (Dec.calls p s [(m, d)]) := by
    intro m d w1 v1 res1 _ h3 h4
    rw [calls_single]
    unfold Dec.call
    cases hf : Dec.feedAll p m s d with
    | error ee =>
      obtain ⟨err, es⟩ := ee
      obtain ⟨a1, a2⟩ := h4 err es hf
      subst a1
      refine ⟨evs ++ (es.map (·.op)).map Ev.prod, ?_, ?_, rfl, rfl⟩
      · rw [Woodpile.Pipe.runEv_append, runEv_prods]; exact a2
      · rw [Woodpile.Pipe.prodOps_append, prodOps_prods, hev]; simp
    | ok se =>
      obtain ⟨s1, es⟩ := se
      obtain ⟨a1, a2⟩ := h3 s1 es hf
      subst a1
      refine ⟨evs ++ (es.map (·.op)).map Ev.prod, ?_, ?_, rfl, rfl⟩
      · rw [Woodpile.Pipe.runEv_append, runEv_prods]; exact a2
      · rw [Woodpile.Pipe.prodOps_append, prodOps_prods, hev]; simp
  cases c with
  | a c =>
    cases c with
    | call c =>
      cases c with
      | feed m d =>
        obtain ⟨w1, v1, res1, h1, h2, h3, h4⟩ := decFeedCall_sim p i m d w v dr s _ hv h
        obtain ⟨evs', g1, g2, g3, g4⟩ := piece m d w1 v1 res1 h2 h3 h4
        have hb : bpieces [BCall.a (ACall.call (Call.feed m d))] = [(m, d)] := by simp [bpieces, apieces, pieces]
        rw [hb]
        exact ⟨⟨w1, decResume res1, dr, errs ++ errOf res1⟩, v1, evs', by simp only [decCallB, h1], h2, g1, g2, g3, g4⟩
      | consume k =>
        obtain ⟨v', h1, h2, _⟩ := World.consume_spec w i v k hv h.inv
        have hm : sumLens (v.slices.take (min k v.stableN)) ≤ sumLens (v.slices.take v.stableN) :=
          sumLens_take_mono _ (Nat.min_le_right _ _)
        obtain ⟨g1, _, _⟩ := h.consumed h2 hm
        rw [flat_take_prefix w v.arena v.slices _ h.inv.slices_ok] at g1
        have hb : bpieces [BCall.a (ACall.call (Call.consume k))] = [] := by simp [bpieces, apieces, pieces]
        rw [hb, calls_nil]
        refine ⟨⟨w.setIov i (some v'), s, dr ++ w.flat (v.slices.take (min k v.stableN)), errs⟩, v',
          evs ++ [.drain (sumLens (v.slices.take (min k v.stableN)))], by simp only [decCallB, hv, h1], by simp, ?_, ?_,
          rfl, by simp [errsOf]⟩
        · rw [Woodpile.Pipe.runEv_append]; exact g1.setIov i _
        · rw [Woodpile.Pipe.prodOps_append, hev]; simp [prodOps]
      | advance k =>
        obtain ⟨v', h1, h2⟩ := World.advance_spec w i v k hv h.inv
        obtain ⟨g1, _, _⟩ := h.consumed h2 (Nat.min_le_right _ _)
        have hb : bpieces [BCall.a (ACall.call (Call.advance k))] = [] := by simp [bpieces, apieces, pieces]
        rw [hb, calls_nil]
        refine ⟨⟨w.setIov i (some v'), s, dr ++ (w.flat v.slices).take (min k (sumLens (v.slices.take v.stableN))), errs⟩,
          v', evs ++ [.drain (min k (sumLens (v.slices.take v.stableN)))], by simp only [decCallB, hv, h1], by simp, ?_, ?_,
          rfl, by simp [errsOf]⟩
        · rw [Woodpile.Pipe.runEv_append]; exact g1.setIov i _
        · rw [Woodpile.Pipe.prodOps_append, hev]; simp [prodOps]
    | read count attempts src script =>
      obtain ⟨w1, v1, res1, o, h1, h2, h3, h4⟩ := decodeRead_sim p i w v dr s _ count attempts src script hv h
      cases hres : (ReadN.readNCore ⟨src, script⟩ count attempts).res with
      | err k =>
        obtain ⟨a1, a2⟩ := h3 k hres
        subst a1
        have hb : bpieces [BCall.a (ACall.read count attempts src script)] = [] := by
          simp [bpieces, apieces, readPiece, hres]
        rw [hb, calls_nil]
        exact ⟨⟨w1, s, dr, errs⟩, v1, evs, by simp only [decCallB, h1], h2, a2, by simpa using hev, rfl,
          by simp [errsOf]⟩
      | ok got =>
        obtain ⟨dres, a1, a2, a3⟩ := h4 got hres
        subst a1
        obtain ⟨evs', g1, g2, g3, g4⟩ := piece .borrow got w1 v1 dres h2 a2 a3
        have hb : bpieces [BCall.a (ACall.read count attempts src script)] = [(.borrow, got)] := by
          simp [bpieces, apieces, readPiece, hres]
        rw [hb]
        exact ⟨⟨w1, decResume dres, dr, errs ++ errOf dres⟩, v1, evs', by simp only [decCallB, h1], h2, g1, g2, g3, g4⟩
  | rd k =>
    obtain ⟨w', v', h1, h2, h3, _, _⟩ := readDrain_sim i k hv h
    have hb : bpieces [BCall.rd k] = [] := rfl
    rw [hb, calls_nil]
    refine ⟨⟨w', s, dr ++ (w.visible v).take k, errs⟩, v', evs ++ [.drain (min k (w.visible v).length)],
      by simp only [decCallB, h1], h2, ?_, ?_, rfl, by simp [errsOf]⟩
    · rw [Woodpile.Pipe.runEv_append]; exact h3
    · rw [Woodpile.Pipe.prodOps_append, hev]; simp [prodOps]

/-- Any calls on the decoder object, errors or not: no panic; state, errors and emits are those of the
pipe-level session `Dec.calls` on the pieces fed; the iovec represents the pipe built by exactly those
emits under the drain schedule. -/
theorem decCallsB_sim (p : Params) (i : Nat) (calls : List BCall) :
    ∀ (r : DRun) (v : Iov) (evs : List Ev) (acc : List Emit),
    r.w.iov i = some v → SimV r.w v r.drained [] (runEv Woodpile.Pipe.empty evs) → prodOps evs = acc.map (·.op) →
    ∃ r' v' evs', decCallsB p i r calls = some r' ∧ r'.w.iov i = some v' ∧
      SimV r'.w v' r'.drained [] (runEv Woodpile.Pipe.empty evs') ∧
      prodOps evs' = (acc ++ (Dec.calls p r.s (bpieces calls)).emits).map (·.op) ∧
      r'.s = (Dec.calls p r.s (bpieces calls)).st ∧
      r'.errs = r.errs ++ errsOf (Dec.calls p r.s (bpieces calls)) := by
  induction calls with
  | nil =>
    intro r v evs acc hv h hev
    exact ⟨r, v, evs, rfl, hv, h, by simpa [bpieces, calls_nil] using hev, rfl, by simp [bpieces, calls_nil, errsOf]⟩
  | cons c t ih =>
    intro r v evs acc hv h hev
    obtain ⟨r1, v1, evs1, h1, h2, h3, h4, h5, h6⟩ := decCallB_sim p i r c v evs acc hv h hev
    obtain ⟨r2, v2, evs2, k1, k2, k3, k4, k5, k6⟩ := ih r1 v1 evs1 _ h2 h3 h4
    refine ⟨r2, v2, evs2, by simp only [decCallsB, h1]; exact k1, k2, k3, ?_, ?_, ?_⟩
    · rw [k4, bpieces_cons c t, DecProof.calls_append, ← h5, List.append_assoc]
    · rw [k5, bpieces_cons c t, DecProof.calls_append, ← h5]
    · rw [k6, h6, bpieces_cons c t, DecProof.calls_append, ← h5]
      simp [errsOf, List.append_assoc]

end Woodpile.EncWorld

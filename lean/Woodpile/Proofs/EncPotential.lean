/-
C10, the SMALL constant for borrowed / copied input (track `c10enc`): the potential argument of
`Proofs/IovecFootprint.lean` (`SCore.shape`), on the real encoder run.

With `encode` / `encode_copy` input only, an anchor is appended to the deque only when `copy` had to start
a FRESH chunk (`LastOk`: the last anchor's chunk is the allocation cache's), and a fresh chunk is started
only when the request does not fit in what remains of the current one — so two consecutive chunks started
while the placeholder is pending hold more than `m₀` (the smallest chunk capacity) of the at most `cur`
bytes copied since it was registered (`PotOk`: `m₀·(F − 1) + bump ≤ 2·WF`, `F` the number of fresh chunks,
`WF ≤ cur` the bytes copied).  Hence `F ≤ 2·cur/m₀ + 1`, and at a quiescent point the deque has at most
`F + 1` anchors: at most `2·cur/m₀ + 3` live chunks (production: `cur < 64008`, `m₀ = 4096`: 34).
-/
import Woodpile.Proofs.EncLiveBytes

namespace Woodpile.Iovec
open Woodpile.Arena

/-- The last anchor's chunk is the allocation cache's; an arena with a cache has pushed something. -/
structure LastOk (v : Iov) : Prop where
  last : ∀ a, v.anchors.getLast? = some a → ∃ c, v.arena.cache = some c ∧ a.chunk = some c.chunk
  ne : ∀ c, v.arena.cache = some c → v.anchors ≠ []

/-- The potential: `F` fresh chunks since the placeholder was registered, `WF` bytes copied since. -/
def PotOk (m₀ F WF : Nat) (v : Iov) : Prop :=
  1 ≤ F → ∃ c, v.arena.cache = some c ∧ m₀ ≤ c.cap ∧ m₀ * (F - 1) + c.bump ≤ 2 * WF

structure QPv (m₀ F WF : Nat) (v : Iov) : Prop where
  fp : FPv F v
  last : LastOk v
  pot : v.backrefs ≠ [] → PotOk m₀ F WF v

theorem QPv.mono_wf {m₀ F WF WF' : Nat} {v : Iov} (h : QPv m₀ F WF v) (hw : WF ≤ WF') : QPv m₀ F WF' v :=
  ⟨h.fp, h.last, fun hb hF => by
    obtain ⟨c, h1, h2, h3⟩ := h.pot hb hF
    exact ⟨c, h1, h2, by omega⟩⟩

theorem optimize_last_chunk {v v' : Iov} (h : v.optimize = some v') :
    v'.anchors.getLast?.map (·.chunk) = v.anchors.getLast?.map (·.chunk) := by
  rcases optimize_spec h with rfl | ⟨ss, l, r, as, a, m, _, has, _, _, rfl⟩
  · rfl
  · rw [has]; simp

theorem copyAnchors_last_chunk (as : List Anchor) (chunk : Nat) :
    (copyAnchors as chunk).getLast?.map (·.chunk) = some (some chunk) := by
  rcases copyAnchors_cases as chunk with ⟨ys, a, _, hc, h⟩ | ⟨_, h⟩
  · rw [h]; simp [hc]
  · rw [h]; simp

theorem copyAnchors_same {as ys : List Anchor} {a : Anchor} {chunk : Nat} (has : as = ys ++ [a])
    (hc : a.chunk = some chunk) : copyAnchors as chunk = ys ++ [{ a with count := a.count + 1 }] := by
  rcases copyAnchors_cases as chunk with ⟨ys', a', has', _, h⟩ | ⟨hno, _⟩
  · rw [has] at has'
    have := List.append_inj' has' rfl
    obtain ⟨rfl, ha⟩ := this
    simp only [List.cons.injEq, and_true] at ha
    subst ha
    exact h
  · exact absurd hc (hno ys a has)

theorem getLast?_chunk_tail (pre pre' : List Anchor) (A A' : Anchor) (tail : List Anchor) (h : A'.chunk = A.chunk) :
    (pre' ++ A' :: tail).getLast?.map (·.chunk) = (pre ++ A :: tail).getLast?.map (·.chunk) := by
  rcases List.eq_nil_or_concat tail with rfl | ⟨t0, z, rfl⟩
  · simp [h]
  · rw [List.concat_eq_append]
    have e1 : pre ++ A :: (t0 ++ [z]) = (pre ++ A :: t0) ++ [z] := by simp
    have e2 : pre' ++ A' :: (t0 ++ [z]) = (pre' ++ A' :: t0) ++ [z] := by simp
    rw [e1, e2, List.getLast?_concat, List.getLast?_concat]

/-- `copy` into the CURRENT chunk: the last anchor is incremented, nothing is appended. -/
theorem FPv.copied_same {T : Nat} {v : Iov} (h : FPv T v) (s : Slice) (chunk ls : Nat) (ar : Arena) {v2 : Iov}
    {ys : List Anchor} {a : Anchor} (has : v.anchors = ys ++ [a]) (hc : a.chunk = some chunk)
    (ho : Iov.optimize { v with slices := v.slices ++ [s], anchors := copyAnchors v.anchors chunk,
                                logicalSize := ls, arena := ar } = some v2) : FPv T v2 := by
  have hc1 : countSum (copyAnchors v.anchors chunk) = (v.slices ++ [s]).length := by
    rw [copyAnchors_count, h.count]; simp
  obtain ⟨hc2, hb, hcs⟩ := optimize_count ho hc1
  simp only at hb hcs
  refine ⟨hc2, optimize_headPos (copyAnchors_headPos h.headPos chunk) ho, ?_⟩
  rcases h.pend with h0 | ⟨e, h1, h2, h3, h4⟩
  · exact Or.inl (by rw [hb]; exact h0)
  · have hsp : Split (copyAnchors v.anchors chunk) (e.2.sliceIndex - v.consumedSlices) T := by
      rw [copyAnchors_same has hc]; rw [has] at h4; exact h4.inc_last 1
    have hsp2 := optimize_split ho hc1 (idx := e.2.sliceIndex - v.consumedSlices) (by simp; omega) hsp
    refine Or.inr ⟨e, by rw [hb]; exact h1, by rw [hcs]; exact h2, ?_, by rw [hcs]; exact hsp2⟩
    rw [hcs, ← hc2]
    obtain ⟨pre, A, tail, q1, q2, q3, _⟩ := hsp2
    rw [q1]; simp only [countSum_append, countSum_cons]; omega

/-- `push_copy` of `len > 0` bytes, seen by the potential. -/
theorem QPv.copied {t : Tuning} {m₀ F WF : Nat} {v : Iov} (hlo : ∀ len prev, m₀ ≤ max (findHintSize t len prev) len)
    (h : QPv m₀ F WF v) {next len : Nat} {arena' : Arena} {next' chunk off : Nat}
    (hal : alloc t v.arena next len = (arena', next', chunk, off)) {v2 : Iov}
    (ho : Iov.optimize { v with slices := v.slices ++ [⟨.chunk chunk, off, len⟩],
                                anchors := copyAnchors v.anchors chunk,
                                logicalSize := v.logicalSize + len, arena := arena' } = some v2) :
    (∃ F', QPv m₀ F' (WF + len) v2) ∧ v2.backrefs = v.backrefs ∧
      (∃ ys a, v2.anchors = ys ++ [a] ∧ 0 < a.count) ∧ 0 < v2.slices.length ∧ v2.consumedSlices = v.consumedSlices := by
  obtain ⟨_, hb2, hcs2, hlast2, hpos2⟩ := h.fp.copied _ chunk _ arena' ho
  have har : v2.arena = arena' := optimize_arena ho
  have hlc : v2.anchors.getLast?.map (·.chunk) = some (some chunk) := by
    rw [optimize_last_chunk ho]; exact copyAnchors_last_chunk v.anchors chunk
  have hne2 : v2.anchors ≠ [] := by
    obtain ⟨ys, a, e, _⟩ := hlast2; rw [e]; simp
  refine ⟨?_, hb2, hlast2, hpos2, hcs2⟩
  rcases alloc_casesO' t v.arena next len with ⟨c, hc, hrem, he⟩ | ⟨pc, hrem, he⟩
  · -- the request fits: same chunk
    rw [he] at hal
    simp only [Prod.mk.injEq] at hal
    obtain ⟨rfl, _, rfl, rfl⟩ := hal
    have hane := h.last.ne c hc
    obtain ⟨ys, a, has⟩ : ∃ ys a, v.anchors = ys ++ [a] := by
      rcases List.eq_nil_or_concat v.anchors with h0 | ⟨ys, a, h1⟩
      · exact absurd h0 hane
      · exact ⟨ys, a, by rw [h1, List.concat_eq_append]⟩
    obtain ⟨c', hc', hac⟩ := h.last.last a (by rw [has]; simp)
    rw [hc] at hc'; cases hc'
    have hfp := h.fp.copied_same _ c.chunk _ _ has hac ho
    refine ⟨F, hfp, ⟨?_, fun _ _ => hne2⟩, ?_⟩
    · intro a2 ha2
      refine ⟨_, by rw [har], ?_⟩
      rw [ha2] at hlc
      simpa using hlc
    · intro hb hF
      obtain ⟨c0, h1, h2, h3⟩ := h.pot (by rw [← hb2]; exact hb) hF
      rw [hc] at h1; cases h1
      exact ⟨{ c with bump := c.bump + len }, by rw [har], h2, by simp only; omega⟩
  · -- a fresh chunk
    rw [he] at hal
    simp only [Prod.mk.injEq] at hal
    obtain ⟨rfl, _, rfl, rfl⟩ := hal
    have hfp := (h.fp.copied _ next _ _ ho).1
    refine ⟨F + 1, hfp, ⟨?_, fun _ _ => hne2⟩, ?_⟩
    · intro a2 ha2
      refine ⟨_, by rw [har], ?_⟩
      rw [ha2] at hlc
      simpa using hlc
    · intro hb _
      refine ⟨_, by rw [har], hlo len pc, ?_⟩
      simp only [Nat.add_sub_cancel]
      by_cases hF : 1 ≤ F
      · obtain ⟨c0, h1, h2, h3⟩ := h.pot (by rw [← hb2]; exact hb) hF
        have hr := hrem c0 h1
        simp only [Cache.remaining] at hr
        have e : F = (F - 1) + 1 := by omega
        rw [e, Nat.mul_add, Nat.mul_one]
        omega
      · have : F = 0 := by omega
        subst this
        simp; omega

theorem QPv.pushBorrowedSlice {m₀ F WF : Nat} {v v' : Iov} {s : Slice} (h : QPv m₀ F WF v) (hne : v.anchors ≠ [])
    (hp : v.pushBorrowedSlice s = some v') : QPv m₀ F WF v' ∧ v'.backrefs = v.backrefs := by
  obtain ⟨_, as, a, hcase, ho⟩ := pushBorrowedSlice_spec hp
  have har := pushBorrowedSlice_arena hp
  have hb := (pushBorrowedSlice_count hp h.fp.count).2.1
  rcases hcase with ⟨hnil, _, _⟩ | hsnoc
  · exact absurd hnil hne
  · have hlc : v'.anchors.getLast?.map (·.chunk) = v.anchors.getLast?.map (·.chunk) := by
      rw [optimize_last_chunk ho, hsnoc]; simp
    refine ⟨⟨h.fp.pushBorrowedSlice hp, ⟨?_, ?_⟩, ?_⟩, hb⟩
    · intro a2 ha2
      rw [ha2, hsnoc] at hlc
      simp only [List.getLast?_append, List.getLast?_singleton, Option.map_some, Option.some.injEq,
        Option.some_or] at hlc
      obtain ⟨c, hc, hac⟩ := h.last.last a (by rw [hsnoc]; simp)
      exact ⟨c, by rw [har]; exact hc, by rw [hlc]; exact hac⟩
    · intro c _ he
      rw [he] at hlc
      rw [hsnoc] at hlc
      simp at hlc
    · intro hb' hF
      obtain ⟨c, h1, h2, h3⟩ := h.pot (by rw [← hb]; exact hb') hF
      exact ⟨c, by rw [har]; exact h1, h2, h3⟩

theorem QPv.consumeSlices {m₀ F WF : Nat} {v v' : Iov} {count k n : Nat} (h : QPv m₀ F WF v) (hpend : v.backrefs ≠ [])
    (hst : v.stableCount = some n) (hle : count ≤ n) (hc : v.consumeSlices count = some (v', k)) :
    QPv m₀ F WF v' ∧ v'.backrefs = v.backrefs := by
  have hfp := h.fp.consumeSlices hst hle hc
  obtain ⟨hk, as1, hd, hv'⟩ := consumeSlices_specO hc
  have har : v'.arena = v.arena := by rw [hv']
  have hb : v'.backrefs = v.backrefs := by rw [hv']
  rcases h.fp.pend with h0 | ⟨e, h1, h2, h3, pre, A, tail, q1, q2, q3, q4⟩
  · exact absurd h0 hpend
  · have hn : n = e.2.sliceIndex - v.consumedSlices := by
      rw [stable_idx_pend h1 h2 h3] at hst
      simp only [Option.some.injEq] at hst
      exact hst.symm
    rw [q1] at hd
    obtain ⟨pre', A', r1, _, _, r4⟩ := drain_split tail A _ pre k _ as1 (by omega) q2 q3 hd
    have hanch : v'.anchors = pre' ++ A' :: tail := by rw [hv']; exact r1
    have hlc : v'.anchors.getLast?.map (·.chunk) = v.anchors.getLast?.map (·.chunk) := by
      rw [hanch, q1]
      exact getLast?_chunk_tail pre pre' A A' tail r4
    refine ⟨⟨hfp, ⟨?_, ?_⟩, ?_⟩, hb⟩
    · intro a2 ha2
      rw [ha2] at hlc
      cases hl : v.anchors.getLast? with
      | none => rw [hl] at hlc; simp at hlc
      | some a0 =>
        rw [hl] at hlc
        simp only [Option.map_some, Option.some.injEq] at hlc
        obtain ⟨c, hc', hac⟩ := h.last.last a0 hl
        exact ⟨c, by rw [har]; exact hc', by rw [hlc]; exact hac⟩
    · intro c _ he
      rw [hanch] at he
      simp at he
    · intro hb' hF
      obtain ⟨c, g1, g2, g3⟩ := h.pot hpend hF
      exact ⟨c, by rw [har]; exact g1, g2, g3⟩

end Woodpile.Iovec

namespace Woodpile.Iovec
open Woodpile.Arena

theorem QPv.consumeBytes {m₀ F WF : Nat} {e : Nat × BackrefInfo} : ∀ (fuel : Nat) (v : Iov) (count consumed : Nat)
    (v' : Iov) (c : Nat), QPv m₀ F WF v → v.backrefs = [e] →
    count - consumed ≤ ((v.slices.take (e.2.sliceIndex - v.consumedSlices)).map (·.len)).foldl (· + ·) 0 →
    Iov.consumeBytes fuel v count consumed = some (v', c) → QPv m₀ F WF v' ∧ v'.backrefs = [e] := by
  intro fuel
  induction fuel with
  | zero =>
    intro v count consumed v' c h hb _ hc
    simp only [Iov.consumeBytes, Option.some.injEq, Prod.mk.injEq] at hc
    rw [← hc.1]; exact ⟨h, hb⟩
  | succ fuel ih =>
    intro v count consumed v' c h hb hbud hc
    unfold Iov.consumeBytes at hc
    split at hc
    · simp only [Option.some.injEq, Prod.mk.injEq] at hc
      rw [← hc.1]; exact ⟨h, hb⟩
    · rename_i hlt
      rcases h.fp.pend with h0 | ⟨e', h1, h2, h3, h4⟩
      · rw [hb] at h0; cases h0
      · rw [hb] at h1; cases h1
        split at hc
        · cases hc
        · rename_i s rest hs
          simp only at hc
          have hidx : 1 ≤ e.2.sliceIndex - v.consumedSlices := by
            rcases Nat.eq_zero_or_pos (e.2.sliceIndex - v.consumedSlices) with h0 | hp
            · rw [h0] at hbud; simp at hbud; omega
            · exact hp
          split at hc
          · rename_i hfull
            split at hc
            · cases hc
            · rename_i v1 k1 hc1
              have hst := stable_idx_pend hb h2 h3
              obtain ⟨hq1, hb1'⟩ := h.consumeSlices (by rw [hb]; simp) hst hidx hc1
              obtain ⟨hk, as1, _, hv1⟩ := consumeSlices_specO hc1
              have hk1 : k1 = 1 := by rw [hk, hs]; simp
              subst hk1
              have hb1 : v1.backrefs = [e] := by rw [hb1', hb]
              have hcs1 : v1.consumedSlices = v.consumedSlices + 1 := by rw [hv1]
              have hsl1 : v1.slices = rest := by rw [hv1, hs]; rfl
              refine ih v1 count _ v' c hq1 hb1 ?_ hc
              rw [hcs1, hsl1]
              have e1 : e.2.sliceIndex - v.consumedSlices = (e.2.sliceIndex - (v.consumedSlices + 1)) + 1 := by omega
              rw [e1, hs, foldl_lens_cons] at hbud
              omega
          · simp only [Option.some.injEq, Prod.mk.injEq] at hc
            rw [← hc.1]
            refine ⟨⟨⟨?_, h.fp.headPos, Or.inr ⟨e, hb, h2, ?_, h4⟩⟩, ⟨h.last.last, h.last.ne⟩, h.pot⟩, hb⟩
            · rw [h.fp.count, hs]; rfl
            · rw [hs] at h3; exact h3

/-- The encoder's world, seen by the potential (borrowed / copied input). -/
def QPB (T : Tuning) (i m₀ F WF : Nat) (B : List (Nat × BackrefInfo)) (w : World) : Prop :=
  w.tun = T ∧ Solo i w ∧ ∃ v, w.iov i = some v ∧ QPv m₀ F WF v ∧ v.backrefs = B

theorem QPB.mono_wf {T : Tuning} {i m₀ F WF WF' : Nat} {B : List (Nat × BackrefInfo)} {w : World}
    (h : QPB T i m₀ F WF B w) (hw : WF ≤ WF') : QPB T i m₀ F WF' B w := by
  obtain ⟨ht, hs, v, hv, hq, hb⟩ := h
  exact ⟨ht, hs, v, hv, hq.mono_wf hw, hb⟩

theorem QPB.pushCopy {T : Tuning} {i m₀ F WF : Nat} {B : List (Nat × BackrefInfo)} {w w' : World} {bs : List UInt8}
    (hlo : ∀ len prev, m₀ ≤ max (findHintSize T len prev) len) (h : QPB T i m₀ F WF B w)
    (hp : w.pushCopy i bs = some w') : ∃ F', QPB T i m₀ F' (WF + bs.length) B w' := by
  obtain ⟨ht, hs, v, hv, hq, hb⟩ := h
  obtain ⟨v0, hv0, ⟨_, rfl⟩ | ⟨_, arena', next', chunk, off, v2, hal, ho, rfl⟩⟩ := pushCopy_spec hp
  · exact ⟨F, ht, hs, v, hv, hq.mono_wf (by omega), hb⟩
  · rw [hv] at hv0; cases hv0
    rw [ht] at hal
    obtain ⟨⟨F', hq2⟩, hb2, _, _, _⟩ := hq.copied hlo hal ho
    exact ⟨F', ht, (hs.setIov _).with_heap_next _ _, v2, iov_set_heap_next .., hq2, by rw [hb2, hb]⟩

theorem QPB.pushBorrowed {T : Tuning} {i m₀ F WF : Nat} {B : List (Nat × BackrefInfo)} {w w' : World} {s : Slice}
    (h : QPB T i m₀ F WF B w) (hB : B ≠ []) (hp : w.pushBorrowed i s = some w') : QPB T i m₀ F WF B w' := by
  obtain ⟨ht, hs, v, hv, hq, hb⟩ := h
  obtain ⟨v0, hv0, ⟨_, rfl⟩ | ⟨_, v', hpb, rfl⟩⟩ := pushBorrowed_spec hp
  · exact ⟨ht, hs, v, hv, hq, hb⟩
  · rw [hv] at hv0; cases hv0
    have hne : v.anchors ≠ [] := by
      rcases hq.fp.pend with h0 | ⟨e, _, _, _, pre, A, tail, q1, _⟩
      · rw [hb] at h0; exact absurd h0 hB
      · rw [q1]; simp
    obtain ⟨hq', hb'⟩ := hq.pushBorrowedSlice hne hpb
    exact ⟨ht, hs.setIov _, v', by simp, hq', by rw [hb', hb]⟩

theorem QPB.push {T : Tuning} {i m₀ F WF : Nat} {B : List (Nat × BackrefInfo)} {w w' : World} {s : Slice}
    (hlo : ∀ len prev, m₀ ≤ max (findHintSize T len prev) len) (h : QPB T i m₀ F WF B w) (hB : B ≠ [])
    (hp : w.push i s = some w') : ∃ F', QPB T i m₀ F' (WF + s.len) B w' := by
  rcases push_cases hp with h1 | h1
  · obtain ⟨F', hq⟩ := h.pushCopy hlo h1
    exact ⟨F', hq.mono_wf (by have := Woodpile.EncWorld.sliceBytes_length_le w s; omega)⟩
  · exact ⟨F, (h.pushBorrowed hB h1).mono_wf (by omega)⟩

theorem QPB.registerPatch {T : Tuning} {i m₀ F WF : Nat} {w w' : World} {pat : List UInt8} {b : Backref}
    (hlo : ∀ len prev, m₀ ≤ max (findHintSize T len prev) len) (h : QPB T i m₀ F WF [] w)
    (hne : pat ≠ []) (hp : w.registerPatch i pat = some (w', b)) : ∃ e, QPB T i m₀ 0 0 [e] w' := by
  obtain ⟨ht, hs, v, hv, hq, hb⟩ := h
  rcases registerPatch_spec hp with ⟨he, _, _⟩ | ⟨_, w1, v1, last, hpc, hv1, _, _, _, _, rfl⟩
  · exact absurd he hne
  · obtain ⟨v0, hv0, ⟨he, _⟩ | ⟨_, arena', next', chunk, off, v2, hal, ho, rfl⟩⟩ := pushCopy_spec hpc
    · exact absurd he hne
    · rw [hv] at hv0; cases hv0
      simp only [iov_with_heap_next, iov_setIov, if_true, Option.some.injEq] at hv1
      subst hv1
      rw [ht] at hal
      obtain ⟨⟨F', hq2⟩, hb2, hlast, hpos, _⟩ := hq.copied hlo hal ho
      rw [hb] at hb2
      have hbe : ∀ x : Nat × BackrefInfo, v2.backrefs ++ [x] = [x] := fun x => by rw [hb2]; rfl
      refine ⟨(v2.logicalSize, ⟨v2.consumedSlices + v2.slices.length - 1, last.len - pat.length, pat.length⟩),
        ht, ((hs.setIov _).with_heap_next _ _).setIov _,
        { v2 with backrefs := v2.backrefs ++
          [(v2.logicalSize, ⟨v2.consumedSlices + v2.slices.length - 1, last.len - pat.length, pat.length⟩)] },
        by simp, ⟨⟨hq2.fp.count, hq2.fp.headPos, Or.inr ⟨_, hbe _, ?_, ?_, ?_⟩⟩, ⟨hq2.last.last, hq2.last.ne⟩, ?_⟩, hbe _⟩
      · simp only; omega
      · simp only; omega
      · simp only
        have e1 : v2.consumedSlices + v2.slices.length - 1 - v2.consumedSlices = v2.slices.length - 1 := by omega
        rw [e1]
        exact split_last (by rw [hq2.fp.count]; omega) hlast
      · intro _ hF; omega

theorem QPB.backfill {T : Tuning} {i m₀ F WF F' WF' : Nat} {e : Nat × BackrefInfo} {w w' : World} {b : Backref}
    {src : List UInt8} (h : QPB T i m₀ F WF [e] w) (hne : src ≠ []) (hp : w.backfill i b src = some w') :
    QPB T i m₀ F' WF' [] w' := by
  obtain ⟨ht, hs, v, hv, hq, hb⟩ := h
  obtain ⟨v0, hv0, ⟨_, he, _⟩ | ⟨key, info, target, k, _, _, hmem, _, _, _, _, rfl⟩⟩ := backfill_spec hp
  · exact absurd he hne
  · rw [hv] at hv0; cases hv0
    rw [hb] at hmem
    simp only [List.mem_singleton] at hmem
    have hfil : v.backrefs.filter (·.1 ≠ key) = [] := by
      rw [hb, ← hmem]; simp
    exact ⟨ht, (hs.setIov _).with_heap _, _, iov_set_heap ..,
      ⟨⟨hq.fp.count, hq.fp.headPos, Or.inl hfil⟩, ⟨hq.last.last, hq.last.ne⟩, fun hx => absurd hfil hx⟩, hfil⟩

theorem QPB.addExt {T : Tuning} {i m₀ F WF : Nat} {B : List (Nat × BackrefInfo)} {w : World}
    (h : QPB T i m₀ F WF B w) (d : List UInt8) : QPB T i m₀ F WF B (w.addExt d).1 := by
  obtain ⟨ht, hs, v, hv, hq, hb⟩ := h
  exact ⟨ht, hs.of_same (fun _ _ => rfl) (fun _ => rfl) (fun _ => rfl), v, hv, hq, hb⟩

theorem QPB.consume {T : Tuning} {i m₀ F WF : Nat} {e : Nat × BackrefInfo} {w w' : World} {count k : Nat}
    (h : QPB T i m₀ F WF [e] w) (hc : w.consume i count = some (w', k)) : QPB T i m₀ F WF [e] w' := by
  obtain ⟨ht, hs, v, hv, hq, hb⟩ := h
  obtain ⟨v0, n, v', hv0, hst, hcs, rfl⟩ := consume_spec hc
  rw [hv] at hv0; cases hv0
  obtain ⟨hq', hb'⟩ := hq.consumeSlices (by rw [hb]; simp) hst (Nat.min_le_right _ _) hcs
  exact ⟨ht, hs.setIov _, v', by simp, hq', by rw [hb', hb]⟩

theorem QPB.advance {T : Tuning} {i m₀ F WF : Nat} {e : Nat × BackrefInfo} {w w' : World} {count c : Nat}
    (h : QPB T i m₀ F WF [e] w) (hc : w.advance i count = some (w', c)) : QPB T i m₀ F WF [e] w' := by
  obtain ⟨ht, hs, v, hv, hq, hb⟩ := h
  unfold World.advance at hc
  rw [hv] at hc
  simp only at hc
  rcases hq.fp.pend with h0 | ⟨e', h1, h2, h3, h4⟩
  · rw [hb] at h0; cases h0
  · rw [hb] at h1; cases h1
    rw [stable_idx_pend hb h2 h3] at hc
    simp only at hc
    split at hc
    · cases hc
    · rename_i v' c' hcb
      simp only [Option.some.injEq, Prod.mk.injEq] at hc
      obtain ⟨rfl, _⟩ := hc
      obtain ⟨hq', hb'⟩ := QPv.consumeBytes _ v _ 0 v' c' hq hb (by simp; exact Nat.min_le_right _ _) hcb
      exact ⟨ht, hs.setIov _, v', by simp, hq', hb'⟩

/-- At a quiescent point the deque is short: `F + 1` anchors, `F ≤ 2·WF/m₀ + 1`. -/
theorem QPv.quiescent {m₀ F WF : Nat} {v : Iov} (hm : 0 < m₀) (h : QPv m₀ F WF v) (hne : v.backrefs ≠ [])
    (hq : v.stableCount = some 0) : v.anchors.length ≤ 2 * WF / m₀ + 2 := by
  have h1 := h.fp.quiescent hne hq
  by_cases hF : 1 ≤ F
  · obtain ⟨c, _, _, hp⟩ := h.pot hne hF
    have : F - 1 ≤ 2 * WF / m₀ := by
      rw [Nat.le_div_iff_mul_le hm, Nat.mul_comm]; omega
    generalize 2 * WF / m₀ = q at *
    omega
  · generalize 2 * WF / m₀ = q
    omega

end Woodpile.Iovec

namespace Woodpile.EncWorld
open Woodpile.Hcobs Woodpile.Iovec Woodpile.Arena
open Woodpile.Hcobs.EncProof

/-- Bytes an emit appends. -/
def emitLen (e : Emit) : Nat :=
  match e.op with
  | .append bs => bs.length
  | _ => 0

def emitsLen (A : List Emit) : Nat := (A.map emitLen).sum

theorem applyStep_appends_qpb {T : Tuning} {i m₀ : Nat} {B : List (Nat × BackrefInfo)} {src : Slice}
    (hlo : ∀ len prev, m₀ ≤ max (findHintSize T len prev) len) (hB : B ≠ []) (A : List Emit)
    (hA : ∀ e ∈ A, ∃ bs, e.op = .append bs) : ∀ {F WF : Nat} {w w' : World} {toks toks' : List Backref},
    QPB T i m₀ F WF B w → applyStep w i toks A src = some (w', toks') →
    ∃ F', QPB T i m₀ F' (WF + emitsLen A) B w' := by
  induction A with
  | nil =>
    intro F WF w w' toks toks' h ha
    simp only [applyStep, Option.some.injEq, Prod.mk.injEq] at ha
    rw [← ha.1]; exact ⟨F, h.mono_wf (by omega)⟩
  | cons e t ih =>
    intro F WF w w' toks toks' h ha
    simp only [applyStep] at ha
    cases h1 : applyEmit w i toks e src with
    | none => rw [h1] at ha; cases ha
    | some x =>
      obtain ⟨w1, toks1⟩ := x
      rw [h1] at ha
      obtain ⟨bs, hbs⟩ := hA e (by simp)
      have h2 : ∃ F1, QPB T i m₀ F1 (WF + bs.length) B w1 := by
        obtain ⟨op, m⟩ := e
        simp only at hbs
        subst hbs
        cases m with
        | copy =>
          simp only [applyEmit, Option.map_eq_some_iff, Prod.mk.injEq] at h1
          obtain ⟨w2, h3, rfl, _⟩ := h1
          exact h.pushCopy hlo h3
        | borrow =>
          simp only [applyEmit, Option.map_eq_some_iff, Prod.mk.injEq] at h1
          obtain ⟨w2, h3, rfl, _⟩ := h1
          exact h.push hlo hB h3
      obtain ⟨F1, hq1⟩ := h2
      obtain ⟨F2, hq2⟩ := ih (fun x hx => hA x (by simp [hx])) hq1 ha
      refine ⟨F2, hq2.mono_wf ?_⟩
      simp only [emitsLen, List.map_cons, List.sum_cons, emitLen, hbs]
      omega

theorem applyStep_close_qpb {T : Tuning} {i m₀ F WF : Nat} {e : Nat × BackrefInfo} {w w' : World}
    {toks toks' : List Backref} {src : Slice} (hlo : ∀ len prev, m₀ ≤ max (findHintSize T len prev) len)
    (p : Params) (s : EncState) (hbr : 1 ≤ s.brLen) (h : QPB T i m₀ F WF [e] w)
    (ha : applyStep w i toks (closeE p s) src = some (w', toks')) : ∃ e', QPB T i m₀ 0 0 [e'] w' := by
  simp only [closeE, applyStep] at ha
  cases h1 : applyEmit w i toks (Enc.closeHeader p s) src with
  | none => rw [h1] at ha; cases ha
  | some x =>
    obtain ⟨w1, toks1⟩ := x
    rw [h1] at ha
    simp only at ha
    cases h2 : applyEmit w1 i toks1 ⟨.register 2, .copy⟩ src with
    | none => rw [h2] at ha; cases ha
    | some y =>
      obtain ⟨w2, toks2⟩ := y
      rw [h2] at ha
      simp only [Option.some.injEq, Prod.mk.injEq] at ha
      obtain ⟨rfl, _⟩ := ha
      simp only [Enc.closeHeader, applyEmit] at h1
      cases h0 : toks[s.backref]? with
      | none => rw [h0] at h1; cases h1
      | some b =>
        rw [h0] at h1
        simp only [Option.map_eq_some_iff, Prod.mk.injEq] at h1
        obtain ⟨w1', hb1, rfl, _⟩ := h1
        have hn : QPB T i m₀ 0 0 [] w1' := h.backfill (header_take_ne_nil p s.cur s.brLen hbr) hb1
        simp only [applyEmit] at h2
        cases h3 : w1'.registerPatch i (List.replicate 2 0) with
        | none => rw [h3] at h2; cases h2
        | some z =>
          obtain ⟨w3, b3⟩ := z
          rw [h3] at h2
          simp only [Option.some.injEq, Prod.mk.injEq] at h2
          obtain ⟨rfl, _⟩ := h2
          exact hn.registerPatch hlo (by simp) h3

theorem flushE_len (s : EncState) : emitsLen (flushE s) = if s.mid then 1 else 0 := by
  unfold flushE emitsLen; split <;> simp [emitLen, *]

theorem writeE_len_le (m : Method) (n : Nat) (X : List UInt8) (hX : X.length ≤ n) : emitsLen (writeE m n X) ≤ n := by
  unfold writeE emitsLen; split <;> simp [emitLen]; exact hX

theorem emitsLen_append (A B : List Emit) : emitsLen (A ++ B) = emitsLen A + emitsLen B := by
  simp [emitsLen]

/-- One `consume_once` step: the bytes copied since the placeholder was registered stay below `cur`. -/
theorem once_qpb {T : Tuning} {m₀ : Nat} (hlo : ∀ len prev, m₀ ≤ max (findHintSize T len prev) len) (p : Params) (i : Nat)
    (s : EncState) (nid : Nat) (m : Method) (input : List UInt8) (hbr : 1 ≤ s.brLen) {F WF : Nat}
    {e : Nat × BackrefInfo} {w w' : World} {toks toks' : List Backref} {src : Slice}
    (h : QPB T i m₀ F WF [e] w) (hwf : WF ≤ s.cur)
    (ha : applyStep w i toks (Enc.consumeOnce p s nid m input).emits src = some (w', toks')) :
    (∃ F' WF' e', QPB T i m₀ F' WF' [e'] w' ∧ WF' ≤ (Enc.consumeOnce p s nid m input).st.cur) ∧
      1 ≤ (Enc.consumeOnce p s nid m input).st.brLen := by
  have hclose : ∀ (A : List Emit) (s2 : EncState), (∀ x ∈ A, ∃ bs, x.op = .append bs) → s2.brLen = s.brLen →
      applyStep w i toks (A ++ closeE p s2) src = some (w', toks') → ∃ e', QPB T i m₀ 0 0 [e'] w' := by
    intro A s2 hA hs2 hx
    rw [applyStep_append] at hx
    cases h1 : applyStep w i toks A src with
    | none => rw [h1] at hx; cases hx
    | some y =>
      obtain ⟨w1, toks1⟩ := y
      rw [h1] at hx
      obtain ⟨F1, hq1⟩ := applyStep_appends_qpb hlo (by simp) A hA h h1
      exact applyStep_close_qpb hlo p s2 (by omega) hq1 hx
  by_cases hA : s.mid ∧ input.head? = some FD
  · rw [consumeOnce_mid p s nid m input hA] at ha ⊢
    refine ⟨?_, by simp [subState]⟩
    obtain ⟨e', he'⟩ := hclose [] s (by simp) rfl (by simpa using ha)
    exact ⟨0, 0, e', he', Nat.zero_le _⟩
  · cases hfs : findStuff (input.take ((flushS s).maxChunk - (flushS s).cur)) with
    | some k =>
      rw [consumeOnce_stuff p s nid m input hA hfs] at ha ⊢
      refine ⟨?_, by simp [subState]⟩
      obtain ⟨e', he'⟩ := hclose (flushE s ++ writeE m k ((input.take ((flushS s).maxChunk - (flushS s).cur)).take k))
        { flushS s with cur := (flushS s).cur + k } (by
          intro x hx
          simp only [List.mem_append] at hx
          rcases hx with hx | hx
          · exact flushE_appends s x hx
          · exact writeE_appends _ _ _ x hx) (flushS_brLen s) ha
      exact ⟨0, 0, e', he', Nat.zero_le _⟩
    | none =>
      by_cases hfull : (input.take ((flushS s).maxChunk - (flushS s).cur)).length
          = (flushS s).maxChunk - (flushS s).cur
      · rw [consumeOnce_full p s nid m input hA hfs hfull] at ha ⊢
        refine ⟨?_, by simp [subState]⟩
        obtain ⟨e', he'⟩ := hclose (flushE s ++ writeE m ((flushS s).maxChunk - (flushS s).cur)
            (input.take ((flushS s).maxChunk - (flushS s).cur)))
          { flushS s with cur := (flushS s).cur + ((flushS s).maxChunk - (flushS s).cur) } (by
            intro x hx
            simp only [List.mem_append] at hx
            rcases hx with hx | hx
            · exact flushE_appends s x hx
            · exact writeE_appends _ _ _ x hx) (flushS_brLen s) ha
        exact ⟨0, 0, e', he', Nat.zero_le _⟩
      · rw [consumeOnce_part p s nid m input hA hfs hfull] at ha ⊢
        obtain ⟨W, hW⟩ : ∃ W, W = input.take ((flushS s).maxChunk - (flushS s).cur) := ⟨_, rfl⟩
        rw [← hW] at ha ⊢
        simp only at ha ⊢
        refine ⟨?_, by rw [flushS_brLen]; exact hbr⟩
        have happ : ∀ x ∈ flushE s ++ writeE m (if W.getLast? = some FE then W.length - 1 else W.length)
            (W.take (if W.getLast? = some FE then W.length - 1 else W.length)), ∃ bs, x.op = .append bs := by
          intro x hx
          simp only [List.mem_append] at hx
          rcases hx with hx | hx
          · exact flushE_appends s x hx
          · exact writeE_appends _ _ _ x hx
        obtain ⟨F1, hq1⟩ := applyStep_appends_qpb hlo (by simp) _ happ h ha
        refine ⟨F1, _, e, hq1, ?_⟩
        rw [emitsLen_append, flushE_len, flushS_cur]
        have hwl := writeE_len_le m (if W.getLast? = some FE then W.length - 1 else W.length)
            (W.take (if W.getLast? = some FE then W.length - 1 else W.length)) (by simp [List.length_take]; omega)
        simp only [cm]
        omega

theorem encFeed_qpb {T : Tuning} {m₀ : Nat} (hlo : ∀ len prev, m₀ ≤ max (findHintSize T len prev) len) (p : Params)
    (i : Nat) (m : Method) (base : Slice) (fuel : Nat) :
    ∀ (w w' : World) (e e' : EncW) (input : List UInt8) (pos : Nat) (F WF : Nat) (b : Nat × BackrefInfo),
    1 ≤ e.st.brLen → QPB T i m₀ F WF [b] w → WF ≤ e.st.cur → encFeed p fuel w i e m base input pos = some (w', e') →
    (∃ F' WF' b', QPB T i m₀ F' WF' [b'] w' ∧ WF' ≤ e'.st.cur) ∧ 1 ≤ e'.st.brLen := by
  induction fuel with
  | zero =>
    intro w w' e e' input pos F WF b hbr h hwf hf
    simp only [encFeed_zero, Option.some.injEq, Prod.mk.injEq] at hf
    obtain ⟨rfl, rfl⟩ := hf
    exact ⟨⟨F, WF, b, h, hwf⟩, hbr⟩
  | succ fuel ih =>
    intro w w' e e' input pos F WF b hbr h hwf hf
    by_cases hne : input = []
    · subst hne
      simp only [encFeed_nil, Option.some.injEq, Prod.mk.injEq] at hf
      obtain ⟨rfl, rfl⟩ := hf
      exact ⟨⟨F, WF, b, h, hwf⟩, hbr⟩
    · rw [encFeed_succ p fuel w i e m base input pos hne] at hf
      cases h1 : applyStep w i e.toks (Enc.consumeOnce p e.st e.nid m input).emits
          { base with off := base.off + pos, len := base.len - pos } with
      | none => rw [h1] at hf; cases hf
      | some x =>
        obtain ⟨w1, toks1⟩ := x
        rw [h1] at hf
        obtain ⟨⟨F1, WF1, b1, hq1, hwf1⟩, hbr1⟩ := once_qpb hlo p i e.st e.nid m input hbr h hwf h1
        exact ih w1 w' _ e' _ _ F1 WF1 b1 hbr1 hq1 hwf1 hf

theorem encCalls_qpb {T : Tuning} {m₀ : Nat} (hlo : ∀ len prev, m₀ ≤ max (findHintSize T len prev) len) (p : Params)
    (i : Nat) (calls : List Call) : ∀ (r r' : Run) (F WF : Nat) (b : Nat × BackrefInfo), 1 ≤ r.e.st.brLen →
    QPB T i m₀ F WF [b] r.w → WF ≤ r.e.st.cur → encCalls p i r calls = some r' →
    (∃ F' WF' b', QPB T i m₀ F' WF' [b'] r'.w ∧ WF' ≤ r'.e.st.cur) ∧ 1 ≤ r'.e.st.brLen := by
  induction calls with
  | nil =>
    intro r r' F WF b hbr h hwf hc
    simp only [encCalls, Option.some.injEq] at hc
    subst hc; exact ⟨⟨F, WF, b, h, hwf⟩, hbr⟩
  | cons c t ih =>
    intro r r' F WF b hbr h hwf hc
    simp only [encCalls] at hc
    cases h1 : encCall p i r c with
    | none => rw [h1] at hc; cases hc
    | some r1 =>
      rw [h1] at hc
      have hstep : (∃ F' WF' b', QPB T i m₀ F' WF' [b'] r1.w ∧ WF' ≤ r1.e.st.cur) ∧ 1 ≤ r1.e.st.brLen := by
        cases c with
        | feed m d =>
          cases m with
          | copy =>
            simp only [encCall, Option.map_eq_some_iff] at h1
            obtain ⟨x, hx, rfl⟩ := h1
            exact encFeed_qpb hlo p i .copy _ _ r.w x.1 r.e x.2 d 0 F WF b hbr h hwf hx
          | borrow =>
            simp only [encCall, Option.map_eq_some_iff] at h1
            obtain ⟨x, hx, rfl⟩ := h1
            exact encFeed_qpb hlo p i .borrow _ _ (r.w.addExt d).1 x.1 r.e x.2 d 0 F WF b hbr (h.addExt d) hwf hx
        | consume k =>
          simp only [encCall] at h1
          cases hv : r.w.iov i with
          | none => rw [hv] at h1; cases h1
          | some v =>
            rw [hv] at h1
            simp only [Option.map_eq_some_iff] at h1
            obtain ⟨x, hx, rfl⟩ := h1
            exact ⟨⟨F, WF, b, h.consume (k := x.2) (by rw [hx]), hwf⟩, hbr⟩
        | advance k =>
          simp only [encCall] at h1
          cases hv : r.w.iov i with
          | none => rw [hv] at h1; cases h1
          | some v =>
            rw [hv] at h1
            simp only [Option.map_eq_some_iff] at h1
            obtain ⟨x, hx, rfl⟩ := h1
            exact ⟨⟨F, WF, b, h.advance (c := x.2) (by rw [hx]), hwf⟩, hbr⟩
      obtain ⟨⟨F1, WF1, b1, hq1, hwf1⟩, hbr1⟩ := hstep
      exact ih r1 r' F1 WF1 b1 hbr1 hq1 hwf1 hc

theorem qpb_fresh (pol : Policy) (T : Tuning) (m₀ : Nat) : QPB T 0 m₀ 0 0 [] (World.fresh pol T) :=
  ⟨rfl, solo_fresh pol T, Iov.empty, rfl,
    ⟨⟨rfl, headPos_nil, Or.inl rfl⟩, ⟨fun a h => by simp [Iov.empty] at h, fun c h => by simp [Iov.empty] at h⟩,
      fun h => absurd rfl h⟩, rfl⟩

/-- Between the calls of any encoder run with borrowed / copied input: the potential invariant holds, with at
most `cur` bytes copied since the pending placeholder was registered. -/
theorem encPrefix_qpb {T : Tuning} {m₀ : Nat} (hlo : ∀ len prev, m₀ ≤ max (findHintSize T len prev) len) (p : Params)
    (pol : Policy) (calls : List Call) (r : Run) (h : encPrefix p pol T calls = some r) :
    ∃ F WF b, QPB T 0 m₀ F WF [b] r.w ∧ WF ≤ r.e.st.cur := by
  simp only [encPrefix] at h
  cases h0 : encInit p (World.fresh pol T) 0 with
  | none => rw [h0] at h; cases h
  | some x =>
    obtain ⟨w1, e1⟩ := x
    rw [h0] at h
    simp only at h
    simp only [encInit, Enc.init, applyStep] at h0
    cases h1 : applyEmit (World.fresh pol T) 0 [] ⟨.register 1, .copy⟩ ⟨.ext 0, 0, 0⟩ with
    | none => rw [h1] at h0; cases h0
    | some y =>
      obtain ⟨wa, ta⟩ := y
      rw [h1] at h0
      simp only [Option.some.injEq, Prod.mk.injEq] at h0
      obtain ⟨rfl, rfl⟩ := h0
      simp only [applyEmit] at h1
      cases h3 : (World.fresh pol T).registerPatch 0 (List.replicate 1 0) with
      | none => rw [h3] at h1; cases h1
      | some z =>
        obtain ⟨w3, b3⟩ := z
        rw [h3] at h1
        simp only [Option.some.injEq, Prod.mk.injEq] at h1
        obtain ⟨rfl, _⟩ := h1
        obtain ⟨b, hb⟩ := (qpb_fresh pol T m₀).registerPatch hlo (by simp) h3
        exact (encCalls_qpb hlo p 0 calls _ r 0 0 b (by simp) hb (Nat.zero_le _) h).1

end Woodpile.EncWorld

/-
C16 helper lemmas, part 3: the two stock conventions satisfy the comparator laws, the
reference ordered map really is one (sorted, lookups find what is present), and the
whole-item counter-example of observation O2.
-/
import Woodpile.Proofs.SortedDequeOps

namespace Woodpile.SortedDeque

/-! ### `(Key, Option<Value>)` -/

theorem pairCmp_lawful : pairCmp.Lawful where
  swap a b := (Nat.compare_swap b a).symm
  lt_trans a b d h1 h2 := by
    simp only [pairCmp, Nat.compare_eq_lt] at *; omega
  eq_lt a b d h1 h2 := by
    simp only [pairCmp, Nat.compare_eq_lt, Nat.compare_eq_eq] at *; omega
  lt_eq a b d h1 h2 := by
    simp only [pairCmp, Nat.compare_eq_lt, Nat.compare_eq_eq] at *; omega
  erased_mark x := by simp [pairCmp]

theorem pairCmp_eraseOrder (P : Nat × Option Nat → Prop) : EraseOrder pairCmp P where
  left x y _ _ h := by simpa [pairCmp] using h
  right x y _ _ h := by simpa [pairCmp] using h
  both x y _ _ h := by simpa [pairCmp] using h

/-! ### Whole items, lexicographic order -/

theorem cmpOpt_lt {a b : Option Nat} :
    cmpOpt a b = .lt ↔ (a = none ∧ b ≠ none) ∨ ∃ x y, a = some x ∧ b = some y ∧ x < y := by
  cases a <;> cases b <;> simp [cmpOpt, Nat.compare_eq_lt]

theorem cmpOpt_eq {a b : Option Nat} : cmpOpt a b = .eq ↔ a = b := by
  cases a <;> cases b <;> simp [cmpOpt]

theorem cmpOpt_swap (a b : Option Nat) : cmpOpt a b = (cmpOpt b a).swap := by
  cases a <;> cases b <;> simp only [cmpOpt, Ordering.swap]
  exact (Nat.compare_swap _ _).symm

theorem cmpItem_lt {a b : Nat × Option Nat} :
    cmpItem a b = .lt ↔ a.1 < b.1 ∨ (a.1 = b.1 ∧ cmpOpt a.2 b.2 = .lt) := by
  unfold cmpItem
  rcases Nat.lt_trichotomy a.1 b.1 with h | h | h
  · have : compare a.1 b.1 = .lt := Nat.compare_eq_lt.2 h
    simp [this, h]
  · simp [h]
  · have : compare a.1 b.1 = .gt := Nat.compare_eq_gt.2 h
    simp [this]; omega

theorem cmpItem_eq {a b : Nat × Option Nat} : cmpItem a b = .eq ↔ a = b := by
  unfold cmpItem
  obtain ⟨a1, a2⟩ := a
  obtain ⟨b1, b2⟩ := b
  rcases Nat.lt_trichotomy a1 b1 with h | h | h
  · have : compare a1 b1 = .lt := Nat.compare_eq_lt.2 h
    simp [this]; omega
  · simp [h, cmpOpt_eq]
  · have : compare a1 b1 = .gt := Nat.compare_eq_gt.2 h
    simp [this]; omega

theorem cmpItem_swap (a b : Nat × Option Nat) : cmpItem a b = (cmpItem b a).swap := by
  unfold cmpItem
  rcases Nat.lt_trichotomy a.1 b.1 with h | h | h
  · simp [Nat.compare_eq_lt.2 h, Nat.compare_eq_gt.2 h]
  · simp [Nat.compare_eq_eq.2 h, Nat.compare_eq_eq.2 h.symm, cmpOpt_swap a.2 b.2]
  · simp [Nat.compare_eq_gt.2 h, Nat.compare_eq_lt.2 h]

theorem cmpOpt_lt_trans {a b d : Option Nat} (h1 : cmpOpt a b = .lt) (h2 : cmpOpt b d = .lt) :
    cmpOpt a d = .lt := by
  rw [cmpOpt_lt] at *
  rcases h1 with ⟨ha, hb⟩ | ⟨x, y, ha, hb, hxy⟩
  · rcases h2 with ⟨hb', _⟩ | ⟨y, z, _, hd, _⟩
    · exact absurd hb' hb
    · exact Or.inl ⟨ha, by simp [hd]⟩
  · rcases h2 with ⟨hb', _⟩ | ⟨y', z, hb', hd, hyz⟩
    · simp [hb] at hb'
    · rw [hb] at hb'; cases hb'
      exact Or.inr ⟨x, z, ha, hd, by omega⟩

theorem wholeCmp_lawful : wholeCmp.Lawful where
  swap a b := cmpItem_swap a b
  lt_trans a b d h1 h2 := by
    simp only [wholeCmp, cmpItem_lt] at *
    rcases h1 with h1 | ⟨h1, h1'⟩ <;> rcases h2 with h2 | ⟨h2, h2'⟩
    · left; omega
    · left; omega
    · left; omega
    · right; exact ⟨by omega, cmpOpt_lt_trans h1' h2'⟩
  eq_lt a b d h1 h2 := by
    simp only [wholeCmp, cmpItem_eq] at h1; subst h1; exact h2
  lt_eq a b d h1 h2 := by
    simp only [wholeCmp, cmpItem_eq] at h2; subst h2; exact h1
  erased_mark x := by simp [wholeCmp]

/-- "Distinct keys": among the items in play, the `key` field determines the item. -/
def DistinctKeys (P : Nat × Option Nat → Prop) : Prop :=
  ∀ x y, P x → P y → x.1 = y.1 → x = y

theorem wholeCmp_eraseOrder {P : Nat × Option Nat → Prop} (hP : DistinctKeys P) :
    EraseOrder wholeCmp P := by
  have key : ∀ x y, P x → P y → cmpItem x y = .lt → x.1 < y.1 := by
    intro x y hx hy h
    rcases cmpItem_lt.1 h with h1 | ⟨h1, h2⟩
    · exact h1
    · have := hP x y hx hy h1
      subst this
      rw [cmpOpt_eq.2 rfl] at h2; cases h2
  refine ⟨?_, ?_, ?_⟩ <;> intro x y hx hy h <;>
    · have := key x y hx hy h
      simp only [wholeCmp, cmpItem_lt]
      exact Or.inl this

/-- Observation O2: without the distinct-keys restriction the whole-item order does *not*
satisfy the order-preservation law … -/
theorem wholeCmp_not_eraseOrder : ¬ EraseOrder wholeCmp (fun _ => True) := by
  intro h
  have := h.right (1, some 1) (1, some 2) trivial trivial (by decide)
  revert this
  decide

/-! ### The reference is an ordered map -/

variable {α κ : Type} {c : Cmp α κ}

theorem sorted_append_last (hc : c.Lawful) {m : List α} {l x : α} (hs : Sorted c m)
    (hl : m.getLast? = some l) (hlt : c.cmp (c.key l) (c.key x) = .lt) : Sorted c (m ++ [x]) := by
  obtain ⟨ys, rfl⟩ := List.getLast?_eq_some_iff.1 hl
  unfold Sorted at *
  rw [List.pairwise_append]
  refine ⟨hs, by simp, ?_⟩
  intro a ha b hb
  simp only [List.mem_singleton] at hb; subst hb
  rcases List.mem_append.1 ha with ha | ha
  · exact hc.lt_trans _ _ _ ((List.pairwise_append.1 hs).2.2 a ha l (by simp)) hlt
  · simp only [List.mem_singleton] at ha; subst ha; exact hlt

theorem stepRef_sorted (hc : c.Lawful) {m m' : List α} {op : Op α κ} {r : Ret α}
    (hs : Sorted c m) (h : stepRef c m op = some (r, m')) : Sorted c m' := by
  cases op with
  | push x =>
    simp only [stepRef] at h
    split at h
    · cases h; exact hs
    · split at h
      · rename_i hn
        cases h
        have : m = [] := List.getLast?_eq_none_iff.1 hn
        subst this
        simp [Sorted]
      · rename_i l hl
        split at h
        · rename_i hlt
          cases h
          exact sorted_append_last hc hs hl (by simpa using hlt)
        · cases h
  | find k => simp only [stepRef] at h; cases h; exact hs
  | remove k =>
    simp only [stepRef] at h; cases h
    exact List.Pairwise.sublist List.filter_sublist hs
  | popFirst => simp only [stepRef] at h; cases h; exact List.Pairwise.sublist (List.drop_sublist 1 m) hs
  | popLast =>
    simp only [stepRef] at h; cases h
    exact List.Pairwise.sublist (List.dropLast_sublist m) hs
  | first => simp only [stepRef] at h; cases h; exact hs
  | last => simp only [stepRef] at h; cases h; exact hs
  | isEmpty => simp only [stepRef] at h; cases h; exact hs
  | iter => simp only [stepRef] at h; cases h; exact hs
  | clear => simp only [stepRef] at h; cases h; simp [Sorted]

theorem find_present (hc : c.Lawful) {m : List α} (hs : Sorted c m) {x : α} (hx : x ∈ m) :
    m.find? (fun y => c.cmp (c.key y) (c.key x) == .eq) = some x := by
  obtain ⟨pre, post, rfl⟩ := List.append_of_mem hx
  obtain ⟨hpre, _⟩ := sorted_split hc hs (hc.refl (c.key x))
  rw [List.find?_append]
  have : pre.find? (fun y => c.cmp (c.key y) (c.key x) == .eq) = none := by
    rw [List.find?_eq_none]
    intro y hy
    simp [hpre y hy]
  rw [this, List.find?_cons]
  simp [hc.refl]

theorem find_after_remove (m : List α) (k : κ) :
    (m.filter fun y => c.cmp (c.key y) k != .eq).find? (fun y => c.cmp (c.key y) k == .eq) = none := by
  rw [List.find?_eq_none]
  intro y hy
  have := (List.mem_filter.1 hy).2
  simpa using this

theorem head_is_min {m : List α} (hs : Sorted c m) {a : α} (ha : m.head? = some a) :
    ∀ b ∈ m, b = a ∨ c.cmp (c.key a) (c.key b) = .lt := by
  obtain ⟨t, rfl⟩ := List.head?_eq_some_iff.1 ha
  intro b hb
  rcases List.mem_cons.1 hb with h | h
  · exact Or.inl h
  · exact Or.inr ((List.pairwise_cons.1 hs).1 b h)

theorem last_is_max {m : List α} (hs : Sorted c m) {a : α} (ha : m.getLast? = some a) :
    ∀ b ∈ m, b = a ∨ c.cmp (c.key b) (c.key a) = .lt := by
  obtain ⟨ys, rfl⟩ := List.getLast?_eq_some_iff.1 ha
  intro b hb
  rcases List.mem_append.1 hb with h | h
  · exact Or.inr ((List.pairwise_append.1 hs).2.2 b h a (by simp))
  · simp only [List.mem_singleton] at h; exact Or.inl h

end Woodpile.SortedDeque

/-
Encoder refinement: the incremental encoder state machine of
`Woodpile.Model.Hcobs` (`Enc.consumeOnce/feed/finish/runPieces/output`)
computes the batch `Spec.encode`, for every segmentation of the input and every
method per piece (DESIGN.md appendix A.1).

Three equal semantics, two bridges:

* `Enc.feed` (the `while !input.is_empty() { consume_once }` loop) over a piece
  = `List.foldl byteStep` over its bytes, on an abstract state `BS` that the
  pipe + `EncState` represent (`Rel`)                                [bridge 1]
  - `consumeOnce_sim`: plumbing — the emitted pipe ops implement `onceA`
  - `onceA_eq_fold`: list reasoning — `onceA` = folding `byteStep` over the
    bytes it consumes
* pieces compose by `List.foldl_append` (split / method independence)
* `BS.finish (d.foldl byteStep init) = Spec.encode p d`               [bridge 2]

Core Lean only.
-/
import Woodpile.Model.Hcobs
import Woodpile.Proofs.PipeLemmas
import Woodpile.Proofs.HcobsSpec

namespace Woodpile.Hcobs.EncProof
open Woodpile.Pipe Woodpile.Hcobs Woodpile.Hcobs.Spec

/-! ### the byte-at-a-time machine -/

/-- Abstract encoder state: bytes of the closed chunks (headers filled in), whether the open
chunk is the first one, the bytes already written into the open chunk, and whether an `FE` is
held back. -/
structure BS where
  done : List UInt8
  first : Bool
  body : List UInt8
  mid : Bool
  deriving Repr, DecidableEq

namespace BS

/-- What the open chunk logically contains: written bytes plus the held `FE`. -/
def eff (σ : BS) : List UInt8 := σ.body ++ (if σ.mid then [FE] else [])

def M (p : Params) (σ : BS) : Nat := limit p σ.first

/-- Close the open chunk with its current body and open a subsequent one. -/
def close (p : Params) (σ : BS) : BS :=
  ⟨σ.done ++ header p σ.first σ.body.length ++ σ.body, false, [], false⟩

def init : BS := ⟨[], true, [], false⟩

/-- `terminate`: flush the held byte, write the last (short) header. -/
def finish (p : Params) (σ : BS) : List UInt8 :=
  σ.done ++ header p σ.first σ.eff.length ++ σ.eff

/-- `current_chunk_size + maybe_mid_stuff < max_chunk_size` (holds between calls). -/
def Inv (p : Params) (σ : BS) : Prop := σ.eff.length < σ.M p

/-- The open chunk is stuff-free and, unless an `FE` is held, what was written does not end
in `FE` (an `FE` is only ever written together with the byte that follows it). -/
def Inv2 (σ : BS) : Prop := findStuff σ.body = none ∧ (σ.mid = false → σ.body.getLast? ≠ some FE)

theorem eff_length (σ : BS) : σ.eff.length = σ.body.length + (if σ.mid then 1 else 0) := by
  unfold eff; split <;> simp

theorem ext_eff {σ τ : BS} (h1 : σ.done = τ.done) (h2 : σ.first = τ.first) (h3 : σ.eff = τ.eff)
    (h4 : σ.mid = τ.mid) : σ = τ := by
  obtain ⟨d, f, b, m⟩ := σ
  obtain ⟨d', f', b', m'⟩ := τ
  simp only [eff] at *
  subst h1 h2 h4
  have : b = b' := List.append_cancel_right h3
  subst this
  rfl

end BS

/-- One input byte. -/
def byteStep (p : Params) (σ : BS) (b : UInt8) : BS :=
  if σ.mid ∧ b = FD then σ.close p
  else if σ.eff.length + 1 = σ.M p then (⟨σ.done, σ.first, σ.eff ++ [b], false⟩ : BS).close p
  else if b = FE then ⟨σ.done, σ.first, σ.eff, true⟩
  else ⟨σ.done, σ.first, σ.eff ++ [b], false⟩

/-! ### invariants -/

theorem eff_noStuff {σ : BS} (h : σ.Inv2) : findStuff σ.eff = none := by
  unfold BS.eff
  split
  · rw [findStuff_append_none]
    refine ⟨h.1, by simp, ?_⟩
    intro hh
    have := hh.2
    simp only [List.head?_cons, Option.some.injEq] at this
    exact FE_ne_FD this
  · simpa using h.1

theorem eff_snoc_noStuff {σ : BS} {b : UInt8} (h : σ.Inv2) (hb : ¬ (σ.mid ∧ b = FD)) :
    findStuff (σ.eff ++ [b]) = none := by
  rw [findStuff_append_none]
  refine ⟨eff_noStuff h, by simp, ?_⟩
  rintro ⟨h1, h2⟩
  simp only [List.head?_cons, Option.some.injEq] at h2
  cases hm : σ.mid with
  | true => exact hb ⟨hm, h2⟩
  | false =>
    simp only [BS.eff, hm, Bool.false_eq_true, if_false, List.append_nil] at h1
    exact h.2 hm h1

theorem byteStep_inv (p : Params) (hp : p.Valid) (σ : BS) (b : UInt8) (h1 : σ.Inv p) (h2 : σ.Inv2) :
    (byteStep p σ b).Inv p ∧ (byteStep p σ b).Inv2 := by
  have hsub : 0 < p.maxSub := hp.2.2.1
  unfold byteStep
  split
  · exact ⟨by simp [BS.Inv, BS.close, BS.eff, BS.M, limit, hsub], by simp [BS.Inv2, BS.close]⟩
  · rename_i hb
    split
    · exact ⟨by simp [BS.Inv, BS.close, BS.eff, BS.M, limit, hsub], by simp [BS.Inv2, BS.close]⟩
    · rename_i hfull
      have hlt : σ.eff.length + 1 < σ.M p := by unfold BS.Inv at h1; omega
      split
      · rename_i hfe
        refine ⟨?_, ?_⟩
        · have he : (⟨σ.done, σ.first, σ.eff, true⟩ : BS).eff = σ.eff ++ [FE] := rfl
          unfold BS.Inv; rw [he]
          simpa [BS.M] using hlt
        · exact ⟨eff_noStuff h2, by simp⟩
      · rename_i hfe
        refine ⟨?_, ?_⟩
        · have he : (⟨σ.done, σ.first, σ.eff ++ [b], false⟩ : BS).eff = σ.eff ++ [b] := by simp [BS.eff]
          unfold BS.Inv; rw [he]
          simpa [BS.M] using hlt
        · refine ⟨eff_snoc_noStuff h2 hb, fun _ => ?_⟩
          simp only [List.getLast?_append, List.getLast?_singleton, Option.some_or, ne_eq, Option.some.injEq]
          exact hfe

theorem init_inv (p : Params) (hp : p.Valid) : BS.init.Inv p ∧ BS.init.Inv2 := by
  have : 0 < p.maxInit := hp.1
  exact ⟨by simp [BS.Inv, BS.init, BS.eff, BS.M, limit, this], by simp [BS.Inv2, BS.init]⟩

theorem fold_inv (p : Params) (hp : p.Valid) (l : List UInt8) (σ : BS) (h1 : σ.Inv p) (h2 : σ.Inv2) :
    (l.foldl (byteStep p) σ).Inv p ∧ (l.foldl (byteStep p) σ).Inv2 := by
  induction l generalizing σ with
  | nil => exact ⟨h1, h2⟩
  | cons b t ih =>
    obtain ⟨h1', h2'⟩ := byteStep_inv p hp σ b h1 h2
    exact ih _ h1' h2'

/-! ### bridge 2: finishing a byte fold = the batch encoder -/

theorem fold_finish (p : Params) (hp : p.Valid) (t : List UInt8) (σ : BS) (fuel : Nat)
    (h1 : σ.Inv p) (h2 : σ.Inv2) (hf : (σ.eff ++ t).length < fuel) :
    BS.finish p (t.foldl (byteStep p) σ) = σ.done ++ encLoop p fuel σ.first (σ.eff ++ t) := by
  induction t generalizing σ fuel with
  | nil =>
    obtain ⟨f, rfl⟩ : ∃ f, fuel = f + 1 := ⟨fuel - 1, by omega⟩
    simp only [List.foldl_nil, List.append_nil, BS.finish]
    have hl : σ.eff.length < limit p σ.first := h1
    rw [encLoop_last (findStuff_take_none_of_none _ (eff_noStuff h2)) hl, List.append_assoc]
  | cons b t ih =>
    obtain ⟨f, rfl⟩ : ∃ f, fuel = f + 1 := ⟨fuel - 1, by omega⟩
    obtain ⟨hi1, hi2⟩ := byteStep_inv p hp σ b h1 h2
    have hlen : (σ.eff ++ b :: t).length = σ.eff.length + t.length + 1 := by simp; omega
    simp only [List.foldl_cons]
    by_cases hA : σ.mid ∧ b = FD
    · -- the held FE and this FD close the chunk
      obtain ⟨hm, rfl⟩ := hA
      have hstep : byteStep p σ FD = σ.close p := by simp [byteStep, hm]
      rw [hstep] at hi1 hi2 ⊢
      have heff : σ.eff = σ.body ++ [FE] := by simp [BS.eff, hm]
      have hd : σ.eff ++ FD :: t = σ.body ++ FE :: FD :: t := by simp [heff]
      have hM : σ.body.length + 2 ≤ limit p σ.first := by
        have : σ.eff.length < limit p σ.first := h1
        rw [heff] at this; simp at this; omega
      rw [ih (σ.close p) f hi1 hi2 (by simp [BS.close, BS.eff]; omega)]
      rw [hd, encLoop_stuff (i := σ.body.length)
        (findStuff_take.2 ⟨findStuff_append_stuff t h2.1, hM⟩)]
      simp [BS.close, BS.eff, List.append_assoc]
    · by_cases hB : σ.eff.length + 1 = σ.M p
      · -- mandatory end of chunk
        have hstep : byteStep p σ b = (⟨σ.done, σ.first, σ.eff ++ [b], false⟩ : BS).close p := by
          simp only [byteStep, if_neg hA, if_pos hB]
        rw [hstep] at hi1 hi2 ⊢
        have hB' : σ.eff.length + 1 = limit p σ.first := hB
        have htake : (σ.eff ++ b :: t).take (limit p σ.first) = σ.eff ++ [b] := by
          have : σ.eff ++ b :: t = (σ.eff ++ [b]) ++ t := by simp
          rw [this, List.take_left' (by simp; omega)]
        have hdrop : (σ.eff ++ b :: t).drop (limit p σ.first) = t := by
          have : σ.eff ++ b :: t = (σ.eff ++ [b]) ++ t := by simp
          rw [this, List.drop_left' (by simp; omega)]
        rw [ih _ f hi1 hi2 (by simp [BS.close, BS.eff]; omega)]
        rw [encLoop_full (by rw [htake]; exact eff_snoc_noStuff h2 hA) (by rw [hlen]; omega), htake, hdrop]
        simp [BS.close, BS.eff, List.append_assoc, hB'.symm, Nat.add_assoc]
      · -- the byte joins the open chunk (written, or held if it is FE)
        have key : (byteStep p σ b).done = σ.done ∧ (byteStep p σ b).first = σ.first ∧
            (byteStep p σ b).eff = σ.eff ++ [b] := by
          simp only [byteStep, if_neg hA, if_neg hB]
          split
          · rename_i hfe; subst hfe; simp [BS.eff]
          · simp [BS.eff]
        obtain ⟨k1, k2, k3⟩ := key
        rw [ih _ (f + 1) hi1 hi2 (by rw [k3]; simp; omega), k1, k2, k3]
        simp

/-- Bridge 2. -/
theorem fold_finish_encode (p : Params) (hp : p.Valid) (d : List UInt8) :
    BS.finish p (d.foldl (byteStep p) BS.init) = encode p d := by
  obtain ⟨h1, h2⟩ := init_inv p hp
  have := fold_finish p hp d BS.init (d.length + 1) h1 h2 (by simp [BS.init, BS.eff])
  simpa [BS.init, BS.eff, encode] using this

end Woodpile.Hcobs.EncProof

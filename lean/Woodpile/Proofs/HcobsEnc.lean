/-
Encoder refinement: the incremental encoder state machine of
`Woodpile.Model.Hcobs` (`Enc.consumeOnce/feed/finish/runPieces/output`)
computes the batch `Spec.encode`, for every segmentation of the input and every
method per piece (DESIGN.md appendix A.1).

Three equal semantics, two bridges:

* `Enc.feed` (the `while !input.is_empty() { consume_once }` loop) over a piece
  = `List.foldl byteStep` over its bytes, on an abstract state `BS` that the
  pipe + `EncState` represent (`Rel`)                                [bridge 1]
  - `consumeOnce_sim`: plumbing — the emitted pipe ops implement `onceA`
  - `onceA_eq_fold`: list reasoning — `onceA` = folding `byteStep` over the
    bytes it consumes
* pieces compose by `List.foldl_append` (split / method independence)
* `BS.finish (d.foldl byteStep init) = Spec.encode p d`               [bridge 2]

Core Lean only.
-/
import Woodpile.Model.Hcobs
import Woodpile.Proofs.PipeLemmas
import Woodpile.Proofs.HcobsSpec

namespace Woodpile.Hcobs.EncProof
open Woodpile.Pipe Woodpile.Hcobs Woodpile.Hcobs.Spec

/-! ### the byte-at-a-time machine -/

/-- Abstract encoder state: bytes of the closed chunks (headers filled in), whether the open
chunk is the first one, the bytes already written into the open chunk, and whether an `FE` is
held back. -/
structure BS where
  done : List UInt8
  first : Bool
  body : List UInt8
  mid : Bool
  deriving Repr, DecidableEq

namespace BS

/-- What the open chunk logically contains: written bytes plus the held `FE`. -/
def eff (σ : BS) : List UInt8 := σ.body ++ (if σ.mid then [FE] else [])

def M (p : Params) (σ : BS) : Nat := limit p σ.first

/-- Close the open chunk with its current body and open a subsequent one. -/
def close (p : Params) (σ : BS) : BS :=
  ⟨σ.done ++ header p σ.first σ.body.length ++ σ.body, false, [], false⟩

def init : BS := ⟨[], true, [], false⟩

/-- `terminate`: flush the held byte, write the last (short) header. -/
def finish (p : Params) (σ : BS) : List UInt8 :=
  σ.done ++ header p σ.first σ.eff.length ++ σ.eff

/-- `current_chunk_size + maybe_mid_stuff < max_chunk_size` (holds between calls). -/
def Inv (p : Params) (σ : BS) : Prop := σ.eff.length < σ.M p

/-- The open chunk is stuff-free and, unless an `FE` is held, what was written does not end
in `FE` (an `FE` is only ever written together with the byte that follows it). -/
def Inv2 (σ : BS) : Prop := findStuff σ.body = none ∧ (σ.mid = false → σ.body.getLast? ≠ some FE)

theorem eff_length (σ : BS) : σ.eff.length = σ.body.length + (if σ.mid then 1 else 0) := by
  unfold eff; split <;> simp

theorem ext_eff {σ τ : BS} (h1 : σ.done = τ.done) (h2 : σ.first = τ.first) (h3 : σ.eff = τ.eff)
    (h4 : σ.mid = τ.mid) : σ = τ := by
  obtain ⟨d, f, b, m⟩ := σ
  obtain ⟨d', f', b', m'⟩ := τ
  simp only [eff] at *
  subst h1 h2 h4
  have : b = b' := List.append_cancel_right h3
  subst this
  rfl

end BS

/-- One input byte. -/
def byteStep (p : Params) (σ : BS) (b : UInt8) : BS :=
  if σ.mid ∧ b = FD then σ.close p
  else if σ.eff.length + 1 = σ.M p then (⟨σ.done, σ.first, σ.eff ++ [b], false⟩ : BS).close p
  else if b = FE then ⟨σ.done, σ.first, σ.eff, true⟩
  else ⟨σ.done, σ.first, σ.eff ++ [b], false⟩

/-! ### invariants -/

theorem eff_noStuff {σ : BS} (h : σ.Inv2) : findStuff σ.eff = none := by
  unfold BS.eff
  split
  · rw [findStuff_append_none]
    refine ⟨h.1, by simp, ?_⟩
    intro hh
    have := hh.2
    simp only [List.head?_cons, Option.some.injEq] at this
    exact FE_ne_FD this
  · simpa using h.1

theorem eff_snoc_noStuff {σ : BS} {b : UInt8} (h : σ.Inv2) (hb : ¬ (σ.mid ∧ b = FD)) :
    findStuff (σ.eff ++ [b]) = none := by
  rw [findStuff_append_none]
  refine ⟨eff_noStuff h, by simp, ?_⟩
  rintro ⟨h1, h2⟩
  simp only [List.head?_cons, Option.some.injEq] at h2
  cases hm : σ.mid with
  | true => exact hb ⟨hm, h2⟩
  | false =>
    simp only [BS.eff, hm, Bool.false_eq_true, if_false, List.append_nil] at h1
    exact h.2 hm h1

theorem byteStep_inv (p : Params) (hp : p.Valid) (σ : BS) (b : UInt8) (h1 : σ.Inv p) (h2 : σ.Inv2) :
    (byteStep p σ b).Inv p ∧ (byteStep p σ b).Inv2 := by
  have hsub : 0 < p.maxSub := hp.2.2.1
  unfold byteStep
  split
  · exact ⟨by simp [BS.Inv, BS.close, BS.eff, BS.M, limit, hsub], by simp [BS.Inv2, BS.close]⟩
  · rename_i hb
    split
    · exact ⟨by simp [BS.Inv, BS.close, BS.eff, BS.M, limit, hsub], by simp [BS.Inv2, BS.close]⟩
    · rename_i hfull
      have hlt : σ.eff.length + 1 < σ.M p := by unfold BS.Inv at h1; omega
      split
      · rename_i hfe
        refine ⟨?_, ?_⟩
        · have he : (⟨σ.done, σ.first, σ.eff, true⟩ : BS).eff = σ.eff ++ [FE] := rfl
          unfold BS.Inv; rw [he]
          simpa [BS.M] using hlt
        · exact ⟨eff_noStuff h2, by simp⟩
      · rename_i hfe
        refine ⟨?_, ?_⟩
        · have he : (⟨σ.done, σ.first, σ.eff ++ [b], false⟩ : BS).eff = σ.eff ++ [b] := by simp [BS.eff]
          unfold BS.Inv; rw [he]
          simpa [BS.M] using hlt
        · refine ⟨eff_snoc_noStuff h2 hb, fun _ => ?_⟩
          simp only [List.getLast?_append, List.getLast?_singleton, Option.some_or, ne_eq, Option.some.injEq]
          exact hfe

theorem init_inv (p : Params) (hp : p.Valid) : BS.init.Inv p ∧ BS.init.Inv2 := by
  have : 0 < p.maxInit := hp.1
  exact ⟨by simp [BS.Inv, BS.init, BS.eff, BS.M, limit, this], by simp [BS.Inv2, BS.init]⟩

theorem fold_inv (p : Params) (hp : p.Valid) (l : List UInt8) (σ : BS) (h1 : σ.Inv p) (h2 : σ.Inv2) :
    (l.foldl (byteStep p) σ).Inv p ∧ (l.foldl (byteStep p) σ).Inv2 := by
  induction l generalizing σ with
  | nil => exact ⟨h1, h2⟩
  | cons b t ih =>
    obtain ⟨h1', h2'⟩ := byteStep_inv p hp σ b h1 h2
    exact ih _ h1' h2'

/-! ### bridge 2: finishing a byte fold = the batch encoder -/

theorem fold_finish (p : Params) (hp : p.Valid) (t : List UInt8) (σ : BS) (fuel : Nat)
    (h1 : σ.Inv p) (h2 : σ.Inv2) (hf : (σ.eff ++ t).length < fuel) :
    BS.finish p (t.foldl (byteStep p) σ) = σ.done ++ encLoop p fuel σ.first (σ.eff ++ t) := by
  induction t generalizing σ fuel with
  | nil =>
    obtain ⟨f, rfl⟩ : ∃ f, fuel = f + 1 := ⟨fuel - 1, by omega⟩
    simp only [List.foldl_nil, List.append_nil, BS.finish]
    have hl : σ.eff.length < limit p σ.first := h1
    rw [encLoop_last (findStuff_take_none_of_none _ (eff_noStuff h2)) hl, List.append_assoc]
  | cons b t ih =>
    obtain ⟨f, rfl⟩ : ∃ f, fuel = f + 1 := ⟨fuel - 1, by omega⟩
    obtain ⟨hi1, hi2⟩ := byteStep_inv p hp σ b h1 h2
    have hlen : (σ.eff ++ b :: t).length = σ.eff.length + t.length + 1 := by simp; omega
    simp only [List.foldl_cons]
    by_cases hA : σ.mid ∧ b = FD
    · -- the held FE and this FD close the chunk
      obtain ⟨hm, rfl⟩ := hA
      have hstep : byteStep p σ FD = σ.close p := by simp [byteStep, hm]
      rw [hstep] at hi1 hi2 ⊢
      have heff : σ.eff = σ.body ++ [FE] := by simp [BS.eff, hm]
      have hd : σ.eff ++ FD :: t = σ.body ++ FE :: FD :: t := by simp [heff]
      have hM : σ.body.length + 2 ≤ limit p σ.first := by
        have : σ.eff.length < limit p σ.first := h1
        rw [heff] at this; simp at this; omega
      rw [ih (σ.close p) f hi1 hi2 (by simp [BS.close, BS.eff]; omega)]
      rw [hd, encLoop_stuff (i := σ.body.length)
        (findStuff_take.2 ⟨findStuff_append_stuff t h2.1, hM⟩)]
      simp [BS.close, BS.eff, List.append_assoc]
    · by_cases hB : σ.eff.length + 1 = σ.M p
      · -- mandatory end of chunk
        have hstep : byteStep p σ b = (⟨σ.done, σ.first, σ.eff ++ [b], false⟩ : BS).close p := by
          simp only [byteStep, if_neg hA, if_pos hB]
        rw [hstep] at hi1 hi2 ⊢
        have hB' : σ.eff.length + 1 = limit p σ.first := hB
        have htake : (σ.eff ++ b :: t).take (limit p σ.first) = σ.eff ++ [b] := by
          have : σ.eff ++ b :: t = (σ.eff ++ [b]) ++ t := by simp
          rw [this, List.take_left' (by simp; omega)]
        have hdrop : (σ.eff ++ b :: t).drop (limit p σ.first) = t := by
          have : σ.eff ++ b :: t = (σ.eff ++ [b]) ++ t := by simp
          rw [this, List.drop_left' (by simp; omega)]
        rw [ih _ f hi1 hi2 (by simp [BS.close, BS.eff]; omega)]
        rw [encLoop_full (by rw [htake]; exact eff_snoc_noStuff h2 hA) (by rw [hlen]; omega), htake, hdrop]
        simp [BS.close, BS.eff, List.append_assoc, hB'.symm, Nat.add_assoc]
      · -- the byte joins the open chunk (written, or held if it is FE)
        have key : (byteStep p σ b).done = σ.done ∧ (byteStep p σ b).first = σ.first ∧
            (byteStep p σ b).eff = σ.eff ++ [b] := by
          simp only [byteStep, if_neg hA, if_neg hB]
          split
          · rename_i hfe; subst hfe; simp [BS.eff]
          · simp [BS.eff]
        obtain ⟨k1, k2, k3⟩ := key
        rw [ih _ (f + 1) hi1 hi2 (by rw [k3]; simp; omega), k1, k2, k3]
        simp

/-- Bridge 2. -/
theorem fold_finish_encode (p : Params) (hp : p.Valid) (d : List UInt8) :
    BS.finish p (d.foldl (byteStep p) BS.init) = encode p d := by
  obtain ⟨h1, h2⟩ := init_inv p hp
  have := fold_finish p hp d BS.init (d.length + 1) h1 h2 (by simp [BS.init, BS.eff])
  simpa [BS.init, BS.eff, encode] using this

/-! ### bridge 1, list half: one `consume_once` = a fold of `byteStep` over what it consumes -/

/-- A byte that neither completes a stuff sequence nor fills the chunk joins the open chunk. -/
theorem byteStep_join (p : Params) (σ : BS) (b : UInt8) (hA : ¬ (σ.mid ∧ b = FD))
    (hB : σ.eff.length + 1 ≠ σ.M p) :
    (byteStep p σ b).done = σ.done ∧ (byteStep p σ b).first = σ.first ∧
      (byteStep p σ b).eff = σ.eff ++ [b] ∧ (byteStep p σ b).mid = decide (b = FE) := by
  simp only [byteStep, if_neg hA, if_neg hB]
  split
  · rename_i hfe; subst hfe; simp [BS.eff]
  · rename_i hfe; simp [BS.eff, hfe]

/-- Folding over a stuff-free run that stays below the chunk limit: everything joins the open
chunk, and an `FE` is held exactly when the run ends in `FE`. -/
theorem fold_run (p : Params) (l : List UInt8) (σ : BS) (h0 : ¬ (σ.mid ∧ l.head? = some FD))
    (hs : findStuff l = none) (hl : σ.eff.length + l.length < σ.M p) :
    (l.foldl (byteStep p) σ).done = σ.done ∧ (l.foldl (byteStep p) σ).first = σ.first ∧
      (l.foldl (byteStep p) σ).eff = σ.eff ++ l ∧
      (l ≠ [] → (l.foldl (byteStep p) σ).mid = decide (l.getLast? = some FE)) := by
  induction l generalizing σ with
  | nil => simp
  | cons b t ih =>
    have hA : ¬ (σ.mid ∧ b = FD) := by simpa using h0
    have hB : σ.eff.length + 1 ≠ σ.M p := by simp only [List.length_cons] at hl; omega
    obtain ⟨j1, j2, j3, j4⟩ := byteStep_join p σ b hA hB
    obtain ⟨hs1, hs2⟩ := findStuff_cons_none.1 hs
    have h0' : ¬ ((byteStep p σ b).mid ∧ t.head? = some FD) := by
      rw [j4]; intro ⟨hb, ht⟩; exact hs2 ⟨by simpa using hb, ht⟩
    have hl' : (byteStep p σ b).eff.length + t.length < (byteStep p σ b).M p := by
      simp only [BS.M, j2, j3, List.length_append, List.length_cons, List.length_nil] at hl ⊢
      omega
    obtain ⟨i1, i2, i3, i4⟩ := ih (byteStep p σ b) h0' hs1 hl'
    simp only [List.foldl_cons]
    refine ⟨i1.trans j1, i2.trans j2, by rw [i3, j3]; simp, fun _ => ?_⟩
    cases t with
    | nil => simp [j4]
    | cons c t' => rw [i4 (by simp), List.getLast?_cons_cons]

/-- `consume_once` on abstract states (same arms as `Enc.consumeOnce`). -/
def onceA (p : Params) (σ : BS) (input : List UInt8) : BS × Nat :=
  if σ.mid ∧ input.head? = some FD then (σ.close p, 1)
  else
    let remaining := σ.M p - σ.eff.length
    let w := input.take remaining
    match findStuff w with
    | some i => ((⟨σ.done, σ.first, σ.eff ++ w.take i, false⟩ : BS).close p, i + 2)
    | none =>
      if w.length = remaining then ((⟨σ.done, σ.first, σ.eff ++ w, false⟩ : BS).close p, remaining)
      else
        (⟨σ.done, σ.first, σ.eff ++ w.take (if w.getLast? = some FE then w.length - 1 else w.length),
          decide (w.getLast? = some FE)⟩, w.length)

section
variable (p : Params) (σ : BS) (input : List UInt8)

theorem onceA_mid (hA : σ.mid ∧ input.head? = some FD) : onceA p σ input = (σ.close p, 1) := by
  simp only [onceA, if_pos hA]

theorem onceA_stuff (hA : ¬ (σ.mid ∧ input.head? = some FD)) {i : Nat}
    (h : findStuff (input.take (σ.M p - σ.eff.length)) = some i) :
    onceA p σ input =
      ((⟨σ.done, σ.first, σ.eff ++ (input.take (σ.M p - σ.eff.length)).take i, false⟩ : BS).close p, i + 2) := by
  simp only [onceA, if_neg hA, h]

theorem onceA_full (hA : ¬ (σ.mid ∧ input.head? = some FD))
    (h : findStuff (input.take (σ.M p - σ.eff.length)) = none)
    (hl : (input.take (σ.M p - σ.eff.length)).length = σ.M p - σ.eff.length) :
    onceA p σ input =
      ((⟨σ.done, σ.first, σ.eff ++ input.take (σ.M p - σ.eff.length), false⟩ : BS).close p,
        σ.M p - σ.eff.length) := by
  simp only [onceA, if_neg hA, h, if_pos hl]

theorem onceA_part (hA : ¬ (σ.mid ∧ input.head? = some FD))
    (h : findStuff (input.take (σ.M p - σ.eff.length)) = none)
    (hl : (input.take (σ.M p - σ.eff.length)).length ≠ σ.M p - σ.eff.length) :
    onceA p σ input =
      (⟨σ.done, σ.first,
        σ.eff ++ (input.take (σ.M p - σ.eff.length)).take
          (if (input.take (σ.M p - σ.eff.length)).getLast? = some FE
           then (input.take (σ.M p - σ.eff.length)).length - 1
           else (input.take (σ.M p - σ.eff.length)).length),
        decide ((input.take (σ.M p - σ.eff.length)).getLast? = some FE)⟩,
        (input.take (σ.M p - σ.eff.length)).length) := by
  simp only [onceA, if_neg hA, h, if_neg hl]

end

theorem close_congr (p : Params) {σ τ : BS} (h1 : σ.done = τ.done) (h2 : σ.first = τ.first)
    (h3 : σ.body = τ.body) : σ.close p = τ.close p := by
  simp [BS.close, h1, h2, h3]

theorem take_pred_of_getLast {w : List UInt8} {x : UInt8} (h : w.getLast? = some x) :
    w.take (w.length - 1) ++ [x] = w := by
  rcases List.eq_nil_or_concat w with hn | ⟨l', b, hb⟩
  · subst hn; simp at h
  · subst hb
    simp only [List.concat_eq_append, List.getLast?_concat, Option.some.injEq] at h
    subst h
    simp

theorem onceA_eq_fold (p : Params) (σ : BS) (input : List UInt8) (hne : input ≠ []) (hinv : σ.Inv p) :
    0 < (onceA p σ input).2 ∧ (onceA p σ input).2 ≤ input.length ∧
      (onceA p σ input).1 = (input.take (onceA p σ input).2).foldl (byteStep p) σ := by
  have hlen0 : 0 < input.length := List.length_pos_iff.2 hne
  by_cases hA : σ.mid ∧ input.head? = some FD
  · rw [onceA_mid p σ input hA]
    refine ⟨by simp, hlen0, ?_⟩
    cases input with
    | nil => exact absurd rfl hne
    | cons b t =>
      have hb : b = FD := by simpa using hA.2
      subst hb
      simp [byteStep, hA.1]
  · have hrem : 0 < σ.M p - σ.eff.length := by unfold BS.Inv at hinv; omega
    obtain ⟨w, hwg⟩ : ∃ w, input.take (σ.M p - σ.eff.length) = w := ⟨_, rfl⟩
    have hw := hwg
    have hwlen : w.length = min (σ.M p - σ.eff.length) input.length := by rw [← hw, List.length_take]
    have hwhead : w.head? = input.head? := by
      rw [← hw, List.head?_take, if_neg (by omega)]
    cases hfs : findStuff w with
    | some i =>
      rw [onceA_stuff p σ input hA (by rw [hwg]; exact hfs), hwg]
      obtain ⟨pre, post, hwe, hpl, hpre⟩ := findStuff_eq_some_iff.1 hfs
      have hwl : w.length = i + 2 + post.length := by rw [hwe]; simp; omega
      have htakei : w.take i = pre := by rw [hwe, List.take_left' hpl]
      have htake2 : input.take (i + 2) = (pre ++ [FE]) ++ [FD] := by
        have h1 : input.take (i + 2) = w.take (i + 2) := by
          rw [← hw, List.take_take]; congr 1; omega
        have h2 : w = ((pre ++ [FE]) ++ [FD]) ++ post := by rw [hwe]; simp
        rw [h1, h2, List.take_left' (by simp; omega)]
      refine ⟨by omega, by omega, ?_⟩
      rw [htake2, List.foldl_append, htakei]
      have h0 : ¬ (σ.mid ∧ (pre ++ [FE]).head? = some FD) := by
        intro ⟨hm, hh⟩
        apply hA; refine ⟨hm, ?_⟩
        rw [← hwhead, hwe]
        cases pre with
        | nil => simp at hh; exact absurd hh FE_ne_FD
        | cons x pre' => simpa using hh
      have hs : findStuff (pre ++ [FE]) = none := by
        rw [findStuff_append_none]; refine ⟨hpre, by simp, ?_⟩
        intro ⟨_, hh⟩; simp at hh; exact FE_ne_FD hh
      have hl : σ.eff.length + (pre ++ [FE]).length < σ.M p := by simp; omega
      obtain ⟨r1, r2, r3, r4⟩ := fold_run p (pre ++ [FE]) σ h0 hs hl
      have hmid : (List.foldl (byteStep p) σ (pre ++ [FE])).mid = true := by
        rw [r4 (by simp)]; simp
      have hbody : (List.foldl (byteStep p) σ (pre ++ [FE])).body = σ.eff ++ pre := by
        have := r3
        simp only [BS.eff, hmid, if_true] at this
        rw [← List.append_assoc] at this
        exact List.append_cancel_right this
      simp only [List.foldl_cons, List.foldl_nil]
      have hstep : byteStep p (List.foldl (byteStep p) σ (pre ++ [FE])) FD
          = (List.foldl (byteStep p) σ (pre ++ [FE])).close p := by
        simp only [byteStep, hmid, true_and, if_true]
      rw [hstep]
      exact close_congr p r1.symm r2.symm hbody.symm
    | none =>
      by_cases hfull : w.length = σ.M p - σ.eff.length
      · rw [onceA_full p σ input hA (by rw [hwg]; exact hfs) (by rw [hwg]; exact hfull), hwg]
        have hwne : w ≠ [] := by intro h; rw [h] at hfull; simp at hfull; omega
        rcases List.eq_nil_or_concat w with hn | ⟨w', b, hb⟩
        · exact absurd hn hwne
        · rw [List.concat_eq_append] at hb
          have hw'len : w'.length + 1 = σ.M p - σ.eff.length := by rw [← hfull, hb]; simp
          refine ⟨hrem, by omega, ?_⟩
          rw [hb, findStuff_append_none] at hfs
          simp only [hb, List.foldl_append]
          obtain ⟨hs1, _, hs3⟩ := hfs
          have h0 : ¬ (σ.mid ∧ w'.head? = some FD) := by
            intro ⟨hm, hh⟩
            apply hA; refine ⟨hm, ?_⟩
            rw [← hwhead, hb]
            cases w' with
            | nil => simp at hh
            | cons x t => simpa using hh
          obtain ⟨r1, r2, r3, r4⟩ := fold_run p w' σ h0 hs1 (by omega)
          have hA' : ¬ ((List.foldl (byteStep p) σ w').mid ∧ b = FD) := by
            intro ⟨hm, hbd⟩
            cases w' with
            | nil =>
              apply hA
              simp only [List.foldl_nil] at hm
              refine ⟨hm, ?_⟩
              rw [← hwhead, hb]; simp [hbd]
            | cons x t =>
              rw [r4 (by simp)] at hm
              exact hs3 ⟨by simpa using hm, by simp [hbd]⟩
          have hB' : (List.foldl (byteStep p) σ w').eff.length + 1 = (List.foldl (byteStep p) σ w').M p := by
            rw [r3]; simp only [BS.M, r2, List.length_append]; simp only [BS.M] at hw'len hrem; omega
          simp only [List.foldl_cons, List.foldl_nil, byteStep, if_neg hA', if_pos hB']
          exact close_congr p r1.symm r2.symm (by simp [r3])
      · rw [onceA_part p σ input hA (by rw [hwg]; exact hfs) (by rw [hwg]; exact hfull), hwg]
        have hwin : w = input := by
          rw [← hw]; apply List.take_of_length_le; omega
        have hwl : w.length = input.length := by rw [hwin]
        refine ⟨by omega, by omega, ?_⟩
        have htk : input.take w.length = w := by rw [hwin]; simp
        simp only [htk]
        have h0 : ¬ (σ.mid ∧ w.head? = some FD) := by rw [hwhead]; exact hA
        obtain ⟨r1, r2, r3, r4⟩ := fold_run p w σ h0 hfs (by omega)
        have hwne : w ≠ [] := by rw [hwin]; exact hne
        apply BS.ext_eff
        · exact r1.symm
        · exact r2.symm
        · rw [r3]
          by_cases hlast : w.getLast? = some FE
          · simp only [BS.eff, hlast, if_true, decide_true, List.append_assoc]
            rw [take_pred_of_getLast hlast]
          · simp [BS.eff, hlast]
        · exact (r4 hwne).symm

/-! ### bridge 1, plumbing half: the emitted pipe ops implement `onceA` -/

/-- `write_partial_stuff_sequence` if a byte is held. -/
def flushS (s : EncState) : EncState := if s.mid then { s with cur := s.cur + 1, mid := false } else s
def flushE (s : EncState) : List Emit := if s.mid then [⟨.append [FE], .copy⟩] else []
/-- `writer(prefix)`: `write`/`copy` return early on an empty payload. -/
def writeE (m : Method) (n : Nat) (bs : List UInt8) : List Emit := if n = 0 then [] else [⟨.append bs, m⟩]
/-- `encode_header` then `new_subsequent`. -/
def closeE (p : Params) (s : EncState) : List Emit := [Enc.closeHeader p s, ⟨.register 2, .copy⟩]
def subState (p : Params) (nid : Nat) : EncState := ⟨p.maxSub, 0, false, nid, 2⟩

section
variable (p : Params) (s : EncState) (nid : Nat) (m : Method) (input : List UInt8)

theorem consumeOnce_mid (hA : s.mid ∧ input.head? = some FD) :
    Enc.consumeOnce p s nid m input = ⟨subState p nid, 1, closeE p s, nid + 1⟩ := by
  simp [Enc.consumeOnce, hA, Enc.newSubsequent, subState, closeE]

theorem consumeOnce_stuff (hA : ¬ (s.mid ∧ input.head? = some FD)) {i : Nat}
    (h : findStuff (input.take ((flushS s).maxChunk - (flushS s).cur)) = some i) :
    Enc.consumeOnce p s nid m input =
      ⟨subState p nid, i + 2,
        flushE s ++ writeE m i ((input.take ((flushS s).maxChunk - (flushS s).cur)).take i) ++
          closeE p { flushS s with cur := (flushS s).cur + i }, nid + 1⟩ := by
  cases hm : s.mid <;>
    simp [Enc.consumeOnce, hm, flushS, flushE, writeE, closeE, subState, Enc.newSubsequent] at hA h ⊢ <;>
    simp [h, hA]

theorem consumeOnce_full (hA : ¬ (s.mid ∧ input.head? = some FD))
    (h : findStuff (input.take ((flushS s).maxChunk - (flushS s).cur)) = none)
    (hl : (input.take ((flushS s).maxChunk - (flushS s).cur)).length = (flushS s).maxChunk - (flushS s).cur) :
    Enc.consumeOnce p s nid m input =
      ⟨subState p nid, (flushS s).maxChunk - (flushS s).cur,
        flushE s ++ writeE m ((flushS s).maxChunk - (flushS s).cur)
            (input.take ((flushS s).maxChunk - (flushS s).cur)) ++
          closeE p { flushS s with cur := (flushS s).cur + ((flushS s).maxChunk - (flushS s).cur) }, nid + 1⟩ := by
  cases hm : s.mid <;>
    simp [Enc.consumeOnce, hm, flushS, flushE, writeE, closeE, subState, Enc.newSubsequent] at hA h hl ⊢ <;>
    simp [h, hl, hA]

theorem consumeOnce_part (hA : ¬ (s.mid ∧ input.head? = some FD))
    (h : findStuff (input.take ((flushS s).maxChunk - (flushS s).cur)) = none)
    (hl : (input.take ((flushS s).maxChunk - (flushS s).cur)).length ≠ (flushS s).maxChunk - (flushS s).cur) :
    Enc.consumeOnce p s nid m input =
      (let w := input.take ((flushS s).maxChunk - (flushS s).cur)
       let n := if w.getLast? = some FE then w.length - 1 else w.length
       ⟨{ flushS s with cur := (flushS s).cur + n, mid := decide (w.getLast? = some FE) }, w.length,
        flushE s ++ writeE m n (w.take n), nid⟩) := by
  cases hm : s.mid <;>
    simp [Enc.consumeOnce, hm, flushS, flushE, writeE, Enc.newSubsequent] at hA h hl ⊢ <;>
    simp [h, hl, hA]

end

/-- The pipe of an encoder that has closed `done` and written `body` behind the `k`-byte
placeholder `id` of the open chunk. -/
def pipeOf (done : List UInt8) (k id : Nat) (body : List UInt8) : Pipe :=
  ⟨done.map Cell.byte ++ List.replicate k (Cell.hole id) ++ body.map Cell.byte, [], id + 1⟩

def runE (q : Pipe) (es : List Emit) : Pipe := q.run (es.map Emit.op)

@[simp] theorem runE_nil (q : Pipe) : runE q [] = q := rfl
theorem runE_append (q : Pipe) (a b : List Emit) : runE q (a ++ b) = runE (runE q a) b := by
  simp [runE, run_append]

theorem pipeOf_append (d : List UInt8) (k id : Nat) (b bs : List UInt8) :
    (pipeOf d k id b).apply (.append bs) = pipeOf d k id (b ++ bs) := by
  simp [pipeOf, Pipe.apply, Pipe.append]

theorem pipeOf_close (d : List UInt8) (k id : Nat) (b hdr : List UInt8) (hk : hdr.length = k) :
    ((pipeOf d k id b).apply (.fill id hdr)).apply (.register 2) = pipeOf (d ++ hdr ++ b) 2 (id + 1) [] := by
  simp only [pipeOf, Pipe.apply, Pipe.fill, Pipe.register, fillCells_single id d hdr b k hk]
  simp

theorem runE_flushE (s : EncState) (d : List UInt8) (k id : Nat) (b : List UInt8) :
    runE (pipeOf d k id b) (flushE s) = pipeOf d k id (b ++ (if s.mid then [FE] else [])) := by
  unfold flushE
  split
  · simp [runE, Pipe.run, pipeOf_append]
  · simp

theorem runE_writeE (m : Method) (n : Nat) (bs : List UInt8) (d : List UInt8) (k id : Nat) (b : List UInt8)
    (h : n = 0 → bs = []) : runE (pipeOf d k id b) (writeE m n bs) = pipeOf d k id (b ++ bs) := by
  unfold writeE
  split
  · rename_i h0; simp [h h0]
  · simp [runE, Pipe.run, pipeOf_append]

theorem header_take (p : Params) (first : Bool) (n : Nat) (h : first = true → n < p.radix) :
    (header p false n).take (hdrLen first) = header p first n := by
  cases first with
  | false => simp [header]
  | true => simp [header, Nat.mod_eq_of_lt (h rfl)]

theorem runE_closeE (p : Params) (s : EncState) (d : List UInt8) (first : Bool) (b : List UInt8)
    (hbr : s.brLen = hdrLen first) (hn : first = true → s.cur < p.radix) :
    runE (pipeOf d s.brLen s.backref b) (closeE p s) =
      pipeOf (d ++ header p first s.cur ++ b) 2 (s.backref + 1) [] := by
  simp only [closeE, Enc.closeHeader, runE, List.map_cons, List.map_nil, Pipe.run, List.foldl_cons,
    List.foldl_nil]
  rw [hbr, header_take p first s.cur hn, pipeOf_close _ _ _ _ _ (by simp)]

/-- The concrete encoder state `s` (with `nid` placeholders registered so far) and pipe `q`
represent the abstract state `σ`. -/
structure Rel (p : Params) (s : EncState) (nid : Nat) (q : Pipe) (σ : BS) : Prop where
  max : s.maxChunk = σ.M p
  cur : s.cur = σ.body.length
  mid : s.mid = σ.mid
  brLen : s.brLen = hdrLen σ.first
  nid : nid = s.backref + 1
  pipe : q = pipeOf σ.done s.brLen s.backref σ.body

theorem rel_sub (p : Params) (nid : Nat) (done : List UInt8) :
    Rel p (subState p nid) (nid + 1) (pipeOf done 2 nid []) ⟨done, false, [], false⟩ :=
  ⟨rfl, rfl, rfl, rfl, rfl, rfl⟩

theorem limit_lt_radix (p : Params) (hp : p.Valid) {first : Bool} {n : Nat} (hn : n ≤ limit p first) :
    first = true → n < p.radix := by
  intro hf; subst hf
  have := hp.2.1
  simp only [limit_true] at hn; omega

theorem consumeOnce_sim (p : Params) (hp : p.Valid) (s : EncState) (nid : Nat) (q : Pipe) (σ : BS)
    (m : Method) (input : List UInt8) (hrel : Rel p s nid q σ) (hinv : σ.Inv p) :
    (Enc.consumeOnce p s nid m input).consumed = (onceA p σ input).2 ∧
      Rel p (Enc.consumeOnce p s nid m input).st (Enc.consumeOnce p s nid m input).nextId
        (runE q (Enc.consumeOnce p s nid m input).emits) (onceA p σ input).1 := by
  obtain ⟨hmax, hcur, hmid, hbr, hnid, hq⟩ := hrel
  have hefl : σ.eff.length = (flushS s).cur := by
    rw [BS.eff_length, ← hmid, ← hcur]; unfold flushS; split <;> simp_all
  have hfmax : (flushS s).maxChunk = σ.M p := by rw [← hmax]; unfold flushS; split <;> rfl
  have hfbr : (flushS s).brLen = s.brLen ∧ (flushS s).backref = s.backref := by
    unfold flushS; split <;> exact ⟨rfl, rfl⟩
  have hinv' : σ.eff.length < limit p σ.first := hinv
  have hM : σ.M p = limit p σ.first := rfl
  have hflush : runE q (flushE s) = pipeOf σ.done s.brLen s.backref σ.eff := by
    rw [hq, runE_flushE, hmid]; rfl
  subst hnid
  by_cases hA : σ.mid ∧ input.head? = some FD
  · have hA' : s.mid ∧ input.head? = some FD := by rw [hmid]; exact hA
    rw [consumeOnce_mid p s _ m input hA', onceA_mid p σ input hA]
    refine ⟨rfl, ?_⟩
    simp only
    have hlt : s.cur ≤ limit p σ.first := by
      rw [hcur]; rw [BS.eff_length] at hinv'; omega
    rw [hq, runE_closeE p s σ.done σ.first σ.body hbr (limit_lt_radix p hp hlt), hcur]
    exact rel_sub p _ _
  · have hA' : ¬ (s.mid ∧ input.head? = some FD) := by rw [hmid]; exact hA
    have hremeq : (flushS s).maxChunk - (flushS s).cur = σ.M p - σ.eff.length := by rw [hfmax, hefl]
    cases hfs : findStuff (input.take (σ.M p - σ.eff.length)) with
    | some i =>
      have hi := (findStuff_some hfs).1
      have hwl : (input.take (σ.M p - σ.eff.length)).length ≤ σ.M p - σ.eff.length := by
        rw [List.length_take]; omega
      rw [consumeOnce_stuff p s _ m input hA' (by rw [hremeq]; exact hfs), onceA_stuff p σ input hA hfs, hremeq]
      refine ⟨rfl, ?_⟩
      simp only
      rw [runE_append, runE_append, hflush,
        runE_writeE m i _ _ _ _ _ (by intro h0; subst h0; simp)]
      have hcl := runE_closeE p { flushS s with cur := (flushS s).cur + i } σ.done σ.first
        (σ.eff ++ List.take i (List.take (σ.M p - σ.eff.length) input))
        (by simp only; rw [hfbr.1]; exact hbr)
        (limit_lt_radix p hp (by simp only; rw [← hefl]; omega))
      simp only [hfbr.1, hfbr.2] at hcl ⊢
      rw [hcl]
      have hlen : (flushS s).cur + i = (σ.eff ++ List.take i (List.take (σ.M p - σ.eff.length) input)).length := by
        rw [List.length_append, List.length_take, List.length_take, ← hefl]
        simp only [List.length_take] at hwl hi
        omega
      rw [hlen]
      exact rel_sub p _ _
    | none =>
      by_cases hfull : (input.take (σ.M p - σ.eff.length)).length = σ.M p - σ.eff.length
      · rw [consumeOnce_full p s _ m input hA' (by rw [hremeq]; exact hfs) (by rw [hremeq]; exact hfull),
          onceA_full p σ input hA hfs hfull, hremeq]
        refine ⟨rfl, ?_⟩
        simp only
        rw [runE_append, runE_append, hflush,
          runE_writeE m _ _ _ _ _ _ (by intro h0; rw [h0]; simp)]
        have hcl := runE_closeE p { flushS s with cur := (flushS s).cur + (σ.M p - σ.eff.length) } σ.done σ.first
          (σ.eff ++ List.take (σ.M p - σ.eff.length) input)
          (by simp only; rw [hfbr.1]; exact hbr)
          (limit_lt_radix p hp (by simp only; rw [← hefl]; omega))
        simp only [hfbr.1, hfbr.2] at hcl ⊢
        rw [hcl]
        have hlen : (flushS s).cur + (σ.M p - σ.eff.length)
            = (σ.eff ++ List.take (σ.M p - σ.eff.length) input).length := by
          rw [List.length_append, hfull, ← hefl]
        rw [hlen]
        exact rel_sub p _ _
      · rw [consumeOnce_part p s _ m input hA' (by rw [hremeq]; exact hfs) (by rw [hremeq]; exact hfull),
          onceA_part p σ input hA hfs hfull, hremeq]
        refine ⟨rfl, ?_⟩
        simp only
        rw [runE_append, hflush, runE_writeE m _ _ _ _ _ _ (by intro h0; rw [h0]; simp)]
        refine ⟨by simp only; exact hfmax, ?_, rfl, by simp only; rw [hfbr.1]; exact hbr,
          by simp only; rw [hfbr.2], by simp only; rw [hfbr.1, hfbr.2]⟩
        simp only [List.length_append, ← hefl, List.length_take]
        split <;> omega

/-! ### whole calls and whole runs -/

theorem feed_zero (p : Params) (s : EncState) (nid : Nat) (m : Method) (input : List UInt8) :
    Enc.feed p 0 s nid m input = (s, nid, []) := rfl

theorem feed_nil (p : Params) (fuel : Nat) (s : EncState) (nid : Nat) (m : Method) :
    Enc.feed p fuel s nid m [] = (s, nid, []) := by
  cases fuel <;> simp [Enc.feed]

theorem feed_succ (p : Params) (fuel : Nat) (s : EncState) (nid : Nat) (m : Method) (input : List UInt8)
    (hne : input ≠ []) :
    Enc.feed p (fuel + 1) s nid m input =
      ((Enc.feed p fuel (Enc.consumeOnce p s nid m input).st (Enc.consumeOnce p s nid m input).nextId m
          (input.drop (Enc.consumeOnce p s nid m input).consumed)).1,
       (Enc.feed p fuel (Enc.consumeOnce p s nid m input).st (Enc.consumeOnce p s nid m input).nextId m
          (input.drop (Enc.consumeOnce p s nid m input).consumed)).2.1,
       (Enc.consumeOnce p s nid m input).emits ++
         (Enc.feed p fuel (Enc.consumeOnce p s nid m input).st (Enc.consumeOnce p s nid m input).nextId m
          (input.drop (Enc.consumeOnce p s nid m input).consumed)).2.2) := by
  cases input with
  | nil => exact absurd rfl hne
  | cons b t => simp [Enc.feed]

/-- Bridge 1 for a whole `encode_borrow` / `encode_copy` call. -/
theorem feed_sim (p : Params) (hp : p.Valid) (m : Method) (fuel : Nat) (s : EncState) (nid : Nat) (q : Pipe)
    (σ : BS) (input : List UInt8) (hrel : Rel p s nid q σ) (h1 : σ.Inv p) (h2 : σ.Inv2)
    (hf : input.length ≤ fuel) :
    Rel p (Enc.feed p fuel s nid m input).1 (Enc.feed p fuel s nid m input).2.1
      (runE q (Enc.feed p fuel s nid m input).2.2) (input.foldl (byteStep p) σ) := by
  induction fuel generalizing s nid q σ input with
  | zero =>
    have : input = [] := List.eq_nil_of_length_eq_zero (by omega)
    subst this
    simpa [feed_zero] using hrel
  | succ fuel ih =>
    by_cases hne : input = []
    · subst hne; simpa [feed_nil] using hrel
    · obtain ⟨hc, hrel'⟩ := consumeOnce_sim p hp s nid q σ m input hrel h1
      obtain ⟨hc0, hc1, hfold⟩ := onceA_eq_fold p σ input hne h1
      rw [← hc] at hc0 hc1 hfold
      rw [hfold] at hrel'
      obtain ⟨h1', h2'⟩ := fold_inv p hp (input.take (Enc.consumeOnce p s nid m input).consumed) σ h1 h2
      have := ih _ _ _ _ (input.drop (Enc.consumeOnce p s nid m input).consumed) hrel' h1' h2'
        (by rw [List.length_drop]; omega)
      rw [feed_succ p fuel s nid m input hne]
      simp only
      rw [runE_append]
      rw [← List.foldl_append, List.take_append_drop] at this
      exact this

theorem pipeOf_fill (d : List UInt8) (k id : Nat) (b hdr : List UInt8) (hk : hdr.length = k) :
    (pipeOf d k id b).apply (.fill id hdr) = ⟨(d ++ hdr ++ b).map Cell.byte, [], id + 1⟩ := by
  simp only [pipeOf, Pipe.apply, Pipe.fill, fillCells_single id d hdr b k hk]

theorem finish_eq (p : Params) (s : EncState) :
    Enc.finish p s = flushE s ++ [Enc.closeHeader p (flushS s)] := by
  cases hm : s.mid <;> simp [Enc.finish, flushE, flushS, hm]

/-- `terminate`: the placeholder is filled, nothing is pending, the bytes are `BS.finish`. -/
theorem finish_sim (p : Params) (hp : p.Valid) (s : EncState) (nid : Nat) (q : Pipe) (σ : BS)
    (hrel : Rel p s nid q σ) (h1 : σ.Inv p) :
    runE q (Enc.finish p s) = ⟨(BS.finish p σ).map Cell.byte, [], nid⟩ := by
  obtain ⟨hmax, hcur, hmid, hbr, hnid, hq⟩ := hrel
  have hefl : σ.eff.length = (flushS s).cur := by
    rw [BS.eff_length, ← hmid, ← hcur]; unfold flushS; split <;> simp_all
  have hfbr : (flushS s).brLen = s.brLen ∧ (flushS s).backref = s.backref := by
    unfold flushS; split <;> exact ⟨rfl, rfl⟩
  have hinv' : σ.eff.length < limit p σ.first := h1
  rw [finish_eq, runE_append, hq, runE_flushE, hmid]
  simp only [runE, Enc.closeHeader, List.map_cons, List.map_nil, Pipe.run, List.foldl_cons, List.foldl_nil,
    hfbr.1, hfbr.2]
  rw [hbr, header_take p σ.first _ (limit_lt_radix p hp (by rw [← hefl]; omega)), ← hbr,
    pipeOf_fill _ _ _ _ _ (by simp [hbr]), ← hefl, hnid]
  rfl

theorem go_sim (p : Params) (hp : p.Valid) (pieces : List (Method × List UInt8)) (s : EncState) (nid : Nat)
    (acc : List Emit) (σ : BS) (hrel : Rel p s nid (runE Pipe.empty acc) σ) (h1 : σ.Inv p) (h2 : σ.Inv2) :
    ∃ n, runE Pipe.empty (Enc.runPieces.go p pieces s nid acc) =
      ⟨(BS.finish p ((pieces.map (·.2)).flatten.foldl (byteStep p) σ)).map Cell.byte, [], n⟩ := by
  induction pieces generalizing s nid acc σ with
  | nil =>
    refine ⟨nid, ?_⟩
    simp only [Enc.runPieces.go, runE_append, List.map_nil, List.flatten_nil, List.foldl_nil]
    exact finish_sim p hp s nid _ σ hrel h1
  | cons md rest ih =>
    obtain ⟨m, d⟩ := md
    have hs := feed_sim p hp m (2 * d.length + 2) s nid _ σ d hrel h1 h2 (by omega)
    obtain ⟨h1', h2'⟩ := fold_inv p hp d σ h1 h2
    rw [← runE_append] at hs
    obtain ⟨n, hn⟩ := ih _ _ _ _ hs h1' h2'
    refine ⟨n, ?_⟩
    simp only [Enc.runPieces.go, Enc.feedAll, List.map_cons, List.flatten_cons, List.foldl_append]
    exact hn

/-- The encoder's final pipe, for any segmentation and any methods. -/
theorem output_eq (p : Params) (hp : p.Valid) (pieces : List (Method × List UInt8)) :
    ∃ n, Enc.output p pieces = ⟨(encode p (pieces.map (·.2)).flatten).map Cell.byte, [], n⟩ := by
  obtain ⟨h1, h2⟩ := init_inv p hp
  have hrel : Rel p ⟨p.maxInit, 0, false, 0, 1⟩ 1 (runE Pipe.empty [⟨.register 1, .copy⟩]) BS.init :=
    ⟨rfl, rfl, rfl, rfl, rfl, rfl⟩
  obtain ⟨n, hn⟩ := go_sim p hp pieces _ _ _ _ hrel h1 h2
  refine ⟨n, ?_⟩
  rw [← fold_finish_encode p hp]
  exact hn

/-! ### the encoder's assertions are unreachable -/

/-- Encoder state, placeholder counter and (undrained) output pipe between `consume_once` calls:
`EncoderState::new` on an empty iovec, then any sequence of `consume_once` calls on non-empty
inputs by either method (this is what `encode_borrow`/`encode_copy` loops perform, piece after
piece). -/
inductive Reachable (p : Params) : EncState → Nat → Pipe → Prop
  | init : Reachable p (Enc.init p 0).1 1 (runE Pipe.empty (Enc.init p 0).2)
  | step {s : EncState} {nid : Nat} {q : Pipe} (m : Method) (input : List UInt8) :
      Reachable p s nid q → input ≠ [] →
      Reachable p (Enc.consumeOnce p s nid m input).st (Enc.consumeOnce p s nid m input).nextId
        (runE q (Enc.consumeOnce p s nid m input).emits)

theorem reachable_rel (p : Params) (hp : p.Valid) {s : EncState} {nid : Nat} {q : Pipe}
    (h : Reachable p s nid q) : ∃ σ, Rel p s nid q σ ∧ σ.Inv p ∧ σ.Inv2 := by
  induction h with
  | init =>
    obtain ⟨h1, h2⟩ := init_inv p hp
    exact ⟨BS.init, ⟨rfl, rfl, rfl, rfl, rfl, rfl⟩, h1, h2⟩
  | step m input _ hne ih =>
    obtain ⟨σ, hrel, h1, h2⟩ := ih
    obtain ⟨_, hrel'⟩ := consumeOnce_sim p hp _ _ _ σ m input hrel h1
    obtain ⟨_, _, hfold⟩ := onceA_eq_fold p σ input hne h1
    obtain ⟨h1', h2'⟩ := fold_inv p hp (input.take (onceA p σ input).2) σ h1 h2
    rw [← hfold] at h1' h2'
    exact ⟨_, hrel', h1', h2'⟩

/-- A whole `encode_*` call stays inside `Reachable`. -/
theorem feed_reachable (p : Params) (m : Method) (fuel : Nat) (s : EncState) (nid : Nat) (q : Pipe)
    (input : List UInt8) (h : Reachable p s nid q) :
    Reachable p (Enc.feed p fuel s nid m input).1 (Enc.feed p fuel s nid m input).2.1
      (runE q (Enc.feed p fuel s nid m input).2.2) := by
  induction fuel generalizing s nid q input with
  | zero => simpa [feed_zero] using h
  | succ fuel ih =>
    by_cases hne : input = []
    · subst hne; simpa [feed_nil] using h
    · rw [feed_succ p fuel s nid m input hne]
      simp only
      rw [runE_append]
      exact ih _ _ _ _ (Reachable.step m input h hne)

/-- The chunk size this `consume_once` call hands to `encode_header`, if it closes the chunk. -/
def closeCur (s : EncState) (input : List UInt8) : Option Nat :=
  if s.mid ∧ input.head? = some FD then some s.cur
  else
    match findStuff (input.take ((flushS s).maxChunk - (flushS s).cur)) with
    | some i => some ((flushS s).cur + i)
    | none =>
      if (input.take ((flushS s).maxChunk - (flushS s).cur)).length = (flushS s).maxChunk - (flushS s).cur
      then some ((flushS s).cur + ((flushS s).maxChunk - (flushS s).cur))
      else none

/-- `encode_header(chunk_size = n, backref)`: `chunk_size < RADIX * RADIX`, `(1..=2).contains(&len)`,
`header[len] == 0` (for `len = 1` that is `n / RADIX = 0`), and the two `as u8` casts are exact. -/
def HeaderAsserts (p : Params) (s : EncState) (n : Nat) : Prop :=
  n < p.radix * p.radix ∧ 1 ≤ s.brLen ∧ s.brLen ≤ 2 ∧ (s.brLen = 1 → n / p.radix = 0) ∧
    n % p.radix < 256 ∧ n / p.radix < 256

/-- Every assertion on the path `consume_once` takes from `s` on `input` (and the two in its
callers' loops) holds; `q` is the output pipe when the call starts. -/
def OnceAsserts (p : Params) (s : EncState) (nid : Nat) (m : Method) (q : Pipe) (input : List UInt8) : Prop :=
  -- `consume_once` entry
  s.cur + (if s.mid then 1 else 0) < s.maxChunk ∧
  -- not completing a held stuff sequence: `cur < max`, `write_partial_stuff_sequence`'s `cur ≤ max`,
  -- `cur < max` after it, and the truncated window is non-empty
  (¬ (s.mid ∧ input.head? = some FD) →
     s.cur < s.maxChunk ∧ (flushS s).cur ≤ s.maxChunk ∧ (flushS s).cur < s.maxChunk ∧
     input.take (s.maxChunk - (flushS s).cur) ≠ []) ∧
  -- closing arms: `write`/`copy`'s `cur ≤ max`, `encode_header`'s assertions, and
  -- `backfill_or_panic`: the placeholder exists in the pipe with exactly `brLen` cells
  (∀ n, closeCur s input = some n →
     n ≤ s.maxChunk ∧ HeaderAsserts p s n ∧ q.cells.count (Cell.hole s.backref) = s.brLen) ∧
  -- on return (non-closing arm: `write`/`copy`'s assert and the exit assert; closing arms: fresh state)
  ((Enc.consumeOnce p s nid m input).st.cur ≤ (Enc.consumeOnce p s nid m input).st.maxChunk ∧
   (Enc.consumeOnce p s nid m input).st.cur + (if (Enc.consumeOnce p s nid m input).st.mid then 1 else 0)
     < (Enc.consumeOnce p s nid m input).st.maxChunk) ∧
  -- the callers' loops: `consumed <= input.len()`, progress
  (Enc.consumeOnce p s nid m input).consumed ≤ input.length ∧ 0 < (Enc.consumeOnce p s nid m input).consumed

/-- `terminate`: `write_partial_stuff_sequence`'s assert, `cur < max`, `encode_header`, backfill. -/
def FinishAsserts (p : Params) (s : EncState) (q : Pipe) : Prop :=
  (flushS s).cur ≤ s.maxChunk ∧ (flushS s).cur < s.maxChunk ∧ HeaderAsserts p s (flushS s).cur ∧
    q.cells.count (Cell.hole s.backref) = s.brLen

theorem count_hole_map_byte (l : List UInt8) (id : Nat) : (l.map Cell.byte).count (Cell.hole id) = 0 := by
  induction l with
  | nil => rfl
  | cons b t ih => simp [ih]

theorem count_hole_pipeOf (d : List UInt8) (k id : Nat) (b : List UInt8) :
    (pipeOf d k id b).cells.count (Cell.hole id) = k := by
  simp [pipeOf, List.count_append, count_hole_map_byte, List.count_replicate_self]

theorem headerAsserts_of_le (p : Params) (hp : p.Valid) (s : EncState) (first : Bool)
    (hbr : s.brLen = hdrLen first) {n : Nat} (hn : n ≤ limit p first) : HeaderAsserts p s n := by
  obtain ⟨h1, h2, h3, h4, h5, h6⟩ := hp
  have hrr : p.radix ≤ p.radix * p.radix := Nat.le_mul_of_pos_left _ (by omega)
  have hlt : n < p.radix * p.radix := by
    cases first <;> simp only [limit_true, limit_false] at hn <;> omega
  have hdiv : n / p.radix < p.radix := Nat.div_lt_of_lt_mul hlt
  have hmod : n % p.radix < p.radix := Nat.mod_lt _ (by omega)
  refine ⟨hlt, ?_, ?_, ?_, by omega, by omega⟩
  · cases first <;> simp [hbr]
  · cases first <;> simp [hbr]
  · intro hb1
    cases first with
    | false => simp [hbr] at hb1
    | true => simp only [limit_true] at hn; exact Nat.div_eq_of_lt (by omega)

theorem once_asserts (p : Params) (hp : p.Valid) {s : EncState} {nid : Nat} {q : Pipe}
    (h : Reachable p s nid q) (m : Method) (input : List UInt8) (hne : input ≠ []) :
    OnceAsserts p s nid m q input := by
  obtain ⟨σ, hrel, h1, h2⟩ := reachable_rel p hp h
  obtain ⟨hc, hrel'⟩ := consumeOnce_sim p hp s nid q σ m input hrel h1
  obtain ⟨hc0, hc1, hfold⟩ := onceA_eq_fold p σ input hne h1
  obtain ⟨h1', _⟩ := fold_inv p hp (input.take (onceA p σ input).2) σ h1 h2
  rw [← hfold] at h1'
  obtain ⟨hmax, hcur, hmid, hbr, hnid, hq⟩ := hrel
  have hefl : σ.eff.length = (flushS s).cur := by
    rw [BS.eff_length, ← hmid, ← hcur]; unfold flushS; split <;> simp_all
  have hefl2 : σ.eff.length = s.cur + (if s.mid then 1 else 0) := by
    rw [BS.eff_length, ← hmid, ← hcur]
  have hfmax : (flushS s).maxChunk = s.maxChunk := by unfold flushS; split <;> rfl
  have hinv' : σ.eff.length < limit p σ.first := h1
  have hM : σ.M p = limit p σ.first := rfl
  have hlen0 : 0 < input.length := List.length_pos_iff.2 hne
  refine ⟨by omega, ?_, ?_, ?_, by omega, by omega⟩
  · intro _
    refine ⟨by omega, by omega, by omega, ?_⟩
    intro hnil
    have := congrArg List.length hnil
    rw [List.length_take] at this
    simp only [List.length_nil] at this
    omega
  · intro n hn
    have hcount : q.cells.count (Cell.hole s.backref) = s.brLen := by rw [hq]; exact count_hole_pipeOf _ _ _ _
    have key : n ≤ limit p σ.first := by
      unfold closeCur at hn
      split at hn
      · cases hn; omega
      · split at hn
        · rename_i i hfs
          cases hn
          have hi := (findStuff_some hfs).1
          rw [List.length_take] at hi
          omega
        · split at hn
          · cases hn; omega
          · cases hn
    exact ⟨by omega, headerAsserts_of_le p hp s σ.first hbr key, hcount⟩
  · obtain ⟨hmax', hcur', hmid', _, _, _⟩ := hrel'
    have hi : (onceA p σ input).1.eff.length < limit p (onceA p σ input).1.first := h1'
    rw [BS.eff_length, ← hmid', ← hcur'] at hi
    have hM' : (onceA p σ input).1.M p = limit p (onceA p σ input).1.first := rfl
    omega

theorem finish_asserts (p : Params) (hp : p.Valid) {s : EncState} {nid : Nat} {q : Pipe}
    (h : Reachable p s nid q) : FinishAsserts p s q := by
  obtain ⟨σ, hrel, h1, _⟩ := reachable_rel p hp h
  obtain ⟨hmax, hcur, hmid, hbr, hnid, hq⟩ := hrel
  have hefl : σ.eff.length = (flushS s).cur := by
    rw [BS.eff_length, ← hmid, ← hcur]; unfold flushS; split <;> simp_all
  have hinv' : σ.eff.length < limit p σ.first := h1
  have hM : σ.M p = limit p σ.first := rfl
  exact ⟨by omega, by omega, headerAsserts_of_le p hp s σ.first hbr (by omega),
    by rw [hq]; exact count_hole_pipeOf _ _ _ _⟩

theorem flushE_isAppend (s : EncState) : ∀ e ∈ flushE s, Op.isAppend e.op = true := by
  intro e he
  unfold flushE at he
  split at he
  · simp at he; subst he; rfl
  · simp at he

theorem writeE_isAppend (m : Method) (n : Nat) (bs : List UInt8) :
    ∀ e ∈ writeE m n bs, Op.isAppend e.op = true := by
  intro e he
  unfold writeE at he
  split at he
  · simp at he
  · simp at he; subst he; rfl

/-- `closeCur` is the model's: when it is `some n` the call ends with `encode_header(n)` on the
current placeholder followed by `new_subsequent`; when it is `none` nothing is closed. -/
theorem closeCur_spec (p : Params) (s : EncState) (nid : Nat) (m : Method) (input : List UInt8) :
    match closeCur s input with
    | some n => ∃ pre s2, (Enc.consumeOnce p s nid m input).emits = pre ++ closeE p s2 ∧ s2.cur = n ∧
        s2.backref = s.backref ∧ s2.brLen = s.brLen
    | none => (Enc.consumeOnce p s nid m input).nextId = nid ∧
        ∀ e ∈ (Enc.consumeOnce p s nid m input).emits, Op.isAppend e.op = true := by
  have hfbr : (flushS s).brLen = s.brLen ∧ (flushS s).backref = s.backref := by
    unfold flushS; split <;> exact ⟨rfl, rfl⟩
  unfold closeCur
  by_cases hA : s.mid ∧ input.head? = some FD
  · rw [if_pos hA, consumeOnce_mid p s nid m input hA]
    exact ⟨[], s, rfl, rfl, rfl, rfl⟩
  · rw [if_neg hA]
    cases hfs : findStuff (input.take ((flushS s).maxChunk - (flushS s).cur)) with
    | some i =>
      rw [consumeOnce_stuff p s nid m input hA hfs]
      exact ⟨_, _, rfl, rfl, hfbr.2, hfbr.1⟩
    | none =>
      by_cases hfull : (input.take ((flushS s).maxChunk - (flushS s).cur)).length
          = (flushS s).maxChunk - (flushS s).cur
      · simp only [if_pos hfull]
        rw [consumeOnce_full p s nid m input hA hfs hfull]
        exact ⟨_, _, rfl, rfl, hfbr.2, hfbr.1⟩
      · simp only [if_neg hfull]
        rw [consumeOnce_part p s nid m input hA hfs hfull]
        refine ⟨rfl, ?_⟩
        intro e he
        simp only [List.mem_append] at he
        rcases he with he | he
        · exact flushE_isAppend s e he
        · exact writeE_isAppend m _ _ e he

/-! ### C09: one pending placeholder, bounded lag -/

theorem stable_pipeOf (d : List UInt8) (k id : Nat) (b : List UInt8) (hk : 1 ≤ k) :
    (pipeOf d k id b).stable = d := by
  obtain ⟨k', rfl⟩ : ∃ k', k = k' + 1 := ⟨k - 1, by omega⟩
  simp [pipeOf, Pipe.stable, List.replicate_succ, Cell.isByte]

theorem size_pipeOf (d : List UInt8) (k id : Nat) (b : List UInt8) :
    (pipeOf d k id b).size = d.length + k + b.length := by
  simp [pipeOf, Pipe.size, Nat.add_assoc]

/-- Shape of the encoder's output between calls: closed chunks (all bytes), then the one
placeholder of the open chunk, then the bytes written into the open chunk. -/
theorem reachable_shape (p : Params) (hp : p.Valid) {s : EncState} {nid : Nat} {q : Pipe}
    (h : Reachable p s nid q) :
    ∃ done body, q = pipeOf done s.brLen s.backref body ∧ body.length = s.cur ∧ nid = s.backref + 1 ∧
      1 ≤ s.brLen ∧ s.brLen ≤ 2 ∧ s.cur + (if s.mid then 1 else 0) < s.maxChunk ∧
      (s.maxChunk = p.maxInit ∨ s.maxChunk = p.maxSub) := by
  obtain ⟨σ, ⟨hmax, hcur, hmid, hbr, hnid, hq⟩, h1, _⟩ := reachable_rel p hp h
  have hinv' : σ.eff.length < limit p σ.first := h1
  have hM : σ.M p = limit p σ.first := rfl
  rw [BS.eff_length, ← hmid, ← hcur] at hinv'
  refine ⟨σ.done, σ.body, hq, hcur.symm, hnid, ?_, ?_, by omega, ?_⟩
  · cases hf : σ.first <;> simp [hbr, hf]
  · cases hf : σ.first <;> simp [hbr, hf]
  · cases hf : σ.first
    · right; rw [hmax, hM, hf]; rfl
    · left; rw [hmax, hM, hf]; rfl

end Woodpile.Hcobs.EncProof

/-
Helper lemmas for C19: what one call of the nfs_voucher module can do to the
module state, for every state and every set of OS answers.
-/
import Woodpile.Model.NfsVoucher
import Woodpile.Proofs.Raffle
import Woodpile.Proofs.AtomicBaseTime

namespace Woodpile.NfsVoucher
open Woodpile.Raffle

-- Nothing below depends on how vouchers or change-times are computed; keeping
-- these sealed stops `simp`'s match reduction from evaluating 64-bit arithmetic.
attribute [local irreducible] Woodpile.Raffle.check Woodpile.Raffle.vouchRaw millisOf

/-- The cell's pair passes the voucher check. -/
def Inv (st : St) : Prop := check baseTimeCheck st.base st.voucher = true

theorem inv_init : Inv init := check_abt 0

/-- The state after offering the change-time of `s` to the cell. -/
def offer (st : St) (s : Stat) : St :=
  if millisOf s < st.base then st
  else { st with base := millisOf s, voucher := vouchRaw nfsVouch (millisOf s) }

theorem offer_trusted (st : St) (s : Stat) : (offer st s).trusted = st.trusted := by
  unfold offer; split <;> rfl

theorem offer_base_le (st : St) (s : Stat) : st.base ≤ (offer st s).base := by
  unfold offer
  split
  · exact UInt64.le_refl _
  · rename_i h; exact UInt64.not_lt.mp h

theorem offer_inv (st : St) (s : Stat) (h : Inv st) : Inv (offer st s) := by
  unfold offer
  split
  · exact h
  · exact check_nfs _

/-- If offering `s` changed the cell, the cell now holds exactly `s`'s
change-time and its voucher, and that time is not older than the old one. -/
theorem offer_cell (st : St) (s : Stat) :
    ((offer st s).base = st.base ∧ (offer st s).voucher = st.voucher) ∨
    ((offer st s).base = millisOf s ∧ (offer st s).voucher = vouchRaw nfsVouch (millisOf s)
      ∧ st.base ≤ millisOf s) := by
  unfold offer
  split
  · exact Or.inl ⟨rfl, rfl⟩
  · rename_i h; exact Or.inr ⟨rfl, rfl, UInt64.not_lt.mp h⟩

theorem cellUpdate_nfs (st : St) (t : UInt64) :
    cellUpdate st t (vouchRaw nfsVouch t) =
      some (if t < st.base then (st, false)
            else ({ st with base := t, voucher := vouchRaw nfsVouch t }, true)) := by
  unfold cellUpdate
  split
  · rfl
  · simp [check_nfs]

/-- `update_base_time` in closed form: no assertion can fire. -/
theorem updateBaseTime_stat (st : St) (extra : Option Nat) (s : Stat) :
    updateBaseTime st extra (.stat s) =
      if !st.trusts s.dev && extra != some s.dev then (st, .observed s none)
      else (offer st s, .observed s (some (millisOf s, vouchRaw nfsVouch (millisOf s)))) := by
  simp only [updateBaseTime]
  split
  · rfl
  · simp only [vouch?_nfs, cellUpdate_nfs, offer]
    split <;> rfl

theorem cellSnapshot_inv (st : St) (h : Inv st) : cellSnapshot st = some (st.base, st.voucher) := by
  unfold cellSnapshot; rw [h]; rfl

theorem getBaseTimeUnlocked_inv (st : St) (h : Inv st) :
    getBaseTimeUnlocked st = (st, .pair st.base st.voucher) := by
  show snapshotRet st (cellSnapshot st) = _
  rw [cellSnapshot_inv st h]
  rfl

theorem shouldRefresh_inv (st : St) (h : Inv st) (l : Nat) (rl : Bool) (now : Int) :
    ∃ b, shouldRefresh st l rl now = some b := by
  unfold shouldRefresh
  split
  · exact ⟨_, rfl⟩
  · simp only [cellSnapshot_inv st h]; exact ⟨_, rfl⟩

-- From here on only `shouldRefresh_inv` / `cellSnapshot_inv` are used.
attribute [local irreducible] shouldRefresh cellSnapshot

/-- The stat answers a call presents. -/
def Call.presents : Call → Stat → Prop
  | .addTrusted _ a, s => a = .stat s
  | .observe a, s => a = .stat s
  | .maybeObserve _ _ a, s => a = .stat s
  | .scan _ _ answers, s => ∃ p, (p, FileAns.stat s) ∈ answers
  | .getBaseTime _ answers, s => ∃ p, (p, FileAns.stat s) ∈ answers
  | .getUnlocked, _ => False
  | .shouldRefresh _ _ _, _ => False

theorem lookupAns_stat (answers : List (Nat × FileAns)) (p : Nat) (s : Stat)
    (h : lookupAns answers p = .stat s) : (p, FileAns.stat s) ∈ answers := by
  unfold lookupAns at h
  cases hl : answers.lookup p with
  | none => rw [hl] at h; cases h
  | some a =>
    rw [hl] at h
    subst h
    induction answers with
    | nil => simp [List.lookup] at hl
    | cons x xs ih =>
      obtain ⟨k, a⟩ := x
      simp only [List.lookup] at hl
      split at hl
      · rename_i heq
        have : p = k := by simpa using heq
        cases hl; subst this; exact List.mem_cons_self
      · exact List.mem_cons_of_mem _ (ih hl)

/-- The scan either fails without touching the state, or applies the answer of
one of the listed paths, which lies on a trusted device. -/
theorem scanLoop_spec (st : St) (answers : Nat → FileAns) (l : List (Nat × Nat)) :
    scanLoop st answers l = (st, .ioErr) ∨
    ∃ d p s, (d, p) ∈ l ∧ answers p = .stat s ∧ st.trusts s.dev = true ∧
      scanLoop st answers l = (offer st s, .pair (millisOf s) (vouchRaw nfsVouch (millisOf s))) := by
  induction l with
  | nil => exact Or.inl rfl
  | cons x rest ih =>
    obtain ⟨d, p⟩ := x
    unfold scanLoop
    cases ha : answers p with
    | openErr => exact Or.inl rfl
    | updErr =>
      rcases ih with h | ⟨d', p', s, hm, h1, h2, h3⟩
      · exact Or.inl h
      · exact Or.inr ⟨d', p', s, List.mem_cons_of_mem _ hm, h1, h2, h3⟩
    | stat s =>
      simp only [updateBaseTime_stat]
      by_cases ht : st.trusts s.dev = true
      · simp only [ht]
        exact Or.inr ⟨d, p, s, List.mem_cons_self, ha, ht, by simp⟩
      · have ht' : st.trusts s.dev = false := by simpa using ht
        simp only [ht']
        rcases ih with h | ⟨d', p', s', hm, h1, h2, h3⟩
        · left; simpa using h
        · right; exact ⟨d', p', s', List.mem_cons_of_mem _ hm, h1, h2, by simpa using h3⟩

/-- The pairs a result hands out. -/
def Ret.pairs : Ret → List (UInt64 × UInt64)
  | .observed _ (some p) => [p]
  | .pair b v => [(b, v)]
  | _ => []

/-- The shape of every step, for any state whose cell pair checks: the state is
unchanged, or it is `offer st s` for a presented stat on a trusted device, or
the call registers the device of `s` and offers `s`.  The call does not panic
and every pair it returns checks. -/
structure StepSpec (st : St) (c : Call) : Prop where
  shape :
    (step st c).1 = st ∨
    (∃ s, c.presents s ∧ st.trusts s.dev = true ∧ (step st c).1 = offer st s) ∨
    (∃ p s, c = .addTrusted p (.stat s) ∧
      (step st c).1 = { offer st s with trusted := insertTrusted st.trusted s.dev p })
  noPanic : (step st c).2 ≠ .panic
  pairs : ∀ bv ∈ (step st c).2.pairs, check baseTimeCheck bv.1 bv.2 = true

theorem scanImpl_spec (st : St) (answers : List (Nat × FileAns)) :
    scanImpl st (lookupAns answers) = (st, .ioErr) ∨
    ∃ s, (∃ p, (p, FileAns.stat s) ∈ answers) ∧ st.trusts s.dev = true ∧
      scanImpl st (lookupAns answers) = (offer st s, .pair (millisOf s) (vouchRaw nfsVouch (millisOf s))) := by
  unfold scanImpl
  rcases scanLoop_spec st (lookupAns answers) st.trusted with h | ⟨d, p, s, _, h1, h2, h3⟩
  · exact Or.inl h
  · exact Or.inr ⟨s, ⟨p, lookupAns_stat _ _ _ h1⟩, h2, h3⟩

theorem step_spec (st : St) (hinv : Inv st) (c : Call) : StepSpec st c := by
  have hI : check baseTimeCheck st.base st.voucher = true := hinv
  cases c with
  | addTrusted path ans =>
    cases ans with
    | openErr => exact ⟨Or.inl rfl, by simp [step, addTrustedPath], by simp [step, addTrustedPath, Ret.pairs]⟩
    | updErr => exact ⟨Or.inl rfl, by simp [step, addTrustedPath], by simp [step, addTrustedPath, Ret.pairs]⟩
    | stat s =>
      have h : step st (.addTrusted path (.stat s)) =
          ({ offer st s with trusted := insertTrusted st.trusted s.dev path }, .unit) := by
        simp [step, addTrustedPath, updateBaseTime_stat, offer_trusted]
      exact ⟨Or.inr (Or.inr ⟨path, s, rfl, by rw [h]⟩), by rw [h]; simp, by rw [h]; simp [Ret.pairs]⟩
  | observe ans =>
    cases ans with
    | openErr => exact ⟨Or.inl rfl, by simp [step, observeFileTime, updateBaseTime], by simp [step, observeFileTime, updateBaseTime, Ret.pairs]⟩
    | updErr => exact ⟨Or.inl rfl, by simp [step, observeFileTime, updateBaseTime], by simp [step, observeFileTime, updateBaseTime, Ret.pairs]⟩
    | stat s =>
      by_cases ht : st.trusts s.dev = true
      · have h : step st (.observe (.stat s)) =
            (offer st s, .observed s (some (millisOf s, vouchRaw nfsVouch (millisOf s)))) := by
          simp [step, observeFileTime, updateBaseTime_stat, ht]
        exact ⟨Or.inr (Or.inl ⟨s, rfl, ht, by rw [h]⟩), by rw [h]; simp,
          by rw [h]; simp [Ret.pairs, check_nfs]⟩
      · have ht' : st.trusts s.dev = false := by simpa using ht
        have h : step st (.observe (.stat s)) = (st, .observed s none) := by
          simp [step, observeFileTime, updateBaseTime_stat, ht']
        exact ⟨Or.inl (by rw [h]), by rw [h]; simp, by rw [h]; simp [Ret.pairs]⟩
  | maybeObserve rl now ans =>
    obtain ⟨b, hb⟩ := shouldRefresh_inv st hinv defaultLeewayMs rl now
    cases b with
    | false =>
      have h : step st (.maybeObserve rl now ans) = (st, .unit) := by simp only [step, maybeObserveFileTime, hb]; simp [maybeObserveOn]
      exact ⟨Or.inl (by rw [h]), by rw [h]; simp, by rw [h]; simp [Ret.pairs]⟩
    | true =>
      cases ans with
      | openErr =>
        have h : step st (.maybeObserve rl now .openErr) = (st, .unit) := by
          simp only [step, maybeObserveFileTime, hb]; simp [maybeObserveOn, observeFileTime, updateBaseTime]
        exact ⟨Or.inl (by rw [h]), by rw [h]; simp, by rw [h]; simp [Ret.pairs]⟩
      | updErr =>
        have h : step st (.maybeObserve rl now .updErr) = (st, .unit) := by
          simp only [step, maybeObserveFileTime, hb]; simp [maybeObserveOn, observeFileTime, updateBaseTime]
        exact ⟨Or.inl (by rw [h]), by rw [h]; simp, by rw [h]; simp [Ret.pairs]⟩
      | stat s =>
        by_cases ht : st.trusts s.dev = true
        · have h : step st (.maybeObserve rl now (.stat s)) = (offer st s, .unit) := by
            simp only [step, maybeObserveFileTime, hb]; simp [maybeObserveOn, observeFileTime, updateBaseTime_stat, ht]
          exact ⟨Or.inr (Or.inl ⟨s, rfl, ht, by rw [h]⟩), by rw [h]; simp, by rw [h]; simp [Ret.pairs]⟩
        · have ht' : st.trusts s.dev = false := by simpa using ht
          have h : step st (.maybeObserve rl now (.stat s)) = (st, .unit) := by
            simp only [step, maybeObserveFileTime, hb]; simp [maybeObserveOn, observeFileTime, updateBaseTime_stat, ht']
          exact ⟨Or.inl (by rw [h]), by rw [h]; simp, by rw [h]; simp [Ret.pairs]⟩
  | scan rl now answers =>
    obtain ⟨b, hb⟩ := shouldRefresh_inv st hinv 1000 rl now
    cases b with
    | false =>
      have h : step st (.scan rl now answers) = (st, .unit) := by simp only [step, scanBaseTime, hb]; simp [scanBaseTimeOn]
      exact ⟨Or.inl (by rw [h]), by rw [h]; simp, by rw [h]; simp [Ret.pairs]⟩
    | true =>
      rcases scanImpl_spec st answers with hs | ⟨s, hp, ht, hs⟩
      · have h : step st (.scan rl now answers) = (st, .ioErr) := by simp only [step, scanBaseTime, hb]; simp [scanBaseTimeOn, hs]
        exact ⟨Or.inl (by rw [h]), by rw [h]; simp, by rw [h]; simp [Ret.pairs]⟩
      · have h : step st (.scan rl now answers) = (offer st s, .unit) := by simp only [step, scanBaseTime, hb]; simp [scanBaseTimeOn, hs]
        exact ⟨Or.inr (Or.inl ⟨s, hp, ht, by rw [h]⟩), by rw [h]; simp, by rw [h]; simp [Ret.pairs]⟩
  | getBaseTime now answers =>
    obtain ⟨b, hb⟩ := shouldRefresh_inv st hinv defaultLeewayMs false now
    cases b with
    | false =>
      have h : step st (.getBaseTime now answers) = (st, .pair st.base st.voucher) := by
        simp only [step, getBaseTime, hb]; simp [getBaseTimeOn, getBaseTimeUnlocked_inv st hinv]
      exact ⟨Or.inl (by rw [h]), by rw [h]; simp, by rw [h]; simp [Ret.pairs, hI]⟩
    | true =>
      rcases scanImpl_spec st answers with hs | ⟨s, hp, ht, hs⟩
      · have h : step st (.getBaseTime now answers) = (st, .ioErr) := by simp only [step, getBaseTime, hb]; simp [getBaseTimeOn, hs]
        exact ⟨Or.inl (by rw [h]), by rw [h]; simp, by rw [h]; simp [Ret.pairs]⟩
      · have h : step st (.getBaseTime now answers) =
            (offer st s, .pair (millisOf s) (vouchRaw nfsVouch (millisOf s))) := by
          simp only [step, getBaseTime, hb]; simp [getBaseTimeOn, hs]
        exact ⟨Or.inr (Or.inl ⟨s, hp, ht, by rw [h]⟩), by rw [h]; simp, by rw [h]; simp [Ret.pairs, check_nfs]⟩
  | getUnlocked =>
    have h : step st .getUnlocked = (st, .pair st.base st.voucher) := by
      simp [step, getBaseTimeUnlocked_inv st hinv]
    exact ⟨Or.inl (by rw [h]), by rw [h]; simp, by rw [h]; simp [Ret.pairs, hI]⟩
  | shouldRefresh leeway rl now =>
    obtain ⟨b, hb⟩ := shouldRefresh_inv st hinv (leeway.getD defaultLeewayMs) rl now
    have h : step st (.shouldRefresh leeway rl now) = (st, .bool b) := by simp only [step, shouldRefreshCall, hb]; simp [shouldRefreshOn]
    exact ⟨Or.inl (by rw [h]), by rw [h]; simp, by rw [h]; simp [Ret.pairs]⟩

theorem step_inv (st : St) (hinv : Inv st) (c : Call) : Inv (step st c).1 := by
  rcases (step_spec st hinv c).shape with h | ⟨s, _, _, h⟩ | ⟨p, s, _, h⟩
  · rw [h]; exact hinv
  · rw [h]; exact offer_inv st s hinv
  · rw [h]; exact offer_inv st s hinv

theorem step_base_le (st : St) (hinv : Inv st) (c : Call) : st.base ≤ (step st c).1.base := by
  rcases (step_spec st hinv c).shape with h | ⟨s, _, _, h⟩ | ⟨p, s, _, h⟩
  · rw [h]; exact UInt64.le_refl _
  · rw [h]; exact offer_base_le st s
  · rw [h]; exact offer_base_le st s

theorem finalState_inv (st : St) (hinv : Inv st) (cs : List Call) : Inv (finalState st cs) := by
  induction cs generalizing st with
  | nil => exact hinv
  | cons c cs ih => exact ih _ (step_inv st hinv c)

theorem finalState_append (st : St) (cs ds : List Call) :
    finalState st (cs ++ ds) = finalState (finalState st cs) ds := by
  simp [finalState, List.foldl_append]

theorem finalState_base_le (st : St) (hinv : Inv st) (cs : List Call) :
    st.base ≤ (finalState st cs).base := by
  induction cs generalizing st with
  | nil => exact UInt64.le_refl _
  | cons c cs ih =>
    exact UInt64.le_trans (step_base_le st hinv c) (ih _ (step_inv st hinv c))

end Woodpile.NfsVoucher

namespace Woodpile.NfsVoucher
open Woodpile.Raffle

/-- Every entry of a history's transcript is one step taken from the state
reached by the calls before it. -/
theorem run_mem (st : St) (cs : List Call) (r : St × Ret) (h : r ∈ run st cs) :
    ∃ pre c suf, cs = pre ++ c :: suf ∧ r = step (finalState st pre) c := by
  induction cs generalizing st with
  | nil => simp [run] at h
  | cons c cs ih =>
    simp only [run, List.mem_cons] at h
    rcases h with h | h
    · exact ⟨[], c, cs, rfl, h⟩
    · obtain ⟨pre, c', suf, h1, h2⟩ := ih _ h
      exact ⟨c :: pre, c', suf, by simp [h1], by simpa [finalState] using h2⟩

end Woodpile.NfsVoucher

namespace Woodpile.NfsVoucher
open Woodpile.Raffle Woodpile.Abt

/-! ## The cell of this model is the sequential behaviour of the `AtomicBaseTime` programs (gap 10) -/

/-- The crate's voucher check on the naturals of the `Woodpile.Abt` machines
(`Props/C13R.lean` calls the same function `chkReal`). -/
def chkNat (b v : Nat) : Bool := Raffle.check baseTimeCheck (UInt64.ofNat b) (UInt64.ofNat v)

/-- The cell of a module state, as the abstract value of an `AtomicBaseTime`. -/
def absCell (st : St) : Nat × Nat := (st.base.toNat, st.voucher.toNat)

attribute [local irreducible] Woodpile.Raffle.check

theorem chkNat_toNat (t v : UInt64) : chkNat t.toNat v.toNat = Raffle.check baseTimeCheck t v := by
  simp [chkNat]

/-- `cellUpdate` is `seqUpdate` at the crate's check. -/
theorem cellUpdate_refines (st : St) (t v : UInt64) :
    match cellUpdate st t v with
    | some (st', r) => seqUpdate chkNat (absCell st) t.toNat v.toNat = some (absCell st', r) ∧
        st'.trusted = st.trusted
    | none => seqUpdate chkNat (absCell st) t.toNat v.toNat = none := by
  unfold cellUpdate seqUpdate
  simp only [absCell, chkNat_toNat]
  by_cases h1 : t < st.base
  · have : t.toNat < st.base.toNat := UInt64.lt_iff_toNat_lt.mp h1
    simp [h1, this]
  · have : ¬ t.toNat < st.base.toNat := fun h => h1 (UInt64.lt_iff_toNat_lt.mpr h)
    by_cases h2 : Raffle.check baseTimeCheck t v = true <;> simp [h1, this, h2]

/-- `cellSnapshot` is `seqSnapshot` at the crate's check. -/
theorem cellSnapshot_refines (st : St) :
    (cellSnapshot st).map (fun p => (p.1.toNat, p.2.toNat)) = seqSnapshot chkNat (absCell st) := by
  unfold cellSnapshot seqSnapshot
  simp only [absCell, chkNat_toNat]
  by_cases h : Raffle.check baseTimeCheck st.base st.voucher = true <;> simp [h]

/-- `cellSnapshot` / `NfsVoucher.getBaseTimeUnlocked` IS `AtomicBaseTime::snapshot`
(`Abt.getBaseTimeUnlockedOp`) run alone, and it needs NO quiescence: from any reachable SC
state - a writer may hold the lock half way through its stores, the mutex may be poisoned -
whose most recently published pair is the cell of `st`, thread `tid` running
`get_base_time_unlocked` alone takes four steps, each a load (memory, lock holder, poison flag
and history are unchanged: no lock operation, no store), and returns exactly the pair the NFS
model's `getBaseTimeUnlocked st` returns, leaving `st` unchanged. -/
theorem unlocked_refines {v0 : Nat} (h0 : chkNat 0 v0 = true) {s : SC.State} (h : SC.Reachable chkNat v0 s)
    (tid : Nat) (hterm : (s.thr tid).pc.terminal = true) (st : St) (hcell : SC.cellOf s = some (absCell st)) :
    getBaseTimeUnlocked st = (st, .pair st.base st.voucher) ∧
    cellSnapshot st = some (st.base, st.voucher) ∧
    ∃ s', SC.run chkNat s (.start tid getBaseTimeUnlockedOp :: List.replicate 4 (.run tid 0)) = some s' ∧
      (s'.thr tid).pc = .retSnap ∧ (s'.thr tid).base = st.base.toNat ∧ (s'.thr tid).bits = st.voucher.toNat ∧
      s'.mem = s.mem ∧ s'.held = s.held ∧ s'.poisoned = s.poisoned ∧ s'.hist = s.hist := by
  have hI := SC.inv_reachable (chk := chkNat) h0 h
  obtain ⟨hs1, s', a, b, c, d⟩ := SC.snapshot_refines hI tid hterm (absCell st) hcell
  have hinv : Inv st := by
    have := cellSnapshot_refines st
    rw [hs1] at this
    unfold cellSnapshot at this
    by_cases hc : Raffle.check baseTimeCheck st.base st.voucher = true
    · exact hc
    · simp [hc] at this
  refine ⟨getBaseTimeUnlocked_inv st hinv, cellSnapshot_inv st hinv, s', a, b, ?_, ?_, d⟩
  · have := congrArg Prod.fst c; simpa [absCell] using this
  · have := congrArg Prod.snd c; simpa [absCell] using this


end Woodpile.NfsVoucher

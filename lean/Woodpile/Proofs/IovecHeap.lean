/-
C20, content half: heap framing.  Bytes of the symbolic heap, what each operation writes, the
privacy of pending backref ranges, and `clone_independent`.
-/
import Woodpile.Proofs.IovecArena
namespace Woodpile.Iovec
open Woodpile.Arena

/-! ### Heap bytes -/

/-- The byte at offset `i` of chunk `k` (never-written bytes read as 0, as `Heap.read` pads). -/
def Heap.byteO (h : Heap) (k i : Nat) : UInt8 := (h.get k).getD i 0

theorem Heap.read_eq_mapO (h : Heap) (k off len : Nat) :
    h.read k off len = (List.range len).map (fun j => h.byteO k (off + j)) := by
  apply List.ext_getElem
  · simp [Heap.read]; omega
  · intro n h1 h2
    simp only [Heap.read, Heap.byteO, List.getElem_map, List.getElem_range]
    have hlen : ((List.drop off (h.get k)).take len).length = min len ((h.get k).length - off) := by simp
    by_cases hn : n < min len ((h.get k).length - off)
    · rw [List.getElem_append_left (by rw [hlen]; exact hn)]
      simp only [List.getElem_take, List.getElem_drop]
      rw [List.getD_eq_getElem?_getD, List.getElem?_eq_getElem (by omega)]
      rfl
    · rw [List.getElem_append_right (by rw [hlen]; omega)]
      simp only [List.getElem_replicate]
      have : len = (List.range len).length := by simp
      have hn' : n < len := by simpa using h2
      rw [List.getD_eq_getElem?_getD, List.getElem?_eq_none (by omega)]
      rfl

theorem Heap.get_writeO (h : Heap) (k off : Nat) (bs : List UInt8) (k' : Nat) :
    (h.write k off bs).get k' = if k' = k then
      (let old := h.get k
       let padded := if old.length < off then old ++ List.replicate (off - old.length) 0 else old
       padded.take off ++ bs ++ padded.drop (off + bs.length))
    else h.get k' := by
  simp only [Heap.write, Heap.get]
  rw [getD_listSet]

theorem Heap.byte_writeO (h : Heap) (k off : Nat) (bs : List UInt8) (k' i : Nat) :
    (h.write k off bs).byteO k' i =
      if k' = k ∧ off ≤ i ∧ i < off + bs.length then bs.getD (i - off) 0 else h.byteO k' i := by
  simp only [Heap.byteO, Heap.get_writeO]
  by_cases hk : k' = k
  · subst hk
    simp only [if_true, true_and]
    generalize hold : h.get k' = old
    have hpad : ∀ j, (if old.length < off then old ++ List.replicate (off - old.length) 0 else old).getD j 0 = old.getD j 0 := by
      intro j
      split
      · rename_i hlt
        simp only [List.getD_eq_getElem?_getD]
        by_cases hj : j < old.length
        · rw [List.getElem?_append_left hj]
        · rw [List.getElem?_append_right (by omega), List.getElem?_eq_none (l := old) (by omega)]
          simp only [List.getElem?_replicate]
          split <;> rfl
      · rfl
    have hplen : off ≤ (if old.length < off then old ++ List.replicate (off - old.length) 0 else old).length := by
      split
      · simp; omega
      · omega
    generalize (if old.length < off then old ++ List.replicate (off - old.length) 0 else old) = padded at hpad hplen
    have htl : (padded.take off).length = off := by simp; omega
    simp only [List.getD_eq_getElem?_getD] at hpad ⊢
    by_cases h1 : i < off
    · have : ¬ (off ≤ i ∧ i < off + bs.length) := by omega
      rw [if_neg this, List.append_assoc, List.getElem?_append_left (by rw [htl]; exact h1)]
      rw [List.getElem?_take]; simp only [h1, if_true]; exact hpad i
    · by_cases h2 : i < off + bs.length
      · have : (off ≤ i ∧ i < off + bs.length) := by omega
        rw [if_pos this, List.append_assoc, List.getElem?_append_right (by rw [htl]; omega), htl]
        rw [List.getElem?_append_left (by omega)]
      · have : ¬ (off ≤ i ∧ i < off + bs.length) := by omega
        rw [if_neg this, List.getElem?_append_right (by simp; omega)]
        simp only [List.length_append, htl, List.getElem?_drop]
        rw [← hpad i]
        congr 2; omega
  · simp [hk]

/-- Bytes outside the written range are unchanged. -/
theorem Heap.read_write_of_disjoint (h : Heap) (k off : Nat) (bs : List UInt8) (k' o l : Nat)
    (hd : k' ≠ k ∨ o + l ≤ off ∨ off + bs.length ≤ o) : (h.write k off bs).read k' o l = h.read k' o l := by
  rw [Heap.read_eq_mapO, Heap.read_eq_mapO]
  apply List.map_congr_left
  intro j hj
  simp only [List.mem_range] at hj
  rw [Heap.byte_writeO]
  have : ¬ (k' = k ∧ off ≤ o + j ∧ o + j < off + bs.length) := by
    rintro ⟨h1, h2, h3⟩
    rcases hd with hd | hd | hd
    · exact hd h1
    · omega
    · omega
  rw [if_neg this]

theorem Heap.byte_write_ne {h : Heap} {k off : Nat} {bs : List UInt8} {k' i : Nat}
    (hne : (h.write k off bs).byteO k' i ≠ h.byteO k' i) : k' = k ∧ off ≤ i ∧ i < off + bs.length := by
  rw [Heap.byte_writeO] at hne
  by_cases hc : k' = k ∧ off ≤ i ∧ i < off + bs.length
  · exact hc
  · rw [if_neg hc] at hne; exact absurd rfl hne

/-- What a successful `alloc` guarantees about its placement, against any family `P` of slices that lie
below the bump pointer of the allocating cache and in already allocated chunks: the allocation starts
at or above the end of every such slice of its chunk. -/
theorem alloc_above {t : Tuning} {a a' : Arena} {next next' len chunk off : Nat} (P : Slice → Prop)
    (h : alloc t a next len = (a', next', chunk, off))
    (hbelow : ∀ c, a.cache = some c → ∀ s, P s → s.region = .chunk c.chunk → s.off + s.len ≤ c.bump)
    (hlt : ∀ s k, P s → s.region = .chunk k → k < next) :
    ∀ s, P s → s.region = .chunk chunk → s.off + s.len ≤ off := by
  intro s hs hr
  rcases alloc_casesO t a next len with ⟨c, hc, _, he⟩ | ⟨cap, _, _, he⟩
  · rw [he] at h; simp only [Prod.mk.injEq] at h
    obtain ⟨_, _, rfl, rfl⟩ := h
    exact hbelow c hc s hs hr
  · rw [he] at h; simp only [Prod.mk.injEq] at h
    obtain ⟨_, _, rfl, rfl⟩ := h
    have := hlt s _ hs hr; omega

theorem pushCopy_heap {w w' : World} {i : Nat} {src : List UInt8} (h : w.pushCopy i src = some w') (P : Slice → Prop)
    (hbelow : ∀ v c, w.iov i = some v → v.arena.cache = some c → ∀ s, P s → s.region = .chunk c.chunk →
      s.off + s.len ≤ c.bump)
    (hlt : ∀ s k, P s → s.region = .chunk k → k < w.next) :
    ∀ k j, w'.heap.byteO k j ≠ w.heap.byteO k j → ∀ s, P s → s.region = .chunk k → s.off + s.len ≤ j := by
  obtain ⟨v, hv, ⟨_, rfl⟩ | ⟨hne, arena', next', chunk, off, v2, hal, ho, rfl⟩⟩ := pushCopy_spec h
  · intro k j hne; exact absurd rfl hne
  · intro k j hne s hs hr
    obtain ⟨rfl, h2, _⟩ := Heap.byte_write_ne hne
    have := alloc_above P hal (hbelow v · hv) hlt s hs hr
    omega

theorem pushBorrowed_heap {w w' : World} {i : Nat} {s : Slice} (h : w.pushBorrowed i s = some w') : w'.heap = w.heap := by
  obtain ⟨v, hv, ⟨_, rfl⟩ | ⟨_, v', hp, rfl⟩⟩ := pushBorrowed_spec h <;> rfl

theorem extend_heap {w w' : World} {i : Nat} {slices : List Slice} (h : w.extend i slices = some w') : w'.heap = w.heap := by
  induction slices generalizing w with
  | nil => simp [World.extend] at h; subst h; rfl
  | cons s rest ih =>
    unfold World.extend at h
    split at h
    · exact ih h
    · split at h
      · simp at h
      · rename_i w1 hw1; rw [ih h, pushBorrowed_heap hw1]

theorem consume_heap {w w' : World} {i count k : Nat} (h : w.consume i count = some (w', k)) : w'.heap = w.heap := by
  obtain ⟨v, n, v', hv, _, hc, rfl⟩ := consume_spec h; rfl

theorem advance_heap {w w' : World} {i count c : Nat} (h : w.advance i count = some (w', c)) : w'.heap = w.heap := by
  obtain ⟨v, n, v', k, hv, _, hc, rfl⟩ := advance_spec h; rfl

theorem readInto_heap {w w' : World} {fuel i room : Nat} {acc out : List UInt8}
    (h : World.readInto fuel w i room acc = some (w', out)) : w'.heap = w.heap :=
  readInto_preserves (fun x => x.heap = w.heap) (fun _ _ _ _ _ hp ha => by rw [advance_heap ha, hp])
    fuel w i room acc w' out rfl h

theorem readN_heap {w w1 : World} {a ar' : Arena} {r : ReadN.Reader} {count attempts : Nat}
    {res : Except Nat ASlice} {o : ReadN.Out} (h : w.readN a r count attempts = (w1, ar', res, o)) (P : Slice → Prop)
    (hbelow : ∀ c, a.cache = some c → ∀ s, P s → s.region = .chunk c.chunk → s.off + s.len ≤ c.bump)
    (hlt : ∀ s k, P s → s.region = .chunk k → k < w.next) :
    ∀ k j, w1.heap.byteO k j ≠ w.heap.byteO k j → ∀ s, P s → s.region = .chunk k → s.off + s.len ≤ j := by
  unfold World.readN at h
  split at h
  · simp only [Prod.mk.injEq] at h
    obtain ⟨rfl, _⟩ := h
    intro k j hne; exact absurd rfl hne
  · rcases hal : alloc w.tun a w.next count with ⟨a1, next1, chunk, off⟩
    simp only [hal] at h
    have habove := alloc_above P hal hbelow hlt
    cases hres : (ReadN.readNCore r count attempts).res with
    | ok got =>
      simp only [hres, Prod.mk.injEq] at h
      obtain ⟨rfl, _⟩ := h
      intro k j hne s hs hr
      simp only at hne
      by_cases h1 : ((w.heap.write chunk off (List.replicate count 0)).write chunk off got).byteO k j =
          (w.heap.write chunk off (List.replicate count 0)).byteO k j
      · rw [h1] at hne
        obtain ⟨rfl, h2, _⟩ := Heap.byte_write_ne hne
        have := habove s hs hr; omega
      · obtain ⟨rfl, h2, _⟩ := Heap.byte_write_ne h1
        have := habove s hs hr; omega
    | err e =>
      simp only [hres, Prod.mk.injEq] at h
      obtain ⟨rfl, _⟩ := h
      intro k j hne s hs hr
      obtain ⟨rfl, h2, _⟩ := Heap.byte_write_ne hne
      have := habove s hs hr; omega

/-- The byte range a pending backref designates, when it designates one (its target slice is still
buffered, is owned, and the range fits): `(chunk, start, len)`. -/
def Iov.pendingRange (v : Iov) (info : BackrefInfo) : Option (Nat × Nat × Nat) :=
  if info.sliceIndex < v.consumedSlices then none
  else
    match v.slices[info.sliceIndex - v.consumedSlices]? with
    | none => none
    | some t =>
      match t.region with
      | .chunk k => if info.begin + info.len ≤ t.len then some (k, t.off + info.begin, info.len) else none
      | .ext _ => none

theorem backfill_heap {w w' : World} {i : Nat} {b : Backref} {src : List UInt8} (h : w.backfill i b src = some w') :
    ∀ k j, w'.heap.byteO k j ≠ w.heap.byteO k j →
      ∃ v key info a, w.iov i = some v ∧ (key, info) ∈ v.backrefs ∧ v.pendingRange info = some (k, a, info.len) ∧
        a ≤ j ∧ j < a + info.len := by
  obtain ⟨v, hv, ⟨_, _, rfl⟩ | ⟨key, info, target, k0, _, hlen, hmem, hidx, htarget, hfit, hreg, rfl⟩⟩ := backfill_spec h
  · intro k j hne; exact absurd rfl hne
  · intro k j hne
    obtain ⟨rfl, h2, h3⟩ := Heap.byte_write_ne hne
    refine ⟨v, key, info, target.off + info.begin, hv, hmem, ?_, h2, by omega⟩
    unfold Iov.pendingRange
    rw [if_neg (by omega), htarget]
    simp only [hreg]
    rw [if_pos (by omega)]


theorem heap_same_frame {w w' : World} (e : w'.heap = w.heap) {P : Nat → Nat → Prop} :
    ∀ k j, w'.heap.byteO k j ≠ w.heap.byteO k j → P k j := by
  intro k j hne; rw [e] at hne; exact absurd rfl hne

/-- `frame_heap`: every heap byte an operation changes lies at or above the end of EVERY slice of EVERY
object that existed in that chunk (it belongs to a fresh allocation `[bump, …)` of the acting arena's
cache chunk, or to a fresh chunk), or inside a pending backref range of the iovec the op names
(`backfill`). -/
theorem step_frame_heap {w w' : World} {caps : Nat → Nat} {op : WOp} (hg : GReach w caps) (h : w.step op = some w') :
    ∀ k j, w'.heap.byteO k j ≠ w.heap.byteO k j →
      (∀ s, w.HasSlice s → s.region = .chunk k → s.off + s.len ≤ j) ∨
      (∃ X b bs v key info a, op = .backfill X b bs ∧ w.iov X = some v ∧ (key, info) ∈ v.backrefs ∧
        v.pendingRange info = some (k, a, info.len) ∧ a ≤ j ∧ j < a + info.len) := by
  have hw := hg.reachable.inv
  have ha := hg.inv
  have hlt : ∀ s k, w.HasSlice s → s.region = .chunk k → k < w.next := fun s k hs hr => hw.hasSlice_lt hs hr
  have hbelow : ∀ i v c, w.iov i = some v → v.arena.cache = some c → ∀ s, w.HasSlice s → s.region = .chunk c.chunk →
      s.off + s.len ≤ c.bump := by
    intro i v c hv hc s hs hr
    exact ha.below (.iov i) c s (by rw [cacheAt_iov hv]; exact hc) hs hr
  cases op with
  | new => simp [World.step] at h; subst h; exact heap_same_frame rfl
  | newArena => simp [World.step] at h; subst h; exact heap_same_frame rfl
  | newFromArena a =>
    simp only [World.step] at h
    split at h
    · simp at h; subst h; exact heap_same_frame rfl
    · simp at h
  | newFromSlices bufs =>
    simp only [World.step] at h
    obtain ⟨h1, _⟩ := addExts_spec w bufs
    simp at h; subst h
    exact heap_same_frame (by simp [World.newFromSlices, World.addIov, h1])
  | push i bs =>
    simp only [World.step, World.addExt] at h
    rcases push_cases h with h | h
    · intro k j hne
      exact Or.inl (pushCopy_heap h w.HasSlice (fun v c hv hc => hbelow i v c hv hc) hlt k j hne)
    · exact heap_same_frame (pushBorrowed_heap h)
  | pushBorrowed i bs =>
    simp only [World.step, World.addExt] at h
    exact heap_same_frame (pushBorrowed_heap h)
  | pushCopy i bs =>
    intro k j hne
    exact Or.inl (pushCopy_heap h w.HasSlice (fun v c hv hc => hbelow i v c hv hc) hlt k j hne)
  | register i pat =>
    simp only [World.step] at h
    split at h
    · rename_i w1 b hr
      simp at h; subst h
      rcases registerPatch_spec hr with ⟨_, rfl, _⟩ | ⟨_, w2, v, last, hpc, hv, _, _, _, _, rfl⟩
      · exact heap_same_frame rfl
      · intro k j hne
        exact Or.inl (pushCopy_heap hpc w.HasSlice (fun v c hv hc => hbelow i v c hv hc) hlt k j hne)
    · simp at h
  | extend i bufs =>
    simp only [World.step] at h
    obtain ⟨h1, _⟩ := addExts_spec w bufs
    rw [h1] at h
    exact heap_same_frame (extend_heap h)
  | consume i k =>
    simp only [World.step] at h
    split at h
    · rename_i w1 c hc; simp at h; subst h; exact heap_same_frame (consume_heap hc)
    · simp at h
  | advance i k =>
    simp only [World.step] at h
    split at h
    · rename_i w1 c hc; simp at h; subst h; exact heap_same_frame (advance_heap hc)
    · simp at h
  | read i k =>
    simp only [World.step] at h
    split at h
    · rename_i w1 c hc; simp at h; subst h; exact heap_same_frame (readInto_heap hc)
    · simp at h
  | reserve i k =>
    simp only [World.step] at h
    split at h
    · simp at h; subst h; exact heap_same_frame rfl
    · simp at h
  | pushASlice i si =>
    simp only [World.step] at h
    split at h
    · split at h
      · simp at h; subst h; exact heap_same_frame rfl
      · split at h
        · rename_i w1 hpush
          unfold World.pushAnchor at h
          split at h
          · simp at h
          · simp at h; subst h
            rcases push_cases hpush with hp | hp
            · intro k j hne
              exact Or.inl (pushCopy_heap hp w.HasSlice (fun v c hv hc => hbelow i v c (by simpa using hv) hc) hlt k j hne)
            · exact heap_same_frame (pushBorrowed_heap hp)
        · simp at h
    · simp at h
  | swapArena i ai =>
    simp only [World.step] at h
    split at h
    · simp at h; subst h; exact heap_same_frame rfl
    · simp at h
  | aReserve ai k =>
    simp only [World.step] at h
    split at h
    · simp at h; subst h; exact heap_same_frame rfl
    · simp at h
  | sSkip si k =>
    simp only [World.step] at h
    split at h
    · simp at h; subst h; exact heap_same_frame rfl
    · simp at h
  | sDropSuf si k =>
    simp only [World.step] at h
    split at h
    · simp at h; subst h; exact heap_same_frame rfl
    · simp at h
  | sSplit si k =>
    simp only [World.step] at h
    split at h
    · simp at h; subst h; exact heap_same_frame rfl
    · simp at h
  | backfill i bi bs =>
    simp only [World.step] at h
    split at h
    · intro k j hne
      obtain ⟨v, key, info, a, hv, hm, hp, h1, h2⟩ := backfill_heap h k j hne
      exact Or.inr ⟨i, bi, bs, v, key, info, a, rfl, hv, hm, hp, h1, h2⟩
    · simp at h
  | pop i =>
    simp only [World.step] at h
    split at h
    · rename_i w1 hc; simp at h; subst h; exact heap_same_frame (consume_heap hc)
    · simp at h
  | clear i =>
    simp only [World.step, World.clear] at h
    split at h
    · simp at h
    · simp at h; subst h; exact heap_same_frame rfl
  | take i =>
    simp only [World.step, World.take] at h
    split at h
    · rename_i w1 j' ht
      split at ht
      · simp at ht
      · simp at ht h
        subst h
        rw [← ht.1]; exact heap_same_frame rfl
    · simp at h
  | clone i =>
    simp only [World.step, World.clone] at h
    split at h
    · rename_i w1 j' ht
      split at ht
      · simp at ht
      · rename_i v0 _
        simp only [Option.some.injEq] at ht
        simp at h; subst h
        have e : w1 = (w.addIov { v0 with arena := ⟨none⟩ }).1 := by rw [ht]
        rw [e]; exact heap_same_frame rfl
    · simp at h
  | drop i =>
    simp only [World.step, World.dropIov] at h
    split at h
    · simp at h
    · simp at h; subst h; exact heap_same_frame rfl
  | flush i =>
    simp only [World.step] at h
    split at h
    · simp at h; subst h; exact heap_same_frame rfl
    · simp at h
  | takeArena i =>
    simp only [World.step] at h
    split at h
    · simp at h; subst h; exact heap_same_frame rfl
    · simp at h
  | aFlush ai =>
    simp only [World.step] at h
    split at h
    · simp at h; subst h; exact heap_same_frame rfl
    · simp at h
  | dropArena ai =>
    simp only [World.step] at h
    split at h
    · simp at h; subst h; exact heap_same_frame rfl
    · simp at h
  | sTake si =>
    simp only [World.step] at h
    split at h
    · simp at h; subst h; exact heap_same_frame rfl
    · simp at h
  | sClone si =>
    simp only [World.step] at h
    split at h
    · simp at h; subst h; exact heap_same_frame rfl
    · simp at h
  | sDrop si =>
    simp only [World.step] at h
    split at h
    · simp at h; subst h; exact heap_same_frame rfl
    · simp at h
  | readNIov i count attempts src script =>
    simp only [World.step, World.readNIov] at h
    split at h
    · simp at h
    · rename_i v hv
      rcases hr : w.readN v.arena ⟨src, script⟩ count attempts with ⟨w1, ar', res, o⟩
      simp only [hr] at h
      have hh := readN_heap hr w.HasSlice (fun c hc => hbelow i v c hv hc) hlt
      obtain ⟨hp, nx, rfl⟩ := readN_world hr
      have hiov : ({ w with heap := hp, next := nx } : World).iov i = some v := hv
      simp only [hiov] at h
      have e : w'.heap = hp := by cases res <;> (simp at h; subst h; rfl)
      intro k j hne
      rw [e] at hne
      exact Or.inl (hh k j hne)
  | readNArena a count attempts src script =>
    simp only [World.step, World.readNArena] at h
    split at h
    · simp at h
    · rename_i ar har
      rcases hr : w.readN ar ⟨src, script⟩ count attempts with ⟨w1, ar', res, o⟩
      simp only [hr] at h
      have hh := readN_heap hr w.HasSlice (fun c hc s hs hr' =>
        ha.below (.arena a) c s (by simp [World.cacheAt, har, hc]) hs hr') hlt
      obtain ⟨hp, nx, rfl⟩ := readN_world hr
      have e : w'.heap = hp := by cases res <;> (simp at h; subst h; rfl)
      intro k j hne
      rw [e] at hne
      exact Or.inl (hh k j hne)
  | lend bs => simp [World.step, World.addExt] at h; subst h; exact heap_same_frame rfl
  | pushAt i b off len =>
    simp only [World.step] at h
    split at h
    · rcases push_cases h with h | h
      · intro k j hne
        exact Or.inl (pushCopy_heap h w.HasSlice (fun v c hv hc => hbelow i v c hv hc) hlt k j hne)
      · exact heap_same_frame (pushBorrowed_heap h)
    · simp at h
  | pushBorrowedAt i b off len =>
    simp only [World.step] at h
    split at h
    · exact heap_same_frame (pushBorrowed_heap h)
    · simp at h

theorem exts_same {w w' : World} (e : w'.exts = w.exts) : ∃ t, w'.exts = w.exts ++ t := ⟨[], by simp [e]⟩

theorem pushCopy_exts {w w' : World} {i : Nat} {src : List UInt8} (h : w.pushCopy i src = some w') : w'.exts = w.exts := by
  obtain ⟨v, hv, ⟨_, rfl⟩ | ⟨hne, arena', next', chunk, off, v2, hal, ho, rfl⟩⟩ := pushCopy_spec h <;> rfl
theorem pushBorrowed_exts {w w' : World} {i : Nat} {s : Slice} (h : w.pushBorrowed i s = some w') : w'.exts = w.exts := by
  obtain ⟨v, hv, ⟨_, rfl⟩ | ⟨_, v', hp, rfl⟩⟩ := pushBorrowed_spec h <;> rfl
theorem push_exts {w w' : World} {i : Nat} {s : Slice} (h : w.push i s = some w') : w'.exts = w.exts := by
  rcases push_cases h with h | h
  · exact pushCopy_exts h
  · exact pushBorrowed_exts h
theorem extend_exts {w w' : World} {i : Nat} {slices : List Slice} (h : w.extend i slices = some w') : w'.exts = w.exts := by
  induction slices generalizing w with
  | nil => simp [World.extend] at h; subst h; rfl
  | cons s rest ih =>
    unfold World.extend at h
    split at h
    · exact ih h
    · split at h
      · simp at h
      · rename_i w1 hw1; rw [ih h, pushBorrowed_exts hw1]
theorem consume_exts {w w' : World} {i count k : Nat} (h : w.consume i count = some (w', k)) : w'.exts = w.exts := by
  obtain ⟨v, n, v', hv, _, hc, rfl⟩ := consume_spec h; rfl
theorem advance_exts {w w' : World} {i count c : Nat} (h : w.advance i count = some (w', c)) : w'.exts = w.exts := by
  obtain ⟨v, n, v', k, hv, _, hc, rfl⟩ := advance_spec h; rfl
theorem readInto_exts {w w' : World} {fuel i room : Nat} {acc out : List UInt8}
    (h : World.readInto fuel w i room acc = some (w', out)) : w'.exts = w.exts :=
  readInto_preserves (fun x => x.exts = w.exts) (fun _ _ _ _ _ hp ha => by rw [advance_exts ha, hp])
    fuel w i room acc w' out rfl h

/-- Caller buffers are only ever added. -/
theorem step_exts {w w' : World} {op : WOp} (h : w.step op = some w') : ∃ t, w'.exts = w.exts ++ t := by
  cases op with
  | new => simp [World.step] at h; subst h; exact exts_same rfl
  | newArena => simp [World.step] at h; subst h; exact exts_same rfl
  | newFromArena a =>
    simp only [World.step] at h
    split at h
    · simp at h; subst h; exact exts_same rfl
    · simp at h
  | newFromSlices bufs =>
    simp only [World.step] at h
    obtain ⟨h1, _⟩ := addExts_spec w bufs
    simp at h; subst h
    exact ⟨bufs, by simp [World.newFromSlices, World.addIov, h1]⟩
  | push i bs =>
    simp only [World.step, World.addExt] at h
    exact ⟨[bs], by rw [push_exts h]⟩
  | pushBorrowed i bs =>
    simp only [World.step, World.addExt] at h
    exact ⟨[bs], by rw [pushBorrowed_exts h]⟩
  | pushCopy i bs => exact exts_same (pushCopy_exts h)
  | register i pat =>
    simp only [World.step] at h
    split at h
    · rename_i w1 b hr
      simp at h; subst h
      rcases registerPatch_spec hr with ⟨_, rfl, _⟩ | ⟨_, w2, v, last, hpc, hv, _, _, _, _, rfl⟩
      · exact exts_same rfl
      · exact exts_same (show w2.exts = w.exts from pushCopy_exts hpc)
    · simp at h
  | extend i bufs =>
    simp only [World.step] at h
    obtain ⟨h1, _⟩ := addExts_spec w bufs
    rw [h1] at h
    exact ⟨bufs, by rw [extend_exts h]⟩
  | consume i k =>
    simp only [World.step] at h
    split at h
    · rename_i w1 c hc; simp at h; subst h; exact exts_same (consume_exts hc)
    · simp at h
  | advance i k =>
    simp only [World.step] at h
    split at h
    · rename_i w1 c hc; simp at h; subst h; exact exts_same (advance_exts hc)
    · simp at h
  | read i k =>
    simp only [World.step] at h
    split at h
    · rename_i w1 c hc; simp at h; subst h; exact exts_same (readInto_exts hc)
    · simp at h
  | reserve i k =>
    simp only [World.step] at h
    split at h
    · simp at h; subst h; exact exts_same rfl
    · simp at h
  | pushASlice i si =>
    simp only [World.step] at h
    split at h
    · split at h
      · simp at h; subst h; exact exts_same rfl
      · split at h
        · rename_i w1 hpush
          unfold World.pushAnchor at h
          split at h
          · simp at h
          · simp at h; subst h
            exact exts_same (show w1.exts = (w.setASlice si none).exts from push_exts hpush)
        · simp at h
    · simp at h
  | swapArena i ai =>
    simp only [World.step] at h
    split at h
    · simp at h; subst h; exact exts_same rfl
    · simp at h
  | aReserve ai k =>
    simp only [World.step] at h
    split at h
    · simp at h; subst h; exact exts_same rfl
    · simp at h
  | sSkip si k =>
    simp only [World.step] at h
    split at h
    · simp at h; subst h; exact exts_same rfl
    · simp at h
  | sDropSuf si k =>
    simp only [World.step] at h
    split at h
    · simp at h; subst h; exact exts_same rfl
    · simp at h
  | sSplit si k =>
    simp only [World.step] at h
    split at h
    · simp at h; subst h; exact exts_same rfl
    · simp at h
  | backfill i bi bs =>
    simp only [World.step] at h
    split at h
    · obtain ⟨v, hv, ⟨_, _, rfl⟩ | ⟨key, info, target, k, _, _, _, _, _, _, _, rfl⟩⟩ := backfill_spec h
      · exact exts_same rfl
      · exact exts_same rfl
    · simp at h
  | pop i =>
    simp only [World.step] at h
    split at h
    · rename_i w1 hc; simp at h; subst h; exact exts_same (consume_exts hc)
    · simp at h
  | clear i =>
    simp only [World.step, World.clear] at h
    split at h
    · simp at h
    · simp at h; subst h; exact exts_same rfl
  | take i =>
    simp only [World.step, World.take] at h
    split at h
    · rename_i w1 j' ht
      split at ht
      · simp at ht
      · simp at ht h
        subst h
        rw [← ht.1]; exact exts_same rfl
    · simp at h
  | clone i =>
    simp only [World.step, World.clone] at h
    split at h
    · rename_i w1 j' ht
      split at ht
      · simp at ht
      · rename_i v0 _
        simp only [Option.some.injEq] at ht
        simp at h; subst h
        have e : w1 = (w.addIov { v0 with arena := ⟨none⟩ }).1 := by rw [ht]
        rw [e]; exact exts_same rfl
    · simp at h
  | drop i =>
    simp only [World.step, World.dropIov] at h
    split at h
    · simp at h
    · simp at h; subst h; exact exts_same rfl
  | flush i =>
    simp only [World.step] at h
    split at h
    · simp at h; subst h; exact exts_same rfl
    · simp at h
  | takeArena i =>
    simp only [World.step] at h
    split at h
    · simp at h; subst h; exact exts_same rfl
    · simp at h
  | aFlush ai =>
    simp only [World.step] at h
    split at h
    · simp at h; subst h; exact exts_same rfl
    · simp at h
  | dropArena ai =>
    simp only [World.step] at h
    split at h
    · simp at h; subst h; exact exts_same rfl
    · simp at h
  | sTake si =>
    simp only [World.step] at h
    split at h
    · simp at h; subst h; exact exts_same rfl
    · simp at h
  | sClone si =>
    simp only [World.step] at h
    split at h
    · simp at h; subst h; exact exts_same rfl
    · simp at h
  | sDrop si =>
    simp only [World.step] at h
    split at h
    · simp at h; subst h; exact exts_same rfl
    · simp at h
  | readNIov i count attempts src script =>
    simp only [World.step, World.readNIov] at h
    split at h
    · simp at h
    · rename_i v hv
      rcases hr : w.readN v.arena ⟨src, script⟩ count attempts with ⟨w1, ar', res, o⟩
      simp only [hr] at h
      obtain ⟨hp, nx, rfl⟩ := readN_world hr
      have hiov : ({ w with heap := hp, next := nx } : World).iov i = some v := hv
      simp only [hiov] at h
      cases res <;> (simp at h; subst h; exact exts_same rfl)
  | readNArena a count attempts src script =>
    simp only [World.step, World.readNArena] at h
    split at h
    · simp at h
    · rename_i ar har
      rcases hr : w.readN ar ⟨src, script⟩ count attempts with ⟨w1, ar', res, o⟩
      simp only [hr] at h
      obtain ⟨hp, nx, rfl⟩ := readN_world hr
      cases res <;> (simp at h; subst h; exact exts_same rfl)
  | lend bs => simp [World.step, World.addExt] at h; subst h; exact ⟨[bs], rfl⟩
  | pushAt i b off len =>
    simp only [World.step] at h
    split at h
    · exact exts_same (push_exts h)
    · simp at h
  | pushBorrowedAt i b off len =>
    simp only [World.step] at h
    split at h
    · exact exts_same (pushBorrowed_exts h)
    · simp at h

/-- The bytes a slice reads through the world: unchanged by a step that writes only above it (and keeps
its caller buffer). -/
theorem sliceBytes_unchanged {w w' : World} {s : Slice} (hext : ExtOk w.exts s) (he : ∃ t, w'.exts = w.exts ++ t)
    (hheap : ∀ k j, s.region = .chunk k → s.off ≤ j → j < s.off + s.len → w'.heap.byteO k j = w.heap.byteO k j) :
    w'.sliceBytes s = w.sliceBytes s := by
  unfold World.sliceBytes
  cases hr : s.region with
  | chunk k =>
    simp only
    rw [Heap.read_eq_mapO, Heap.read_eq_mapO]
    apply List.map_congr_left
    intro j hj
    simp only [List.mem_range] at hj
    exact hheap k (s.off + j) hr (by omega) (by omega)
  | ext b =>
    simp only
    obtain ⟨t, ht⟩ := he
    obtain ⟨hb, _⟩ := hext b hr
    rw [ht]
    simp only [List.getD_eq_getElem?_getD]
    rw [List.getElem?_append_left hb]

/-- `clone_independent`, for every operation except `backfill`: NO slice of ANY object that existed
before the step reads different bytes after it — whoever performed the step, whatever chunks are
shared. -/
theorem step_bytes_unchanged {w w' : World} {caps : Nat → Nat} {op : WOp} (hg : GReach w caps) (h : w.step op = some w')
    (hnb : ∀ i b bs, op ≠ .backfill i b bs) {s : Slice} (hs : w.HasSlice s) (hext : ExtOk w.exts s) :
    w'.sliceBytes s = w.sliceBytes s := by
  refine sliceBytes_unchanged hext (step_exts h) ?_
  intro k j hr h1 h2
  apply Classical.byContradiction
  intro hne
  rcases step_frame_heap hg h k j hne with habove | ⟨X, b, bs, v, key, info, a, hop, _⟩
  · have := habove s hs hr; omega
  · exact hnb X b bs hop

/-- The byte range `[a, a+n)` misses slice `s` (an empty range misses everything). -/
def Disj (a n : Nat) (s : Slice) : Prop := n = 0 ∨ s.off + s.len ≤ a ∨ a + n ≤ s.off

/-- A slice some object OTHER than iovec `X` can read. -/
def World.OtherSlice (w : World) (X : Nat) (s : Slice) : Prop :=
  (∃ Y vY, Y ≠ X ∧ w.iov Y = some vY ∧ s ∈ vY.slices) ∨ (∃ j a, w.aslice j = some a ∧ a.slice = s)

/-- `pending_private`: the byte range of every pending placeholder of every iovec `X` is covered by
no slice of any other object. -/
def PendingPrivate (w : World) : Prop :=
  ∀ X v key info k a n, w.iov X = some v → (key, info) ∈ v.backrefs → v.pendingRange info = some (k, a, n) →
    ∀ s, w.OtherSlice X s → s.region = .chunk k → Disj a n s

/-- `clone_independent` for `backfill`, given `pending_private`: the write lands in a pending range of
`X`, which no slice of another iovec `Y` (nor any detached slice) covers. -/
theorem backfill_bytes_unchanged {w w' : World} {caps : Nat → Nat} {X b : Nat} {bs : List UInt8} (hg : GReach w caps)
    (hp : PendingPrivate w) (h : w.step (.backfill X b bs) = some w') {s : Slice} (hs : w.OtherSlice X s)
    (hext : ExtOk w.exts s) : w'.sliceBytes s = w.sliceBytes s := by
  have hhas : w.HasSlice s := by
    rcases hs with ⟨Y, vY, _, hv, hm⟩ | ⟨j, a, ha, hm⟩
    · exact Or.inl ⟨Y, vY, hv, hm⟩
    · exact Or.inr ⟨j, a, ha, hm⟩
  refine sliceBytes_unchanged hext (step_exts h) ?_
  intro k j hr h1 h2
  apply Classical.byContradiction
  intro hne
  rcases step_frame_heap hg h k j hne with habove | ⟨X', b', bs', v, key, info, a, hop, hv, hm, hpr, h3, h4⟩
  · have := habove s hhas hr; omega
  · cases hop
    rcases hp X v key info k a info.len hv hm hpr s hs hr with h0 | h0 | h0 <;> omega

end Woodpile.Iovec

/-
Layer-B glue: the backref handle table `World.brefs` is read by no model function except the handle
lookup of the `WOp` `backfill`.  `World.wb w B` replaces the table; every function an `Op` / an encoder
emit calls commutes with it.  This is what lets a history that passes tokens BY VALUE (the C03/C04
vocabulary, the HCOBS encoder) be replayed literally as a `WOp` history, whose world carries the tokens
in the table (`Proofs/EncGlue.lean`, `enc_prefix_is_wrun`).
-/
import Woodpile.Proofs.IovecGlue

namespace Woodpile.Iovec
open Woodpile.Arena

/-- Replace the backref handle table. -/
def World.wb (w : World) (B : List Backref) : World := { w with brefs := B }

@[simp] theorem wb_iov (w : World) (B : List Backref) (i : Nat) : (w.wb B).iov i = w.iov i := rfl
@[simp] theorem wb_tun (w : World) (B : List Backref) : (w.wb B).tun = w.tun := rfl
@[simp] theorem wb_pol (w : World) (B : List Backref) : (w.wb B).pol = w.pol := rfl
@[simp] theorem wb_next (w : World) (B : List Backref) : (w.wb B).next = w.next := rfl
@[simp] theorem wb_heap (w : World) (B : List Backref) : (w.wb B).heap = w.heap := rfl
@[simp] theorem wb_exts (w : World) (B : List Backref) : (w.wb B).exts = w.exts := rfl
@[simp] theorem wb_brefs (w : World) (B : List Backref) : (w.wb B).brefs = B := rfl
@[simp] theorem wb_setIov (w : World) (B : List Backref) (i : Nat) (x : Option Iov) :
    (w.wb B).setIov i x = (w.setIov i x).wb B := rfl
@[simp] theorem wb_sliceBytes (w : World) (B : List Backref) (s : Slice) : (w.wb B).sliceBytes s = w.sliceBytes s := rfl
theorem wb_self (w : World) : w.wb w.brefs = w := rfl
theorem wb_wb (w : World) (B B' : List Backref) : (w.wb B).wb B' = w.wb B' := rfl
theorem wb_addExt (w : World) (B : List Backref) (d : List UInt8) : ((w.wb B).addExt d).1 = (w.addExt d).1.wb B := rfl
theorem wb_addBref (w : World) (B : List Backref) (b : Backref) : ((w.wb B).addBref b).1 = w.wb (B ++ [b]) := rfl

theorem pushCopy_wb (w : World) (B : List Backref) (i : Nat) (src : List UInt8) :
    (w.wb B).pushCopy i src = (w.pushCopy i src).map (·.wb B) := by
  cases hv : w.iov i with
  | none => unfold World.pushCopy; simp only [wb_iov, hv]; rfl
  | some v =>
    by_cases hne : src = []
    · subst hne; unfold World.pushCopy; simp only [wb_iov, hv]; rfl
    · rw [pushCopy_eq (w.wb B) i v src hv hne, pushCopy_eq w i v src hv hne]
      simp only [wb_tun, wb_next, wb_heap]
      by_cases h1 : (pcAnchors v.anchors (alloc w.tun v.arena w.next src.length).2.2.1).isEmpty = true
      · simp only [h1, if_true, Option.map_none]
      · simp only [h1, Bool.false_eq_true, if_false]
        split
        · rename_i heq; simp only [Option.map_none]
        · rename_i v2 heq; simp only [Option.map_some]; rfl

theorem pushBorrowed_wb (w : World) (B : List Backref) (i : Nat) (s : Slice) :
    (w.wb B).pushBorrowed i s = (w.pushBorrowed i s).map (·.wb B) := by
  unfold World.pushBorrowed
  simp only [wb_iov]
  cases w.iov i with
  | none => rfl
  | some v =>
    simp only
    by_cases h0 : s.len = 0
    · simp only [h0, if_true, Option.map_some]
    · simp only [h0, if_false]
      cases v.pushBorrowedSlice s <;> rfl

theorem push_wb (w : World) (B : List Backref) (i : Nat) (s : Slice) :
    (w.wb B).push i s = (w.push i s).map (·.wb B) := by
  unfold World.push
  simp only [wb_iov, wb_pol, wb_sliceBytes]
  cases w.iov i with
  | none => rfl
  | some v =>
    simp only
    rw [apply_ite (Option.map (fun x : World => x.wb B)), ← pushCopy_wb, ← pushBorrowed_wb]
    rfl

theorem registerPatch_wb (w : World) (B : List Backref) (i : Nat) (pat : List UInt8) :
    (w.wb B).registerPatch i pat = (w.registerPatch i pat).map (fun x => (x.1.wb B, x.2)) := by
  unfold World.registerPatch
  by_cases hp : pat.isEmpty = true
  · simp only [hp, if_true, Option.map_some]
  · simp only [hp, Bool.false_eq_true, if_false]
    rw [pushCopy_wb]
    cases w.pushCopy i pat with
    | none => rfl
    | some w1 =>
      simp only [Option.map_some, wb_iov]
      cases w1.iov i with
      | none => rfl
      | some v =>
        simp only
        cases v.slices.getLast? with
        | none => rfl
        | some last =>
          simp only [apply_ite (Option.map (fun x : World × Backref => (x.1.wb B, x.2))), Option.map_none,
            Option.map_some]
          rfl

theorem backfill_wb (w : World) (B : List Backref) (i : Nat) (b : Backref) (src : List UInt8) :
    (w.wb B).backfill i b src = (w.backfill i b src).map (·.wb B) := by
  unfold World.backfill
  simp only [wb_iov, wb_heap]
  cases w.iov i with
  | none => rfl
  | some v =>
    simp only
    cases b with
    | none => by_cases hs : src.isEmpty = true <;> simp [hs]
    | some p =>
      obtain ⟨key, info⟩ := p
      simp only
      split
      · rfl
      · split
        · rfl
        · split
          · rfl
          · split
            · rfl
            · split
              · rfl
              · split
                · rfl
                · split <;> rfl

theorem consume_wb (w : World) (B : List Backref) (i count : Nat) :
    (w.wb B).consume i count = (w.consume i count).map (fun x => (x.1.wb B, x.2)) := by
  unfold World.consume
  simp only [wb_iov]
  cases w.iov i with
  | none => rfl
  | some v =>
    simp only
    cases v.stableCount with
    | none => rfl
    | some n =>
      simp only
      cases v.consumeSlices (min count n) <;> rfl

theorem advance_wb (w : World) (B : List Backref) (i count : Nat) :
    (w.wb B).advance i count = (w.advance i count).map (fun x => (x.1.wb B, x.2)) := by
  unfold World.advance
  simp only [wb_iov]
  cases w.iov i with
  | none => rfl
  | some v =>
    simp only
    cases v.stableCount with
    | none => rfl
    | some n =>
      simp only
      split <;> rfl

end Woodpile.Iovec

namespace Woodpile.Iovec
open Woodpile.Arena

/-! ### The remaining functions of the `Op` vocabulary, and `step` itself -/

theorem extend_wb (B : List Backref) (i : Nat) : ∀ (slices : List Slice) (w : World),
    (w.wb B).extend i slices = (w.extend i slices).map (·.wb B) := by
  intro slices
  induction slices with
  | nil => intro w; rfl
  | cons s rest ih =>
    intro w
    unfold World.extend
    by_cases h0 : s.len = 0
    · simp only [h0, if_true]; exact ih w
    · simp only [h0, if_false]
      rw [pushBorrowed_wb]
      cases w.pushBorrowed i s with
      | none => rfl
      | some w1 => simp only [Option.map_some]; exact ih w1

theorem clear_wb (w : World) (B : List Backref) (i : Nat) : (w.wb B).clear i = (w.clear i).map (·.wb B) := by
  unfold World.clear
  simp only [wb_iov]
  cases w.iov i <;> rfl

theorem flat_wb (w : World) (B : List Backref) (l : List Slice) : (w.wb B).flat l = w.flat l := rfl

theorem readInto_wb (B : List Backref) (i : Nat) : ∀ (fuel : Nat) (w : World) (room : Nat) (acc : List UInt8),
    World.readInto fuel (w.wb B) i room acc = (World.readInto fuel w i room acc).map (fun x => (x.1.wb B, x.2)) := by
  intro fuel
  induction fuel with
  | zero => intro w room acc; rfl
  | succ fuel ih =>
    intro w room acc
    unfold World.readInto
    by_cases hr : room = 0
    · simp only [hr, if_true, Option.map_some]
    · simp only [hr, if_false, wb_iov, wb_sliceBytes]
      cases w.iov i with
      | none => rfl
      | some v =>
        simp only
        cases v.stableCount with
        | none => rfl
        | some n =>
          simp only
          cases (v.slices.take n).head? with
          | none => rfl
          | some s =>
            simp only
            rw [advance_wb]
            cases w.advance i (min s.len room) with
            | none => rfl
            | some x => simp only [Option.map_some]; exact ih x.1 _ _

theorem lendAll_wb (B : List Backref) : ∀ (bs : List Borrow) (w : World),
    (w.wb B).lendAll bs = ((w.lendAll bs).1.wb B, (w.lendAll bs).2) := by
  intro bs
  induction bs with
  | nil => intro w; rfl
  | cons b t ih =>
    intro w
    simp only [World.lendAll]
    have e : ((w.wb B).lend b) = ((w.lend b).1.wb B, (w.lend b).2) := rfl
    rw [e]
    simp only
    rw [ih]

/-- The state with the handle table replaced. -/
def State.wb (s : State) (B : List Backref) : State := { s with w := s.w.wb B }

/-- `step` does not read the handle table. -/
theorem step_wb (i : Nat) (s : State) (B : List Backref) (op : Op) :
    step i (s.wb B) op = (step i s op).map (fun x => (x.1.wb B, x.2)) := by
  cases op with
  | pushCopy src =>
    simp only [step, State.wb, pushCopy_wb, Option.map_map]; rfl
  | pushBorrowed b =>
    have e : ((s.w.wb B).lend b) = ((s.w.lend b).1.wb B, (s.w.lend b).2) := rfl
    simp only [step, State.wb, e, pushBorrowed_wb, Option.map_map]; rfl
  | push b =>
    have e : ((s.w.wb B).lend b) = ((s.w.lend b).1.wb B, (s.w.lend b).2) := rfl
    simp only [step, State.wb, e, push_wb, Option.map_map]; rfl
  | extend bs =>
    simp only [step, State.wb, lendAll_wb, extend_wb, Option.map_map]; rfl
  | registerPatch pat =>
    simp only [step, State.wb, registerPatch_wb, Option.map_map]; rfl
  | backfill tok src =>
    simp only [step, State.wb, backfill_wb, Option.map_map]; rfl
  | consume count =>
    simp only [step, State.wb, wb_iov]
    cases s.w.iov i with
    | none => rfl
    | some v => simp only [consume_wb, Option.map_map]; rfl
  | pop =>
    simp only [step, State.wb, wb_iov]
    cases s.w.iov i with
    | none => rfl
    | some v =>
      simp only [consume_wb]
      cases s.w.consume i 1 with
      | none => rfl
      | some x =>
        obtain ⟨w', k⟩ := x
        simp only [Option.map_some]
        by_cases hk : k = 1
        · subst hk; rfl
        · cases k with
          | zero => rfl
          | succ k =>
            cases k with
            | zero => exact absurd rfl hk
            | succ k => rfl
  | advance count =>
    simp only [step, State.wb, wb_iov]
    cases s.w.iov i with
    | none => rfl
    | some v => simp only [advance_wb, Option.map_map]; rfl
  | readInto room =>
    simp only [step, State.wb, readInto_wb, Option.map_map]; rfl
  | clear =>
    simp only [step, State.wb, clear_wb, Option.map_map]; rfl
  | flush =>
    simp only [step, State.wb, wb_iov]
    cases s.w.iov i <;> rfl
  | reserve k =>
    simp only [step, State.wb, wb_iov]
    cases s.w.iov i <;> rfl

end Woodpile.Iovec

namespace Woodpile.Iovec
open Woodpile.Arena

/-! ### A whole `Op` history as ONE `WOp` history -/

/-- The handle table after an op that returned `r`: `registerPatch` appends the token it returned. -/
def tokAfter (B : List Backref) : Op → Ret → List Backref
  | .registerPatch _, .token b => B ++ [b]
  | _, _ => B

def tokIn (B : List Backref) : Op → Prop
  | .backfill tok _ => tok ∈ B
  | _ => True

/-- Every token a `backfill` of the history uses is in the table `B` or was returned by an earlier
`registerPatch` of the history (in Rust a `Backref` cannot be forged: its fields are private). -/
def TokOk : List Backref → List Op → List Ret → Prop
  | B, op :: ops, r :: rs => tokIn B op ∧ TokOk (tokAfter B op r) ops rs
  | _, _, _ => True

theorem op_step_is_wrun (i : Nat) (s s' : State) (op : Op) (r : Ret) (B : List Backref)
    (h : step i s op = some (s', r)) (htok : tokIn B op) :
    ∃ wops, (s.w.wb B).run wops = some (s'.w.wb (tokAfter B op r)) := by
  have hB : step i (s.wb B) op = some (s'.wb B, r) := by rw [step_wb, h]; rfl
  have ha := op_is_wstep i (s.wb B) (s'.wb B) op r hB
  cases op with
  | registerPatch pat =>
    obtain ⟨b, rfl, hr⟩ := ha
    exact ⟨_, hr⟩
  | backfill tok src =>
    obtain ⟨bi, hlt, hget⟩ := List.getElem_of_mem htok
    have hd : B.getD bi none = tok := by
      rw [List.getD_eq_getElem?_getD, List.getElem?_eq_getElem hlt, hget]; rfl
    exact ⟨_, ha bi hlt hd⟩
  | pushCopy src => exact ⟨_, ha⟩
  | pushBorrowed b => exact ⟨_, ha⟩
  | push b => exact ⟨_, ha⟩
  | extend bs => exact ⟨_, ha⟩
  | consume count => exact ⟨_, ha⟩
  | pop => exact ⟨_, ha⟩
  | advance count => exact ⟨_, ha⟩
  | readInto room => exact ⟨_, ha⟩
  | clear => exact ⟨_, ha⟩
  | flush => exact ⟨_, ha⟩
  | reserve k => exact ⟨_, ha⟩

/-- Target 1, run level: an `Op` history on iovec handle `i` is a `WOp` history on the world with
the tokens in its handle table. -/
theorem op_run_is_wrun (i : Nat) : ∀ (ops : List Op) (s s' : State) (rs : List Ret) (B : List Backref),
    run i s ops = some (s', rs) → TokOk B ops rs →
    ∃ wops B', (s.w.wb B).run wops = some (s'.w.wb B') := by
  intro ops
  induction ops with
  | nil =>
    intro s s' rs B h _
    simp only [run, Option.some.injEq, Prod.mk.injEq] at h
    obtain ⟨rfl, _⟩ := h
    exact ⟨[], B, rfl⟩
  | cons op t ih =>
    intro s s' rs B h htok
    simp only [run] at h
    cases h1 : step i s op with
    | none => rw [h1] at h; cases h
    | some x =>
      obtain ⟨s1, r⟩ := x
      rw [h1] at h
      simp only at h
      cases h2 : run i s1 t with
      | none => rw [h2] at h; cases h
      | some y =>
        obtain ⟨s2, rs'⟩ := y
        rw [h2] at h
        simp only [Option.some.injEq, Prod.mk.injEq] at h
        obtain ⟨rfl, rfl⟩ := h
        obtain ⟨ht1, ht2⟩ := htok
        obtain ⟨w1, hw1⟩ := op_step_is_wrun i s s1 op r B h1 ht1
        obtain ⟨w2, B', hw2⟩ := ih s1 s2 rs' _ h2 ht2
        exact ⟨w1 ++ w2, B', run_append_some hw1 hw2⟩

/-- … from `State.init`: the reached world (with the tokens in the handle table) is `Reachable`. -/
theorem op_run_reachable (pol : Policy) (tun : Tuning) (ops : List Op) (s' : State) (rs : List Ret)
    (h : run 0 (State.init pol tun) ops = some (s', rs)) (htok : TokOk [] ops rs) :
    ∃ B', Reachable (s'.w.wb B') := by
  obtain ⟨wops, B', hr⟩ := op_run_is_wrun 0 ops _ s' rs [] h htok
  refine ⟨B', pol, tun, .new :: wops, ?_⟩
  have : (World.init pol tun).step .new = some ((State.init pol tun).w.wb []) := rfl
  simp only [World.run, this]
  exact hr

end Woodpile.Iovec

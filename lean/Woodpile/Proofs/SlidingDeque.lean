/-
Helper lemmas for C15 (`Woodpile.SlidingDeque`): the representation invariant is
exactly `check_rep`, and every public operation, started in a state satisfying it,
does not panic, re-establishes it, and acts on the view `container.drop consumed`
like the corresponding `List` operation.
-/
import Woodpile.Model.SlidingDeque

namespace Woodpile.SlidingDeque
variable {α : Type}

/-- The representation invariant: what `check_rep` asserts. -/
structure Inv (s : SDeque α) : Prop where
  /-- the space bound: the consumed prefix is at most half of the container -/
  half : s.consumed ≤ s.container.length / 2
  /-- an empty deque is in the clean state -/
  clean : s.view = [] → s.consumed = 0

namespace SDeque

theorem view_length (s : SDeque α) : s.view.length = s.container.length - s.consumed := by
  simp [view]

theorem deref_eq_some {s : SDeque α} (h : s.consumed ≤ s.container.length) :
    s.deref = some s.view := by
  simp [deref, view, h]

theorem deref_eq_none {s : SDeque α} (h : ¬ s.consumed ≤ s.container.length) :
    s.deref = none := by
  simp [deref, h]

theorem checkRep_iff (s : SDeque α) : s.checkRep = true ↔ Inv s := by
  unfold checkRep
  by_cases h : s.consumed ≤ s.container.length
  · rw [deref_eq_some h]
    simp only [Bool.and_eq_true, Bool.or_eq_true, Bool.not_eq_true', List.isEmpty_eq_false_iff,
      beq_iff_eq, decide_eq_true_eq, ne_eq]
    constructor
    · rintro ⟨h1, h2⟩
      exact ⟨h2, fun hv => by rcases h1 with h1 | h1; exact absurd hv h1; exact h1⟩
    · rintro ⟨h1, h2⟩
      refine ⟨?_, h1⟩
      by_cases hv : s.view = []
      · exact Or.inr (h2 hv)
      · exact Or.inl hv
  · rw [deref_eq_none h]
    simp only [Bool.false_eq_true, false_iff]
    intro h1
    have := h1.half
    omega

end SDeque

theorem Inv.le {s : SDeque α} (h : Inv s) : s.consumed ≤ s.container.length := by
  have := h.half; omega

theorem Inv.deref {s : SDeque α} (h : Inv s) : s.deref = some s.view := SDeque.deref_eq_some h.le

theorem Inv.check {s : SDeque α} (h : Inv s) : check s.checkRep = some () := by
  simp [Woodpile.SlidingDeque.check, (SDeque.checkRep_iff s).2 h]

namespace SDeque

theorem check_eq_some {b : Bool} : check b = some () ↔ b = true := by
  cases b <;> simp [Woodpile.SlidingDeque.check]

theorem inv_empty : Inv (empty : SDeque α) := ⟨by simp [empty], by simp [empty]⟩

theorem inv_ofList (l : List α) : Inv (ofList l) := ⟨by simp [ofList], by simp [ofList]⟩

theorem view_ofList (l : List α) : (ofList l).view = l := by
  simp [ofList, view]

theorem new_eq : (new : Option (SDeque α)) = some empty := by
  simp [new, inv_empty.check]

/-! ### `slide` / `maybe_slide` -/

theorem slide_spec {s : SDeque α} (h : s.consumed ≤ s.container.length) :
    ∃ s', s.slide = some s' ∧ s'.view = s.view ∧ s'.consumed = 0 ∧ Inv s' := by
  have hinv : Inv (⟨0, s.container.drop s.consumed⟩ : SDeque α) := ⟨by simp, by simp⟩
  refine ⟨⟨0, s.container.drop s.consumed⟩, ?_, by simp [view], rfl, hinv⟩
  simp [slide, Woodpile.SlidingDeque.check, h, (checkRep_iff _).2 hinv]

theorem maybeSlide_spec {s : SDeque α} (h : s.consumed ≤ s.container.length) :
    ∃ s', s.maybeSlide = some s' ∧ s'.view = s.view ∧ Inv s' := by
  unfold maybeSlide
  rw [deref_eq_some h]
  by_cases hc : s.container.length / 2 < s.consumed ∨ s.view = []
  · obtain ⟨s', hs, hv, _, hi⟩ := slide_spec h
    refine ⟨s', ?_, hv, hi⟩
    simp [hc, hs, hi.check]
  · have hi : Inv s := by
      simp only [not_or, Nat.not_lt] at hc
      exact ⟨hc.1, fun hv => absurd hv hc.2⟩
    refine ⟨s, ?_, rfl, hi⟩
    simp [hc, hi.check]

/-! ### The public operations -/

theorem pushBack_spec {s : SDeque α} (h : Inv s) (x : α) :
    ∃ s', s.pushBack x = some s' ∧ s'.view = s.view ++ [x] ∧ Inv s' := by
  have hle := h.le
  have hinv : Inv ({ s with container := s.container ++ [x] } : SDeque α) := by
    refine ⟨?_, ?_⟩
    · have := h.half; simp only [List.length_append, List.length_singleton]; omega
    · simp [view, List.drop_append_of_le_length hle]
  refine ⟨_, ?_, ?_, hinv⟩
  · simp [pushBack, h.check, hinv.check]
  · simp [view, List.drop_append_of_le_length hle]

theorem front_spec {s : SDeque α} (h : Inv s) : s.front = some s.view.head? := by
  simp [front, h.check, h.deref]

theorem back_spec {s : SDeque α} (h : Inv s) : s.back = some s.view.getLast? := by
  simp [back, h.check, h.deref]

theorem popFront_spec {s : SDeque α} (h : Inv s) :
    ∃ s', s.popFront = some (s.view.head?, s') ∧ s'.view = s.view.drop 1 ∧ Inv s' := by
  unfold popFront
  rw [h.check, front_spec h]
  cases hv : s.view.head? with
  | none =>
    refine ⟨s, by simp, ?_, h⟩
    simp only [List.head?_eq_none_iff] at hv
    simp [hv]
  | some r =>
    have hne : s.view ≠ [] := by intro h0; simp [h0] at hv
    have hlen : s.consumed + 1 ≤ s.container.length := by
      have : s.view.length ≠ 0 := by simpa using hne
      rw [view_length] at this; omega
    obtain ⟨s2, hs2, hv2, hi2⟩ :=
      maybeSlide_spec (s := { s with consumed := s.consumed + 1 }) hlen
    refine ⟨s2, ?_, ?_, hi2⟩
    · simp [hs2, hi2.check]
    · rw [hv2]; simp [view, List.drop_drop]

theorem popBack_spec {s : SDeque α} (h : Inv s) :
    ∃ s', s.popBack = some (s.view.getLast?, s') ∧ s'.view = s.view.dropLast ∧ Inv s' := by
  unfold popBack
  rw [h.check, back_spec h]
  cases hv : s.view.getLast? with
  | none =>
    refine ⟨s, by simp, ?_, h⟩
    simp only [List.getLast?_eq_none_iff] at hv
    simp [hv]
  | some r =>
    have hne : s.view ≠ [] := by intro h0; simp [h0] at hv
    have hlen : s.consumed + 1 ≤ s.container.length := by
      have : s.view.length ≠ 0 := by simpa using hne
      rw [view_length] at this; omega
    have hcne : s.container ≠ [] := by intro h0; simp [h0] at hlen
    have hlen' : s.consumed ≤ s.container.dropLast.length := by
      simp only [List.length_dropLast]; omega
    obtain ⟨s2, hs2, hv2, hi2⟩ :=
      maybeSlide_spec (s := { s with container := s.container.dropLast }) hlen'
    refine ⟨s2, ?_, ?_, hi2⟩
    · have hc1 : check (!s.container.isEmpty) = some () := by
        simp [Woodpile.SlidingDeque.check, hcne]
      simp [hc1, hs2, hi2.check]
    · rw [hv2]
      simp only [view, List.dropLast_eq_take, List.length_drop]
      rw [List.drop_take]
      congr 1
      omega

theorem advance_spec {s : SDeque α} (h : Inv s) (n : Nat) :
    ∃ s', s.advance n = some (min n s.view.length, s') ∧ s'.view = s.view.drop n ∧ Inv s' := by
  unfold advance
  rw [h.check]
  have hle := h.le
  have hlen : s.consumed + min (s.container.length - s.consumed) n ≤ s.container.length := by omega
  obtain ⟨s2, hs2, hv2, hi2⟩ :=
    maybeSlide_spec (s := { s with consumed := s.consumed + min (s.container.length - s.consumed) n }) hlen
  have hmin : min n s.view.length = min (s.container.length - s.consumed) n := by
    rw [view_length, Nat.min_comm]
  refine ⟨s2, ?_, ?_, hi2⟩
  · rw [hmin]
    simp only [Option.pure_def, Option.bind_eq_bind, Option.bind_some, hs2, hi2.check]
  · rw [hv2]
    simp only [view, List.drop_drop]
    by_cases hc : n ≤ s.container.length - s.consumed
    · rw [Nat.min_eq_right hc]
    · have h1 : min (s.container.length - s.consumed) n = s.container.length - s.consumed := by omega
      rw [h1, List.drop_of_length_le (by omega), List.drop_of_length_le (by omega)]

theorem clear_spec (s : SDeque α) : s.clear = some empty := by
  have h := (inv_empty (α := α)).check
  unfold empty at h ⊢
  simp [clear, h]

theorem slide_spec' {s : SDeque α} (h : Inv s) :
    ∃ s', s.slide = some s' ∧ s'.view = s.view ∧ Inv s' := by
  obtain ⟨s', h1, h2, _, h3⟩ := slide_spec h.le
  exact ⟨s', h1, h2, h3⟩

theorem view_set {s : SDeque α} (i : Nat) (x : α) :
    ({ s with container := s.container.set (s.consumed + i) x } : SDeque α).view = s.view.set i x := by
  simp only [view, List.drop_set]
  rw [if_neg (by omega)]
  congr 2
  omega

theorem inv_set {s : SDeque α} (h : Inv s) (i : Nat) (x : α) :
    Inv ({ s with container := s.container.set (s.consumed + i) x } : SDeque α) := by
  refine ⟨by simpa using h.half, ?_⟩
  rw [view_set]
  intro hv
  apply h.clean
  simpa using hv

theorem setFront_spec {s : SDeque α} (h : Inv s) (x : α) :
    ∃ s', s.setFront x = some (!s.view.isEmpty, s') ∧ s'.view = s.view.set 0 x ∧ Inv s' := by
  unfold setFront
  rw [h.check, h.deref]
  by_cases hv : s.view = []
  · refine ⟨s, by simp [hv], ?_, h⟩
    simp [hv]
  · refine ⟨{ s with container := s.container.set s.consumed x }, by simp [hv], ?_, ?_⟩
    · simpa using view_set (s := s) 0 x
    · simpa using inv_set h 0 x

theorem setBack_spec {s : SDeque α} (h : Inv s) (x : α) :
    ∃ s', s.setBack x = some (!s.view.isEmpty, s') ∧
      s'.view = s.view.set (s.view.length - 1) x ∧ Inv s' := by
  unfold setBack
  rw [h.check, h.deref]
  by_cases hv : s.view = []
  · refine ⟨s, by simp [hv], ?_, h⟩
    simp [hv]
  · have hne : s.view.length ≠ 0 := by simpa using hv
    rw [view_length] at hne
    have hidx : s.container.length - 1 = s.consumed + (s.view.length - 1) := by
      rw [view_length]; omega
    refine ⟨{ s with container := s.container.set (s.container.length - 1) x }, by simp [hv], ?_, ?_⟩
    · rw [hidx]; exact view_set _ x
    · rw [hidx]; exact inv_set h _ x

theorem setAt_spec {s : SDeque α} (h : Inv s) (i : Nat) (x : α) :
    ∃ s', s.setAt i x = some (decide (i < s.view.length), s') ∧ s'.view = s.view.set i x ∧ Inv s' := by
  unfold setAt
  rw [h.deref]
  by_cases hi : i < s.view.length
  · exact ⟨_, by simp [hi], view_set i x, inv_set h i x⟩
  · refine ⟨s, by simp [hi], ?_, h⟩
    rw [List.set_eq_of_length_le (by omega)]

end SDeque

/-! ### One step, and operation sequences -/

/-- The simulation lemma: from a state satisfying the invariant, every operation
succeeds (no panic), returns what the reference deque returns on the view, leaves
the view equal to the reference's new contents, and re-establishes the invariant. -/
theorem step_spec {s : SDeque α} (h : Inv s) (op : Op α) :
    ∃ s', step s op = some ((stepRef s.view op).1, s') ∧ s'.view = (stepRef s.view op).2 ∧ Inv s' := by
  cases op with
  | pushBack x =>
    obtain ⟨s', h1, h2, h3⟩ := SDeque.pushBack_spec h x
    exact ⟨s', by simp [step, stepRef, h1], by simp [stepRef, h2], h3⟩
  | front => exact ⟨s, by simp [step, stepRef, SDeque.front_spec h], rfl, h⟩
  | back => exact ⟨s, by simp [step, stepRef, SDeque.back_spec h], rfl, h⟩
  | popFront =>
    obtain ⟨s', h1, h2, h3⟩ := SDeque.popFront_spec h
    exact ⟨s', by simp [step, stepRef, h1], by simp [stepRef, h2], h3⟩
  | popBack =>
    obtain ⟨s', h1, h2, h3⟩ := SDeque.popBack_spec h
    exact ⟨s', by simp [step, stepRef, h1], by simp [stepRef, h2], h3⟩
  | advance n =>
    obtain ⟨s', h1, h2, h3⟩ := SDeque.advance_spec h n
    exact ⟨s', by simp [step, stepRef, h1], by simp [stepRef, h2], h3⟩
  | clear =>
    exact ⟨SDeque.empty, by simp [step, stepRef, SDeque.clear_spec], by simp [stepRef, SDeque.empty, SDeque.view],
      SDeque.inv_empty⟩
  | slide =>
    obtain ⟨s', h1, h2, h3⟩ := SDeque.slide_spec' h
    exact ⟨s', by simp [step, stepRef, h1], by simp [stepRef, h2], h3⟩
  | setFront x =>
    obtain ⟨s', h1, h2, h3⟩ := SDeque.setFront_spec h x
    exact ⟨s', by simp [step, stepRef, h1], by simp [stepRef, h2], h3⟩
  | setBack x =>
    obtain ⟨s', h1, h2, h3⟩ := SDeque.setBack_spec h x
    exact ⟨s', by simp [step, stepRef, h1], by simp [stepRef, h2], h3⟩
  | setAt i x =>
    obtain ⟨s', h1, h2, h3⟩ := SDeque.setAt_spec h i x
    exact ⟨s', by simp [step, stepRef, h1], by simp [stepRef, h2], h3⟩

theorem run_spec {s : SDeque α} (h : Inv s) (ops : List (Op α)) :
    ∃ s', run s ops = some ((runRef s.view ops).1, s') ∧ s'.view = (runRef s.view ops).2 ∧ Inv s' := by
  induction ops generalizing s with
  | nil => exact ⟨s, rfl, rfl, h⟩
  | cons op ops ih =>
    obtain ⟨s1, h1, hv1, hi1⟩ := step_spec h op
    obtain ⟨s2, h2, hv2, hi2⟩ := ih hi1
    refine ⟨s2, ?_, ?_, hi2⟩
    · simp only [run, h1, h2, runRef, hv1]
    · simp only [runRef, hv2, hv1]

end Woodpile.SlidingDeque

/-
Layer B → Layer A, part 2: the abstraction of one `OwningIovec` of the
structural model to the abstract byte pipe (`Woodpile.Pipe`), the operation
vocabulary of C03/C04 with its `step` function, and the per-operation
refinement lemmas.

`absCells w v` reads the unconsumed bytes of `v` through the heap / the caller
buffers and turns every byte that lies inside a pending backref range into a
hole cell whose id is the backref key (= logical offset of the end of the
range).
-/
import Woodpile.Proofs.IovecInv

namespace Woodpile.Iovec
open Woodpile.Arena
open Woodpile.Pipe (Cell Pipe cellBytes fillCells)

/-! ### Cells from bytes and pending ranges -/

/-- The pending backref (its key) whose logical byte range `[key - len, key)` contains `off`. -/
def holeAt : List (Nat × BackrefInfo) → Nat → Option Nat
  | [], _ => none
  | e :: t, off => if e.1 ≤ off + e.2.len ∧ off < e.1 then some e.1 else holeAt t off

/-- Cells for the bytes `bs` that start at logical offset `off`. -/
def mkCells (brs : List (Nat × BackrefInfo)) : Nat → List UInt8 → List Cell
  | _, [] => []
  | off, b :: bs =>
    (match holeAt brs off with
     | some k => Cell.hole k
     | none => Cell.byte b) :: mkCells brs (off + 1) bs

@[simp] theorem mkCells_length (brs : List (Nat × BackrefInfo)) (off : Nat) (bs : List UInt8) :
    (mkCells brs off bs).length = bs.length := by
  induction bs generalizing off with
  | nil => rfl
  | cons b t ih => simp [mkCells, ih]

theorem mkCells_append (brs : List (Nat × BackrefInfo)) (off : Nat) (a b : List UInt8) :
    mkCells brs off (a ++ b) = mkCells brs off a ++ mkCells brs (off + a.length) b := by
  induction a generalizing off with
  | nil => simp [mkCells]
  | cons x t ih =>
    simp only [List.cons_append, mkCells, List.length_cons]
    rw [ih]
    congr 3
    omega

theorem mkCells_drop (brs : List (Nat × BackrefInfo)) (off : Nat) (bs : List UInt8) (m : Nat) :
    (mkCells brs off bs).drop m = mkCells brs (off + m) (bs.drop m) := by
  induction m generalizing off bs with
  | zero => simp
  | succ m ih =>
    cases bs with
    | nil => simp [mkCells]
    | cons b t =>
      simp only [mkCells, List.drop_succ_cons]
      rw [ih]
      congr 1
      omega

theorem mkCells_congr (brs brs' : List (Nat × BackrefInfo)) (off : Nat) (bs : List UInt8)
    (h : ∀ j, j < bs.length → holeAt brs (off + j) = holeAt brs' (off + j)) :
    mkCells brs off bs = mkCells brs' off bs := by
  induction bs generalizing off with
  | nil => rfl
  | cons b t ih =>
    simp only [mkCells]
    have h0 := h 0 (by simp)
    simp only [Nat.add_zero] at h0
    rw [h0]
    congr 1
    apply ih
    intro j hj
    have := h (j + 1) (by simp; omega)
    rw [show off + 1 + j = off + (j + 1) by omega]
    exact this

theorem mkCells_none (brs : List (Nat × BackrefInfo)) (off : Nat) (bs : List UInt8)
    (h : ∀ j, j < bs.length → holeAt brs (off + j) = none) :
    mkCells brs off bs = bs.map Cell.byte := by
  induction bs generalizing off with
  | nil => rfl
  | cons b t ih =>
    simp only [mkCells, List.map_cons]
    have h0 := h 0 (by simp)
    simp only [Nat.add_zero] at h0
    rw [h0]
    congr 1
    apply ih
    intro j hj
    have := h (j + 1) (by simp; omega)
    rw [show off + 1 + j = off + (j + 1) by omega]
    exact this

theorem mkCells_hole (brs : List (Nat × BackrefInfo)) (off : Nat) (bs : List UInt8) (k : Nat)
    (h : ∀ j, j < bs.length → holeAt brs (off + j) = some k) :
    mkCells brs off bs = List.replicate bs.length (Cell.hole k) := by
  induction bs generalizing off with
  | nil => rfl
  | cons b t ih =>
    simp only [mkCells, List.length_cons, List.replicate_succ]
    have h0 := h 0 (by simp)
    simp only [Nat.add_zero] at h0
    rw [h0]
    congr 1
    apply ih
    intro j hj
    have := h (j + 1) (by simp; omega)
    rw [show off + 1 + j = off + (j + 1) by omega]
    exact this

theorem holeAt_eq_none_iff (brs : List (Nat × BackrefInfo)) (off : Nat) :
    holeAt brs off = none ↔ ∀ e ∈ brs, ¬ (e.1 ≤ off + e.2.len ∧ off < e.1) := by
  induction brs with
  | nil => simp [holeAt]
  | cons e t ih =>
    simp only [holeAt, List.mem_cons, forall_eq_or_imp]
    by_cases hc : e.1 ≤ off + e.2.len ∧ off < e.1
    · simp [hc]
    · rw [if_neg hc, ih]
      exact ⟨fun h => ⟨hc, h⟩, fun h => h.2⟩

theorem holeAt_some_mem (brs : List (Nat × BackrefInfo)) (off k : Nat) (h : holeAt brs off = some k) :
    ∃ e ∈ brs, e.1 = k ∧ e.1 ≤ off + e.2.len ∧ off < e.1 := by
  induction brs with
  | nil => simp [holeAt] at h
  | cons e t ih =>
    simp only [holeAt] at h
    by_cases hc : e.1 ≤ off + e.2.len ∧ off < e.1
    · rw [if_pos hc] at h
      exact ⟨e, by simp, Option.some.inj h, hc⟩
    · rw [if_neg hc] at h
      obtain ⟨e', he', h'⟩ := ih h
      exact ⟨e', by simp [he'], h'⟩

theorem holeAt_append (a b : List (Nat × BackrefInfo)) (off : Nat) :
    holeAt (a ++ b) off = (holeAt a off).or (holeAt b off) := by
  induction a with
  | nil => simp [holeAt]
  | cons e t ih =>
    simp only [List.cons_append, holeAt]
    split
    · simp
    · exact ih

/-! ### The abstraction -/

/-- Number of slices in the stable prefix (the value `stable_prefix` computes). -/
def Iov.stableN (v : Iov) : Nat :=
  match v.backrefs.head? with
  | none => v.slices.length
  | some (_, info) => min (info.sliceIndex - v.consumedSlices) v.slices.length

/-- The bytes every consumer-side view exposes: the whole slices of the stable prefix. -/
def World.visible (w : World) (v : Iov) : List UInt8 := w.flat (v.slices.take v.stableN)

/-- The unconsumed cells of `v`. -/
def absCells (w : World) (v : Iov) : List Cell := mkCells v.backrefs v.consumedSize (w.flat v.slices)

theorem stableN_le (v : Iov) : v.stableN ≤ v.slices.length := by
  unfold Iov.stableN
  split
  · exact Nat.le_refl _
  · exact Nat.min_le_right _ _

theorem IovInv.stableCount {w : World} {v : Iov} (h : IovInv w v) : v.stableCount = some v.stableN := by
  unfold Iov.stableCount Iov.stableN
  cases hb : v.backrefs with
  | nil => rfl
  | cons e t =>
    obtain ⟨k, info⟩ := e
    simp only [List.head?_cons]
    have := (h.br_ok (k, info) (by rw [hb]; simp)).idx_ge
    rw [if_neg (by simp only at this; omega)]

theorem IovInv.noBrBelow_stableN {w : World} {v : Iov} (h : IovInv w v) : NoBrBelow v v.stableN := by
  intro e he
  unfold Iov.stableN
  cases hb : v.backrefs with
  | nil => rw [hb] at he; cases he
  | cons e0 t =>
    obtain ⟨k, info⟩ := e0
    simp only [List.head?_cons]
    have h0 := (h.br_ok (k, info) (by rw [hb]; simp)).idx_ge
    simp only at h0
    have hs := h.br_sorted
    rw [hb, List.pairwise_cons] at hs
    rw [hb] at he
    simp only [List.mem_cons] at he
    rcases he with rfl | he
    · simp only; omega
    · have := (hs.1 e he).2
      simp only at this
      omega

theorem holeAt_none_below {w : World} {v : Iov} (h : IovInv w v) (n : Nat) (hnb : NoBrBelow v n)
    (off : Nat) (hoff : off < v.consumedSize + sumLens (v.slices.take n)) :
    holeAt v.backrefs off = none := by
  rw [holeAt_eq_none_iff]
  intro e he hc
  have hb := h.br_ok e he
  have hn := hnb e he
  have hkey := hb.key_eq
  unfold sliceStart at hkey
  have := sumLens_take_mono v.slices (show n ≤ e.2.sliceIndex - v.consumedSlices by omega)
  omega

theorem holeAt_none_above {w : World} {v : Iov} (h : IovInv w v) (off : Nat) (hoff : v.logicalSize ≤ off) :
    holeAt v.backrefs off = none := by
  rw [holeAt_eq_none_iff]
  intro e he hc
  have := (h.br_ok e he).key_le h.size_eq
  omega

/-- C04 core: the stable prefix consists of byte cells only and is a prefix of the cells. -/
theorem absCells_visible {w : World} {v : Iov} (h : IovInv w v) :
    absCells w v = (w.visible v).map Cell.byte ++
      mkCells v.backrefs (v.consumedSize + (w.visible v).length) (w.flat (v.slices.drop v.stableN)) := by
  unfold absCells World.visible
  conv => lhs; rw [← List.take_append_drop v.stableN v.slices]
  rw [World.flat_append, mkCells_append]
  congr 1
  apply mkCells_none
  intro j hj
  rw [h.flat_take_length] at hj
  exact holeAt_none_below h v.stableN h.noBrBelow_stableN _ (by omega)

/-- Removing `m` bytes from the front, all of them before the first pending slice, removes
exactly `m` byte cells from the abstraction. -/
theorem absCells_consumed {w : World} {v v' : Iov} {m : Nat} (h : IovInv w v) (hc : Consumed w v v' m)
    (n : Nat) (hnb : NoBrBelow v n) (hm : m ≤ sumLens (v.slices.take n)) :
    absCells w v = ((w.flat v.slices).take m).map Cell.byte ++ absCells w v' := by
  unfold absCells
  rw [hc.backrefs, hc.consumedSize, hc.flat]
  conv => lhs; rw [← List.take_append_drop m (w.flat v.slices)]
  rw [mkCells_append]
  have hml : m ≤ (w.flat v.slices).length := by
    rw [h.flat_length]; exact Nat.le_trans hm (sumLens_take_le _ _)
  rw [List.length_take, Nat.min_eq_left hml]
  congr 1
  apply mkCells_none
  intro j hj
  rw [List.length_take, Nat.min_eq_left hml] at hj
  exact holeAt_none_below h n hnb _ (by omega)

/-- Appending bytes (whatever the slice structure does) appends byte cells. -/
theorem absCells_push {w w' : World} {v v' : Iov} (h : IovInv w v) (bytes : List UInt8)
    (hflat : w'.flat v'.slices = w.flat v.slices ++ bytes) (hbr : v'.backrefs = v.backrefs)
    (hcs : v'.consumedSize = v.consumedSize) :
    absCells w' v' = absCells w v ++ bytes.map Cell.byte := by
  unfold absCells
  rw [hflat, hbr, hcs, mkCells_append]
  congr 1
  apply mkCells_none
  intro j _
  apply holeAt_none_above h
  rw [h.flat_length]
  have := h.size_eq
  omega

/-! ### Pipe-level facts -/

theorem cellBytes_map_byte_append (bs : List UInt8) (l : List Cell) :
    cellBytes (bs.map Cell.byte ++ l) = bs ++ cellBytes l := by
  induction bs with
  | nil => rfl
  | cons b t ih => simp [cellBytes, ih]

theorem takeWhile_map_byte_append (bs : List UInt8) (l : List Cell) :
    (bs.map Cell.byte ++ l).takeWhile Cell.isByte = bs.map Cell.byte ++ l.takeWhile Cell.isByte := by
  induction bs with
  | nil => rfl
  | cons b t ih => simp [List.takeWhile, Cell.isByte, ih]

theorem Pipe.stable_of_cells (p : Pipe) (bs : List UInt8) (rest : List Cell)
    (h : p.cells = bs.map Cell.byte ++ rest) : p.stable = bs ++ cellBytes (rest.takeWhile Cell.isByte) := by
  unfold Pipe.stable
  rw [h, takeWhile_map_byte_append, cellBytes_map_byte_append]

/-- Consuming a known byte prefix of the cells. -/
theorem Pipe.consume_of_cells (p : Pipe) (rm : List UInt8) (rest : List Cell)
    (h : p.cells = rm.map Cell.byte ++ rest) :
    p.consume rm.length = (⟨rest, p.consumed ++ rm, p.nextId⟩, rm.length) ∧ rm <+: p.stable := by
  have hs := Pipe.stable_of_cells p rm rest h
  refine ⟨?_, by rw [hs]; exact List.prefix_append _ _⟩
  unfold Pipe.consume
  have hmin : min rm.length p.stable.length = rm.length := by
    rw [hs]; simp
  simp only [hmin]
  rw [hs, List.take_left' rfl, h, List.drop_left' (by simp)]

/-! ### Operation vocabulary, ghost state, `step` -/

/-- A caller-owned buffer `pre ++ bs ++ post` of which the slice `bs` is lent to the iovec. -/
structure Borrow where
  pre : List UInt8
  bs : List UInt8
  post : List UInt8
  deriving Repr, DecidableEq

/-- The producer and consumer operations of C03/C04 on one iovec (single-object histories). -/
inductive Op where
  | pushCopy (src : List UInt8)
  | pushBorrowed (b : Borrow)
  | push (b : Borrow)
  | extend (bs : List Borrow)
  | registerPatch (pattern : List UInt8)
  | backfill (tok : Backref) (src : List UInt8)
  | consume (count : Nat)
  | pop
  | advance (count : Nat)
  | readInto (room : Nat)
  | clear
  | flush
  | reserve (k : Nat)
  deriving Repr, DecidableEq

/-- What an operation hands back: nothing, a backref token, or (consumer operations) the returned
count together with the bytes that left the iovec through this call. -/
inductive Ret where
  | unit
  | token (b : Backref)
  | took (n : Nat) (removed : List UInt8)
  deriving Repr, DecidableEq

/-- The model world plus ghost state: every byte handed to the consumer since the last `clear`,
and the number of `register_patch` calls so far. -/
structure State where
  w : World
  ghost : List UInt8
  nextId : Nat

/-- Make the caller buffer of `b` known to the world and return the lent slice. -/
def World.lend (w : World) (b : Borrow) : World × Slice :=
  ({ w with exts := w.exts ++ [b.pre ++ b.bs ++ b.post] }, ⟨.ext w.exts.length, b.pre.length, b.bs.length⟩)

def World.lendAll (w : World) : List Borrow → World × List Slice
  | [] => (w, [])
  | b :: t =>
    let (w1, s) := w.lend b
    let (w2, ss) := w1.lendAll t
    (w2, s :: ss)

/-- One operation on iovec `i`; `none` = the Rust code panics. -/
def step (i : Nat) (s : State) : Op → Option (State × Ret)
  | .pushCopy src => (s.w.pushCopy i src).map fun w' => ({ s with w := w' }, .unit)
  | .pushBorrowed b => ((s.w.lend b).1.pushBorrowed i (s.w.lend b).2).map fun w' => ({ s with w := w' }, .unit)
  | .push b => ((s.w.lend b).1.push i (s.w.lend b).2).map fun w' => ({ s with w := w' }, .unit)
  | .extend bs => ((s.w.lendAll bs).1.extend i (s.w.lendAll bs).2).map fun w' => ({ s with w := w' }, .unit)
  | .registerPatch pat =>
    (s.w.registerPatch i pat).map fun (w', b) => ({ s with w := w', nextId := s.nextId + 1 }, .token b)
  | .backfill tok src => (s.w.backfill i tok src).map fun w' => ({ s with w := w' }, .unit)
  | .consume count =>
    match s.w.iov i with
    | none => none
    | some v =>
      (s.w.consume i count).map fun (w', k) =>
        ({ s with w := w', ghost := s.ghost ++ s.w.flat (v.slices.take k) }, .took k (s.w.flat (v.slices.take k)))
  | .pop =>
    match s.w.iov i with
    | none => none
    | some v =>
      match s.w.consume i 1 with
      | some (w', 1) =>
        some ({ s with w := w', ghost := s.ghost ++ s.w.flat (v.slices.take 1) }, .took 1 (s.w.flat (v.slices.take 1)))
      | _ => none
  | .advance count =>
    match s.w.iov i with
    | none => none
    | some v =>
      (s.w.advance i count).map fun (w', c) =>
        ({ s with w := w', ghost := s.ghost ++ (s.w.flat v.slices).take c }, .took c ((s.w.flat v.slices).take c))
  | .readInto room =>
    (World.readInto (room + 2) s.w i room []).map fun (w', bytes) =>
      ({ s with w := w', ghost := s.ghost ++ bytes }, .took bytes.length bytes)
  | .clear => (s.w.clear i).map fun w' => ({ s with w := w', ghost := [] }, .unit)
  | .flush =>
    match s.w.iov i with
    | none => none
    | some v => some ({ s with w := s.w.setIov i (some { v with arena := flush v.arena }) }, .unit)
  | .reserve k =>
    match s.w.iov i with
    | none => none
    | some v =>
      let (a', nx) := ensureCapacity s.w.tun v.arena s.w.next k
      some ({ s with w := { s.w with next := nx }.setIov i (some { v with arena := a' }) }, .unit)

/-- The invariant of the history state: iovec `i` exists and satisfies `IovInv`. -/
def Inv (i : Nat) (s : State) : Prop := ∃ v, s.w.iov i = some v ∧ IovInv s.w v

/-- The abstraction: unconsumed cells, ghost consumed bytes, register counter. -/
def abs (i : Nat) (s : State) : Pipe :=
  match s.w.iov i with
  | some v => ⟨absCells s.w v, s.ghost, s.nextId⟩
  | none => Woodpile.Pipe.empty

/-- `register` with a caller-chosen placeholder id (the structural model uses the backref key). -/
def Pipe.registerAs (p : Pipe) (n id : Nat) : Pipe :=
  { p with cells := p.cells ++ List.replicate n (Cell.hole id), nextId := p.nextId + 1 }

/-- The abstract effect of an operation, given what it returned. -/
def specStep (p : Pipe) : Op → Ret → Pipe
  | .pushCopy src, _ => p.append src
  | .pushBorrowed b, _ => p.append b.bs
  | .push b, _ => p.append b.bs
  | .extend bs, _ => p.append (bs.flatMap (·.bs))
  | .registerPatch pat, .token (some (key, _)) => Pipe.registerAs p pat.length key
  | .registerPatch _, _ => Pipe.registerAs p 0 0
  | .backfill (some (key, _)) src, _ => p.fill key src
  | .backfill none _, _ => p
  | .consume _, .took _ rm => (p.consume rm.length).1
  | .pop, .took _ rm => (p.consume rm.length).1
  | .advance _, .took _ rm => (p.consume rm.length).1
  | .readInto _, .took _ rm => (p.consume rm.length).1
  | .clear, _ => p.clear
  | _, _ => p

/-- Side conditions relating the returned value to the abstract pipe. -/
def specOk (p : Pipe) : Op → Ret → Prop
  | .registerPatch pat, .token b =>
    match b with
    | none => pat = []
    | some (key, info) => pat ≠ [] ∧ info.len = pat.length ∧ ∀ c ∈ p.cells, c ≠ Cell.hole key
  | .registerPatch _, _ => False
  | .consume _, .took _ rm => rm <+: p.stable
  | .pop, .took n rm => n = 1 ∧ rm <+: p.stable
  | .advance count, .took c rm => rm.length = c ∧ c ≤ count ∧ rm <+: p.stable
  | .readInto room, .took c rm => rm.length = c ∧ c ≤ room ∧ rm <+: p.stable
  | .consume _, _ => False
  | .pop, _ => False
  | .advance _, _ => False
  | .readInto _, _ => False
  | _, r => r = .unit

/-! ### Frame lemmas: what `IovInv` and `absCells` depend on -/

theorem SliceOk.of_world {w w' : World} {a : Arena} {s : Slice} (h : SliceOk w a s)
    (hexts : ∀ b, (w.exts.getD b []).length ≤ (w'.exts.getD b []).length) (hnext : w.next ≤ w'.next) :
    SliceOk w' a s :=
  { pos := h.pos
    ext := fun b hb => Nat.le_trans (h.ext b hb) (hexts b)
    chunk := fun c hc => ⟨Nat.lt_of_lt_of_le (h.chunk c hc).1 hnext, (h.chunk c hc).2⟩ }

theorem IovInv.of_world {w w' : World} {v : Iov} (h : IovInv w v)
    (hexts : ∀ b, (w.exts.getD b []).length ≤ (w'.exts.getD b []).length) (hnext : w.next ≤ w'.next) :
    IovInv w' v :=
  { slices_ok := fun s hs => (h.slices_ok s hs).of_world hexts hnext
    ordered := h.ordered, size_eq := h.size_eq, anchors_pos := h.anchors_pos, anchors_sum := h.anchors_sum
    cache_fresh := fun ca hca => Nat.lt_of_lt_of_le (h.cache_fresh ca hca) hnext
    br_ok := h.br_ok, br_sorted := h.br_sorted }

theorem IovInv.setIov {w : World} {v : Iov} (h : IovInv w v) (i : Nat) (o : Option Iov) :
    IovInv (w.setIov i o) v :=
  h.of_world (fun _ => Nat.le_refl _) (Nat.le_refl _)

theorem sliceBytes_congr {w w' : World} (s : Slice) (hheap : w'.heap = w.heap) (hexts : w'.exts = w.exts) :
    w'.sliceBytes s = w.sliceBytes s := by
  unfold World.sliceBytes; rw [hheap, hexts]

theorem flat_congr {w w' : World} (l : List Slice) (h : ∀ s ∈ l, w'.sliceBytes s = w.sliceBytes s) :
    w'.flat l = w.flat l := by
  induction l with
  | nil => rfl
  | cons s t ih => simp [h s (by simp), ih (fun x hx => h x (by simp [hx]))]

@[simp] theorem flat_setIov (w : World) (i : Nat) (o : Option Iov) (l : List Slice) :
    (w.setIov i o).flat l = w.flat l :=
  flat_congr l (fun s _ => sliceBytes_congr s rfl rfl)

@[simp] theorem absCells_setIov (w : World) (i : Nat) (o : Option Iov) (v : Iov) :
    absCells (w.setIov i o) v = absCells w v := by
  unfold absCells; rw [flat_setIov]

@[simp] theorem visible_setIov (w : World) (i : Nat) (o : Option Iov) (v : Iov) :
    (w.setIov i o).visible v = w.visible v := by
  unfold World.visible; rw [flat_setIov]

/-- Lending a caller buffer leaves every valid slice's bytes alone. -/
theorem sliceBytes_exts_append (w : World) (a : Arena) (s : Slice) (extra : List (List UInt8)) (h : SliceOk w a s) :
    ({ w with exts := w.exts ++ extra } : World).sliceBytes s = w.sliceBytes s := by
  unfold World.sliceBytes
  cases hr : s.region with
  | chunk k => rfl
  | ext b =>
    simp only
    have h1 := h.ext b hr
    have h2 := h.pos
    have hb : b < w.exts.length := by
      rcases Nat.lt_or_ge b w.exts.length with h3 | h3
      · exact h3
      · rw [List.getD_eq_getElem?_getD, List.getElem?_eq_none h3] at h1
        simp at h1; omega
    simp only [List.getD_eq_getElem?_getD, List.getElem?_append_left hb]

theorem exts_append_mono (l extra : List (List UInt8)) (b : Nat) :
    (l.getD b []).length ≤ ((l ++ extra).getD b []).length := by
  simp only [List.getD_eq_getElem?_getD]
  rcases Nat.lt_or_ge b l.length with h | h
  · rw [List.getElem?_append_left h]; exact Nat.le_refl _
  · rw [List.getElem?_eq_none h]; simp

/-! ### Pushing one slice (before `optimize`) -/

theorem BrOk.of_append {v v' : Iov} {e : Nat × BackrefInfo} (h : BrOk v e) (x : List Slice)
    (hs : v'.slices = v.slices ++ x) (hcs : v'.consumedSize = v.consumedSize)
    (hcn : v'.consumedSlices = v.consumedSlices) : BrOk v' e := by
  obtain ⟨s, c, hget, hreg, hle⟩ := h.slice
  have hj : e.2.sliceIndex - v.consumedSlices < v.slices.length := by
    rcases Nat.lt_or_ge (e.2.sliceIndex - v.consumedSlices) v.slices.length with h1 | h1
    · exact h1
    · rw [List.getElem?_eq_none h1] at hget; cases hget
  refine ⟨h.len_pos, by rw [hcn]; exact h.idx_ge, ⟨s, c, ?_, hreg, hle⟩, ?_⟩
  · rw [hcn, hs, List.getElem?_append_left hj]; exact hget
  · have := h.key_eq
    unfold sliceStart at this ⊢
    rw [hcn, hcs, hs, List.take_append_of_le_length (Nat.le_of_lt hj)]
    exact this

theorem BrOk.idx_lt {v : Iov} {e : Nat × BackrefInfo} (h : BrOk v e) :
    e.2.sliceIndex < v.consumedSlices + v.slices.length := by
  obtain ⟨s, c, hget, _, _⟩ := h.slice
  rcases Nat.lt_or_ge (e.2.sliceIndex - v.consumedSlices) v.slices.length with h1 | h1
  · have := h.idx_ge; omega
  · rw [List.getElem?_eq_none h1] at hget; cases hget

/-- The state right after `GlobalDeque::push`/`push_borrowed`, before `optimize`. -/
theorem push_slice_inv (w0 w : World) (v : Iov) (s : Slice) (anchors' : List Anchor) (arena' : Arena)
    (hinv : IovInv w0 v) (hs : SliceOk w arena' s)
    (hold : ∀ x ∈ v.slices, SliceOk w arena' x)
    (hcache : ∀ ca, arena'.cache = some ca → ca.chunk < w.next)
    (hord : ∀ x ∈ v.slices, ∀ c, x.region = .chunk c → s.region = .chunk c → x.off + x.len ≤ s.off)
    (hapos : ∀ a ∈ anchors', 0 < a.count) (hasum : sumCounts anchors' = v.slices.length + 1) :
    IovInv w { v with slices := v.slices ++ [s], anchors := anchors',
                      logicalSize := v.logicalSize + s.len, arena := arena' } :=
  { slices_ok := by
      intro x hx
      simp only [List.mem_append, List.mem_singleton] at hx
      rcases hx with hx | rfl
      · exact hold x hx
      · exact hs
    ordered := by
      unfold SlicesOrdered
      rw [List.pairwise_append]
      refine ⟨hinv.ordered, by simp, ?_⟩
      intro x hx y hy
      simp only [List.mem_singleton] at hy
      subst hy
      exact hord x hx
    size_eq := by
      have := hinv.size_eq
      simp only [sumLens_append, sumLens_cons, sumLens_nil]
      omega
    anchors_pos := hapos
    anchors_sum := by simp [hasum]
    cache_fresh := hcache
    br_ok := fun e he => (hinv.br_ok e he).of_append [s] rfl rfl rfl
    br_sorted := hinv.br_sorted }

/-! ### `push_borrowed` -/

/-- The anchor update of `GlobalDeque::push_borrowed`. -/
def pbAnchors (anchors : List Anchor) : List Anchor :=
  let a1 := if anchors.isEmpty then [(⟨0, none⟩ : Anchor)] else anchors
  match a1.getLast? with
  | some a => setLast a1 { a with count := a.count + 1 }
  | none => a1

theorem pushBorrowedSlice_eq (v : Iov) (s : Slice) (h : s.len ≠ 0) :
    v.pushBorrowedSlice s = Iov.optimize { v with slices := v.slices ++ [s], anchors := pbAnchors v.anchors,
                                                  logicalSize := v.logicalSize + s.len } := by
  unfold Iov.pushBorrowedSlice
  rw [if_neg h]
  rfl

theorem pushBorrowed_anchors (anchors : List Anchor) (n : Nat) (hpos : ∀ a ∈ anchors, 0 < a.count)
    (hsum : sumCounts anchors = n) :
    (∀ a ∈ pbAnchors anchors, 0 < a.count) ∧ sumCounts (pbAnchors anchors) = n + 1 := by
  rcases List.eq_nil_or_concat anchors with hnil | ⟨anc, a, hanc⟩
  · subst hnil
    simp only [sumCounts_nil] at hsum
    subst hsum
    refine ⟨?_, ?_⟩ <;> simp [pbAnchors, setLast]
  · rw [List.concat_eq_append] at hanc
    subst hanc
    have e2 : pbAnchors (anc ++ [a]) = anc ++ [{ a with count := a.count + 1 }] := by
      have hne : (anc ++ [a]).isEmpty = false := by simp
      unfold pbAnchors
      simp only [hne, Bool.false_eq_true, if_false, List.getLast?_append,
        List.getLast?_singleton, Option.some_or]
      exact setLast_append_singleton _ _ _
    rw [e2]
    simp only [List.concat_eq_append, sumCounts_append, sumCounts_cons, sumCounts_nil] at hsum
    refine ⟨?_, by simp only [sumCounts_append, sumCounts_cons, sumCounts_nil]; omega⟩
    intro x hx
    simp only [List.mem_append, List.mem_singleton] at hx
    rcases hx with hx | rfl
    · exact hpos x (by simp [hx])
    · simp

/-- `push_borrowed` of a valid, non-empty caller slice appends exactly its bytes. -/
theorem World.pushBorrowed_spec (w : World) (i : Nat) (v : Iov) (s : Slice) (hv : w.iov i = some v)
    (hinv : IovInv w v) (hs : SliceOk w v.arena s) (hext : ∃ b, s.region = .ext b) :
    ∃ v', w.pushBorrowed i s = some (w.setIov i (some v')) ∧ IovInv w v' ∧
      absCells w v' = absCells w v ++ (w.sliceBytes s).map Cell.byte ∧
      v'.backrefs = v.backrefs ∧ v'.arena = v.arena ∧ v'.consumedSize = v.consumedSize ∧
      v'.logicalSize = v.logicalSize + s.len ∧ w.flat v'.slices = w.flat v.slices ++ w.sliceBytes s := by
  unfold World.pushBorrowed
  rw [hv]
  simp only
  have hpos := hs.pos
  rw [if_neg (by omega)]
  rw [pushBorrowedSlice_eq v s (by omega)]
  obtain ⟨hapos, hasum⟩ := pushBorrowed_anchors v.anchors v.slices.length hinv.anchors_pos hinv.anchors_sum
  generalize pbAnchors v.anchors = anchors' at hapos hasum ⊢
  obtain ⟨b, hb⟩ := hext
  have h1 := push_slice_inv w w v s anchors' v.arena hinv hs hinv.slices_ok hinv.cache_fresh
    (by intro x _ c _ hc; rw [hb] at hc; cases hc) hapos hasum
  have h1' : IovInv w { v with slices := v.slices ++ [s], anchors := anchors', logicalSize := v.logicalSize + s.len } := h1
  obtain ⟨v2, hv2⟩ := optimize_some { v with slices := v.slices ++ [s], anchors := anchors', logicalSize := v.logicalSize + s.len }
    hapos (by intro _ hn; simp only at hn; rw [hn] at hasum; simp at hasum)
  rw [hv2]
  obtain ⟨hinv2, hflat2, hbr2, hls2, hcs2, hcn2, har2⟩ := optimize_inv w _ v2 h1'
    (by intro e he; have := (hinv.br_ok e he).idx_lt; simp only [List.length_append, List.length_singleton]; omega) hv2
  refine ⟨v2, rfl, hinv2, ?_, hbr2, har2, hcs2, hls2, ?_⟩
  · apply absCells_push hinv _ _ hbr2 hcs2
    rw [hflat2]; simp
  · rw [hflat2]; simp

/-! ### Consumer side -/

theorem flat_take_prefix (w : World) (a : Arena) (l : List Slice) (k : Nat) (h : ∀ s ∈ l, SliceOk w a s) :
    (w.flat l).take (sumLens (l.take k)) = w.flat (l.take k) := by
  have hl := flat_length w a (l.take k) (fun s hs => h s (List.mem_of_mem_take hs))
  have : w.flat l = w.flat (l.take k) ++ w.flat (l.drop k) := by
    rw [← World.flat_append, List.take_append_drop]
  rw [this, List.take_left' hl]

/-- `ConsumingIovec::consume`. -/
theorem World.consume_spec (w : World) (i : Nat) (v : Iov) (count : Nat) (hv : w.iov i = some v)
    (hinv : IovInv w v) :
    ∃ v', w.consume i count = some (w.setIov i (some v'), min count v.stableN) ∧
      Consumed w v v' (sumLens (v.slices.take (min count v.stableN))) := by
  unfold World.consume
  rw [hv]
  simp only [hinv.stableCount]
  have hle := stableN_le v
  have hmin : min (min count v.stableN) v.slices.length = min count v.stableN := by omega
  obtain ⟨v', h1, h2, _, _⟩ := consumeSlices_spec w v (min count v.stableN) hinv
    (by rw [hmin]; intro e he; have := hinv.noBrBelow_stableN e he; omega)
  rw [h1, hmin]
  exact ⟨v', rfl, h2⟩

/-- `ConsumingIovec::advance_slices`. -/
theorem World.advance_spec (w : World) (i : Nat) (v : Iov) (count : Nat) (hv : w.iov i = some v)
    (hinv : IovInv w v) :
    ∃ v', w.advance i count = some (w.setIov i (some v'), min count (sumLens (v.slices.take v.stableN))) ∧
      Consumed w v v' (min count (sumLens (v.slices.take v.stableN))) := by
  unfold World.advance
  rw [hv]
  simp only [hinv.stableCount, foldl_add_eq_sum]
  have hsl : (List.map (fun x => x.len) (List.take v.stableN v.slices)).sum = sumLens (v.slices.take v.stableN) := rfl
  rw [hsl]
  obtain ⟨v', h1, h2⟩ := consumeBytes_spec w (v.slices.length + 1) v
    (min count (sumLens (v.slices.take v.stableN))) 0 v.stableN hinv hinv.noBrBelow_stableN (stableN_le v)
    (Nat.zero_le _) (by simp; omega) (Nat.lt_succ_self _)
  rw [h1]
  exact ⟨v', rfl, by simpa using h2⟩

/-- The common part of every consumer operation: `m` stable bytes leave from the front. -/
theorem consumer_refines (i : Nat) (s : State) (v v' : Iov) (m : Nat) (hv : s.w.iov i = some v)
    (hinv : IovInv s.w v) (hc : Consumed s.w v v' m) (hm : m ≤ sumLens (v.slices.take v.stableN)) :
    Inv i { s with w := s.w.setIov i (some v'), ghost := s.ghost ++ (s.w.flat v.slices).take m } ∧
    abs i { s with w := s.w.setIov i (some v'), ghost := s.ghost ++ (s.w.flat v.slices).take m }
      = ((abs i s).consume ((s.w.flat v.slices).take m).length).1 ∧
    (s.w.flat v.slices).take m <+: (abs i s).stable ∧ ((s.w.flat v.slices).take m).length = m := by
  have hcells := absCells_consumed hinv hc v.stableN hinv.noBrBelow_stableN hm
  have hp : (abs i s).cells = ((s.w.flat v.slices).take m).map Cell.byte ++ absCells s.w v' := by
    unfold abs; rw [hv]; exact hcells
  obtain ⟨h1, h2⟩ := Pipe.consume_of_cells (abs i s) _ _ hp
  refine ⟨⟨v', by simp, hc.inv.setIov _ _⟩, ?_, h2, ?_⟩
  · rw [h1]
    unfold abs
    simp [hv]
  · rw [List.length_take, hinv.flat_length]
    have := sumLens_take_le v.slices v.stableN
    omega

/-! ### Lending caller buffers -/

@[simp] theorem lend_iov (w : World) (b : Borrow) (i : Nat) : (w.lend b).1.iov i = w.iov i := rfl
@[simp] theorem lend_heap (w : World) (b : Borrow) : (w.lend b).1.heap = w.heap := rfl
@[simp] theorem lend_next (w : World) (b : Borrow) : (w.lend b).1.next = w.next := rfl
@[simp] theorem lend_pol (w : World) (b : Borrow) : (w.lend b).1.pol = w.pol := rfl
@[simp] theorem lend_tun (w : World) (b : Borrow) : (w.lend b).1.tun = w.tun := rfl

theorem IovInv.lend {w : World} {v : Iov} (h : IovInv w v) (b : Borrow) : IovInv (w.lend b).1 v :=
  h.of_world (fun _ => exts_append_mono _ _ _) (Nat.le_refl _)

theorem flat_lend {w : World} {a : Arena} (l : List Slice) (b : Borrow) (h : ∀ s ∈ l, SliceOk w a s) :
    (w.lend b).1.flat l = w.flat l :=
  flat_congr l (fun s hs => sliceBytes_exts_append w a s _ (h s hs))

theorem absCells_lend {w : World} {v : Iov} (h : IovInv w v) (b : Borrow) :
    absCells (w.lend b).1 v = absCells w v := by
  unfold absCells; rw [flat_lend _ b h.slices_ok]

theorem lend_sliceBytes (w : World) (b : Borrow) : (w.lend b).1.sliceBytes (w.lend b).2 = b.bs := by
  unfold World.lend World.sliceBytes
  simp only [List.getD_eq_getElem?_getD]
  rw [List.getElem?_append_right (Nat.le_refl _)]
  simp only [Nat.sub_self, List.getElem?_cons_zero, Option.getD_some]
  rw [List.append_assoc, List.drop_left' rfl, List.take_left' rfl]

theorem lend_sliceOk (w : World) (a : Arena) (b : Borrow) (h : b.bs ≠ []) : SliceOk (w.lend b).1 a (w.lend b).2 := by
  refine ⟨?_, ?_, ?_⟩
  · simp only [World.lend]; exact List.length_pos_iff.mpr h
  · intro x hx
    simp only [World.lend, Region.ext.injEq] at hx ⊢
    subst hx
    simp only [List.getD_eq_getElem?_getD]
    rw [List.getElem?_append_right (Nat.le_refl _)]
    simp
  · intro c hc; simp [World.lend] at hc

/-! ### Per-operation refinement at the level of `step` -/

/-- Operation `op` does not panic in state `s`, preserves the invariant and refines the abstract
pipe operation. -/
def Refines (i : Nat) (s : State) (op : Op) : Prop :=
  ∃ s' r, step i s op = some (s', r) ∧ Inv i s' ∧ abs i s' = specStep (abs i s) op r ∧ specOk (abs i s) op r

theorem Pipe.append_nil (p : Pipe) : p.append [] = p := by
  simp [Pipe.append]

theorem abs_eq (i : Nat) (s : State) (v : Iov) (hv : s.w.iov i = some v) :
    abs i s = ⟨absCells s.w v, s.ghost, s.nextId⟩ := by
  unfold abs; rw [hv]

theorem refines_pushBorrowed (i : Nat) (s : State) (b : Borrow) (hinv : Inv i s) :
    Refines i s (.pushBorrowed b) := by
  obtain ⟨v, hv, hi⟩ := hinv
  unfold Refines
  simp only [step]
  by_cases hb : b.bs = []
  · -- empty slice: nothing happens
    have h0 : (s.w.lend b).2.len = 0 := by simp [World.lend, hb]
    have : (s.w.lend b).1.pushBorrowed i (s.w.lend b).2 = some (s.w.lend b).1 := by
      unfold World.pushBorrowed
      rw [lend_iov, hv]
      simp only [h0, if_true]
    rw [this]
    refine ⟨_, _, rfl, ⟨v, by simpa using hv, hi.lend b⟩, ?_, rfl⟩
    simp only [specStep, hb, Pipe.append_nil]
    rw [abs_eq i s v hv, abs_eq i _ v (by simpa using hv)]
    simp only [absCells_lend hi b]
  · obtain ⟨v', h1, h2, h3, _⟩ := World.pushBorrowed_spec (s.w.lend b).1 i v (s.w.lend b).2 (by simpa using hv)
      (hi.lend b) (lend_sliceOk _ _ b hb) ⟨_, rfl⟩
    rw [h1]
    refine ⟨_, _, rfl, ⟨v', by simp, h2.setIov _ _⟩, ?_, rfl⟩
    simp only [specStep]
    rw [abs_eq i s v hv, abs_eq i _ v' (by simp)]
    simp only [absCells_setIov, h3, lend_sliceBytes, absCells_lend hi b, Pipe.append]

theorem refines_consume (i : Nat) (s : State) (count : Nat) (hinv : Inv i s) :
    Refines i s (.consume count) := by
  obtain ⟨v, hv, hi⟩ := hinv
  unfold Refines
  simp only [step, hv]
  obtain ⟨v', h1, h2⟩ := World.consume_spec s.w i v count hv hi
  rw [h1]
  have hm : sumLens (v.slices.take (min count v.stableN)) ≤ sumLens (v.slices.take v.stableN) :=
    sumLens_take_mono _ (Nat.min_le_right _ _)
  obtain ⟨g1, g2, g3, _⟩ := consumer_refines i s v v' _ hv hi h2 hm
  rw [flat_take_prefix s.w v.arena v.slices _ hi.slices_ok] at g1 g2 g3
  exact ⟨_, _, rfl, g1, g2, g3⟩

theorem refines_advance (i : Nat) (s : State) (count : Nat) (hinv : Inv i s) :
    Refines i s (.advance count) := by
  obtain ⟨v, hv, hi⟩ := hinv
  unfold Refines
  simp only [step, hv]
  obtain ⟨v', h1, h2⟩ := World.advance_spec s.w i v count hv hi
  rw [h1]
  obtain ⟨g1, g2, g3, g4⟩ := consumer_refines i s v v' _ hv hi h2 (Nat.min_le_right _ _)
  exact ⟨_, _, rfl, g1, g2, g4, Nat.min_le_left _ _, g3⟩

/-! ### Histories -/

/-- Run a list of operations; `none` as soon as one panics. Returns the returned values too. -/
def run (i : Nat) : State → List Op → Option (State × List Ret)
  | s, [] => some (s, [])
  | s, op :: ops =>
    match step i s op with
    | none => none
    | some (s', r) =>
      match run i s' ops with
      | none => none
      | some (s'', rs) => some (s'', r :: rs)

/-- The abstract pipe after a history with the given returned values. -/
def specRun (p : Pipe) : List Op → List Ret → Pipe
  | op :: ops, r :: rs => specRun (specStep p op r) ops rs
  | _, _ => p

/-- All side conditions along a history. -/
def specOkRun (p : Pipe) : List Op → List Ret → Prop
  | op :: ops, r :: rs => specOk p op r ∧ specOkRun (specStep p op r) ops rs
  | [], [] => True
  | _, _ => False

/-- A fresh world holding one empty iovec (index 0) with an empty arena. -/
def State.init (pol : Policy) (tun : Tuning) : State :=
  ⟨((World.init pol tun).addIov Iov.empty).1, [], 0⟩

theorem IovInv.empty (w : World) (a : Arena) (h : ∀ ca, a.cache = some ca → ca.chunk < w.next) :
    IovInv w { Iov.empty with arena := a } :=
  { slices_ok := by intro s hs; cases hs
    ordered := List.Pairwise.nil
    size_eq := rfl
    anchors_pos := by intro a ha; cases ha
    anchors_sum := rfl
    cache_fresh := h
    br_ok := by intro e he; cases he
    br_sorted := List.Pairwise.nil }

theorem Inv.init (pol : Policy) (tun : Tuning) : Inv 0 (State.init pol tun) :=
  ⟨Iov.empty, rfl, IovInv.empty _ ⟨none⟩ (by intro ca h; cases h)⟩

theorem abs_init (pol : Policy) (tun : Tuning) : abs 0 (State.init pol tun) = Woodpile.Pipe.empty := rfl

theorem run_refines (i : Nat) (P : Op → Prop)
    (hstep : ∀ s op, P op → Inv i s → ∀ s' r, step i s op = some (s', r) →
      Inv i s' ∧ abs i s' = specStep (abs i s) op r ∧ specOk (abs i s) op r) :
    ∀ (ops : List Op) (s s' : State) (rs : List Ret), (∀ op ∈ ops, P op) → Inv i s →
      run i s ops = some (s', rs) →
      Inv i s' ∧ abs i s' = specRun (abs i s) ops rs ∧ specOkRun (abs i s) ops rs := by
  intro ops
  induction ops with
  | nil =>
    intro s s' rs _ hinv h
    simp only [run, Option.some.injEq, Prod.mk.injEq] at h
    obtain ⟨rfl, rfl⟩ := h
    exact ⟨hinv, rfl, trivial⟩
  | cons op ops ih =>
    intro s s' rs hP hinv h
    simp only [run] at h
    cases h1 : step i s op with
    | none => rw [h1] at h; cases h
    | some sr =>
      obtain ⟨s1, r⟩ := sr
      rw [h1] at h
      simp only at h
      cases h2 : run i s1 ops with
      | none => rw [h2] at h; cases h
      | some srs =>
        obtain ⟨s2, rs2⟩ := srs
        rw [h2] at h
        simp only [Option.some.injEq, Prod.mk.injEq] at h
        obtain ⟨rfl, rfl⟩ := h
        obtain ⟨a1, a2, a3⟩ := hstep s op (hP op (by simp)) hinv s1 r h1
        obtain ⟨b1, b2, b3⟩ := ih s1 s2 rs2 (fun o ho => hP o (by simp [ho])) a1 h2
        refine ⟨b1, ?_, ?_⟩
        · simp only [specRun]; rw [← a2]; exact b2
        · simp only [specOkRun]; rw [← a2]; exact ⟨a3, b3⟩

theorem Refines.elim {i : Nat} {s : State} {op : Op} (h : Refines i s op) (s' : State) (r : Ret)
    (hs : step i s op = some (s', r)) :
    Inv i s' ∧ abs i s' = specStep (abs i s) op r ∧ specOk (abs i s) op r := by
  obtain ⟨s1, r1, h1, h2⟩ := h
  rw [h1] at hs
  simp only [Option.some.injEq, Prod.mk.injEq] at hs
  obtain ⟨rfl, rfl⟩ := hs
  exact h2

end Woodpile.Iovec

/-
Spec-level lemmas for HCOBS (`Woodpile.Hcobs.Spec.encode` / `decode`, `findStuff`,
`header`, `parseHdr`), all under `hp : p.Valid` where parameters matter.

Used by `Props/C01.lean`, `Props/C02.lean`, `Props/C07.lean` and by the
refinement proofs of the incremental state machines.
-/
import Woodpile.Model.Hcobs

namespace Woodpile.Hcobs.Spec

/-! ### Bytes -/
theorem FE_toNat : FE.toNat = 254 := by decide
theorem FD_toNat : FD.toNat = 253 := by decide
theorem FE_ne_FD : FE ≠ FD := by decide

@[simp] theorem findStuff_nil : findStuff [] = none := by simp [findStuff]
@[simp] theorem findStuff_single (a : UInt8) : findStuff [a] = none := by simp [findStuff]
theorem findStuff_cons_cons (a b : UInt8) (t : List UInt8) :
    findStuff (a :: b :: t) = if a = FE ∧ b = FD then some 0 else (findStuff (b :: t)).map (· + 1) := by
  rw [findStuff]

theorem findStuff_cons_none {a : UInt8} {l : List UInt8} :
    findStuff (a :: l) = none ↔ findStuff l = none ∧ ¬ (a = FE ∧ l.head? = some FD) := by
  cases l with
  | nil => simp
  | cons b t =>
    rw [findStuff_cons_cons]
    by_cases h : a = FE ∧ b = FD
    · simp [h]
    · simp [h]

/-- Stuff-freeness of a concatenation: both halves are stuff-free and no pair
straddles the seam. -/
theorem findStuff_append_none {a b : List UInt8} :
    findStuff (a ++ b) = none ↔
      findStuff a = none ∧ findStuff b = none ∧ ¬ (a.getLast? = some FE ∧ b.head? = some FD) := by
  induction a with
  | nil => simp
  | cons x t ih =>
    rw [List.cons_append, findStuff_cons_none, findStuff_cons_none, ih]
    cases t with
    | nil => simp
    | cons y t' => simp [List.getLast?_cons_cons]; grind

/-- The first stuff sequence of `pre ++ FE FD ++ post` when `pre` is stuff-free. -/
theorem findStuff_append_stuff {pre : List UInt8} (post : List UInt8) (h : findStuff pre = none) :
    findStuff (pre ++ FE :: FD :: post) = some pre.length := by
  induction pre with
  | nil => simp [findStuff_cons_cons]
  | cons x t ih =>
    rw [findStuff_cons_none] at h
    cases t with
    | nil =>
      have : x ≠ FE ∨ FE ≠ FD := Or.inr FE_ne_FD
      simp [findStuff_cons_cons, FE_ne_FD]
    | cons y t' =>
      have h2 : ¬ (x = FE ∧ y = FD) := by simpa using h.2
      rw [List.cons_append, List.cons_append, findStuff_cons_cons, if_neg h2,
        ← List.cons_append, ih h.1]
      simp

/-- Exact characterisation of `findStuff … = some i`: a stuff-free prefix of length `i`
followed by `FE FD`. -/
theorem findStuff_eq_some_iff {l : List UInt8} {i : Nat} :
    findStuff l = some i ↔
      ∃ pre post, l = pre ++ FE :: FD :: post ∧ pre.length = i ∧ findStuff pre = none := by
  constructor
  · intro h
    induction l generalizing i with
    | nil => simp at h
    | cons a t ih =>
      cases t with
      | nil => simp at h
      | cons b t' =>
        rw [findStuff_cons_cons] at h
        by_cases hab : a = FE ∧ b = FD
        · rw [if_pos hab] at h
          refine ⟨[], t', ?_, ?_, by simp⟩
          · simp [hab.1, hab.2]
          · simpa using h
        · rw [if_neg hab] at h
          cases hr : findStuff (b :: t') with
          | none => simp [hr] at h
          | some j =>
            obtain ⟨pre, post, h1, h2, h3⟩ := ih hr
            rw [hr] at h
            refine ⟨a :: pre, post, by simp [h1], ?_, ?_⟩
            · simp at h; simp; omega
            · rw [findStuff_cons_none]; refine ⟨h3, ?_⟩
              intro ⟨ha, hh⟩
              cases pre with
              | nil => simp at hh
              | cons q pre' =>
                simp at hh h1
                exact hab ⟨ha, by rw [h1.1, hh]⟩
  · rintro ⟨pre, post, rfl, rfl, h⟩
    exact findStuff_append_stuff post h

theorem findStuff_some {l : List UInt8} {i : Nat} (h : findStuff l = some i) :
    i + 2 ≤ l.length ∧ l = l.take i ++ FE :: FD :: l.drop (i + 2) ∧ findStuff (l.take i) = none := by
  obtain ⟨pre, post, rfl, rfl, h3⟩ := findStuff_eq_some_iff.1 h
  refine ⟨by simp, ?_, ?_⟩
  · simp
  · simpa using h3

/-- Looking for the stuff sequence in a window: found in the window iff found in
the whole list with both bytes inside the window. -/
theorem findStuff_take {l : List UInt8} {m i : Nat} :
    findStuff (l.take m) = some i ↔ findStuff l = some i ∧ i + 2 ≤ m := by
  constructor
  · intro h
    obtain ⟨pre, post, h1, h2, h3⟩ := findStuff_eq_some_iff.1 h
    have hl : l = pre ++ FE :: FD :: (post ++ l.drop m) := by
      conv => lhs; rw [← List.take_append_drop m l, h1]
      simp
    have hlen := congrArg List.length h1
    simp at hlen
    refine ⟨?_, by omega⟩
    rw [hl, ← h2]; exact findStuff_append_stuff _ h3
  · rintro ⟨h, hm⟩
    obtain ⟨pre, post, rfl, rfl, h3⟩ := findStuff_eq_some_iff.1 h
    have : (pre ++ FE :: FD :: post).take m = pre ++ FE :: FD :: post.take (m - pre.length - 2) := by
      rw [List.take_append]
      have : m - pre.length = (m - pre.length - 2) + 2 := by omega
      rw [List.take_of_length_le (by omega), this]; simp
    rw [this]; exact findStuff_append_stuff _ h3

theorem findStuff_take_none_of_none {l : List UInt8} (m : Nat) (h : findStuff l = none) :
    findStuff (l.take m) = none := by
  cases h' : findStuff (l.take m) with
  | none => rfl
  | some i => rw [findStuff_take] at h'; rw [h] at h'; simp at h'

theorem findStuff_none_of_no_FE {l : List UInt8} (h : ∀ b ∈ l, b ≠ FE) : findStuff l = none := by
  induction l with
  | nil => simp
  | cons a t ih =>
    rw [findStuff_cons_none]
    exact ⟨ih (fun b hb => h b (by simp [hb])), fun hh => h a (by simp) hh.1⟩

/-! ### Headers -/

/-- Chunk size limit: `max_initial_size` for the first chunk, `max_subsequent_size` after. -/
def limit (p : Params) (first : Bool) : Nat := if first then p.maxInit else p.maxSub

@[simp] theorem limit_true (p : Params) : limit p true = p.maxInit := rfl
@[simp] theorem limit_false (p : Params) : limit p false = p.maxSub := rfl

theorem limit_pos {p : Params} (hp : p.Valid) (first : Bool) : 1 ≤ limit p first := by
  obtain ⟨h1, h2, h3, h4, h5, h6⟩ := hp
  cases first <;> simp <;> omega

/-- Length of a size header: 1 for the first chunk, 2 afterwards. -/
def hdrLen (first : Bool) : Nat := if first then 1 else 2

@[simp] theorem hdrLen_true : hdrLen true = 1 := rfl
@[simp] theorem hdrLen_false : hdrLen false = 2 := rfl

@[simp] theorem header_length (p : Params) (first : Bool) (n : Nat) :
    (header p first n).length = hdrLen first := by
  cases first <;> simp [header]

theorem div_lt_radix {p : Params} (hp : p.Valid) {n : Nat} (hn : n ≤ p.maxSub) :
    n / p.radix < p.radix := by
  obtain ⟨h1, h2, h3, h4, h5, h6⟩ := hp
  exact Nat.div_lt_of_lt_mul (by omega)

theorem toNat_ofNat_of_lt {n : Nat} (h : n < 256) : (UInt8.ofNat n).toNat = n := by
  simp [UInt8.toNat_ofNat']; omega

/-- Every header byte is a radix digit, hence `< 253`: neither `FE` nor `FD`. -/
theorem header_bytes_lt {p : Params} (hp : p.Valid) {first : Bool} {n : Nat}
    (hn : n ≤ limit p first) : ∀ b ∈ header p first n, b.toNat < p.radix := by
  have hd := div_lt_radix hp (n := n)
  obtain ⟨h1, h2, h3, h4, h5, h6⟩ := hp
  cases first
  · simp only [limit_false] at hn
    have hm : n % p.radix < p.radix := Nat.mod_lt _ (by omega)
    have := hd hn
    intro b hb
    simp [header] at hb
    rcases hb with rfl | rfl
    · rw [toNat_ofNat_of_lt (by omega)]; exact hm
    · rw [toNat_ofNat_of_lt (by omega)]; exact this
  · simp only [limit_true] at hn
    intro b hb
    simp [header] at hb
    subst hb
    rw [toNat_ofNat_of_lt (by omega)]; omega

theorem header_bytes_ne {p : Params} (hp : p.Valid) {first : Bool} {n : Nat}
    (hn : n ≤ limit p first) : ∀ b ∈ header p first n, b ≠ FE ∧ b ≠ FD := by
  intro b hb
  have := header_bytes_lt hp hn b hb
  have h6 := hp.2.2.2.2.2
  constructor <;> intro h <;> subst h
  · rw [FE_toNat] at this; omega
  · rw [FD_toNat] at this; omega

/-- A valid header parses back to its value. -/
theorem parseHdr_header {p : Params} (hp : p.Valid) {first : Bool} {n : Nat}
    (hn : n ≤ limit p first) (rest : List UInt8) :
    parseHdr p first (header p first n ++ rest) = some (n, rest) := by
  have hd := div_lt_radix hp (n := n)
  obtain ⟨h1, h2, h3, h4, h5, h6⟩ := hp
  cases first
  · simp only [limit_false] at hn
    have hm : n % p.radix < p.radix := Nat.mod_lt _ (by omega)
    have := hd hn
    have e : n % p.radix + n / p.radix * p.radix = n := by
      rw [Nat.mul_comm]; exact Nat.mod_add_div n p.radix
    simp [header, parseHdr, toNat_ofNat_of_lt (show n % p.radix < 256 by omega),
      toNat_ofNat_of_lt (show n / p.radix < 256 by omega), e, hm, this, hn]
  · simp only [limit_true] at hn
    simp [header, parseHdr, toNat_ofNat_of_lt (show n < 256 by omega), hn]

/-! ### Unfolding equations for the encoder loop -/

section
variable {p : Params} {fuel : Nat} {first : Bool} {d : List UInt8}

theorem encLoop_stuff {i : Nat} (h : findStuff (d.take (limit p first)) = some i) :
    encLoop p (fuel + 1) first d =
      header p first i ++ d.take i ++ encLoop p fuel false (d.drop (i + 2)) := by
  simp only [limit] at h
  simp [encLoop, h]

theorem encLoop_full (h : findStuff (d.take (limit p first)) = none)
    (hl : limit p first ≤ d.length) :
    encLoop p (fuel + 1) first d =
      header p first (limit p first) ++ d.take (limit p first) ++
        encLoop p fuel false (d.drop (limit p first)) := by
  simp only [limit] at h hl ⊢
  simp [encLoop, h, hl]

theorem encLoop_last (h : findStuff (d.take (limit p first)) = none)
    (hl : d.length < limit p first) :
    encLoop p (fuel + 1) first d = header p first d.length ++ d := by
  simp only [limit] at h hl ⊢
  simp [encLoop, h, Nat.not_le.2 hl]

end

/-! ### The wire format, declaratively -/

/-- `IsHeader p first n hdr`: `hdr` is a size header announcing a chunk of `n` bytes.
First chunk: one byte, value `≤ maxInit`.  Later chunks: two little-endian radix
digits, each `< radix`, value `≤ maxSub`. -/
def IsHeader (p : Params) (first : Bool) (n : Nat) (hdr : List UInt8) : Prop :=
  if first then ∃ b : UInt8, hdr = [b] ∧ b.toNat = n ∧ n ≤ p.maxInit
  else ∃ b c : UInt8, hdr = [b, c] ∧ b.toNat < p.radix ∧ c.toNat < p.radix ∧
    n = b.toNat + c.toNat * p.radix ∧ n ≤ p.maxSub

theorem IsHeader.length {p : Params} {first : Bool} {n : Nat} {hdr : List UInt8}
    (h : IsHeader p first n hdr) : hdr.length = hdrLen first := by
  cases first
  · obtain ⟨b, c, rfl, _⟩ := (by simpa [IsHeader] using h : ∃ b c : UInt8, hdr = [b, c] ∧ _); rfl
  · obtain ⟨b, rfl, _⟩ := (by simpa [IsHeader] using h : ∃ b : UInt8, hdr = [b] ∧ _); rfl

theorem IsHeader.le {p : Params} {first : Bool} {n : Nat} {hdr : List UInt8}
    (h : IsHeader p first n hdr) : n ≤ limit p first := by
  cases first
  · simp only [IsHeader, Bool.false_eq_true, if_false] at h
    obtain ⟨b, c, _, _, _, _, h⟩ := h; exact h
  · simp only [IsHeader, if_true] at h
    obtain ⟨b, _, _, h⟩ := h; exact h

/-- The decoder's header parser accepts exactly the headers of `IsHeader`
(no condition on the parameters needed). -/
theorem parseHdr_eq_some_iff {p : Params} {first : Bool} {inp rest : List UInt8} {n : Nat} :
    parseHdr p first inp = some (n, rest) ↔ ∃ hdr, IsHeader p first n hdr ∧ inp = hdr ++ rest := by
  cases first
  · simp only [IsHeader, Bool.false_eq_true, if_false]
    constructor
    · intro h
      match inp, h with
      | b :: c :: r, h =>
        simp only [parseHdr, Bool.false_eq_true, if_false] at h
        split at h
        · rename_i hc
          simp only [Option.some.injEq, Prod.mk.injEq] at h
          exact ⟨[b, c], ⟨b, c, rfl, hc.1, hc.2.1, h.1.symm, h.1 ▸ hc.2.2⟩, by simp [h.2]⟩
        · simp at h
      | [b], h => simp [parseHdr] at h
      | [], h => simp [parseHdr] at h
    · rintro ⟨hdr, ⟨b, c, rfl, hb, hc, hn, hle⟩, rfl⟩
      subst hn
      simp [parseHdr, hb, hc, hle]
  · simp only [IsHeader, if_true]
    constructor
    · intro h
      match inp, h with
      | b :: r, h =>
        simp only [parseHdr, if_true] at h
        split at h
        · rename_i hc
          simp only [Option.some.injEq, Prod.mk.injEq] at h
          exact ⟨[b], ⟨b, rfl, h.1, h.1 ▸ hc⟩, by simp [h.2]⟩
        · simp at h
      | [], h => simp [parseHdr] at h
    · rintro ⟨hdr, ⟨b, rfl, hn, hle⟩, rfl⟩
      subst hn
      simp [parseHdr, hle]

/-- Under valid parameters, the only header for `n` is the one the encoder writes. -/
theorem isHeader_iff {p : Params} (hp : p.Valid) {first : Bool} {n : Nat} {hdr : List UInt8} :
    IsHeader p first n hdr ↔ hdr = header p first n ∧ n ≤ limit p first := by
  constructor
  · intro h
    refine ⟨?_, h.le⟩
    have h' := parseHdr_eq_some_iff.2 ⟨hdr, h, (List.append_nil hdr).symm⟩
    have h'' := parseHdr_header hp h.le []
    obtain ⟨h1, h2, h3, h4, h5, h6⟩ := hp
    cases first
    · simp only [IsHeader, Bool.false_eq_true, if_false] at h
      obtain ⟨b, c, rfl, hb, hc, hn, hle⟩ := h
      subst hn
      have e1 : (b.toNat + c.toNat * p.radix) % p.radix = b.toNat := by
        rw [Nat.add_mul_mod_self_right, Nat.mod_eq_of_lt hb]
      have e2 : (b.toNat + c.toNat * p.radix) / p.radix = c.toNat := by
        rw [Nat.add_mul_div_right _ _ (by omega), Nat.div_eq_of_lt hb]; omega
      simp [header, e1, e2]
    · simp only [IsHeader, if_true] at h
      obtain ⟨b, rfl, hn, hle⟩ := h
      subst hn
      simp [header]
  · rintro ⟨rfl, hn⟩
    have := parseHdr_header hp hn []
    obtain ⟨hdr, h, e⟩ := parseHdr_eq_some_iff.1 this
    simp at e; subst e; exact h

theorem isHeader_header {p : Params} (hp : p.Valid) {first : Bool} {n : Nat}
    (hn : n ≤ limit p first) : IsHeader p first n (header p first n) :=
  (isHeader_iff hp).2 ⟨rfl, hn⟩

/-- What the decoder accepts, and what it returns: a sequence of chunks, each a
valid size header followed by exactly that many body bytes; a chunk shorter than
its limit is followed by an implicit `FE FD` if another chunk follows; the
sequence ends right after a short chunk.  `first` = the next chunk is the first
one (one-byte header, limit `maxInit`); `pend` = the previous chunk was short.
Bodies are *not* required to be stuff-free or greedily cut. -/
inductive DecodesFrom (p : Params) : Bool → Bool → List UInt8 → List UInt8 → Prop
  | done : DecodesFrom p false true [] []
  | chunk {first pend : Bool} {hdr body rest out : List UInt8} :
      IsHeader p first body.length hdr →
      DecodesFrom p false (decide (body.length < limit p first)) rest out →
      DecodesFrom p first pend (hdr ++ body ++ rest)
        ((if pend then [FE, FD] else []) ++ body ++ out)

/-- `Decodes p bytes data`: `bytes` is a well-formed chunk sequence ending on a
short chunk, and `data` is what the format says it means. -/
def Decodes (p : Params) (bytes data : List UInt8) : Prop := DecodesFrom p true false bytes data

/-- The canonical encoding, spelled out.  Reading `data` left to right with a
window of `limit` bytes (`maxInit` for the first chunk, `maxSub` afterwards):
* `stuff`: the window contains an `FE FD`, the first one at offset `body.length`
  (so `body` is stuff-free and both bytes are inside the window): a *short* chunk
  holding `body`, and the `FE FD` is dropped;
* `full`: the window is full and stuff-free: a chunk of exactly `limit` bytes;
* `last`: the rest of the data is shorter than the window and stuff-free: a final
  *short* chunk.
Headers are as in `IsHeader`.  -/
inductive WellFormedFrom (p : Params) : Bool → List UInt8 → List UInt8 → Prop
  | last {first : Bool} {hdr body : List UInt8} :
      IsHeader p first body.length hdr → body.length < limit p first → findStuff body = none →
      WellFormedFrom p first (hdr ++ body) body
  | full {first : Bool} {hdr body bytes data : List UInt8} :
      IsHeader p first body.length hdr → body.length = limit p first → findStuff body = none →
      WellFormedFrom p false bytes data →
      WellFormedFrom p first (hdr ++ body ++ bytes) (body ++ data)
  | stuff {first : Bool} {hdr body bytes data : List UInt8} :
      IsHeader p first body.length hdr → body.length + 2 ≤ limit p first → findStuff body = none →
      WellFormedFrom p false bytes data →
      WellFormedFrom p first (hdr ++ body ++ bytes) (body ++ FE :: FD :: data)

/-- `WellFormed p bytes data`: `bytes` is the canonical hybrid-COBS encoding of `data`. -/
def WellFormed (p : Params) (bytes data : List UInt8) : Prop := WellFormedFrom p true bytes data

/-! ### The encoder produces the canonical encoding -/

/-- The three ways a window can look, as the encoder sees them. -/
theorem window_cases (p : Params) (first : Bool) (d : List UInt8) :
    (∃ body post, d = body ++ FE :: FD :: post ∧ body.length + 2 ≤ limit p first ∧
        findStuff body = none ∧ findStuff (d.take (limit p first)) = some body.length) ∨
    (findStuff (d.take (limit p first)) = none ∧ limit p first ≤ d.length) ∨
    (findStuff (d.take (limit p first)) = none ∧ d.length < limit p first) := by
  cases h : findStuff (d.take (limit p first)) with
  | some i =>
    left
    obtain ⟨h1, h2⟩ := findStuff_take.1 h
    obtain ⟨pre, post, rfl, rfl, h3⟩ := findStuff_eq_some_iff.1 h1
    exact ⟨pre, post, rfl, h2, h3, rfl⟩
  | none =>
    right
    rcases Nat.lt_or_ge d.length (limit p first) with hl | hl
    · exact Or.inr ⟨rfl, hl⟩
    · exact Or.inl ⟨rfl, hl⟩

theorem encLoop_wf {p : Params} (hp : p.Valid) {fuel : Nat} {first : Bool} {d : List UInt8}
    (hf : d.length < fuel) : WellFormedFrom p first (encLoop p fuel first d) d := by
  induction fuel generalizing first d with
  | zero => omega
  | succ fuel ih =>
    have hpos := limit_pos hp first
    rcases window_cases p first d with ⟨body, post, rfl, hb, hs, hw⟩ | ⟨hw, hl⟩ | ⟨hw, hl⟩
    · rw [encLoop_stuff hw]
      have e1 : (body ++ FE :: FD :: post).take body.length = body := List.take_left' rfl
      have e2 : (body ++ FE :: FD :: post).drop (body.length + 2) = post := by
        rw [show body ++ FE :: FD :: post = (body ++ [FE, FD]) ++ post by simp]
        exact List.drop_left' (by simp)
      rw [e1, e2]
      refine .stuff (isHeader_header hp (by omega)) hb hs (ih ?_)
      simp at hf; omega
    · rw [encLoop_full hw hl]
      have hlen : (d.take (limit p first)).length = limit p first := by simp; omega
      conv => rhs; rw [← List.take_append_drop (limit p first) d]
      refine .full ?_ hlen hw (ih ?_)
      · rw [hlen]; exact isHeader_header hp (Nat.le_refl _)
      · simp; omega
    · rw [encLoop_last hw hl]
      rw [List.take_of_length_le (by omega)] at hw
      exact .last (isHeader_header hp (by omega)) hl hw

theorem encode_wf {p : Params} (hp : p.Valid) (d : List UInt8) : WellFormed p (encode p d) d :=
  encLoop_wf hp (Nat.lt_succ_self _)

/-- Data determines bytes: the canonical encoding is what `encLoop` computes, with any
sufficient fuel. -/
theorem wf_eq_encLoop {p : Params} (hp : p.Valid) {first : Bool} {b d : List UInt8}
    (h : WellFormedFrom p first b d) : ∀ fuel, d.length < fuel → b = encLoop p fuel first d := by
  induction h with
  | @last first hdr body hh hl hs =>
    intro fuel hf
    obtain ⟨fuel, rfl⟩ : ∃ f, fuel = f + 1 := ⟨fuel - 1, by omega⟩
    rw [encLoop_last (by rw [List.take_of_length_le (by omega)]; exact hs) hl,
      ((isHeader_iff hp).1 hh).1]
  | @full first hdr body bytes data hh hl hs _ ih =>
    intro fuel hf
    obtain ⟨fuel, rfl⟩ : ∃ f, fuel = f + 1 := ⟨fuel - 1, by omega⟩
    have hpos := limit_pos hp first
    have e1 : (body ++ data).take (limit p first) = body := List.take_left' hl
    have e2 : (body ++ data).drop (limit p first) = data := List.drop_left' hl
    rw [encLoop_full (by rw [e1]; exact hs) (by simp; omega), e1, e2,
      ← ih fuel (by simp at hf; omega), ((isHeader_iff hp).1 hh).1, hl]
  | @stuff first hdr body bytes data hh hl hs _ ih =>
    intro fuel hf
    obtain ⟨fuel, rfl⟩ : ∃ f, fuel = f + 1 := ⟨fuel - 1, by omega⟩
    have hw : findStuff ((body ++ FE :: FD :: data).take (limit p first)) = some body.length :=
      findStuff_take.2 ⟨findStuff_append_stuff _ hs, hl⟩
    have e1 : (body ++ FE :: FD :: data).take body.length = body := List.take_left' rfl
    have e2 : (body ++ FE :: FD :: data).drop (body.length + 2) = data := by
      rw [show body ++ FE :: FD :: data = (body ++ [FE, FD]) ++ data by simp]
      exact List.drop_left' (by simp)
    rw [encLoop_stuff hw, e1, e2, ← ih fuel (by simp at hf; omega), ((isHeader_iff hp).1 hh).1]

theorem wf_iff_encode {p : Params} (hp : p.Valid) {b d : List UInt8} :
    WellFormed p b d ↔ b = encode p d :=
  ⟨fun h => wf_eq_encLoop hp h _ (Nat.lt_succ_self _), fun h => h ▸ encode_wf hp d⟩

/-- Fuel monotonicity for the encoder: any fuel above `d.length` gives the same output. -/
theorem encLoop_fuel {p : Params} (hp : p.Valid) {f₁ f₂ : Nat} {first : Bool} {d : List UInt8}
    (h₁ : d.length < f₁) (h₂ : d.length < f₂) : encLoop p f₁ first d = encLoop p f₂ first d :=
  (wf_eq_encLoop hp (encLoop_wf hp h₁) f₂ h₂)

/-! ### No stuff sequence in canonical encodings -/

theorem isHeader_bytes_ne {p : Params} (hp : p.Valid) {first : Bool} {n : Nat} {hdr : List UInt8}
    (h : IsHeader p first n hdr) : ∀ b ∈ hdr, b ≠ FE ∧ b ≠ FD := by
  obtain ⟨rfl, hn⟩ := (isHeader_iff hp).1 h
  exact header_bytes_ne hp hn

theorem isHeader_ne_nil {p : Params} {first : Bool} {n : Nat} {hdr : List UInt8}
    (h : IsHeader p first n hdr) : hdr ≠ [] := by
  intro e; have := h.length; subst e; cases first <;> simp at this

/-- `hdr ++ body ++ rest` is stuff-free when the parts are, `hdr` has neither `FE`
nor `FD`, and `rest` does not start with `FD`. -/
theorem findStuff_chunk {hdr body rest : List UInt8} (hne : hdr ≠ [])
    (hh : ∀ b ∈ hdr, b ≠ FE ∧ b ≠ FD) (hb : findStuff body = none)
    (hr : findStuff rest = none) (hrh : rest.head? ≠ some FD) :
    findStuff (hdr ++ body ++ rest) = none ∧ (hdr ++ body ++ rest).head? ≠ some FD := by
  constructor
  · rw [findStuff_append_none, findStuff_append_none]
    refine ⟨⟨findStuff_none_of_no_FE (fun b hb => (hh b hb).1), hb, ?_⟩, hr, ?_⟩
    · rintro ⟨h1, -⟩
      exact (hh FE (List.mem_of_getLast? h1)).1 rfl
    · rintro ⟨-, h2⟩; exact hrh h2
  · cases hdr with
    | nil => exact absurd rfl hne
    | cons x t =>
      simp only [List.cons_append, List.head?_cons, ne_eq, Option.some.injEq]
      exact (hh x (by simp)).2

theorem wf_noStuff {p : Params} (hp : p.Valid) {first : Bool} {b d : List UInt8}
    (h : WellFormedFrom p first b d) : findStuff b = none ∧ b.head? ≠ some FD := by
  induction h with
  | last hh hl hs =>
    have := findStuff_chunk (rest := []) (isHeader_ne_nil hh) (isHeader_bytes_ne hp hh) hs
      (by simp) (by simp)
    simpa using this
  | full hh hl hs _ ih => exact findStuff_chunk (isHeader_ne_nil hh) (isHeader_bytes_ne hp hh) hs ih.1 ih.2
  | stuff hh hl hs _ ih => exact findStuff_chunk (isHeader_ne_nil hh) (isHeader_bytes_ne hp hh) hs ih.1 ih.2

/-- **No stuff sequence** anywhere in the encoder's output. -/
theorem findStuff_encode (p : Params) (hp : p.Valid) (d : List UInt8) :
    findStuff (encode p d) = none :=
  (wf_noStuff hp (encode_wf hp d)).1

/-! ### The decoder accepts exactly `DecodesFrom` -/

section
variable {p : Params} {fuel : Nat} {first pend : Bool}

theorem decLoop_zero (inp : List UInt8) : decLoop p 0 first pend inp = none := by
  simp [decLoop]

theorem decLoop_nil : decLoop p (fuel + 1) first pend [] = if !first ∧ pend then some [] else none := by
  simp [decLoop]

theorem parseHdr_nil : parseHdr p first [] = none := by simp [parseHdr]

theorem decLoop_parse_none {inp : List UInt8} (hne : inp ≠ []) (h : parseHdr p first inp = none) :
    decLoop p (fuel + 1) first pend inp = none := by
  cases inp with
  | nil => exact absurd rfl hne
  | cons a t => simp [decLoop, h]

theorem decLoop_parse_some {inp rest : List UInt8} {n : Nat}
    (h : parseHdr p first inp = some (n, rest)) :
    decLoop p (fuel + 1) first pend inp =
      if rest.length < n then none
      else (decLoop p fuel false (decide (n < limit p first)) (rest.drop n)).map
        (fun out => (if pend then [FE, FD] else []) ++ rest.take n ++ out) := by
  cases inp with
  | nil => simp [parseHdr] at h
  | cons a t =>
    by_cases hn : n < (if first = true then p.maxInit else p.maxSub)
    · simp only [decLoop, h, limit, hn, decide_true]
      split
      · rfl
      · generalize decLoop p fuel false true _ = r
        cases r <;> rfl
    · simp only [decLoop, h, limit, hn, decide_false]
      split
      · rfl
      · generalize decLoop p fuel false false _ = r
        cases r <;> rfl

end

/-- Completeness: a well-formed chunk sequence is decoded, to the data the format
defines, by any fuel above the input length. -/
theorem decLoop_of_decodes {p : Params} {first pend : Bool} {b out : List UInt8}
    (h : DecodesFrom p first pend b out) :
    ∀ fuel, b.length < fuel → decLoop p fuel first pend b = some out := by
  induction h with
  | done =>
    intro fuel hf
    obtain ⟨fuel, rfl⟩ : ∃ f, fuel = f + 1 := ⟨fuel - 1, by omega⟩
    simp [decLoop_nil]
  | @chunk first pend hdr body rest out hh _ ih =>
    intro fuel hf
    obtain ⟨fuel, rfl⟩ : ∃ f, fuel = f + 1 := ⟨fuel - 1, by omega⟩
    have hp : parseHdr p first (hdr ++ body ++ rest) = some (body.length, body ++ rest) :=
      parseHdr_eq_some_iff.2 ⟨hdr, hh, by simp⟩
    have hl := hh.length
    have hpos : 1 ≤ hdrLen first := by cases first <;> simp
    rw [decLoop_parse_some hp, if_neg (by simp), List.drop_left' rfl, List.take_left' rfl,
      ih fuel (by simp at hf; omega)]
    rfl

/-- Soundness: whatever the decoder returns is what the format defines. -/
theorem decodes_of_decLoop {p : Params} {fuel : Nat} {first pend : Bool} {b out : List UInt8}
    (h : decLoop p fuel first pend b = some out) : DecodesFrom p first pend b out := by
  induction fuel generalizing first pend b out with
  | zero => simp [decLoop_zero] at h
  | succ fuel ih =>
    by_cases hne : b = []
    · subst hne
      rw [decLoop_nil] at h
      split at h
      · rename_i hc
        simp only [Option.some.injEq] at h
        subst h
        cases first <;> cases pend <;> simp at hc
        exact .done
      · simp at h
    · cases hp : parseHdr p first b with
      | none => rw [decLoop_parse_none hne hp] at h; simp at h
      | some nr =>
        obtain ⟨n, rest⟩ := nr
        rw [decLoop_parse_some hp] at h
        split at h
        · simp at h
        · rename_i hlen
          cases hr : decLoop p fuel false (decide (n < limit p first)) (rest.drop n) with
          | none => rw [hr] at h; simp at h
          | some out' =>
            rw [hr] at h
            simp only [Option.map_some, Option.some.injEq] at h
            subst h
            obtain ⟨hdr, hh, rfl⟩ := parseHdr_eq_some_iff.1 hp
            have hlen' : (rest.take n).length = n := by simp; omega
            have e : hdr ++ rest = hdr ++ rest.take n ++ rest.drop n := by simp
            rw [e]
            exact .chunk (by rw [hlen']; exact hh) (by rw [hlen']; exact ih hr)

/-- The fuel in `Spec.decode` is enough: any fuel above the input length gives the
same answer. -/
theorem decLoop_fuel {p : Params} {f₁ f₂ : Nat} {first pend : Bool} {b : List UInt8}
    (h₁ : b.length < f₁) (h₂ : b.length < f₂) :
    decLoop p f₁ first pend b = decLoop p f₂ first pend b := by
  cases h : decLoop p f₁ first pend b with
  | some out => exact (decLoop_of_decodes (decodes_of_decLoop h) f₂ h₂).symm
  | none =>
    cases h' : decLoop p f₂ first pend b with
    | none => rfl
    | some out => rw [decLoop_of_decodes (decodes_of_decLoop h') f₁ h₁] at h; simp at h

/-- More fuel never changes an answer already given. -/
theorem decLoop_fuel_mono {p : Params} {f₁ f₂ : Nat} {first pend : Bool} {b out : List UInt8}
    (h : decLoop p f₁ first pend b = some out) (hle : f₁ ≤ f₂) :
    decLoop p f₂ first pend b = some out := by
  induction f₁ generalizing f₂ first pend b out with
  | zero => simp [decLoop_zero] at h
  | succ f₁ ih =>
    obtain ⟨f₂, rfl⟩ : ∃ f, f₂ = f + 1 := ⟨f₂ - 1, by omega⟩
    by_cases hne : b = []
    · subst hne; rw [decLoop_nil] at h ⊢; exact h
    · cases hp : parseHdr p first b with
      | none => rw [decLoop_parse_none hne hp] at h; simp at h
      | some nr =>
        obtain ⟨n, rest⟩ := nr
        rw [decLoop_parse_some hp] at h ⊢
        split at h
        · simp at h
        · rename_i hlen
          rw [if_neg hlen]
          cases hr : decLoop p f₁ false (decide (n < limit p first)) (rest.drop n) with
          | none => rw [hr] at h; simp at h
          | some out' =>
            rw [hr] at h
            rw [ih hr (by omega)]; exact h

/-- **The decoder accepts precisely the well-formed chunk sequences that end on a
short chunk, and returns what the format defines** (for all parameters). -/
theorem decode_iff {p : Params} {b d : List UInt8} : decode p b = some d ↔ Decodes p b d :=
  ⟨decodes_of_decLoop, fun h => decLoop_of_decodes h _ (Nat.lt_succ_self _)⟩

/-- `Decodes` is functional: the bytes determine the data. -/
theorem decodes_unique {p : Params} {b d d' : List UInt8} (h : Decodes p b d) (h' : Decodes p b d') :
    d = d' := by
  have := decode_iff.2 h
  rw [decode_iff.2 h'] at this
  exact (Option.some.inj this).symm

/-- Canonical encodings are decodable, to the same data. -/
theorem wf_decodesFrom {p : Params} {first : Bool} {b d : List UInt8}
    (h : WellFormedFrom p first b d) :
    ∀ pend : Bool, DecodesFrom p first pend b ((if pend then [FE, FD] else []) ++ d) := by
  induction h with
  | @last first hdr body hh hl hs =>
    intro pend
    have := DecodesFrom.chunk (pend := pend) hh (rest := []) (out := [])
      (by rw [decide_eq_true hl]; exact .done)
    simpa using this
  | @full first hdr body bytes data hh hl hs _ ih =>
    intro pend
    have := DecodesFrom.chunk (pend := pend) hh (rest := bytes) (out := data)
      (by rw [decide_eq_false (by omega)]; simpa using ih false)
    simpa using this
  | @stuff first hdr body bytes data hh hl hs _ ih =>
    intro pend
    have := DecodesFrom.chunk (pend := pend) hh (rest := bytes) (out := FE :: FD :: data)
      (by rw [decide_eq_true (by omega)]; simpa using ih true)
    simpa using this

theorem wf_decodes {p : Params} {b d : List UInt8} (h : WellFormed p b d) : Decodes p b d := by
  simpa [Decodes] using wf_decodesFrom h false

/-- **Round trip** on the batch definitions. -/
theorem decode_encode (p : Params) (hp : p.Valid) (d : List UInt8) :
    decode p (encode p d) = some d :=
  decode_iff.2 (wf_decodes (encode_wf hp d))

/-! ### Length of the encoding -/

/-- Number of *full* chunks (`limit` bytes, no stuff sequence in the window) the
encoder cuts; same recursion as `encLoop`. -/
def fullCount (p : Params) : Nat → Bool → List UInt8 → Nat
  | 0, _, _ => 0
  | fuel + 1, first, d =>
    match findStuff (d.take (limit p first)) with
    | some i => fullCount p fuel false (d.drop (i + 2))
    | none =>
      if limit p first ≤ d.length then fullCount p fuel false (d.drop (limit p first)) + 1 else 0

/-- Number of full chunks in the canonical encoding of `d`. -/
def fullChunks (p : Params) (d : List UInt8) : Nat := fullCount p (d.length + 1) true d

section
variable {p : Params} {fuel : Nat} {first : Bool} {d : List UInt8}

theorem fullCount_stuff {i : Nat} (h : findStuff (d.take (limit p first)) = some i) :
    fullCount p (fuel + 1) first d = fullCount p fuel false (d.drop (i + 2)) := by
  simp [fullCount, h]

theorem fullCount_full (h : findStuff (d.take (limit p first)) = none)
    (hl : limit p first ≤ d.length) :
    fullCount p (fuel + 1) first d = fullCount p fuel false (d.drop (limit p first)) + 1 := by
  simp [fullCount, h, hl]

theorem fullCount_last (h : findStuff (d.take (limit p first)) = none)
    (hl : d.length < limit p first) : fullCount p (fuel + 1) first d = 0 := by
  simp [fullCount, h, Nat.not_le.2 hl]

end

theorem encLoop_length {p : Params} (hp : p.Valid) {fuel : Nat} {first : Bool} {d : List UInt8}
    (hf : d.length < fuel) :
    (encLoop p fuel first d).length = d.length + hdrLen first + 2 * fullCount p fuel first d := by
  induction fuel generalizing first d with
  | zero => omega
  | succ fuel ih =>
    have hpos := limit_pos hp first
    rcases window_cases p first d with ⟨body, post, rfl, hb, hs, hw⟩ | ⟨hw, hl⟩ | ⟨hw, hl⟩
    · have e2 : (body ++ FE :: FD :: post).drop (body.length + 2) = post := by
        rw [show body ++ FE :: FD :: post = (body ++ [FE, FD]) ++ post by simp]
        exact List.drop_left' (by simp)
      rw [encLoop_stuff hw, fullCount_stuff hw, e2]
      simp only [List.length_append, header_length, List.length_take, List.length_cons]
      rw [ih (by simp at hf; omega)]
      simp; omega
    · rw [encLoop_full hw hl, fullCount_full hw hl]
      simp only [List.length_append, header_length, List.length_take]
      rw [ih (by simp; omega)]
      simp; omega
    · rw [encLoop_last hw hl, fullCount_last hw hl]
      simp only [List.length_append, header_length]; omega

/-- After the first chunk, every full chunk carries `maxSub` payload bytes. -/
theorem fullCount_false_le {p : Params} (hp : p.Valid) {fuel : Nat} {d : List UInt8}
    (hf : d.length < fuel) : fullCount p fuel false d * p.maxSub ≤ d.length := by
  induction fuel generalizing d with
  | zero => omega
  | succ fuel ih =>
    have hpos := limit_pos hp false
    rcases window_cases p false d with ⟨body, post, rfl, hb, hs, hw⟩ | ⟨hw, hl⟩ | ⟨hw, hl⟩
    · have e2 : (body ++ FE :: FD :: post).drop (body.length + 2) = post := by
        rw [show body ++ FE :: FD :: post = (body ++ [FE, FD]) ++ post by simp]
        exact List.drop_left' (by simp)
      rw [fullCount_stuff hw, e2]
      have := ih (d := post) (by simp at hf; omega)
      simp; omega
    · rw [fullCount_full hw hl]
      have := ih (d := d.drop (limit p false)) (by simp only [List.length_drop]; omega)
      simp only [limit_false, List.length_drop] at this hl hpos ⊢
      rw [Nat.add_mul]; omega
    · rw [fullCount_last hw hl]; simp

theorem fullCount_true_le {p : Params} (hp : p.Valid) {fuel : Nat} {d : List UInt8}
    (hf : d.length < fuel) :
    fullCount p fuel true d * p.maxSub ≤ d.length + p.maxSub - 1 := by
  obtain ⟨fuel, rfl⟩ : ∃ f, fuel = f + 1 := ⟨fuel - 1, by omega⟩
  have hpos := limit_pos hp true
  have hpos' := limit_pos hp false
  rcases window_cases p true d with ⟨body, post, rfl, hb, hs, hw⟩ | ⟨hw, hl⟩ | ⟨hw, hl⟩
  · have e2 : (body ++ FE :: FD :: post).drop (body.length + 2) = post := by
      rw [show body ++ FE :: FD :: post = (body ++ [FE, FD]) ++ post by simp]
      exact List.drop_left' (by simp)
    rw [fullCount_stuff hw, e2]
    have := fullCount_false_le hp (fuel := fuel) (d := post) (by simp at hf; omega)
    simp; omega
  · rw [fullCount_full hw hl]
    have := fullCount_false_le hp (fuel := fuel) (d := d.drop (limit p true)) (by simp only [List.length_drop]; omega)
    simp only [limit_true, limit_false, List.length_drop] at this hl hpos hpos' ⊢
    rw [Nat.add_mul]; omega
  · rw [fullCount_last hw hl]; simp

/-- **Exact length**: one byte of first header, plus two per full chunk (a chunk
ended by a stuff sequence trades the two dropped bytes for the next header). -/
theorem encode_length_eq (p : Params) (hp : p.Valid) (d : List UInt8) :
    (encode p d).length = d.length + 1 + 2 * fullChunks p d := by
  simpa [encode, fullChunks] using encLoop_length hp (first := true) (Nat.lt_succ_self d.length)

theorem fullChunks_le (p : Params) (hp : p.Valid) (d : List UInt8) :
    fullChunks p d ≤ (d.length + p.maxSub - 1) / p.maxSub := by
  have hpos := limit_pos hp false
  rw [Nat.le_div_iff_mul_le (by simp only [limit_false] at hpos; omega)]
  exact fullCount_true_le hp (Nat.lt_succ_self _)

/-- **Length bound**. -/
theorem encode_length_le (p : Params) (hp : p.Valid) (d : List UInt8) :
    (encode p d).length ≤ d.length + 1 + 2 * ((d.length + p.maxSub - 1) / p.maxSub) := by
  rw [encode_length_eq p hp]
  have := fullChunks_le p hp d
  omega

end Woodpile.Hcobs.Spec

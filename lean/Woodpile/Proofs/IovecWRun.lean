/-
Layer B → Layer A for the full multi-object vocabulary (track `wabs`), part 4: the step theorem for ALL
handles at once (`gstep_rel`) and its lifting to histories (`grun_rel`).

`Rel g s`: the ghost world `g` and the reference `s : PW` agree — every LIVE handle's abstraction is the
reference pipe, the reference has counted the handles and collected the tokens.  (The reference's pipes
of handles that are not live are irrelevant: `new*` / `take` / `clone` overwrite the pipe of the handle
they create.)
-/
import Woodpile.Proofs.IovecWStep

namespace Woodpile.Iovec
open Woodpile.Arena
open Woodpile.Pipe (Cell Pipe cellBytes fillCells)

structure Rel (g : GW) (s : PW) : Prop where
  pipe : ∀ j v, g.w.iov j = some v → absW g j = s.pipe j
  n : s.n = g.w.iovs.length
  toks : s.toks = g.w.brefs

theorem rel_self (g : GW) : Rel g g.pw := ⟨fun _ _ _ => rfl, rfl, rfl⟩

theorem rel_init (pol : Policy) (tun : Tuning) : Rel (GW.init pol tun) PW.init :=
  ⟨by intro j v h; simp [GW.init, World.init, World.iov] at h, rfl, rfl⟩

/-- Every `backfill` of the step goes through an iovec whose pending placeholder memory no other live
iovec references. -/
def FillPrivate (w : World) (op : WOp) : Prop :=
  ∀ X b bs, op = .backfill X b bs → ∀ j, j ≠ X → NoShare w X j

/-- The side condition of one step. -/
abbrev StepOk (w : World) (op : WOp) : Prop := FillPrivate w op

/-! ### Bookkeeping on handles the step neither names nor creates -/

theorem asOp_target {toks : List Backref} {op : WOp} {r : WRet} {i : Nat} {o : Op} {r' : Ret}
    (h : op.asOp toks r = some (i, o, r')) : op.iovTarget = some i := by
  cases op <;> cases r <;> simp [WOp.asOp] at h <;> simp [WOp.iovTarget, h.1]

theorem ghost'_other (g : GW) (op : WOp) (j : Nat) (hj : op.iovTarget ≠ some j) (hn : j ≠ g.w.iovs.length) :
    g.ghost' op j = g.ghost j ∧ g.nid' op j = g.nid j := by
  have hj' : ∀ i, op.iovTarget = some i → j ≠ i := fun i hi e => hj (e ▸ hi)
  cases op <;>
    first
      | (have h' := hj' _ rfl; simp [GW.ghost', GW.nid', fupd, hn, h'])
      | simp [GW.ghost', GW.nid', fupd, hn]

theorem pw_step_other (s : PW) (op : WOp) (r : WRet) (j : Nat) (hj : op.iovTarget ≠ some j) (hn : j ≠ s.n) :
    (s.step op r).pipe j = s.pipe j := by
  have hj' : ∀ i, op.iovTarget = some i → j ≠ i := fun i hi e => hj (e ▸ hi)
  unfold PW.step
  cases hasop : op.asOp s.toks r with
  | some x =>
    obtain ⟨i, o, r'⟩ := x
    have := asOp_target hasop
    simp only
    rw [fupd_ne]
    exact hj' i this
  | none =>
    simp only
    cases op <;>
      first
        | (have h' := hj' _ rfl; simp [PW.structStep, fupd, hn, h'])
        | simp [PW.structStep, fupd, hn]

/-- The reference step reads only the pipe it updates (and, for `take` / `clone`, the source pipe), the
handle count and the tokens. -/
theorem pw_step_congr (s s2 : PW) (op : WOp) (r : WRet) (j : Nat) (hn : s.n = s2.n) (ht : s.toks = s2.toks)
    (hj : s.pipe j = s2.pipe j)
    (hsrc : ∀ i, op = .take i ∨ op = .clone i → s.pipe i = s2.pipe i) :
    (s.step op r).pipe j = (s2.step op r).pipe j := by
  unfold PW.step
  rw [ht]
  cases hasop : op.asOp s2.toks r with
  | some x =>
    obtain ⟨i, o, r'⟩ := x
    simp only [fupd]
    split
    · rename_i e; subst e; rw [hj]
    · exact hj
  | none =>
    simp only
    cases op <;> simp only [PW.structStep, fupd, hn] <;> (try split) <;> (try split) <;>
      first
        | exact hj
        | rfl
        | exact hsrc _ (Or.inl rfl)
        | exact hsrc _ (Or.inr rfl)

/-- … and a creating step overwrites the pipe of the handle it creates. -/
theorem pw_step_created (s s2 : PW) (op : WOp) (r : WRet) (hc : op.creates = true) (hn : s.n = s2.n)
    (hsrc : ∀ i, op = .take i ∨ op = .clone i → s.pipe i = s2.pipe i) :
    (s.step op r).pipe s.n = (s2.step op r).pipe s2.n := by
  cases op <;> simp only [WOp.creates, Bool.false_eq_true] at hc <;>
    simp only [PW.step, WOp.asOp, PW.structStep, fupd, hn, if_true]
  · rename_i i
    rw [hsrc i (Or.inl rfl)]
  · rename_i i
    rw [hsrc i (Or.inr rfl)]

theorem pw_ok_congr (s s2 : PW) (op : WOp) (r : WRet) (ht : s.toks = s2.toks)
    (hp : ∀ i, op.iovTarget = some i → s.pipe i = s2.pipe i) (h : s2.ok op r) : s.ok op r := by
  unfold PW.ok at h ⊢
  rw [ht]
  cases hasop : op.asOp s2.toks r with
  | some x =>
    obtain ⟨i, o, r'⟩ := x
    rw [hasop] at h
    simp only at h ⊢
    rw [hp i (asOp_target hasop)]
    exact h
  | none => trivial

/-! ### One step, the named handle -/

theorem target_all {g : GW} {op : WOp} {w' : World} {caps : Nat → Nat} {i : Nat} {v : Iov} (hg : GReach g.w caps)
    (h1 : g.w.step op = some w') (hi : op.iovTarget = some i) (hv : g.w.iov i = some v) (hinv : W.IovInv g.w v) :
    TargetGoal g op w' i := by
  cases op <;> simp only [WOp.iovTarget, Option.some.injEq, reduceCtorEq] at hi <;> subst hi <;>
    first
      | (refine target_oplike h1 hv hinv ?_; simp; done)
      | (refine target_other hg h1 hv hinv ?_; simp; done)

/-- A call on a handle that is not live succeeds only in four degenerate cases; the returned value then
satisfies the pipe-level side condition whatever the reference holds at that handle. -/
theorem ok_dead {g : GW} {op : WOp} {w' : World} (s : PW) {i : Nat} (h1 : g.w.step op = some w')
    (hi : op.iovTarget = some i) (hv : g.w.iov i = none) (ht : s.toks = g.w.brefs) : s.ok op (g.w.ret op) := by
  unfold PW.ok
  rw [ht]
  cases op <;> simp only [WOp.iovTarget, Option.some.injEq, reduceCtorEq] at hi <;> subst hi <;>
    simp only [World.ret, hv, WOp.asOp, specOk] <;> (try trivial)
  · -- register
    rename_i pat
    simp only [World.step] at h1
    cases hr : g.w.registerPatch _ pat with
    | none => rw [hr] at h1; cases h1
    | some x =>
      obtain ⟨w1, b⟩ := x
      simp only
      unfold World.registerPatch at hr
      split at hr
      · rename_i he
        simp only [Option.some.injEq, Prod.mk.injEq] at hr
        rw [← hr.2]
        simpa using he
      · simp [World.pushCopy, hv] at hr
  · -- read
    rename_i k
    cases hr : World.readInto (k + 2) g.w _ k [] with
    | none => trivial
    | some x =>
      obtain ⟨w1, bytes⟩ := x
      simp only
      unfold World.readInto at hr
      split at hr
      · rename_i h0
        simp only [Option.some.injEq, Prod.mk.injEq] at hr
        rw [← hr.2]
        simp
      · simp [hv] at hr
  · -- pushASlice
    rename_i si
    cases g.w.aslice si <;> simp

/-! ### One step, all handles -/

/-- The invariant of every live iovec is preserved by EVERY step (no side condition). -/
theorem allInv_step {w w' : World} {caps : Nat → Nat} {op : WOp} (hg : GReach w caps) (hall : AllInv w)
    (h1 : w.step op = some w') : AllInv w' := by
  intro j x hx
  obtain ⟨hlen, _⟩ := step_book h1
  by_cases hj : op.iovTarget = some j
  · cases hv : w.iov j with
    | none => rw [step_target_dead h1 hj hv] at hx; cases hx
    | some v =>
      exact (target_all (g := ⟨w, fun _ => [], fun _ => 0⟩) hg h1 hj hv (hall j v hv)).1 x hx
  · by_cases hlt : j < w.iovs.length
    · rw [step_frame_iov_eq h1 hlt hj] at hx
      exact (frame_other_inv h1 hx hj (hall j x hx)).2
    · have hjl := iov_lt_of_some hx
      rw [hlen] at hjl
      have hc : op.creates = true := by
        cases hcc : op.creates with
        | true => rfl
        | false => rw [hcc] at hjl; simp at hjl; omega
      rw [hc] at hjl
      have hjn : j = w.iovs.length := by simp at hjl; omega
      subst hjn
      exact (created_goal (g := ⟨w, fun _ => [], fun _ => 0⟩) hg hall h1 hc).1 x hx

theorem GReach.allInv {w : World} {caps : Nat → Nat} (h : GReach w caps) : AllInv w := by
  induction h with
  | init pol tun => exact allInv_init pol tun
  | @step w w' caps caps' op hg hs _ _ ih => exact allInv_step hg ih hs

theorem gstep_rel {g g' : GW} {op : WOp} {r : WRet} {caps : Nat → Nat} {s : PW} (hg : GReach g.w caps)
    (hall : AllInv g.w) (hok : StepOk g.w op) (hrel : Rel g s) (h : g.step op = some (g', r)) :
    AllInv g'.w ∧ Rel g' (s.step op r) ∧ s.ok op r := by
  obtain ⟨w', h1, rfl, rfl⟩ := GW.step_some' h
  obtain ⟨hlen, hbrefs⟩ := step_book h1
  -- the three kinds of live handle of the new world
  have key : ∀ j x, w'.iov j = some x →
      W.IovInv w' x ∧ absW ⟨w', g.ghost' op, g.nid' op⟩ j = (s.step op (g.w.ret op)).pipe j := by
    intro j x hx
    by_cases hj : op.iovTarget = some j
    · -- named
      cases hv : g.w.iov j with
      | none => rw [step_target_dead h1 hj hv] at hx; cases hx
      | some v =>
        obtain ⟨t1, t2, _⟩ := target_all hg h1 hj hv (hall j v hv)
        refine ⟨t1 x hx, ?_⟩
        rw [t2]
        apply pw_step_congr _ _ _ _ _ hrel.n.symm hrel.toks.symm (hrel.pipe j v hv)
        intro i hi
        rcases hi with rfl | rfl <;> simp only [WOp.iovTarget, Option.some.injEq] at hj <;> subst hj <;>
          exact hrel.pipe _ v hv
    · by_cases hlt : j < g.w.iovs.length
      · -- neither named nor created
        have heq := step_frame_iov_eq h1 hlt hj
        rw [heq] at hx
        have hff : FillFree g.w op j := fun X b bs e hXj => hok X b bs e j (fun e' => hXj e'.symm)
        obtain ⟨f1, f2, f3⟩ := frame_other hg h1 hx hj (hall j x hx) hff
        refine ⟨f2, ?_⟩
        have hne : j ≠ g.w.iovs.length := Nat.ne_of_lt hlt
        obtain ⟨e1, e2⟩ := ghost'_other g op j hj hne
        rw [absW_live _ j x f1, pw_step_other s op _ j hj (by rw [hrel.n]; exact hne), ← hrel.pipe j x hx,
          absW_live g j x hx, absCells_congr f3]
        simp only [e1, e2]
      · -- created
        have hjl := iov_lt_of_some hx
        rw [hlen] at hjl
        have hc : op.creates = true := by
          cases hcc : op.creates with
          | true => rfl
          | false => rw [hcc] at hjl; simp at hjl; omega
        rw [hc] at hjl
        have hjn : j = g.w.iovs.length := by simp at hjl; omega
        subst hjn
        obtain ⟨t1, t2, _⟩ := created_goal hg hall h1 hc
        refine ⟨t1 x hx, ?_⟩
        rw [t2]
        have hn' : g.w.iovs.length = s.n := hrel.n.symm
        have e := pw_step_created g.pw s op (g.w.ret op) hc hn'
        rw [← hn'] at e
        apply e
        · intro i hi
          rcases hi with rfl | rfl
          · simp only [World.step, World.take] at h1
            cases hv : g.w.iov i with
            | none => rw [hv] at h1; cases h1
            | some v => exact hrel.pipe i v hv
          · simp only [World.step, World.clone] at h1
            cases hv : g.w.iov i with
            | none => rw [hv] at h1; cases h1
            | some v => exact hrel.pipe i v hv
  refine ⟨fun j x hx => (key j x hx).1, ⟨fun j x hx => (key j x hx).2, ?_, ?_⟩, ?_⟩
  · -- handle count
    show (s.step op (g.w.ret op)).n = w'.iovs.length
    rw [hlen, ← hrel.n]
    unfold PW.step
    cases hasop : op.asOp s.toks (g.w.ret op) with
    | some x =>
      have := asOp_target hasop
      have hc : op.creates = false := by
        cases op <;> first | rfl | (simp [WOp.asOp] at hasop)
      simp [hc]
    | none => cases op <;> simp [PW.structStep, WOp.creates]
  · -- tokens
    show (s.step op (g.w.ret op)).toks = w'.brefs
    rw [hbrefs, ← hrel.toks]
    unfold PW.step
    cases hasop : op.asOp s.toks (g.w.ret op) with
    | some x => rfl
    | none =>
      cases op <;> first
        | rfl
        | (simp only [PW.structStep, PW.tokStep]; cases hr : g.w.ret _ <;> first | rfl | (simp [WOp.asOp, hr] at hasop))
  · -- ok
    cases hasop : op.asOp s.toks (g.w.ret op) with
    | none => simp only [PW.ok, hasop]
    | some x =>
      obtain ⟨i, o, r'⟩ := x
      have hi := asOp_target hasop
      cases hv : g.w.iov i with
      | none => exact ok_dead s h1 hi hv hrel.toks
      | some v =>
        obtain ⟨_, _, t3⟩ := target_all hg h1 hi hv (hall i v hv)
        refine pw_ok_congr s g.pw op _ hrel.toks ?_ t3
        intro i' hi'
        rw [hi] at hi'; cases hi'
        exact (hrel.pipe i v hv).symm

/-! ### Histories -/

/-- The side conditions hold at every step of the history (a property of the history: it is decided by
running the model, see `World.okRunB`). -/
def GW.OkRun : GW → List WOp → Prop
  | _, [] => True
  | g, op :: ops => StepOk g.w op ∧ ∀ g' r, g.step op = some (g', r) → GW.OkRun g' ops

theorem grun_rel : ∀ (ops : List WOp) (g g' : GW) (rs : List WRet) (s : PW) (caps : Nat → Nat),
    GReach g.w caps → AllInv g.w → Rel g s → g.OkRun ops → g.run ops = some (g', rs) →
    AllInv g'.w ∧ Rel g' (s.run ops rs) ∧ s.okRun ops rs ∧ ∃ caps', GReach g'.w caps' := by
  intro ops
  induction ops with
  | nil =>
    intro g g' rs s caps hg hall hrel _ h
    simp only [GW.run, Option.some.injEq, Prod.mk.injEq] at h
    obtain ⟨rfl, rfl⟩ := h
    exact ⟨hall, hrel, trivial, caps, hg⟩
  | cons op ops ih =>
    intro g g' rs s caps hg hall hrel hok h
    simp only [GW.run] at h
    cases h1 : g.step op with
    | none => rw [h1] at h; cases h
    | some gr =>
      obtain ⟨g1, r⟩ := gr
      rw [h1] at h
      simp only at h
      cases h2 : g1.run ops with
      | none => rw [h2] at h; cases h
      | some x =>
        obtain ⟨g2, rs2⟩ := x
        rw [h2] at h
        simp only [Option.some.injEq, Prod.mk.injEq] at h
        obtain ⟨rfl, rfl⟩ := h
        obtain ⟨a1, a2, a3⟩ := gstep_rel hg hall hok.1 hrel h1
        have hw1 := (GW.step_some h1).1
        obtain ⟨caps1, ho, hn⟩ := (step_astep hw1).exists_caps hg.reachable.inv hg.inv
        obtain ⟨b1, b2, b3, b4⟩ := ih g1 g2 rs2 (s.step op r) caps1 (hg.step hw1 ho hn) a1 a2 (hok.2 g1 r h1) h2
        exact ⟨b1, b2, ⟨a3, b3⟩, b4⟩

/-- From the initial world. -/
theorem grun_init (pol : Policy) (tun : Tuning) (ops : List WOp) (g : GW) (rs : List WRet)
    (hok : (GW.init pol tun).OkRun ops) (h : (GW.init pol tun).run ops = some (g, rs)) :
    AllInv g.w ∧ Rel g (PW.init.run ops rs) ∧ PW.init.okRun ops rs ∧ ∃ caps, GReach g.w caps :=
  grun_rel ops _ g rs PW.init _ (GReach.init pol tun) (allInv_init pol tun) (rel_init pol tun) hok h

end Woodpile.Iovec

/-
C20, structural half: what `clone` / `take` produce and the frame property of every operation
(objects are separate values in the model; an op rewrites only the objects it names).
-/
import Woodpile.Proofs.IovecOwn

namespace Woodpile.Iovec
open Woodpile.Arena

/-- The iovec handle an op acts on (ops on detached arenas / anchored slices act on none; `new*`,
`clone`, `take` additionally CREATE a handle, which is fresh). -/
def WOp.iovTarget : WOp → Option Nat
  | .push i _ | .pushBorrowed i _ | .pushCopy i _ | .register i _ | .extend i _ | .consume i _
  | .advance i _ | .read i _ | .reserve i _ | .pushASlice i _ | .swapArena i _ | .backfill i _ _
  | .pop i | .clear i | .take i | .clone i | .drop i | .flush i | .takeArena i
  | .readNIov i _ _ _ _ | .pushAt i _ _ _ | .pushBorrowedAt i _ _ _ => some i
  | _ => none

theorem iov_lt_of_some {w : World} {j : Nat} {v : Iov} (h : w.iov j = some v) : j < w.iovs.length := by
  apply Nat.lt_of_not_le
  intro hge
  rw [iov_none_of_ge w j hge] at h; cases h

@[simp] theorem iov_with_exts (w : World) (e : List (List UInt8)) (j : Nat) :
    ({ w with exts := e } : World).iov j = w.iov j := rfl
@[simp] theorem iov_with_brefs (w : World) (b : List Backref) (j : Nat) :
    ({ w with brefs := b } : World).iov j = w.iov j := rfl
@[simp] theorem iov_addBref (w : World) (b : Backref) (j : Nat) : (w.addBref b).1.iov j = w.iov j := rfl
@[simp] theorem iov_addExt (w : World) (bs : List UInt8) (j : Nat) : (w.addExt bs).1.iov j = w.iov j := rfl

theorem pushCopy_frame {w w' : World} {i : Nat} {src : List UInt8} (h : w.pushCopy i src = some w')
    {j : Nat} (hj : j ≠ i) : w'.iov j = w.iov j := by
  obtain ⟨v, hv, ⟨_, rfl⟩ | ⟨hne, arena', next', chunk, off, v2, hal, ho, rfl⟩⟩ := pushCopy_spec h
  · rfl
  · simp [hj]

theorem pushBorrowed_frame {w w' : World} {i : Nat} {s : Slice} (h : w.pushBorrowed i s = some w')
    {j : Nat} (hj : j ≠ i) : w'.iov j = w.iov j := by
  obtain ⟨v, hv, ⟨_, rfl⟩ | ⟨_, v', hp, rfl⟩⟩ := pushBorrowed_spec h
  · rfl
  · simp [hj]

theorem push_frame {w w' : World} {i : Nat} {s : Slice} (h : w.push i s = some w')
    {j : Nat} (hj : j ≠ i) : w'.iov j = w.iov j := by
  rcases push_cases h with h | h
  · exact pushCopy_frame h hj
  · exact pushBorrowed_frame h hj

theorem advance_frame {w w' : World} {i k c : Nat} (h : w.advance i k = some (w', c))
    {j : Nat} (hj : j ≠ i) : w'.iov j = w.iov j := by
  obtain ⟨v, n, v', k', hv, _, hc, rfl⟩ := advance_spec h
  simp [hj]

theorem extend_frame {w w' : World} {i : Nat} {slices : List Slice} (h : w.extend i slices = some w')
    {j : Nat} (hj : j ≠ i) : w'.iov j = w.iov j := by
  induction slices generalizing w with
  | nil => simp [World.extend] at h; subst h; rfl
  | cons s rest ih =>
    unfold World.extend at h
    split at h
    · exact ih h
    · split at h
      · simp at h
      · rename_i w1 hw1
        rw [ih h, pushBorrowed_frame hw1 hj]

theorem readInto_frame {w w' : World} {fuel i room : Nat} {acc out : List UInt8}
    (h : World.readInto fuel w i room acc = some (w', out)) {j : Nat} (hj : j ≠ i) : w'.iov j = w.iov j := by
  induction fuel generalizing w room acc with
  | zero => simp [World.readInto] at h; rw [← h.1]
  | succ fuel ih =>
    unfold World.readInto at h
    split at h
    · simp at h; rw [← h.1]
    · split at h
      · simp at h
      · split at h
        · simp at h
        · split at h
          · simp at h; rw [← h.1]
          · simp only at h
            split at h
            · simp at h
            · rename_i w1 c1 hadv
              rw [ih h, advance_frame hadv hj]

theorem readN_world {w w1 : World} {a ar' : Arena} {r : ReadN.Reader} {count attempts : Nat}
    {res : Except Nat ASlice} {o : ReadN.Out} (h : w.readN a r count attempts = (w1, ar', res, o)) :
    ∃ hp nx, w1 = { w with heap := hp, next := nx } := by
  unfold World.readN at h
  split at h
  · simp at h; exact ⟨w.heap, w.next, h.1.symm⟩
  · rcases hal : alloc w.tun a w.next count with ⟨a1, next1, chunk, off⟩
    simp only [hal] at h
    cases hres : (ReadN.readNCore r count attempts).res with
    | ok got => simp only [hres, Prod.mk.injEq] at h; exact ⟨_, _, h.1.symm⟩
    | err k => simp only [hres, Prod.mk.injEq] at h; exact ⟨_, _, h.1.symm⟩

/-- `frame_struct`: an op leaves every iovec it does not name exactly as it was (same slices,
anchors, sizes, arena, pending set). -/
theorem step_frame_iov_eq {w w' : World} {op : WOp} (h : w.step op = some w') {j : Nat}
    (hlt : j < w.iovs.length) (hj : op.iovTarget ≠ some j) : w'.iov j = w.iov j := by
  have hne : j ≠ w.iovs.length := by omega
  cases op with
  | new => simp [World.step] at h; subst h; simp [hne]
  | newArena => simp [World.step] at h; subst h; simp
  | newFromArena a =>
    simp only [World.step] at h
    split at h
    · simp at h; subst h
      have : (w.setArena a none).iovs.length = w.iovs.length := rfl
      simp [this, hne]
    · simp at h
  | newFromSlices bufs =>
    simp only [World.step] at h
    obtain ⟨h1, _⟩ := addExts_spec w bufs
    simp at h; subst h
    rw [h1]
    simp [World.newFromSlices, hne]
  | push i bs =>
    simp only [World.step] at h
    have hji : j ≠ i := by intro e; apply hj; simp [WOp.iovTarget, e]
    rw [push_frame h hji]; simp
  | pushBorrowed i bs =>
    simp only [World.step] at h
    have hji : j ≠ i := by intro e; apply hj; simp [WOp.iovTarget, e]
    rw [pushBorrowed_frame h hji]; simp
  | pushCopy i bs =>
    have hji : j ≠ i := by intro e; apply hj; simp [WOp.iovTarget, e]
    exact pushCopy_frame h hji
  | register i pat =>
    have hji : j ≠ i := by intro e; apply hj; simp [WOp.iovTarget, e]
    simp only [World.step] at h
    split at h
    · rename_i w1 b hr
      simp at h; subst h
      rcases registerPatch_spec hr with ⟨_, rfl, _⟩ | ⟨_, w2, v, last, hpc, hv, _, _, _, _, rfl⟩
      · simp
      · simp [hji, pushCopy_frame hpc hji]
    · simp at h
  | extend i bufs =>
    have hji : j ≠ i := by intro e; apply hj; simp [WOp.iovTarget, e]
    simp only [World.step] at h
    obtain ⟨h1, _⟩ := addExts_spec w bufs
    rw [h1] at h
    rw [extend_frame h hji]; simp
  | consume i k =>
    have hji : j ≠ i := by intro e; apply hj; simp [WOp.iovTarget, e]
    simp only [World.step] at h
    split at h
    · rename_i w1 c hc
      simp at h; subst h
      obtain ⟨v, n, v', hv, _, hc', rfl⟩ := consume_spec hc
      simp [hji]
    · simp at h
  | advance i k =>
    have hji : j ≠ i := by intro e; apply hj; simp [WOp.iovTarget, e]
    simp only [World.step] at h
    split at h
    · rename_i w1 c hc; simp at h; subst h; exact advance_frame hc hji
    · simp at h
  | read i k =>
    have hji : j ≠ i := by intro e; apply hj; simp [WOp.iovTarget, e]
    simp only [World.step] at h
    split at h
    · rename_i w1 c hc; simp at h; subst h; exact readInto_frame hc hji
    · simp at h
  | reserve i k =>
    have hji : j ≠ i := by intro e; apply hj; simp [WOp.iovTarget, e]
    simp only [World.step] at h
    split at h
    · simp at h; subst h
      simp [hji]
    · simp at h
  | pushASlice i si =>
    have hji : j ≠ i := by intro e; apply hj; simp [WOp.iovTarget, e]
    simp only [World.step] at h
    split at h
    · split at h
      · simp at h; subst h; simp
      · split at h
        · rename_i w1 hpush
          unfold World.pushAnchor at h
          split at h
          · simp at h
          · simp at h; subst h
            simp [hji, push_frame hpush hji]
        · simp at h
    · simp at h
  | swapArena i ai =>
    have hji : j ≠ i := by intro e; apply hj; simp [WOp.iovTarget, e]
    simp only [World.step] at h
    split at h
    · simp at h; subst h; simp [hji]
    · simp at h
  | aReserve ai k =>
    simp only [World.step] at h
    split at h
    · simp at h; subst h
      simp
    · simp at h
  | sSkip si k =>
    simp only [World.step] at h
    split at h
    · simp at h; subst h; simp
    · simp at h
  | sDropSuf si k =>
    simp only [World.step] at h
    split at h
    · simp at h; subst h; simp
    · simp at h
  | sSplit si k =>
    simp only [World.step] at h
    split at h
    · simp at h; subst h; simp
    · simp at h
  | backfill i bi bs =>
    have hji : j ≠ i := by intro e; apply hj; simp [WOp.iovTarget, e]
    simp only [World.step] at h
    split at h
    · obtain ⟨v, hv, ⟨_, _, rfl⟩ | ⟨key, info, target, k, _, _, _, _, _, _, _, rfl⟩⟩ := backfill_spec h
      · rfl
      · simp [hji]
    · simp at h
  | pop i =>
    have hji : j ≠ i := by intro e; apply hj; simp [WOp.iovTarget, e]
    simp only [World.step] at h
    split at h
    · rename_i w1 hc
      simp at h; subst h
      obtain ⟨v, n, v', hv, _, hc', rfl⟩ := consume_spec hc
      simp [hji]
    · simp at h
  | clear i =>
    have hji : j ≠ i := by intro e; apply hj; simp [WOp.iovTarget, e]
    simp only [World.step, World.clear] at h
    split at h
    · simp at h
    · simp at h; subst h; simp [hji]
  | take i =>
    have hji : j ≠ i := by intro e; apply hj; simp [WOp.iovTarget, e]
    simp only [World.step, World.take] at h
    split at h
    · rename_i w1 j' ht
      split at ht
      · simp at ht
      · simp at ht h
        subst h
        rw [← ht.1]
        rename_i v0 hv0
        have hlen : (w.setIov i (some Iov.empty)).iovs.length = w.iovs.length := by
          have hi := iov_lt_of_some hv0
          simp [World.setIov, listSet, hi]
        simp [hji, hlen, hne]
    · simp at h
  | clone i =>
    simp only [World.step, World.clone] at h
    split at h
    · rename_i w1 j' ht
      split at ht
      · simp at ht
      · simp only [Option.some.injEq] at ht
        simp at h; subst h
        rename_i v0 _
        have e : w1 = (w.addIov { v0 with arena := ⟨none⟩ }).1 := by rw [ht]
        rw [e]; simp [hne]
    · simp at h
  | drop i =>
    have hji : j ≠ i := by intro e; apply hj; simp [WOp.iovTarget, e]
    simp only [World.step, World.dropIov] at h
    split at h
    · simp at h
    · simp at h; subst h; simp [hji]
  | flush i =>
    have hji : j ≠ i := by intro e; apply hj; simp [WOp.iovTarget, e]
    simp only [World.step] at h
    split at h
    · simp at h; subst h; simp [hji]
    · simp at h
  | takeArena i =>
    have hji : j ≠ i := by intro e; apply hj; simp [WOp.iovTarget, e]
    simp only [World.step] at h
    split at h
    · simp at h; subst h; simp [hji]
    · simp at h
  | aFlush ai =>
    simp only [World.step] at h
    split at h
    · simp at h; subst h; simp
    · simp at h
  | dropArena ai =>
    simp only [World.step] at h
    split at h
    · simp at h; subst h; simp
    · simp at h
  | sTake si =>
    simp only [World.step] at h
    split at h
    · simp at h; subst h; simp
    · simp at h
  | sClone si =>
    simp only [World.step] at h
    split at h
    · simp at h; subst h; simp
    · simp at h
  | sDrop si =>
    simp only [World.step] at h
    split at h
    · simp at h; subst h; simp
    · simp at h
  | readNIov i count attempts src script =>
    have hji : j ≠ i := by intro e; apply hj; simp [WOp.iovTarget, e]
    simp only [World.step, World.readNIov] at h
    split at h
    · simp at h
    · rename_i v hv
      rcases hr : w.readN v.arena ⟨src, script⟩ count attempts with ⟨w1, ar', res, o⟩
      simp only [hr] at h
      obtain ⟨hp, nx, rfl⟩ := readN_world hr
      have hiov : ({ w with heap := hp, next := nx } : World).iov i = some v := hv
      simp only [hiov] at h
      cases res with
      | ok a => simp at h; subst h; simp [hji]
      | error k => simp at h; subst h; simp [hji]
  | readNArena j' count attempts src script =>
    simp only [World.step, World.readNArena] at h
    split at h
    · simp at h
    · rename_i ar har
      rcases hr : w.readN ar ⟨src, script⟩ count attempts with ⟨w1, ar', res, o⟩
      simp only [hr] at h
      obtain ⟨hp, nx, rfl⟩ := readN_world hr
      cases res with
      | ok a => simp at h; subst h; simp
      | error k => simp at h; subst h; simp
  | lend bs => simp [World.step] at h; subst h; simp
  | pushAt i b off len =>
    have hji : j ≠ i := by intro e; apply hj; simp [WOp.iovTarget, e]
    simp only [World.step] at h
    split at h
    · exact push_frame h hji
    · simp at h
  | pushBorrowedAt i b off len =>
    have hji : j ≠ i := by intro e; apply hj; simp [WOp.iovTarget, e]
    simp only [World.step] at h
    split at h
    · exact pushBorrowed_frame h hji
    · simp at h

theorem backfill_congr {w1 w2 : World} {i1 i2 : Nat} (hiov : w1.iov i1 = w2.iov i2) (hheap : w1.heap = w2.heap)
    (b : Backref) (src : List UInt8) :
    (w1.backfill i1 b src).map (fun x => (x.heap, x.iov i1)) = (w2.backfill i2 b src).map (fun x => (x.heap, x.iov i2)) := by
  unfold World.backfill
  rw [hiov, hheap]
  cases w2.iov i2 with
  | none => rfl
  | some v =>
    simp only
    cases b with
    | none => by_cases hs : src.isEmpty = true <;> simp [hs, hiov, hheap]
    | some p =>
      obtain ⟨key, info⟩ := p
      simp only
      split
      · rfl
      · split
        · rfl
        · split
          · rfl
          · split
            · rfl
            · split
              · rfl
              · split
                · rfl
                · split
                  · simp
                  · rfl

/-- `frame_struct`, the usual form: an iovec the op does not name keeps its value. -/
theorem step_frame_iov {w w' : World} {op : WOp} (h : w.step op = some w') {j : Nat} {vY : Iov}
    (hY : w.iov j = some vY) (hj : op.iovTarget ≠ some j) : w'.iov j = some vY := by
  rw [step_frame_iov_eq h (iov_lt_of_some hY) hj]; exact hY

end Woodpile.Iovec

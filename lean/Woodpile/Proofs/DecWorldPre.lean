/-
`Decoder::new_from_iovec` on a PRE-FILLED `OwningIovec` (track `apileft`, audit gap 15): the decoder half
of `Proofs/EncWorldPre.lean`.  The decoder emits appends only (`DecProof.once_appendOnly`), so no
placeholder id has to be shifted: the proofs are those of `Proofs/EncWorldComp.lean` (`decFeed_sim`,
`decFeedCall_sim`) and `Proofs/EncWorldAnch.lean` (`decFeed_simH`, `decodeRead_sim`, `decCallsA_sim`) with
the caller's token list `ct` carried along instead of `[]` (the model's `decFeed` passes `[]` to
`applyStep`; for append-only emits the token list is irrelevant: `applyStep_appends_nil`) and the pipe `Q0`
the pre-filled iovec represents instead of `Pipe.empty`.
-/
import Woodpile.Proofs.EncWorldPre

namespace Woodpile.EncWorld
open Woodpile.Hcobs Woodpile.Iovec Woodpile.Arena
open Woodpile.Hcobs.EncProof
open Woodpile.Pipe (Cell Pipe cellBytes fillCells Ev runEv prodOps stepEv)

theorem applyEmit_append_nil {w w' : World} {i : Nat} {toks toks' : List Backref} {e : Emit} {src : Slice}
    (ha : Woodpile.Pipe.Op.isAppend e.op = true) (h : applyEmit w i toks e src = some (w', toks')) :
    applyEmit w i [] e src = some (w', []) := by
  obtain ⟨op, m⟩ := e
  cases op with
  | append bs =>
    cases m <;> simp only [applyEmit, Option.map_eq_some_iff, Prod.mk.injEq] at h ⊢ <;>
      (obtain ⟨x, h1, h2, _⟩ := h; exact ⟨x, h1, h2, trivial⟩)
  | register n => simp [Woodpile.Pipe.Op.isAppend] at ha
  | fill id bs => simp [Woodpile.Pipe.Op.isAppend] at ha

/-- Append-only emits do not look at the token list. -/
theorem applyStep_appends_nil {i : Nat} {src : Slice} (es : List Emit)
    (ha : (es.map (·.op)).all Woodpile.Pipe.Op.isAppend = true) :
    ∀ {w w' : World} {toks toks' : List Backref}, applyStep w i toks es src = some (w', toks') →
      applyStep w i [] es src = some (w', []) := by
  induction es with
  | nil =>
    intro w w' toks toks' h
    simp only [applyStep, Option.some.injEq, Prod.mk.injEq] at h ⊢
    exact ⟨h.1, trivial⟩
  | cons e t ih =>
    intro w w' toks toks' h
    simp only [List.map_cons, List.all_cons, Bool.and_eq_true] at ha
    simp only [applyStep] at h ⊢
    cases h1 : applyEmit w i toks e src with
    | none => rw [h1] at h; cases h
    | some x =>
      obtain ⟨w1, toks1⟩ := x
      rw [h1] at h
      rw [applyEmit_append_nil ha.1 h1]
      exact ih ha.2 h

/-- One `decode` / `decode_copy` call on the structural iovec: no panic; the same verdict as the
pipe-level decoder; the iovec keeps representing the pipe on which the same emits are run (those
emitted before a rejected byte included). -/
theorem decFeed_simC (p : Params) (i : Nat) (m : Method) (g : List UInt8) (base : Slice) (ct : List Backref) (fuel : Nat) :
    ∀ (w : World) (v : Iov) (s : DecState) (q : Pipe) (input : List UInt8) (pos : Nat),
    w.iov i = some v → SimV w v g ct q →
    (m = .borrow → ∃ b, base.region = .ext b ∧ InBuf w b (base.off + pos) input) →
    ∃ w' v' res, decFeed p m fuel w i s base input pos = some (w', res) ∧ w'.iov i = some v' ∧
      w'.exts = w.exts ∧
      (∀ s' es, Dec.feed p m fuel s input = .ok (s', es) → res = .ok s' ∧
        SimV w' v' g ct (q.run (es.map (·.op)))) ∧
      (∀ err es, Dec.feed p m fuel s input = .error (err, es) → res = .error err ∧
        SimV w' v' g ct (q.run (es.map (·.op)))) := by
  induction fuel with
  | zero =>
    intro w v s q input pos hv h _
    refine ⟨w, v, .ok s, rfl, hv, rfl, ?_, ?_⟩
    · intro s' es he; simp only [Dec.feed, Except.ok.injEq, Prod.mk.injEq] at he
      obtain ⟨rfl, rfl⟩ := he; exact ⟨rfl, by simpa [Pipe.run] using h⟩
    · intro err es he; simp [Dec.feed] at he
  | succ fuel ih =>
    intro w v s q input pos hv h hbuf
    cases input with
    | nil =>
      refine ⟨w, v, .ok s, decFeed_nil .., hv, rfl, ?_, ?_⟩
      · intro s' es he; simp only [Dec.feed, Except.ok.injEq, Prod.mk.injEq] at he
        obtain ⟨rfl, rfl⟩ := he; exact ⟨rfl, by simpa [Pipe.run] using h⟩
      · intro err es he; simp [Dec.feed] at he
    | cons b rest =>
      obtain ⟨hsrcE, hsrcO⟩ := dec_once_src p m s b rest
      have hao := Woodpile.Hcobs.DecProof.once_appendOnly p m s b rest
      cases ho : Dec.once p m s b rest with
      | error ee =>
        obtain ⟨err, es⟩ := ee
        rw [ho] at hao
        obtain ⟨w1, v1, toks1, g1, g2, g3, g4⟩ := applyStep_sim i g base es w v ct q hv h
          (opsOk_appends _ _ hao) (fun e he hb => (hsrcE err es ho e he hb).elim)
        have ht := applyStep_toks_appends es hao g1
        rw [ht] at g3
        have g1 := applyStep_appends_nil es hao g1
        have hf : decFeed p m (fuel + 1) w i s base (b :: rest) pos = some (w1, .error err) := by
          rw [decFeed_cons_error p m fuel w i s base b rest pos err es ho, g1]
        rw [decfeed_cons_error p m fuel s b rest _ ho]
        refine ⟨w1, v1, .error err, hf, g2, g4, ?_, ?_⟩
        · intro s' es' he; cases he
        · intro err' es' he
          simp only [Except.error.injEq, Prod.mk.injEq] at he
          obtain ⟨rfl, rfl⟩ := he
          exact ⟨rfl, g3⟩
      | ok o =>
        rw [ho] at hao
        obtain ⟨hcl, hpre⟩ := hsrcO o ho
        have hsrc : SrcOk w { base with off := base.off + pos, len := base.len - pos } o.emits := by
          intro x hx hb bs hop
          obtain ⟨hm, hp⟩ := hpre x hx hb bs hop
          obtain ⟨bb, hb1, hb2⟩ := hbuf hm
          exact ⟨bb, hb1, hb2.prefix hp⟩
        obtain ⟨w1, v1, toks1, g1, g2, g3, g4⟩ := applyStep_sim i g _ o.emits w v ct q hv h
          (opsOk_appends _ _ hao) hsrc
        have ht := applyStep_toks_appends o.emits hao g1
        rw [ht] at g3
        have g1 := applyStep_appends_nil o.emits hao g1
        obtain ⟨w2, v2, res, k1, k2, k3, k4, k5⟩ := ih w1 v1 o.st _ ((b :: rest).drop o.consumed)
          (pos + o.consumed) g2 g3
          (by
            intro hm
            obtain ⟨bb, hb1, hb2⟩ := hbuf hm
            refine ⟨bb, hb1, ?_⟩
            have := (hb2.of_exts g4).drop _ hcl
            rwa [Nat.add_assoc] at this)
        have hf : decFeed p m (fuel + 1) w i s base (b :: rest) pos = some (w2, res) := by
          rw [decFeed_cons_ok p m fuel w i s base b rest pos o ho, g1]; exact k1
        rw [decfeed_cons_ok p m fuel s b rest o ho]
        refine ⟨w2, v2, res, hf, k2, k3.trans g4, ?_, ?_⟩
        · intro s' es he
          cases hr : Dec.feed p m fuel o.st ((b :: rest).drop o.consumed) with
          | error ee => rw [hr] at he; obtain ⟨e1, es1⟩ := ee; cases he
          | ok se =>
            obtain ⟨s1, es1⟩ := se
            rw [hr] at he
            simp only [Except.ok.injEq, Prod.mk.injEq] at he
            obtain ⟨rfl, rfl⟩ := he
            obtain ⟨a1, a2⟩ := k4 s1 es1 hr
            exact ⟨a1, by simpa [List.map_append, Woodpile.Pipe.run_append] using a2⟩
        · intro err es he
          cases hr : Dec.feed p m fuel o.st ((b :: rest).drop o.consumed) with
          | ok se => rw [hr] at he; obtain ⟨s1, es1⟩ := se; cases he
          | error ee =>
            obtain ⟨e1, es1⟩ := ee
            rw [hr] at he
            simp only [Except.error.injEq, Prod.mk.injEq] at he
            obtain ⟨rfl, rfl⟩ := he
            obtain ⟨a1, a2⟩ := k5 e1 es1 hr
            exact ⟨a1, by simpa [List.map_append, Woodpile.Pipe.run_append] using a2⟩

/-- One `decode` call whose input is the held arena slice `base` (from offset `pos`). -/
theorem decFeed_simHC (p : Params) (i : Nat) (g : List UInt8) (base : Slice) (ct : List Backref) (fuel : Nat) :
    ∀ (w : World) (v : Iov) (s : DecState) (q : Pipe) (input : List UInt8) (pos : Nat),
    w.iov i = some v → SimV w v g ct q →
    HeldOk w v { base with off := base.off + pos, len := base.len - pos } →
    w.sliceBytes { base with off := base.off + pos, len := base.len - pos } = input →
    ∃ w' v' res, decFeed p .borrow fuel w i s base input pos = some (w', res) ∧ w'.iov i = some v' ∧
      w'.exts = w.exts ∧
      (∀ s' es, Dec.feed p .borrow fuel s input = .ok (s', es) → res = .ok s' ∧
        SimV w' v' g ct (q.run (es.map (·.op)))) ∧
      (∀ err es, Dec.feed p .borrow fuel s input = .error (err, es) → res = .error err ∧
        SimV w' v' g ct (q.run (es.map (·.op)))) := by
  induction fuel with
  | zero =>
    intro w v s q input pos hv h _ _
    refine ⟨w, v, .ok s, rfl, hv, rfl, ?_, ?_⟩
    · intro s' es he; simp only [Dec.feed, Except.ok.injEq, Prod.mk.injEq] at he
      obtain ⟨rfl, rfl⟩ := he; exact ⟨rfl, by simpa [Pipe.run] using h⟩
    · intro err es he; simp [Dec.feed] at he
  | succ fuel ih =>
    intro w v s q input pos hv h hheld hbytes
    cases input with
    | nil =>
      refine ⟨w, v, .ok s, decFeed_nil .., hv, rfl, ?_, ?_⟩
      · intro s' es he; simp only [Dec.feed, Except.ok.injEq, Prod.mk.injEq] at he
        obtain ⟨rfl, rfl⟩ := he; exact ⟨rfl, by simpa [Pipe.run] using h⟩
      · intro err es he; simp [Dec.feed] at he
    | cons b rest =>
      obtain ⟨hsrcE, _⟩ := dec_once_src p .borrow s b rest
      have hao := Woodpile.Hcobs.DecProof.once_appendOnly p .borrow s b rest
      cases ho : Dec.once p .borrow s b rest with
      | error ee =>
        obtain ⟨err, es⟩ := ee
        rw [ho] at hao
        obtain ⟨w1, v1, toks1, g1, g2, g3, g4, _⟩ := applyStep_simNB i g base es w v ct q hv h
          (opsOk_appends _ _ hao) (fun e he hb _ _ => (hsrcE err es ho e he hb).elim)
        have ht := applyStep_toks_appends es hao g1
        rw [ht] at g3
        have g1 := applyStep_appends_nil es hao g1
        have hf : decFeed p .borrow (fuel + 1) w i s base (b :: rest) pos = some (w1, .error err) := by
          rw [decFeed_cons_error p .borrow fuel w i s base b rest pos err es ho, g1]
        rw [decfeed_cons_error p .borrow fuel s b rest _ ho]
        refine ⟨w1, v1, .error err, hf, g2, g4, ?_, ?_⟩
        · intro s' es' he; cases he
        · intro err' es' he
          simp only [Except.error.injEq, Prod.mk.injEq] at he
          obtain ⟨rfl, rfl⟩ := he
          exact ⟨rfl, g3⟩
      | ok o =>
        rw [ho] at hao
        obtain ⟨A, W, X, hsh, hA, hW, hX, hXc, hcl⟩ := dec_once_shape p s b rest o ho
        have hlen : (b :: rest).length = base.len - pos := by
          rw [← hbytes]; exact sliceBytes_chunk_length w _ hheld.reg
        have hok : OpsOk q ((A ++ W ++ ([] : List Emit)).map (·.op)) := by rw [← hsh]; exact opsOk_appends _ _ hao
        obtain ⟨w1, v1, toks1, g1, g2, g3, g4, g5⟩ := applyStep_simH i g _ A [] W X (b :: rest) o.consumed
          w v ct q hv h hok hA (by simp) hW hX hXc hheld hbytes
        rw [← hsh] at g1 g3
        have ht := applyStep_toks_appends o.emits hao g1
        rw [ht] at g3
        have g1 := applyStep_appends_nil o.emits hao g1
        have hsub : SubAfter { base with off := base.off + pos, len := base.len - pos } o.consumed
            { base with off := base.off + (pos + o.consumed), len := base.len - (pos + o.consumed) } := by
          refine ⟨rfl, ?_, ?_⟩ <;> simp only <;> omega
        obtain ⟨f1, f2⟩ := g5 _ hsub
        obtain ⟨w2, v2, res, k1, k2, k3, k4, k5⟩ := ih w1 v1 o.st _ ((b :: rest).drop o.consumed)
          (pos + o.consumed) g2 g3 f1
          (by rw [f2, slice_advance_eq, sliceBytes_trim w _ _ (by simp only; omega), hbytes])
        have hf : decFeed p .borrow (fuel + 1) w i s base (b :: rest) pos = some (w2, res) := by
          rw [decFeed_cons_ok p .borrow fuel w i s base b rest pos o ho, g1]; exact k1
        rw [decfeed_cons_ok p .borrow fuel s b rest o ho]
        refine ⟨w2, v2, res, hf, k2, k3.trans g4, ?_, ?_⟩
        · intro s' es he
          cases hr : Dec.feed p .borrow fuel o.st ((b :: rest).drop o.consumed) with
          | error ee => rw [hr] at he; obtain ⟨e1, es1⟩ := ee; cases he
          | ok se =>
            obtain ⟨s1, es1⟩ := se
            rw [hr] at he
            simp only [Except.ok.injEq, Prod.mk.injEq] at he
            obtain ⟨rfl, rfl⟩ := he
            obtain ⟨a1, a2⟩ := k4 s1 es1 hr
            exact ⟨a1, by simpa [List.map_append, Woodpile.Pipe.run_append] using a2⟩
        · intro err es he
          cases hr : Dec.feed p .borrow fuel o.st ((b :: rest).drop o.consumed) with
          | ok se => rw [hr] at he; obtain ⟨s1, es1⟩ := se; cases he
          | error ee =>
            obtain ⟨e1, es1⟩ := ee
            rw [hr] at he
            simp only [Except.error.injEq, Prod.mk.injEq] at he
            obtain ⟨rfl, rfl⟩ := he
            obtain ⟨a1, a2⟩ := k5 e1 es1 hr
            exact ⟨a1, by simpa [List.map_append, Woodpile.Pipe.run_append] using a2⟩

theorem decFeedCall_simC (p : Params) (i : Nat) (ct : List Backref) (m : Method) (d : List UInt8) (w : World) (v : Iov)
    (g : List UInt8) (s : DecState) (q : Pipe) (hv : w.iov i = some v) (h : SimV w v g ct q) :
    ∃ w' v' res, decFeedCall p i w s m d = some (w', res) ∧ w'.iov i = some v' ∧
      (∀ s' es, Dec.feedAll p m s d = .ok (s', es) → res = .ok s' ∧ SimV w' v' g ct (q.run (es.map (·.op)))) ∧
      (∀ err es, Dec.feedAll p m s d = .error (err, es) → res = .error err ∧
        SimV w' v' g ct (q.run (es.map (·.op)))) := by
  cases m with
  | copy =>
    obtain ⟨w', v', res, h1, h2, _, h4, h5⟩ := decFeed_simC p i .copy g ⟨.ext 0, 0, 0⟩ ct (d.length + 1) w v s q d 0 hv h
      (fun hm => by cases hm)
    exact ⟨w', v', res, h1, h2, h4, h5⟩
  | borrow =>
    obtain ⟨w', v', res, h1, h2, _, h4, h5⟩ := decFeed_simC p i .borrow g ⟨.ext w.exts.length, 0, d.length⟩ ct
      (d.length + 1) (w.addExt d).1 v s q d 0 hv (h.addExt d) (fun _ => ⟨w.exts.length, rfl, InBuf.addExt w d⟩)
    exact ⟨w', v', res, h1, h2, h4, h5⟩

/-- `decode_read`: the read, the `decode` of the held slice, the anchor. -/
theorem decodeRead_simC (p : Params) (i : Nat) (ct : List Backref) (w : World) (v : Iov) (g : List UInt8) (s : DecState) (q : Pipe)
    (count attempts : Nat) (src : List UInt8) (script : List ReadN.Ev)
    (hv : w.iov i = some v) (h : SimV w v g ct q) :
    ∃ w' v' res o, decodeRead p w i s ⟨src, script⟩ count attempts = some (w', res, o) ∧ w'.iov i = some v' ∧
      (∀ k, (ReadN.readNCore ⟨src, script⟩ count attempts).res = .err k → res = .error k ∧ SimV w' v' g ct q) ∧
      (∀ got, (ReadN.readNCore ⟨src, script⟩ count attempts).res = .ok got →
        ∃ dres, res = .ok (got.length, dres) ∧
          (∀ s' es, Dec.feedAll p .borrow s got = .ok (s', es) → dres = .ok s' ∧
            SimV w' v' g ct (q.run (es.map (·.op)))) ∧
          (∀ err es, Dec.feedAll p .borrow s got = .error (err, es) → dres = .error err ∧
            SimV w' v' g ct (q.run (es.map (·.op))))) := by
  obtain ⟨w1, ar', res, hrn, hv1, _, hpush, _, herr, hokr⟩ :=
    World.readN_spec w i v ⟨src, script⟩ count attempts hv h.inv
  have hro := readOwn_eq w i v ⟨src, script⟩ count attempts hv w1 ar' res _ hrn hv1
  have hsim1 : SimV (w1.setIov i (some { v with arena := ar' })) { v with arena := ar' } g ct q := h.pushed0 hpush
  have hv2 : (w1.setIov i (some { v with arena := ar' })).iov i = some { v with arena := ar' } := by simp
  cases hres : (ReadN.readNCore ⟨src, script⟩ count attempts).res with
  | err k =>
    have hre := herr k hres
    subst hre
    refine ⟨w1.setIov i (some { v with arena := ar' }), { v with arena := ar' }, .error k,
      ReadN.readNCore ⟨src, script⟩ count attempts, by simp only [decodeRead, hro], hv2, ?_, ?_⟩
    · intro k' hk'; cases hk'; exact ⟨rfl, hsim1⟩
    · intro got hg; cases hg
  | ok got =>
    obtain ⟨a, hra, hal, hab, hheld⟩ := hokr got hres
    subst hra
    by_cases hc0 : count = 0
    · have hg0 : got = [] := by
        subst hc0
        have : ReadN.readNCore ⟨src, script⟩ 0 attempts = ⟨.ok [], [], ⟨src, script⟩⟩ := by simp [ReadN.readNCore]
        rw [this] at hres
        simp only [ReadN.ReadRes.ok.injEq] at hres
        exact hres.symm
      subst hg0
      have hl0 : a.slice.len = 0 := by simpa using hal
      refine ⟨w1.setIov i (some { v with arena := ar' }), { v with arena := ar' }, .ok (0, .ok s),
        ReadN.readNCore ⟨src, script⟩ count attempts, ?_, hv2, ?_, ?_⟩
      · simp only [decodeRead, hro, decodeAnchored, hab, List.length_nil, decFeed_nil, pushAnchorOf, hl0, if_true]
      · intro k hk; cases hk
      · intro got' hg'
        cases hg'
        refine ⟨.ok s, rfl, ?_, ?_⟩
        · intro s' es he
          simp only [Dec.feedAll, Dec.feed, Except.ok.injEq, Prod.mk.injEq] at he
          obtain ⟨rfl, rfl⟩ := he
          exact ⟨rfl, by simpa [Pipe.run] using hsim1⟩
        · intro err es he; simp [Dec.feedAll, Dec.feed] at he
    · obtain ⟨hheld1, c, hanc, hreg⟩ := hheld (by omega)
      have hb0 : ({ a.slice with off := a.slice.off + 0, len := a.slice.len - 0 } : Slice) = a.slice := by simp
      obtain ⟨w3, v3, dres, k1, k2, _, k4, k5⟩ := decFeed_simHC p i g a.slice ct (got.length + 1) _ _ s q got 0 hv2 hsim1
        (by rw [hb0]; exact hheld1) (by rw [hb0]; exact hab)
      by_cases hl0 : a.slice.len = 0
      · refine ⟨w3, v3, .ok (got.length, dres), ReadN.readNCore ⟨src, script⟩ count attempts, ?_, k2, ?_, ?_⟩
        · have hg0 : got.length = 0 := by omega
          simp only [decodeRead, hro, decodeAnchored, hab, k1, pushAnchorOf, hal]
          simp only [hg0, if_true]
        · intro k hk; cases hk
        · intro got' hg'
          cases hg'
          exact ⟨dres, rfl, k4, k5⟩
      · have hiov3 : IovInv w3 v3 := by
          cases hf : Dec.feed p .borrow (got.length + 1) s got with
          | ok se => obtain ⟨s1, es1⟩ := se; exact (k4 s1 es1 hf).2.inv
          | error ee => obtain ⟨e1, es1⟩ := ee; exact (k5 e1 es1 hf).2.inv
        obtain ⟨m1, m2⟩ := World.pushAnchor_spec w3 i v3 a.anchor k2 hiov3
        refine ⟨w3.setIov i (some { v3 with anchors := v3.anchors ++ [{ a.anchor with count := 0 }] }),
          { v3 with anchors := v3.anchors ++ [{ a.anchor with count := 0 }] }, .ok (got.length, dres),
          ReadN.readNCore ⟨src, script⟩ count attempts, ?_, World.iov_setIov w3 i _, ?_, ?_⟩
        · have hg0 : ¬ got.length = 0 := by omega
          simp only [decodeRead, hro, decodeAnchored, hab, k1, pushAnchorOf, hal]
          simp only [hg0, if_false, m1]
        · intro k hk; cases hk
        · intro got' hg'
          cases hg'
          refine ⟨dres, rfl, ?_, ?_⟩
          · intro s' es he
            obtain ⟨a1, a2⟩ := k4 s' es he
            exact ⟨a1, a2.pushed0 m2⟩
          · intro err es he
            obtain ⟨a1, a2⟩ := k5 err es he
            exact ⟨a1, a2.pushed0 m2⟩

/-- The decoder's whole run (all input methods) on the structural iovec agrees with the pipe-level run
(`Dec.runPieces`): no panic, the same verdict; the iovec represents the pipe built by the emits. -/
theorem decCallsA_simC (p : Params) (i : Nat) (ct : List Backref) (Q0 : Pipe) (calls : List ACall) :
    ∀ (w : World) (v : Iov) (s : DecState) (dr : List UInt8) (evs : List Ev) (acc : List Emit),
    w.iov i = some v → SimV w v dr ct (runEv Q0 evs) → prodOps evs = acc.map (·.op) →
    Woodpile.Hcobs.DecProof.AppendOnly acc →
    ∃ w' v' dr' res evs', decCallsA p i w s dr calls = some (w', dr', res) ∧ w'.iov i = some v' ∧
      SimV w' v' dr' ct (runEv Q0 evs') ∧
      (prodOps evs').all Woodpile.Pipe.Op.isAppend = true ∧
      (∀ e, Dec.runPieces p (apieces calls) s acc = .error e → res = .error e) ∧
      (∀ es, Dec.runPieces p (apieces calls) s acc = .ok es → res = .ok () ∧ prodOps evs' = es.map (·.op)) := by
  induction calls with
  | nil =>
    intro w v s dr evs acc hv h hev hacc
    refine ⟨w, v, dr, Dec.finish s, evs, rfl, hv, h, by rw [hev]; exact hacc, ?_, ?_⟩
    · intro e he
      simp only [apieces, Dec.runPieces] at he
      cases hf : Dec.finish s with
      | error e' => rw [hf] at he; simp only [Except.error.injEq] at he; rw [he]
      | ok u => rw [hf] at he; cases he
    · intro es he
      simp only [apieces, Dec.runPieces] at he
      cases hf : Dec.finish s with
      | error e' => rw [hf] at he; cases he
      | ok u => rw [hf] at he; simp only [Except.ok.injEq] at he; subst he; exact ⟨rfl, hev⟩
  | cons c t ih =>
    intro w v s dr evs acc hv h hev hacc
    -- a piece `(m, d)` whose feed was simulated: shared by `feed` and `read`
    have piece : ∀ (m : Method) (d : List UInt8) (w1 : World) (v1 : Iov) (res1 : Except DecErr DecState),
        w1.iov i = some v1 →
        (∀ s' es, Dec.feedAll p m s d = .ok (s', es) → res1 = .ok s' ∧
          SimV w1 v1 dr ct ((runEv Q0 evs).run (es.map (·.op)))) →
        (∀ err es, Dec.feedAll p m s d = .error (err, es) → res1 = .error err ∧
          SimV w1 v1 dr ct ((runEv Q0 evs).run (es.map (·.op)))) →
        ∃ w' v' dr' res evs',
          (match res1 with
            | .ok s' => decCallsA p i w1 s' dr t
            | .error e => some (w1, dr, .error e)) = some (w', dr', res) ∧ w'.iov i = some v' ∧
          SimV w' v' dr' ct (runEv Q0 evs') ∧
          (prodOps evs').all Woodpile.Pipe.Op.isAppend = true ∧
          (∀ e, Dec.runPieces p ((m, d) :: apieces t) s acc = .error e → res = .error e) ∧
          (∀ es, Dec.runPieces p ((m, d) :: apieces t) s acc = .ok es → res = .ok () ∧
            prodOps evs' = es.map (·.op)) := by
      intro m d w1 v1 res1 h2 h3 h4
      have hao := Woodpile.Hcobs.DecProof.feed_appendOnly p m (d.length + 1) s d
      cases hf : Dec.feedAll p m s d with
      | error ee =>
        obtain ⟨err, es⟩ := ee
        obtain ⟨a1, a2⟩ := h4 err es hf
        subst a1
        unfold Dec.feedAll at hf
        rw [hf] at hao
        refine ⟨w1, v1, dr, .error err, evs ++ (es.map (·.op)).map Ev.prod, rfl, h2, ?_, ?_, ?_, ?_⟩
        · rw [Woodpile.Pipe.runEv_append, runEv_prods]; exact a2
        · rw [Woodpile.Pipe.prodOps_append, prodOps_prods, hev, List.all_append, Bool.and_eq_true]
          exact ⟨hacc, hao⟩
        · intro e he
          simp only [Dec.runPieces, Dec.feedAll, hf, Except.error.injEq] at he
          rw [he]
        · intro es' he
          simp only [Dec.runPieces, Dec.feedAll, hf] at he
          cases he
      | ok se =>
        obtain ⟨s1, es⟩ := se
        obtain ⟨a1, a2⟩ := h3 s1 es hf
        subst a1
        have hf' := hf
        unfold Dec.feedAll at hf'
        rw [hf'] at hao
        obtain ⟨w2, v2, dr2, res2, evs2, k1, k2, k3, k4, k5, k6⟩ := ih w1 v1 s1 dr
          (evs ++ (es.map (·.op)).map Ev.prod) (acc ++ es) h2
          (by rw [Woodpile.Pipe.runEv_append, runEv_prods]; exact a2)
          (by rw [Woodpile.Pipe.prodOps_append, prodOps_prods, hev, List.map_append])
          (Woodpile.Hcobs.DecProof.appendOnly_append hacc hao)
        refine ⟨w2, v2, dr2, res2, evs2, k1, k2, k3, k4, ?_, ?_⟩
        · intro e he
          simp only [Dec.runPieces, hf] at he
          exact k5 e he
        · intro es' he
          simp only [Dec.runPieces, hf] at he
          exact k6 es' he
    cases c with
    | call c =>
      cases c with
      | feed m d =>
        obtain ⟨w1, v1, res1, h1, h2, h3, h4⟩ := decFeedCall_simC p i ct m d w v dr s _ hv h
        obtain ⟨w', v', dr', res, evs', g1, g2⟩ := piece m d w1 v1 res1 h2 h3 h4
        refine ⟨w', v', dr', res, evs', ?_, by simpa [apieces, pieces] using g2⟩
        simp only [decCallsA, h1]
        cases res1 <;> exact g1
      | consume k =>
        obtain ⟨v', h1, h2, _⟩ := World.consume_spec w i v k hv h.inv
        have hm : sumLens (v.slices.take (min k v.stableN)) ≤ sumLens (v.slices.take v.stableN) :=
          sumLens_take_mono _ (Nat.min_le_right _ _)
        obtain ⟨g1, _, _⟩ := h.consumed h2 hm
        rw [flat_take_prefix w v.arena v.slices _ h.inv.slices_ok] at g1
        obtain ⟨w2, v2, dr2, res2, evs2, k1, k2, k3, k4, k5, k6⟩ := ih (w.setIov i (some v')) v' s
          (dr ++ w.flat (v.slices.take (min k v.stableN)))
          (evs ++ [.drain (sumLens (v.slices.take (min k v.stableN)))]) acc (by simp)
          (by rw [Woodpile.Pipe.runEv_append]; exact g1.setIov i _)
          (by rw [Woodpile.Pipe.prodOps_append, hev]; simp [prodOps]) hacc
        exact ⟨w2, v2, dr2, res2, evs2, by simp only [decCallsA, hv, h1]; exact k1, k2, k3, k4,
          by simpa [apieces, pieces] using k5, by simpa [apieces, pieces] using k6⟩
      | advance k =>
        obtain ⟨v', h1, h2⟩ := World.advance_spec w i v k hv h.inv
        obtain ⟨g1, _, _⟩ := h.consumed h2 (Nat.min_le_right _ _)
        obtain ⟨w2, v2, dr2, res2, evs2, k1, k2, k3, k4, k5, k6⟩ := ih (w.setIov i (some v')) v' s
          (dr ++ (w.flat v.slices).take (min k (sumLens (v.slices.take v.stableN))))
          (evs ++ [.drain (min k (sumLens (v.slices.take v.stableN)))]) acc (by simp)
          (by rw [Woodpile.Pipe.runEv_append]; exact g1.setIov i _)
          (by rw [Woodpile.Pipe.prodOps_append, hev]; simp [prodOps]) hacc
        exact ⟨w2, v2, dr2, res2, evs2, by simp only [decCallsA, hv, h1]; exact k1, k2, k3, k4,
          by simpa [apieces, pieces] using k5, by simpa [apieces, pieces] using k6⟩
    | read count attempts src script =>
      obtain ⟨w1, v1, res1, o, h1, h2, h3, h4⟩ := decodeRead_simC p i ct w v dr s _ count attempts src script hv h
      cases hres : (ReadN.readNCore ⟨src, script⟩ count attempts).res with
      | err k =>
        obtain ⟨a1, a2⟩ := h3 k hres
        subst a1
        obtain ⟨w2, v2, dr2, res2, evs2, k1, k2, k3, k4, k5, k6⟩ := ih w1 v1 s dr evs acc h2 a2 hev hacc
        exact ⟨w2, v2, dr2, res2, evs2, by simp only [decCallsA, h1]; exact k1, k2, k3, k4,
          by simpa [apieces, readPiece, hres] using k5, by simpa [apieces, readPiece, hres] using k6⟩
      | ok got =>
        obtain ⟨dres, a1, a2, a3⟩ := h4 got hres
        subst a1
        obtain ⟨w', v', dr', res, evs', g1, g2⟩ := piece .borrow got w1 v1 dres h2 a2 a3
        refine ⟨w', v', dr', res, evs', ?_, by simpa [apieces, readPiece, hres] using g2⟩
        simp only [decCallsA, h1]
        cases dres <;> exact g1

/-- `Decoder::new_from_iovec(iovec)` — `iovec` = iovec `i` of world `w`, of which `dr` was drained before the
hand-over —, the calls, `finish()`. -/
def decRunFrom (p : Params) (w : World) (i : Nat) (dr : List UInt8) (calls : List ACall) :
    Option (World × List UInt8 × Except DecErr Unit) :=
  decCallsA p i w .initial dr calls

theorem decRunA_eq_from (p : Params) (pol : Policy) (tun : Tuning) (calls : List ACall) :
    decRunA p pol tun calls = decRunFrom p (World.fresh pol tun) 0 [] calls := rfl

/-- The decoder's whole run from a pre-filled iovec (any caller placeholders pending or not): never panics;
the verdict is the pipe-level decoder's (`Dec.output`, hence `Spec.decode`'s: `Props/C01`); drained ++ cells
of the final iovec = what the iovec stood for at the hand-over followed by the bytes `X` the decoder emitted
(on `Ok`, the decoded data); the decoder adds no placeholder and fills none. -/
theorem decRunFrom_cells (p : Params) (i : Nat) (w : World) (v : Iov) (g : List UInt8) (ct : List Backref) (Q0 : Pipe)
    (hv : w.iov i = some v) (h0 : SimV w v g ct Q0) (calls : List ACall) :
    ∃ w' v' dr res X, decRunFrom p w i g calls = some (w', dr, res) ∧ w'.iov i = some v' ∧ IovInv w' v' ∧
      dr.map Cell.byte ++ absCells w' v' = g.map Cell.byte ++ absCells w v ++ X.map Cell.byte ∧
      v'.hasPending = v.hasPending ∧
      (∀ e, res = .error e ↔ Dec.output p (apieces calls) = .error e) ∧
      (res = .ok () ↔ Dec.output p (apieces calls) = .ok X) ∧
      (res = .ok () ↔ ∃ d, Dec.output p (apieces calls) = .ok d) := by
  obtain ⟨w', v', dr, res, evs, h1, h2, h3, h4, h5, h6⟩ := decCallsA_simC p i ct Q0 calls w v .initial g [] [] hv h0 rfl rfl
  have hcells : dr.map Cell.byte ++ absCells w' v' =
      g.map Cell.byte ++ absCells w v ++ (Woodpile.Pipe.opsBytes (prodOps evs)).map Cell.byte := by
    rw [h3.total_cells, Woodpile.Pipe.runEv_total, Woodpile.Pipe.run_appendOnly _ _ h4, List.map_append, ← h0.total_cells,
      rename_map_byte]
  have hpend : v'.hasPending = v.hasPending := by
    rw [hasPending_eq_pending h3.inv, hasPending_eq_pending h0.inv]
    have := congrArg (fun l => l.any fun c => !c.isByte) hcells
    simp only [List.any_append] at this
    rw [Woodpile.Pipe.any_hole_map_byte, Woodpile.Pipe.any_hole_map_byte, Woodpile.Pipe.any_hole_map_byte] at this
    simpa using this
  refine ⟨w', v', dr, res, _, h1, h2, h3.inv, hcells, hpend, ?_⟩
  unfold Dec.output
  cases hr : Dec.runPieces p (apieces calls) .initial [] with
  | error e0 =>
    have := h5 e0 hr
    subst this
    refine ⟨fun e => by simp, by simp, by simp⟩
  | ok es =>
    obtain ⟨a1, a2⟩ := h6 es hr
    subst a1
    have hb : (Woodpile.Pipe.empty.run (es.map (·.op))).bytes = Woodpile.Pipe.opsBytes (prodOps evs) := by
      rw [← a2, Woodpile.Pipe.run_appendOnly_bytes _ _ h4]; rfl
    refine ⟨fun e => by simp, by simp [hb], by simp⟩

end Woodpile.EncWorld

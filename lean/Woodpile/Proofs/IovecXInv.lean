/-
The single-iovec invariant of C03/C04 WITHOUT slice disjointness (track `wabs`).

`Proofs/IovecInv.IovInv.ordered` (the owned slices of an iovec are pairwise disjoint) is false in the
multi-object vocabulary: an `AnchoredSlice` can be cloned (`s_clone`) and both copies pushed into the same
iovec.  The only place disjointness is USED is `backfill` (the write must not touch any other slice of the
iovec).  `W.IovInv` replaces `ordered` by exactly that: `pend_disj` — no slice of the iovec other than its
target covers a byte of a pending placeholder range.  This file and `IovecXAbs.lean` / `IovecXAnch.lean` are
the lemmas of `IovecInv.lean` / `IovecAbs.lean` / `IovecAnch.lean` re-proved for `W.IovInv`, in the namespace
`Woodpile.Iovec.W` (inside it the unqualified names resolve to the re-proved versions; every DEFINITION —
`SliceOk`, `BrOk`, `mkCells`, `absCells`, `Op`, `step`, `abs`, `specStep`, the ledger, … — is the original
one).  Proof scripts are the originals except where `ordered` was established or used.
-/
import Woodpile.Proofs.IovecInv
import Woodpile.Proofs.IovecHeap

namespace Woodpile.Iovec.W
open Woodpile.Arena

/-- No slice of the iovec other than its target covers a byte of a pending placeholder range. -/
def PendDisj (v : Iov) : Prop :=
  ∀ e ∈ v.backrefs, ∀ t, v.slices[e.2.sliceIndex - v.consumedSlices]? = some t →
    ∀ j s, v.slices[j]? = some s → j ≠ e.2.sliceIndex - v.consumedSlices → s.region = t.region →
      Disj (t.off + e.2.begin) e.2.len s

structure IovInv (w : World) (v : Iov) : Prop where
  slices_ok : ∀ s ∈ v.slices, SliceOk w v.arena s
  size_eq : v.consumedSize + sumLens v.slices = v.logicalSize
  anchors_sum : sumCounts v.anchors = v.slices.length
  cache_fresh : ∀ ca, v.arena.cache = some ca → ca.chunk < w.next
  br_ok : ∀ e ∈ v.backrefs, BrOk v e
  br_sorted : v.backrefs.Pairwise BrLt
  pend_disj : PendDisj v

theorem disj_join {a n : Nat} {l r : Slice} (reg : Region) (h1 : Disj a n l) (h2 : Disj a n r)
    (hadj : l.off + l.len = r.off) : Disj a n ⟨reg, l.off, l.len + r.len⟩ := by
  unfold Disj at *
  simp only
  omega

theorem _root_.Woodpile.Iovec.BrOk.idx_lt' {v : Iov} {e : Nat × BackrefInfo} (h : BrOk v e) :
    e.2.sliceIndex - v.consumedSlices < v.slices.length := by
  obtain ⟨s, c, hget, _, _⟩ := h.slice
  rcases Nat.lt_or_ge (e.2.sliceIndex - v.consumedSlices) v.slices.length with h1 | h1
  · exact h1
  · rw [List.getElem?_eq_none h1] at hget; cases hget

theorem disj_sub {a n : Nat} {s s' : Slice} (h : Disj a n s) (h1 : s.off ≤ s'.off)
    (h2 : s'.off + s'.len ≤ s.off + s.len) : Disj a n s' := by
  unfold Disj at *
  omega


theorem sliceBytes_length (w : World) (a : Arena) (s : Slice) (h : SliceOk w a s) :
    (w.sliceBytes s).length = s.len := by
  unfold World.sliceBytes
  cases hr : s.region with
  | chunk k => simp
  | ext b =>
    have := h.ext b hr
    simp only [List.length_take, List.length_drop]; omega

theorem flat_length (w : World) (a : Arena) (l : List Slice) (h : ∀ s ∈ l, SliceOk w a s) :
    (w.flat l).length = sumLens l := by
  induction l with
  | nil => rfl
  | cons s t ih =>
    simp [sliceBytes_length w a s (h s (by simp)), ih (fun x hx => h x (by simp [hx]))]

theorem IovInv.flat_take_length {w : World} {v : Iov} (h : IovInv w v) (n : Nat) :
    (w.flat (v.slices.take n)).length = sumLens (v.slices.take n) :=
  flat_length w v.arena _ (fun s hs => h.slices_ok s (List.mem_of_mem_take hs))

theorem IovInv.flat_length {w : World} {v : Iov} (h : IovInv w v) :
    (w.flat v.slices).length = sumLens v.slices :=
  Woodpile.Iovec.flat_length w v.arena _ h.slices_ok

theorem BrOk.key_le {v : Iov} {e : Nat × BackrefInfo} (h : BrOk v e)
    (hs : v.consumedSize + sumLens v.slices = v.logicalSize) : e.1 ≤ v.logicalSize := by
  obtain ⟨s, c, hget, _, hle⟩ := h.slice
  have h1 := sumLens_take_succ _ _ _ hget
  have h2 := sumLens_take_le v.slices (e.2.sliceIndex - v.consumedSlices + 1)
  have h3 := h.key_eq
  unfold sliceStart at h3
  omega

theorem BrOk.start_ge {v : Iov} {e : Nat × BackrefInfo} (h : BrOk v e) : v.consumedSize + e.2.len ≤ e.1 := by
  have h3 := h.key_eq
  unfold sliceStart at h3
  omega

/-! ### `optimize` (`maybe_collapse_last_pair` + `try_join`) -/

theorem exists_two_last {α} (l : List α) (h : 2 ≤ l.length) : ∃ pre a b, l = pre ++ [a, b] := by
  rcases List.eq_nil_or_concat l with rfl | ⟨l1, b, rfl⟩
  · simp at h
  · rcases List.eq_nil_or_concat l1 with rfl | ⟨l2, a, rfl⟩
    · simp at h
    · exact ⟨l2, a, b, by simp⟩

theorem arenaContains_true (a : Arena) (s : Slice) (h : arenaContains a s = true) :
    ∃ ca, a.cache = some ca ∧ s.region = .chunk ca.chunk ∧ s.off + s.len ≤ ca.cap := by
  unfold arenaContains at h
  split at h
  · rename_i c hc
    simp at h
    exact ⟨c, hc, h.1, h.2⟩
  · cases h

theorem tryJoin_some (a : Arena) (l r m : Slice) (h : tryJoin a l r = some m) :
    ∃ ca, a.cache = some ca ∧ l.region = .chunk ca.chunk ∧ r.region = .chunk ca.chunk ∧
      l.off + l.len = r.off ∧ m = ⟨.chunk ca.chunk, l.off, l.len + r.len⟩ := by
  unfold tryJoin at h
  split at h
  · rename_i hc
    obtain ⟨h1, h2, h3⟩ := hc
    obtain ⟨ca, hca, hl, _⟩ := arenaContains_true a l (by simpa using h1)
    obtain ⟨ca', hca', hr, _⟩ := arenaContains_true a r (by simpa using h2)
    rw [hca] at hca'; cases hca'
    refine ⟨ca, hca, hl, hr, h3, ?_⟩
    cases h; rw [hl]
  · cases h

theorem optimize_cases (v v' : Iov) (h : v.optimize = some v') :
    v' = v ∨ ∃ pre l r anc a ca, v.slices = pre ++ [l, r] ∧ v.anchors = anc ++ [a] ∧ 2 ≤ a.count ∧
      v.arena.cache = some ca ∧ l.region = .chunk ca.chunk ∧ r.region = .chunk ca.chunk ∧ l.off + l.len = r.off ∧
      v' = { v with slices := pre ++ [⟨.chunk ca.chunk, l.off, l.len + r.len⟩],
                    anchors := anc ++ [{ a with count := a.count - 1 }] } := by
  unfold Iov.optimize at h
  simp only at h
  split at h
  · left; cases h; rfl
  · rename_i hn
    split at h
    · cases h
    · rename_i anchor hanc
      split at h
      · cases h
      · split at h
        · left; cases h; rfl
        · rename_i hc0 hc2
          split at h
          · left; cases h; rfl
          · rename_i m hm
            right
            obtain ⟨pre, l, r, hsl⟩ := exists_two_last v.slices (by omega)
            obtain ⟨anc, hanc'⟩ := List.getLast?_eq_some_iff.mp hanc
            have e1 : v.slices.getD (v.slices.length - 2) ⟨.ext 0, 0, 0⟩ = l := by
              rw [hsl]; simp [List.getD_eq_getElem?_getD]
            have e2 : v.slices.getD (v.slices.length - 1) ⟨.ext 0, 0, 0⟩ = r := by
              rw [hsl]; simp [List.getD_eq_getElem?_getD]
            rw [e1, e2] at hm
            obtain ⟨ca, hca, hl, hr, hadj, rfl⟩ := tryJoin_some _ _ _ _ hm
            refine ⟨pre, l, r, anc, anchor, ca, hsl, hanc', by omega, hca, hl, hr, hadj, ?_⟩
            cases h
            congr 1
            · rw [hsl]
              have : (pre ++ [l, r]).dropLast = pre ++ [l] := by
                rw [show pre ++ [l, r] = (pre ++ [l]) ++ [r] by simp, List.dropLast_concat]
              rw [this, setLast_append_singleton]
            · rw [hanc', setLast_append_singleton]

theorem optimize_some (v : Iov) (hpos : ∀ a, v.anchors.getLast? = some a → 0 < a.count)
    (hne : 2 ≤ v.slices.length → v.anchors ≠ []) :
    ∃ v', v.optimize = some v' := by
  unfold Iov.optimize
  simp only
  split
  · exact ⟨_, rfl⟩
  · rename_i hn
    have hne' := hne (by omega)
    obtain ⟨anc, a, hanc⟩ : ∃ anc a, v.anchors = anc ++ [a] := by
      rcases List.eq_nil_or_concat v.anchors with h | ⟨anc, a, h⟩
      · exact absurd h hne'
      · exact ⟨anc, a, by simpa using h⟩
    have hl : v.anchors.getLast? = some a := by rw [hanc]; simp
    have hap : 0 < a.count := hpos a hl
    rw [hl]
    simp only
    rw [if_neg (by omega)]
    split
    · exact ⟨_, rfl⟩
    · split
      · exact ⟨_, rfl⟩
      · exact ⟨_, rfl⟩

theorem optimize_inv (w : World) (v v' : Iov) (hinv : IovInv w v)
    (hbr : ∀ e ∈ v.backrefs, e.2.sliceIndex + 1 < v.consumedSlices + v.slices.length)
    (h : v.optimize = some v') :
    IovInv w v' ∧ w.flat v'.slices = w.flat v.slices ∧ v'.backrefs = v.backrefs ∧
    v'.logicalSize = v.logicalSize ∧ v'.consumedSize = v.consumedSize ∧
    v'.consumedSlices = v.consumedSlices ∧ v'.arena = v.arena := by
  rcases optimize_cases v v' h with rfl | ⟨pre, l, r, anc, a, ca, hsl, hanc, hcnt, hca, hl, hr, hadj, rfl⟩
  · exact ⟨hinv, rfl, rfl, rfl, rfl, rfl, rfl⟩
  · have hlok := hinv.slices_ok l (by rw [hsl]; simp)
    have hrok := hinv.slices_ok r (by rw [hsl]; simp)
    refine ⟨?_, ?_, rfl, rfl, rfl, rfl, rfl⟩
    · refine
        { slices_ok := ?_, size_eq := ?_, anchors_sum := ?_,
          cache_fresh := hinv.cache_fresh, br_ok := ?_, br_sorted := hinv.br_sorted, pend_disj := ?_ }
      · intro s hs
        simp only [List.mem_append, List.mem_singleton] at hs
        rcases hs with hs | rfl
        · exact hinv.slices_ok s (by rw [hsl]; simp [hs])
        · refine ⟨(by have := hlok.pos; simp only; omega), (by intro b hb; cases hb), ?_⟩
          intro c hc
          simp only [Region.chunk.injEq] at hc
          subst hc
          refine ⟨(hlok.chunk _ hl).1, ?_⟩
          intro ca' hca' hcc
          have := (hrok.chunk _ hr).2 ca' hca' hcc
          simp only; omega
      · have := hinv.size_eq
        rw [hsl] at this
        simp at this ⊢
        omega
      · have := hinv.anchors_sum
        rw [hsl, hanc] at this
        simp at this ⊢
        omega
      · intro e he
        have hb := hinv.br_ok e he
        have hlt := hbr e he
        rw [hsl] at hlt
        simp at hlt
        obtain ⟨s, c, hget, hreg, hle⟩ := hb.slice
        have hkey := hb.key_eq
        have hge := hb.idx_ge
        unfold sliceStart at hkey
        rw [hsl] at hget hkey
        have hj : e.2.sliceIndex - v.consumedSlices ≤ pre.length := by omega
        refine ⟨hb.len_pos, hb.idx_ge, ?_, ?_⟩
        · simp only
          rcases Nat.lt_or_ge (e.2.sliceIndex - v.consumedSlices) pre.length with hj1 | hj1
          · rw [List.getElem?_append_left hj1] at hget
            exact ⟨s, c, by rw [List.getElem?_append_left hj1]; exact hget, hreg, hle⟩
          · have hj2 : e.2.sliceIndex - v.consumedSlices = pre.length := by omega
            rw [hj2] at hget ⊢
            simp at hget
            subst hget
            exact ⟨⟨.chunk ca.chunk, l.off, l.len + r.len⟩, ca.chunk, (by simp), rfl, (by simp only; omega)⟩
        · unfold sliceStart
          simp only
          rw [List.take_append_of_le_length hj] at hkey ⊢
          exact hkey
      · intro e he t ht j s hs hj hreg
        have hpd := hinv.pend_disj e he
        have hlt := hbr e he
        rw [hsl] at hlt hpd
        simp only [List.length_append, List.length_cons, List.length_nil] at hlt
        have hge := (hinv.br_ok e he).idx_ge
        simp only at ht hs hj ⊢
        have hjlt : j < pre.length + 1 := by
          rcases Nat.lt_or_ge j (pre.length + 1) with h1 | h1
          · exact h1
          · rw [List.getElem?_eq_none (by simp; omega)] at hs; cases hs
        rcases Nat.lt_or_ge (e.2.sliceIndex - v.consumedSlices) pre.length with h1 | h1
        · rw [List.getElem?_append_left h1] at ht
          have ht0 : (pre ++ [l, r])[e.2.sliceIndex - v.consumedSlices]? = some t := by
            rw [List.getElem?_append_left h1]; exact ht
          rcases Nat.lt_or_ge j pre.length with h2 | h2
          · rw [List.getElem?_append_left h2] at hs
            exact hpd t ht0 j s (by rw [List.getElem?_append_left h2]; exact hs) hj hreg
          · have hj2 : j = pre.length := by omega
            subst hj2
            simp at hs
            subst hs
            have d1 := hpd t ht0 pre.length l (by simp) hj (hl.trans hreg)
            have d2 := hpd t ht0 (pre.length + 1) r (by simp) (by omega) (hr.trans hreg)
            exact disj_join _ d1 d2 hadj
        · have hidx : e.2.sliceIndex - v.consumedSlices = pre.length := by omega
          rw [hidx] at ht hj hpd
          simp at ht
          subst ht
          have hj2 : j < pre.length := by omega
          rw [List.getElem?_append_left hj2] at hs
          have := hpd l (by simp) j s (by rw [List.getElem?_append_left hj2]; exact hs) hj (hreg.trans hl.symm)
          exact this
    · simp only [hsl, World.flat_append, World.flat_cons, World.flat_nil, List.append_nil]
      congr 1
      unfold World.sliceBytes
      simp only [hl, hr]
      rw [Heap.read_add, hadj]

/-! ### Consumption from the front -/

theorem drainAnchors_zero (fuel : Nat) (anchors : List Anchor) : drainAnchors fuel anchors 0 = some anchors := by
  unfold drainAnchors; rfl

theorem drainAnchors_cons (fuel n : Nat) (front : Anchor) (rest : List Anchor) :
    drainAnchors (fuel + 1) (front :: rest) (n + 1) =
      if front.count ≤ n + 1 then drainAnchors fuel rest (n + 1 - front.count)
      else some ({ front with count := front.count - (n + 1) } :: rest) := by
  rw [drainAnchors]
  simp only [Anchor.decrement]
  by_cases hc : front.count ≤ n + 1
  · rw [if_pos hc]
    simp [Nat.min_eq_left hc]
  · rw [if_neg hc]
    have hc' : n + 1 ≤ front.count := by omega
    have : ¬ front.count - (n + 1) = 0 := by omega
    simp [Nat.min_eq_right hc', this]

theorem drainAnchors_spec (fuel : Nat) : ∀ (anchors : List Anchor) (n : Nat),
    n ≤ sumCounts anchors → anchors.length < fuel →
    ∃ out, drainAnchors fuel anchors n = some out ∧ sumCounts out + n = sumCounts anchors := by
  induction fuel with
  | zero => intro anchors n _ hf; omega
  | succ fuel ih =>
    intro anchors n hsum hfuel
    cases n with
    | zero => exact ⟨anchors, drainAnchors_zero _ _, by simp⟩
    | succ n =>
      cases anchors with
      | nil => simp at hsum
      | cons front rest =>
        rw [drainAnchors_cons]
        simp only [sumCounts_cons] at hsum
        by_cases hc : front.count ≤ n + 1
        · rw [if_pos hc]
          obtain ⟨out, ho, hs⟩ := ih rest (n + 1 - front.count) (by omega) (by simp at hfuel; omega)
          exact ⟨out, ho, by simp only [sumCounts_cons]; omega⟩
        · rw [if_neg hc]
          exact ⟨_, rfl, by simp only [sumCounts_cons]; omega⟩

theorem dropZeroAnchors_sum (l : List Anchor) : sumCounts (dropZeroAnchors l) = sumCounts l := by
  induction l with
  | nil => rfl
  | cons a t ih =>
    unfold dropZeroAnchors
    split
    · rename_i h0; rw [ih, sumCounts_cons, h0, Nat.zero_add]
    · rfl

theorem dropZeroAnchors_isEmpty (l : List Anchor) : (dropZeroAnchors l).isEmpty = decide (sumCounts l = 0) := by
  induction l with
  | nil => rfl
  | cons a t ih =>
    unfold dropZeroAnchors
    split
    · rename_i h0; rw [ih, sumCounts_cons, h0, Nat.zero_add]
    · rename_i h0
      have : ¬ sumCounts (a :: t) = 0 := by rw [sumCounts_cons]; omega
      rw [decide_eq_false this]; rfl

theorem dropZeroAnchors_id (l : List Anchor) (h : ∀ a ∈ l, 0 < a.count) : dropZeroAnchors l = l := by
  cases l with
  | nil => rfl
  | cons a t =>
    unfold dropZeroAnchors
    have := h a (by simp)
    rw [if_neg (by omega)]

/-- `v'` is `v` with exactly the first `m` bytes removed from the front (whole slices popped, the
new first slice possibly trimmed); nothing else changes. -/
structure Consumed (w : World) (v v' : Iov) (m : Nat) : Prop where
  inv : IovInv w v'
  backrefs : v'.backrefs = v.backrefs
  logicalSize : v'.logicalSize = v.logicalSize
  arena : v'.arena = v.arena
  consumedSize : v'.consumedSize = v.consumedSize + m
  slices_ge : v.consumedSlices ≤ v'.consumedSlices
  slices_end : v'.consumedSlices + v'.slices.length = v.consumedSlices + v.slices.length
  flat_take : ∀ n, v'.consumedSlices ≤ v.consumedSlices + n →
    w.flat (v'.slices.take (v.consumedSlices + n - v'.consumedSlices)) = (w.flat (v.slices.take n)).drop m

theorem Consumed.refl {w : World} {v : Iov} (h : IovInv w v) : Consumed w v v 0 :=
  { inv := h, backrefs := rfl, logicalSize := rfl, arena := rfl, consumedSize := rfl,
    slices_ge := Nat.le_refl _, slices_end := rfl,
    flat_take := by intro n _; simp }

theorem Consumed.trans {w : World} {v v' v'' : Iov} {m m' : Nat}
    (h1 : Consumed w v v' m) (h2 : Consumed w v' v'' m') : Consumed w v v'' (m + m') :=
  { inv := h2.inv
    backrefs := h2.backrefs.trans h1.backrefs
    logicalSize := h2.logicalSize.trans h1.logicalSize
    arena := h2.arena.trans h1.arena
    consumedSize := by rw [h2.consumedSize, h1.consumedSize]; omega
    slices_ge := Nat.le_trans h1.slices_ge h2.slices_ge
    slices_end := h2.slices_end.trans h1.slices_end
    flat_take := by
      intro n hn
      have hge1 := h1.slices_ge
      have hge2 := h2.slices_ge
      have e1 := h1.flat_take n (by omega)
      have e2 := h2.flat_take (v.consumedSlices + n - v'.consumedSlices) (by omega)
      have : v'.consumedSlices + (v.consumedSlices + n - v'.consumedSlices) - v''.consumedSlices
          = v.consumedSlices + n - v''.consumedSlices := by omega
      rw [this] at e2
      rw [e2, e1, List.drop_drop] }

theorem Consumed.flat {w : World} {v v' : Iov} {m : Nat} (h : Consumed w v v' m) :
    w.flat v'.slices = (w.flat v.slices).drop m := by
  have := h.flat_take v.slices.length (by have := h.slices_end; omega)
  have e : v.consumedSlices + v.slices.length - v'.consumedSlices = v'.slices.length := by
    have := h.slices_end; omega
  rw [e] at this
  simpa using this

theorem consumeSlices_spec (w : World) (v : Iov) (count : Nat) (hinv : IovInv w v)
    (hk : NoBrBelow v (min count v.slices.length)) :
    ∃ v', v.consumeSlices count = some (v', min count v.slices.length) ∧
      Consumed w v v' (sumLens (v.slices.take count)) ∧
      v'.slices = v.slices.drop count ∧
      v'.consumedSlices = v.consumedSlices + min count v.slices.length := by
  unfold Iov.consumeSlices
  simp only
  have htk : v.slices.take (min count v.slices.length) = v.slices.take count := by
    rw [List.take_eq_take_iff]; simp
  have hdk : v.slices.drop (min count v.slices.length) = v.slices.drop count := by
    rcases Nat.le_total count v.slices.length with h | h
    · rw [Nat.min_eq_left h]
    · rw [Nat.min_eq_right h, List.drop_eq_nil_of_le h, List.drop_eq_nil_of_le (Nat.le_refl _)]
  obtain ⟨out, hout, hosum⟩ := drainAnchors_spec (v.anchors.length + 1) v.anchors
    (min count v.slices.length) (by rw [hinv.anchors_sum]; exact Nat.min_le_right _ _)
    (Nat.lt_succ_self _)
  rw [hout]
  simp only
  have hl : (v.slices.drop (min count v.slices.length)).length = sumCounts out := by
    have := hinv.anchors_sum
    simp only [List.length_drop]; omega
  have hempty : (v.slices.drop (min count v.slices.length)).isEmpty = (dropZeroAnchors out).isEmpty := by
    rw [dropZeroAnchors_isEmpty, ← hl]
    cases v.slices.drop (min count v.slices.length) <;> simp
  rw [if_neg (by simp [hempty])]
  rw [foldl_add_eq_sum, htk, hdk]
  refine ⟨_, rfl, ?_, rfl, rfl⟩
  have hsub : ∀ s ∈ v.slices.drop count, s ∈ v.slices := fun s hs => List.mem_of_mem_drop hs
  have hszk : (List.map (fun x => x.len) (List.take count v.slices)).sum = sumLens (v.slices.take count) := rfl
  rw [hszk]
  have hkle : min count v.slices.length ≤ v.slices.length := Nat.min_le_right _ _
  refine
    { inv :=
        { slices_ok := fun s hs => hinv.slices_ok s (hsub s hs)
          pend_disj := by
            intro e he t ht j s hs hj hreg
            have hnb := hk e he
            have hge := (hinv.br_ok e he).idx_ge
            simp only [List.getElem?_drop] at ht hs hj
            have hjlt : e.2.sliceIndex - v.consumedSlices < v.slices.length := (hinv.br_ok e he).idx_lt'
            have hmin : min count v.slices.length = count := by omega
            rw [hmin] at ht hj
            have e1 : count + (e.2.sliceIndex - (v.consumedSlices + count)) = e.2.sliceIndex - v.consumedSlices := by omega
            rw [e1] at ht
            exact hinv.pend_disj e he t ht (count + j) s hs (by omega) hreg
          size_eq := by
            have := sumLens_take_add_drop v.slices count
            have := hinv.size_eq
            simp only; omega
          anchors_sum := by
            simp only [List.length_drop]
            rw [dropZeroAnchors_sum]
            have := hinv.anchors_sum
            rcases Nat.le_total count v.slices.length with h | h
            · rw [Nat.min_eq_left h] at hosum; omega
            · rw [Nat.min_eq_right h] at hosum; omega
          cache_fresh := hinv.cache_fresh
          br_ok := ?_
          br_sorted := hinv.br_sorted }
      backrefs := rfl, logicalSize := rfl, arena := rfl, consumedSize := rfl,
      slices_ge := by simp only; omega
      slices_end := by simp only [List.length_drop]; omega
      flat_take := ?_ }
  · intro e he
    have hb := hinv.br_ok e he
    have hnb := hk e he
    obtain ⟨s, c, hget, hreg, hle⟩ := hb.slice
    have hjlt : e.2.sliceIndex - v.consumedSlices < v.slices.length := by
      rcases Nat.lt_or_ge (e.2.sliceIndex - v.consumedSlices) v.slices.length with h1 | h1
      · exact h1
      · rw [List.getElem?_eq_none h1] at hget; cases hget
    have hcount : count ≤ e.2.sliceIndex - v.consumedSlices := by omega
    have hmin : min count v.slices.length = count := by omega
    refine ⟨hb.len_pos, by simp only; omega, ⟨s, c, ?_, hreg, hle⟩, ?_⟩
    · simp only [List.getElem?_drop, hmin]
      rw [← hget]; congr 1; omega
    · have hkey := hb.key_eq
      unfold sliceStart at hkey ⊢
      simp only [hmin]
      rw [List.take_drop]
      have e1 : count + (e.2.sliceIndex - (v.consumedSlices + count)) = e.2.sliceIndex - v.consumedSlices := by omega
      rw [e1]
      have e2 := sumLens_take_add_drop (v.slices.take (e.2.sliceIndex - v.consumedSlices)) count
      rw [List.take_take, Nat.min_eq_left hcount] at e2
      omega
  · intro n hn
    simp only at hn ⊢
    have hmn : min count v.slices.length ≤ n := by omega
    have e1 : v.consumedSlices + n - (v.consumedSlices + min count v.slices.length) = n - min count v.slices.length := by omega
    rw [e1]
    have e2 : v.slices.take n = v.slices.take count ++ (v.slices.drop count).take (n - min count v.slices.length) := by
      rw [← htk, ← hdk]
      have : n = min count v.slices.length + (n - min count v.slices.length) := by omega
      conv => lhs; rw [this]
      rw [List.take_add]
    rw [e2, World.flat_append, List.drop_left']
    exact flat_length w v.arena _ (fun s hs => hinv.slices_ok s (List.mem_of_mem_take hs))

theorem sliceBytes_trim (w : World) (s : Slice) (r : Nat) (hr : r ≤ s.len) :
    w.sliceBytes { s with off := s.off + r, len := s.len - r } = (w.sliceBytes s).drop r := by
  unfold World.sliceBytes
  cases hreg : s.region with
  | chunk k =>
    simp only
    have : s.len = r + (s.len - r) := by omega
    conv => rhs; rw [this, Heap.read_add]
    rw [List.drop_left' (by simp)]
  | ext b =>
    simp only
    rw [List.drop_take, List.drop_drop]

theorem trim_consumed (w : World) (v : Iov) (s : Slice) (rest : List Slice) (r : Nat) (hinv : IovInv w v)
    (hs : v.slices = s :: rest) (_hr : 0 < r) (hr2 : r < s.len) (hnb : NoBrBelow v 1) :
    Consumed w v { v with slices := { s with off := s.off + r, len := s.len - r } :: rest,
                          consumedSize := v.consumedSize + r } r := by
  have hsok := hinv.slices_ok s (by rw [hs]; simp)
  refine
    { inv :=
        { slices_ok := ?_, pend_disj := ?_, size_eq := ?_, anchors_sum := ?_,
          cache_fresh := hinv.cache_fresh, br_ok := ?_, br_sorted := hinv.br_sorted }
      backrefs := rfl, logicalSize := rfl, arena := rfl, consumedSize := rfl,
      slices_ge := Nat.le_refl _, slices_end := by simp [hs], flat_take := ?_ }
  · intro x hx
    simp only [List.mem_cons] at hx
    rcases hx with rfl | hx
    · refine ⟨(by simp only; omega), ?_, ?_⟩
      · intro b hb
        have := hsok.ext b hb
        simp only; omega
      · intro c hc
        have := hsok.chunk c hc
        refine ⟨this.1, fun ca hca hcc => ?_⟩
        have := this.2 ca hca hcc
        simp only; omega
    · exact hinv.slices_ok x (by rw [hs]; simp [hx])
  · have := hinv.size_eq
    rw [hs] at this
    simp only [sumLens_cons] at this ⊢
    omega
  · have := hinv.anchors_sum
    rw [hs] at this
    simpa using this
  · intro e he
    have hb := hinv.br_ok e he
    have h1 := hnb e he
    obtain ⟨x, c, hget, hreg, hle⟩ := hb.slice
    have hkey := hb.key_eq
    unfold sliceStart at hkey
    obtain ⟨j, hj⟩ : ∃ j, e.2.sliceIndex - v.consumedSlices = j + 1 := ⟨e.2.sliceIndex - v.consumedSlices - 1, by omega⟩
    rw [hj, hs] at hget hkey
    refine ⟨hb.len_pos, hb.idx_ge, ⟨x, c, ?_, hreg, hle⟩, ?_⟩
    · simp only [hj]
      simpa using hget
    · unfold sliceStart
      simp only [hj]
      simp only [List.take_succ_cons, sumLens_cons] at hkey ⊢
      omega
  · intro e he t ht j x hx hj hreg
    have h1 := hnb e he
    have hpd := hinv.pend_disj e he
    rw [hs] at hpd
    simp only at ht hx hj ⊢
    obtain ⟨m, hm⟩ : ∃ m, e.2.sliceIndex - v.consumedSlices = m + 1 := ⟨e.2.sliceIndex - v.consumedSlices - 1, by omega⟩
    rw [hm] at ht hj hpd
    simp only [List.getElem?_cons_succ] at ht
    cases j with
    | zero =>
      simp only [List.getElem?_cons_zero, Option.some.injEq] at hx
      subst hx
      have := hpd t (by simpa using ht) 0 s (by simp) (by omega) hreg
      exact disj_sub this (by simp only; omega) (by simp only; omega)
    | succ j' =>
      simp only [List.getElem?_cons_succ] at hx
      exact hpd t (by simpa using ht) (j' + 1) x (by simpa using hx) hj hreg
  · intro n _
    simp only
    have e1 : v.consumedSlices + n - v.consumedSlices = n := by omega
    rw [e1, hs]
    cases n with
    | zero => simp
    | succ n =>
      simp only [List.take_succ_cons, World.flat_cons]
      rw [sliceBytes_trim w s r (by omega)]
      rw [List.drop_append_of_le_length (by rw [sliceBytes_length w v.arena s hsok]; omega)]

theorem consumeBytes_spec (w : World) (fuel : Nat) : ∀ (v : Iov) (count consumed n : Nat),
    IovInv w v → NoBrBelow v n → n ≤ v.slices.length → consumed ≤ count →
    count - consumed ≤ sumLens (v.slices.take n) → v.slices.length < fuel →
    ∃ v', Iov.consumeBytes fuel v count consumed = some (v', count) ∧ Consumed w v v' (count - consumed) := by
  induction fuel with
  | zero => intro v _ _ _ _ _ _ _ _ hf; omega
  | succ fuel ih =>
    intro v count consumed n hinv hnb hn hcc hle hfuel
    rw [Iov.consumeBytes]
    by_cases hge : consumed ≥ count
    · rw [if_pos hge]
      have : consumed = count := by omega
      subst this
      exact ⟨v, rfl, by simpa using Consumed.refl hinv⟩
    · rw [if_neg hge]
      cases hs : v.slices with
      | nil => rw [hs] at hle; simp at hle; omega
      | cons s rest =>
        simp only
        have hn1 : 1 ≤ n := by
          rcases Nat.eq_zero_or_pos n with h0 | h0
          · subst h0; simp at hle; omega
          · exact h0
        have hnb1 : NoBrBelow v 1 := fun e he => by have := hnb e he; omega
        obtain ⟨n', rfl⟩ : ∃ n', n = n' + 1 := ⟨n - 1, by omega⟩
        rw [hs] at hle hn
        simp only [List.take_succ_cons, sumLens_cons, List.length_cons] at hle hn
        by_cases hfull : min (count - consumed) s.len = s.len
        · rw [if_pos hfull]
          obtain ⟨v1, h1, hc1, hsl1, hcs1⟩ := consumeSlices_spec w v 1 hinv
            (by rw [hs]; simpa using hnb1)
          rw [h1]
          simp only
          rw [hs] at hsl1 hcs1 hc1
          simp only [List.drop_succ_cons, List.drop_zero, List.length_cons] at hsl1 hcs1
          simp only [List.take_succ_cons, List.take_zero, sumLens_cons, sumLens_nil, Nat.add_zero] at hc1
          have hm1 : min 1 (rest.length + 1) = 1 := by omega
          rw [hm1] at hcs1
          obtain ⟨v2, h2, hc2⟩ := ih v1 count (consumed + min (count - consumed) s.len) n' hc1.inv
            (by intro e he; rw [hc1.backrefs] at he; have := hnb e he; omega)
            (by rw [hsl1]; omega) (by omega) (by rw [hsl1]; omega)
            (by rw [hsl1]; rw [hs] at hfuel; simp at hfuel; omega)
          refine ⟨v2, h2, ?_⟩
          have := hc1.trans hc2
          have e : s.len + (count - (consumed + min (count - consumed) s.len)) = count - consumed := by omega
          rw [e] at this
          exact this
        · rw [if_neg hfull]
          have hlt : count - consumed < s.len := by omega
          have hmin : min (count - consumed) s.len = count - consumed := by omega
          rw [hmin]
          have e : consumed + (count - consumed) = count := by omega
          rw [e]
          refine ⟨_, rfl, ?_⟩
          exact trim_consumed w v s rest (count - consumed) hinv hs (by omega) hlt hnb1

theorem optimize_take (v v' : Iov) (h : v.optimize = some v') (j : Nat) (hj : j + 2 ≤ v.slices.length) :
    v'.slices.take j = v.slices.take j := by
  rcases optimize_cases v v' h with rfl | ⟨pre, l, r, anc, a, ca, hsl, _, _, _, _, _, _, rfl⟩
  · rfl
  · rw [hsl] at hj ⊢
    simp only [List.length_append, List.length_cons, List.length_nil] at hj
    have hj' : j ≤ pre.length := by omega
    simp only
    rw [List.take_append_of_le_length hj', List.take_append_of_le_length hj']

end Woodpile.Iovec.W

/-
`Encoder::new_from_iovec` / `Decoder::new_from_iovec` on a PRE-FILLED `OwningIovec` (track `apileft`, audit
gap 15): the composition theorems of `Proofs/EncWorldComp.lean` / `EncWorldAnch.lean` / `EncWorldCap.lean`
started from ANY world `w` whose iovec `i` = `v` already represents a pipe `Q0` (`SimV w v g ct Q0`: bytes
consumed so far `g`, visible bytes, the caller's own pending placeholders with their tokens `ct`) instead of
`World.fresh`.

Route.  The codec model numbers ITS placeholders from 0 and keeps only ITS tokens (`EncW.toks`); on the pipe
that the pre-filled iovec represents, the caller's placeholders already use the ids `0 … ct.length - 1`.
So the encoder's emits are run on that pipe with their ids SHIFTED by `ct.length` (`shiftE`), which on the
structural side is the same `applyStep` with the token list `ct ++ toks` (`applyStep_shift`); and the real
pipe `Q` is kept equal, up to that shift and the prefix `pre = Q0.total.cells`, to the VIRTUAL pipe `q'`
of a fresh encoder — the one `Proofs/HcobsEnc.lean` (`Rel`, `consumeOnce_sim`, `feed_sim`, `finish_sim`)
is about (`Lifted`).  The per-op refinement lemmas (`applyStep_sim`, `applyStep_simH`, `SimV.consumed`, …)
are used as they are: they are stated for arbitrary `SimV`.

The decoder emits appends only, so no shift is needed: its proofs are those of `EncWorldComp` /
`EncWorldAnch` with the caller's token list `ct` carried along instead of `[]`.
-/
import Woodpile.Model.EncWorldPre
import Woodpile.Proofs.EncWorldAnch
import Woodpile.Proofs.EncWorldCap

namespace Woodpile.EncWorld
open Woodpile.Hcobs Woodpile.Iovec Woodpile.Arena
open Woodpile.Hcobs.EncProof
open Woodpile.Pipe (Cell Pipe cellBytes fillCells Ev runEv prodOps stepEv)

/-! ### Shifting placeholder ids -/

def shiftOp (k : Nat) : Woodpile.Pipe.Op → Woodpile.Pipe.Op
  | .append bs => .append bs
  | .register n => .register n
  | .fill id bs => .fill (id + k) bs

def shiftE (k : Nat) (e : Emit) : Emit := ⟨shiftOp k e.op, e.method⟩

@[simp] theorem shiftE_method (k : Nat) (e : Emit) : (shiftE k e).method = e.method := rfl
@[simp] theorem shiftE_op (k : Nat) (e : Emit) : (shiftE k e).op = shiftOp k e.op := rfl

theorem shiftOp_append_iff (k : Nat) (op : Woodpile.Pipe.Op) (bs : List UInt8) :
    shiftOp k op = .append bs ↔ op = .append bs := by
  cases op <;> simp [shiftOp]

theorem map_shiftE_op (k : Nat) (es : List Emit) :
    (es.map (shiftE k)).map (·.op) = (es.map (·.op)).map (shiftOp k) := by
  simp [List.map_map, Function.comp_def]

/-- The codec's `applyEmit` with its own token list `t` IS `applyEmit` of the shifted emit with the
caller's tokens in front. -/
theorem applyEmit_shift (w : World) (i : Nat) (ct t : List Backref) (e : Emit) (src : Slice) :
    applyEmit w i (ct ++ t) (shiftE ct.length e) src =
      (applyEmit w i t e src).map fun x => (x.1, ct ++ x.2) := by
  obtain ⟨op, m⟩ := e
  cases op with
  | append bs =>
    cases m <;> simp only [applyEmit, shiftE, shiftOp] <;>
      (first | (cases w.pushCopy i bs <;> rfl) | (cases w.push i { src with len := bs.length } <;> rfl))
  | register n =>
    simp only [applyEmit, shiftE, shiftOp]
    cases w.registerPatch i (List.replicate n 0) with
    | none => rfl
    | some x => obtain ⟨w', b⟩ := x; simp [List.append_assoc]
  | fill id bs =>
    simp only [applyEmit, shiftE, shiftOp]
    have : (ct ++ t)[id + ct.length]? = t[id]? := by
      rw [List.getElem?_append_right (by omega)]; simp
    rw [this]
    cases t[id]? with
    | none => rfl
    | some b => simp only; cases w.backfill i b bs <;> rfl

theorem applyStep_shift (i : Nat) (ct : List Backref) (src : Slice) (es : List Emit) :
    ∀ (w : World) (t : List Backref),
    applyStep w i (ct ++ t) (es.map (shiftE ct.length)) src =
      (applyStep w i t es src).map fun x => (x.1, ct ++ x.2) := by
  induction es with
  | nil => intro w t; rfl
  | cons e rest ih =>
    intro w t
    simp only [List.map_cons, applyStep, applyEmit_shift]
    cases applyEmit w i t e src with
    | none => rfl
    | some x => obtain ⟨w1, t1⟩ := x; exact ih w1 t1

/-! ### The real pipe is the virtual (fresh-start) pipe behind the prefix -/

/-- Pipe `Q` (the one the pre-filled iovec represents) is `pre` followed by the cells of the virtual pipe
`q'`, the ids of `q'` shifted by `k`; every id of `pre` is below `k`. -/
structure Lifted (pre : List Cell) (k : Nat) (Q q' : Pipe) : Prop where
  cells : Q.total.cells = pre ++ q'.cells.map (renameCell (· + k))
  nid : Q.nextId = q'.nextId + k
  pre_lt : ∀ j, Cell.hole j ∈ pre → j < k

theorem fillCells_append_left_notin (id : Nat) (A B : List Cell) (bs : List UInt8) (h : Cell.hole id ∉ A) :
    fillCells id (A ++ B) bs = A ++ fillCells id B bs := by
  induction A generalizing bs with
  | nil => rfl
  | cons c t ih =>
    have ht : Cell.hole id ∉ t := fun hm => h (by simp [hm])
    cases c with
    | byte b => simp only [List.cons_append, Woodpile.Pipe.fillCells_byte]; rw [ih bs ht]
    | hole j =>
      have hj : ¬ j = id := fun e => h (by simp [e])
      cases bs with
      | nil => simp only [List.cons_append, fillCells_hole_nil]; rw [ih [] ht]
      | cons b bs => simp only [List.cons_append, fillCells_hole_cons, if_neg hj]; rw [ih (b :: bs) ht]

theorem count_rename_add (k id : Nat) (l : List Cell) :
    (l.map (renameCell (· + k))).count (Cell.hole (id + k)) = l.count (Cell.hole id) := by
  induction l with
  | nil => rfl
  | cons c t ih =>
    cases c with
    | byte b => simp [ih]
    | hole j =>
      simp only [List.map_cons, renameCell_hole, List.count_cons, ih]
      by_cases hj : j = id
      · subst hj; simp
      · have : ¬ j + k = id + k := by omega
        simp [hj]

theorem Lifted.apply {pre : List Cell} {k : Nat} {Q q' : Pipe} (h : Lifted pre k Q q') (op : Woodpile.Pipe.Op) :
    Lifted pre k (Q.apply (shiftOp k op)) (q'.apply op) := by
  refine ⟨?_, ?_, h.pre_lt⟩
  · rw [Woodpile.Pipe.apply_total]
    cases op with
    | append bs =>
      simp only [shiftOp, Pipe.apply, Pipe.append, h.cells, List.map_append, rename_map_byte, List.append_assoc]
    | register n =>
      simp only [shiftOp, Pipe.apply, Pipe.register, h.cells, List.map_append, rename_replicate_hole,
        List.append_assoc]
      have : Q.total.nextId = q'.nextId + k := h.nid
      rw [this]
    | fill id bs =>
      simp only [shiftOp, Pipe.apply, Pipe.fill, h.cells]
      have hn : Cell.hole (id + k) ∉ pre := fun hm => by have := h.pre_lt _ hm; omega
      rw [fillCells_append_left_notin _ _ _ _ hn]
      congr 1
      exact rename_fill (· + k) id q'.cells bs (fun j _ e => by have e' : j + k = id + k := e; omega)
  · cases op with
    | append bs => exact h.nid
    | register n => simp only [shiftOp, Pipe.apply, Pipe.register]; have := h.nid; omega
    | fill id bs => exact h.nid

theorem Lifted.run {pre : List Cell} {k : Nat} (ops : List Woodpile.Pipe.Op) :
    ∀ {Q q' : Pipe}, Lifted pre k Q q' → Lifted pre k (Q.run (ops.map (shiftOp k))) (q'.run ops) := by
  induction ops with
  | nil => intro Q q' h; exact h
  | cons op t ih =>
    intro Q q' h
    simp only [List.map_cons, Pipe.run, List.foldl_cons]
    exact ih (h.apply op)

theorem Lifted.consume {pre : List Cell} {k : Nat} {Q q' : Pipe} (h : Lifted pre k Q q') (m : Nat) :
    Lifted pre k (Q.consume m).1 q' :=
  ⟨by rw [Woodpile.Pipe.consume_total]; exact h.cells, h.nid, h.pre_lt⟩

theorem Lifted.count {pre : List Cell} {k : Nat} {Q q' : Pipe} (h : Lifted pre k Q q') (id : Nat) :
    Q.cells.count (Cell.hole (id + k)) = q'.cells.count (Cell.hole id) := by
  rw [← count_hole_total, h.cells, List.count_append, count_rename_add]
  have hn : Cell.hole (id + k) ∉ pre := fun hm => by have := h.pre_lt _ hm; omega
  rw [List.count_eq_zero_of_not_mem hn, Nat.zero_add]

theorem Lifted.opsOk {pre : List Cell} {k : Nat} (ops : List Woodpile.Pipe.Op) :
    ∀ {Q q' : Pipe}, Lifted pre k Q q' → OpsOk q' ops → OpsOk Q (ops.map (shiftOp k)) := by
  induction ops with
  | nil => intro Q q' _ _; trivial
  | cons op t ih =>
    intro Q q' h hok
    obtain ⟨h1, h2⟩ := hok
    refine ⟨?_, ih (h.apply op) h2⟩
    cases op with
    | append bs => trivial
    | register n => exact h1
    | fill id bs =>
      obtain ⟨a, b⟩ := h1
      exact ⟨a, by rw [h.count]; exact b⟩

/-- World `w`'s iovec `v`, with the bytes `g` drained so far, the caller's tokens `ct` and the codec's
tokens `t`, represents the virtual pipe `q'` behind the prefix `pre`. -/
def SimP (w : World) (v : Iov) (g : List UInt8) (ct t : List Backref) (pre : List Cell) (q' : Pipe) : Prop :=
  ∃ Q, SimV w v g (ct ++ t) Q ∧ Lifted pre ct.length Q q'

theorem SimP.inv {w : World} {v : Iov} {g : List UInt8} {ct t : List Backref} {pre : List Cell} {q' : Pipe}
    (h : SimP w v g ct t pre q') : IovInv w v := by
  obtain ⟨Q, h1, _⟩ := h; exact h1.inv

theorem SimP.setIov {w : World} {v : Iov} {g : List UInt8} {ct t : List Backref} {pre : List Cell} {q' : Pipe}
    (h : SimP w v g ct t pre q') (i : Nat) (o : Option Iov) : SimP (w.setIov i o) v g ct t pre q' := by
  obtain ⟨Q, h1, h2⟩ := h; exact ⟨Q, h1.setIov i o, h2⟩

theorem SimP.addExt {w : World} {v : Iov} {g : List UInt8} {ct t : List Backref} {pre : List Cell} {q' : Pipe}
    (h : SimP w v g ct t pre q') (d : List UInt8) : SimP (w.addExt d).1 v g ct t pre q' := by
  obtain ⟨Q, h1, h2⟩ := h; exact ⟨Q, h1.addExt d, h2⟩

theorem SimP.pushed0 {w w' : World} {v v' : Iov} {g : List UInt8} {ct t : List Backref} {pre : List Cell} {q' : Pipe}
    (h : SimP w v g ct t pre q') (hp : Pushed w w' v v' []) : SimP w' v' g ct t pre q' := by
  obtain ⟨Q, h1, h2⟩ := h; exact ⟨Q, h1.pushed0 hp, h2⟩

theorem SimP.consumed {w : World} {v v' : Iov} {g : List UInt8} {ct t : List Backref} {pre : List Cell} {q' : Pipe}
    {m : Nat} (h : SimP w v g ct t pre q') (hc : Consumed w v v' m) (hm : m ≤ sumLens (v.slices.take v.stableN)) :
    SimP w v' (g ++ (w.flat v.slices).take m) ct t pre q' := by
  obtain ⟨Q, h1, h2⟩ := h
  exact ⟨_, (h1.consumed hc hm).1, h2.consume m⟩

theorem srcOk_shift (w : World) (src : Slice) (k : Nat) (es : List Emit) (h : SrcOk w src es) :
    SrcOk w src (es.map (shiftE k)) := by
  intro e he hb bs hop
  obtain ⟨e0, he0, rfl⟩ := List.mem_map.mp he
  exact h e0 he0 hb bs ((shiftOp_append_iff k e0.op bs).mp hop)

/-- The emits of one state-machine step on a pre-filled iovec (as `applyStep_sim`). -/
theorem applyStep_simP (i : Nat) (g : List UInt8) (src : Slice) (es : List Emit)
    (w : World) (v : Iov) (ct t : List Backref) (pre : List Cell) (q' : Pipe)
    (hv : w.iov i = some v) (h : SimP w v g ct t pre q') (hok : OpsOk q' (es.map (·.op))) (hsrc : SrcOk w src es) :
    ∃ w' v' t', applyStep w i t es src = some (w', t') ∧ w'.iov i = some v' ∧
      SimP w' v' g ct t' pre (q'.run (es.map (·.op))) ∧ w'.exts = w.exts := by
  obtain ⟨Q, h1, h2⟩ := h
  have hokQ : OpsOk Q ((es.map (shiftE ct.length)).map (·.op)) := by
    rw [map_shiftE_op]; exact h2.opsOk _ hok
  obtain ⟨w', v', T', a1, a2, a3, a4⟩ := applyStep_sim i g src (es.map (shiftE ct.length)) w v (ct ++ t) Q hv h1 hokQ
    (srcOk_shift w src _ es hsrc)
  rw [applyStep_shift] at a1
  cases hx : applyStep w i t es src with
  | none => rw [hx] at a1; cases a1
  | some x =>
    obtain ⟨w1, t1⟩ := x
    rw [hx] at a1
    simp only [Option.map_some, Option.some.injEq, Prod.mk.injEq] at a1
    obtain ⟨rfl, rfl⟩ := a1
    refine ⟨w1, v', t1, rfl, a2, ⟨_, a3, ?_⟩, a4⟩
    rw [map_shiftE_op]
    exact h2.run _

theorem noBorrow_shift (k : Nat) (A : List Emit) (h : ∀ e ∈ A, NoBorrow e) : ∀ e ∈ A.map (shiftE k), NoBorrow e := by
  intro e he hb bs hop
  obtain ⟨e0, he0, rfl⟩ := List.mem_map.mp he
  exact h e0 he0 hb bs ((shiftOp_append_iff k e0.op bs).mp hop)

/-- … whose borrowed append comes out of a held arena slice (as `applyStep_simH`). -/
theorem applyStep_simHP (i : Nat) (g : List UInt8) (src : Slice) (A B W : List Emit) (X input : List UInt8) (c : Nat)
    (w : World) (v : Iov) (ct t : List Backref) (pre : List Cell) (q' : Pipe)
    (hv : w.iov i = some v) (h : SimP w v g ct t pre q')
    (hok : OpsOk q' ((A ++ W ++ B).map (·.op)))
    (hA : ∀ e ∈ A, NoBorrow e) (hB : ∀ e ∈ B, NoBorrow e)
    (hW : W = [] ∨ W = [⟨.append X, .borrow⟩]) (hX : X <+: input) (hXc : X.length ≤ c)
    (hsrc : HeldOk w v src) (hbytes : w.sliceBytes src = input) :
    ∃ w' v' t', applyStep w i t (A ++ W ++ B) src = some (w', t') ∧ w'.iov i = some v' ∧
      SimP w' v' g ct t' pre (q'.run ((A ++ W ++ B).map (·.op))) ∧ w'.exts = w.exts ∧
      ∀ x, SubAfter src c x → HeldOk w' v' x ∧ w'.sliceBytes x = w.sliceBytes x := by
  obtain ⟨Q, h1, h2⟩ := h
  have hmap : (A ++ W ++ B).map (shiftE ct.length) =
      A.map (shiftE ct.length) ++ W.map (shiftE ct.length) ++ B.map (shiftE ct.length) := by
    simp [List.map_append]
  have hokQ : OpsOk Q ((A.map (shiftE ct.length) ++ W.map (shiftE ct.length) ++ B.map (shiftE ct.length)).map (·.op)) := by
    rw [← hmap, map_shiftE_op]; exact h2.opsOk _ hok
  have hW' : W.map (shiftE ct.length) = [] ∨ W.map (shiftE ct.length) = [⟨.append X, .borrow⟩] := by
    rcases hW with rfl | rfl
    · exact Or.inl rfl
    · exact Or.inr rfl
  obtain ⟨w', v', T', a1, a2, a3, a4, a5⟩ := applyStep_simH i g src (A.map (shiftE ct.length)) (B.map (shiftE ct.length))
    (W.map (shiftE ct.length)) X input c w v (ct ++ t) Q hv h1 hokQ (noBorrow_shift _ A hA) (noBorrow_shift _ B hB)
    hW' hX hXc hsrc hbytes
  rw [← hmap, applyStep_shift] at a1
  cases hx : applyStep w i t (A ++ W ++ B) src with
  | none => rw [hx] at a1; cases a1
  | some x =>
    obtain ⟨w1, t1⟩ := x
    rw [hx] at a1
    simp only [Option.map_some, Option.some.injEq, Prod.mk.injEq] at a1
    obtain ⟨rfl, rfl⟩ := a1
    refine ⟨w1, v', t1, rfl, a2, ⟨_, a3, ?_⟩, a4, a5⟩
    rw [← hmap, map_shiftE_op]
    exact h2.run _

/-! ### Whole calls -/

theorem pipeOf_total (d : List UInt8) (k id : Nat) (b : List UInt8) : (pipeOf d k id b).total = pipeOf d k id b := by
  simp [Woodpile.Pipe.Pipe.total, pipeOf]

theorem rel_total {p : Params} {s : EncState} {nid : Nat} {q : Pipe} {σ : BS} (h : Rel p s nid q σ) : q.total = q := by
  rw [h.pipe]; exact pipeOf_total _ _ _ _

/-- One `encode` / `encode_copy` call on a pre-filled iovec (as `encFeed_sim`). -/
theorem encFeed_simP (p : Params) (hp : p.Valid) (i : Nat) (m : Method) (g : List UInt8) (base : Slice)
    (ct : List Backref) (pre : List Cell) (fuel : Nat) :
    ∀ (w : World) (v : Iov) (e : EncW) (q' : Pipe) (σ : BS) (input : List UInt8) (pos : Nat),
    w.iov i = some v → SimP w v g ct e.toks pre q' → Rel p e.st e.nid q' σ → σ.Inv p → σ.Inv2 →
    (m = .borrow → ∃ b, base.region = .ext b ∧ InBuf w b (base.off + pos) input) →
    ∃ w' v' e', encFeed p fuel w i e m base input pos = some (w', e') ∧ w'.iov i = some v' ∧
      SimP w' v' g ct e'.toks pre (runE q' (Enc.feed p fuel e.st e.nid m input).2.2) ∧
      e'.st = (Enc.feed p fuel e.st e.nid m input).1 ∧ e'.nid = (Enc.feed p fuel e.st e.nid m input).2.1 ∧
      w'.exts = w.exts := by
  induction fuel with
  | zero =>
    intro w v e q' σ input pos hv h _ _ _ _
    exact ⟨w, v, e, rfl, hv, by simpa [feed_zero] using h, rfl, rfl, rfl⟩
  | succ fuel ih =>
    intro w v e q' σ input pos hv h hrel h1 h2 hbuf
    by_cases hne : input = []
    · subst hne
      exact ⟨w, v, e, encFeed_nil .., hv, by simpa [feed_nil] using h,
        by simp [feed_nil], by simp [feed_nil], rfl⟩
    · have hok := once_opsOk p hrel q' (rel_total hrel) m input
      have hsrc : SrcOk w { base with off := base.off + pos, len := base.len - pos }
          (Enc.consumeOnce p e.st e.nid m input).emits := by
        intro x hx hb bs hop
        obtain ⟨hm, hpre⟩ := once_borrow_prefix p e.st e.nid m input x hx hb bs hop
        obtain ⟨b, hb1, hb2⟩ := hbuf hm
        exact ⟨b, hb1, hb2.prefix hpre⟩
      obtain ⟨w1, v1, toks1, g1, g2, g3, g4⟩ := applyStep_simP i g _ _ w v ct e.toks pre q' hv h hok hsrc
      obtain ⟨hc, hrel'⟩ := consumeOnce_sim p hp e.st e.nid q' σ m input hrel h1
      obtain ⟨hc0, hc1, hfold⟩ := onceA_eq_fold p σ input hne h1
      rw [← hc] at hc0 hc1 hfold
      obtain ⟨h1', h2'⟩ := fold_inv p hp (input.take (Enc.consumeOnce p e.st e.nid m input).consumed) σ h1 h2
      rw [← hfold] at h1' h2'
      obtain ⟨w2, v2, e2, k1, k2, k3, k4, k5, k6⟩ := ih w1 v1
        ⟨(Enc.consumeOnce p e.st e.nid m input).st, (Enc.consumeOnce p e.st e.nid m input).nextId, toks1⟩
        _ _ (input.drop (Enc.consumeOnce p e.st e.nid m input).consumed)
        (pos + (Enc.consumeOnce p e.st e.nid m input).consumed) g2 g3 hrel' h1' h2'
        (by
          intro hm
          obtain ⟨b, hb1, hb2⟩ := hbuf hm
          refine ⟨b, hb1, ?_⟩
          have := (hb2.of_exts g4).drop _ hc1
          rwa [Nat.add_assoc] at this)
      refine ⟨w2, v2, e2, ?_, k2, ?_, ?_, ?_, k6.trans g4⟩
      · rw [encFeed_succ p fuel w i e m base input pos hne, g1]
        exact k1
      · rw [feed_succ p fuel e.st e.nid m input hne]
        simp only
        rw [runE_append]
        exact k3
      · rw [feed_succ p fuel e.st e.nid m input hne]; exact k4
      · rw [feed_succ p fuel e.st e.nid m input hne]; exact k5

/-- One `encode` call whose input is a held arena slice, on a pre-filled iovec (as `encFeed_simH`). -/
theorem encFeed_simHP (p : Params) (hp : p.Valid) (i : Nat) (g : List UInt8) (base : Slice)
    (ct : List Backref) (pre : List Cell) (fuel : Nat) :
    ∀ (w : World) (v : Iov) (e : EncW) (q' : Pipe) (σ : BS) (input : List UInt8) (pos : Nat),
    w.iov i = some v → SimP w v g ct e.toks pre q' → Rel p e.st e.nid q' σ → σ.Inv p → σ.Inv2 →
    HeldOk w v { base with off := base.off + pos, len := base.len - pos } →
    w.sliceBytes { base with off := base.off + pos, len := base.len - pos } = input →
    ∃ w' v' e', encFeed p fuel w i e .borrow base input pos = some (w', e') ∧ w'.iov i = some v' ∧
      SimP w' v' g ct e'.toks pre (runE q' (Enc.feed p fuel e.st e.nid .borrow input).2.2) ∧
      e'.st = (Enc.feed p fuel e.st e.nid .borrow input).1 ∧
      e'.nid = (Enc.feed p fuel e.st e.nid .borrow input).2.1 ∧ w'.exts = w.exts := by
  induction fuel with
  | zero =>
    intro w v e q' σ input pos hv h _ _ _ _ _
    exact ⟨w, v, e, rfl, hv, by simpa [feed_zero] using h, rfl, rfl, rfl⟩
  | succ fuel ih =>
    intro w v e q' σ input pos hv h hrel h1 h2 hheld hbytes
    by_cases hne : input = []
    · subst hne
      exact ⟨w, v, e, encFeed_nil .., hv, by simpa [feed_nil] using h,
        by simp [feed_nil], by simp [feed_nil], rfl⟩
    · have hok := once_opsOk p hrel q' (rel_total hrel) .borrow input
      obtain ⟨A, B, W, X, hsh, hA, hB, hW, hX, hXc⟩ := once_shape p e.st e.nid input
      obtain ⟨hc, hrel'⟩ := consumeOnce_sim p hp e.st e.nid q' σ .borrow input hrel h1
      obtain ⟨hc0, hc1, hfold⟩ := onceA_eq_fold p σ input hne h1
      rw [← hc] at hc0 hc1 hfold
      have hlen : input.length = base.len - pos := by
        rw [← hbytes]; exact sliceBytes_chunk_length w _ hheld.reg
      rw [hsh] at hok
      obtain ⟨w1, v1, toks1, g1, g2, g3, g4, g5⟩ := applyStep_simHP i g _ A B W X input
        (Enc.consumeOnce p e.st e.nid .borrow input).consumed w v ct e.toks pre q' hv h hok hA hB hW hX hXc hheld hbytes
      rw [← hsh] at g1 g3
      obtain ⟨h1', h2'⟩ := fold_inv p hp (input.take (Enc.consumeOnce p e.st e.nid .borrow input).consumed) σ h1 h2
      rw [← hfold] at h1' h2'
      have hsub : SubAfter { base with off := base.off + pos, len := base.len - pos }
          (Enc.consumeOnce p e.st e.nid .borrow input).consumed
          { base with off := base.off + (pos + (Enc.consumeOnce p e.st e.nid .borrow input).consumed),
                      len := base.len - (pos + (Enc.consumeOnce p e.st e.nid .borrow input).consumed) } := by
        refine ⟨rfl, ?_, ?_⟩ <;> simp only <;> omega
      obtain ⟨f1, f2⟩ := g5 _ hsub
      obtain ⟨w2, v2, e2, k1, k2, k3, k4, k5, k6⟩ := ih w1 v1
        ⟨(Enc.consumeOnce p e.st e.nid .borrow input).st, (Enc.consumeOnce p e.st e.nid .borrow input).nextId, toks1⟩
        _ _ (input.drop (Enc.consumeOnce p e.st e.nid .borrow input).consumed)
        (pos + (Enc.consumeOnce p e.st e.nid .borrow input).consumed) g2 g3 hrel' h1' h2' f1
        (by
          rw [f2, slice_advance_eq, sliceBytes_trim w _ _ (by simp only; omega), hbytes])
      refine ⟨w2, v2, e2, ?_, k2, ?_, ?_, ?_, k6.trans g4⟩
      · rw [encFeed_succ p fuel w i e .borrow base input pos hne, g1]
        exact k1
      · rw [feed_succ p fuel e.st e.nid .borrow input hne]
        simp only
        rw [runE_append]
        exact k3
      · rw [feed_succ p fuel e.st e.nid .borrow input hne]; exact k4
      · rw [feed_succ p fuel e.st e.nid .borrow input hne]; exact k5

/-! ### Whole runs from a pre-filled iovec -/

/-- The invariant between calls: the iovec represents, behind the prefix `pre` (the cells the pre-filled
iovec stood for at the hand-over, consumed ones included), the virtual pipe of a fresh encoder that has been
fed `input`. -/
def RunInvP (p : Params) (i : Nat) (ct : List Backref) (pre : List Cell) (r : Run) (input : List UInt8) : Prop :=
  ∃ v q', r.w.iov i = some v ∧ SimP r.w v r.drained ct r.e.toks pre q' ∧
    Rel p r.e.st r.e.nid q' (input.foldl (byteStep p) BS.init)

theorem encFeed_runP (p : Params) (hp : p.Valid) (i : Nat) (m : Method) (d : List UInt8) (base : Slice)
    (ct : List Backref) (pre : List Cell) (w : World) (e : EncW) (g : List UInt8) (input : List UInt8)
    (hinv : RunInvP p i ct pre ⟨w, e, g⟩ input)
    (hbuf : m = .borrow → ∃ b, base.region = .ext b ∧ InBuf w b (base.off + 0) d) :
    ∃ w' e', encFeed p (2 * d.length + 2) w i e m base d 0 = some (w', e') ∧
      RunInvP p i ct pre ⟨w', e', g⟩ (input ++ d) := by
  obtain ⟨v, q', hv, hsim, hrel⟩ := hinv
  obtain ⟨h1, h2⟩ := fold_init_inv p hp input
  obtain ⟨w', v', e', k1, k2, k3, k4, k5, _⟩ :=
    encFeed_simP p hp i m g base ct pre (2 * d.length + 2) w v e q' _ d 0 hv hsim hrel h1 h2 hbuf
  have hfs := feed_sim p hp m (2 * d.length + 2) e.st e.nid q' _ d hrel h1 h2 (by omega)
  refine ⟨w', e', k1, v', _, k2, k3, ?_⟩
  rw [k4, k5, List.foldl_append]
  exact hfs

theorem encFeed_runHP (p : Params) (hp : p.Valid) (i : Nat) (d : List UInt8) (base : Slice)
    (ct : List Backref) (pre : List Cell) (w : World) (v : Iov) (e : EncW) (g : List UInt8) (input : List UInt8)
    (q' : Pipe) (hv : w.iov i = some v) (hsim : SimP w v g ct e.toks pre q')
    (hrel : Rel p e.st e.nid q' (input.foldl (byteStep p) BS.init))
    (hheld : HeldOk w v base) (hbytes : w.sliceBytes base = d) :
    ∃ w' e', encFeed p (2 * d.length + 2) w i e .borrow base d 0 = some (w', e') ∧
      RunInvP p i ct pre ⟨w', e', g⟩ (input ++ d) := by
  obtain ⟨h1, h2⟩ := fold_init_inv p hp input
  have hb0 : ({ base with off := base.off + 0, len := base.len - 0 } : Slice) = base := by simp
  obtain ⟨w', v', e', k1, k2, k3, k4, k5, _⟩ :=
    encFeed_simHP p hp i g base ct pre (2 * d.length + 2) w v e q' _ d 0 hv hsim hrel h1 h2
      (by rw [hb0]; exact hheld) (by rw [hb0]; exact hbytes)
  have hfs := feed_sim p hp .borrow (2 * d.length + 2) e.st e.nid q' _ d hrel h1 h2 (by omega)
  refine ⟨w', e', k1, v', _, k2, k3, ?_⟩
  rw [k4, k5, List.foldl_append]
  exact hfs

/-- One call of the full vocabulary keeps the invariant (as `encCallA_sim`). -/
theorem encCallA_simP (p : Params) (hp : p.Valid) (i : Nat) (ct : List Backref) (pre : List Cell) (r : Run)
    (c : ACall) (input : List UInt8) (hinv : RunInvP p i ct pre r input) :
    ∃ r', encCallA p i r c = some r' ∧ RunInvP p i ct pre r' (input ++ ainputOf [c]) := by
  obtain ⟨w, e, g⟩ := r
  cases c with
  | call c =>
    cases c with
    | feed m d =>
      have hin : ainputOf [ACall.call (Call.feed m d)] = d := by simp [ainputOf, apieces, pieces]
      rw [hin]
      cases m with
      | copy =>
        obtain ⟨w', e', k1, k2⟩ := encFeed_runP p hp i .copy d ⟨.ext 0, 0, 0⟩ ct pre w e g input hinv
          (fun h => by cases h)
        exact ⟨⟨w', e', g⟩, by simp [encCallA, encCall, k1], k2⟩
      | borrow =>
        obtain ⟨v, q', hv, hsim, hrel⟩ := hinv
        have hinv' : RunInvP p i ct pre ⟨(w.addExt d).1, e, g⟩ input := ⟨v, q', hv, hsim.addExt d, hrel⟩
        obtain ⟨w', e', k1, k2⟩ := encFeed_runP p hp i .borrow d ⟨.ext w.exts.length, 0, d.length⟩ ct pre
          (w.addExt d).1 e g input hinv' (fun _ => ⟨w.exts.length, rfl, InBuf.addExt w d⟩)
        exact ⟨⟨w', e', g⟩, by simp [encCallA, encCall, k1], k2⟩
    | consume k =>
      obtain ⟨v, q', hv, hsim, hrel⟩ := hinv
      simp only at hv hsim hrel
      obtain ⟨v', h1, h2, _⟩ := World.consume_spec w i v k hv hsim.inv
      have hm : sumLens (v.slices.take (min k v.stableN)) ≤ sumLens (v.slices.take v.stableN) :=
        sumLens_take_mono _ (Nat.min_le_right _ _)
      have g1 := hsim.consumed h2 hm
      rw [flat_take_prefix w v.arena v.slices _ hsim.inv.slices_ok] at g1
      refine ⟨⟨w.setIov i (some v'), e, g ++ w.flat (v.slices.take (min k v.stableN))⟩,
        by simp [encCallA, encCall, hv, h1], v', q', by simp, g1.setIov i _, ?_⟩
      simpa [ainputOf, apieces, pieces] using hrel
    | advance k =>
      obtain ⟨v, q', hv, hsim, hrel⟩ := hinv
      simp only at hv hsim hrel
      obtain ⟨v', h1, h2⟩ := World.advance_spec w i v k hv hsim.inv
      have g1 := hsim.consumed h2 (Nat.min_le_right _ _)
      refine ⟨⟨w.setIov i (some v'), e, g ++ (w.flat v.slices).take (min k (sumLens (v.slices.take v.stableN)))⟩,
        by simp [encCallA, encCall, hv, h1], v', q', by simp, g1.setIov i _, ?_⟩
      simpa [ainputOf, apieces, pieces] using hrel
  | read count attempts src script =>
    obtain ⟨v, q', hv, hsim, hrel⟩ := hinv
    simp only at hv hsim hrel
    obtain ⟨w1, ar', res, hrn, hv1, hex1, hpush, _, herr, hokr⟩ :=
      World.readN_spec w i v ⟨src, script⟩ count attempts hv hsim.inv
    have hro := readOwn_eq w i v ⟨src, script⟩ count attempts hv w1 ar' res _ hrn hv1
    have hsim1 : SimP (w1.setIov i (some { v with arena := ar' })) { v with arena := ar' } g ct e.toks pre q' :=
      hsim.pushed0 hpush
    have hv2 : (w1.setIov i (some { v with arena := ar' })).iov i = some { v with arena := ar' } := by simp
    cases hres : (ReadN.readNCore ⟨src, script⟩ count attempts).res with
    | err k =>
      have hre := herr k hres
      subst hre
      have hin : ainputOf [ACall.read count attempts src script] = [] := by
        simp [ainputOf, apieces, readPiece, hres]
      rw [hin, List.append_nil]
      exact ⟨⟨w1.setIov i (some { v with arena := ar' }), e, g⟩, by simp only [encCallA, encodeRead, hro, Option.map_some],
        _, q', hv2, hsim1, hrel⟩
    | ok got =>
      have hin : ainputOf [ACall.read count attempts src script] = got := by
        simp [ainputOf, apieces, readPiece, hres]
      rw [hin]
      obtain ⟨a, hra, hal, hab, hheld⟩ := hokr got hres
      subst hra
      by_cases hc0 : count = 0
      · have hg0 : got = [] := by
          subst hc0
          have : ReadN.readNCore ⟨src, script⟩ 0 attempts = ⟨.ok [], [], ⟨src, script⟩⟩ := by simp [ReadN.readNCore]
          rw [this] at hres
          simp only [ReadN.ReadRes.ok.injEq] at hres
          exact hres.symm
        subst hg0
        have hl0 : a.slice.len = 0 := by simpa using hal
        refine ⟨⟨w1.setIov i (some { v with arena := ar' }), e, g⟩, ?_, _, q', hv2, hsim1, by simpa using hrel⟩
        simp only [encCallA, encodeRead, hro, encodeAnchored, hab, List.length_nil, encFeed_nil, pushAnchorOf, hl0,
          if_true, Option.map_some]
      · obtain ⟨hheld1, c, hanc, hreg⟩ := hheld (by omega)
        obtain ⟨w3, e3, k1, k2⟩ := encFeed_runHP p hp i got a.slice ct pre _ _ e g input q' hv2 hsim1 hrel hheld1 hab
        obtain ⟨v3, q3, j1, j2, j5⟩ := k2
        simp only at j1 j2 j5
        by_cases hl0 : a.slice.len = 0
        · refine ⟨⟨w3, e3, g⟩, ?_, v3, q3, j1, j2, j5⟩
          have hg0 : got.length = 0 := by omega
          simp only [encCallA, encodeRead, hro, encodeAnchored, hab, k1, pushAnchorOf, hal]
          simp only [hg0, if_true, Option.map_some]
        · obtain ⟨m1, m2⟩ := World.pushAnchor_spec w3 i v3 a.anchor j1 j2.inv
          refine ⟨⟨w3.setIov i (some { v3 with anchors := v3.anchors ++ [{ a.anchor with count := 0 }] }), e3, g⟩,
            ?_, _, q3, by simp, j2.pushed0 m2, j5⟩
          have hg0 : ¬ got.length = 0 := by omega
          simp only [encCallA, encodeRead, hro, encodeAnchored, hab, k1, pushAnchorOf, hal]
          simp only [hg0, if_false, m1, Option.map_some]

theorem encCallsA_simP (p : Params) (hp : p.Valid) (i : Nat) (ct : List Backref) (pre : List Cell) (calls : List ACall) :
    ∀ (r : Run) (input : List UInt8), RunInvP p i ct pre r input →
    ∃ r', encCallsA p i r calls = some r' ∧ RunInvP p i ct pre r' (input ++ ainputOf calls) := by
  induction calls with
  | nil =>
    intro r input h
    exact ⟨r, rfl, by simpa [ainputOf, apieces] using h⟩
  | cons c t ih =>
    intro r input h
    obtain ⟨r1, h1, h2⟩ := encCallA_simP p hp i ct pre r c input h
    obtain ⟨r2, k1, k2⟩ := ih r1 _ h2
    refine ⟨r2, by simp [encCallsA, h1, k1], ?_⟩
    rw [ainputOf_cons, ← List.append_assoc]; exact k2

/-- `Encoder::new_from_iovec(iovec)` — `iovec` = iovec `i` of world `w`, of which `dr` was drained before the
hand-over — followed by any calls. -/
def encPrefixFrom (p : Params) (w : World) (i : Nat) (dr : List UInt8) (calls : List ACall) : Option Run :=
  match encInit p w i with
  | none => none
  | some (w1, e1) => encCallsA p i ⟨w1, e1, dr⟩ calls

/-- … and `Encoder::finish()`: the final world and everything drained. -/
def encRunFrom (p : Params) (w : World) (i : Nat) (dr : List UInt8) (calls : List ACall) : Option (World × List UInt8) :=
  match encPrefixFrom p w i dr calls with
  | none => none
  | some r => (encFinish p r.w i r.e).map fun w' => (w', r.drained)

theorem encPrefixA_eq_from (p : Params) (pol : Policy) (tun : Tuning) (calls : List ACall) :
    encPrefixA p pol tun calls = encPrefixFrom p (World.fresh pol tun) 0 [] calls := rfl

theorem encRunA_eq_from (p : Params) (pol : Policy) (tun : Tuning) (calls : List ACall) :
    encRunA p pol tun calls = encRunFrom p (World.fresh pol tun) 0 [] calls := rfl

theorem lifted_start {w : World} {v : Iov} {g : List UInt8} {ct : List Backref} {Q0 : Pipe}
    (h : SimV w v g ct Q0) : Lifted Q0.total.cells ct.length Q0 Woodpile.Pipe.empty := by
  refine ⟨by simp [Woodpile.Pipe.empty], by simp [Woodpile.Pipe.empty, h.nid], ?_⟩
  intro j hj
  simp only [Woodpile.Pipe.Pipe.total, List.mem_append] at hj
  rcases hj with hj | hj
  · exact absurd hj (mem_hole_map_byte _ _)
  · exact h.holes_lt j hj

/-- `Encoder::new_from_iovec` on a pre-filled iovec: the first size header is registered behind whatever
the iovec holds; no panic. -/
theorem encInit_simP (p : Params) (i : Nat) (w : World) (v : Iov) (g : List UInt8) (ct : List Backref) (Q0 : Pipe)
    (hv : w.iov i = some v) (h : SimV w v g ct Q0) :
    ∃ w1 e1, encInit p w i = some (w1, e1) ∧ RunInvP p i ct Q0.total.cells ⟨w1, e1, g⟩ [] ∧ w1.exts = w.exts := by
  have hP : SimP w v g ct [] Q0.total.cells Woodpile.Pipe.empty := ⟨Q0, by simpa using h, lifted_start h⟩
  obtain ⟨w1, v1, toks1, h1, h2, h3, h4⟩ := applyStep_simP i g ⟨.ext 0, 0, 0⟩ (Enc.init p 0).2 w v ct []
    Q0.total.cells Woodpile.Pipe.empty hv hP (by simp [Enc.init, OpsOk, OpOk])
    (by intro e he hb; simp only [Enc.init, List.mem_singleton] at he; subst he; cases hb)
  refine ⟨w1, ⟨(Enc.init p 0).1, 1, toks1⟩, by simp only [encInit, h1], ⟨v1, _, h2, h3, ?_⟩, h4⟩
  exact ⟨rfl, rfl, rfl, rfl, rfl, rfl⟩

/-- `g ++ (what the iovec holds)` as cells = the undrained view of the pipe it represents, ids renamed. -/
theorem SimV.total_cells {w : World} {v : Iov} {g : List UInt8} {toks : List Backref} {Q : Pipe}
    (h : SimV w v g toks Q) :
    g.map Cell.byte ++ absCells w v = Q.total.cells.map (renameCell (tokKey toks)) := by
  rw [h.cells, h.ghost]
  simp [Woodpile.Pipe.Pipe.total]

theorem tokKey_append_left' (a b : List Backref) {j : Nat} (hj : j < a.length) : tokKey (a ++ b) j = tokKey a j := by
  unfold tokKey
  simp [List.getD_eq_getElem?_getD, List.getElem?_append_left hj]

theorem tokKey_append_right' (a b : List Backref) (j : Nat) : tokKey (a ++ b) (j + a.length) = tokKey b j := by
  unfold tokKey
  simp [List.getD_eq_getElem?_getD, List.getElem?_append_right]

/-- The prefix keeps its meaning: the caller's placeholder ids are renamed to the caller's keys whatever
tokens the codec has added since. -/
theorem prefix_cells {w : World} {v : Iov} {g : List UInt8} {ct : List Backref} {Q0 : Pipe}
    (h : SimV w v g ct Q0) (T : List Backref) :
    Q0.total.cells.map (renameCell (tokKey (ct ++ T))) = g.map Cell.byte ++ absCells w v := by
  rw [h.total_cells]
  apply rename_congr
  intro j hj
  exact tokKey_append_left' ct T ((lifted_start h).pre_lt j hj)

/-- In terms of the iovecs only: drained ++ cells = what the iovec stood for at the hand-over, then the
virtual pipe's cells, the codec's placeholder `j` renamed to the key of its `j`-th token. -/
theorem simP_cells {w : World} {v : Iov} {g : List UInt8} {ct : List Backref} {Q0 : Pipe}
    (h0 : SimV w v g ct Q0) {w' : World} {v' : Iov} {g' : List UInt8} {T : List Backref} {Q q' : Pipe}
    (hs : SimV w' v' g' (ct ++ T) Q) (hl : Lifted Q0.total.cells ct.length Q q') :
    g'.map Cell.byte ++ absCells w' v' =
      g.map Cell.byte ++ absCells w v ++ q'.cells.map (renameCell (tokKey T)) := by
  rw [hs.total_cells, hl.cells, List.map_append, prefix_cells h0, List.map_map]
  congr 1
  apply List.map_congr_left
  intro c _
  cases c with
  | byte b => rfl
  | hole j => simp [tokKey_append_right']

theorem RunInvP.cells {p : Params} {i : Nat} {w : World} {v : Iov} {g : List UInt8} {ct : List Backref} {Q0 : Pipe}
    (h0 : SimV w v g ct Q0) {r : Run} {input : List UInt8} (h : RunInvP p i ct Q0.total.cells r input) :
    ∃ v' q', r.w.iov i = some v' ∧ IovInv r.w v' ∧
      Rel p r.e.st r.e.nid q' (input.foldl (byteStep p) BS.init) ∧
      r.drained.map Cell.byte ++ absCells r.w v' =
        g.map Cell.byte ++ absCells w v ++ q'.cells.map (renameCell (tokKey r.e.toks)) := by
  obtain ⟨v', q', hv', ⟨Q, hs, hl⟩, hrel⟩ := h
  exact ⟨v', q', hv', hs.inv, hrel, simP_cells h0 hs hl⟩

/-- `Encoder::finish` on a run from a pre-filled iovec: no panic; drained ++ cells of the final iovec = what
the iovec stood for at the hand-over (the caller's pending placeholders still pending) followed by
`Spec.encode` of all the input. -/
theorem encFinish_simP (p : Params) (hp : p.Valid) (i : Nat) {w : World} {v : Iov} {g : List UInt8} {ct : List Backref}
    {Q0 : Pipe} (h0 : SimV w v g ct Q0) (r : Run) (input : List UInt8) (h : RunInvP p i ct Q0.total.cells r input) :
    ∃ w' v', encFinish p r.w i r.e = some w' ∧ w'.iov i = some v' ∧ IovInv w' v' ∧
      r.drained.map Cell.byte ++ absCells w' v' =
        g.map Cell.byte ++ absCells w v ++ (Spec.encode p input).map Cell.byte := by
  obtain ⟨v1, q', hv1, hsim, hrel⟩ := h
  obtain ⟨h1, _⟩ := fold_init_inv p hp input
  obtain ⟨w', v', t', k1, k2, ⟨Q, hs, hl⟩, _⟩ := applyStep_simP i r.drained ⟨.ext 0, 0, 0⟩ (Enc.finish p r.e.st)
    r.w v1 ct r.e.toks Q0.total.cells q' hv1 hsim (finish_opsOk p hrel q' (rel_total hrel))
    (fun e he hb => (finish_no_borrow p _ e he hb).elim)
  have hfin := finish_sim p hp r.e.st r.e.nid q' _ hrel h1
  rw [fold_finish_encode p hp input] at hfin
  unfold runE at hfin
  refine ⟨w', v', by simp only [encFinish, k1]; rfl, k2, hs.inv, ?_⟩
  rw [hs.total_cells, hl.cells, hfin, List.map_append, prefix_cells h0]
  simp only [rename_map_byte]

/-- The whole run from a pre-filled iovec, on the abstraction (any caller placeholders pending or not). -/
theorem encRunFrom_cells (p : Params) (hp : p.Valid) (i : Nat) (w : World) (v : Iov) (g : List UInt8)
    (ct : List Backref) (Q0 : Pipe) (hv : w.iov i = some v) (h0 : SimV w v g ct Q0) (calls : List ACall) :
    ∃ w' dr v', encRunFrom p w i g calls = some (w', dr) ∧ w'.iov i = some v' ∧ IovInv w' v' ∧
      dr.map Cell.byte ++ absCells w' v' =
        g.map Cell.byte ++ absCells w v ++ (Spec.encode p (ainputOf calls)).map Cell.byte := by
  obtain ⟨w1, e1, a1, a2, _⟩ := encInit_simP p i w v g ct Q0 hv h0
  obtain ⟨r, b1, b2⟩ := encCallsA_simP p hp i ct _ calls ⟨w1, e1, g⟩ [] a2
  simp only [List.nil_append] at b2
  obtain ⟨w', v', c1, c2, c3, c4⟩ := encFinish_simP p hp i h0 r _ b2
  exact ⟨w', r.drained, v', by simp only [encRunFrom, encPrefixFrom, a1, b1, c1, Option.map_some], c2, c3, c4⟩

/-! ### A pre-filled iovec with nothing pending: no hypothesis beyond the structural invariant -/

/-- Any iovec that satisfies the structural invariant and has no pending backref (whatever its slice
structure, however much of it was consumed, whatever placeholders it had that are filled by now)
represents the pipe of its flattened bytes. -/
theorem simV_of_noPending {w : World} {v : Iov} (g : List UInt8) (hinv : IovInv w v) (hnp : v.hasPending = false) :
    SimV w v g [] ⟨(w.flat v.slices).map Cell.byte, g, 0⟩ := by
  obtain ⟨g1, g2⟩ := visible_all_of_no_pending hinv hnp
  have hb : v.backrefs = [] := by
    unfold Iov.hasPending at hnp
    cases hbb : v.backrefs with
    | nil => rfl
    | cons _ _ => rw [hbb] at hnp; simp at hnp
  exact
    { inv := hinv
      cells := by simp only [rename_map_byte]; rw [g2, g1]
      ghost := rfl
      nid := rfl
      holes_lt := by intro j hj; exact absurd hj (mem_hole_map_byte _ _)
      tk_sorted := List.Pairwise.nil
      tk_le := by intro b hb; cases hb
      tk_ok := by intro e he; rw [hb] at he; cases he
      tk_len := by intro j e hj; simp at hj }

theorem absCells_of_noPending {w : World} {v : Iov} (hinv : IovInv w v) (hnp : v.hasPending = false) :
    absCells w v = (w.flat v.slices).map Cell.byte := by
  obtain ⟨g1, g2⟩ := visible_all_of_no_pending hinv hnp
  rw [g2, g1]

theorem map_byte_injective {a b : List UInt8} (h : a.map Cell.byte = b.map Cell.byte) : a = b := by
  have := congrArg cellBytes h
  simpa using this

/-- The whole run from a pre-filled iovec with nothing pending: `prefilled_output`. -/
theorem encRunFrom_flat (p : Params) (hp : p.Valid) (i : Nat) (w : World) (v : Iov) (g : List UInt8)
    (hv : w.iov i = some v) (hinv : IovInv w v) (hnp : v.hasPending = false) (calls : List ACall) :
    ∃ w' dr v', encRunFrom p w i g calls = some (w', dr) ∧ w'.iov i = some v' ∧ IovInv w' v' ∧
      v'.hasPending = false ∧ w'.visible v' = w'.flat v'.slices ∧
      dr ++ w'.flat v'.slices = g ++ w.flat v.slices ++ Spec.encode p (ainputOf calls) := by
  obtain ⟨w', dr, v', h1, h2, h3, h4⟩ := encRunFrom_cells p hp i w v g [] _ hv (simV_of_noPending g hinv hnp) calls
  rw [absCells_of_noPending hinv hnp] at h4
  have hall : dr.map Cell.byte ++ absCells w' v' =
      (g ++ w.flat v.slices ++ Spec.encode p (ainputOf calls)).map Cell.byte := by
    rw [h4]; simp
  have hcells : absCells w' v' = ((g ++ w.flat v.slices ++ Spec.encode p (ainputOf calls)).drop dr.length).map Cell.byte := by
    have := congrArg (List.drop dr.length) hall
    rw [List.drop_left' (by simp)] at this
    rw [this, List.map_drop]
  have hpend : v'.hasPending = false := by
    rw [hasPending_eq_pending h3, hcells]; exact Woodpile.Pipe.any_hole_map_byte _
  obtain ⟨g1, g2⟩ := visible_all_of_no_pending h3 hpend
  refine ⟨w', dr, v', h1, h2, h3, hpend, g1, ?_⟩
  rw [g2, g1, ← List.map_append] at hall
  exact map_byte_injective hall

/-! ### Lag and prefix from a pre-filled start -/

theorem stable_prefix_of_eq (M L : List UInt8) (R B : List Cell) (k K : Nat) (hk : 1 ≤ k)
    (h : M.map Cell.byte ++ R = L.map Cell.byte ++ (List.replicate k (Cell.hole K) ++ B)) : M <+: L := by
  have h1 := Pipe.stable_of_cells ⟨M.map Cell.byte ++ R, [], 0⟩ M R rfl
  have h2 := Pipe.stable_of_cells ⟨M.map Cell.byte ++ R, [], 0⟩ L (List.replicate k (Cell.hole K) ++ B) h
  have h3 : (List.replicate k (Cell.hole K) ++ B).takeWhile Cell.isByte = [] := by
    obtain ⟨k', rfl⟩ : ∃ k', k = k' + 1 := ⟨k - 1, by omega⟩
    simp [List.replicate_succ, Cell.isByte]
  rw [h3] at h2
  rw [h2] at h1
  simp only [Woodpile.Pipe.cellBytes_nil, List.append_nil] at h1
  exact ⟨_, h1.symm⟩

/-- The closed chunks of the abstract encoder state are a prefix of the final output, whatever follows. -/
theorem done_prefix_encode (p : Params) (hp : p.Valid) (a b : List UInt8) :
    (a.foldl (byteStep p) BS.init).done <+: Spec.encode p (a ++ b) := by
  obtain ⟨h1, h2⟩ := fold_init_inv p hp a
  have := fold_finish p hp b (a.foldl (byteStep p) BS.init) (((a.foldl (byteStep p) BS.init).eff ++ b).length + 1) h1 h2
    (by omega)
  rw [← List.foldl_append, fold_finish_encode p hp] at this
  exact ⟨_, this.symm⟩

/-- Between calls of a run from a pre-filled iovec whose prefix `pre` holds no placeholder (`pre` = the
bytes `P`): the shape of the abstraction, the pending size header as a backref, and the lag. -/
theorem lag_of_runInvP (p : Params) (hp : p.Valid) (i : Nat) {w : World} {v : Iov} {g : List UInt8} {ct : List Backref}
    {Q0 : Pipe} (h0 : SimV w v g ct Q0) (P : List UInt8) (hP : g.map Cell.byte ++ absCells w v = P.map Cell.byte)
    (r : Run) (input : List UInt8) (h : RunInvP p i ct Q0.total.cells r input) :
    ∃ v' e s c, r.w.iov i = some v' ∧ IovInv r.w v' ∧
      e ∈ v'.backrefs ∧ e.2.len = r.e.st.brLen ∧
      v'.slices[e.2.sliceIndex - v'.consumedSlices]? = some s ∧ s.region = .chunk c ∧
      e.2.begin + r.e.st.brLen ≤ s.len ∧
      v'.totalSize - (r.w.visible v').length = e.2.begin + r.e.st.brLen + r.e.st.cur ∧
      1 ≤ r.e.st.brLen ∧ r.e.st.brLen ≤ 2 ∧
      r.e.st.cur + (if r.e.st.mid then 1 else 0) < r.e.st.maxChunk ∧
      (r.e.st.maxChunk = p.maxInit ∨ r.e.st.maxChunk = p.maxSub) ∧
      r.drained ++ r.w.visible v' <+: P ++ (input.foldl (byteStep p) BS.init).done := by
  obtain ⟨v', q', hv', ⟨Q, hs, hl⟩, hrel⟩ := h
  have hcells := simP_cells h0 hs hl
  obtain ⟨hi1, _⟩ := fold_init_inv p hp input
  generalize input.foldl (byteStep p) BS.init = σ at hrel hi1
  obtain ⟨hmax, hcur, hmid, hbr, hnid, hq⟩ := hrel
  have hk : 1 ≤ r.e.st.brLen ∧ r.e.st.brLen ≤ 2 := by cases hf : σ.first <;> simp [hbr, hf]
  -- the codec's placeholder on the real pipe
  have hcnt : Q.cells.count (Cell.hole (r.e.st.backref + ct.length)) = r.e.st.brLen := by
    rw [hl.count, hq, count_hole_pipeOf]
  have hm : Cell.hole (r.e.st.backref + ct.length) ∈ Q.cells := List.count_pos_iff.mp (by omega)
  obtain ⟨e, _, he, hek, hel⟩ := hs.token _ hm
  rw [tokKey_append_right'] at hek
  -- the shape of the abstraction
  have hshape : r.drained.map Cell.byte ++ absCells r.w v' =
      (P ++ σ.done).map Cell.byte ++ List.replicate r.e.st.brLen (Cell.hole (tokKey r.e.toks r.e.st.backref)) ++
        σ.body.map Cell.byte := by
    rw [hcells, hP, hq]
    simp only [pipeOf, List.map_append, rename_map_byte, rename_replicate_hole, List.append_assoc]
  have htot : (⟨absCells r.w v', r.drained, tokKey r.e.toks r.e.st.backref + 1⟩ : Pipe).total =
      pipeOf (P ++ σ.done) r.e.st.brLen (tokKey r.e.toks r.e.st.backref) σ.body := by
    simp only [Woodpile.Pipe.Pipe.total, pipeOf, hshape]
  have habs := cells_of_total_pipeOf _ _ _ _ _ hk.1 htot
  simp only at habs
  obtain ⟨g1, s, c, g2, g3, g4⟩ := lag_of_single_hole hs.inv _ _ _ _ hk.1 habs e he hek (by rw [hel, hcnt])
  have hinv' : σ.eff.length < Spec.limit p σ.first := hi1
  have hM : σ.M p = Spec.limit p σ.first := rfl
  rw [BS.eff_length, ← hmid, ← hcur] at hinv'
  refine ⟨v', e, s, c, hv', hs.inv, he, by rw [hel, hcnt], g2, g3, g4, ?_, hk.1, hk.2, by omega, ?_, ?_⟩
  · rw [g1, hcur]
  · cases hf : σ.first
    · right; rw [hmax, hM, hf]; rfl
    · left; rw [hmax, hM, hf]; rfl
  · have hv := absCells_visible hs.inv
    rw [hv, ← List.append_assoc, ← List.map_append, List.append_assoc] at hshape
    exact stable_prefix_of_eq _ _ _ _ _ _ hk.1 hshape

/-- `Encoder::new_from_iovec` on a pre-filled iovec followed by any calls (all input methods): never
panics; the invariant holds between calls. -/
theorem encPrefixFrom_inv (p : Params) (hp : p.Valid) (i : Nat) (w : World) (v : Iov) (g : List UInt8)
    (ct : List Backref) (Q0 : Pipe) (hv : w.iov i = some v) (h0 : SimV w v g ct Q0) (calls : List ACall) :
    ∃ r, encPrefixFrom p w i g calls = some r ∧ RunInvP p i ct Q0.total.cells r (ainputOf calls) := by
  obtain ⟨w1, e1, a1, a2, _⟩ := encInit_simP p i w v g ct Q0 hv h0
  obtain ⟨r, b1, b2⟩ := encCallsA_simP p hp i ct _ calls ⟨w1, e1, g⟩ [] a2
  exact ⟨r, by simp only [encPrefixFrom, a1, b1], by simpa using b2⟩

/-- Structural lag of the encoder between calls, from a pre-filled iovec with nothing pending at the
hand-over (as `enc_lag_structA`; the last clause is the prefix property in terms of the abstract state). -/
theorem enc_lag_structP (p : Params) (hp : p.Valid) (i : Nat) (w : World) (v : Iov) (g : List UInt8)
    (hv : w.iov i = some v) (hinv : IovInv w v) (hnp : v.hasPending = false) (calls : List ACall) :
    ∃ r v' e s c, encPrefixFrom p w i g calls = some r ∧ r.w.iov i = some v' ∧ IovInv r.w v' ∧
      e ∈ v'.backrefs ∧ e.2.len = r.e.st.brLen ∧
      v'.slices[e.2.sliceIndex - v'.consumedSlices]? = some s ∧ s.region = .chunk c ∧
      e.2.begin + r.e.st.brLen ≤ s.len ∧
      v'.totalSize - (r.w.visible v').length = e.2.begin + r.e.st.brLen + r.e.st.cur ∧
      1 ≤ r.e.st.brLen ∧ r.e.st.brLen ≤ 2 ∧
      r.e.st.cur + (if r.e.st.mid then 1 else 0) < r.e.st.maxChunk ∧
      (r.e.st.maxChunk = p.maxInit ∨ r.e.st.maxChunk = p.maxSub) := by
  have h0 := simV_of_noPending g hinv hnp
  obtain ⟨r, a1, a2⟩ := encPrefixFrom_inv p hp i w v g [] _ hv h0 calls
  obtain ⟨v', e, s, c, b1, b2, b3, b4, b5, b6, b7, b8, b9, b10, b11, b12, _⟩ :=
    lag_of_runInvP p hp i h0 (g ++ w.flat v.slices) (by rw [absCells_of_noPending hinv hnp]; simp) r _ a2
  exact ⟨r, v', e, s, c, a1, b1, b2, b3, b4, b5, b6, b7, b8, b9, b10, b11, b12⟩

/-- C09's prefix clause from a pre-filled iovec with nothing pending at the hand-over: drained ++ the stable
prefix is a prefix of (what the iovec held) ++ `Spec.encode` of the WHOLE input, whatever calls follow. -/
theorem enc_prefix_structP (p : Params) (hp : p.Valid) (i : Nat) (w : World) (v : Iov) (g : List UInt8)
    (hv : w.iov i = some v) (hinv : IovInv w v) (hnp : v.hasPending = false) (c1 c2 : List ACall) :
    ∃ r v', encPrefixFrom p w i g c1 = some r ∧ r.w.iov i = some v' ∧ IovInv r.w v' ∧
      r.drained ++ r.w.visible v' <+: g ++ w.flat v.slices ++ Spec.encode p (ainputOf (c1 ++ c2)) := by
  have h0 := simV_of_noPending g hinv hnp
  obtain ⟨r, a1, a2⟩ := encPrefixFrom_inv p hp i w v g [] _ hv h0 c1
  obtain ⟨v', e, s, c, b1, b2, _, _, _, _, _, _, _, _, _, _, b13⟩ :=
    lag_of_runInvP p hp i h0 (g ++ w.flat v.slices) (by rw [absCells_of_noPending hinv hnp]; simp) r _ a2
  refine ⟨r, v', a1, b1, b2, List.IsPrefix.trans b13 ?_⟩
  rw [ainputOf_append]
  exact (List.prefix_append_right_inj _).mpr (done_prefix_encode p hp _ _)

theorem takeWhile_append_of_any (A Y : List Cell) (h : A.any (fun c => !c.isByte) = true) :
    (A ++ Y).takeWhile Cell.isByte = A.takeWhile Cell.isByte := by
  induction A with
  | nil => simp at h
  | cons c t ih =>
    cases c with
    | byte b =>
      simp only [List.any_cons, Cell.isByte, Bool.not_true, Bool.false_or] at h
      simp [List.takeWhile_cons, Cell.isByte, ih h]
    | hole j => simp [Cell.isByte]

theorem prefix_of_cells_eq (M G : List UInt8) (R A Y : List Cell) (hany : A.any (fun c => !c.isByte) = true)
    (h : M.map Cell.byte ++ R = G.map Cell.byte ++ (A ++ Y)) : M <+: G ++ cellBytes (A.takeWhile Cell.isByte) := by
  have h1 := Pipe.stable_of_cells ⟨M.map Cell.byte ++ R, [], 0⟩ M R rfl
  have h2 := Pipe.stable_of_cells ⟨M.map Cell.byte ++ R, [], 0⟩ G (A ++ Y) h
  rw [takeWhile_append_of_any _ _ hany] at h2
  rw [h2] at h1
  exact ⟨_, h1.symm⟩

/-- With a caller placeholder pending at the hand-over, everything the encoder produces stays hidden behind
it: at any moment drained ++ the stable prefix is a prefix of the bytes that precede the caller's first
pending placeholder (C04: the lag is unbounded by design). -/
theorem enc_hidden_behind_caller (p : Params) (hp : p.Valid) (i : Nat) (w : World) (v : Iov) (g : List UInt8)
    (ct : List Backref) (Q0 : Pipe) (hv : w.iov i = some v) (h0 : SimV w v g ct Q0) (hpend : v.hasPending = true)
    (calls : List ACall) :
    ∃ r v', encPrefixFrom p w i g calls = some r ∧ r.w.iov i = some v' ∧ IovInv r.w v' ∧ v'.hasPending = true ∧
      r.drained ++ r.w.visible v' <+: g ++ cellBytes ((absCells w v).takeWhile Cell.isByte) := by
  obtain ⟨r, a1, a2⟩ := encPrefixFrom_inv p hp i w v g ct Q0 hv h0 calls
  obtain ⟨v', q', hv', ⟨Q, hs, hl⟩, _⟩ := a2
  have hcells := simP_cells h0 hs hl
  have hany : (absCells w v).any (fun c => !c.isByte) = true := by rw [← hasPending_eq_pending h0.inv]; exact hpend
  have hvis := absCells_visible hs.inv
  have hpre : r.drained ++ r.w.visible v' <+: g ++ cellBytes ((absCells w v).takeWhile Cell.isByte) := by
    rw [hvis, ← List.append_assoc, ← List.map_append, List.append_assoc (g.map Cell.byte)] at hcells
    exact prefix_of_cells_eq _ _ _ _ _ hany hcells
  refine ⟨r, v', a1, hv', hs.inv, ?_, hpre⟩
  -- the caller's placeholder is still there
  rw [hasPending_eq_pending hs.inv]
  have : ((r.drained.map Cell.byte ++ absCells r.w v').any fun c => !c.isByte) = true := by
    rw [simP_cells h0 hs hl]
    simp only [List.any_append, hany, Bool.or_true, Bool.true_or]
  rw [List.any_append, Woodpile.Pipe.any_hole_map_byte, Bool.false_or] at this
  exact this

/-- In-capacity along a run from a pre-filled iovec: if the iovec handed over satisfies the capacity
invariant (`CapW`: what every caller call with requests of at most `B` bytes preserves —
`pushCopy_cap`, `registerPatch_cap`, `backfill_cap`, `push_cap`, `consume_cap`, … of `Proofs/EncWorldCap`),
every owned slice of the encoder's iovec ends within `S` bytes of the start of its chunk. -/
theorem encPrefixFrom_cap {T : Tuning} {B S : Nat} (hH : Hint T B S) (hB2 : 2 ≤ B) (p : Params)
    (hinit : p.maxInit ≤ B) (hsub : p.maxSub ≤ B) (w : World) (i : Nat) (g : List UInt8) (calls : List ACall)
    (hc : ReadsLe B calls) (hw : CapW T S i w) (r : Run) (h : encPrefixFrom p w i g calls = some r) :
    ∀ v, r.w.iov i = some v → ∀ s ∈ v.slices, ∀ c, s.region = .chunk c → s.off + s.len ≤ S := by
  simp only [encPrefixFrom] at h
  cases h0 : encInit p w i with
  | none => rw [h0] at h; cases h
  | some x =>
    obtain ⟨w1, e1⟩ := x
    rw [h0] at h
    simp only at h
    obtain ⟨hw1, hm1⟩ := encInit_cap hH hB2 p hinit hw h0
    obtain ⟨_, v', hv', hcap⟩ := encCallsA_cap hH hB2 p hsub i calls ⟨w1, e1, g⟩ r hc hw1 hm1 h
    intro v hv
    rw [hv'] at hv; cases hv
    exact hcap.slices

/-! ### The caller's tokens survive the run: filling a placeholder after `finish` -/

/-- `Encoder::finish` on a run from a pre-filled iovec, with the coupling kept (as `encFinish_simP`). -/
theorem encFinish_simP' (p : Params) (hp : p.Valid) (i : Nat) (ct : List Backref) (pre : List Cell)
    (r : Run) (input : List UInt8) (h : RunInvP p i ct pre r input) :
    ∃ w' v' T Q, encFinish p r.w i r.e = some w' ∧ w'.iov i = some v' ∧ SimV w' v' r.drained (ct ++ T) Q ∧
      Q.total.cells = pre ++ (Spec.encode p input).map Cell.byte := by
  obtain ⟨v1, q', hv1, hsim, hrel⟩ := h
  obtain ⟨h1, _⟩ := fold_init_inv p hp input
  obtain ⟨w', v', t', k1, k2, ⟨Q, hs, hl⟩, _⟩ := applyStep_simP i r.drained ⟨.ext 0, 0, 0⟩ (Enc.finish p r.e.st)
    r.w v1 ct r.e.toks pre q' hv1 hsim (finish_opsOk p hrel q' (rel_total hrel))
    (fun e he hb => (finish_no_borrow p _ e he hb).elim)
  have hfin := finish_sim p hp r.e.st r.e.nid q' _ hrel h1
  rw [fold_finish_encode p hp input] at hfin
  unfold runE at hfin
  refine ⟨w', v', t', Q, by simp only [encFinish, k1]; rfl, k2, hs, ?_⟩
  rw [hl.cells, hfin]
  simp only [rename_map_byte]

/-- The caller's token number `k` — a placeholder still pending at the hand-over — is still a pending backref
of the iovec `finish` hands back, with the SAME key and geometry (the encoder's merges and the consumer's
drains never touch a slice that holds a pending placeholder from the right), so the caller's
`backfill_or_panic(token, src)` does not panic, and it fills exactly that placeholder in the abstraction. -/
theorem encRunFrom_post_fill (p : Params) (hp : p.Valid) (i : Nat) (w : World) (v : Iov) (g : List UInt8)
    (ct : List Backref) (Q0 : Pipe) (hv : w.iov i = some v) (h0 : SimV w v g ct Q0) (calls : List ACall)
    (k : Nat) (e : Nat × BackrefInfo) (src : List UInt8) (hk : ct[k]? = some (some e)) (hpend : Cell.hole k ∈ Q0.cells)
    (hlen : e.2.len = src.length) :
    ∃ w' dr v' w'' v'', encRunFrom p w i g calls = some (w', dr) ∧ w'.iov i = some v' ∧ e ∈ v'.backrefs ∧
      w'.backfill i (some e) src = some w'' ∧ w''.iov i = some v'' ∧ IovInv w'' v'' ∧
      dr.map Cell.byte ++ absCells w'' v'' =
        fillCells e.1 (g.map Cell.byte ++ absCells w v ++ (Spec.encode p (ainputOf calls)).map Cell.byte) src := by
  obtain ⟨r, a1, a2⟩ := encPrefixFrom_inv p hp i w v g ct Q0 hv h0 calls
  obtain ⟨w', v', T, Q, b1, b2, hs, hq⟩ := encFinish_simP' p hp i ct _ r _ a2
  have hklt : k < ct.length := by
    rcases Nat.lt_or_ge k ct.length with h1 | h1
    · exact h1
    · rw [List.getElem?_eq_none h1] at hk; cases hk
  have hmQ : Cell.hole k ∈ Q.cells := by
    have : Cell.hole k ∈ Q.total.cells := by
      rw [hq]; simp only [List.mem_append, Woodpile.Pipe.Pipe.total]; exact Or.inl (Or.inr hpend)
    simp only [Woodpile.Pipe.Pipe.total, List.mem_append] at this
    rcases this with h1 | h1
    · exact absurd h1 (mem_hole_map_byte _ _)
    · exact h1
  obtain ⟨e', he1, he2, he3, _⟩ := hs.token k hmQ
  rw [List.getElem?_append_left hklt, hk] at he1
  simp only [Option.some.injEq] at he1
  subst he1
  obtain ⟨w'', v'', c1, c2, c3, c4, _⟩ := World.backfill_spec w' i v' e src b2 hs.inv he2 hlen
  refine ⟨w', r.drained, v', w'', v'', by simp only [encRunFrom, a1, b1, Option.map_some], b2, he2, c1, c2, c3, ?_⟩
  have hcells : r.drained.map Cell.byte ++ absCells w' v' =
      g.map Cell.byte ++ absCells w v ++ (Spec.encode p (ainputOf calls)).map Cell.byte := by
    rw [hs.total_cells, hq, List.map_append, prefix_cells h0]
    simp only [rename_map_byte]
  rw [c4, ← hcells, fillCells_map_byte_append]

/-! ### What a caller can build: every pre-fill script keeps the coupling invariant -/

/-- `push_borrowed` of a slice of a caller buffer known to the world. -/
theorem World.pushBorrowedAt_total (w : World) (i : Nat) (v : Iov) (s : Slice) (bs : List UInt8)
    (hv : w.iov i = some v) (hinv : IovInv w v) (hl : LentOk w s bs) :
    ∃ w' v', w.pushBorrowed i s = some w' ∧ w'.iov i = some v' ∧ Pushed w w' v v' bs ∧ w'.exts = w.exts := by
  by_cases hb : bs = []
  · subst hb
    have h0 : s.len = 0 := by rw [hl.len]; rfl
    refine ⟨w, v, ?_, hv, Pushed.refl hinv, rfl⟩
    unfold World.pushBorrowed
    rw [hv]; simp [h0]
  · obtain ⟨v1, g1, g2, g3, g4, _, g6, g7, g8, g9, g10⟩ :=
      World.pushBorrowed_spec w i v s hv hinv (hl.ok hb _) hl.ext
    rw [hl.bytes] at g3 g8
    refine ⟨_, v1, g1, by simp, ?_, rfl⟩
    exact Pushed.setIov
      { inv := g2, cells := g3, flat := g8, backrefs := g4, consumedSize := g6,
        consumedSlices := g9, logicalSize := by rw [g7, hl.len]
        visible := visible_push bs hinv g4 g9 g8 (fun _ _ => rfl) g10
        pol := rfl, tun := rfl } i _

/-- A pending backref has a cell in the abstraction. -/
theorem hole_mem_of_backref {w : World} {v : Iov} (h : IovInv w v) {e : Nat × BackrefInfo} (he : e ∈ v.backrefs) :
    Cell.hole e.1 ∈ absCells w v := by
  have hb := h.br_ok e he
  have hsz := h.size_eq
  have hkl := hb.key_le hsz
  have hsg := hb.start_ge
  have hlp := hb.len_pos
  have hlen : (absCells w v).length = sumLens v.slices := by
    unfold absCells; rw [mkCells_length, h.flat_length]
  have hj : e.1 - 1 - v.consumedSize < (absCells w v).length := by omega
  have hr : InRange e (v.consumedSize + (e.1 - 1 - v.consumedSize)) := by unfold InRange; omega
  exact List.mem_of_getElem? (absCells_hole_of_inRange h he hj hr)

/-- The documented precondition of `backfill_or_panic`, on the structural state: the token is a still pending
backref of the iovec and the source has its size.  On the pipe: the placeholder is pending with that many
cells. -/
theorem SimV.opOk_fill {w : World} {v : Iov} {g : List UInt8} {toks : List Backref} {q : Pipe}
    (h : SimV w v g toks q) (k : Nat) (e : Nat × BackrefInfo) (bs : List UInt8)
    (hk : toks[k]? = some (some e)) (he : e ∈ v.backrefs) (hlen : e.2.len = bs.length) : OpOk q (.fill k bs) := by
  have hmem := hole_mem_of_backref h.inv he
  rw [h.cells] at hmem
  obtain ⟨c, hc, hce⟩ := List.mem_map.mp hmem
  have hklt : k < toks.length := by
    rcases Nat.lt_or_ge k toks.length with h1 | h1
    · exact h1
    · rw [List.getElem?_eq_none h1] at hk; cases hk
  have hkk : tokKey toks k = e.1 := by
    unfold tokKey; simp [List.getD_eq_getElem?_getD, hk, bkey]
  cases c with
  | byte b => simp at hce
  | hole j =>
    simp only [renameCell_hole, Cell.hole.injEq] at hce
    have hj := h.holes_lt j hc
    have : j = k := tokKey_inj h.tk_sorted hj hklt (by rw [hce, hkk])
    subst this
    have hcount := h.tk_len j e hk hc
    have hpos := (h.inv.br_ok e he).len_pos
    exact ⟨by omega, by rw [← hcount, hlen]⟩

/-- One caller call is admissible where it is made: `register_patch` of a non-empty pattern; `backfill_or_panic`
of a token that is still pending, with a source of its size (its documented precondition). -/
def PreOk (i : Nat) (s : PreSt) : PreOp → Prop
  | .register n => 1 ≤ n
  | .fill k bs => ∃ e v, s.toks[k]? = some (some e) ∧ s.w.iov i = some v ∧ e ∈ v.backrefs ∧ e.2.len = bs.length
  | _ => True

/-- … every call of a script is. -/
def PreRunOk (i : Nat) : PreSt → List PreOp → Prop
  | _, [] => True
  | s, op :: t => PreOk i s op ∧ ∀ s', preStep i s op = some s' → PreRunOk i s' t

theorem preStep_sim (i : Nat) (s : PreSt) (v : Iov) (Q : Pipe) (op : PreOp) (hv : s.w.iov i = some v)
    (h : SimV s.w v s.drained s.toks Q) (hok : PreOk i s op) :
    ∃ s' v' Q', preStep i s op = some s' ∧ s'.w.iov i = some v' ∧ SimV s'.w v' s'.drained s'.toks Q' := by
  obtain ⟨w, toks, dr⟩ := s
  simp only at hv h
  cases op with
  | push bs =>
    obtain ⟨w', v', h1, h2, h3, _⟩ := World.pushAt_total (w.addExt bs).1 i v ⟨.ext w.exts.length, 0, bs.length⟩ bs hv
      (h.addExt bs).inv (InBuf.addExt w bs).lentOk
    refine ⟨⟨w', toks, dr⟩, v', _, ?_, h2, (h.addExt bs).append h3⟩
    show ((w.addExt bs).1.push i ⟨.ext (w.addExt bs).2, 0, bs.length⟩).map _ = _
    rw [show (w.addExt bs).2 = w.exts.length from rfl, h1]; rfl
  | pushBorrowed bs =>
    obtain ⟨w', v', h1, h2, h3, _⟩ := World.pushBorrowedAt_total (w.addExt bs).1 i v ⟨.ext w.exts.length, 0, bs.length⟩ bs hv
      (h.addExt bs).inv (InBuf.addExt w bs).lentOk
    refine ⟨⟨w', toks, dr⟩, v', _, ?_, h2, (h.addExt bs).append h3⟩
    show ((w.addExt bs).1.pushBorrowed i ⟨.ext (w.addExt bs).2, 0, bs.length⟩).map _ = _
    rw [show (w.addExt bs).2 = w.exts.length from rfl, h1]; rfl
  | pushCopy bs =>
    obtain ⟨w', v', h1, h2, h3, _⟩ := World.pushCopy_total w i v bs hv h.inv
    exact ⟨⟨w', toks, dr⟩, v', _, by simp [preStep, h1], h2, h.append h3⟩
  | register n =>
    obtain ⟨w', v', b, h1, h2, h3, _⟩ := h.register i hv n hok
    exact ⟨⟨w', toks ++ [b], dr⟩, v', _, by simp [preStep, h1], h2, h3⟩
  | fill k bs =>
    obtain ⟨e, v0, hk, hv0, he, hlen⟩ := hok
    simp only at hk hv0
    rw [hv] at hv0; cases hv0
    obtain ⟨w', v', b, h0, h1, h2, h3, _⟩ := h.fill i hv k bs (h.opOk_fill k e bs hk he hlen)
    exact ⟨⟨w', toks, dr⟩, v', _, by simp [preStep, h0, h1], h2, h3⟩
  | consume k =>
    obtain ⟨v', h1, h2, _⟩ := World.consume_spec w i v k hv h.inv
    have hm : sumLens (v.slices.take (min k v.stableN)) ≤ sumLens (v.slices.take v.stableN) :=
      sumLens_take_mono _ (Nat.min_le_right _ _)
    obtain ⟨g1, _, _⟩ := h.consumed h2 hm
    rw [flat_take_prefix w v.arena v.slices _ h.inv.slices_ok] at g1
    exact ⟨⟨w.setIov i (some v'), toks, dr ++ w.flat (v.slices.take (min k v.stableN))⟩, v', _,
      by simp [preStep, hv, h1, World.flat], by simp, g1.setIov i _⟩
  | advance k =>
    obtain ⟨v', h1, h2⟩ := World.advance_spec w i v k hv h.inv
    obtain ⟨g1, _, _⟩ := h.consumed h2 (Nat.min_le_right _ _)
    exact ⟨⟨w.setIov i (some v'), toks, dr ++ (w.flat v.slices).take (min k (sumLens (v.slices.take v.stableN)))⟩, v', _,
      by simp [preStep, hv, h1, World.flat], by simp, g1.setIov i _⟩

/-- Every iovec a caller builds with a script of admissible calls is an admissible hand-over: the script does
not panic and the result represents a pipe with the caller's tokens. -/
theorem preRun_sim (i : Nat) (ops : List PreOp) :
    ∀ (s : PreSt) (v : Iov) (Q : Pipe), s.w.iov i = some v → SimV s.w v s.drained s.toks Q → PreRunOk i s ops →
    ∃ s' v' Q', preRun i s ops = some s' ∧ s'.w.iov i = some v' ∧ SimV s'.w v' s'.drained s'.toks Q' := by
  induction ops with
  | nil => intro s v Q hv h _; exact ⟨s, v, Q, rfl, hv, h⟩
  | cons op t ih =>
    intro s v Q hv h hok
    obtain ⟨s1, v1, Q1, a1, a2, a3⟩ := preStep_sim i s v Q op hv h hok.1
    obtain ⟨s2, v2, Q2, b1, b2, b3⟩ := ih s1 v1 Q1 a2 a3 (hok.2 s1 a1)
    exact ⟨s2, v2, Q2, by simp only [preRun, a1]; exact b1, b2, b3⟩

/-- … in particular from a fresh iovec (`OwningIovec::new()`), as the driver's `enc_from2` / `dec_from2` do. -/
theorem prescript_sim (pol : Policy) (tun : Tuning) (ops : List PreOp)
    (hok : PreRunOk 0 ⟨World.fresh pol tun, [], []⟩ ops) :
    ∃ s v Q, preRun 0 ⟨World.fresh pol tun, [], []⟩ ops = some s ∧ s.w.iov 0 = some v ∧
      SimV s.w v s.drained s.toks Q :=
  preRun_sim 0 ops ⟨World.fresh pol tun, [], []⟩ Iov.empty Woodpile.Pipe.empty rfl (simV_fresh pol tun) hok

end Woodpile.EncWorld

/-
Helper lemmas for C14: the window arithmetic of `check_vouched_time`.
-/
import Woodpile.Model.VouchedTime
import Woodpile.Proofs.Raffle

namespace Woodpile.VouchedTime
open Woodpile.Raffle

theorem toNat_ofNat_toNat (m : Int) (h0 : 0 ≤ m) (h1 : m ≤ u64Max) :
    ((UInt64.ofNat m.toNat).toNat : Int) = m := by
  have : m.toNat < 2 ^ 64 := by unfold u64Max at h1; omega
  rw [UInt64.toNat_ofNat', Nat.mod_eq_of_lt this]
  omega

/-- `check_vouched_time` accepts exactly the non-negative millisecond counts
that fit in a `u64` and lie in the signed window around the base time. -/
theorem checkVouchedTime_ok_iff (c : Cfg) (ms : Int) (base : UInt64) :
    checkVouchedTime c ms base = .ok ↔
      0 ≤ ms ∧ ms ≤ u64Max ∧ -(c.backMs : Int) ≤ ms - (base.toNat : Int) ∧ ms - (base.toNat : Int) ≤ (c.fwdMs : Int) := by
  unfold checkVouchedTime
  by_cases h0 : ms < 0
  · simp [h0]; omega
  by_cases h1 : ms > u64Max
  · simp [h0, h1]; omega
  have hcast := toNat_ofNat_toNat ms (by omega) (by omega)
  simp only [h0, h1, if_false, hcast]
  split
  · rename_i h; simp; omega
  · rename_i h
    constructor
    · intro h'; split at h' <;> cases h'
    · intro h'; exact absurd ⟨h'.2.2.1, h'.2.2.2⟩ h

theorem localMs_nonneg_iff (ns : Int) : 0 ≤ localMs ns ↔ 0 ≤ ns := by
  unfold localMs
  show 0 ≤ ns / 1000000 ↔ 0 ≤ ns
  omega

theorem localMs_le_u64Max (ns : Int) (h : InRange ns) : localMs ns ≤ u64Max := by
  unfold InRange maxLocalNs at h
  unfold localMs u64Max
  show ns / 1000000 ≤ _
  omega

theorem check_ok_iff (c : Cfg) (ns : Int) (base v : UInt64) :
    check c ns base v = .ok ↔
      Raffle.check c.params base v = true ∧ checkVouchedTime c (localMs ns) base = .ok := by
  unfold check
  cases Raffle.check c.params base v <;> simp

end Woodpile.VouchedTime

namespace Woodpile.VouchedTime
open Woodpile.Raffle

/-- `new` never reaches the `expect` in `check_or_die`: it re-runs the very
check that just succeeded, on the same three values. -/
theorem new_eq (c : Cfg) (ns : Int) (base v : UInt64) :
    new c ns base v = match check c ns base v with
      | .ok => .ok ⟨ns, base, v⟩
      | .err e => .err e := by
  unfold new checkOrDie
  cases h : check c ns base v <;> simp [h]

theorem new_ok_iff_check (c : Cfg) (ns : Int) (base v : UInt64) (vt : VT) :
    new c ns base v = .ok vt ↔ check c ns base v = .ok ∧ vt = ⟨ns, base, v⟩ := by
  rw [new_eq]
  cases h : check c ns base v <;> simp [eq_comm]

/-- General form of C14's acceptance rule, for any configuration and any local
time whose millisecond count fits in a `u64`. -/
theorem new_ok_iff_general (c : Cfg) (ns : Int) (hfit : localMs ns ≤ u64Max) (base v : UInt64) :
    (∃ vt, new c ns base v = .ok vt) ↔
      Raffle.check c.params base v = true ∧ 0 ≤ ns ∧
      -(c.backMs : Int) ≤ localMs ns - (base.toNat : Int) ∧ localMs ns - (base.toNat : Int) ≤ (c.fwdMs : Int) := by
  constructor
  · rintro ⟨vt, h⟩
    rw [new_ok_iff_check, check_ok_iff, checkVouchedTime_ok_iff, localMs_nonneg_iff] at h
    exact ⟨h.1.1, h.1.2.1, h.1.2.2.2.1, h.1.2.2.2.2⟩
  · rintro ⟨h1, h2, h3, h4⟩
    refine ⟨⟨ns, base, v⟩, ?_⟩
    rw [new_ok_iff_check, check_ok_iff, checkVouchedTime_ok_iff, localMs_nonneg_iff]
    exact ⟨⟨h1, h2, hfit, h3, h4⟩, rfl⟩

end Woodpile.VouchedTime

namespace Woodpile.VouchedTime

/-- The window check never reports a bad voucher. -/
theorem checkVouchedTime_ne_badVoucher (c : Cfg) (ms : Int) (base : UInt64) :
    checkVouchedTime c ms base ≠ .err .badVoucher := by
  unfold checkVouchedTime
  by_cases h0 : ms < 0
  · simp [h0]
  by_cases h1 : ms > u64Max
  · simp [h0, h1]
  simp only [h0, h1, if_false]
  split
  · simp
  · split <;> simp

/-- `check` reports a bad voucher exactly when the raffle check fails. -/
theorem check_badVoucher_iff (c : Cfg) (ns : Int) (base v : UInt64) :
    check c ns base v = .err .badVoucher ↔ Raffle.check c.params base v = false := by
  unfold check
  cases h : Raffle.check c.params base v
  · simp
  · simpa using checkVouchedTime_ne_badVoucher c (localMs ns) base

end Woodpile.VouchedTime

/-
Layer B → Layer A, part 3: ANCHORED input in the single-iovec vocabulary (track `anch`).

The codecs' anchored input method (`Encoder::encode_anchored` / `encode_read`, `Decoder::decode_anchored` /
`decode_read`) is the composite

    let a = iovec.arena().read_n(reader, count, attempts)?;   -- `World.readN` on the iovec's own arena
    for each piece the state machine emits: iovec.push(&a.slice()[range]);   -- `World.push` of a chunk slice
    iovec.push_anchor(a.anchor)                               -- `World.pushAnchor`

Between `read_n` and `push_anchor` the caller holds an `AnchoredSlice` whose bytes live in arena memory
the iovec does not reference (yet).  `HeldOk w v h` is what is known about such a slice `h`: it lies in
an allocated chunk, below the bump pointer when that chunk is the arena's current cache, and overlaps
no slice of the iovec.  The lemmas here show

* `read_n` establishes `HeldOk` for the returned slice, whose bytes are the bytes read, keeps `IovInv`
  and leaves the abstraction alone (`World.readN_spec`);
* every producer step that does not push held memory (`push_copy`, `register_patch`, `backfill`)
  keeps `HeldOk` and the bytes of every held slice (`HeldFrame`): fresh allocations lie at or above
  the bump pointer / in a new chunk, `backfill` writes only inside a slice of the iovec;
* `push` of a held slice (copied when small, borrowed otherwise — then possibly merged by `optimize`
  with the previous slice) appends exactly its bytes, keeps `IovInv`, and keeps `HeldOk` and the bytes
  of every held slice disjoint from the pushed one (`World.pushHeld_total`);
* `push_anchor` keeps `IovInv` and the abstraction (`World.pushAnchor_spec`).
-/
import Woodpile.Proofs.IovecAbs
import Woodpile.Props.C17

namespace Woodpile.Iovec
open Woodpile.Arena
open Woodpile.Pipe (Cell Pipe cellBytes fillCells)

/-! ### Held arena slices -/

/-- `x` does not overlap the (possibly empty) slice `y`. -/
def Slice.Disj (x y : Slice) : Prop :=
  ∀ c, x.region = .chunk c → y.region = .chunk c → y.len = 0 ∨ x.off + x.len ≤ y.off ∨ y.off + y.len ≤ x.off

/-- The placement facts about a slice `h` of arena memory relative to arena `a` in a world whose next
fresh chunk ordinal is `next`: allocated chunk, below the bump pointer of the current cache. -/
def Placed (next : Nat) (a : Arena) (h : Slice) : Prop :=
  ∀ c, h.region = .chunk c → c < next ∧ ∀ ca, a.cache = some ca → ca.chunk = c → h.off + h.len ≤ ca.bump

/-- An arena slice the caller holds (from `read_n` on the iovec's own arena) and the iovec does not
reference. -/
structure HeldOk (w : World) (v : Iov) (h : Slice) : Prop where
  reg : ∃ c, h.region = .chunk c
  placed : Placed w.next v.arena h
  disj : ∀ x ∈ v.slices, x.Disj h

/-- A step keeps every held slice valid and its bytes unchanged. -/
def HeldFrame (w w' : World) (v v' : Iov) : Prop :=
  ∀ h, HeldOk w v h → HeldOk w' v' h ∧ w'.sliceBytes h = w.sliceBytes h

theorem HeldFrame.refl (w : World) (v : Iov) : HeldFrame w w v v := fun _ hh => ⟨hh, rfl⟩

theorem HeldFrame.trans {w w' w'' : World} {v v' v'' : Iov} (h1 : HeldFrame w w' v v')
    (h2 : HeldFrame w' w'' v' v'') : HeldFrame w w'' v v'' := by
  intro h hh
  obtain ⟨a1, a2⟩ := h1 h hh
  obtain ⟨b1, b2⟩ := h2 h a1
  exact ⟨b1, b2.trans a2⟩

/-- A sub-slice of a held slice is held. -/
theorem HeldOk.sub {w : World} {v : Iov} {h : Slice} (hh : HeldOk w v h) (h' : Slice)
    (hr : h'.region = h.region) (h1 : h.off ≤ h'.off) (h2 : h'.off + h'.len ≤ h.off + h.len) :
    HeldOk w v h' := by
  refine ⟨by rw [hr]; exact hh.reg, ?_, ?_⟩
  · intro c hc
    rw [hr] at hc
    obtain ⟨a, b⟩ := hh.placed c hc
    exact ⟨a, fun ca hca hcc => by have := b ca hca hcc; omega⟩
  · intro x hx c hxc hc
    rw [hr] at hc
    have := hh.disj x hx c hxc hc
    omega

theorem HeldOk.setIov {w : World} {v : Iov} {h : Slice} (hh : HeldOk w v h) (i : Nat) (o : Option Iov) :
    HeldOk (w.setIov i o) v h := ⟨hh.reg, hh.placed, hh.disj⟩

theorem HeldOk.sliceOk {w : World} {v : Iov} {h : Slice} (hh : HeldOk w v h) (hpos : 0 < h.len) :
    SliceOk w v.arena h := by
  refine ⟨hpos, ?_, hh.placed⟩
  intro b hb
  obtain ⟨c, hc⟩ := hh.reg
  rw [hc] at hb; cases hb

/-! ### Allocation vs. placed slices -/

/-- A placed slice lies below whatever `alloc` hands out, and stays placed. -/
theorem alloc_placed (t : Tuning) (a : Arena) (next len : Nat) (h : Slice) (hp : Placed next a h) :
    (∀ c, h.region = .chunk c → c = (alloc t a next len).2.2.1 → h.off + h.len ≤ (alloc t a next len).2.2.2) ∧
    Placed (alloc t a next len).2.1 (alloc t a next len).1 h := by
  rcases alloc_cases t a next len with ⟨c0, hc0, _, he⟩ | ⟨cap, he⟩
  · rw [he]
    refine ⟨?_, ?_⟩
    · intro c hc hcc
      exact (hp c hc).2 c0 hc0 hcc.symm
    · intro c hc
      refine ⟨(hp c hc).1, ?_⟩
      intro ca hca hcc
      simp only [Option.some.injEq] at hca
      subst hca
      have := (hp c hc).2 c0 hc0 hcc
      simp only; omega
  · rw [he]
    refine ⟨?_, ?_⟩
    · intro c hc hcc
      have := (hp c hc).1
      simp only at hcc
      omega
    · intro c hc
      refine ⟨Nat.lt_succ_of_lt (hp c hc).1, ?_⟩
      intro ca hca hcc
      simp only [Option.some.injEq] at hca
      subst hca
      have := (hp c hc).1
      simp only at hcc
      omega

/-! ### `optimize` and disjointness -/

theorem optimize_disj (v v' : Iov) (h : v.optimize = some v') (x : Slice) (hpos : 0 < x.len)
    (hd : ∀ y ∈ v.slices, y.Disj x) : ∀ y ∈ v'.slices, y.Disj x := by
  rcases optimize_cases v v' h with rfl | ⟨pre, l, r, anc, a, ca, hsl, _, _, _, hl, hr, hadj, rfl⟩
  · exact hd
  · intro y hy
    simp only [List.mem_append, List.mem_singleton] at hy
    rcases hy with hy | rfl
    · exact hd y (by rw [hsl]; simp [hy])
    · intro c hc hxc
      simp only [Region.chunk.injEq] at hc
      subst hc
      have h1 := hd l (by rw [hsl]; simp) _ hl hxc
      have h2 := hd r (by rw [hsl]; simp) _ hr hxc
      simp only
      omega

theorem optimize_arena (v v' : Iov) (h : v.optimize = some v') : v'.arena = v.arena := by
  rcases optimize_cases v v' h with rfl | ⟨pre, l, r, anc, a, ca, _, _, _, _, _, _, _, rfl⟩ <;> rfl

/-! ### `push_copy` -/

/-- What a successful `push_copy` of a non-empty source does, in terms of `alloc` and `optimize`. -/
theorem World.pushCopy_shape (w w' : World) (i : Nat) (v : Iov) (src : List UInt8) (hv : w.iov i = some v)
    (hne : src ≠ []) (h : w.pushCopy i src = some w') :
    ∃ v', w'.iov i = some v' ∧
      Iov.optimize { v with
        slices := v.slices ++ [⟨.chunk (alloc w.tun v.arena w.next src.length).2.2.1,
                                (alloc w.tun v.arena w.next src.length).2.2.2, src.length⟩],
        anchors := pcAnchors v.anchors (alloc w.tun v.arena w.next src.length).2.2.1,
        logicalSize := v.logicalSize + src.length,
        arena := (alloc w.tun v.arena w.next src.length).1 } = some v' ∧
      w'.heap = w.heap.write (alloc w.tun v.arena w.next src.length).2.2.1
                  (alloc w.tun v.arena w.next src.length).2.2.2 src ∧
      w'.next = (alloc w.tun v.arena w.next src.length).2.1 ∧ w'.exts = w.exts := by
  rw [pushCopy_eq w i v src hv hne] at h
  split at h
  · cases h
  · split at h
    · cases h
    · rename_i v'' hopt
      cases h
      exact ⟨v'', World.iov_setIov w i (some v''), hopt, rfl, rfl, rfl⟩

/-- `push_copy` leaves held slices alone: the allocation is at or above the bump pointer, or in a
fresh chunk. -/
theorem World.pushCopy_heldFrame (w w' : World) (i : Nat) (v v' : Iov) (src : List UInt8)
    (hv : w.iov i = some v) (h : w.pushCopy i src = some w') (hv' : w'.iov i = some v') :
    HeldFrame w w' v v' := by
  by_cases hne : src = []
  · subst hne
    have : w.pushCopy i [] = some w := by unfold World.pushCopy; rw [hv]; rfl
    rw [this] at h; cases h
    rw [hv] at hv'; cases hv'
    exact HeldFrame.refl _ _
  · obtain ⟨v2, hv2, hopt, hheap, hnext, hexts⟩ := World.pushCopy_shape w w' i v src hv hne h
    rw [hv2] at hv'; cases hv'
    intro x hx
    obtain ⟨habove, hpl⟩ := alloc_placed w.tun v.arena w.next src.length x hx.placed
    obtain ⟨cx, hcx⟩ := hx.reg
    have hlen : 0 < src.length := List.length_pos_iff.mpr hne
    refine ⟨⟨hx.reg, ?_, ?_⟩, ?_⟩
    · rw [hnext, optimize_arena _ _ hopt]; exact hpl
    · by_cases hxl : x.len = 0
      · intro y _ c _ _; exact Or.inl hxl
      · apply optimize_disj _ _ hopt x (by omega)
        intro y hy
        simp only [List.mem_append, List.mem_singleton] at hy
        rcases hy with hy | rfl
        · exact hx.disj y hy
        · intro c hyc hxc
          simp only [Region.chunk.injEq] at hyc
          subst hyc
          right; right; exact habove _ hxc rfl
    · apply sliceBytes_write_disjoint w w' _ _ src x hheap hexts
      intro c hc
      by_cases hcc : c = (alloc w.tun v.arena w.next src.length).2.2.1
      · right; left; exact habove c hc hcc
      · left; exact hcc

/-! ### `register_patch`, `backfill` -/

theorem World.registerPatch_heldFrame (w w' : World) (i : Nat) (v v' : Iov) (pat : List UInt8) (b : Backref)
    (hv : w.iov i = some v) (h : w.registerPatch i pat = some (w', b)) (hv' : w'.iov i = some v') :
    HeldFrame w w' v v' := by
  unfold World.registerPatch at h
  split at h
  · cases h
    rw [hv] at hv'; cases hv'
    exact HeldFrame.refl _ _
  · split at h
    · cases h
    · rename_i w1 hw1
      split at h
      · cases h
      · rename_i v1 hv1
        split at h
        · cases h
        · rename_i last hlast
          have hf := World.pushCopy_heldFrame w w1 i v v1 pat hv hw1 hv1
          have main : ∀ X : List (Nat × BackrefInfo), w' = w1.setIov i (some { v1 with backrefs := X }) →
              HeldFrame w w' v v' := by
            intro X hw'
            subst hw'
            rw [World.iov_setIov] at hv'
            cases hv'
            intro x hx
            obtain ⟨a1, a2⟩ := hf x hx
            exact ⟨⟨a1.reg, a1.placed, a1.disj⟩, a2⟩
          split at h <;> (simp only [] at h; split at h <;> first | (cases h; exact main _ rfl) | cases h)

/-- `backfill` writes inside a slice of the iovec, which no held slice overlaps. -/
theorem World.backfill_heldFrame (w w' : World) (i : Nat) (v v' : Iov) (tok : Backref) (src : List UInt8)
    (hv : w.iov i = some v) (h : w.backfill i tok src = some w') (hv' : w'.iov i = some v') :
    HeldFrame w w' v v' := by
  unfold World.backfill at h
  rw [hv] at h
  simp only at h
  split at h
  · split at h
    · cases h
      rw [hv] at hv'; cases hv'
      exact HeldFrame.refl _ _
    · cases h
  · rename_i key info
    split at h
    · cases h
    · split at h
      · cases h
      · split at h
        · cases h
        · split at h
          · cases h
          · split at h
            · cases h
            · rename_i target htarget
              split at h
              · cases h
              · rename_i hle
                split at h
                · rename_i k hk
                  cases h
                  have e : (World.iov { (w.setIov i (some { v with backrefs := v.backrefs.filter (·.1 ≠ key) })) with
                      heap := w.heap.write k (target.off + info.begin) src } i) =
                      some { v with backrefs := v.backrefs.filter (·.1 ≠ key) } :=
                    World.iov_setIov w i _
                  rw [e] at hv'
                  cases hv'
                  intro x hx
                  refine ⟨⟨hx.reg, hx.placed, hx.disj⟩, ?_⟩
                  by_cases hxl : x.len = 0
                  · obtain ⟨cx, hcx⟩ := hx.reg
                    simp [World.sliceBytes, Heap.read, hxl, hcx]
                  refine sliceBytes_write_disjoint w _ k (target.off + info.begin) src x ?_ ?_ ?_
                  · rfl
                  · rfl
                  intro c hc
                  by_cases hck : c = k
                  · right
                    have hmem : target ∈ v.slices := List.mem_of_getElem? htarget
                    have := hx.disj target hmem c (by rw [hk, hck]) hc
                    omega
                  · left; exact hck
                · cases h

/-! ### `push` of held arena memory -/

theorem sliceBytes_chunk_length (w : World) (s : Slice) (h : ∃ c, s.region = .chunk c) :
    (w.sliceBytes s).length = s.len := by
  obtain ⟨c, hc⟩ := h
  simp [World.sliceBytes, hc]

/-- `OwningIovec::push` of a slice of arena memory the caller holds and the iovec does not reference
yet: copied or borrowed (and then possibly merged into the previous slice), exactly its bytes are
appended; every held slice that does not overlap it stays held, with its bytes. -/
theorem World.pushHeld_total (w : World) (i : Nat) (v : Iov) (p : Slice) (bs : List UInt8)
    (hv : w.iov i = some v) (hinv : IovInv w v) (hp : HeldOk w v p) (hb : w.sliceBytes p = bs) :
    ∃ w' v', w.push i p = some w' ∧ w'.iov i = some v' ∧ Pushed w w' v v' bs ∧ w'.exts = w.exts ∧
      ∀ h, HeldOk w v h → p.Disj h → HeldOk w' v' h ∧ w'.sliceBytes h = w.sliceBytes h := by
  have hlen : bs.length = p.len := by rw [← hb]; exact sliceBytes_chunk_length w p hp.reg
  rcases World.push_eq w i v p hv with h | h
  · rw [h, hb]
    obtain ⟨w', v', h1, h2, h3, h4⟩ := World.pushCopy_total w i v bs hv hinv
    exact ⟨w', v', h1, h2, h3, h4, fun x hx _ => World.pushCopy_heldFrame w w' i v v' bs hv h1 h2 x hx⟩
  · rw [h]
    by_cases h0 : p.len = 0
    · have hbs : bs = [] := List.length_eq_zero_iff.mp (by omega)
      subst hbs
      refine ⟨w, v, ?_, hv, Pushed.refl hinv, rfl, fun x hx _ => ⟨hx, rfl⟩⟩
      unfold World.pushBorrowed
      rw [hv]; simp [h0]
    · obtain ⟨v1, g1, g2, g3, g4, g5, g6, g7, g8, g9, g10, gopt⟩ :=
        World.pushBorrowed_spec' w i v p hv hinv (hp.sliceOk (by omega))
          (by intro x hx c hxc hpc
              have := hp.disj x hx c hxc hpc
              omega)
      rw [hb] at g3 g8
      refine ⟨_, v1, g1, by simp, ?_, rfl, ?_⟩
      · exact Pushed.setIov
          { inv := g2, cells := g3, flat := g8, backrefs := g4, consumedSize := g6,
            consumedSlices := g9, logicalSize := by rw [g7, hlen]
            visible := visible_push bs hinv g4 g9 g8 (fun _ _ => rfl) g10
            pol := rfl, tun := rfl } i _
      · intro x hx hd
        refine ⟨⟨hx.reg, by rw [g5]; exact hx.placed, ?_⟩, sliceBytes_congr x rfl rfl⟩
        by_cases hxl : x.len = 0
        · intro y _ c _ _; exact Or.inl hxl
        · apply optimize_disj _ _ gopt x (by omega)
          intro y hy
          simp only [List.mem_append, List.mem_singleton] at hy
          rcases hy with hy | rfl
          · exact hx.disj y hy
          · exact hd

/-! ### `push_anchor` -/

/-- `push_anchor` appends a zero-count anchor: nothing the abstraction or the invariant looks at
changes. -/
theorem World.pushAnchor_spec (w : World) (i : Nat) (v : Iov) (a : Anchor) (hv : w.iov i = some v)
    (hinv : IovInv w v) :
    w.pushAnchor i a = some (w.setIov i (some { v with anchors := v.anchors ++ [{ a with count := 0 }] })) ∧
    Pushed w (w.setIov i (some { v with anchors := v.anchors ++ [{ a with count := 0 }] })) v
      { v with anchors := v.anchors ++ [{ a with count := 0 }] } [] := by
  refine ⟨by unfold World.pushAnchor; rw [hv], ?_⟩
  have hinv' : IovInv w { v with anchors := v.anchors ++ [{ a with count := 0 }] } :=
    { slices_ok := hinv.slices_ok, ordered := hinv.ordered, size_eq := hinv.size_eq
      anchors_sum := by
        have := hinv.anchors_sum
        simp only [sumCounts_append, sumCounts_cons, sumCounts_nil]
        omega
      cache_fresh := hinv.cache_fresh
      br_ok := fun e he => (hinv.br_ok e he).congr rfl rfl rfl
      br_sorted := hinv.br_sorted }
  have hp : Pushed w w v { v with anchors := v.anchors ++ [{ a with count := 0 }] } [] :=
    { inv := hinv'
      cells := by simp [absCells]
      flat := by simp
      backrefs := rfl, consumedSize := rfl, consumedSlices := rfl, logicalSize := rfl
      visible := by
        have : w.visible { v with anchors := v.anchors ++ [{ a with count := 0 }] } = w.visible v := rfl
        rw [this]; split <;> simp
      pol := rfl, tun := rfl }
  exact hp.setIov i _

/-! ### `read_n` into the iovec's own arena -/

theorem Pushed.of_frame_arena {w w' : World} {v : Iov} (a' : Arena) (hinv' : IovInv w' { v with arena := a' })
    (hf : ∀ x ∈ v.slices, w'.sliceBytes x = w.sliceBytes x) (hpol : w'.pol = w.pol) (htun : w'.tun = w.tun) :
    Pushed w w' v { v with arena := a' } [] := by
  have hflat : w'.flat v.slices = w.flat v.slices := flat_congr _ hf
  exact
    { inv := hinv'
      cells := by unfold absCells; simp only [hflat]; simp
      flat := by simp only [hflat]; simp
      backrefs := rfl, consumedSize := rfl, consumedSlices := rfl, logicalSize := rfl
      visible := by
        have e : w'.visible { v with arena := a' } = w'.flat (v.slices.take v.stableN) := rfl
        rw [e]
        unfold World.visible
        rw [flat_congr _ (fun x hx => hf x (List.mem_of_mem_take hx))]
        split <;> simp
      pol := hpol, tun := htun }

theorem release_cache (a : Arena) (n : Nat) (ca : Cache) (h : (release a n).cache = some ca) :
    ∃ c0, a.cache = some c0 ∧ ca = { c0 with bump := c0.bump - n } := by
  unfold release at h
  cases hc : a.cache with
  | none => rw [hc] at h; simp only at h; rw [hc] at h; cases h
  | some c0 =>
    rw [hc] at h
    simp only [Option.some.injEq] at h
    exact ⟨c0, rfl, h.symm⟩

/-- Two writes into the same fresh block leave every slice below it (or in another chunk) alone. -/
theorem sliceBytes_write2 (w w' : World) (k off : Nat) (b1 b2 : List UInt8) (x : Slice)
    (hheap : w'.heap = (w.heap.write k off b1).write k off b2) (hexts : w'.exts = w.exts)
    (h : ∀ c, x.region = .chunk c → c ≠ k ∨ x.off + x.len ≤ off) :
    w'.sliceBytes x = w.sliceBytes x := by
  have e1 : ({ w with heap := w.heap.write k off b1 } : World).sliceBytes x = w.sliceBytes x :=
    sliceBytes_write_disjoint w _ k off b1 x rfl rfl
      (fun c hc => by rcases h c hc with h1 | h1; exact Or.inl h1; exact Or.inr (Or.inl h1))
  rw [← e1]
  exact sliceBytes_write_disjoint _ w' k off b2 x hheap hexts
    (fun c hc => by rcases h c hc with h1 | h1; exact Or.inl h1; exact Or.inr (Or.inl h1))

/-- The result of `read_n` as the Rust code computes it from what the reader delivered. -/
def readNResult (o : ReadN.Out) (chunk off : Nat) : Except Nat ASlice :=
  match o.res with
  | .ok got => .ok ⟨⟨.chunk chunk, off, got.length⟩, ⟨1, some chunk⟩⟩
  | .err k => .error k

/-- `iovec.arena().read_n(reader, count, attempts)`: the iovec and its abstraction are untouched (the
arena's bump pointer moved past exactly the bytes read); every slice already held stays held; on
success the returned slice is held and holds the bytes read. -/
theorem World.readN_spec (w : World) (i : Nat) (v : Iov) (r : ReadN.Reader) (count attempts : Nat)
    (hv : w.iov i = some v) (hinv : IovInv w v) :
    ∃ w1 ar' res, w.readN v.arena r count attempts = (w1, ar', res, ReadN.readNCore r count attempts) ∧
      w1.iov i = some v ∧ w1.exts = w.exts ∧
      Pushed w (w1.setIov i (some { v with arena := ar' })) v { v with arena := ar' } [] ∧
      HeldFrame w (w1.setIov i (some { v with arena := ar' })) v { v with arena := ar' } ∧
      (∀ k, (ReadN.readNCore r count attempts).res = .err k → res = .error k) ∧
      (∀ got, (ReadN.readNCore r count attempts).res = .ok got →
        ∃ a, res = .ok a ∧ a.slice.len = got.length ∧
          (w1.setIov i (some { v with arena := ar' })).sliceBytes a.slice = got ∧
          (0 < count → HeldOk (w1.setIov i (some { v with arena := ar' })) { v with arena := ar' } a.slice ∧
            ∃ c, a.anchor = ⟨1, some c⟩ ∧ a.slice.region = .chunk c)) := by
  by_cases hc0 : count = 0
  · subst hc0
    have hcore : ReadN.readNCore r 0 attempts = ⟨.ok [], [], r⟩ := by simp [ReadN.readNCore]
    refine ⟨w, v.arena, .ok ASlice.empty, ?_, hv, rfl, ?_, ?_, ?_, ?_⟩
    · unfold World.readN; simp [hcore]
    · exact (Pushed.refl hinv).setIov i _
    · intro x hx; exact ⟨⟨hx.reg, hx.placed, hx.disj⟩, rfl⟩
    · intro k hk; rw [hcore] at hk; cases hk
    · intro got hg
      rw [hcore] at hg
      simp only [ReadN.ReadRes.ok.injEq] at hg
      subst hg
      exact ⟨ASlice.empty, rfl, rfl, by simp [ASlice.empty, World.sliceBytes], fun h => absurd h (by omega)⟩
  · have hcpos : 0 < count := by omega
    obtain ⟨hnext, hchunk, hcache, hord⟩ := alloc_facts w v count hinv _ rfl
    have hbelow : ∀ x, Placed w.next v.arena x → ∀ c, x.region = .chunk c →
        c = (alloc w.tun v.arena w.next count).2.2.1 → x.off + x.len ≤ (alloc w.tun v.arena w.next count).2.2.2 :=
      fun x hx => (alloc_placed w.tun v.arena w.next count x hx).1
    have hgot : ∀ got, (ReadN.readNCore r count attempts).res = .ok got → got.length ≤ count := by
      intro got hg
      have := Woodpile.Props.C17.read_n_spec r count attempts hcpos
      simp only at this
      obtain ⟨_, hle, _, _, hm⟩ := this
      rw [hg] at hm
      rw [hm.1]; exact hle
    generalize hal : alloc w.tun v.arena w.next count = al at hnext hchunk hcache hord hbelow
    obtain ⟨a1, next1, chunk, off⟩ := al
    simp only at hnext hchunk hcache hord hbelow
    -- the common part: any world with the right `next`, `exts`, and a heap that differs only in the block
    have common : ∀ (hp : Heap) (n : Nat) (m : Nat), n ≤ count → m = count - n →
        (∀ x : Slice, (∀ c, x.region = .chunk c → c ≠ chunk ∨ x.off + x.len ≤ off) →
          ({ w with heap := hp, next := next1 } : World).sliceBytes x = w.sliceBytes x) →
        Pushed w (({ w with heap := hp, next := next1 } : World).setIov i (some { v with arena := release a1 n })) v
          { v with arena := release a1 n } [] ∧
        HeldFrame w (({ w with heap := hp, next := next1 } : World).setIov i (some { v with arena := release a1 n })) v
          { v with arena := release a1 n } ∧
        Placed next1 (release a1 n) ⟨.chunk chunk, off, m⟩ := by
      intro hp n m hn hm hfr
      have hrel : ∀ ca, (release a1 n).cache = some ca → ca.chunk = chunk ∧ ca.bump = off + m := by
        intro ca hca
        obtain ⟨c0, hc0, rfl⟩ := release_cache a1 n ca hca
        obtain ⟨e1, e2⟩ := hcache c0 hc0
        exact ⟨e1, by simp only; omega⟩
      have hsl : ∀ x ∈ v.slices, ∀ c, x.region = .chunk c → c ≠ chunk ∨ x.off + x.len ≤ off := by
        intro x hx c hc
        by_cases hcc : c = chunk
        · exact Or.inr (hord x hx c hc hcc)
        · exact Or.inl hcc
      have hinv1 : IovInv ({ w with heap := hp, next := next1 } : World) { v with arena := release a1 n } := by
        apply hinv.set_arena (w' := { w with heap := hp, next := next1 }) (release a1 n) rfl hnext
        intro ca hca
        obtain ⟨e1, e2⟩ := hrel ca hca
        refine ⟨by rw [e1]; exact hchunk, ?_⟩
        intro x hx c hc hcc
        have := hord x hx c hc (by omega)
        omega
      refine ⟨?_, ?_, ?_⟩
      · exact (Pushed.of_frame_arena (release a1 n) hinv1 (fun x hx => hfr x (hsl x hx)) rfl rfl).setIov i _
      · intro x hx
        have hxb : ∀ c, x.region = .chunk c → c ≠ chunk ∨ x.off + x.len ≤ off := by
          intro c hc
          by_cases hcc : c = chunk
          · exact Or.inr (hbelow x hx.placed c hc hcc)
          · exact Or.inl hcc
        refine ⟨⟨hx.reg, ?_, hx.disj⟩, ?_⟩
        · intro c hc
          refine ⟨Nat.lt_of_lt_of_le (hx.placed c hc).1 hnext, ?_⟩
          intro ca hca hcc
          obtain ⟨e1, e2⟩ := hrel ca hca
          rcases hxb c hc with h1 | h1
          · exact absurd (by omega) h1
          · omega
        · rw [← hfr x hxb]
          exact sliceBytes_congr x rfl rfl
      · intro c hc
        simp only [Region.chunk.injEq] at hc
        subst hc
        refine ⟨hchunk, ?_⟩
        intro ca hca _
        obtain ⟨_, e2⟩ := hrel ca hca
        simp only; omega
    cases hres : (ReadN.readNCore r count attempts).res with
    | ok got =>
      have hgl := hgot got hres
      obtain ⟨c1, c2, c3⟩ := common ((w.heap.write chunk off (List.replicate count 0)).write chunk off got)
        (count - got.length) got.length (by omega) (by omega)
        (fun x hx => sliceBytes_write2 w _ chunk off _ _ x rfl rfl hx)
      refine ⟨{ w with heap := (w.heap.write chunk off (List.replicate count 0)).write chunk off got, next := next1 },
        release a1 (count - got.length), .ok ⟨⟨.chunk chunk, off, got.length⟩, ⟨1, some chunk⟩⟩, ?_, hv, rfl, c1, c2, ?_, ?_⟩
      · unfold World.readN
        rw [if_neg hc0, hal]
        simp only [hres]
      · intro k hk; cases hk
      · intro got' hg'
        simp only [ReadN.ReadRes.ok.injEq] at hg'
        subst hg'
        refine ⟨_, rfl, rfl, ?_, fun _ => ⟨⟨⟨chunk, rfl⟩, c3, ?_⟩, chunk, rfl, rfl⟩⟩
        · show Heap.read _ chunk off got.length = got
          exact Heap.read_write_same _ _ _ _
        · intro x hx c hxc hc
          simp only [Region.chunk.injEq] at hc
          subst hc
          right; left
          exact hord x hx _ hxc rfl
    | err k =>
      obtain ⟨c1, c2, _⟩ := common (w.heap.write chunk off (List.replicate count 0)) count 0 (Nat.le_refl _) (by omega)
        (fun x hx => sliceBytes_write_disjoint w _ chunk off _ x rfl rfl
          (fun c hc => by rcases hx c hc with h1 | h1; exact Or.inl h1; exact Or.inr (Or.inl h1)))
      refine ⟨{ w with heap := w.heap.write chunk off (List.replicate count 0), next := next1 },
        release a1 count, .error k, ?_, hv, rfl, c1, c2, ?_, ?_⟩
      · unfold World.readN
        rw [if_neg hc0, hal]
        simp only [hres]
      · intro k' hk'; cases hk'; rfl
      · intro got hg; cases hg

/-- The arena side of `World.readN` is `ReadN.readN` (the function `Props/C17.read_n_releases_unread` is
about), and its reader side is `ReadN.readNCore`. -/
theorem World.readN_arena (w : World) (a : Arena) (r : ReadN.Reader) (count attempts : Nat) :
    (w.readN a r count attempts).2.1 = (ReadN.readN w.tun a w.next r count attempts).2.1 ∧
    (w.readN a r count attempts).2.2.2 = ReadN.readNCore r count attempts := by
  unfold World.readN ReadN.readN
  by_cases hc : count = 0
  · subst hc; simp [ReadN.readNCore]
  · simp only [if_neg hc]
    generalize alloc w.tun a w.next count = al
    obtain ⟨a1, next1, chunk, off⟩ := al
    simp only
    cases (ReadN.readNCore r count attempts).res <;> exact ⟨rfl, rfl⟩

end Woodpile.Iovec

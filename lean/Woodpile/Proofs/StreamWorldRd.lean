/-
`decode_anchored` of a chunk the call holds, on an iovec that satisfies the single-iovec invariant `IovInv`
(`Proofs/IovecInv.lean`): the iovec grows by exactly the bytes the decoder appends (`Pushed`), the verdict is
`Dec.feed`'s, and every OTHER held slice (the chunker's buffered tail) stays held with its bytes (`FrameOut`).
This is `Proofs/EncWorldAnch.decFeed_simH` with `Pushed` in place of the pipe simulation and with the frame for a
second held slice; it is what relates the world-level reader to the byte-level one.
-/
import Woodpile.Proofs.StreamWorldRef
import Woodpile.Proofs.EncWorldAnch
import Woodpile.Proofs.StreamReader
import Woodpile.Proofs.StreamPanic

namespace Woodpile.StreamWorld
open Woodpile.Arena Woodpile.ReadN Woodpile.Hcobs Woodpile.Iovec Woodpile.Stream Woodpile.EncWorld

open Woodpile.Hcobs.DecProof (emitBytes emitBytes_append emitBytes_nil)

theorem emitBytes_cons_append (bs : List UInt8) (m : Method) (t : List Emit) :
    emitBytes (⟨.append bs, m⟩ :: t) = bs ++ emitBytes t := rfl

/-- Every held slice that does not overlap `base` stays held, with its bytes. -/
def FrameOut (base : Slice) (w w' : World) (v v' : Iov) : Prop :=
  ∀ x, HeldOk w v x → base.Disj x → HeldOk w' v' x ∧ w'.sliceBytes x = w.sliceBytes x

theorem FrameOut.refl (base : Slice) (w : World) (v : Iov) : FrameOut base w w v v := fun _ h _ => ⟨h, rfl⟩

theorem FrameOut.trans {base : Slice} {w w' w'' : World} {v v' v'' : Iov} (h1 : FrameOut base w w' v v')
    (h2 : FrameOut base w' w'' v' v'') : FrameOut base w w'' v v'' := by
  intro x hx hd
  obtain ⟨a1, a2⟩ := h1 x hx hd
  obtain ⟨b1, b2⟩ := h2 x a1 hd
  exact ⟨b1, b2.trans a2⟩

theorem HeldFrame.frameOut {base : Slice} {w w' : World} {v v' : Iov} (h : HeldFrame w w' v v') :
    FrameOut base w w' v v' := fun x hx _ => h x hx

/-- A sub-slice of `base` misses whatever `base` misses. -/
theorem disj_sub {base p x : Slice} (hd : base.Disj x) (hr : p.region = base.region) (h1 : base.off ≤ p.off)
    (h2 : p.off + p.len ≤ base.off + base.len) : p.Disj x := by
  intro c hpc hxc
  have := hd c (by rw [← hr]; exact hpc) hxc
  omega

/-- The copies of one decoder step (all its non-borrowing emits are appends by copy). -/
theorem applyCopies (i : Nat) (src : Slice) : ∀ (A : List Emit) (w : World) (v : Iov) (toks : List Backref)
    (w' : World) (toks' : List Backref), w.iov i = some v → IovInv w v →
    (∀ e ∈ A, NoBorrow e) → (A.map (·.op)).all Woodpile.Pipe.Op.isAppend = true →
    applyStep w i toks A src = some (w', toks') →
    ∃ v', w'.iov i = some v' ∧ Pushed w w' v v' (emitBytes A) ∧ HeldFrame w w' v v' ∧ toks' = toks := by
  intro A
  induction A with
  | nil =>
    intro w v toks w' toks' hv hinv _ _ h
    simp only [applyStep, Option.some.injEq, Prod.mk.injEq] at h
    obtain ⟨rfl, rfl⟩ := h
    exact ⟨v, hv, Pushed.refl hinv, HeldFrame.refl _ _, rfl⟩
  | cons e t ih =>
    intro w v toks w' toks' hv hinv hnb happ h
    simp only [List.map_cons, List.all_cons, Bool.and_eq_true] at happ
    simp only [applyStep] at h
    cases h1 : applyEmit w i toks e src with
    | none => rw [h1] at h; cases h
    | some y =>
      obtain ⟨w1, toks1⟩ := y
      rw [h1] at h
      obtain ⟨op, m⟩ := e
      obtain ⟨bs, hbs⟩ := isAppend_iff op happ.1
      subst hbs
      cases m with
      | borrow => exact absurd rfl (hnb ⟨.append bs, .borrow⟩ (by simp) rfl bs)
      | copy =>
        simp only [applyEmit, Option.map_eq_some_iff, Prod.mk.injEq] at h1
        obtain ⟨w2, h2, rfl, rfl⟩ := h1
        obtain ⟨w3, v3, g1, g2, g3, _⟩ := World.pushCopy_total w i v bs hv hinv
        rw [h2] at g1
        cases g1
        have hf := World.pushCopy_heldFrame w w2 i v v3 bs hv h2 g2
        obtain ⟨v', k1, k2, k3, k4⟩ := ih w2 v3 toks w' toks' g2 g3.inv (fun x hx => hnb x (by simp [hx])) happ.2 h
        refine ⟨v', k1, ?_, hf.trans k3, k4⟩
        rw [emitBytes_cons_append]
        exact g3.trans k2

theorem decfeed_feed_zero (p : Params) (m : Method) (s : DecState) (input : List UInt8) :
    Dec.feed p m 0 s input = .ok (s, []) := rfl

/-- One `decode` call whose input is the held slice `base` (from offset `pos`), on an iovec with `IovInv`. -/
theorem decFeed_pushed (p : Params) (i : Nat) (base : Slice) (fuel : Nat) :
    ∀ (w : World) (v : Iov) (s : DecState) (input : List UInt8) (pos : Nat) (w' : World)
      (res : Except DecErr DecState),
    w.iov i = some v → IovInv w v →
    HeldOk w v { base with off := base.off + pos, len := base.len - pos } →
    w.sliceBytes { base with off := base.off + pos, len := base.len - pos } = input →
    decFeed p .borrow fuel w i s base input pos = some (w', res) →
    ∃ v' es, w'.iov i = some v' ∧ Pushed w w' v v' (emitBytes es) ∧
      FrameOut { base with off := base.off + pos, len := base.len - pos } w w' v v' ∧
      Woodpile.Hcobs.DecProof.AppendOnly es ∧
      Dec.feed p .borrow fuel s input =
        (match res with
          | .ok s' => .ok (s', es)
          | .error e => .error (e, es)) := by
  induction fuel with
  | zero =>
    intro w v s input pos w' res hv hinv _ _ h
    simp only [decFeed_zero, Option.some.injEq, Prod.mk.injEq] at h
    obtain ⟨rfl, rfl⟩ := h
    exact ⟨v, [], hv, Pushed.refl hinv, FrameOut.refl _ _ _, rfl, rfl⟩
  | succ fuel ih =>
    intro w v s input pos w' res hv hinv hheld hbytes h
    cases input with
    | nil =>
      simp only [decFeed_nil, Option.some.injEq, Prod.mk.injEq] at h
      obtain ⟨rfl, rfl⟩ := h
      exact ⟨v, [], hv, Pushed.refl hinv, FrameOut.refl _ _ _, rfl, by simp [Dec.feed]⟩
    | cons b rest =>
      obtain ⟨hsrcE, _⟩ := dec_once_src p .borrow s b rest
      have hao := Woodpile.Hcobs.DecProof.once_appendOnly p .borrow s b rest
      cases ho : Dec.once p .borrow s b rest with
      | error ee =>
        obtain ⟨err, es⟩ := ee
        rw [ho] at hao
        have hao : Woodpile.Hcobs.DecProof.AppendOnly es := hao
        rw [decFeed_cons_error p .borrow fuel w i s base b rest pos err es ho] at h
        cases h1 : applyStep w i [] es base with
        | none => rw [h1] at h; cases h
        | some y =>
          obtain ⟨w1, toks1⟩ := y
          rw [h1] at h
          simp only [Option.some.injEq, Prod.mk.injEq] at h
          obtain ⟨rfl, rfl⟩ := h
          obtain ⟨v1, k1, k2, k3, _⟩ := applyCopies i base es w v [] w1 toks1 hv hinv
            (fun e he hb _ _ => (hsrcE err es ho e he hb).elim) hao h1
          refine ⟨v1, es, k1, k2, HeldFrame.frameOut k3, hao, ?_⟩
          rw [decfeed_cons_error p .borrow fuel s b rest _ ho]
      | ok o =>
        rw [ho] at hao
        have hao : Woodpile.Hcobs.DecProof.AppendOnly o.emits := hao
        rw [decFeed_cons_ok p .borrow fuel w i s base b rest pos o ho] at h
        obtain ⟨A, W, X, hsh, hA, hW, hX, hXc, hcl⟩ := dec_once_shape p s b rest o ho
        rw [List.append_nil] at hsh
        have hlen : (b :: rest).length = base.len - pos := by
          rw [← hbytes]; exact sliceBytes_chunk_length w _ hheld.reg
        cases h1 : applyStep w i [] o.emits { base with off := base.off + pos, len := base.len - pos } with
        | none => rw [h1] at h; cases h
        | some y =>
          obtain ⟨w1, toks1⟩ := y
          rw [h1] at h
          simp only at h
          -- the copies, then the (at most one) borrowed prefix
          rw [hsh, applyStep_append] at h1
          have haoA : (A.map (·.op)).all Woodpile.Pipe.Op.isAppend = true := by
            have := hao
            unfold Woodpile.Hcobs.DecProof.AppendOnly at this
            rw [hsh, List.map_append, List.all_append, Bool.and_eq_true] at this
            exact this.1
          cases hA1 : applyStep w i [] A { base with off := base.off + pos, len := base.len - pos } with
          | none => rw [hA1] at h1; cases h1
          | some z =>
            obtain ⟨wa, toksa⟩ := z
            rw [hA1] at h1
            simp only at h1
            obtain ⟨va, a1, a2, a3, a4⟩ := applyCopies i _ A w v [] wa toksa hv hinv hA haoA hA1
            subst a4
            obtain ⟨s1, s2⟩ := a3 _ hheld
            -- the state after this step
            have step : ∃ v1, w1.iov i = some v1 ∧ Pushed w w1 v v1 (emitBytes o.emits) ∧
                FrameOut { base with off := base.off + pos, len := base.len - pos } w w1 v v1 ∧ toks1 = [] ∧
                HeldOk w1 v1 { base with off := base.off + (pos + o.consumed), len := base.len - (pos + o.consumed) } ∧
                w1.sliceBytes { base with off := base.off + (pos + o.consumed), len := base.len - (pos + o.consumed) } =
                  (b :: rest).drop o.consumed := by
              have hsubR : ∀ (W1 : World) (V1 : Iov), (∀ x, HeldOk wa va x →
                    ({ ({ base with off := base.off + pos, len := base.len - pos } : Slice) with len := X.length } : Slice).Disj x →
                    HeldOk W1 V1 x ∧ W1.sliceBytes x = wa.sliceBytes x) →
                  HeldOk W1 V1 { base with off := base.off + (pos + o.consumed), len := base.len - (pos + o.consumed) } ∧
                  W1.sliceBytes { base with off := base.off + (pos + o.consumed), len := base.len - (pos + o.consumed) } =
                    (b :: rest).drop o.consumed := by
                intro W1 V1 hfr
                have hsub : HeldOk wa va { base with off := base.off + (pos + o.consumed), len := base.len - (pos + o.consumed) } :=
                  s1.sub _ rfl (by simp only; omega) (by simp only; omega)
                obtain ⟨q1, q2⟩ := hfr _ hsub (by
                  intro c _ _
                  simp only
                  right; left; omega)
                refine ⟨q1, ?_⟩
                rw [q2]
                have : wa.sliceBytes { base with off := base.off + (pos + o.consumed), len := base.len - (pos + o.consumed) } =
                    w.sliceBytes { base with off := base.off + (pos + o.consumed), len := base.len - (pos + o.consumed) } :=
                  (a3 { base with off := base.off + (pos + o.consumed), len := base.len - (pos + o.consumed) }
                    (hheld.sub _ rfl (by simp only; omega) (by simp only; omega))).2
                rw [this, slice_advance_eq, sliceBytes_trim w _ _ (by simp only; omega), hbytes]
              rcases hW with rfl | rfl
              · simp only [applyStep, Option.some.injEq, Prod.mk.injEq] at h1
                obtain ⟨rfl, rfl⟩ := h1
                obtain ⟨r1, r2⟩ := hsubR wa va (fun x hx _ => ⟨hx, rfl⟩)
                refine ⟨va, a1, by rw [hsh, List.append_nil]; exact a2, HeldFrame.frameOut a3, rfl, r1, r2⟩
              · simp only [applyStep] at h1
                cases hb1 : applyEmit wa i [] ⟨.append X, .borrow⟩ { base with off := base.off + pos, len := base.len - pos } with
                | none => rw [hb1] at h1; cases h1
                | some u =>
                  obtain ⟨wb, toksb⟩ := u
                  rw [hb1] at h1
                  simp only [Option.some.injEq, Prod.mk.injEq] at h1
                  obtain ⟨rfl, rfl⟩ := h1
                  simp only [applyEmit, Option.map_eq_some_iff, Prod.mk.injEq] at hb1
                  obtain ⟨wc, hc1, rfl, rfl⟩ := hb1
                  have hXle : X.length ≤ base.len - pos := by rw [← hlen]; exact hX.length_le
                  have hp : HeldOk wa va { ({ base with off := base.off + pos, len := base.len - pos } : Slice) with len := X.length } :=
                    s1.sub _ rfl (Nat.le_refl _) (by simp only; omega)
                  have hpb : wa.sliceBytes { ({ base with off := base.off + pos, len := base.len - pos } : Slice) with len := X.length } = X := by
                    rw [sliceBytes_prefix wa _ _ hXle s1.reg, s2, hbytes]
                    exact (List.prefix_iff_eq_take.mp hX).symm
                  obtain ⟨wd, vd, d1, d2, d3, _, d5⟩ := World.pushHeld_total wa i va _ X a1 a2.inv hp hpb
                  rw [hc1] at d1
                  cases d1
                  obtain ⟨r1, r2⟩ := hsubR wc vd d5
                  refine ⟨vd, d2, ?_, ?_, rfl, r1, r2⟩
                  · rw [hsh, emitBytes_append]
                    have : emitBytes [(⟨.append X, .borrow⟩ : Emit)] = X := by
                      rw [emitBytes_cons_append]; simp
                    rw [this]
                    exact a2.trans d3
                  · intro x hx hd
                    obtain ⟨e1, e2⟩ := a3 x hx
                    obtain ⟨f1, f2⟩ := d5 x e1 (disj_sub hd rfl (Nat.le_refl _) (by simp only; omega))
                    exact ⟨f1, f2.trans e2⟩
            obtain ⟨v1, t1, t2, t3, t4, t5, t6⟩ := step
            subst t4
            obtain ⟨v2, es2, u1, u2, u3, u4, u5⟩ := ih w1 v1 o.st ((b :: rest).drop o.consumed) (pos + o.consumed) w' res
              t1 t2.inv t5 t6 h
            refine ⟨v2, o.emits ++ es2, u1, ?_, ?_, Woodpile.Hcobs.DecProof.appendOnly_append hao u4, ?_⟩
            · rw [emitBytes_append]; exact t2.trans u2
            · intro x hx hd
              obtain ⟨e1, e2⟩ := t3 x hx hd
              obtain ⟨f1, f2⟩ := u3 x e1 (disj_sub hd rfl (by simp only; omega) (by simp only; omega))
              exact ⟨f1, f2.trans e2⟩
            · rw [decfeed_cons_ok p .borrow fuel s b rest o ho, u5]
              cases res <;> rfl

/-! ### Worlds that differ only in their object tables -/

/-- Same memory: heap, caller buffers, chunk counter, constants. -/
structure SameMem (w w' : World) : Prop where
  heap : w'.heap = w.heap
  exts : w'.exts = w.exts
  next : w'.next = w.next
  pol : w'.pol = w.pol
  tun : w'.tun = w.tun

theorem SameMem.refl (w : World) : SameMem w w := ⟨rfl, rfl, rfl, rfl, rfl⟩
theorem SameMem.trans {a b c : World} (h1 : SameMem a b) (h2 : SameMem b c) : SameMem a c :=
  ⟨h2.heap.trans h1.heap, h2.exts.trans h1.exts, h2.next.trans h1.next, h2.pol.trans h1.pol, h2.tun.trans h1.tun⟩
theorem sameMem_setASlice (w : World) (j : Nat) (x : Option ASlice) : SameMem w (w.setASlice j x) := ⟨rfl, rfl, rfl, rfl, rfl⟩
theorem sameMem_addASlice (w : World) (a : ASlice) : SameMem w (w.addASlice a).1 := ⟨rfl, rfl, rfl, rfl, rfl⟩
theorem sameMem_setIov (w : World) (j : Nat) (x : Option Iov) : SameMem w (w.setIov j x) := ⟨rfl, rfl, rfl, rfl, rfl⟩

theorem SameMem.sliceBytes {w w' : World} (h : SameMem w w') (s : Slice) : w'.sliceBytes s = w.sliceBytes s :=
  sliceBytes_congr s h.heap h.exts

theorem SameMem.flat {w w' : World} (h : SameMem w w') (l : List Slice) : w'.flat l = w.flat l :=
  flat_congr l (fun s _ => h.sliceBytes s)

theorem SameMem.iovInv {w w' : World} {v : Iov} (h : SameMem w w') (hi : IovInv w v) : IovInv w' v :=
  hi.of_world (fun b => by rw [h.exts]; exact Nat.le_refl _) (by rw [h.next]; exact Nat.le_refl _)

theorem SameMem.heldOk {w w' : World} {v : Iov} {x : Slice} (h : SameMem w w') (hx : HeldOk w v x) : HeldOk w' v x :=
  ⟨hx.reg, by rw [h.next]; exact hx.placed, hx.disj⟩

theorem SameMem.pushed {w w1 w2 : World} {v v' : Iov} {bs : List UInt8} (h : SameMem w1 w2)
    (hp : Pushed w w1 v v' bs) : Pushed w w2 v v' bs :=
  { inv := h.iovInv hp.inv
    cells := by
      have : absCells w2 v' = absCells w1 v' := by unfold absCells; rw [h.flat]
      rw [this]; exact hp.cells
    flat := by rw [h.flat]; exact hp.flat
    backrefs := hp.backrefs, consumedSize := hp.consumedSize, consumedSlices := hp.consumedSlices
    logicalSize := hp.logicalSize
    visible := by
      have : w2.visible v' = w1.visible v' := by unfold World.visible; rw [h.flat]
      rw [this]; exact hp.visible
    pol := h.pol.trans hp.pol, tun := h.tun.trans hp.tun }

theorem SameMem.pushed_left {w0 w w1 : World} {v v' : Iov} {bs : List UInt8} (h : SameMem w0 w)
    (hp : Pushed w w1 v v' bs) : Pushed w0 w1 v v' bs :=
  { inv := hp.inv
    cells := by
      have : absCells w v = absCells w0 v := by unfold absCells; rw [h.flat]
      rw [← this]; exact hp.cells
    flat := by rw [← h.flat]; exact hp.flat
    backrefs := hp.backrefs, consumedSize := hp.consumedSize, consumedSlices := hp.consumedSlices
    logicalSize := hp.logicalSize
    visible := by
      have : w.visible v = w0.visible v := by unfold World.visible; rw [h.flat]
      rw [← this]; exact hp.visible
    pol := hp.pol.trans h.pol, tun := hp.tun.trans h.tun }

/-- `sTake` / `sDrop` / `sSkip` / `sSplit` only touch the table of detached slices. -/
theorem sameMem_sliceOp {w w' : World} {op : WOp} (hs : w.step op = some w')
    (hop : (∃ si, op = .sTake si) ∨ (∃ si, op = .sDrop si) ∨ (∃ si k, op = .sSkip si k) ∨ (∃ si k, op = .sSplit si k)) :
    SameMem w w' ∧ ∀ j, w'.iov j = w.iov j := by
  rcases hop with ⟨si, rfl⟩ | ⟨si, rfl⟩ | ⟨si, k, rfl⟩ | ⟨si, k, rfl⟩ <;>
  · simp only [World.step] at hs
    cases ha : w.aslice si with
    | none => rw [ha] at hs; cases hs
    | some a =>
      rw [ha] at hs
      simp only [Option.some.injEq] at hs
      subst hs
      exact ⟨⟨rfl, rfl, rfl, rfl, rfl⟩, fun _ => rfl⟩

/-! ### `read_n` on the reader's own iovec, seen by `IovInv` -/

/-- `decoder.consumer().arena().read_n(..)` as the `WOp` `readNIov`: the iovec is untouched up to its arena,
every held slice stays held, and the slice that appears is held. -/
theorem readIov_geo {i : Nat} {w w' : World} {v : Iov} (count attempts : Nat) (r : Reader) (hv : w.iov i = some v)
    (hinv : IovInv w v) (hs : w.step (readOp (.iov i) count attempts r) = some w') :
    ∃ ar', w'.iov i = some { v with arena := ar' } ∧ Pushed w w' v { v with arena := ar' } [] ∧
      HeldFrame w w' v { v with arena := ar' } ∧
      (0 < count → ∀ got x, (readNCore r count attempts).res = .ok got → w'.aslices = w.aslices ++ [some x] →
        HeldOk w' { v with arena := ar' } x.slice) := by
  have hr : (⟨r.src, r.script⟩ : Reader) = r := rfl
  obtain ⟨w1, ar', res, hrn, hv1, _, hpush, hframe, herr, hok⟩ := World.readN_spec w i v r count attempts hv hinv
  simp only [readOp, World.step, World.readNIov, hr, hv, hrn, hv1] at hs
  have hfr : ∀ W, SameMem (w1.setIov i (some { v with arena := ar' })) W → HeldFrame w W v { v with arena := ar' } := by
    intro W hW x hx
    obtain ⟨a1, a2⟩ := hframe x hx
    exact ⟨hW.heldOk a1, (hW.sliceBytes x).trans a2⟩
  cases res with
  | error k =>
    simp only [Option.some.injEq] at hs
    subst hs
    refine ⟨ar', by simp, hpush, hframe, ?_⟩
    intro hc got x hg
    obtain ⟨a, ha, _⟩ := hok got hg
    cases ha
  | ok a =>
    simp only [Option.some.injEq] at hs
    subst hs
    have hsm := sameMem_addASlice (w1.setIov i (some { v with arena := ar' })) a
    refine ⟨ar', by simp, hsm.pushed hpush, hfr _ hsm, ?_⟩
    intro hc got x hg hx
    obtain ⟨a', ha', _, _, hheld⟩ := hok got hg
    cases ha'
    obtain ⟨hh, _⟩ := hheld hc
    have hxa : x = a := by
      have h1 : ((w1.setIov i (some { v with arena := ar' })).addASlice a).1.aslices = w1.aslices ++ [some a] := rfl
      rw [h1] at hx
      have hw1 : w1.aslices = w.aslices := by
        obtain ⟨hp, nx, hsh⟩ := readN_shape w v.arena r count attempts
        rw [hrn] at hsh
        simp only at hsh
        rw [hsh]
      rw [hw1] at hx
      have := List.append_cancel_left hx
      simp only [List.cons.injEq, Option.some.injEq, and_true] at this
      exact this.symm
    rw [hxa]
    exact hsm.heldOk hh

/-! ### Every detached slice of the reader's world is held -/

/-- The reader's iovec `v` satisfies `IovInv`, and every non-empty detached slice of the world (the chunker's
buffered tail, a chunk in flight) is held with respect to it: allocated, below the bump pointer, overlapping no
slice of the iovec. -/
structure Geo (i : Nat) (w : World) (v : Iov) : Prop where
  iov : w.iov i = some v
  inv : IovInv w v
  held : ∀ j b, w.aslice j = some b → b.slice.len ≠ 0 → HeldOk w v b.slice

/-- The operations of `pump` on the reader's own iovec keep `Geo` (the iovec changes by its arena only). -/
theorem geo_pumpOp {i : Nat} {w w' : World} {v : Iov} {op : WOp} (h : Geo i w v) (hs : w.step op = some w')
    (hop : (∃ si, op = .sTake si) ∨ (∃ si, op = .sDrop si) ∨ (∃ si k, op = .sSkip si k) ∨ (∃ si k, op = .sSplit si k) ∨
      (∃ c a r, op = readOp (.iov i) c a r)) :
    ∃ v', Geo i w' v' ∧ Pushed w w' v v' [] := by
  have slice_case : ∀ (W : World), SameMem w W → (∀ j, W.iov j = w.iov j) →
      (∀ j b, W.aslice j = some b → b.slice.len ≠ 0 → ∃ j0 b0, w.aslice j0 = some b0 ∧ b0.slice.len ≠ 0 ∧
        b.slice.region = b0.slice.region ∧ b0.slice.off ≤ b.slice.off ∧
        b.slice.off + b.slice.len ≤ b0.slice.off + b0.slice.len) →
      ∃ v', Geo i W v' ∧ Pushed w W v v' [] := by
    intro W hsm hiov hsub
    refine ⟨v, ⟨by rw [hiov]; exact h.iov, hsm.iovInv h.inv, ?_⟩, hsm.pushed (Pushed.refl h.inv)⟩
    intro j b hb hl
    obtain ⟨j0, b0, h0, hl0, hr, h1, h2⟩ := hsub j b hb hl
    exact hsm.heldOk ((h.held j0 b0 h0 hl0).sub _ hr h1 h2)
  rcases hop with ⟨si, rfl⟩ | ⟨si, rfl⟩ | ⟨si, k, rfl⟩ | ⟨si, k, rfl⟩ | ⟨c, a, r, rfl⟩
  · -- sTake
    obtain ⟨hsm, hiov⟩ := sameMem_sliceOp hs (Or.inl ⟨si, rfl⟩)
    refine slice_case w' hsm hiov ?_
    simp only [World.step] at hs
    cases ha : w.aslice si with
    | none => rw [ha] at hs; cases hs
    | some a0 =>
      rw [ha] at hs
      simp only [Option.some.injEq] at hs
      subst hs
      intro j b hb hl
      simp only [aslice_addASlice] at hb
      split at hb
      · cases hb; exact ⟨si, a0, ha, hl, rfl, Nat.le_refl _, Nat.le_refl _⟩
      · simp only [aslice_setASlice] at hb
        split at hb
        · cases hb; exact absurd rfl hl
        · exact ⟨j, b, hb, hl, rfl, Nat.le_refl _, Nat.le_refl _⟩
  · -- sDrop
    obtain ⟨hsm, hiov⟩ := sameMem_sliceOp hs (Or.inr (Or.inl ⟨si, rfl⟩))
    refine slice_case w' hsm hiov ?_
    simp only [World.step] at hs
    cases ha : w.aslice si with
    | none => rw [ha] at hs; cases hs
    | some a0 =>
      rw [ha] at hs
      simp only [Option.some.injEq] at hs
      subst hs
      intro j b hb hl
      simp only [aslice_setASlice] at hb
      split at hb
      · cases hb
      · exact ⟨j, b, hb, hl, rfl, Nat.le_refl _, Nat.le_refl _⟩
  · -- sSkip
    obtain ⟨hsm, hiov⟩ := sameMem_sliceOp hs (Or.inr (Or.inr (Or.inl ⟨si, k, rfl⟩)))
    refine slice_case w' hsm hiov ?_
    simp only [World.step] at hs
    cases ha : w.aslice si with
    | none => rw [ha] at hs; cases hs
    | some a0 =>
      rw [ha] at hs
      simp only [Option.some.injEq] at hs
      subst hs
      intro j b hb hl
      simp only [aslice_setASlice] at hb
      split at hb
      · cases hb
        simp only [ASlice.skipPrefix] at hl ⊢
        exact ⟨si, a0, ha, by omega, rfl, by omega, by omega⟩
      · exact ⟨j, b, hb, hl, rfl, Nat.le_refl _, Nat.le_refl _⟩
  · -- sSplit
    obtain ⟨hsm, hiov⟩ := sameMem_sliceOp hs (Or.inr (Or.inr (Or.inr ⟨si, k, rfl⟩)))
    refine slice_case w' hsm hiov ?_
    simp only [World.step] at hs
    cases ha : w.aslice si with
    | none => rw [ha] at hs; cases hs
    | some a0 =>
      rw [ha] at hs
      simp only [Option.some.injEq] at hs
      subst hs
      intro j b hb hl
      simp only [aslice_addASlice] at hb
      split at hb
      · cases hb
        unfold ASlice.splitAt at hl ⊢
        split
        · rename_i hge; rw [if_pos hge] at hl; exact absurd rfl hl
        · rename_i hge; rw [if_neg hge] at hl
          simp only at hl ⊢
          exact ⟨si, a0, ha, by omega, rfl, by omega, by omega⟩
      · split at hb
        · cases hb
          unfold ASlice.splitAt at hl ⊢
          split
          · exact ⟨si, a0, ha, by rename_i hge; rw [if_pos hge] at hl; exact hl, rfl, Nat.le_refl _, Nat.le_refl _⟩
          · rename_i hge; rw [if_neg hge] at hl
            simp only at hl ⊢
            exact ⟨si, a0, ha, by omega, rfl, by omega, by omega⟩
        · simp only [aslice_setASlice] at hb
          split at hb
          · cases hb
          · exact ⟨j, b, hb, hl, rfl, Nat.le_refl _, Nat.le_refl _⟩
  · -- read_n on the reader's iovec
    obtain ⟨ar', g1, g2, g3, g4⟩ := readIov_geo c a r h.iov h.inv hs
    refine ⟨_, ⟨g1, g2.inv, ?_⟩, g2⟩
    obtain ⟨e0, e1⟩ := readOp_effect (.iov i) c a r hs
    intro j b hb hl
    by_cases hc : c = 0
    · obtain ⟨f1, _⟩ := e0 hc
      rw [aslice_of_snoc f1] at hb
      split at hb
      · cases hb; exact absurd rfl hl
      · exact (g3 _ (h.held j b hb hl)).1
    · obtain ⟨f1, f2⟩ := e1 hc
      cases hres : (readNCore r c a).res with
      | err k =>
        rw [aslice_of_same (f1 k hres)] at hb
        exact (g3 _ (h.held j b hb hl)).1
      | ok got =>
        obtain ⟨x, x1, _⟩ := f2 got hres
        rw [aslice_of_snoc x1] at hb
        split at hb
        · cases hb
          exact g4 (by omega) got b hres x1
        · exact (g3 _ (h.held j b hb hl)).1

theorem pushed_nil_trans {w w' w'' : World} {v v' v'' : Iov} (h1 : Pushed w w' v v' []) (h2 : Pushed w' w'' v' v'' []) :
    Pushed w w'' v v'' [] := by
  have := h1.trans h2
  simpa using this

theorem refillW_geo {i : Nat} (count : Nat) : ∀ (fuel : Nat) (s : PumpSt) (v : Iov) (res : RefillW) (s' : PumpSt),
    Geo i s.w v → refillW (.iov i) count fuel s = some (res, s') → ∃ v', Geo i s'.w v' ∧ Pushed s.w s'.w v v' [] := by
  intro fuel
  induction fuel with
  | zero =>
    intro s v res s' hg h
    simp only [refillW, Option.some.injEq, Prod.mk.injEq] at h
    rw [← h.2]; exact ⟨v, hg, Pushed.refl hg.inv⟩
  | succ fuel ih =>
    intro s v res s' hg h
    simp only [refillW] at h
    cases hb : s.w.aslice s.c.buf with
    | none => rw [hb] at h; cases h
    | some b =>
      rw [hb] at h
      simp only at h
      by_cases h2 : 2 ≤ b.slice.len
      · rw [if_pos h2] at h
        simp only [Option.some.injEq, Prod.mk.injEq] at h
        rw [← h.2]; exact ⟨v, hg, Pushed.refl hg.inv⟩
      · rw [if_neg h2] at h
        cases h1 : s.w.step (.sTake s.c.buf) with
        | none => rw [h1] at h; cases h
        | some w1 =>
          rw [h1] at h
          simp only at h
          obtain ⟨v1, g1, p1⟩ := geo_pumpOp hg h1 (Or.inl ⟨_, rfl⟩)
          cases hr : w1.step (readOp (.iov i) count ((chain (s.w.sliceBytes b.slice) s.r).script.length + 1)
              (chain (s.w.sliceBytes b.slice) s.r)) with
          | none => rw [hr] at h; cases h
          | some w2 =>
            rw [hr] at h
            simp only at h
            obtain ⟨v2, g2, p2⟩ := geo_pumpOp g1 hr (Or.inr (Or.inr (Or.inr (Or.inr ⟨_, _, _, rfl⟩))))
            cases hd : w2.step (.sDrop s.w.aslices.length) with
            | none => rw [hd] at h; cases h
            | some w3 =>
              rw [hd] at h
              simp only at h
              obtain ⟨v3, g3, p3⟩ := geo_pumpOp g2 hd (Or.inr (Or.inl ⟨_, rfl⟩))
              have p03 := pushed_nil_trans (pushed_nil_trans p1 p2) p3
              split at h
              · simp only [Option.some.injEq, Prod.mk.injEq] at h
                rw [← h.2]; exact ⟨v3, g3, p03⟩
              · split at h
                · split at h
                  · split at h
                    · cases h
                    · rename_i w4 hd4
                      simp only [Option.some.injEq, Prod.mk.injEq] at h
                      obtain ⟨v4, g4, p4⟩ := geo_pumpOp g3 hd4 (Or.inr (Or.inl ⟨_, rfl⟩))
                      rw [← h.2]; exact ⟨v4, g4, pushed_nil_trans p03 p4⟩
                  · simp only [Option.some.injEq, Prod.mk.injEq] at h
                    rw [← h.2]; exact ⟨v3, g3, p03⟩
                · split at h
                  · cases h
                  · rename_i w4 hd4
                    obtain ⟨v4, g4, p4⟩ := geo_pumpOp g3 hd4 (Or.inr (Or.inl ⟨_, rfl⟩))
                    obtain ⟨v5, g5, p5⟩ := ih _ v4 res s' g4 h
                    exact ⟨v5, g5, pushed_nil_trans (pushed_nil_trans p03 p4) p5⟩

theorem pumpW_geo {i : Nat} {clamp : Nat} {block : Nat} {s s' : PumpSt} {v : Iov} {res : PumpResW}
    (hg : Geo i s.w v) (h : pumpW clamp (.iov i) block s = some (res, s')) :
    ∃ v', Geo i s'.w v' ∧ Pushed s.w s'.w v v' [] := by
  simp only [pumpW] at h
  cases hr : refillW (.iov i) (max block clamp) 3 { s with reqs := [] } with
  | none => rw [hr] at h; cases h
  | some x =>
    obtain ⟨rf, s1⟩ := x
    rw [hr] at h
    obtain ⟨v1, g1, p1⟩ := refillW_geo _ 3 { s with reqs := [] } v rf s1 hg hr
    cases rf with
    | done r =>
      simp only [Option.some.injEq, Prod.mk.injEq] at h
      rw [← h.2]; exact ⟨v1, g1, p1⟩
    | filled =>
      simp only at h
      cases hb : s1.w.aslice s1.c.buf with
      | none => rw [hb] at h; cases h
      | some b =>
        rw [hb] at h
        simp only at h
        split at h
        · simp only [Option.some.injEq, Prod.mk.injEq] at h
          rw [← h.2]; exact ⟨v1, g1, p1⟩
        · split at h
          · split at h
            · cases h
            · rename_i w' hw'
              simp only [Option.some.injEq, Prod.mk.injEq] at h
              obtain ⟨v2, g2, p2⟩ := geo_pumpOp g1 hw' (Or.inr (Or.inr (Or.inl ⟨_, _, rfl⟩)))
              rw [← h.2]; exact ⟨v2, g2, pushed_nil_trans p1 p2⟩
          · split at h
            · simp only [Option.some.injEq, Prod.mk.injEq] at h
              rw [← h.2]; exact ⟨v1, g1, p1⟩
            · split at h
              · cases h
              · rename_i w' hw'
                simp only [Option.some.injEq, Prod.mk.injEq] at h
                obtain ⟨v2, g2, p2⟩ := geo_pumpOp g1 hw' (Or.inr (Or.inr (Or.inr (Or.inl ⟨_, _, rfl⟩))))
                rw [← h.2]; exact ⟨v2, g2, pushed_nil_trans p1 p2⟩

/-! ### The world-level reader against the byte-level reader -/

theorem emitBytes_eq_appended (es : List Emit) : emitBytes es = appended es := by
  induction es with
  | nil => rfl
  | cons e t ih =>
    obtain ⟨op, m⟩ := e
    cases op with
    | append bs => show bs ++ emitBytes t = bs ++ appended t; rw [ih]
    | register n => show emitBytes t = appended t; exact ih
    | fill id bs => show emitBytes t = appended t; exact ih

theorem allAppend_of_appendOnly {es : List Emit} (h : Woodpile.Hcobs.DecProof.AppendOnly es) : AllAppend es := by
  intro e he
  unfold Woodpile.Hcobs.DecProof.AppendOnly at h
  rw [List.all_eq_true] at h
  exact isAppend_iff e.op (h e.op (List.mem_map.2 ⟨e, he, rfl⟩))

/-- The only non-empty detached slice of the world is the one at handle `buf`. -/
def Only (w : World) (buf : Nat) : Prop := ∀ j b, w.aslice j = some b → b.slice.len ≠ 0 → j = buf

/-- Between two calls. -/
structure RRel0 (x : RdSt) (s : RdState) : Prop where
  crel : CRel x.w x.s.chunker s.chunker
  ls : x.s.lastSentinel = s.lastSentinel
  hist : x.s.hist = s.hist
  rinv : Rinv x

/-- Inside a call: the locals agree, the iovec holds exactly the bytes the decoder appended so far, and every
detached slice of the world is held with respect to the iovec. -/
structure RRel (x : RdSt) (s : RdState) (rw : RecW) (rc : Rec) : Prop extends RRel0 x s where
  st : rw.st = rc.st
  start : rw.start = rc.start
  stop : rw.stop = rc.stop
  dec : rw.dec = rc.dec
  app : AllAppend rc.emits
  geo : ∃ v, Geo x.s.iov x.w v ∧ x.w.flat v.slices = appended rc.emits ∧
    v.logicalSize = (appended rc.emits).length ∧ v.consumedSize = 0

/-- What a call returns: the same verdict and range; the record is the flattened iovec. -/
def ResN (x : RdSt) : NextResW → NextRes → Prop
  | .some a b, .some bytes a' b' => a = a' ∧ b = b' ∧ ∃ v, x.w.iov x.s.iov = some v ∧ x.w.flat v.slices = bytes
  | .none, .none => True
  | .ioerr k, .ioerr k' => k = k'
  | .panic, .panic => True
  | _, _ => False

def OutRel : StepOutW → StepOut → Prop
  | .continue x rw, .continue s r rc => RRel x s rw rc ∧ Only x.w x.s.chunker.buf ∧ x.r = r
  | .retry x, .continue s r rc => rc = Rec.fresh ∧ RRel0 x s ∧ Only x.w x.s.chunker.buf ∧ x.r = r
  | .done res x, .done res' s r => RRel0 x s ∧ Only x.w x.s.chunker.buf ∧ x.r = r ∧ ResN x res res'
  | _, _ => False

theorem crel_sameMem {w w' : World} {cw : ChunkerW} {c : Chunker} (h : CRel w cw c) (hm : SameMem w w')
    (ha : ∀ j, w'.aslice j = w.aslice j) : CRel w' cw c := by
  obtain ⟨⟨b, hb, hbytes, hlen⟩, hoff⟩ := h
  exact ⟨⟨b, by rw [ha]; exact hb, by rw [hm.sliceBytes]; exact hbytes, hlen⟩, hoff⟩

theorem rrel0_reset {x : RdSt} {s : RdState} (h : RRel0 x s) : RRel0 (resetIov x) s :=
  ⟨crel_sameMem h.crel (sameMem_setIov _ _ _) (fun _ => rfl), h.ls, h.hist, rinv_reset h.rinv⟩

theorem sizeOf_eq {x : RdSt} {s : RdState} {rw : RecW} {rc : Rec} (h : RRel x s rw rc) : sizeOf x = rc.size := by
  obtain ⟨v, hg, _, hl, hc⟩ := h.geo
  rw [rec_size_eq rc h.app]
  simp only [sizeOf, hg.iov, Iov.totalSize, hl, hc]
  omega

theorem consult_rel (judge : Judge) {x : RdSt} {s : RdState} {rw : RecW} {rc : Rec} (h : RRel x s rw rc)
    (ho : Only x.w x.s.chunker.buf) : OutRel (consultW judge x rw) (consult judge s x.r rc) := by
  unfold consultW consult
  simp only
  have hq : (⟨rw.start, rw.stop, sizeOf x⟩ : Consult) = ⟨rc.start, rc.stop, rc.size⟩ := by
    rw [sizeOf_eq h, h.start, h.stop]
  rw [hq, h.hist]
  have hx' : RRel { x with s := { x.s with hist := s.hist ++ [⟨rc.start, rc.stop, rc.size⟩] } }
      { s with hist := s.hist ++ [⟨rc.start, rc.stop, rc.size⟩] } rw rc :=
    { crel := h.crel, ls := h.ls, hist := rfl, rinv := h.rinv, st := h.st, start := h.start, stop := h.stop,
      dec := h.dec, app := h.app, geo := h.geo }
  cases judge s.hist ⟨rc.start, rc.stop, rc.size⟩ with
  | keepGoing => exact ⟨hx', ho, rfl⟩
  | skipRecord =>
    exact ⟨{ hx' with st := rfl, start := h.start, stop := h.stop, dec := h.dec }, ho, rfl⟩
  | stop => exact ⟨rrel0_reset hx'.toRRel0, ho, rfl, trivial⟩

theorem afterBreak_rel {x : RdSt} {s : RdState} {rw : RecW} {rc : Rec} (h : RRel x s rw rc)
    (ho : Only x.w x.s.chunker.buf) : OutRel (afterBreakW x rw) (afterBreak s x.r rc) := by
  unfold afterBreakW afterBreak
  rw [h.start, h.stop, h.st, h.dec]
  split
  · exact ⟨h.toRRel0, ho, rfl, trivial⟩
  · split
    · exact ⟨rfl, h.toRRel0, ho, rfl⟩
    · cases hf : Dec.finish rc.dec with
      | error e => exact ⟨rfl, rrel0_reset h.toRRel0, ho, rfl⟩
      | ok u =>
        obtain ⟨v, hg, hfl, _, _⟩ := h.geo
        refine ⟨h.toRRel0, ho, rfl, rfl, rfl, v, hg.iov, ?_⟩
        rw [hfl, rec_bytes_eq rc h.app]

/-! ### `pump` touches no detached slice but its own -/

theorem sTake_other {w w1 : World} {si : Nat} (h : w.step (.sTake si) = some w1) (j : Nat) (hj : j ≠ si)
    (hj2 : j ≠ w.aslices.length) : w1.aslice j = w.aslice j := by
  simp only [World.step] at h
  cases hb : w.aslice si with
  | none => rw [hb] at h; cases h
  | some b =>
    rw [hb] at h
    simp only [Option.some.injEq] at h
    subst h
    rw [aslice_addASlice, setASlice_length _ (aslice_lt hb), if_neg hj2, aslice_setASlice, if_neg hj]

theorem sSkip_other {w w1 : World} {si k : Nat} (h : w.step (.sSkip si k) = some w1) (j : Nat) (hj : j ≠ si) :
    w1.aslice j = w.aslice j := by
  simp only [World.step] at h
  cases hb : w.aslice si with
  | none => rw [hb] at h; cases h
  | some b =>
    rw [hb] at h
    simp only [Option.some.injEq] at h
    subst h
    rw [aslice_setASlice, if_neg hj]

theorem sSplit_other {w w1 : World} {si k : Nat} (h : w.step (.sSplit si k) = some w1) (j : Nat)
    (hj : j < w.aslices.length) : w1.aslice j = if j = si then none else w.aslice j := by
  simp only [World.step] at h
  cases hb : w.aslice si with
  | none => rw [hb] at h; cases h
  | some b =>
    rw [hb] at h
    simp only [Option.some.injEq] at h
    subst h
    have hlt := aslice_lt hb
    have hl1 : ((w.setASlice si none).addASlice (b.splitAt k).1).1.aslices.length = w.aslices.length + 1 := by
      simp [World.addASlice, setASlice_length _ hlt]
    rw [aslice_addASlice, hl1, if_neg (by omega), aslice_addASlice, setASlice_length _ hlt, if_neg (by omega),
      aslice_setASlice]

theorem refillW_only (X : ArenaAt) (count : Nat) : ∀ (fuel : Nat) (s : PumpSt) (rf : RefillW) (s' : PumpSt),
    Only s.w s.c.buf → refillW X count fuel s = some (rf, s') →
    ∀ j b, s'.w.aslice j = some b → b.slice.len ≠ 0 → j = s'.c.buf ∨ ∃ off, rf = .done (.ok (.data off j)) := by
  intro fuel
  induction fuel with
  | zero =>
    intro s rf s' ho h
    simp only [refillW, Option.some.injEq, Prod.mk.injEq] at h
    obtain ⟨rfl, rfl⟩ := h
    exact fun j b hb hl => Or.inl (ho j b hb hl)
  | succ fuel ih =>
    intro s rf s' ho h
    simp only [refillW] at h
    cases hb : s.w.aslice s.c.buf with
    | none => rw [hb] at h; cases h
    | some b =>
      rw [hb] at h
      simp only at h
      by_cases h2 : 2 ≤ b.slice.len
      · rw [if_pos h2] at h
        simp only [Option.some.injEq, Prod.mk.injEq] at h
        obtain ⟨rfl, rfl⟩ := h
        exact fun j b hb hl => Or.inl (ho j b hb hl)
      · rw [if_neg h2] at h
        have hsi := aslice_lt hb
        cases h1 : s.w.step (.sTake s.c.buf) with
        | none => rw [h1] at h; cases h
        | some w1 =>
          rw [h1] at h
          simp only at h
          obtain ⟨t1, t2, t3, _⟩ := sTake_effect hb h1
          cases hr : w1.step (readOp X count ((chain (s.w.sliceBytes b.slice) s.r).script.length + 1)
              (chain (s.w.sliceBytes b.slice) s.r)) with
          | none => rw [hr] at h; cases h
          | some w2 =>
            rw [hr] at h
            simp only at h
            obtain ⟨u1, u2⟩ := readOp_unified X count _ (chain (s.w.sliceBytes b.slice) s.r) s.r hr
            cases hd : w2.step (.sDrop s.w.aslices.length) with
            | none => rw [hd] at h; cases h
            | some w3 =>
              rw [hd] at h
              simp only at h
              obtain ⟨d1, _, _⟩ := sDrop_effect hd
              have hdt : w3.aslice s.w.aslices.length = none := by
                simp only [World.step] at hd
                cases hx : w2.aslice s.w.aslices.length with
                | none => rw [hx] at hd; cases hd
                | some y =>
                  rw [hx] at hd
                  simp only [Option.some.injEq] at hd
                  subst hd
                  rw [aslice_setASlice, if_pos rfl]
              -- the detached slices of `w3` below `t`: those of `s.w`, the buffer slot now empty
              have low : ∀ j, j < s.w.aslices.length → ∀ y, w2.aslice j = some y → y.slice.len ≠ 0 → False := by
                intro j hj y hy hl
                have hw1 : w1.aslice j = some y := by
                  generalize ho' : (if count = 0 then (⟨.ok [], [], s.r⟩ : Out)
                    else readNCore (chain (s.w.sliceBytes b.slice) s.r) count
                      ((chain (s.w.sliceBytes b.slice) s.r).script.length + 1)) = o at u1 u2
                  cases hres : o.res with
                  | err k => rw [← aslice_of_same (u1 k hres)]; exact hy
                  | ok got =>
                    obtain ⟨x, x1, _⟩ := u2 got hres
                    rw [aslice_of_snoc x1, t1, if_neg (by omega)] at hy
                    exact hy
                by_cases hjs : j = s.c.buf
                · rw [hjs, t2] at hw1
                  cases hw1
                  exact hl rfl
                · rw [sTake_other h1 j hjs (by omega)] at hw1
                  exact hjs (ho j y hw1 hl)
              generalize ho' : (if count = 0 then (⟨.ok [], [], s.r⟩ : Out)
                else readNCore (chain (s.w.sliceBytes b.slice) s.r) count
                  ((chain (s.w.sliceBytes b.slice) s.r).script.length + 1)) = o at h u1 u2
              -- every non-empty detached slice of `w3` sits at `t + 1`
              have only3 : ∀ j y, w3.aslice j = some y → y.slice.len ≠ 0 → j = s.w.aslices.length + 1 := by
                intro j y hy hl
                by_cases hjt : j = s.w.aslices.length
                · rw [hjt, hdt] at hy; cases hy
                · rw [d1 j hjt] at hy
                  by_cases hlow : j < s.w.aslices.length
                  · exact (low j hlow y hy hl).elim
                  · cases hres : o.res with
                    | err k =>
                      rw [aslice_of_same (u1 k hres)] at hy
                      have := aslice_lt hy
                      omega
                    | ok got =>
                      obtain ⟨x, x1, _⟩ := u2 got hres
                      have hlen : w2.aslices.length = s.w.aslices.length + 2 := by rw [x1]; simp [t1]
                      have := aslice_lt hy
                      omega
              split at h
              · simp only [Option.some.injEq, Prod.mk.injEq] at h
                obtain ⟨rfl, rfl⟩ := h
                rename_i k hk
                intro j y hy hl
                have hj := only3 j y hy hl
                -- an error adds nothing: `t + 1` is out of range
                rw [d1 j (by omega), aslice_of_same (u1 k hk)] at hy
                have := aslice_lt hy
                omega
              · split at h
                · split at h
                  · split at h
                    · cases h
                    · rename_i w4 hd4
                      simp only [Option.some.injEq, Prod.mk.injEq] at h
                      obtain ⟨rfl, rfl⟩ := h
                      obtain ⟨f1, _, _⟩ := sDrop_effect hd4
                      intro j y hy hl
                      by_cases hj : j = s.w.aslices.length + 1
                      · subst hj
                        simp only [World.step] at hd4
                        cases hx : w3.aslice (s.w.aslices.length + 1) with
                        | none => rw [hx] at hd4; cases hd4
                        | some z =>
                          rw [hx] at hd4
                          simp only [Option.some.injEq] at hd4
                          subst hd4
                          rw [aslice_setASlice, if_pos rfl] at hy
                          cases hy
                      · rw [f1 j hj] at hy
                        exact absurd (only3 j y hy hl) hj
                  · simp only [Option.some.injEq, Prod.mk.injEq] at h
                    obtain ⟨rfl, rfl⟩ := h
                    intro j y hy hl
                    exact Or.inr ⟨_, by rw [only3 j y hy hl]⟩
                · split at h
                  · cases h
                  · rename_i w4 hd4
                    obtain ⟨f1, _, _⟩ := sDrop_effect hd4
                    refine ih _ rf s' ?_ h
                    intro j y hy hl
                    simp only
                    by_cases hj : j = s.c.buf
                    · subst hj
                      simp only [World.step] at hd4
                      cases hx : w3.aslice s.c.buf with
                      | none => rw [hx] at hd4; cases hd4
                      | some z =>
                        rw [hx] at hd4
                        simp only [Option.some.injEq] at hd4
                        subst hd4
                        rw [aslice_setASlice, if_pos rfl] at hy
                        cases hy
                    · rw [f1 j hj] at hy
                      exact only3 j y hy hl

theorem pumpW_only {clamp : Nat} {X : ArenaAt} {block : Nat} {s s' : PumpSt} {res : PumpResW}
    (ho : Only s.w s.c.buf) (h : pumpW clamp X block s = some (res, s')) :
    ∀ j b, s'.w.aslice j = some b → b.slice.len ≠ 0 → j = s'.c.buf ∨ ∃ off, res = .ok (.data off j) := by
  simp only [pumpW] at h
  cases hr : refillW X (max block clamp) 3 { s with reqs := [] } with
  | none => rw [hr] at h; cases h
  | some x =>
    obtain ⟨rf, s1⟩ := x
    rw [hr] at h
    have h1 := refillW_only X _ 3 { s with reqs := [] } rf s1 ho hr
    cases rf with
    | done r =>
      simp only [Option.some.injEq, Prod.mk.injEq] at h
      obtain ⟨rfl, rfl⟩ := h
      intro j b hb hl
      rcases h1 j b hb hl with e | ⟨off, e⟩
      · exact Or.inl e
      · simp only [RefillW.done.injEq] at e
        exact Or.inr ⟨off, e⟩
    | filled =>
      have h1' : Only s1.w s1.c.buf := by
        intro j b hb hl
        rcases h1 j b hb hl with e | ⟨off, e⟩
        · exact e
        · cases e
      simp only at h
      cases hb : s1.w.aslice s1.c.buf with
      | none => rw [hb] at h; cases h
      | some b =>
        rw [hb] at h
        simp only at h
        split at h
        · simp only [Option.some.injEq, Prod.mk.injEq] at h
          obtain ⟨rfl, rfl⟩ := h
          exact fun j y hy hl => Or.inl (h1' j y hy hl)
        · split at h
          · split at h
            · cases h
            · rename_i w' hw'
              simp only [Option.some.injEq, Prod.mk.injEq] at h
              obtain ⟨rfl, rfl⟩ := h
              intro j y hy hl
              left
              simp only
              by_cases hj : j = s1.c.buf
              · exact hj
              · rw [sSkip_other hw' j hj] at hy
                exact h1' j y hy hl
          · split at h
            · simp only [Option.some.injEq, Prod.mk.injEq] at h
              obtain ⟨rfl, rfl⟩ := h
              exact fun j y hy hl => Or.inl (h1' j y hy hl)
            · split at h
              · cases h
              · rename_i w' hw'
                simp only [Option.some.injEq, Prod.mk.injEq] at h
                obtain ⟨rfl, rfl⟩ := h
                intro j y hy hl
                simp only
                by_cases hlow : j < s1.w.aslices.length
                · rw [sSplit_other hw' j hlow] at hy
                  split at hy
                  · cases hy
                  · rename_i hne
                    exact absurd (h1' j y hy hl) hne
                · by_cases hj : j = s1.w.aslices.length
                  · exact Or.inr ⟨_, by rw [hj]⟩
                  · by_cases hj1 : j = s1.w.aslices.length + 1
                    · exact Or.inl hj1
                    · -- beyond the two new handles there is nothing
                      exfalso
                      simp only [World.step, hb, Option.some.injEq] at hw'
                      subst hw'
                      have hlt := aslice_lt hy
                      simp only at hlt
                      have : (((s1.w.setASlice s1.c.buf none).addASlice (b.splitAt (splitPos (s1.w.sliceBytes b.slice))).1).1.addASlice
                          (b.splitAt (splitPos (s1.w.sliceBytes b.slice))).2).1.aslices.length = s1.w.aslices.length + 2 := by
                        simp [World.addASlice, setASlice_length _ (aslice_lt hb)]
                      omega

/-! ### The decoder does not touch the table of detached slices -/

theorem pushCopy_aslices {w w' : World} {i : Nat} {bs : List UInt8} (h : w.pushCopy i bs = some w') :
    w'.aslices = w.aslices := by
  obtain ⟨v, hv, ⟨_, rfl⟩ | ⟨hne, arena', next', chunk, off, v2, hal, ho, rfl⟩⟩ := pushCopy_spec h
  · rfl
  · rfl

theorem push_aslices {w w' : World} {i : Nat} {s : Slice} (h : w.push i s = some w') : w'.aslices = w.aslices := by
  rcases push_cases h with h | h
  · exact pushCopy_aslices h
  · obtain ⟨v, hv, ⟨_, rfl⟩ | ⟨_, v', hp, rfl⟩⟩ := pushBorrowed_spec h
    · rfl
    · rfl

theorem applyEmit_aslices {w w' : World} {i : Nat} {toks toks' : List Backref} {e : Emit} {src : Slice}
    (h : applyEmit w i toks e src = some (w', toks')) : w'.aslices = w.aslices := by
  obtain ⟨op, m⟩ := e
  cases op with
  | append bs =>
    cases m with
    | copy =>
      simp only [applyEmit, Option.map_eq_some_iff, Prod.mk.injEq] at h
      obtain ⟨w1, h1, rfl, _⟩ := h
      exact pushCopy_aslices h1
    | borrow =>
      simp only [applyEmit, Option.map_eq_some_iff, Prod.mk.injEq] at h
      obtain ⟨w1, h1, rfl, _⟩ := h
      exact push_aslices h1
  | register n =>
    simp only [applyEmit] at h
    cases h1 : w.registerPatch i (List.replicate n 0) with
    | none => rw [h1] at h; cases h
    | some x =>
      obtain ⟨w1, b⟩ := x
      rw [h1] at h
      simp only [Option.some.injEq, Prod.mk.injEq] at h
      obtain ⟨rfl, _⟩ := h
      rcases registerPatch_spec h1 with ⟨_, rfl, _⟩ | ⟨_, w2, v, last, hpc, hv, _, _, _, _, rfl⟩
      · rfl
      · exact (show (w2.setIov i _).aslices = w2.aslices from rfl).trans (pushCopy_aslices hpc)
  | fill id bs =>
    simp only [applyEmit] at h
    cases h0 : toks[id]? with
    | none => rw [h0] at h; cases h
    | some b =>
      rw [h0] at h
      simp only [Option.map_eq_some_iff, Prod.mk.injEq] at h
      obtain ⟨w1, h1, rfl, _⟩ := h
      obtain ⟨v, hv, ⟨_, _, rfl⟩ | ⟨key, info, target, k, _, _, _, _, _, _, _, rfl⟩⟩ := backfill_spec h1
      · rfl
      · rfl

theorem applyStep_aslices {i : Nat} {src : Slice} : ∀ (es : List Emit) {w w' : World} {toks toks' : List Backref},
    applyStep w i toks es src = some (w', toks') → w'.aslices = w.aslices := by
  intro es
  induction es with
  | nil =>
    intro w w' toks toks' h
    simp only [applyStep, Option.some.injEq, Prod.mk.injEq] at h
    rw [h.1]
  | cons e t ih =>
    intro w w' toks toks' h
    simp only [applyStep] at h
    cases h1 : applyEmit w i toks e src with
    | none => rw [h1] at h; cases h
    | some y =>
      obtain ⟨w1, toks1⟩ := y
      rw [h1] at h
      exact (ih h).trans (applyEmit_aslices h1)

theorem decFeed_aslices (p : Params) (m : Method) (i : Nat) (base : Slice) (fuel : Nat) :
    ∀ (w : World) (s : DecState) (input : List UInt8) (pos : Nat) (w' : World) (res : Except DecErr DecState),
    decFeed p m fuel w i s base input pos = some (w', res) → w'.aslices = w.aslices := by
  induction fuel with
  | zero =>
    intro w s input pos w' res h
    simp only [decFeed_zero, Option.some.injEq, Prod.mk.injEq] at h
    rw [h.1]
  | succ fuel ih =>
    intro w s input pos w' res h
    cases input with
    | nil =>
      simp only [decFeed_nil, Option.some.injEq, Prod.mk.injEq] at h
      rw [h.1]
    | cons b rest =>
      cases ho : Dec.once p m s b rest with
      | error ee =>
        obtain ⟨err, es⟩ := ee
        rw [decFeed_cons_error p m fuel w i s base b rest pos err es ho] at h
        cases h1 : applyStep w i [] es base with
        | none => rw [h1] at h; cases h
        | some x =>
          obtain ⟨w1, toks1⟩ := x
          rw [h1] at h
          simp only [Option.some.injEq, Prod.mk.injEq] at h
          rw [← h.1]
          exact applyStep_aslices es h1
      | ok o =>
        rw [decFeed_cons_ok p m fuel w i s base b rest pos o ho] at h
        cases h1 : applyStep w i [] o.emits { base with off := base.off + pos, len := base.len - pos } with
        | none => rw [h1] at h; cases h
        | some x =>
          obtain ⟨w1, toks1⟩ := x
          rw [h1] at h
          exact (ih w1 o.st _ _ w' res h).trans (applyStep_aslices o.emits h1)

/-! ### A `Data` chunk: `decode_anchored`, or a drop -/

theorem heldOk_anchors {w : World} {v : Iov} {x : Slice} (h : HeldOk w v x) (as : List Anchor) :
    HeldOk w { v with anchors := as } x := ⟨h.reg, h.placed, h.disj⟩

theorem onData_rel (p : Params) (judge : Judge) {x : RdSt} {s : RdState} {rw1 : RecW} {rc1 : Rec} {off hd : Nat}
    {a : ASlice} {bs : List UInt8} (h : RRel x s rw1 rc1)
    (ha : x.w.aslice hd = some a) (hab : x.w.sliceBytes a.slice = bs) (hal : a.slice.len = bs.length) (hne : bs ≠ [])
    (hdb : hd ≠ x.s.chunker.buf) (hdisj : ∀ b', x.w.aslice x.s.chunker.buf = some b' → a.slice.Disj b'.slice)
    (honly : ∀ j b, x.w.aslice j = some b → b.slice.len ≠ 0 → j = x.s.chunker.buf ∨ j = hd)
    (out : StepOutW) (ho : onDataW p judge x rw1 off hd a = some out) :
    OutRel out (consult judge s x.r
      { (if rc1.st = .decodeRecord then decodeChunk p rc1 bs else rc1) with stop := off }) := by
  have hl0 : a.slice.len ≠ 0 := by
    rw [hal]; intro e; exact hne (List.length_eq_zero_iff.mp e)
  obtain ⟨v, hg, hfl, hls, hcs⟩ := h.geo
  have hsm0 := sameMem_setASlice x.w hd none
  have has0 : ∀ j, (x.w.setASlice hd none).aslice j = if j = hd then none else x.w.aslice j :=
    fun j => aslice_setASlice x.w hd j none
  have only0 : Only (x.w.setASlice hd none) x.s.chunker.buf := by
    intro j b hb hl
    rw [has0] at hb
    split at hb
    · cases hb
    · rename_i hj
      rcases honly j b hb hl with e | e
      · exact e
      · exact absurd e hj
  have crel0 : CRel (x.w.setASlice hd none) x.s.chunker s.chunker := by
    obtain ⟨⟨b, hb, hbytes, hlen⟩, hoff⟩ := h.crel
    exact ⟨⟨b, by rw [has0, if_neg (fun e => hdb e.symm)]; exact hb, hbytes, hlen⟩, hoff⟩
  have rinv0 : Rinv { x with w := x.w.setASlice hd none } :=
    hinv_sDrop (w := x.w) (si := hd) h.rinv (by simp [World.step, ha])
  have geo0 : Geo x.s.iov (x.w.setASlice hd none) v := by
    refine ⟨hg.iov, hsm0.iovInv hg.inv, ?_⟩
    intro j b hb hl
    rw [has0] at hb
    split at hb
    · cases hb
    · exact hsm0.heldOk (hg.held j b hb hl)
  simp only [onDataW] at ho
  by_cases hst : rc1.st = .decodeRecord
  · rw [if_pos (by rw [h.st]; exact hst)] at ho
    rw [if_pos hst]
    cases hda : decodeAnchored p (x.w.setASlice hd none) x.s.iov rw1.dec a with
    | none => rw [hda] at ho; cases ho
    | some y =>
      obtain ⟨w', res⟩ := y
      rw [hda] at ho
      have hreg : ∃ c, a.slice.region = .chunk c := (hg.held hd a ha hl0).reg
      -- the invariant of the reader's world after the call
      have rinv' : Rinv { x with w := w' } :=
        ((HPath.single (HStep.take (i := x.s.iov) ha hl0)).trans
          (decodeAnchored_hpath p x.s.iov _ w' _ a res hl0 hreg hda)).inv h.rinv
      -- open `decode_anchored`
      have hbytes0 : (x.w.setASlice hd none).sliceBytes a.slice = bs := hab
      simp only [decodeAnchored, hbytes0] at hda
      cases hf : decFeed p .borrow (bs.length + 1) (x.w.setASlice hd none) x.s.iov rw1.dec a.slice bs 0 with
      | none => rw [hf] at hda; cases hda
      | some z =>
        obtain ⟨w2, r2⟩ := z
        rw [hf] at hda
        simp only [pushAnchorOf, hl0, if_false] at hda
        cases hpa : w2.pushAnchor x.s.iov a.anchor with
        | none => rw [hpa] at hda; cases hda
        | some w3 =>
          rw [hpa] at hda
          simp only [Option.some.injEq, Prod.mk.injEq] at hda
          obtain ⟨rfl, rfl⟩ := hda
          have hb0 : ({ a.slice with off := a.slice.off + 0, len := a.slice.len - 0 } : Slice) = a.slice := by simp
          have hheld_a : HeldOk (x.w.setASlice hd none) v a.slice := hsm0.heldOk (hg.held hd a ha hl0)
          obtain ⟨v2, es, hv2, hp, hfo, happ, hfeed⟩ := decFeed_pushed p x.s.iov a.slice (bs.length + 1) _ v rw1.dec bs 0
            w2 r2 geo0.iov geo0.inv (by rw [hb0]; exact hheld_a) (by rw [hb0]; exact hbytes0) hf
          rw [hb0] at hfo
          obtain ⟨m1, m2⟩ := World.pushAnchor_spec w2 x.s.iov v2 a.anchor hv2 hp.inv
          rw [m1] at hpa
          simp only [Option.some.injEq] at hpa
          subst hpa
          have hasl : ∀ j, (w2.setIov x.s.iov (some { v2 with anchors := v2.anchors ++ [{ a.anchor with count := 0 }] })).aslice j
              = (x.w.setASlice hd none).aslice j := by
            intro j
            exact aslice_of_same (decFeed_aslices p .borrow x.s.iov a.slice _ _ rw1.dec bs 0 w2 r2 hf) j
          have hsm3 := sameMem_setIov w2 x.s.iov (some { v2 with anchors := v2.anchors ++ [{ a.anchor with count := 0 }] })
          -- the buffered tail is still held, with its bytes
          have hbuf : ∀ b, x.w.aslice x.s.chunker.buf = some b → b.slice.len ≠ 0 →
              HeldOk w2 v2 b.slice ∧ w2.sliceBytes b.slice = x.w.sliceBytes b.slice := by
            intro b hb hl
            have h1 : HeldOk (x.w.setASlice hd none) v b.slice :=
              geo0.held x.s.chunker.buf b (by rw [has0, if_neg (fun e => hdb e.symm)]; exact hb) hl
            exact hfo b.slice h1 (hdisj b hb)
          have geo' : Geo x.s.iov (w2.setIov x.s.iov (some { v2 with anchors := v2.anchors ++ [{ a.anchor with count := 0 }] }))
              { v2 with anchors := v2.anchors ++ [{ a.anchor with count := 0 }] } := by
            refine ⟨by simp, m2.inv, ?_⟩
            intro j b hb hl
            rw [hasl] at hb
            have hj := only0 j b hb hl
            subst hj
            rw [has0, if_neg (fun e => hdb e.symm)] at hb
            exact hsm3.heldOk (heldOk_anchors (hbuf b hb hl).1 _)
          have crel' : CRel (w2.setIov x.s.iov (some { v2 with anchors := v2.anchors ++ [{ a.anchor with count := 0 }] }))
              x.s.chunker s.chunker := by
            obtain ⟨⟨b, hb, hbytes, hlen⟩, hoff⟩ := h.crel
            refine ⟨⟨b, by rw [hasl, has0, if_neg (fun e => hdb e.symm)]; exact hb, ?_, hlen⟩, hoff⟩
            rw [hsm3.sliceBytes]
            by_cases hl : b.slice.len = 0
            · rw [sliceBytes_len0 _ _ hl, ← hbytes, sliceBytes_len0 _ _ hl]
            · rw [(hbuf b hb hl).2]; exact hbytes
          have only' : Only (w2.setIov x.s.iov (some { v2 with anchors := v2.anchors ++ [{ a.anchor with count := 0 }] }))
              x.s.chunker.buf := by
            intro j b hb hl
            rw [hasl] at hb
            exact only0 j b hb hl
          have hflat' : (w2.setIov x.s.iov (some { v2 with anchors := v2.anchors ++ [{ a.anchor with count := 0 }] })).flat
              v2.slices = appended (rc1.emits ++ es) := by
            have e1 := m2.flat
            simp only [List.append_nil] at e1
            rw [e1, hp.flat, hsm0.flat, hfl, appended_append, emitBytes_eq_appended]
          have hlog' : v2.logicalSize = (appended (rc1.emits ++ es)).length := by
            rw [hp.logicalSize, hls, appended_append, emitBytes_eq_appended]; simp
          have hcons' : v2.consumedSize = 0 := by rw [hp.consumedSize, hcs]
          have happ' : AllAppend (rc1.emits ++ es) := allAppend_append h.app (allAppend_of_appendOnly happ)
          have base0 : RRel0 { x with w := w2.setIov x.s.iov (some { v2 with anchors := v2.anchors ++ [{ a.anchor with count := 0 }] }) } s :=
            ⟨crel', h.ls, h.hist, rinv'⟩
          cases r2 with
          | ok d' =>
            simp only at ho hfeed
            cases ho
            have hfa : Dec.feedAll p .borrow rc1.dec bs = .ok (d', es) := by
              unfold Dec.feedAll; rw [← h.dec]; exact hfeed
            have : decodeChunk p rc1 bs = { rc1 with dec := d', emits := rc1.emits ++ es } := by
              simp only [decodeChunk, hfa]
            rw [this]
            exact consult_rel judge (x := { x with w := _ })
              { toRRel0 := base0, st := h.st, start := h.start, stop := rfl, dec := rfl, app := happ',
                geo := ⟨_, geo', hflat', hlog', hcons'⟩ } only'
          | error e =>
            simp only at ho hfeed
            cases ho
            have hfa : Dec.feedAll p .borrow rc1.dec bs = .error (e, es) := by
              unfold Dec.feedAll; rw [← h.dec]; exact hfeed
            have : decodeChunk p rc1 bs = { rc1 with st := .skipRecord, emits := rc1.emits ++ es } := by
              simp only [decodeChunk, hfa]
            rw [this]
            exact consult_rel judge (x := { x with w := _ })
              { toRRel0 := base0, st := rfl, start := h.start, stop := rfl, dec := h.dec, app := happ',
                geo := ⟨_, geo', hflat', hlog', hcons'⟩ } only'
  · rw [if_neg (by rw [h.st]; exact hst)] at ho
    rw [if_neg hst]
    cases ho
    exact consult_rel judge (x := { x with w := x.w.setASlice hd none })
      { crel := crel0, ls := h.ls, hist := h.hist, rinv := rinv0, st := h.st, start := h.start, stop := rfl,
        dec := h.dec, app := h.app, geo := ⟨v, geo0, by rw [hsm0.flat]; exact hfl, hls, hcs⟩ } only0

/-! ### One chunk, one step, one call -/

theorem onChunk_rel (p : Params) (judge : Judge) {x : RdSt} {s : RdState} {rw : RecW} {rc : Rec} {chW : ChunkW}
    {ch : Chunk} (h : RRel x s rw rc) (hres : ResRel x.w (.ok chW) (.ok ch)) (hoff : DataOffOK ch)
    (hdd : ∀ off hd, chW = .data off hd → hd ≠ x.s.chunker.buf ∧ ∃ a b', x.w.aslice hd = some a ∧
      x.w.aslice x.s.chunker.buf = some b' ∧ a.slice.Disj b'.slice)
    (honly : ∀ j b, x.w.aslice j = some b → b.slice.len ≠ 0 → j = x.s.chunker.buf ∨ ∃ off, chW = .data off j)
    (out : StepOutW) (ho : onChunkW p judge x rw chW = some out) : OutRel out (onChunk p judge s x.r rc ch) := by
  have only_nd : (∀ off hd, chW ≠ .data off hd) → Only x.w x.s.chunker.buf := by
    intro hnd j b hb hl
    rcases honly j b hb hl with e | ⟨off, e⟩
    · exact e
    · exact absurd e (hnd off j)
  cases chW with
  | sentinel off =>
    cases ch with
    | eof => exact absurd hres (by simp [ResRel])
    | data o bs => exact absurd hres (by simp [ResRel])
    | sentinel off' =>
      simp only [ResRel] at hres
      subst hres
      have ho1 := only_nd (fun _ _ e => by cases e)
      simp only [onChunkW] at ho
      simp only [onChunk]
      by_cases h2 : off < 2
      · rw [if_pos h2] at ho ⊢
        cases ho
        exact ⟨h.toRRel0, ho1, rfl, trivial⟩
      · rw [if_neg h2] at ho ⊢
        have h2' : RRel { x with s := { x.s with lastSentinel := off - 2 } } { s with lastSentinel := off - 2 } rw rc :=
          { crel := h.crel, ls := rfl, hist := h.hist, rinv := h.rinv, st := h.st, start := h.start, stop := h.stop,
            dec := h.dec, app := h.app, geo := h.geo }
        rw [h.st] at ho
        cases hst : rc.st with
        | skipSentinel =>
          rw [hst] at ho
          simp only [Option.some.injEq] at ho
          subst ho
          exact consult_rel judge (x := { x with s := { x.s with lastSentinel := off - 2 } })
            { h2' with st := rfl, start := rfl, stop := rfl } ho1
        | decodeRecord =>
          rw [hst] at ho
          simp only [Option.some.injEq] at ho
          subst ho
          exact afterBreak_rel (x := { x with s := { x.s with lastSentinel := off - 2 } }) h2' ho1
        | skipRecord =>
          rw [hst] at ho
          simp only [Option.some.injEq] at ho
          subst ho
          exact afterBreak_rel (x := { x with s := { x.s with lastSentinel := off - 2 } }) h2' ho1
  | eof =>
    cases ch with
    | sentinel o => exact absurd hres (by simp [ResRel])
    | data o bs => exact absurd hres (by simp [ResRel])
    | eof =>
      have ho1 := only_nd (fun _ _ e => by cases e)
      simp only [onChunkW] at ho
      simp only [onChunk]
      rw [h.start, h.stop] at ho
      by_cases he : rc.start = rc.stop
      · rw [if_pos he] at ho ⊢
        cases ho
        exact ⟨rrel0_reset h.toRRel0, ho1, rfl, trivial⟩
      · rw [if_neg he] at ho ⊢
        cases ho
        exact afterBreak_rel h ho1
  | data off hd =>
    cases ch with
    | sentinel o => exact absurd hres (by simp [ResRel])
    | eof => exact absurd hres (by simp [ResRel])
    | data off' bs =>
      obtain ⟨rfl, a, ha, hab, hal, hne⟩ := hres
      obtain ⟨hdb, a', b', ha', hb', hdisj⟩ := hdd off hd rfl
      rw [ha] at ha'
      cases ha'
      simp only [onChunkW, ha] at ho
      simp only [onChunk]
      have hl0 : a.slice.len ≠ 0 := by
        rw [hal]; intro e; exact hne (List.length_eq_zero_iff.mp e)
      have hemp : bs.isEmpty = false := by
        cases bs with
        | nil => exact absurd rfl hne
        | cons _ _ => rfl
      rw [if_neg hl0] at ho
      rw [hemp]
      simp only [Bool.false_eq_true, if_false]
      have hoffok : bs.length ≤ off := hoff
      rw [if_neg (by rw [hal]; intro hc; omega)] at ho
      -- the record locals after the `SkipSentinel → DecodeRecord` transition
      have hrc1 : RRel x s
          (match rw.st with
            | .skipSentinel => { rw with start := off - a.slice.len, stop := off - a.slice.len, st := .decodeRecord }
            | _ => rw)
          (match rc.st with
            | .skipSentinel => { rc with start := off - bs.length, stop := off - bs.length, st := .decodeRecord }
            | _ => rc) := by
        rw [h.st, hal]
        cases hst : rc.st with
        | skipSentinel =>
          exact { crel := h.crel, ls := h.ls, hist := h.hist, rinv := h.rinv, st := rfl, start := rfl, stop := rfl,
                  dec := h.dec, app := h.app, geo := h.geo }
        | decodeRecord => exact h
        | skipRecord => exact h
      refine onData_rel p judge hrc1 ha hab hal hne hdb (fun b'' hb'' => by rw [hb'] at hb''; cases hb''; exact hdisj)
        ?_ out ho
      intro j b hb hl
      rcases honly j b hb hl with e | ⟨o, e⟩
      · exact Or.inl e
      · cases e; exact Or.inr rfl

theorem step_rel (clamp : Nat) (t : Tuning) (p : Params) (judge : Judge) (block : Nat) {x : RdSt} {s : RdState}
    {rw : RecW} {rc : Rec} (h : RRel x s rw rc) (hon : Only x.w x.s.chunker.buf) (out : StepOutW)
    (hs : stepW clamp p judge block x rw = some out) : OutRel out (Stream.step clamp t p judge block s x.r rc) := by
  simp only [stepW] at hs
  simp only [Stream.step]
  rw [h.start, h.stop, h.st] at hs
  by_cases hass : decide (rc.start = rc.stop) ≠ decide (rc.st = .skipSentinel)
  · rw [if_pos hass] at hs ⊢
    cases hs
    exact ⟨h.toRRel0, hon, rfl, trivial⟩
  · rw [if_neg hass] at hs ⊢
    cases hp : pumpW clamp (.iov x.s.iov) block ⟨x.w, x.s.chunker, x.r, []⟩ with
    | none => rw [hp] at hs; cases hs
    | some y =>
      obtain ⟨res, o'⟩ := y
      rw [hp] at hs
      simp only at hs
      obtain ⟨r1, r2, r3, _, r5⟩ := pumpW_refines clamp (.iov x.s.iov) block t ⟨x.w, x.s.chunker, x.r, []⟩ s.chunker s.mem
        res o' h.crel hp
      simp only at r1 r2 r3
      have hri : Rinv ⟨o'.w, { x.s with chunker := o'.c }, o'.r⟩ :=
        pumpW_hinv (i := x.s.iov) (s := ⟨x.w, x.s.chunker, x.r, []⟩) h.rinv hp
      obtain ⟨v, hg, hfl, hls, hcs⟩ := h.geo
      obtain ⟨v', hg', hpu⟩ := pumpW_geo (s := ⟨x.w, x.s.chunker, x.r, []⟩) hg hp
      have honly := pumpW_only (s := ⟨x.w, x.s.chunker, x.r, []⟩) hon hp
      have h1 : RRel ⟨o'.w, { x.s with chunker := o'.c }, o'.r⟩
          { s with chunker := (pump clamp t block s.chunker s.mem x.r).chunker,
                   mem := (pump clamp t block s.chunker s.mem x.r).mem } rw rc :=
        { crel := r2, ls := h.ls, hist := h.hist, rinv := hri, st := h.st, start := h.start, stop := h.stop,
          dec := h.dec, app := h.app
          geo := ⟨v', hg', by rw [hpu.flat, hfl]; simp, by rw [hpu.logicalSize, hls]; simp,
            by rw [hpu.consumedSize, hcs]⟩ }
      have only_nd : (∀ off hd, res ≠ .ok (.data off hd)) → Only o'.w o'.c.buf := by
        intro hnd j b hb hl
        rcases honly j b hb hl with e | ⟨off, e⟩
        · exact e
        · exact absurd e (hnd off j)
      cases hres : (pump clamp t block s.chunker s.mem x.r).res with
      | ioerr k' =>
        rw [hres] at r1
        cases res with
        | ioerr k =>
          simp only [ResRel] at r1
          subst r1
          cases hs
          exact ⟨rrel0_reset h1.toRRel0, only_nd (fun _ _ e => by cases e), r3, rfl⟩
        | panic => exact absurd r1 (by simp [ResRel])
        | ok c => cases c <;> exact absurd r1 (by simp [ResRel])
      | panic =>
        rw [hres] at r1
        cases res with
        | panic =>
          cases hs
          exact ⟨h1.toRRel0, only_nd (fun _ _ e => by cases e), r3, trivial⟩
        | ioerr k => exact absurd r1 (by simp [ResRel])
        | ok c => cases c <;> exact absurd r1 (by simp [ResRel])
      | ok ch =>
        rw [hres] at r1
        cases res with
        | ioerr k => cases ch <;> exact absurd r1 (by simp [ResRel])
        | panic => cases ch <;> exact absurd r1 (by simp [ResRel])
        | ok chW =>
          simp only at hs
          have hoff := pump_dataOff clamp t block s.chunker s.mem x.r ch hres
          have := onChunk_rel p judge (x := ⟨o'.w, { x.s with chunker := o'.c }, o'.r⟩) h1 r1 hoff
            (by
              intro off hd e
              subst e
              exact r5)
            (by
              intro j b hb hl
              rcases honly j b hb hl with e | ⟨off, e⟩
              · exact Or.inl e
              · simp only [PumpResW.ok.injEq] at e
                exact Or.inr ⟨off, e⟩)
            out hs
          rw [r3] at this
          exact this

/-- The top of the `'retry` loop: after `clear()` the iovec is empty and every detached slice is held. -/
theorem clear_rel {x x' : RdSt} {s : RdState} (h : RRel0 x s) (hon : Only x.w x.s.chunker.buf)
    (hc : clearIov x = some x') : RRel x' s RecW.fresh Rec.fresh ∧ Only x'.w x'.s.chunker.buf ∧ x'.r = x.r := by
  have hri := clearIov_rinv h.rinv hc
  simp only [clearIov, Option.map_eq_some_iff] at hc
  obtain ⟨w', hw, rfl⟩ := hc
  unfold World.clear at hw
  cases hv : x.w.iov x.s.iov with
  | none => rw [hv] at hw; cases hw
  | some v =>
    rw [hv] at hw
    simp only [Option.some.injEq] at hw
    subst hw
    have hsm := sameMem_setIov x.w x.s.iov (some { Iov.empty with arena := v.arena })
    have hok := hinv_iovOk h.rinv hv
    have hb := h.rinv.bounded
    obtain ⟨caps, har⟩ := h.rinv.arena
    simp only [holding_none] at hb har
    refine ⟨{ crel := crel_sameMem h.crel hsm (fun _ => rfl), ls := h.ls, hist := h.hist, rinv := hri, st := rfl,
              start := rfl, stop := rfl, dec := rfl, app := allAppend_nil, geo := ?_ }, hon, rfl⟩
    refine ⟨{ Iov.empty with arena := v.arena }, ⟨by simp, ?_, ?_⟩, ?_, rfl, rfl⟩
    · exact hsm.iovInv (IovInv.empty x.w v.arena hok.cacheLt)
    · intro j b hbj hl
      have hbj' : x.w.aslice j = some b := hbj
      have haok := h.rinv.asliceOk j b hbj'
      have hreg : ∃ c, b.slice.region = .chunk c := by
        cases hr : b.slice.region with
        | chunk c => exact ⟨c, rfl⟩
        | ext e => exact absurd (haok.extEmpty e hr) hl
      refine hsm.heldOk ⟨hreg, ?_, by intro y hy; cases hy⟩
      intro c hc
      refine ⟨hb.sliceLt b.slice c (Or.inr ⟨j, b, hbj', rfl⟩) hc, ?_⟩
      intro ca hca hcc
      have hca' : v.arena.cache = some ca := hca
      exact har.below (.iov x.s.iov) ca b.slice (by simp [World.cacheAt, hv, hca']) (Or.inr ⟨j, b, hbj', rfl⟩)
        (by rw [hc, hcc])
    · rfl

theorem run_rel (clamp : Nat) (t : Tuning) (p : Params) (judge : Judge) (block : Nat) : ∀ (fuel : Nat) (x : RdSt)
    (s : RdState) (rw : RecW) (rc : Rec) (res : NextResW) (x' : RdSt), RRel x s rw rc → Only x.w x.s.chunker.buf →
    runW clamp p judge block fuel x rw = some (res, x') →
    ResN x' res (Stream.run clamp t p judge block fuel s x.r rc).1 ∧
    RRel0 x' (Stream.run clamp t p judge block fuel s x.r rc).2.1 ∧ Only x'.w x'.s.chunker.buf ∧
    x'.r = (Stream.run clamp t p judge block fuel s x.r rc).2.2 := by
  intro fuel
  induction fuel with
  | zero =>
    intro x s rw rc res x' h hon hr
    simp only [runW, Option.some.injEq, Prod.mk.injEq] at hr
    obtain ⟨rfl, rfl⟩ := hr
    exact ⟨trivial, h.toRRel0, hon, rfl⟩
  | succ fuel ih =>
    intro x s rw rc res x' h hon hr
    simp only [runW] at hr
    simp only [Stream.run]
    cases hs : stepW clamp p judge block x rw with
    | none => rw [hs] at hr; cases hr
    | some out =>
      rw [hs] at hr
      have hrel := step_rel clamp t p judge block h hon out hs
      cases hst : Stream.step clamp t p judge block s x.r rc with
      | done res' s' r' =>
        rw [hst] at hrel
        cases out with
        | done r y =>
          simp only [Option.some.injEq, Prod.mk.injEq] at hr
          obtain ⟨rfl, rfl⟩ := hr
          obtain ⟨a1, a2, a3, a4⟩ := hrel
          exact ⟨a4, a1, a2, a3⟩
        | «continue» y rw' => exact absurd hrel (by simp [OutRel])
        | retry y => exact absurd hrel (by simp [OutRel])
      | «continue» s' r' rc' =>
        rw [hst] at hrel
        cases out with
        | done r y => exact absurd hrel (by simp [OutRel])
        | «continue» y rw' =>
          obtain ⟨a1, a2, a3⟩ := hrel
          have := ih y s' rw' rc' res x' a1 a2 hr
          rw [a3] at this
          exact this
        | retry y =>
          obtain ⟨a0, a1, a2, a3⟩ := hrel
          subst a0
          simp only at hr
          cases hc : clearIov y with
          | none => rw [hc] at hr; cases hr
          | some y' =>
            rw [hc] at hr
            obtain ⟨b1, b2, b3⟩ := clear_rel a1 a2 hc
            have := ih y' s' RecW.fresh Rec.fresh res x' b1 b2 hr
            rw [b3, a3] at this
            exact this

theorem bufLen_eq {x : RdSt} {s : RdState} (h : CRel x.w x.s.chunker s.chunker) : bufLen x = s.chunker.buf.length := by
  obtain ⟨⟨b, hb, _, hl⟩, _⟩ := h
  simp [bufLen, hb, hl]

/-- **`next_record_bytes`, world level against byte level.**  From related states, with the same reader, judge
and block size: the same verdict and byte range, the record the byte-level reader returns is the flattened
iovec, and the states are related again. -/
theorem nextW_refines (clamp : Nat) (t : Tuning) (p : Params) (judge : Judge) (block : Option Nat) {x x' : RdSt}
    {s : RdState} {res : NextResW} (h : RRel0 x s) (hon : Only x.w x.s.chunker.buf)
    (hn : nextW clamp p judge block x = some (res, x')) :
    ResN x' res (next clamp t p judge block s x.r).1 ∧ RRel0 x' (next clamp t p judge block s x.r).2.1 ∧
    Only x'.w x'.s.chunker.buf ∧ x'.r = (next clamp t p judge block s x.r).2.2 := by
  simp only [nextW] at hn
  simp only [next]
  cases hc : clearIov x with
  | none => rw [hc] at hn; cases hn
  | some y =>
    rw [hc] at hn
    obtain ⟨b1, b2, b3⟩ := clear_rel h hon hc
    have hfuel : runFuelW x = runFuel s x.r := by
      simp only [runFuelW, runFuel, bufLen_eq h.crel]
    rw [hfuel] at hn
    have := run_rel clamp t p judge (block.getD Woodpile.Gen.defaultBlockSize) _ y s RecW.fresh Rec.fresh res x' b1 b2 hn
    rw [b3] at this
    exact this

/-- A new reader is related to the byte-level `RdState.new`. -/
theorem rrel0_new (pol : Policy) (tun : Tuning) :
    RRel0 (RdSt.new pol tun) RdState.new ∧ Only (RdSt.new pol tun).w (RdSt.new pol tun).s.chunker.buf := by
  refine ⟨⟨?_, rfl, rfl, rinv_new pol tun⟩, ?_⟩
  · refine ⟨⟨ASlice.empty, ?_, sliceBytes_empty _, rfl⟩, rfl⟩
    show (((World.init pol tun).addIov Iov.empty).1.addASlice ASlice.empty).1.aslice _ = _
    rw [aslice_addASlice]
    exact if_pos rfl
  · intro j b hb hl
    have : (RdSt.new pol tun).w.aslices = [some ASlice.empty] := rfl
    have hj : (RdSt.new pol tun).w.aslice j = ([some ASlice.empty] : List (Option ASlice)).getD j none := by
      show (RdSt.new pol tun).w.aslices.getD j none = _
      rw [this]
    rw [hj] at hb
    cases j with
    | zero => simp at hb; subst hb; exact absurd rfl hl
    | succ n => simp at hb

/-! ### Any number of calls -/

/-- What the caller sees of a world-level result when it is returned: the record is the flattened iovec. -/
def absNext (x : RdSt) : NextResW → NextRes
  | .some a b => .some (match x.w.iov x.s.iov with | some v => x.w.flat v.slices | none => []) a b
  | .none => .none
  | .ioerr k => .ioerr k
  | .panic => .panic

theorem ResN.abs {x : RdSt} {res : NextResW} {res' : NextRes} (h : ResN x res res') : absNext x res = res' := by
  cases res with
  | some a b =>
    cases res' with
    | some bytes a' b' =>
      obtain ⟨rfl, rfl, v, hv, hf⟩ := h
      simp [absNext, hv, hf]
    | none => exact absurd h (by simp [ResN])
    | ioerr k => exact absurd h (by simp [ResN])
    | panic => exact absurd h (by simp [ResN])
  | none =>
    cases res' with
    | none => rfl
    | some bytes a' b' => exact absurd h (by simp [ResN])
    | ioerr k => exact absurd h (by simp [ResN])
    | panic => exact absurd h (by simp [ResN])
  | ioerr k =>
    cases res' with
    | ioerr k' => simp only [ResN] at h; subst h; rfl
    | some bytes a' b' => exact absurd h (by simp [ResN])
    | none => exact absurd h (by simp [ResN])
    | panic => exact absurd h (by simp [ResN])
  | panic =>
    cases res' with
    | panic => rfl
    | some bytes a' b' => exact absurd h (by simp [ResN])
    | none => exact absurd h (by simp [ResN])
    | ioerr k => exact absurd h (by simp [ResN])

/-- Successive `next_record_bytes` calls on the world-level reader, each with its own judge and block size;
the results as the caller sees them when they are returned. -/
def readerRunW (clamp : Nat) (p : Params) : List (Judge × Option Nat) → RdSt → Option (List NextRes × RdSt)
  | [], x => some ([], x)
  | (judge, block) :: rest, x =>
    match nextW clamp p judge block x with
    | none => none
    | some (res, x') =>
      match readerRunW clamp p rest x' with
      | none => none
      | some (rs, x'') => some (absNext x' res :: rs, x'')

/-- The same calls on the byte-level reader of C06. -/
def readerRunB (clamp : Nat) (t : Tuning) (p : Params) :
    List (Judge × Option Nat) → RdState → Reader → List NextRes × RdState × Reader
  | [], s, r => ([], s, r)
  | (judge, block) :: rest, s, r =>
    let o := next clamp t p judge block s r
    let tl := readerRunB clamp t p rest o.2.1 o.2.2
    (o.1 :: tl.1, tl.2)

theorem readerRun_refines (clamp : Nat) (t : Tuning) (p : Params) : ∀ (calls : List (Judge × Option Nat)) (x : RdSt)
    (s : RdState) (rs : List NextRes) (x' : RdSt), RRel0 x s → Only x.w x.s.chunker.buf →
    readerRunW clamp p calls x = some (rs, x') →
    rs = (readerRunB clamp t p calls s x.r).1 ∧ RRel0 x' (readerRunB clamp t p calls s x.r).2.1 ∧
    x'.r = (readerRunB clamp t p calls s x.r).2.2 := by
  intro calls
  induction calls with
  | nil =>
    intro x s rs x' h _ hr
    simp only [readerRunW, Option.some.injEq, Prod.mk.injEq] at hr
    obtain ⟨rfl, rfl⟩ := hr
    exact ⟨rfl, h, rfl⟩
  | cons c rest ih =>
    intro x s rs x' h hon hr
    obtain ⟨judge, block⟩ := c
    simp only [readerRunW] at hr
    cases hn : nextW clamp p judge block x with
    | none => rw [hn] at hr; cases hr
    | some y =>
      obtain ⟨res, x1⟩ := y
      rw [hn] at hr
      simp only at hr
      cases hrest : readerRunW clamp p rest x1 with
      | none => rw [hrest] at hr; cases hr
      | some z =>
        obtain ⟨rs1, x2⟩ := z
        rw [hrest] at hr
        simp only [Option.some.injEq, Prod.mk.injEq] at hr
        obtain ⟨rfl, rfl⟩ := hr
        obtain ⟨a1, a2, a3, a4⟩ := nextW_refines clamp t p judge block h hon hn
        obtain ⟨b1, b2, b3⟩ := ih x1 _ rs1 x2 a2 a3 hrest
        simp only [readerRunB]
        rw [a4] at b1 b2 b3
        exact ⟨by rw [a1.abs, b1], b2, b3⟩

end Woodpile.StreamWorld

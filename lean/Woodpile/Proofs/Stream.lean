/-
Helper lemmas for C08 / C06: the chained `read_n` of `StreamChunker::pump` on
well-behaved readers, the refill loop, one `pump`, and sequences of pumps.
-/
import Woodpile.Model.Stream
import Woodpile.Proofs.ReadN
import Woodpile.Proofs.StreamBytes

namespace Woodpile.Stream
open Woodpile.Arena Woodpile.ReadN Woodpile.Hcobs

/-! ### Well-behaved readers -/

/-- An answer a well-behaved reader may give while data remains: a short read
(at least one byte) or `Interrupted`.  (Zero-byte reads are what such a reader
answers once its source is exhausted.) -/
def EvOK : Ev → Prop
  | .deliver k => 1 ≤ k
  | .eof => False
  | .err k => k = 0

instance : DecidablePred EvOK := fun e => by
  cases e <;> simp only [EvOK] <;> infer_instance

/-- number of `deliver` answers in a script -/
def delivers : List Ev → Nat
  | [] => 0
  | .deliver _ :: t => delivers t + 1
  | _ :: t => delivers t

/-- The readers C06/C08 quantify over: any interleaving of non-empty short reads
and `Interrupted` failures, and end-of-file only at the real end of the source
(the script does not run out before the source does: every delivery hands over
at least one byte, so `src.length` deliveries always suffice). -/
structure WellBehaved (r : Reader) : Prop where
  evs : ∀ e ∈ r.script, EvOK e
  enough : r.src.length ≤ delivers r.script

theorem WellBehaved.src_nil_of_script_nil {r : Reader} (h : WellBehaved r) (hs : r.script = []) :
    r.src = [] := by
  have := h.enough
  rw [hs] at this
  exact List.length_eq_zero_iff.mp (by simpa [delivers] using this)

/-- One `read` of a well-behaved reader with a non-empty buffer. -/
theorem read_wb (r : Reader) (n : Nat) (hn : 0 < n) (h : WellBehaved r) :
    (∃ bs r', r.read n = (.ok bs, r') ∧ r.src = bs ++ r'.src ∧ bs.length ≤ n ∧ WellBehaved r' ∧
        r'.script.length ≤ r.script.length ∧
        (r.script ≠ [] → r'.script.length < r.script.length) ∧
        (bs = [] → r'.src = [])) ∨
    (∃ r', r.read n = (.err 0, r') ∧ r'.src = r.src ∧ WellBehaved r' ∧
        r'.script.length < r.script.length) := by
  obtain ⟨src, script⟩ := r
  cases script with
  | nil =>
    left
    have hsrc : src = [] := h.src_nil_of_script_nil rfl
    subst hsrc
    exact ⟨[], ⟨[], []⟩, rfl, rfl, by simp, h, by simp, by simp, fun _ => rfl⟩
  | cons e s =>
    have he := h.evs e (by simp)
    have hs : ∀ e' ∈ s, EvOK e' := fun e' he' => h.evs e' (by simp [he'])
    cases e with
    | eof => exact absurd he (by simp [EvOK])
    | err k =>
      right
      have hk : k = 0 := he
      subst hk
      refine ⟨⟨src, s⟩, rfl, rfl, ⟨hs, ?_⟩, by simp⟩
      have := h.enough; simpa [delivers] using this
    | deliver k =>
      left
      have hk : 1 ≤ k := he
      refine ⟨src.take (min k n), ⟨src.drop (min k n), s⟩, rfl, by simp, ?_, ⟨hs, ?_⟩, by simp, by simp, ?_⟩
      · simp [List.length_take]; omega
      · have := h.enough
        simp only [delivers, List.length_drop] at this ⊢
        cases src with
        | nil => simp
        | cons a t => simp at this ⊢; omega
      · intro hnil
        have h0 : (src.take (min k n)).length = 0 := by rw [hnil]; rfl
        rw [List.length_take] at h0
        have h1 : src.length = 0 := by omega
        simp [List.length_eq_zero_iff.mp h1]

/-- `read_n_impl` on a well-behaved reader with more attempts than scripted
answers: it returns the next bytes of the source, never more than asked, and
comes back short only at the real end of the source. -/
theorem loop_wb (count : Nat) : ∀ (fuel : Nat) (r : Reader) (got : List UInt8) (err : Option Nat)
    (calls : List Call), WellBehaved r → r.script.length < fuel → got.length < count →
    ∃ bs, (loop count fuel r got err calls).got = got ++ bs ∧
      r.src = bs ++ (loop count fuel r got err calls).reader.src ∧
      (loop count fuel r got err calls).got.length ≤ count ∧
      WellBehaved (loop count fuel r got err calls).reader ∧
      ((loop count fuel r got err calls).got.length < count →
        (loop count fuel r got err calls).reader.src = [] ∧ (loop count fuel r got err calls).err = none) := by
  intro fuel
  induction fuel with
  | zero => intro r got err calls _ hf; exact absurd hf (by omega)
  | succ fuel ih =>
    intro r got err calls hwb hf hlt
    have hn : 0 < count - got.length := by omega
    unfold loop
    simp only
    rcases read_wb r (count - got.length) hn hwb with
      ⟨bs, r', hread, hsrc, hlen, hwb', hsl, hsl', hnil⟩ | ⟨r', hread, hsrc, hwb', hsl⟩
    · rw [hread]
      simp only
      by_cases hbs : bs.length = 0
      · have hb : bs = [] := List.length_eq_zero_iff.mp hbs
        subst hb
        simp only [List.length_nil, if_true]
        exact ⟨[], by simp, by simpa using hsrc, by first | omega | (simp; omega), hwb', fun _ => ⟨hnil rfl, by first | rfl | trivial⟩⟩
      · simp only [hbs, if_false]
        by_cases hfull : (got ++ bs).length = count
        · simp only [hfull, if_true]
          exact ⟨bs, rfl, hsrc, by omega, hwb', fun h => absurd hfull (by omega)⟩
        · simp only [hfull, if_false]
          have hlt' : (got ++ bs).length < count := by simp at hfull ⊢; omega
          have hne : r.script ≠ [] := by
            intro hs
            have := hwb.src_nil_of_script_nil hs
            rw [this] at hsrc
            have : bs = [] := by
              cases bs with
              | nil => rfl
              | cons a t => simp at hsrc
            exact hbs (by simp [this])
          have hf' : r'.script.length < fuel := by have := hsl' hne; omega
          obtain ⟨bs2, h1, h2, h3, h4, h5⟩ :=
            ih r' (got ++ bs) err (calls ++ [(count - got.length, .ok bs)]) hwb' hf' hlt'
          exact ⟨bs ++ bs2, by rw [h1]; simp, by rw [hsrc, h2]; simp, h3, h4, h5⟩
    · rw [hread]
      simp only
      have hne : got.length ≠ count := by omega
      simp only [ne_eq, not_true_eq_false, if_false, hne]
      have hf' : r'.script.length < fuel := by omega
      obtain ⟨bs2, h1, h2, h3, h4, h5⟩ :=
        ih r' got (some 0) (calls ++ [(count - got.length, .err 0)]) hwb' hf' hlt
      exact ⟨bs2, h1, by rw [← hsrc, h2], h3, h4, h5⟩

/-- Any reader (not only well-behaved ones): once there are more attempts than
scripted answers, the number of attempts does not matter — every attempt that
does not end the loop consumes one answer, and an exhausted script answers
end-of-file, which ends the loop.  This is why the model may replace
`NonZeroUsize::MAX` by `script.length + 1`. -/
theorem loop_fuel_irrelevant (count : Nat) : ∀ (f1 f2 : Nat) (r : Reader) (got : List UInt8)
    (err : Option Nat) (calls : List Call), r.script.length < f1 → r.script.length < f2 →
    loop count f1 r got err calls = loop count f2 r got err calls := by
  intro f1
  induction f1 with
  | zero => intro f2 r got err calls h; exact absurd h (by omega)
  | succ f1 ih =>
    intro f2 r got err calls h1 h2
    cases f2 with
    | zero => exact absurd h2 (by omega)
    | succ f2 =>
      obtain ⟨src, script⟩ := r
      cases script with
      | nil => simp [loop, Reader.read]
      | cons e s =>
        simp only [List.length_cons] at h1 h2
        cases e with
        | deliver k =>
          simp only [loop, Reader.read]
          split
          · rfl
          · split
            · rfl
            · exact ih f2 _ _ _ _ (by simp; omega) (by simp; omega)
        | eof => simp [loop, Reader.read]
        | err k =>
          simp only [loop, Reader.read]
          split
          · rfl
          · split
            · rfl
            · exact ih f2 _ _ _ _ (by simp; omega) (by simp; omega)

theorem readNCore_fuel_irrelevant (r : Reader) (count f1 f2 : Nat)
    (h1 : r.script.length < f1) (h2 : r.script.length < f2) :
    readNCore r count f1 = readNCore r count f2 := by
  unfold readNCore
  split
  · rfl
  · rw [loop_fuel_irrelevant count f1 f2 r [] none [] h1 h2]

theorem readN_fst (t : Tuning) (a : Arena) (next : Nat) (r : Reader) (count attempts : Nat) :
    (readN t a next r count attempts).1 = readNCore r count attempts := by
  unfold readN
  split
  · rename_i h; simp [readNCore, h]
  · simp only
    split <;> rfl

theorem finish_ok (o : LoopOut) (h : o.got = [] → o.err = none) : (finish o).res = .ok o.got := by
  rcases finish_res o with ⟨h1, _⟩ | ⟨e, _, hg, he⟩
  · exact h1
  · rw [h hg] at he; simp at he

theorem chain_nil (r : Reader) : chain [] r = r := by
  cases r; simp [chain]

/-- What `read_n(carry.chain(reader), count, usize::MAX)` returns on a
well-behaved reader: the carry followed by the next bytes of the source, at
most `count` in all, fewer only at the real end of the source. -/
theorem readChained_spec (t : Tuning) (m : Mem) (carry : List UInt8) (r : Reader) (count : Nat)
    (hwb : WellBehaved r) (hc : carry.length ≤ 1) (hcount : 1 ≤ count) :
    ∃ bs, (readChained t m carry r count).1.res = .ok (carry ++ bs) ∧
      r.src = bs ++ (readChained t m carry r count).1.reader.src ∧
      (carry ++ bs).length ≤ count ∧
      WellBehaved (readChained t m carry r count).1.reader ∧
      ((carry ++ bs).length < count → (readChained t m carry r count).1.reader.src = []) := by
  have hne : count ≠ 0 := by omega
  have e1 : (readChained t m carry r count).1 =
      finish (loop count ((chain carry r).script.length + 1) (chain carry r) [] none []) := by
    unfold readChained
    rw [if_neg hne]
    simp only
    rw [readN_fst]
    unfold readNCore
    rw [if_neg hne]
  rw [e1]
  cases carry with
  | nil =>
    rw [chain_nil]
    obtain ⟨bs, h1, h2, h3, h4, h5⟩ := loop_wb count (r.script.length + 1) r [] none [] hwb (by omega) (by simp; omega)
    simp only [List.nil_append] at h1
    refine ⟨bs, ?_, ?_, ?_, ?_, ?_⟩
    · rw [finish_ok, h1]; rfl
      intro hg
      exact (h5 (by rw [hg]; simp; omega)).2
    · simpa using h2
    · rw [h1] at h3; simpa using h3
    · simpa using h4
    · intro hl
      simp only [finish_reader]
      exact (h5 (by rw [h1]; simpa using hl)).1
  | cons c rest =>
    have hrest : rest = [] := by
      cases rest with
      | nil => rfl
      | cons _ _ => simp at hc
    subst hrest
    obtain ⟨src, script⟩ := r
    have hmin : min 1 count = 1 := by omega
    by_cases h1c : count = 1
    · subst h1c
      refine ⟨[], ?_, ?_, by simp, ?_, by simp⟩
      · simp [chain, loop, Reader.read, finish]
      · simp [chain, loop, Reader.read]
      · simpa [chain, loop, Reader.read] using hwb
    · have hstep : loop count ((chain [c] ⟨src, script⟩).script.length + 1) (chain [c] ⟨src, script⟩) [] none []
          = loop count (script.length + 1) ⟨src, script⟩ [c] none [(count, .ok [c])] := by
        have h2 : ¬ (1 = count) := fun h => h1c h.symm
        simp [chain, loop, Reader.read, hmin, h2]
      rw [hstep]
      obtain ⟨bs, h1, h2, h3, h4, h5⟩ := loop_wb count (script.length + 1) ⟨src, script⟩ [c] none
        [(count, .ok [c])] hwb (by simp) (by simp; omega)
      refine ⟨bs, ?_, ?_, ?_, ?_, ?_⟩
      · rw [finish_ok, h1]
        intro hg; rw [h1] at hg; simp at hg
      · simpa using h2
      · rw [h1] at h3; exact h3
      · simpa using h4
      · intro hl
        simp only [finish_reader]
        exact (h5 (by rw [h1]; exact hl)).1

/-! ### The refill loop and one `pump` -/

/-- What the refill loop can do on a well-behaved reader. -/
inductive RefillSpec (c : Chunker) (r : Reader) : Refill → Reader → Prop
  | filled (c' : Chunker) (r' : Reader) : c'.offset = c.offset → c'.buf ++ r'.src = c.buf ++ r.src →
      2 ≤ c'.buf.length → WellBehaved r' → RefillSpec c r (.filled c') r'
  | eof (r' : Reader) : c.buf ++ r.src = [] → r'.src = [] → WellBehaved r' →
      RefillSpec c r (.done (.ok .eof) ⟨[], c.offset⟩) r'
  | last (b : UInt8) (r' : Reader) : c.buf ++ r.src = [b] → r'.src = [] → WellBehaved r' →
      RefillSpec c r (.done (.ok (.data (c.offset + 1) [b])) ⟨[], c.offset + 1⟩) r'

theorem refill_spec (t : Tuning) (count : Nat) (hcount : 2 ≤ count) :
    ∀ (fuel : Nat) (c : Chunker) (m : Mem) (r : Reader) (reqs : List Nat), WellBehaved r →
      3 ≤ fuel + min 2 c.buf.length →
      RefillSpec c r (refill t count fuel c m r reqs).1 (refill t count fuel c m r reqs).2.2.1 := by
  intro fuel
  induction fuel with
  | zero => intro c m r reqs _ h; exact absurd h (by omega)
  | succ fuel ih =>
    intro c m r reqs hwb hf
    obtain ⟨buf, off⟩ := c
    simp only at hf
    unfold refill
    by_cases hge : 2 ≤ buf.length
    · simp only [hge, if_true]
      exact RefillSpec.filled _ r rfl rfl hge hwb
    · simp only [hge, if_false]
      have hc1 : buf.length ≤ 1 := by omega
      obtain ⟨bs, hres, hsrc, hlen, hwb', hshort⟩ :=
        readChained_spec t m buf r count hwb hc1 (by omega)
      generalize readChained t m buf r count = rd at *
      rw [hres]
      simp only
      by_cases hprog : (buf ++ bs).length = buf.length
      · simp only [hprog, if_true]
        have hbs : bs = [] := by
          have : bs.length = 0 := by simp only [List.length_append] at hprog; omega
          exact List.length_eq_zero_iff.mp this
        subst hbs
        have hend := hshort (by simp; omega)
        have hrs : r.src = [] := by rw [hsrc, hend]; rfl
        cases buf with
        | nil =>
          simp only [List.append_nil, List.isEmpty_nil, if_true]
          exact RefillSpec.eof _ (by simp [hrs]) hend hwb'
        | cons b tl =>
          have : tl = [] := by
            cases tl with
            | nil => rfl
            | cons _ _ => simp at hc1
          subst this
          simp only [List.append_nil, List.isEmpty_cons, List.length_singleton]
          exact RefillSpec.last b _ (by simp [hrs]) hend hwb'
      · simp only [hprog, if_false]
        have hbs : bs ≠ [] := by rintro rfl; exact hprog (by simp)
        have hbl : 0 < bs.length := List.length_pos_iff.mpr hbs
        have := ih ⟨buf ++ bs, off⟩ rd.2 rd.1.reader (reqs ++ readerReqs buf rd.1) hwb'
          (by simp only [List.length_append] at hprog ⊢; omega)
        generalize refill t count fuel ⟨buf ++ bs, off⟩ rd.2 rd.1.reader (reqs ++ readerReqs buf rd.1) = out at *
        obtain ⟨rf, m', r', reqs'⟩ := out
        simp only at this ⊢
        cases this with
        | filled c' r' h1 h2 h3 h4 =>
          exact RefillSpec.filled c' _ h1 (by rw [h2, hsrc]; simp) h3 h4
        | eof r' h1 h2 h3 =>
          exfalso
          simp only [List.append_eq_nil_iff] at h1
          exact hbs h1.1.2
        | last b r' h1 h2 h3 =>
          simp only at h1
          have hl := congrArg List.length h1
          simp only [List.length_append, List.length_singleton] at hl
          have hcb : buf = [] := List.length_eq_zero_iff.mp (by omega)
          have hrs : rd.1.reader.src = [] := List.length_eq_zero_iff.mp (by omega)
          subst hcb
          rw [hrs] at h1
          simp only [List.nil_append, List.append_nil] at h1
          -- an empty carry, one byte read, then no progress: the last byte of the stream
          have e : [] ++ r.src = [b] := by rw [hsrc, h1, hrs]; rfl
          exact RefillSpec.last b _ e h2 h3

theorem findStuff_short (l : List UInt8) (h : l.length ≤ 1) : findStuff l = none := by
  cases l with
  | nil => rfl
  | cons a t =>
    cases t with
    | nil => rfl
    | cons _ _ => simp at h

theorem drop_last_of_getLast? (l : List UInt8) (x : UInt8) (h : l.getLast? = some x) :
    l.drop (l.length - 1) = [x] := by
  obtain ⟨ys, rfl⟩ := List.getLast?_eq_some_iff.mp h
  have : (ys ++ [x]).length - 1 = ys.length := by simp
  rw [this, List.drop_left' rfl]

/-- Where `pump` cuts: a non-empty prefix that, even followed by the next byte of
the stream, contains no stuff sequence. -/
theorem splitPos_spec (buf : List UInt8) (hlen : 2 ≤ buf.length) (hns : buf.take 2 ≠ [FE, FD]) :
    0 < splitPos buf ∧ splitPos buf ≤ buf.length ∧
    ∀ src : List UInt8,
      findStuff (buf.take (splitPos buf) ++ (buf.drop (splitPos buf) ++ src).take 1) = none := by
  unfold splitPos
  cases hf : findStuff buf with
  | some idx =>
    simp only
    obtain ⟨hsplit, hnone⟩ := findStuff_some buf idx hf
    have hlt := findStuff_some_lt buf idx hf
    refine ⟨?_, by omega, ?_⟩
    · cases idx with
      | zero =>
        exfalso; apply hns
        rw [hsplit]; simp
      | succ _ => omega
    · intro src
      have hd : buf.drop idx = FE :: FD :: buf.drop (idx + 2) := by
        have hl : (buf.take idx).length = idx := by simp; omega
        conv => lhs; rw [hsplit]
        rw [List.drop_left' hl]
      rw [hd]
      simpa using hnone
  | none =>
    simp only
    by_cases hlast : buf.getLast? = some FE
    · simp only [hlast, if_true]
      have hne : buf ≠ [] := by intro h; rw [h] at hlen; simp at hlen
      refine ⟨by omega, by omega, ?_⟩
      intro src
      have hd : buf.drop (buf.length - 1) = [FE] := drop_last_of_getLast? buf FE hlast
      rw [hd]
      simp only [List.cons_append, List.nil_append, List.take_succ_cons, List.take_zero]
      rw [← hd, List.take_append_drop]
      exact hf
    · simp only [hlast, if_false]
      refine ⟨by omega, by omega, ?_⟩
      intro src
      simp only [List.take_length, List.drop_length, List.nil_append]
      rw [findStuff_append_none]
      refine ⟨hf, findStuff_short _ (by simp [List.length_take]; omega), ?_⟩
      rintro ⟨h, _⟩; exact hlast h

/-- The stream bytes after a chunk, and what the chunk must satisfy. -/
def ChunkOK (ch : Chunk) (endOff : Nat) (after : List UInt8) : Prop :=
  match ch with
  | .sentinel off => off = endOff
  | .eof => after = []
  | .data off bs => off = endOff ∧ bs ≠ [] ∧ findStuff (bs ++ after.take 1) = none

/-- One `pump` on a well-behaved reader, in terms of the unemitted stream
`c.buf ++ r.src`: it never fails, and returns a chunk that stands for the next
bytes of that stream. -/
structure PumpSpec (c : Chunker) (r : Reader) (o : PumpOut) : Prop where
  wb : WellBehaved o.reader
  ex : ∃ ch, o.res = .ok ch ∧
    c.buf ++ r.src = ch.bytes ++ (o.chunker.buf ++ o.reader.src) ∧
    o.chunker.offset = c.offset + ch.bytes.length ∧
    ChunkOK ch o.chunker.offset (o.chunker.buf ++ o.reader.src)

theorem pump_spec (clamp : Nat) (hclamp : 2 ≤ clamp) (t : Tuning) (block : Nat) (c : Chunker) (m : Mem)
    (r : Reader) (hwb : WellBehaved r) : PumpSpec c r (pump clamp t block c m r) := by
  have hcount : 2 ≤ max block clamp := by omega
  have hr := refill_spec t (max block clamp) hcount 3 c m r [] hwb (by omega)
  unfold pump
  simp only
  generalize refill t (max block clamp) 3 c m r [] = out at *
  obtain ⟨rf, m', r', reqs'⟩ := out
  simp only at hr
  cases hr with
  | eof r' h1 h2 h3 =>
    simp only
    exact ⟨h3, .eof, rfl, by simp [Chunk.bytes, h1, h2], by simp [Chunk.bytes], by simp [ChunkOK, h2]⟩
  | last b r' h1 h2 h3 =>
    simp only
    exact ⟨h3, .data (c.offset + 1) [b], rfl, by simp [Chunk.bytes, h1, h2], by simp [Chunk.bytes],
      by simp [ChunkOK, h2]⟩
  | filled c' r' h1 h2 h3 h4 =>
    simp only
    have hnlt : ¬ c'.buf.length < 2 := by omega
    simp only [hnlt, if_false]
    by_cases hst : c'.buf.take 2 = [FE, FD]
    · simp only [hst, if_true]
      refine ⟨h4, .sentinel (c'.offset + 2), rfl, ?_, by simp [Chunk.bytes, h1], by simp [ChunkOK]⟩
      simp only [Chunk.bytes]
      rw [← h2]
      conv => lhs; rw [← List.take_append_drop 2 c'.buf, hst]
      simp
    · simp only [hst, if_false]
      obtain ⟨hpos, hle, hfs⟩ := splitPos_spec c'.buf h3 hst
      have hne : splitPos c'.buf ≠ 0 := by omega
      simp only [hne, if_false]
      refine ⟨h4, _, rfl, ?_, by simp [Chunk.bytes, h1], ?_⟩
      · simp only [Chunk.bytes]
        rw [← h2, ← List.append_assoc, List.take_append_drop]
      · simp only [ChunkOK]
        refine ⟨trivial, ?_, hfs r'.src⟩
        intro h
        have := congrArg List.length h
        simp only [List.length_take, List.length_nil] at this
        omega

/-! ### Sequences of pumps: the chunks tile the stream -/

/-- the stream bytes a chunk list stands for -/
def emitted (cs : List Chunk) : List UInt8 := (cs.map Chunk.bytes).flatten

@[simp] theorem emitted_nil : emitted [] = [] := rfl
@[simp] theorem emitted_cons (c : Chunk) (cs : List Chunk) : emitted (c :: cs) = c.bytes ++ emitted cs := by
  simp [emitted]
theorem emitted_append (a b : List Chunk) : emitted (a ++ b) = emitted a ++ emitted b := by
  simp [emitted]

/-- `Tiles off s cs rest`: starting at absolute offset `off` with `s` still to
come, the chunks `cs` stand, one after the other, for a prefix of `s`, each
satisfying `ChunkOK`; `rest` is what remains. -/
inductive Tiles : Nat → List UInt8 → List Chunk → List UInt8 → Prop
  | nil (off : Nat) (s : List UInt8) : Tiles off s [] s
  | cons (off : Nat) (ch : Chunk) (after : List UInt8) (cs : List Chunk) (rest : List UInt8) :
      ChunkOK ch (off + ch.bytes.length) after → Tiles (off + ch.bytes.length) after cs rest →
      Tiles off (ch.bytes ++ after) (ch :: cs) rest

theorem pumpSeq_tiles (clamp : Nat) (hclamp : 2 ≤ clamp) (t : Tuning) :
    ∀ (blocks : List Nat) (c : Chunker) (m : Mem) (r : Reader), WellBehaved r →
    ∃ chunks, (pumpSeq clamp t blocks c m r).1 = chunks.map PumpRes.ok ∧
      chunks.length = blocks.length ∧
      Tiles c.offset (c.buf ++ r.src) chunks
        ((pumpSeq clamp t blocks c m r).2.1.buf ++ (pumpSeq clamp t blocks c m r).2.2.2.src) ∧
      WellBehaved (pumpSeq clamp t blocks c m r).2.2.2 ∧
      (pumpSeq clamp t blocks c m r).2.1.offset = c.offset + (emitted chunks).length := by
  intro blocks
  induction blocks with
  | nil =>
    intro c m r hwb
    exact ⟨[], rfl, rfl, Tiles.nil _ _, hwb, by simp [pumpSeq]⟩
  | cons b bs ih =>
    intro c m r hwb
    have hp := pump_spec clamp hclamp t b c m r hwb
    obtain ⟨ch, hres, hsplit, hoff, hok⟩ := hp.ex
    obtain ⟨chunks, h1, hl, h2, h3, h4⟩ := ih (pump clamp t b c m r).chunker (pump clamp t b c m r).mem
      (pump clamp t b c m r).reader hp.wb
    refine ⟨ch :: chunks, ?_, by simp [hl], ?_, ?_, ?_⟩
    · simp only [pumpSeq, List.map_cons, h1, hres]
    · simp only [pumpSeq]
      rw [hsplit]
      rw [hoff] at h2 hok
      exact Tiles.cons _ _ _ _ _ hok h2
    · simpa only [pumpSeq] using h3
    · simp only [pumpSeq, emitted_cons, List.length_append]
      rw [h4, hoff]; omega

theorem map_ok_inj {a b : List Chunk} (h : a.map PumpRes.ok = b.map PumpRes.ok) : a = b := by
  induction a generalizing b with
  | nil => cases b with
    | nil => rfl
    | cons _ _ => simp at h
  | cons x xs ih => cases b with
    | nil => simp at h
    | cons y ys =>
      simp only [List.map_cons, List.cons.injEq, PumpRes.ok.injEq] at h
      rw [h.1, ih h.2]

theorem Tiles.stream_eq {off : Nat} {s : List UInt8} {cs : List Chunk} {rest : List UInt8}
    (h : Tiles off s cs rest) : s = emitted cs ++ rest := by
  induction h with
  | nil => simp
  | cons off ch after cs rest _ _ ih => rw [ih]; simp

/-- The chunk in the middle of a tiling: what precedes it has been emitted,
it is `ChunkOK` against the rest of the stream, and the tiling goes on. -/
theorem Tiles.at {off : Nat} {s : List UInt8} {pre : List Chunk} {ch : Chunk} {post : List Chunk}
    {rest : List UInt8} (h : Tiles off s (pre ++ ch :: post) rest) :
    ∃ after, s = emitted pre ++ (ch.bytes ++ after) ∧
      ChunkOK ch (off + (emitted pre).length + ch.bytes.length) after ∧
      Tiles (off + (emitted pre).length + ch.bytes.length) after post rest := by
  induction pre generalizing off s with
  | nil =>
    cases h with
    | cons _ _ after _ _ hok ht => exact ⟨after, by simp, by simpa using hok, by simpa using ht⟩
  | cons p pre ih =>
    cases h with
    | cons _ _ after _ _ hok ht =>
      obtain ⟨after', h1, h2, h3⟩ := ih ht
      refine ⟨after', by rw [h1]; simp, ?_, ?_⟩
      · simpa [Nat.add_assoc] using h2
      · simpa [Nat.add_assoc] using h3

/-- Once the stream is exhausted every further chunk is `Eof`. -/
theorem Tiles.of_nil' {off : Nat} {s : List UInt8} {cs : List Chunk} {rest : List UInt8}
    (h : Tiles off s cs rest) (hs : s = []) : (∀ ch ∈ cs, ch = .eof) ∧ rest = [] := by
  induction h with
  | nil => subst hs; simp
  | cons off ch after cs rest hok _ ih =>
    have hb : ch.bytes = [] ∧ after = [] := List.append_eq_nil_iff.mp hs
    obtain ⟨ih1, ih2⟩ := ih hb.2
    refine ⟨?_, ih2⟩
    intro x hx
    rcases List.mem_cons.mp hx with rfl | hx
    · cases x with
      | eof => rfl
      | sentinel o => simp [Chunk.bytes] at hb
      | data o bs =>
        simp only [ChunkOK] at hok
        exact absurd hb.1 hok.2.1
    · exact ih1 x hx

theorem Tiles.of_nil {off : Nat} {cs : List Chunk} {rest : List UInt8} (h : Tiles off [] cs rest) :
    (∀ ch ∈ cs, ch = .eof) ∧ rest = [] := h.of_nil' rfl

/-- Every chunk other than `Eof` stands for at least one byte. -/
theorem Tiles.length_le {off : Nat} {s : List UInt8} {cs : List Chunk} {rest : List UInt8}
    (h : Tiles off s cs rest) (hne : ∀ ch ∈ cs, ch ≠ .eof) : cs.length + rest.length ≤ s.length := by
  induction h with
  | nil => simp
  | cons off ch after cs rest hok _ ih =>
    have := ih (fun x hx => hne x (by simp [hx]))
    have hpos : 1 ≤ ch.bytes.length := by
      cases ch with
      | eof => exact absurd rfl (hne .eof (by simp))
      | sentinel o => simp [Chunk.bytes]
      | data o bs =>
        simp only [ChunkOK] at hok
        exact List.length_pos_iff.mpr hok.2.1
    simp only [List.length_cons, List.length_append]
    omega

/-! ### The chunk sequence determines, and is determined by, the segments -/

theorem segScan_sentinel (start : Nat) (cur after : List UInt8) :
    segScan start cur (FE :: FD :: after) =
      ⟨cur, start, start + cur.length⟩ :: segScan (start + cur.length + 2) [] after := by
  simp [segScan]

/-- Bytes that contain no stuff sequence, even with the byte that follows them,
just extend the current piece. -/
theorem segScan_data (bs : List UInt8) : ∀ (start : Nat) (cur after : List UInt8),
    findStuff (bs ++ after.take 1) = none →
    segScan start cur (bs ++ after) = segScan start (cur ++ bs) after := by
  induction bs with
  | nil => intro start cur after _; simp
  | cons a bs ih =>
    intro start cur after h
    have e : (a :: bs) ++ after = a :: (bs ++ after) := rfl
    rw [e]
    cases hba : bs ++ after with
    | nil =>
      have hb : bs = [] ∧ after = [] := by simpa using hba
      rw [hb.1, hb.2]
      simp [segScan]
      omega
    | cons b t =>
      have hnot : ¬ (a = FE ∧ b = FD) ∧ findStuff (bs ++ after.take 1) = none := by
        cases bs with
        | nil =>
          simp only [List.nil_append] at hba
          rw [hba] at h
          simp only [List.cons_append, List.nil_append, List.take_succ_cons, List.take_zero] at h
          rw [findStuff_cons_cons_none] at h
          exact ⟨h.1, findStuff_short _ (by simp [List.length_take]; omega)⟩
        | cons b' bs' =>
          simp only [List.cons_append, List.cons.injEq] at hba
          obtain ⟨rfl, _⟩ := hba
          rw [show (a :: b' :: bs') ++ after.take 1 = a :: b' :: (bs' ++ after.take 1) from rfl,
            findStuff_cons_cons_none] at h
          exact h
      have := ih start (cur ++ [a]) after hnot.2
      rw [hba] at this
      simp only [segScan, hnot.1, if_false]
      rw [this]
      simp

/-- A tiling that uses up the stream regroups into exactly the scanned segments. -/
theorem Tiles.regroup_eq {off : Nat} {s : List UInt8} {cs : List Chunk} {rest : List UInt8}
    (h : Tiles off s cs rest) (hrest : rest = []) :
    ∀ (start : Nat) (cur : List UInt8), off = start + cur.length →
      regroup start cur cs = segScan start cur s := by
  induction h with
  | nil off s =>
    intro start cur _
    subst hrest
    simp [regroup, segScan]
  | cons off ch after cs rest hok _ ih =>
    intro start cur hoff
    cases ch with
    | sentinel o =>
      simp only [ChunkOK, Chunk.bytes] at hok
      simp only [regroup, Chunk.bytes, List.cons_append, List.nil_append]
      rw [segScan_sentinel]
      have := ih hrest o [] (by simp [Chunk.bytes] at hok ⊢; omega)
      rw [this]
      have ho : o = start + cur.length + 2 := by simp at hok; omega
      rw [ho]
    | eof =>
      simp only [regroup, Chunk.bytes, List.nil_append]
      exact ih hrest start cur (by simp [Chunk.bytes]; exact hoff)
    | data o bs =>
      simp only [ChunkOK] at hok
      simp only [regroup, Chunk.bytes]
      rw [segScan_data bs start cur after hok.2.2]
      exact ih hrest start (cur ++ bs) (by simp [Chunk.bytes]; omega)

/-! ### The arena only decides where the bytes live -/

theorem readChained_arena (t t' : Tuning) (m m' : Mem) (carry : List UInt8) (r : Reader) (count : Nat) :
    (readChained t m carry r count).1 = (readChained t' m' carry r count).1 := by
  unfold readChained
  split
  · rfl
  · simp only [readN_fst]

theorem refill_arena (t t' : Tuning) (count : Nat) : ∀ (fuel : Nat) (c : Chunker) (m m' : Mem)
    (r : Reader) (reqs : List Nat),
    (refill t count fuel c m r reqs).1 = (refill t' count fuel c m' r reqs).1 ∧
    (refill t count fuel c m r reqs).2.2 = (refill t' count fuel c m' r reqs).2.2 := by
  intro fuel
  induction fuel with
  | zero => intro c m m' r reqs; simp [refill]
  | succ fuel ih =>
    intro c m m' r reqs
    unfold refill
    by_cases h2 : 2 ≤ c.buf.length
    · simp [h2]
    · simp only [h2, if_false]
      rw [readChained_arena t t' m m' c.buf r count]
      generalize (readChained t' m' c.buf r count).1 = o
      cases o.res with
      | err k => simp
      | ok got =>
        simp only
        split
        · split <;> simp
        · exact ih _ _ _ _ _

theorem pump_arena (clamp : Nat) (t t' : Tuning) (block : Nat) (c : Chunker) (m m' : Mem) (r : Reader) :
    (pump clamp t block c m r).res = (pump clamp t' block c m' r).res ∧
    (pump clamp t block c m r).chunker = (pump clamp t' block c m' r).chunker ∧
    (pump clamp t block c m r).reader = (pump clamp t' block c m' r).reader ∧
    (pump clamp t block c m r).reqs = (pump clamp t' block c m' r).reqs := by
  have h := refill_arena t t' (max block clamp) 3 c m m' r []
  unfold pump
  simp only
  generalize refill t (max block clamp) 3 c m r [] = a at *
  generalize refill t' (max block clamp) 3 c m' r [] = b at *
  obtain ⟨a1, a2, a3, a4⟩ := a
  obtain ⟨b1, b2, b3, b4⟩ := b
  simp only [Prod.mk.injEq] at h
  obtain ⟨rfl, rfl, rfl⟩ := h
  cases a1 with
  | done res c' => simp
  | filled c' =>
    simp only
    split
    · simp
    · split
      · simp
      · split <;> simp

theorem pumpSeq_arena (clamp : Nat) (t t' : Tuning) : ∀ (blocks : List Nat) (c : Chunker) (m m' : Mem)
    (r : Reader),
    (pumpSeq clamp t blocks c m r).1 = (pumpSeq clamp t' blocks c m' r).1 ∧
    (pumpSeq clamp t blocks c m r).2.1 = (pumpSeq clamp t' blocks c m' r).2.1 ∧
    (pumpSeq clamp t blocks c m r).2.2.2 = (pumpSeq clamp t' blocks c m' r).2.2.2 := by
  intro blocks
  induction blocks with
  | nil => intro c m m' r; simp [pumpSeq]
  | cons b bs ih =>
    intro c m m' r
    obtain ⟨h1, h2, h3, _⟩ := pump_arena clamp t t' b c m m' r
    have := ih (pump clamp t b c m r).chunker (pump clamp t b c m r).mem (pump clamp t' b c m' r).mem
      (pump clamp t b c m r).reader
    simp only [pumpSeq]
    rw [← h1, ← h2, ← h3]
    exact ⟨by rw [this.1], this.2.1, this.2.2⟩

end Woodpile.Stream

/-
Helper lemmas for the sink-call level of the Rough TLV encoder
(`Wrapper.encodePieces`, Model/RoughTlv.lean) and for the value type / state
machine of the `tlv` correspondence family (`DVal`, `TlvSt`).

1. the calls concatenate to the flat encoding (`encodePieces_flat`, `encodePieces_map_flat`);
2. every value the family can build is lawful, every stored message is an
   accepted one over lawful values (`TlvReach.slotOK`);
3. nested messages to every depth as a depth-indexed value type (`NV`).
-/
import Woodpile.Proofs.RoughTlvRt

namespace Woodpile.RoughTlv
open Woodpile.Hcobs (Method)

variable {V : Type}

/-! ### calls ↦ bytes -/

@[simp] theorem flat_nil : flat [] = [] := rfl

@[simp] theorem flat_cons (p : Piece) (ps : List Piece) : flat (p :: ps) = p.2 ++ flat ps := by
  simp [flat]

@[simp] theorem flat_append (a b : List Piece) : flat (a ++ b) = flat a ++ flat b := by
  simp [flat]

theorem flat_eq_flatMap (ps : List Piece) : flat ps = ps.flatMap (·.2) := by
  simp [flat, List.flatMap_def]

theorem flat_map_copy {α : Type} (f : α → List UInt8) (l : List α) :
    flat (l.map (fun e => ((Method.copy, f e) : Piece))) = (l.map f).flatten := by
  induction l with
  | nil => rfl
  | cons x xs ih => simp [ih]

/-- The offsets loop: same verdict, same bytes, one call per word. -/
theorem encOffsetCalls_flat (len : V → Nat) (es : List (Pair V)) (acc : Option Nat) :
    (encOffsetCalls len es acc).map flat = encOffsets len es acc := by
  induction es generalizing acc with
  | nil => simp [encOffsetCalls, encOffsets]
  | cons e es ih =>
    unfold encOffsetCalls encOffsets
    by_cases h1 : len e.2 > i32Max
    · simp [h1]
    · simp only [h1, if_false]
      cases acc with
      | none => exact ih _
      | some sum =>
        simp only
        by_cases h2 : satAddU32 sum (len e.2) > i32Max
        · simp [h2]
        · simp only [h2, if_false]
          rw [← ih]
          cases encOffsetCalls len es (some (satAddU32 sum (len e.2))) <;> simp

/-- Every offsets call is an `append_copy` of one 4-byte word. -/
theorem encOffsetCalls_shape (len : V → Nat) (es : List (Pair V)) (acc : Option Nat) (offs : List Piece)
    (h : encOffsetCalls len es acc = some offs) :
    (∀ p ∈ offs, p.1 = Method.copy ∧ p.2.length = 4) ∧
    offs.length = (match acc with | none => es.length - 1 | some _ => es.length) := by
  induction es generalizing acc offs with
  | nil => simp only [encOffsetCalls, Option.some.injEq] at h; subst h; cases acc <;> simp
  | cons e es ih =>
    unfold encOffsetCalls at h
    by_cases h1 : len e.2 > i32Max
    · simp [h1] at h
    · simp only [h1, if_false] at h
      cases acc with
      | none =>
        obtain ⟨a, b⟩ := ih _ _ h
        exact ⟨a, by simpa using b⟩
      | some sum =>
        simp only at h
        by_cases h2 : satAddU32 sum (len e.2) > i32Max
        · simp [h2] at h
        · simp only [h2, if_false] at h
          cases hr : encOffsetCalls len es (some (satAddU32 sum (len e.2))) with
          | none => simp [hr] at h
          | some r =>
            simp only [hr, Option.map_some, Option.some.injEq] at h
            subst h
            obtain ⟨a, b⟩ := ih _ _ hr
            refine ⟨?_, by simpa using b⟩
            intro p hp
            rcases List.mem_cons.mp hp with rfl | hp
            · exact ⟨rfl, by simp [le32]⟩
            · exact a p hp

theorem valueCalls_some_iff (calls : V → Option (List Piece)) (es : List (Pair V)) :
    (valueCalls calls es).isSome = true ↔ ∀ p ∈ es, (calls p.2).isSome = true := by
  induction es with
  | nil => simp [valueCalls]
  | cons e es ih =>
    unfold valueCalls
    cases hc : calls e.2 with
    | none => simp [hc]
    | some c =>
      simp only [List.mem_cons, forall_eq_or_imp, hc, Option.isSome_some, true_and]
      rw [← ih]
      cases valueCalls calls es <;> simp

theorem valueCalls_flat (calls : V → Option (List Piece)) (es : List (Pair V)) (vs : List Piece)
    (h : valueCalls calls es = some vs) :
    flat vs = (es.map (fun e => bytesOf calls e.2)).flatten ∧
    vs = (es.map (fun e => (calls e.2).getD [])).flatten := by
  induction es generalizing vs with
  | nil => simp only [valueCalls, Option.some.injEq] at h; subst h; simp
  | cons e es ih =>
    unfold valueCalls at h
    cases hc : calls e.2 with
    | none => simp [hc] at h
    | some c =>
      simp only [hc] at h
      cases hr : valueCalls calls es with
      | none => simp [hr] at h
      | some r =>
        simp only [hr, Option.map_some, Option.some.injEq] at h
        subst h
        obtain ⟨a, b⟩ := ih r hr
        exact ⟨by simp [a, bytesOf, hc], by simp [b, hc]⟩

/-- **The calls concatenate to the flat encoding**: if the call-level encoder
returns the calls `ps`, the byte-level encoder (`Wrapper.encode`, which all the
layout / round-trip theorems are about) returns their concatenation. -/
theorem encodeEntriesCalls_flat (calls : V → Option (List Piece)) (len : V → Nat) (es : List (Pair V))
    (ps : List Piece) (h : encodeEntriesCalls calls len es = some ps) :
    encodeEntries (bytesOf calls) len es = some (flat ps) := by
  unfold encodeEntriesCalls at h
  unfold encodeEntries
  by_cases hn : es.length > i32Max
  · simp [hn] at h
  · simp only [hn, if_false] at h ⊢
    have ho := encOffsetCalls_flat len es none
    cases hoc : encOffsetCalls len es none with
    | none => simp [hoc] at h
    | some offs =>
      rw [hoc] at ho
      simp only [hoc] at h
      rw [← ho]
      cases hv : valueCalls calls es with
      | none => simp [hv] at h
      | some vs =>
        simp only [hv, Option.some.injEq] at h
        subst h
        obtain ⟨hf, _⟩ := valueCalls_flat calls es vs hv
        simp [hf, flat_map_copy]

theorem encodePieces_flat (calls : V → Option (List Piece)) (len : V → Nat) (w : Wrapper V)
    (ps : List Piece) (h : w.encodePieces calls len = some ps) :
    w.encode (bytesOf calls) len = some (flat ps) :=
  encodeEntriesCalls_flat calls len w.entries ps h

/-- … and when no value panics the two encoders have the same verdict:
`(encodePieces …).map flat = encode …`. -/
theorem encodeEntriesCalls_map_flat (calls : V → Option (List Piece)) (len : V → Nat) (es : List (Pair V))
    (hv : ∀ p ∈ es, (calls p.2).isSome = true) :
    (encodeEntriesCalls calls len es).map flat = encodeEntries (bytesOf calls) len es := by
  cases h : encodeEntriesCalls calls len es with
  | some ps => rw [encodeEntriesCalls_flat calls len es ps h]; rfl
  | none =>
    unfold encodeEntriesCalls at h
    unfold encodeEntries
    by_cases hn : es.length > i32Max
    · simp [hn]
    · simp only [hn, if_false] at h ⊢
      have ho := encOffsetCalls_flat len es none
      cases hoc : encOffsetCalls len es none with
      | none => rw [hoc] at ho; simp [← ho]
      | some offs =>
        simp only [hoc] at h
        have := (valueCalls_some_iff calls es).mpr hv
        cases hvc : valueCalls calls es with
        | none => simp [hvc] at this
        | some vs => simp [hvc] at h

theorem encodePieces_map_flat (calls : V → Option (List Piece)) (len : V → Nat) (w : Wrapper V)
    (hv : ∀ p ∈ w.entries, (calls p.2).isSome = true) :
    (w.encodePieces calls len).map flat = w.encode (bytesOf calls) len :=
  encodeEntriesCalls_map_flat calls len w.entries hv

/-- The shape of the call sequence: `1 + (N-1) + N` four-byte `append_copy`s, then
the values' own calls in order. -/
theorem encodeEntriesCalls_shape (calls : V → Option (List Piece)) (len : V → Nat) (es : List (Pair V))
    (ps : List Piece) (h : encodeEntriesCalls calls len es = some ps) :
    ∃ hdr : List Piece, ps = hdr ++ (es.map (fun e => (calls e.2).getD [])).flatten ∧
      hdr.length = 1 + (es.length - 1) + es.length ∧
      (∀ p ∈ hdr, p.1 = Method.copy ∧ p.2.length = 4) ∧
      (∀ p ∈ es, (calls p.2).isSome = true) := by
  unfold encodeEntriesCalls at h
  by_cases hn : es.length > i32Max
  · simp [hn] at h
  · simp only [hn, if_false] at h
    cases hoc : encOffsetCalls len es none with
    | none => simp [hoc] at h
    | some offs =>
      simp only [hoc] at h
      cases hv : valueCalls calls es with
      | none => simp [hv] at h
      | some vs =>
        simp only [hv, Option.some.injEq] at h
        subst h
        obtain ⟨_, hvs⟩ := valueCalls_flat calls es vs hv
        obtain ⟨hs1, hs2⟩ := encOffsetCalls_shape len es none offs hoc
        refine ⟨(Method.copy, le32 es.length) :: offs ++ es.map (fun e => (Method.copy, le32 (key e))), ?_, ?_, ?_, ?_⟩
        · rw [hvs]
        · simp only at hs2
          simp [hs2]; omega
        · intro p hp
          simp only [List.cons_append, List.mem_cons, List.mem_append, List.mem_map] at hp
          rcases hp with rfl | hp | ⟨e, _, rfl⟩
          · exact ⟨rfl, by simp [le32]⟩
          · exact hs1 p hp
          · exact ⟨rfl, by simp [le32]⟩
        · exact (valueCalls_some_iff calls es).mp (by simp [hv])

/-! ### The call sequence, explicitly -/

theorem encOffsetCalls_some_eq (len : V → Nat) (es : List (Pair V)) (sum : Nat)
    (h : sum + lensSum len es ≤ i32Max) :
    encOffsetCalls len es (some sum) =
      some ((offsFrom sum (es.map (fun p => len p.2))).map (fun o => ((Method.copy, le32 o) : Piece))) := by
  induction es generalizing sum with
  | nil => simp [encOffsetCalls, offsFrom]
  | cons e es ih =>
    rw [lensSum_cons] at h
    unfold encOffsetCalls
    have h1 : ¬ len e.2 > i32Max := by omega
    have h2 : satAddU32 sum (len e.2) = sum + len e.2 := by
      unfold satAddU32 u32Max; unfold i32Max at h; omega
    simp only [h1, if_false, h2]
    have h3 : ¬ sum + len e.2 > i32Max := by omega
    simp only [h3, if_false]
    rw [ih (sum + len e.2) (by omega)]
    simp [offsFrom]

theorem encOffsetCalls_none_eq (len : V → Nat) (es : List (Pair V)) (h : lensSum len es ≤ i32Max) :
    encOffsetCalls len es none =
      some ((offsetsSpec (es.map (fun p => len p.2))).map (fun o => ((Method.copy, le32 o) : Piece))) := by
  cases es with
  | nil => simp [encOffsetCalls, offsetsSpec]
  | cons e es =>
    rw [lensSum_cons] at h
    unfold encOffsetCalls
    have h1 : ¬ len e.2 > i32Max := by omega
    simp only [h1, if_false]
    rw [encOffsetCalls_some_eq len es (len e.2) h]
    simp [offsetsSpec]

/-- The call sequence of `encode`, as a function of the pairs in their final order:
`append_copy(count)`, `append_copy(offset_i)` for the `N-1` cumulative end offsets,
`append_copy(tag_i)` for the `N` tags, then each value's own calls. -/
def callLayout (calls : V → Option (List Piece)) (len : V → Nat) (es : List (Pair V)) : List Piece :=
  ((Method.copy, le32 es.length) : Piece)
    :: (offsetsSpec (es.map (fun p => len p.2))).map (fun o => ((Method.copy, le32 o) : Piece))
    ++ es.map (fun e => ((Method.copy, le32 (key e)) : Piece))
    ++ (es.map (fun e => (calls e.2).getD [])).flatten

theorem encodeEntriesCalls_eq (calls : V → Option (List Piece)) (len : V → Nat) (es : List (Pair V))
    (hn : es.length ≤ i32Max) (ht : natTotal len es ≤ i32Max)
    (hv : ∀ p ∈ es, (calls p.2).isSome = true) :
    encodeEntriesCalls calls len es = some (callLayout calls len es) := by
  unfold encodeEntriesCalls
  simp only [Nat.not_lt.mpr hn, if_false]
  rw [encOffsetCalls_none_eq len es (by unfold natTotal at ht; omega)]
  have := (valueCalls_some_iff calls es).mpr hv
  cases hvc : valueCalls calls es with
  | none => simp [hvc] at this
  | some vs =>
    obtain ⟨_, hvs⟩ := valueCalls_flat calls es vs hvc
    simp only [callLayout, hvs]

/-! ### Which error `compute_len` reports -/

/-- The summation loop fails at the FIRST value that is too large, reporting its rank
(as the `u32` the code casts it to) and its length. -/
theorem sumLens_error_first (len : V → Nat) (es : List (Pair V)) (rank acc : Nat) (e : EncErr)
    (h : sumLens len es rank acc = .error e) :
    ∃ r p, es[r]? = some p ∧ len p.2 > i32Max ∧ (∀ j q, j < r → es[j]? = some q → len q.2 ≤ i32Max) ∧
      e = .valueTooLarge ((rank + r) % 4294967296) (len p.2) := by
  induction es generalizing rank acc with
  | nil => simp [sumLens] at h
  | cons x xs ih =>
    unfold sumLens at h
    by_cases hx : len x.2 > i32Max
    · simp only [hx, if_true, Except.error.injEq] at h
      exact ⟨0, x, rfl, hx, by intro j q hj; omega, by simp [← h]⟩
    · simp only [hx, if_false] at h
      obtain ⟨r, p, h1, h2, h3, h4⟩ := ih _ _ h
      refine ⟨r + 1, p, by simpa using h1, h2, ?_, ?_⟩
      · intro j q hj hq
        cases j with
        | zero => simp only [List.getElem?_cons_zero, Option.some.injEq] at hq; subst hq; omega
        | succ j => exact h3 j q (by omega) (by simpa using hq)
      · rw [h4]; congr 2; omega

/-- `compute_len`'s error, completely: too many elements first; else the first value
that is too large; else the (saturated) total. -/
theorem computeLen_error_kind (len : V → Nat) (es : List (Pair V)) (e : EncErr)
    (h : computeLen len es = .error e) :
    (es.length > i32Max ∧ e = .tooManyElements es.length) ∨
    (es.length ≤ i32Max ∧ ∃ r p, es[r]? = some p ∧ len p.2 > i32Max ∧
      (∀ j q, j < r → es[j]? = some q → len q.2 ≤ i32Max) ∧
      e = .valueTooLarge (r % 4294967296) (len p.2)) ∨
    (es.length ≤ i32Max ∧ (∀ p ∈ es, len p.2 ≤ i32Max) ∧ natTotal len es > i32Max ∧
      e = .totalTooLarge (es.length % 4294967296) (min (natTotal len es) usizeMax)) := by
  unfold computeLen at h
  by_cases hn : es.length > i32Max
  · simp only [hn, if_true, Except.error.injEq] at h
    exact Or.inl ⟨hn, h.symm⟩
  · simp only [hn, if_false] at h
    right
    cases hs : sumLens len es 0 0 with
    | error e' =>
      simp only [hs, Except.error.injEq] at h
      subst h
      obtain ⟨r, p, h1, h2, h3, h4⟩ := sumLens_error_first len es 0 0 e' hs
      exact Or.inl ⟨by omega, r, p, h1, h2, h3, by simpa using h4⟩
    | ok total =>
      right
      have hv : ∀ p ∈ es, len p.2 ≤ i32Max := by
        intro p hp
        by_cases hpl : len p.2 > i32Max
        · obtain ⟨_, _, he⟩ := sumLens_err len es ⟨p, hp, hpl⟩ 0 0
          rw [he] at hs; cases hs
        · omega
      have := sumLens_ok len es hv 0 0
      simp only [show min 0 usizeMax = 0 by simp [usizeMax]] at this
      rw [this] at hs
      simp only [Except.ok.injEq] at hs
      subst hs
      simp only [this] at h
      have hret : satAddUsize (satAddUsize (satAddUsize 4 (satMulUsize (es.length - 1) 4))
          (satMulUsize es.length 4)) (min (0 + lensSum len es) usizeMax)
          = min (natTotal len es) usizeMax := by
        unfold satAddUsize satMulUsize natTotal usizeMax; omega
      rw [hret] at h
      by_cases ht : min (natTotal len es) usizeMax > i32Max
      · simp only [ht, if_true, Except.error.injEq] at h
        refine ⟨by omega, hv, ?_, h.symm⟩
        unfold usizeMax i32Max at *; omega
      · simp only [ht, if_false] at h
        cases h

/-! ### Lawful values at the call level -/

/-- A value is lawful when the length it reports is the number of bytes its calls
hand to the sink (vacuous for a value that panics instead). -/
def CallsLawful (calls : V → Option (List Piece)) (len : V → Nat) (v : V) : Prop :=
  ∀ q, calls v = some q → len v = (flat q).length

theorem CallsLawful.bytes {calls : V → Option (List Piece)} {len : V → Nat} {v : V}
    (h : CallsLawful calls len v) (hs : (calls v).isSome = true) :
    len v = (bytesOf calls v).length := by
  cases hc : calls v with
  | none => simp [hc] at hs
  | some q => simp [bytesOf, hc, h q hc]

/-- An accepted message over lawful values makes calls (no `assert!` fires) as soon
as none of its values panics, and they add up to `rough_tlv_len`. -/
theorem Accepted.calls {calls : V → Option (List Piece)} {len : V → Nat} {ps : List (Pair V)}
    {w : Wrapper V} (h : Accepted len ps w) (hl : ∀ p ∈ ps, CallsLawful calls len p.2)
    (hs : ∀ p ∈ ps, (calls p.2).isSome = true) :
    ∃ cs, w.encodePieces calls len = some cs ∧ w.encode (bytesOf calls) len = some (flat cs) ∧
      (flat cs).length = w.tlvLen := by
  have hperm := sortByTag_perm ps
  have he : w.entries = sortByTag ps := h.spec.1
  have hs' : ∀ p ∈ w.entries, (calls p.2).isSome = true := by
    intro p hp; rw [he] at hp; exact hs p (hperm.mem_iff.mp hp)
  have hl' : ∀ p ∈ w.entries, len p.2 = (bytesOf calls p.2).length := by
    intro p hp; rw [he] at hp
    exact (hl p (hperm.mem_iff.mp hp)).bytes (hs p (hperm.mem_iff.mp hp))
  obtain ⟨h1, h2, _, _⟩ := h.encode_eq (bytesOf calls)
  have hm := encodePieces_map_flat calls len w hs'
  rw [h1] at hm
  cases hc : w.encodePieces calls len with
  | none => simp [hc] at hm
  | some cs =>
    simp only [hc, Option.map_some, Option.some.injEq] at hm
    refine ⟨cs, rfl, by rw [h1, hm], ?_⟩
    rw [hm, layout_length (bytesOf calls) len w.entries hl', Wrapper.tlvLen, h2]

theorem Accepted.calls_eq {calls : V → Option (List Piece)} {len : V → Nat} {ps : List (Pair V)}
    {w : Wrapper V} (h : Accepted len ps w) (hs : ∀ p ∈ ps, (calls p.2).isSome = true) :
    w.encodePieces calls len = some (callLayout calls len w.entries) := by
  have hperm := sortByTag_perm ps
  have he : w.entries = sortByTag ps := h.spec.1
  obtain ⟨_, _, h5, h3⟩ := h.encode_eq (bytesOf calls)
  exact encodeEntriesCalls_eq calls len w.entries h3 h5
    (by intro p hp; rw [he] at hp; exact hs p (hperm.mem_iff.mp hp))

/-- **Nesting, one level, call level**: an accepted message over lawful values is a
lawful value. -/
theorem Accepted.callsLawful {calls : V → Option (List Piece)} {len : V → Nat} {ps : List (Pair V)}
    {w : Wrapper V} (h : Accepted len ps w) (hl : ∀ p ∈ ps, CallsLawful calls len p.2) :
    CallsLawful (fun w : Wrapper V => w.encodePieces calls len) Wrapper.tlvLen w := by
  intro q hq
  have hperm := sortByTag_perm ps
  have he : w.entries = sortByTag ps := h.spec.1
  obtain ⟨_, _, _, _, hsome⟩ := encodeEntriesCalls_shape calls len w.entries q hq
  have hs : ∀ p ∈ ps, (calls p.2).isSome = true := by
    intro p hp; exact hsome p (by rw [he]; exact hperm.mem_iff.mpr hp)
  obtain ⟨cs, h1, _, h3⟩ := h.calls hl hs
  simp only at hq
  rw [h1] at hq
  cases hq
  exact h3.symm

/-! ### The `tlv` family: every value it builds is lawful -/

/-- `v.len = (bytes its calls write).length`, unless it panics. -/
def DVal.Lawful (v : DVal) : Prop := CallsLawful DVal.calls DVal.len v

/-- A stored message is what a constructor returned on some list of lawful values. -/
def SlotOK (w : Wrapper DVal) : Prop :=
  ∃ ps, Accepted DVal.len ps w ∧ ∀ p ∈ ps, p.2.Lawful

theorem SlotOK.ofMsg_lawful {w : Wrapper DVal} (h : SlotOK w) : (DVal.ofMsg w).Lawful := by
  obtain ⟨ps, ha, hl⟩ := h
  exact ha.callsLawful hl

theorem TlvSt.value_lawful {s : TlvSt} (hs : ∀ (i : Nat) (w : Wrapper DVal), s.slots[i]? = some (some w) → SlotOK w)
    (it : ItemSpec) (v : DVal) (h : s.value it = some v) : v.Lawful := by
  cases it with
  | bytes m bs =>
    simp only [TlvSt.value, Option.some.injEq] at h; subst h
    intro q hq
    simp only [Option.some.injEq] at hq; subst hq
    simp
  | msg i =>
    simp only [TlvSt.value] at h
    cases hi : s.slots[i]? with
    | none => simp [hi] at h
    | some o =>
      cases o with
      | none => simp [hi] at h
      | some w =>
        simp only [hi, Option.some.injEq] at h; subst h
        exact (hs i w hi).ofMsg_lawful
  | view i =>
    simp only [TlvSt.value] at h
    cases hi : s.slots[i]? with
    | none => simp [hi] at h
    | some o =>
      cases o with
      | none => simp [hi] at h
      | some w =>
        simp only [hi] at h
        cases hc : w.encodePieces DVal.calls DVal.len with
        | none => simp [hc] at h
        | some ps =>
          simp only [hc, Option.some.injEq] at h; subst h
          intro q hq
          simp only [Option.some.injEq] at hq; subst hq
          simp
  | fake n =>
    simp only [TlvSt.value, Option.some.injEq] at h; subst h
    intro q hq
    simp at hq

theorem TlvSt.values_lawful {s : TlvSt} (hs : ∀ (i : Nat) (w : Wrapper DVal), s.slots[i]? = some (some w) → SlotOK w)
    (items : List (UInt32 × ItemSpec)) (es : List (Pair DVal)) (h : s.values items = some es) :
    ∀ p ∈ es, p.2.Lawful := by
  induction items generalizing es with
  | nil => simp only [TlvSt.values, Option.some.injEq] at h; subst h; simp
  | cons x rest ih =>
    obtain ⟨t, it⟩ := x
    simp only [TlvSt.values] at h
    cases hv : s.value it with
    | none => simp [hv] at h
    | some v =>
      simp only [hv] at h
      cases hr : s.values rest with
      | none => simp [hr] at h
      | some r =>
        simp only [hr, Option.map_some, Option.some.injEq] at h; subst h
        intro p hp
        rcases List.mem_cons.mp hp with rfl | hp
        · exact TlvSt.value_lawful hs it v hv
        · exact ih r hr p hp

theorem Ctor.apply_accepted (c : Ctor) (es : List (Pair DVal)) (w : Wrapper DVal)
    (h : c.apply es = .ok w) : Accepted DVal.len es w := by
  cases c
  · exact Or.inl h
  · exact Or.inr (Or.inr h)
  · exact Or.inr (Or.inl h)

/-- The states the `tlv` family can reach: any sequence of well-formed `msg` ops
(`enc` ops do not change the state). -/
inductive TlvReach : TlvSt → Prop where
  | init : TlvReach TlvSt.init
  | msg {s s' : TlvSt} {c : Ctor} {items : List (UInt32 × ItemSpec)}
      {r : Except EncErr (Wrapper DVal)} :
      TlvReach s → s.msg c items = some (s', r) → TlvReach s'

theorem TlvReach.slotOK {s : TlvSt} (h : TlvReach s) :
    ∀ (i : Nat) (w : Wrapper DVal), s.slots[i]? = some (some w) → SlotOK w := by
  induction h with
  | init => intro i w hi; simp [TlvSt.init] at hi
  | @msg s s' c items r _ hm ih =>
    intro i w hi
    simp only [TlvSt.msg] at hm
    cases hv : s.values items with
    | none => simp [hv] at hm
    | some es =>
      simp only [hv, Option.some.injEq, Prod.mk.injEq] at hm
      obtain ⟨rfl, rfl⟩ := hm
      simp only at hi
      rw [List.getElem?_append] at hi
      split at hi
      · exact ih i w hi
      · cases hr : c.apply es with
        | error e =>
          simp only [hr] at hi
          rcases Nat.lt_or_ge (i - s.slots.length) 1 with hlt | hge
          · have : i - s.slots.length = 0 := by omega
            simp [this] at hi
          · rw [List.getElem?_eq_none (by simpa using hge)] at hi; cases hi
        | ok w' =>
          simp only [hr] at hi
          rcases Nat.lt_or_ge (i - s.slots.length) 1 with hlt | hge
          · have : i - s.slots.length = 0 := by omega
            simp only [this, List.getElem?_cons_zero, Option.some.injEq] at hi
            subst hi
            exact ⟨es, c.apply_accepted es _ hr, TlvSt.values_lawful ih items es hv⟩
          · rw [List.getElem?_eq_none (by simpa using hge)] at hi; cases hi

/-- No fake inside: every value of the message makes calls. -/
theorem hasFake_false_iff (w : Wrapper DVal) :
    hasFake w = false ↔ ∀ p ∈ w.entries, (DVal.calls p.2).isSome = true := by
  simp only [hasFake, DVal.fake, List.any_eq_false, Option.isNone_iff_eq_none]
  constructor
  · intro h p hp
    cases hc : p.2.calls with
    | none => exact absurd hc (h p hp)
    | some _ => rfl
  · intro h p hp hc
    have := h p hp
    rw [hc] at this; cases this

theorem bytesOf_dval : bytesOf DVal.calls = DVal.bytes := rfl

/-- What the `tlv` driver relies on at an `enc` op: a stored message without fakes
is an accepted message over values that satisfy the lawfulness hypothesis of every
C11 theorem (`hl`) for `bytes := DVal.bytes`, `len := DVal.len`. -/
theorem SlotOK.hyps {w : Wrapper DVal} (h : SlotOK w) (hf : hasFake w = false) :
    ∃ ps, Accepted DVal.len ps w ∧ (∀ p ∈ ps, DVal.len p.2 = (DVal.bytes p.2).length) ∧
      (∀ p ∈ ps, CallsLawful DVal.calls DVal.len p.2) ∧ (∀ p ∈ ps, (DVal.calls p.2).isSome = true) := by
  obtain ⟨ps, ha, hl⟩ := h
  have hperm := sortByTag_perm ps
  have he : w.entries = sortByTag ps := ha.spec.1
  have hs : ∀ p ∈ ps, (DVal.calls p.2).isSome = true := by
    intro p hp
    exact (hasFake_false_iff w).mp hf p (by rw [he]; exact hperm.mem_iff.mpr hp)
  exact ⟨ps, ha, fun p hp => (hl p hp).bytes (hs p hp), hl, hs⟩

/-! ### Nested messages to every depth, as a type

Rust's value types have a static nesting depth (`MessageWrapper<&MessageWrapper<&[u8]>>`
…); `NV d` is the type of values nested at most `d` deep whose leaves are byte
strings handed over by either sink method. -/

/-- Values of nesting depth ≤ `d`. -/
def NV : Nat → Type
  | 0 => Piece
  | d + 1 => Piece ⊕ Wrapper (NV d)

/-- `rough_tlv_len`. -/
def NV.len : (d : Nat) → NV d → Nat
  | 0, v => v.2.length
  | _ + 1, .inl v => v.2.length
  | _ + 1, .inr w => w.tlvLen

/-- `to_rough_tlv`, as sink calls. -/
def NV.calls : (d : Nat) → NV d → Option (List Piece)
  | 0, v => some [v]
  | _ + 1, .inl v => some [v]
  | d + 1, .inr w => w.encodePieces (NV.calls d) (NV.len d)

/-- Hereditarily well-formed: every message inside was returned by a constructor. -/
def NV.Ok : (d : Nat) → NV d → Prop
  | 0, _ => True
  | _ + 1, .inl _ => True
  | d + 1, .inr w => ∃ ps : List (Pair (NV d)), Accepted (NV.len d) ps w ∧ ∀ p ∈ ps, NV.Ok d p.2

theorem piece_lawful (v : Piece) : v.2.length = (flat [v]).length := by simp

/-- **Every depth**: a hereditarily accepted value of any nesting depth is lawful
(structural induction on the depth; `Accepted.callsLawful` is the step). -/
theorem NV.lawful : ∀ (d : Nat) (v : NV d), NV.Ok d v → CallsLawful (NV.calls d) (NV.len d) v
  | 0, v, _ => by
    intro q hq
    simp only [NV.calls, Option.some.injEq] at hq; subst hq
    exact piece_lawful v
  | d + 1, .inl v, _ => by
    intro q hq
    simp only [NV.calls, Option.some.injEq] at hq; subst hq
    exact piece_lawful v
  | d + 1, .inr w, h => by
    obtain ⟨ps, ha, hok⟩ := h
    have := ha.callsLawful (calls := NV.calls d) (fun p hp => NV.lawful d p.2 (hok p hp))
    intro q hq
    simp only [NV.calls] at hq
    simpa [NV.len] using this q hq

/-- … and it never panics: an `Ok` value always makes calls. -/
theorem NV.calls_isSome : ∀ (d : Nat) (v : NV d), NV.Ok d v → (NV.calls d v).isSome = true
  | 0, _, _ => rfl
  | _ + 1, .inl _, _ => rfl
  | d + 1, .inr w, h => by
    obtain ⟨ps, ha, hok⟩ := h
    obtain ⟨cs, h1, _⟩ := ha.calls (calls := NV.calls d)
      (fun p hp => NV.lawful d p.2 (hok p hp)) (fun p hp => NV.calls_isSome d p.2 (hok p hp))
    simp only [NV.calls]
    rw [h1]; rfl

end Woodpile.RoughTlv

/-
Helper lemmas about the Rough TLV model (`Woodpile.RoughTlv`).
-/
import Woodpile.Model.RoughTlv

namespace Woodpile.RoughTlv

/-! ### Bytes and words -/

theorem byteAt_lt (d : List UInt8) (i : Nat) : byteAt d i < 256 := by
  unfold byteAt
  exact (d[i]?.getD 0).toNat_lt

theorem word_lt (d : List UInt8) (off : Nat) : word d off < 4294967296 := by
  have h0 := byteAt_lt d off
  have h1 := byteAt_lt d (off + 1)
  have h2 := byteAt_lt d (off + 2)
  have h3 := byteAt_lt d (off + 3)
  unfold word; omega

theorem byteAt_slice (d : List UInt8) (a m i : Nat) (h : i < m) :
    byteAt ((d.drop a).take m) i = byteAt d (a + i) := by
  simp [byteAt, List.getElem?_drop, h]

theorem word_slice (d : List UInt8) (a m off : Nat) (h : off + 4 ≤ m) :
    word ((d.drop a).take m) off = word d (a + off) := by
  unfold word
  rw [byteAt_slice _ _ _ _ (by omega), byteAt_slice _ _ _ _ (by omega),
    byteAt_slice _ _ _ _ (by omega), byteAt_slice _ _ _ _ (by omega)]
  simp [Nat.add_assoc]

theorem byteAt_append_left (a b : List UInt8) (i : Nat) (h : i < a.length) :
    byteAt (a ++ b) i = byteAt a i := by
  simp [byteAt, List.getElem?_append_left h]

theorem byteAt_append_right (a b : List UInt8) (i : Nat) :
    byteAt (a ++ b) (a.length + i) = byteAt b i := by
  simp [byteAt, List.getElem?_append_right]

theorem word_append_right (a b : List UInt8) (off : Nat) :
    word (a ++ b) (a.length + off) = word b off := by
  unfold word
  rw [show a.length + off + 1 = a.length + (off + 1) by omega,
    show a.length + off + 2 = a.length + (off + 2) by omega,
    show a.length + off + 3 = a.length + (off + 3) by omega,
    byteAt_append_right, byteAt_append_right, byteAt_append_right, byteAt_append_right]

theorem word_append_left (a b : List UInt8) (off : Nat) (h : off + 4 ≤ a.length) :
    word (a ++ b) off = word a off := by
  unfold word
  rw [byteAt_append_left _ _ _ (by omega), byteAt_append_left _ _ _ (by omega),
    byteAt_append_left _ _ _ (by omega), byteAt_append_left _ _ _ (by omega)]

@[simp] theorem le32_length (n : Nat) : (le32 n).length = 4 := rfl

theorem word_le32 (n : Nat) (h : n < 4294967296) : word (le32 n) 0 = n := by
  simp [word, byteAt, le32, UInt8.toNat_ofNat']
  omega

/-- Reading back word `i` of a run of little-endian words. -/
theorem word_flatten_le32 (xs : List Nat) (hx : ∀ x ∈ xs, x < 4294967296) (post : List UInt8)
    (i : Nat) (hi : i < xs.length) :
    word ((xs.map le32).flatten ++ post) (4 * i) = xs[i] := by
  induction xs generalizing i with
  | nil => simp at hi
  | cons x xs ih =>
    simp only [List.map_cons, List.flatten_cons, List.append_assoc]
    cases i with
    | zero =>
      rw [word_append_left _ _ _ (by simp)]
      simpa using word_le32 x (hx x (by simp))
    | succ j =>
      have : 4 * (j + 1) = (le32 x).length + 4 * j := by simp; omega
      rw [this, word_append_right]
      simpa using ih (fun y hy => hx y (by simp [hy])) j (by simpa using hi)

@[simp] theorem flatten_le32_length (xs : List Nat) : ((xs.map le32).flatten).length = 4 * xs.length := by
  induction xs with
  | nil => rfl
  | cons x xs ih => simp [ih]; omega

theorem wordsOf_slice (d : List UInt8) (a k : Nat) (h : a + 4 * k ≤ d.length) :
    wordsOf ((d.drop a).take (4 * k)) = (List.range k).map (fun j => word d (a + 4 * j)) := by
  unfold wordsOf
  have hl : ((d.drop a).take (4 * k)).length = 4 * k := by
    simp [List.length_take, List.length_drop]; omega
  rw [hl, Nat.mul_div_cancel_left k (by omega : 0 < 4)]
  apply List.map_congr_left
  intro j hj
  have hj := List.mem_range.mp hj
  exact word_slice d a (4 * k) (4 * j) (by omega)

/-! ### `slice?` -/

theorem slice?_eq_some {d : List UInt8} {a b : Nat} (h1 : a ≤ b) (h2 : b ≤ d.length) :
    slice? d a b = some ((d.drop a).take (b - a)) := by
  simp [slice?, h1, h2]

theorem slice?_isSome_iff (d : List UInt8) (a b : Nat) :
    (slice? d a b).isSome ↔ a ≤ b ∧ b ≤ d.length := by
  unfold slice?; split <;> simp_all

/-! ### `firstDecrease` -/

theorem firstDecrease_none_iff (l : List Nat) (k : Nat) :
    firstDecrease l k = none ↔ List.Pairwise (· ≤ ·) l := by
  induction l generalizing k with
  | nil => simp [firstDecrease]
  | cons a t ih =>
    cases t with
    | nil => simp [firstDecrease]
    | cons b rest =>
      unfold firstDecrease
      by_cases hab : a > b
      · simp only [hab, if_true]
        constructor
        · intro h; cases h
        · intro h
          have := (List.pairwise_cons.mp h).1 b (by simp)
          omega
      · simp only [hab, if_false]
        rw [ih (k + 1)]
        constructor
        · intro h
          refine List.pairwise_cons.mpr ⟨?_, h⟩
          intro x hx
          rcases List.mem_cons.mp hx with rfl | hx
          · omega
          · have := (List.pairwise_cons.mp h).1 x hx
            omega
        · intro h; exact (List.pairwise_cons.mp h).2

/-- When there is a decrease, the witness is the first adjacent inversion. -/
theorem firstDecrease_some (l : List Nat) (k i a b : Nat) (h : firstDecrease l k = some (i, a, b)) :
    k ≤ i ∧ l[i - k]? = some a ∧ l[i - k + 1]? = some b ∧ a > b ∧
      List.Pairwise (· ≤ ·) (l.take (i - k + 1)) := by
  induction l generalizing k with
  | nil => simp [firstDecrease] at h
  | cons x t ih =>
    cases t with
    | nil => simp [firstDecrease] at h
    | cons y rest =>
      unfold firstDecrease at h
      by_cases hxy : x > y
      · simp only [hxy, if_true, Option.some.injEq, Prod.mk.injEq] at h
        obtain ⟨rfl, rfl, rfl⟩ := h
        simp [hxy]
      · simp only [hxy, if_false] at h
        obtain ⟨h1, h2, h3, h4, h5⟩ := ih (k + 1) h
        have e : i - k = (i - (k + 1)) + 1 := by omega
        refine ⟨by omega, ?_, ?_, h4, ?_⟩
        · rw [e]; simpa using h2
        · rw [e]; simpa using h3
        · rw [e, List.take_succ_cons]
          refine List.pairwise_cons.mpr ⟨?_, h5⟩
          intro z hz
          have hz' : z ∈ y :: rest := List.mem_of_mem_take hz
          -- x ≤ y ≤ everything later in the sorted prefix
          cases hrest : (y :: rest).take (i - (k + 1) + 1) with
          | nil => simp [hrest] at hz
          | cons y' r' =>
            have hy' : y' = y := by simp [List.take_succ_cons] at hrest; exact hrest.1.symm
            rw [hrest] at hz h5
            rcases List.mem_cons.mp hz with rfl | hz
            · omega
            · have := (List.pairwise_cons.mp h5).1 z hz
              omega

/-! ### The header of a byte string, read directly (specification side) -/

/-- `N`: the first word. -/
def hdrCount (d : List UInt8) : Nat := word d 0
/-- Offset `i` (`0 ≤ i < N-1`) is the word at byte `4 + 4i`. -/
def hdrOffsets (d : List UInt8) : List Nat :=
  (List.range (hdrCount d - 1)).map (fun i => word d (4 + 4 * i))
/-- Tag `i` (`0 ≤ i < N`) is the word at byte `4N + 4i`. -/
def hdrTags (d : List UInt8) : List Nat :=
  (List.range (hdrCount d)).map (fun i => word d (4 * hdrCount d + 4 * i))

@[simp] theorem hdrOffsets_length (d : List UInt8) : (hdrOffsets d).length = hdrCount d - 1 := by
  simp [hdrOffsets]
@[simp] theorem hdrTags_length (d : List UInt8) : (hdrTags d).length = hdrCount d := by
  simp [hdrTags]

theorem View.len_eq (d : List UInt8) (h4 : 4 ≤ d.length) : View.len ⟨d⟩ = some (hdrCount d) := by
  unfold View.len
  rw [slice?_eq_some (by omega) h4]
  simp only [Option.map_some, hdrCount]
  rw [word_slice d 0 (4 - 0) 0 (by omega)]

theorem View.offsets_eq (d : List UInt8) (h4 : 4 ≤ d.length) (h8 : 8 * hdrCount d ≤ d.length) :
    View.offsets ⟨d⟩ = some (hdrOffsets d) := by
  unfold View.offsets
  rw [View.len_eq d h4]
  simp only
  rw [slice?_eq_some (by omega) (by omega)]
  have e : max (4 * hdrCount d) 4 - 4 = 4 * (hdrCount d - 1) := by omega
  rw [e]
  simp only [Option.map_some]
  rw [wordsOf_slice d 4 (hdrCount d - 1) (by omega)]
  rfl

theorem View.tags_eq (d : List UInt8) (h4 : 4 ≤ d.length) (h8 : 8 * hdrCount d ≤ d.length) :
    View.tags ⟨d⟩ = some (hdrTags d) := by
  unfold View.tags
  rw [View.len_eq d h4]
  simp only
  rw [slice?_eq_some (by omega) (by omega)]
  have e : 8 * hdrCount d - 4 * hdrCount d = 4 * hdrCount d := by omega
  rw [e]
  simp only [Option.map_some]
  rw [wordsOf_slice d (4 * hdrCount d) (hdrCount d) (by omega)]
  rfl

/-- `MessageView::new` without the slicing: the five checks, in order, on the
header words.  In particular it never panics. -/
theorem View.new_eq (d : List UInt8) :
    View.new d =
      if d.length < 4 then some (.error (.impossibleHeader d.length))
      else if 8 * hdrCount d > d.length then some (.error (.truncatedHeader (hdrCount d) d.length))
      else match firstDecrease (hdrOffsets d) 0 with
        | some (i, a, b) => some (.error (.nonMonotonicOffsets i a b))
        | none =>
          match firstDecrease (hdrTags d) 0 with
          | some (i, a, b) => some (.error (.nonMonotonicTags i a b))
          | none =>
            match (hdrOffsets d).getLast? with
            | some last =>
              if 8 * hdrCount d + last > d.length then
                some (.error (.truncatedPayload (8 * hdrCount d + last) d.length))
              else some (.ok ⟨d⟩)
            | none => some (.ok ⟨d⟩) := by
  unfold View.new
  by_cases h4 : d.length < 4
  · simp [h4]
  · simp only [h4, if_false]
    have h4' : 4 ≤ d.length := by omega
    rw [slice?_eq_some (by omega) h4']
    simp only
    have hw : word (List.take (4 - 0) (List.drop 0 d)) 0 = hdrCount d := by
      rw [word_slice d 0 (4 - 0) 0 (by omega)]; rfl
    rw [hw]
    by_cases h8 : 8 * hdrCount d > d.length
    · simp [h8]
    · simp only [h8, if_false]
      rw [View.offsets_eq d h4' (by omega), View.tags_eq d h4' (by omega)]
      simp only
      cases firstDecrease (hdrOffsets d) 0 with
      | some w => rfl
      | none =>
        simp only
        cases firstDecrease (hdrTags d) 0 <;> rfl

/-- The acceptance criterion. -/
structure Valid (d : List UInt8) : Prop where
  h4 : 4 ≤ d.length
  h8 : 8 * hdrCount d ≤ d.length
  offs : List.Pairwise (· ≤ ·) (hdrOffsets d)
  tags : List.Pairwise (· ≤ ·) (hdrTags d)
  last : ∀ x, (hdrOffsets d).getLast? = some x → 8 * hdrCount d + x ≤ d.length

theorem View.new_ok_iff (d : List UInt8) (v : View) :
    View.new d = some (.ok v) ↔ v = ⟨d⟩ ∧ Valid d := by
  rw [View.new_eq]
  by_cases h4 : d.length < 4
  · simp only [h4, if_true]
    constructor
    · intro h; simp at h
    · rintro ⟨_, hv⟩; have := hv.h4; omega
  · simp only [h4, if_false]
    by_cases h8 : 8 * hdrCount d > d.length
    · simp only [h8, if_true]
      constructor
      · intro h; simp at h
      · rintro ⟨_, hv⟩; have := hv.h8; omega
    · simp only [h8, if_false]
      cases ho : firstDecrease (hdrOffsets d) 0 with
      | some w =>
        obtain ⟨i, a, b⟩ := w
        simp only
        constructor
        · intro h; simp at h
        · rintro ⟨_, hv⟩
          have := (firstDecrease_none_iff _ 0).mpr hv.offs
          rw [ho] at this; cases this
      | none =>
        simp only
        have hoff := (firstDecrease_none_iff _ 0).mp ho
        cases ht : firstDecrease (hdrTags d) 0 with
        | some w =>
          obtain ⟨i, a, b⟩ := w
          simp only
          constructor
          · intro h; simp at h
          · rintro ⟨_, hv⟩
            have := (firstDecrease_none_iff _ 0).mpr hv.tags
            rw [ht] at this; cases this
        | none =>
          simp only
          have htag := (firstDecrease_none_iff _ 0).mp ht
          cases hl : (hdrOffsets d).getLast? with
          | none =>
            simp only
            constructor
            · intro h
              simp only [Option.some.injEq, Except.ok.injEq] at h
              exact ⟨h.symm, ⟨by omega, by omega, hoff, htag, by simp [hl]⟩⟩
            · rintro ⟨rfl, _⟩; rfl
          | some last =>
            simp only
            by_cases hp : 8 * hdrCount d + last > d.length
            · simp only [hp, if_true]
              constructor
              · intro h; simp at h
              · rintro ⟨_, hv⟩; have := hv.last last hl; omega
            · simp only [hp, if_false]
              constructor
              · intro h
                simp only [Option.some.injEq, Except.ok.injEq] at h
                refine ⟨h.symm, ⟨by omega, by omega, hoff, htag, ?_⟩⟩
                intro x hx; rw [hl] at hx; cases hx; omega
              · rintro ⟨rfl, _⟩; rfl

theorem View.new_ne_none (d : List UInt8) : View.new d ≠ none := by
  rw [View.new_eq]
  repeat' split
  all_goals simp

end Woodpile.RoughTlv

/-
Helper lemmas about the Rough TLV model (`Woodpile.RoughTlv`).
-/
import Woodpile.Model.RoughTlv

namespace Woodpile.RoughTlv

/-! ### Bytes and words -/

theorem byteAt_lt (d : List UInt8) (i : Nat) : byteAt d i < 256 := by
  unfold byteAt
  exact (d[i]?.getD 0).toNat_lt

theorem word_lt (d : List UInt8) (off : Nat) : word d off < 4294967296 := by
  have h0 := byteAt_lt d off
  have h1 := byteAt_lt d (off + 1)
  have h2 := byteAt_lt d (off + 2)
  have h3 := byteAt_lt d (off + 3)
  unfold word; omega

theorem byteAt_slice (d : List UInt8) (a m i : Nat) (h : i < m) :
    byteAt ((d.drop a).take m) i = byteAt d (a + i) := by
  simp [byteAt, List.getElem?_drop, h]

theorem word_slice (d : List UInt8) (a m off : Nat) (h : off + 4 ≤ m) :
    word ((d.drop a).take m) off = word d (a + off) := by
  unfold word
  rw [byteAt_slice _ _ _ _ (by omega), byteAt_slice _ _ _ _ (by omega),
    byteAt_slice _ _ _ _ (by omega), byteAt_slice _ _ _ _ (by omega)]
  simp [Nat.add_assoc]

theorem byteAt_append_left (a b : List UInt8) (i : Nat) (h : i < a.length) :
    byteAt (a ++ b) i = byteAt a i := by
  simp [byteAt, List.getElem?_append_left h]

theorem byteAt_append_right (a b : List UInt8) (i : Nat) :
    byteAt (a ++ b) (a.length + i) = byteAt b i := by
  simp [byteAt, List.getElem?_append_right]

theorem word_append_right (a b : List UInt8) (off : Nat) :
    word (a ++ b) (a.length + off) = word b off := by
  unfold word
  rw [show a.length + off + 1 = a.length + (off + 1) by omega,
    show a.length + off + 2 = a.length + (off + 2) by omega,
    show a.length + off + 3 = a.length + (off + 3) by omega,
    byteAt_append_right, byteAt_append_right, byteAt_append_right, byteAt_append_right]

theorem word_append_left (a b : List UInt8) (off : Nat) (h : off + 4 ≤ a.length) :
    word (a ++ b) off = word a off := by
  unfold word
  rw [byteAt_append_left _ _ _ (by omega), byteAt_append_left _ _ _ (by omega),
    byteAt_append_left _ _ _ (by omega), byteAt_append_left _ _ _ (by omega)]

@[simp] theorem le32_length (n : Nat) : (le32 n).length = 4 := rfl

theorem word_le32 (n : Nat) (h : n < 4294967296) : word (le32 n) 0 = n := by
  simp [word, byteAt, le32, UInt8.toNat_ofNat']
  omega

/-- Reading back word `i` of a run of little-endian words. -/
theorem word_flatten_le32 (xs : List Nat) (hx : ∀ x ∈ xs, x < 4294967296) (post : List UInt8)
    (i : Nat) (hi : i < xs.length) :
    word ((xs.map le32).flatten ++ post) (4 * i) = xs[i] := by
  induction xs generalizing i with
  | nil => simp at hi
  | cons x xs ih =>
    simp only [List.map_cons, List.flatten_cons, List.append_assoc]
    cases i with
    | zero =>
      rw [word_append_left _ _ _ (by simp)]
      simpa using word_le32 x (hx x (by simp))
    | succ j =>
      have : 4 * (j + 1) = (le32 x).length + 4 * j := by simp; omega
      rw [this, word_append_right]
      simpa using ih (fun y hy => hx y (by simp [hy])) j (by simpa using hi)

@[simp] theorem flatten_le32_length (xs : List Nat) : ((xs.map le32).flatten).length = 4 * xs.length := by
  induction xs with
  | nil => rfl
  | cons x xs ih => simp [ih]; omega

theorem wordsOf_slice (d : List UInt8) (a k : Nat) (h : a + 4 * k ≤ d.length) :
    wordsOf ((d.drop a).take (4 * k)) = (List.range k).map (fun j => word d (a + 4 * j)) := by
  unfold wordsOf
  have hl : ((d.drop a).take (4 * k)).length = 4 * k := by
    simp [List.length_take, List.length_drop]; omega
  rw [hl, Nat.mul_div_cancel_left k (by omega : 0 < 4)]
  apply List.map_congr_left
  intro j hj
  have hj := List.mem_range.mp hj
  exact word_slice d a (4 * k) (4 * j) (by omega)

/-! ### `slice?` -/

theorem slice?_eq_some {d : List UInt8} {a b : Nat} (h1 : a ≤ b) (h2 : b ≤ d.length) :
    slice? d a b = some ((d.drop a).take (b - a)) := by
  simp [slice?, h1, h2]

theorem slice?_isSome_iff (d : List UInt8) (a b : Nat) :
    (slice? d a b).isSome ↔ a ≤ b ∧ b ≤ d.length := by
  unfold slice?; split <;> simp_all

/-! ### `firstDecrease` -/

theorem firstDecrease_none_iff (l : List Nat) (k : Nat) :
    firstDecrease l k = none ↔ List.Pairwise (· ≤ ·) l := by
  induction l generalizing k with
  | nil => simp [firstDecrease]
  | cons a t ih =>
    cases t with
    | nil => simp [firstDecrease]
    | cons b rest =>
      unfold firstDecrease
      by_cases hab : a > b
      · simp only [hab, if_true]
        constructor
        · intro h; cases h
        · intro h
          have := (List.pairwise_cons.mp h).1 b (by simp)
          omega
      · simp only [hab, if_false]
        rw [ih (k + 1)]
        constructor
        · intro h
          refine List.pairwise_cons.mpr ⟨?_, h⟩
          intro x hx
          rcases List.mem_cons.mp hx with rfl | hx
          · omega
          · have := (List.pairwise_cons.mp h).1 x hx
            omega
        · intro h; exact (List.pairwise_cons.mp h).2

/-- When there is a decrease, the witness is the first adjacent inversion. -/
theorem firstDecrease_some (l : List Nat) (k i a b : Nat) (h : firstDecrease l k = some (i, a, b)) :
    k ≤ i ∧ l[i - k]? = some a ∧ l[i - k + 1]? = some b ∧ a > b ∧
      List.Pairwise (· ≤ ·) (l.take (i - k + 1)) := by
  induction l generalizing k with
  | nil => simp [firstDecrease] at h
  | cons x t ih =>
    cases t with
    | nil => simp [firstDecrease] at h
    | cons y rest =>
      unfold firstDecrease at h
      by_cases hxy : x > y
      · simp only [hxy, if_true, Option.some.injEq, Prod.mk.injEq] at h
        obtain ⟨rfl, rfl, rfl⟩ := h
        simp [hxy]
      · simp only [hxy, if_false] at h
        obtain ⟨h1, h2, h3, h4, h5⟩ := ih (k + 1) h
        have e : i - k = (i - (k + 1)) + 1 := by omega
        refine ⟨by omega, ?_, ?_, h4, ?_⟩
        · rw [e]; simpa using h2
        · rw [e]; simpa using h3
        · rw [e, List.take_succ_cons]
          refine List.pairwise_cons.mpr ⟨?_, h5⟩
          intro z hz
          have hz' : z ∈ y :: rest := List.mem_of_mem_take hz
          -- x ≤ y ≤ everything later in the sorted prefix
          cases hrest : (y :: rest).take (i - (k + 1) + 1) with
          | nil => simp [hrest] at hz
          | cons y' r' =>
            have hy' : y' = y := by simp [List.take_succ_cons] at hrest; exact hrest.1.symm
            rw [hrest] at hz h5
            rcases List.mem_cons.mp hz with rfl | hz
            · omega
            · have := (List.pairwise_cons.mp h5).1 z hz
              omega

/-! ### The header of a byte string, read directly (specification side) -/

/-- `N`: the first word. -/
def hdrCount (d : List UInt8) : Nat := word d 0
/-- Offset `i` (`0 ≤ i < N-1`) is the word at byte `4 + 4i`. -/
def hdrOffsets (d : List UInt8) : List Nat :=
  (List.range (hdrCount d - 1)).map (fun i => word d (4 + 4 * i))
/-- Tag `i` (`0 ≤ i < N`) is the word at byte `4N + 4i`. -/
def hdrTags (d : List UInt8) : List Nat :=
  (List.range (hdrCount d)).map (fun i => word d (4 * hdrCount d + 4 * i))

@[simp] theorem hdrOffsets_length (d : List UInt8) : (hdrOffsets d).length = hdrCount d - 1 := by
  simp [hdrOffsets]
@[simp] theorem hdrTags_length (d : List UInt8) : (hdrTags d).length = hdrCount d := by
  simp [hdrTags]

theorem View.len_eq (d : List UInt8) (h4 : 4 ≤ d.length) : View.len ⟨d⟩ = some (hdrCount d) := by
  unfold View.len
  rw [slice?_eq_some (by omega) h4]
  simp only [Option.map_some, hdrCount]
  rw [word_slice d 0 (4 - 0) 0 (by omega)]

theorem View.offsets_eq (d : List UInt8) (h4 : 4 ≤ d.length) (h8 : 8 * hdrCount d ≤ d.length) :
    View.offsets ⟨d⟩ = some (hdrOffsets d) := by
  unfold View.offsets
  rw [View.len_eq d h4]
  simp only
  rw [slice?_eq_some (by omega) (by omega)]
  have e : max (4 * hdrCount d) 4 - 4 = 4 * (hdrCount d - 1) := by omega
  rw [e]
  simp only [Option.map_some]
  rw [wordsOf_slice d 4 (hdrCount d - 1) (by omega)]
  rfl

theorem View.tags_eq (d : List UInt8) (h4 : 4 ≤ d.length) (h8 : 8 * hdrCount d ≤ d.length) :
    View.tags ⟨d⟩ = some (hdrTags d) := by
  unfold View.tags
  rw [View.len_eq d h4]
  simp only
  rw [slice?_eq_some (by omega) (by omega)]
  have e : 8 * hdrCount d - 4 * hdrCount d = 4 * hdrCount d := by omega
  rw [e]
  simp only [Option.map_some]
  rw [wordsOf_slice d (4 * hdrCount d) (hdrCount d) (by omega)]
  rfl

/-- `MessageView::new` without the slicing: the five checks, in order, on the
header words.  In particular it never panics. -/
theorem View.new_eq (d : List UInt8) :
    View.new d =
      if d.length < 4 then some (.error (.impossibleHeader d.length))
      else if 8 * hdrCount d > d.length then some (.error (.truncatedHeader (hdrCount d) d.length))
      else match firstDecrease (hdrOffsets d) 0 with
        | some (i, a, b) => some (.error (.nonMonotonicOffsets i a b))
        | none =>
          match firstDecrease (hdrTags d) 0 with
          | some (i, a, b) => some (.error (.nonMonotonicTags i a b))
          | none =>
            match (hdrOffsets d).getLast? with
            | some last =>
              if 8 * hdrCount d + last > d.length then
                some (.error (.truncatedPayload (8 * hdrCount d + last) d.length))
              else some (.ok ⟨d⟩)
            | none => some (.ok ⟨d⟩) := by
  unfold View.new
  by_cases h4 : d.length < 4
  · simp [h4]
  · simp only [h4, if_false]
    have h4' : 4 ≤ d.length := by omega
    rw [slice?_eq_some (by omega) h4']
    simp only
    have hw : word (List.take (4 - 0) (List.drop 0 d)) 0 = hdrCount d := by
      rw [word_slice d 0 (4 - 0) 0 (by omega)]; rfl
    rw [hw]
    by_cases h8 : 8 * hdrCount d > d.length
    · simp [h8]
    · simp only [h8, if_false]
      rw [View.offsets_eq d h4' (by omega), View.tags_eq d h4' (by omega)]
      simp only
      cases firstDecrease (hdrOffsets d) 0 with
      | some w => rfl
      | none =>
        simp only
        cases firstDecrease (hdrTags d) 0 <;> rfl

/-- The acceptance criterion. -/
structure Valid (d : List UInt8) : Prop where
  h4 : 4 ≤ d.length
  h8 : 8 * hdrCount d ≤ d.length
  offs : List.Pairwise (· ≤ ·) (hdrOffsets d)
  tags : List.Pairwise (· ≤ ·) (hdrTags d)
  last : ∀ x, (hdrOffsets d).getLast? = some x → 8 * hdrCount d + x ≤ d.length

theorem View.new_ok_iff (d : List UInt8) (v : View) :
    View.new d = some (.ok v) ↔ v = ⟨d⟩ ∧ Valid d := by
  rw [View.new_eq]
  by_cases h4 : d.length < 4
  · simp only [h4, if_true]
    constructor
    · intro h; simp at h
    · rintro ⟨_, hv⟩; have := hv.h4; omega
  · simp only [h4, if_false]
    by_cases h8 : 8 * hdrCount d > d.length
    · simp only [h8, if_true]
      constructor
      · intro h; simp at h
      · rintro ⟨_, hv⟩; have := hv.h8; omega
    · simp only [h8, if_false]
      cases ho : firstDecrease (hdrOffsets d) 0 with
      | some w =>
        obtain ⟨i, a, b⟩ := w
        simp only
        constructor
        · intro h; simp at h
        · rintro ⟨_, hv⟩
          have := (firstDecrease_none_iff _ 0).mpr hv.offs
          rw [ho] at this; cases this
      | none =>
        simp only
        have hoff := (firstDecrease_none_iff _ 0).mp ho
        cases ht : firstDecrease (hdrTags d) 0 with
        | some w =>
          obtain ⟨i, a, b⟩ := w
          simp only
          constructor
          · intro h; simp at h
          · rintro ⟨_, hv⟩
            have := (firstDecrease_none_iff _ 0).mpr hv.tags
            rw [ht] at this; cases this
        | none =>
          simp only
          have htag := (firstDecrease_none_iff _ 0).mp ht
          cases hl : (hdrOffsets d).getLast? with
          | none =>
            simp only
            constructor
            · intro h
              simp only [Option.some.injEq, Except.ok.injEq] at h
              exact ⟨h.symm, ⟨by omega, by omega, hoff, htag, by simp [hl]⟩⟩
            · rintro ⟨rfl, _⟩; rfl
          | some last =>
            simp only
            by_cases hp : 8 * hdrCount d + last > d.length
            · simp only [hp, if_true]
              constructor
              · intro h; simp at h
              · rintro ⟨_, hv⟩; have := hv.last last hl; omega
            · simp only [hp, if_false]
              constructor
              · intro h
                simp only [Option.some.injEq, Except.ok.injEq] at h
                refine ⟨h.symm, ⟨by omega, by omega, hoff, htag, ?_⟩⟩
                intro x hx; rw [hl] at hx; cases hx; omega
              · rintro ⟨rfl, _⟩; rfl

theorem View.new_ne_none (d : List UInt8) : View.new d ≠ none := by
  rw [View.new_eq]
  repeat' split
  all_goals simp

/-! ### Values of an accepted message -/

theorem hdrOffsets_getElem? (d : List UInt8) (j : Nat) :
    (hdrOffsets d)[j]? = if j < hdrCount d - 1 then some (word d (4 + 4 * j)) else none := by
  unfold hdrOffsets
  by_cases h : j < hdrCount d - 1
  · simp [h]
  · simp [h]

theorem hdrTags_getElem? (d : List UInt8) (j : Nat) :
    (hdrTags d)[j]? = if j < hdrCount d then some (word d (4 * hdrCount d + 4 * j)) else none := by
  unfold hdrTags
  by_cases h : j < hdrCount d
  · simp [h]
  · simp [h]

theorem Valid.off_mono {d : List UInt8} (hv : Valid d) {j k : Nat} (hjk : j ≤ k)
    (hk : k < hdrCount d - 1) : word d (4 + 4 * j) ≤ word d (4 + 4 * k) := by
  rcases Nat.lt_or_eq_of_le hjk with h | rfl
  · have := (List.pairwise_iff_getElem.mp hv.offs) j k (by simp; omega) (by simp; omega) h
    simpa [hdrOffsets] using this
  · exact Nat.le_refl _

theorem Valid.off_bound {d : List UInt8} (hv : Valid d) {j : Nat} (hj : j < hdrCount d - 1) :
    8 * hdrCount d + word d (4 + 4 * j) ≤ d.length := by
  have hl : (hdrOffsets d).getLast? = some (word d (4 + 4 * (hdrCount d - 1 - 1))) := by
    rw [List.getLast?_eq_getElem?, hdrOffsets_getElem?]
    simp; omega
  have h1 := hv.last _ hl
  have h2 := hv.off_mono (j := j) (k := hdrCount d - 1 - 1) (by omega) (by omega)
  omega

/-- Where value `i` starts, relative to the end of the header. -/
def startAt (d : List UInt8) (i : Nat) : Nat := if i = 0 then 0 else word d (4 + 4 * (i - 1))
/-- Where value `i` ends, relative to the end of the header. -/
def endAt (d : List UInt8) (i : Nat) : Nat :=
  if i + 1 = hdrCount d then d.length - 8 * hdrCount d else word d (4 + 4 * i)
/-- Value `i` of an accepted message. -/
def valueAt (d : List UInt8) (i : Nat) : List UInt8 :=
  (d.drop (8 * hdrCount d + startAt d i)).take (endAt d i - startAt d i)
/-- Tag `i`. -/
def tagAt (d : List UInt8) (i : Nat) : Nat := word d (4 * hdrCount d + 4 * i)
/-- The pairs of an accepted message. -/
def pairsOf (d : List UInt8) : List (Nat × List UInt8) :=
  (List.range (hdrCount d)).map (fun i => (tagAt d i, valueAt d i))

@[simp] theorem pairsOf_length (d : List UInt8) : (pairsOf d).length = hdrCount d := by
  simp [pairsOf]

theorem pairsOf_getElem? (d : List UInt8) (i : Nat) :
    (pairsOf d)[i]? = if i < hdrCount d then some (tagAt d i, valueAt d i) else none := by
  unfold pairsOf
  by_cases h : i < hdrCount d
  · simp [h]
  · simp [h]

theorem hdrTags_eq_pairsOf (d : List UInt8) : hdrTags d = (pairsOf d).map (·.1) := by
  simp [hdrTags, pairsOf, tagAt, Function.comp_def]

theorem Valid.bounds {d : List UInt8} (hv : Valid d) {i : Nat} (hi : i < hdrCount d) :
    startAt d i ≤ endAt d i ∧ 8 * hdrCount d + endAt d i ≤ d.length := by
  have h8 := hv.h8
  unfold startAt endAt
  by_cases h0 : i = 0
  · subst h0
    by_cases hl : 0 + 1 = hdrCount d
    · simp [hl]; omega
    · simp only [hl, if_false, if_true]
      exact ⟨Nat.zero_le _, hv.off_bound (by omega)⟩
  · by_cases hl : i + 1 = hdrCount d
    · simp only [h0, hl, if_false, if_true]
      have := hv.off_bound (j := i - 1) (by omega)
      omega
    · simp only [h0, hl, if_false]
      exact ⟨hv.off_mono (by omega) (by omega), hv.off_bound (by omega)⟩

theorem View.getValue_oob (d : List UInt8) (h4 : 4 ≤ d.length) (i : Nat) (hi : hdrCount d ≤ i) :
    View.getValue ⟨d⟩ i = some none := by
  unfold View.getValue
  rw [View.len_eq d h4]
  simp [hi]

theorem View.getValue_eq {d : List UInt8} (hv : Valid d) {i : Nat} (hi : i < hdrCount d) :
    View.getValue ⟨d⟩ i = some (some (valueAt d i)) := by
  obtain ⟨hb1, hb2⟩ := hv.bounds hi
  have hend : (if i = (hdrOffsets d).length then some d.length
      else (hdrOffsets d)[i]?.map (· + 8 * hdrCount d)) = some (8 * hdrCount d + endAt d i) := by
    have h8 := hv.h8
    rw [hdrOffsets_length, hdrOffsets_getElem?]
    unfold endAt
    by_cases hl : i + 1 = hdrCount d
    · have : i = hdrCount d - 1 := by omega
      simp only [this, if_true]
      have : hdrCount d - 1 + 1 = hdrCount d := by omega
      simp only [this, if_true]
      congr 1; omega
    · have h1 : ¬ i = hdrCount d - 1 := by omega
      have h2 : i < hdrCount d - 1 := by omega
      simp only [h1, h2, hl, if_false, if_true, Option.map_some]
      congr 1; omega
  have hstart : (if i = 0 then some 0 else (hdrOffsets d)[i - 1]?) = some (startAt d i) := by
    rw [hdrOffsets_getElem?]
    unfold startAt
    by_cases h0 : i = 0
    · simp only [h0, if_true]
    · have : i - 1 < hdrCount d - 1 := by omega
      simp only [h0, this, if_false, if_true]
  unfold View.getValue
  rw [View.len_eq d hv.h4]
  simp only [ge_iff_le, Nat.not_le.mpr hi, if_false]
  rw [View.offsets_eq d hv.h4 hv.h8]
  simp only
  rw [hend, hstart]
  simp only
  rw [slice?_eq_some (by omega) (by omega)]
  simp only [Option.map_some, valueAt]
  congr 3; omega

theorem View.get_eq {d : List UInt8} (hv : Valid d) (i : Nat) :
    View.get ⟨d⟩ i = some ((pairsOf d)[i]?) := by
  unfold View.get
  rw [View.tags_eq d hv.h4 hv.h8]
  simp only [hdrTags_getElem?, pairsOf_getElem?]
  by_cases hi : i < hdrCount d
  · simp only [hi, if_true]
    rw [View.getValue_eq hv hi]
    rfl
  · simp only [hi, if_false]

theorem View.getValue_eq' {d : List UInt8} (hv : Valid d) (i : Nat) :
    View.getValue ⟨d⟩ i = some ((pairsOf d)[i]?.map (·.2)) := by
  by_cases hi : i < hdrCount d
  · rw [View.getValue_eq hv hi, pairsOf_getElem?]; simp [hi]
  · rw [View.getValue_oob d hv.h4 i (by omega), pairsOf_getElem?]; simp [hi]

theorem mapM_option_eq_some {α β : Type} (f : α → Option β) (g : α → β) (l : List α)
    (h : ∀ x ∈ l, f x = some (g x)) : l.mapM f = some (l.map g) := by
  induction l with
  | nil => rfl
  | cons a t ih =>
    rw [List.mapM_cons, h a (by simp), ih (fun x hx => h x (by simp [hx]))]
    rfl

theorem starts_eq (d : List UInt8) (hN : 0 < hdrCount d) :
    0 :: hdrOffsets d = (List.range (hdrCount d)).map (startAt d) := by
  obtain ⟨m, hm⟩ : ∃ m, hdrCount d = m + 1 := ⟨hdrCount d - 1, by omega⟩
  unfold hdrOffsets
  rw [hm, List.range_succ_eq_map]
  simp [startAt, Function.comp_def]

theorem ends_eq (d : List UInt8) (hN : 0 < hdrCount d) :
    hdrOffsets d ++ [d.length - 8 * hdrCount d] = (List.range (hdrCount d)).map (endAt d) := by
  obtain ⟨m, hm⟩ : ∃ m, hdrCount d = m + 1 := ⟨hdrCount d - 1, by omega⟩
  unfold hdrOffsets
  rw [show List.range (hdrCount d) = List.range (m + 1) by rw [hm], List.range_succ, List.map_append]
  congr 1
  · rw [hm]
    apply List.map_congr_left
    intro i hi
    have := List.mem_range.mp hi
    simp at this
    simp [endAt, hm]; omega
  · simp [endAt, hm]

theorem View.iter_eq {d : List UInt8} (hv : Valid d) : View.iter ⟨d⟩ = some (pairsOf d) := by
  have h8 := hv.h8
  unfold View.iter
  rw [View.len_eq d hv.h4]
  simp only
  rw [View.offsets_eq d hv.h4 hv.h8, View.tags_eq d hv.h4 hv.h8]
  simp only [Nat.not_lt.mpr h8, if_false]
  by_cases hN : hdrCount d = 0
  · have : hdrTags d = [] := by simp [hdrTags, hN]
    rw [this]
    simp [pairsOf, hN]
  · have hN' : 0 < hdrCount d := by omega
    rw [starts_eq d hN', ends_eq d hN']
    have ht : hdrTags d = (List.range (hdrCount d)).map (tagAt d) := rfl
    rw [ht, List.zip_map', List.zip_map']
    rw [mapM_option_eq_some _ (fun x => (x.1, (d.drop (8 * hdrCount d + x.2.1)).take (x.2.2 - x.2.1)))]
    · simp [pairsOf, valueAt, Function.comp_def]
    · intro x hx
      obtain ⟨i, hi, rfl⟩ := List.mem_map.mp hx
      have hi := List.mem_range.mp hi
      obtain ⟨hb1, hb2⟩ := hv.bounds hi
      simp only
      rw [slice?_eq_some (by omega) (by omega)]
      simp only [Option.map_some]
      congr 3; omega

/-- The values tile the bytes after the header, in order. -/
theorem values_prefix (d : List UInt8) (hv : Valid d) (k : Nat) (hk : k < hdrCount d) :
    ((List.range k).map (valueAt d)).flatten = (d.drop (8 * hdrCount d)).take (startAt d k) := by
  induction k with
  | zero => simp [startAt]
  | succ k ih =>
    rw [List.range_succ, List.map_append, List.flatten_append, ih (by omega)]
    obtain ⟨hb1, _⟩ := hv.bounds (i := k) (by omega)
    have he : endAt d k = startAt d (k + 1) := by
      simp [endAt, startAt]; omega
    simp only [List.map_cons, List.map_nil, List.flatten_cons, List.flatten_nil, List.append_nil]
    unfold valueAt
    rw [← he, ← List.drop_drop]
    have : endAt d k = startAt d k + (endAt d k - startAt d k) := by omega
    rw [this, List.take_add]
    simp

theorem values_tile (d : List UInt8) (hv : Valid d) (hN : 0 < hdrCount d) :
    ((pairsOf d).map (·.2)).flatten = d.drop (8 * hdrCount d) := by
  have e : (pairsOf d).map (·.2) = (List.range (hdrCount d)).map (valueAt d) := by
    simp [pairsOf, Function.comp_def]
  obtain ⟨m, hm⟩ : ∃ m, hdrCount d = m + 1 := ⟨hdrCount d - 1, by omega⟩
  rw [e, show List.range (hdrCount d) = List.range (m + 1) by rw [hm], List.range_succ,
    List.map_append, List.flatten_append, values_prefix d hv m (by omega)]
  obtain ⟨hb1, hb2⟩ := hv.bounds (i := m) (by omega)
  have he : endAt d m = d.length - 8 * hdrCount d := by simp [endAt, hm]
  simp only [List.map_cons, List.map_nil, List.flatten_cons, List.flatten_nil, List.append_nil]
  unfold valueAt
  rw [← List.drop_drop]
  have h1 : (List.drop (8 * hdrCount d) d).length = endAt d m := by simp [he]
  have : (List.drop (8 * hdrCount d) d) =
      (List.drop (8 * hdrCount d) d).take (startAt d m + (endAt d m - startAt d m)) := by
    rw [List.take_of_length_le]; omega
  conv => rhs; rw [this, List.take_add]

/-! ### Tag lookup -/

/-- What `find_tag` needs from `binary_search`: on a sorted array it stays in
bounds, an index it returns holds the wanted tag, and it returns nothing only
when the tag is absent.  (Which of several equal tags is returned is left open.) -/
def IsSearch (s : List Nat → Nat → Option (Option Nat)) : Prop :=
  ∀ tags w, List.Pairwise (· ≤ ·) tags →
    ∃ r, s tags w = some r ∧ (∀ i, r = some i → tags[i]? = some w) ∧ (r = none → w ∉ tags)

theorem pairwise_getElem?_le {l : List Nat} (h : List.Pairwise (· ≤ ·) l) {i j x y : Nat}
    (hij : i ≤ j) (hx : l[i]? = some x) (hy : l[j]? = some y) : x ≤ y := by
  rcases Nat.lt_or_eq_of_le hij with hlt | rfl
  · obtain ⟨hi, rfl⟩ := List.getElem?_eq_some_iff.mp hx
    obtain ⟨hj, rfl⟩ := List.getElem?_eq_some_iff.mp hy
    exact (List.pairwise_iff_getElem.mp h) i j hi hj hlt
  · rw [hx] at hy; cases hy; exact Nat.le_refl _

/-- Loop invariant of `binary_search_by`: `tags[base] ≤ w` unless `base = 0`,
and everything at or after `base + size` is `> w`. -/
def BsInv (tags : List Nat) (w base size : Nat) : Prop :=
  (base = 0 ∨ ∃ x, tags[base]? = some x ∧ x ≤ w) ∧
  (∀ j x, base + size ≤ j → tags[j]? = some x → w < x)

theorem bsLoop_spec (tags : List Nat) (w : Nat) (hs : List.Pairwise (· ≤ ·) tags) :
    ∀ fuel size base, base + size ≤ tags.length → 1 ≤ size → size ≤ fuel + 1 →
      BsInv tags w base size →
      ∃ b, bsLoop tags w fuel size base = some b ∧ b < tags.length ∧ BsInv tags w b 1 := by
  intro fuel
  induction fuel with
  | zero =>
    intro size base hb h1 hf hinv
    have : size = 1 := by omega
    subst this
    exact ⟨base, rfl, by omega, hinv⟩
  | succ fuel ih =>
    intro size base hb h1 hf hinv
    unfold bsLoop
    by_cases hgt : size > 1
    · simp only [hgt, if_true]
      have hmid : base + size / 2 < tags.length := by omega
      obtain ⟨x, hx⟩ : ∃ x, tags[base + size / 2]? = some x :=
        ⟨tags[base + size / 2], List.getElem?_eq_getElem hmid⟩
      rw [hx]
      simp only
      by_cases hxw : x > w
      · simp only [hxw, if_true]
        apply ih (size - size / 2) base (by omega) (by omega) (by omega)
        refine ⟨hinv.1, ?_⟩
        intro j y hj hy
        have : x ≤ y := pairwise_getElem?_le hs (by omega) hx hy
        omega
      · simp only [hxw, if_false]
        apply ih (size - size / 2) (base + size / 2) (by omega) (by omega) (by omega)
        refine ⟨Or.inr ⟨x, hx, by omega⟩, ?_⟩
        intro j y hj hy
        exact hinv.2 j y (by omega) hy
    · simp only [hgt, if_false]
      have : size = 1 := by omega
      subst this
      exact ⟨base, rfl, by omega, hinv⟩

theorem binarySearch_isSearch : IsSearch binarySearch := by
  intro tags w hs
  unfold binarySearch
  by_cases h0 : tags.length = 0
  · simp only [h0, if_true]
    refine ⟨none, rfl, by simp, ?_⟩
    intro _
    have : tags = [] := List.length_eq_zero_iff.mp h0
    simp [this]
  · simp only [h0, if_false]
    obtain ⟨b, hb, hlt, hinv⟩ := bsLoop_spec tags w hs tags.length tags.length 0 (by omega)
      (by omega) (by omega) ⟨Or.inl rfl, fun j x hj hx => by
        have := (List.getElem?_eq_some_iff.mp hx).1; omega⟩
    rw [hb]
    simp only
    obtain ⟨x, hx⟩ : ∃ x, tags[b]? = some x := ⟨tags[b], List.getElem?_eq_getElem hlt⟩
    rw [hx]
    simp only
    by_cases hxw : x = w
    · simp only [hxw, if_true]
      refine ⟨some b, rfl, ?_, by simp⟩
      intro i hi; cases hi; rw [hx, hxw]
    · simp only [hxw, if_false]
      refine ⟨none, rfl, by simp, ?_⟩
      intro _ hmem
      obtain ⟨j, hj⟩ := List.mem_iff_getElem?.mp hmem
      -- the occurrence at `j` is not after `b` …
      have hjb : j ≤ b := by
        by_cases hjb : j ≤ b
        · exact hjb
        · have := hinv.2 j w (by omega) hj
          omega
      -- … so `tags[b]` is squeezed between `w` and `w`.
      have h1 : w ≤ x := pairwise_getElem?_le hs hjb hj hx
      rcases hinv.1 with hb0 | ⟨y, hy, hyw⟩
      · have : j = b := by omega
        subst this
        rw [hx] at hj; cases hj; exact hxw rfl
      · rw [hx] at hy; cases hy; omega

/-- `find` for an accepted message and any acceptable search. -/
theorem View.findWith_sound {s : List Nat → Nat → Option (Option Nat)} (hs : IsSearch s)
    {d : List UInt8} (hv : Valid d) (w : Nat) :
    ∃ r, View.findWith s ⟨d⟩ w = some r ∧
      (∀ val, r = some val → ∃ i : Nat, (pairsOf d)[i]? = some (w, val)) ∧
      (r = none → ∀ p ∈ pairsOf d, p.1 ≠ w) := by
  obtain ⟨r, hr, hsome, hnone⟩ := hs (hdrTags d) w hv.tags
  unfold View.findWith View.findTagWith
  rw [View.tags_eq d hv.h4 hv.h8]
  simp only [hr]
  cases r with
  | none =>
    refine ⟨none, rfl, by simp, ?_⟩
    intro _ p hp hpw
    apply hnone rfl
    rw [hdrTags_eq_pairsOf]
    exact List.mem_map.mpr ⟨p, hp, hpw⟩
  | some i =>
    have hi := hsome i rfl
    rw [hdrTags_getElem?] at hi
    by_cases hlt : i < hdrCount d
    · simp only [hlt, if_true, Option.some.injEq] at hi
      simp only
      rw [View.getValue_eq hv hlt]
      refine ⟨some (valueAt d i), rfl, ?_, by simp⟩
      intro val hval
      cases hval
      refine ⟨i, ?_⟩
      rw [pairsOf_getElem?]
      simp [hlt, tagAt, hi]
    · simp [hlt] at hi

end Woodpile.RoughTlv

/-
Layer-B glue, part 3: the capacity ghost of `GReach` (C05) along the streaming pattern of C10
(`Streaming`, `Proofs/IovecFootprint.lean`).

`Streaming.footprint` covers the live chunks by a list of at most `2·B/m₀ + 2` (chunk, capacity) pairs
whose second components are bounded by `S`; those recorded capacities were not tied to the capacity
ghost of `GReach` (the allocation-time capacity of each chunk, which `ArenaInv.inCap` bounds every
owned slice by).  Here: on every world of the streaming pattern the ghost itself is at most `S` on
every allocated chunk (`Streaming.capReach`), so the live bytes are at most `#live · S` in terms of THE
allocation-time capacities, and the current cache's recorded capacity is the ghost's.
-/
import Woodpile.Proofs.IovecFootprint

namespace Woodpile.Iovec
open Woodpile.Arena

/-- Reachable, with a capacity ghost that is at most `S` on every allocated chunk. -/
def CapReach (S : Nat) (w : World) : Prop := ∃ caps, GReach w caps ∧ ∀ k, k < w.next → caps k ≤ S

/-- A step that allocates no chunk leaves every cache in a chunk that existed. -/
theorem astep_old_caches {w w' : World} (hw : WorldInv w) (ha : AStep w w') (hn : w'.next = w.next) :
    ∀ h c, w'.cacheAt h = some c → c.chunk < w.next := by
  intro h c hc
  cases ha with
  | move o _ hc1 _ _ => exact hw.cacheAt_lt (hc1 h c hc)
  | alloc X c' n hother hX hcase _ =>
    by_cases e : h = X
    · subst e
      rw [hX] at hc; cases hc
      rcases hcase with ⟨c0, hc0, hc', _, _⟩ | ⟨_, _, _, hn'⟩
      · have := hw.cacheAt_lt hc0
        rw [hc']; exact this
      · omega
    · rw [hother h e] at hc; exact hw.cacheAt_lt hc

theorem CapReach.step {S : Nat} {w w' : World} {op : WOp} (h : CapReach S w) (hs : w.step op = some w')
    (hf : ∀ h c, w'.cacheAt h = some c → w.next ≤ c.chunk → c.cap ≤ S) : CapReach S w' := by
  obtain ⟨caps, hg, hcap⟩ := h
  have ha := step_astep hs
  obtain ⟨caps', hold, hnew⟩ := ha.exists_caps hg.reachable.inv hg.inv
  refine ⟨caps', hg.step hs hold hnew, ?_⟩
  intro k hk
  by_cases hlt : k < w.next
  · rw [hold k hlt]; exact hcap k hlt
  · cases ha with
    | move o hn _ _ _ => omega
    | alloc X c' n hother hX hcase _ =>
      rcases hcase with ⟨c, _, _, _, hn⟩ | ⟨hck, _, _, hn⟩
      · omega
      · have hk' : k = c'.chunk := by omega
        rw [hk', hnew X c' hX]
        exact hf X c' hX (by omega)

theorem CapReach.step_same_next {S : Nat} {w w' : World} {op : WOp} (h : CapReach S w) (hs : w.step op = some w')
    (hn : w'.next = w.next) : CapReach S w' := by
  refine h.step hs ?_
  intro hh c hc hge
  obtain ⟨caps, hg, _⟩ := h
  have := astep_old_caches hg.reachable.inv (step_astep hs) hn hh c hc
  omega

/-- `push_copy` of at most `P` bytes: a chunk it allocates has capacity at most `S`. -/
theorem pushCopy_fresh_le {P m₀ S : Nat} {w w' : World} {i : Nat} {src : List UInt8}
    (hb : TuningBounds w.tun P m₀ S) (hw : WorldInv w) (hl : src.length ≤ P) (h : w.pushCopy i src = some w') :
    ∀ h c, w'.cacheAt h = some c → w.next ≤ c.chunk → c.cap ≤ S := by
  intro hh c hc hge
  by_cases hn : w'.next = w.next
  · have := astep_old_caches hw (pushCopy_astep h) hn hh c hc
    omega
  · obtain ⟨v, hv, ⟨_, rfl⟩ | ⟨hne, arena', next', chunk, off, v2, hal, ho, rfl⟩⟩ := pushCopy_spec h
    · exact absurd rfl hn
    · have hfresh : next' ≠ w.next := hn
      obtain ⟨cap, hc', _, hS, _, _, _, _, _⟩ := alloc_fresh_cap hb hl hal hfresh
      simp only [cacheAt_with_heap_next, cacheAt_setIov] at hc
      split at hc
      · simp only [Option.bind_some] at hc
        rw [optimize_arena ho] at hc
        simp only at hc
        rw [hc'] at hc
        cases hc
        exact hS
      · have := hw.cacheAt_lt hc; omega

theorem Streaming.tun_eq {tun : Tuning} {P B m₀ S : Nat} {w : World} (hb : TuningBounds tun P m₀ S)
    (h : Streaming tun P B w) : w.tun = tun := by
  obtain ⟨L, WF, hw⟩ := h.inv hb
  exact hw.tun

/-- The capacity ghost along the streaming pattern: at most `S` on every allocated chunk. -/
theorem Streaming.capReach {tun : Tuning} {P B m₀ S : Nat} {w : World} (hb : TuningBounds tun P m₀ S)
    (h : Streaming tun P B w) : CapReach S w := by
  induction h with
  | start pol =>
    have hr : Reachable ((World.init pol tun).addIov Iov.empty).1 := ⟨pol, tun, [.new], rfl⟩
    obtain ⟨caps, hg⟩ := hr.exists_caps
    exact ⟨caps, hg, fun k hk => absurd hk (by simp [World.init, World.addIov])⟩
  | @call w w1 w2 op n k hst hpc hs hn hc ih =>
    have htun := hst.tun_eq hb
    have hw := hst.reachable.inv
    have h1 : CapReach S w1 := by
      cases op <;> simp only [ProducerCall] at hpc
      case pushCopy i bs =>
        obtain ⟨rfl, hP, _⟩ := hpc
        have hs' : w.pushCopy 0 bs = some w1 := hs
        exact ih.step hs (pushCopy_fresh_le (htun ▸ hb) hw hP hs')
      case register i pat =>
        obtain ⟨rfl, hP, _⟩ := hpc
        have hs0 := hs
        simp only [World.step] at hs
        split at hs
        · rename_i w' b hr
          simp only [Option.some.injEq] at hs
          subst hs
          rcases registerPatch_spec hr with ⟨_, rfl, _⟩ | ⟨_, w3, v, last, hpc', hv, _, _, _, _, rfl⟩
          · exact ih.step_same_next hs0 rfl
          · refine ih.step hs0 ?_
            intro hh c hc' hge
            have e : ∀ (x : Iov), x.arena = v.arena →
                ((w3.setIov 0 (some x)).addBref b).1.cacheAt hh = some c → w3.cacheAt hh = some c := by
              intro x hx hcx
              have hcx' : (w3.setIov 0 (some x)).cacheAt hh = some c := hcx
              simp only [cacheAt_setIov] at hcx'
              split at hcx'
              · rename_i e; subst e
                simp only [Option.bind_some] at hcx'
                rw [cacheAt_iov hv, ← hx]; exact hcx'
              · exact hcx'
            have hc3 : w3.cacheAt hh = some c := e _ (by rfl) hc'
            exact pushCopy_fresh_le (htun ▸ hb) hw hP hpc' hh c hc3 hge
        · cases hs
      case backfill i bi bs =>
        have hs0 := hs
        simp only [World.step] at hs
        split at hs
        · obtain ⟨v, hv, ⟨_, _, rfl⟩ | ⟨key, info, target, k, _, _, _, _, _, _, _, rfl⟩⟩ := backfill_spec hs
          · exact ih.step_same_next hs0 rfl
          · exact ih.step_same_next hs0 rfl
        · cases hs
    have hs2 : w1.step (.consume 0 n) = some w2 := by simp [World.step, hc]
    refine h1.step_same_next hs2 ?_
    obtain ⟨v, ns, v', hv, _, hcs, rfl⟩ := consume_spec hc
    rfl

end Woodpile.Iovec

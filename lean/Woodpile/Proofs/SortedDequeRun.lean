/-
Run-level facts about the reference ordered map of C16 (`stepRef` / `runRef`) and
their transfer to the model of the real code (`run`), added for the claim-audit
gap 17: persistence of removals ("gone stays gone"), sortedness from any state,
histories with globally increasing pushes, and the whole-item convention under a
checkable condition on the history.
-/
import Woodpile.Proofs.SortedDequeConv

namespace Woodpile.SortedDeque

variable {α κ : Type} {c : Cmp α κ}

/-- The items a result hands back to the caller. -/
def Ret.returned : Ret α → List α
  | .unit => []
  | .item o => o.toList
  | .flag _ => []
  | .items l => l

/-- No item of `l` has a key equal (under `cmp`) to `k`. -/
def Absent (c : Cmp α κ) (k : κ) (l : List α) : Prop := ∀ y ∈ l, c.cmp (c.key y) k ≠ .eq

/-- The live (non-erased) items a history pushes, in push order. -/
def pushedLive (c : Cmp α κ) : List (Op α κ) → List α
  | [] => []
  | .push x :: ops => if c.isErased x then pushedLive c ops else x :: pushedLive c ops
  | _ :: ops => pushedLive c ops

theorem mem_pushedLive {ops : List (Op α κ)} {x : α} :
    x ∈ pushedLive c ops ↔ Op.push x ∈ ops ∧ c.isErased x = false := by
  induction ops with
  | nil => simp [pushedLive]
  | cons op ops ih =>
    cases op with
    | push y =>
      simp only [pushedLive]
      by_cases hy : c.isErased y = true
      · simp only [hy, if_true, ih, List.mem_cons, Op.push.injEq]
        constructor
        · rintro ⟨h1, h2⟩; exact ⟨Or.inr h1, h2⟩
        · rintro ⟨h1 | h1, h2⟩
          · subst h1; rw [hy] at h2; cases h2
          · exact ⟨h1, h2⟩
      · have hy' : c.isErased y = false := by simpa using hy
        simp only [hy', Bool.false_eq_true, if_false, List.mem_cons, ih, Op.push.injEq]
        constructor
        · rintro (h | ⟨h1, h2⟩)
          · subst h; exact ⟨Or.inl rfl, hy'⟩
          · exact ⟨Or.inr h1, h2⟩
        · rintro ⟨h1 | h1, h2⟩
          · exact Or.inl h1
          · exact Or.inr ⟨h1, h2⟩
    | _ => simp [pushedLive, ih]

theorem pushedLive_append (ops1 ops2 : List (Op α κ)) :
    pushedLive c (ops1 ++ ops2) = pushedLive c ops1 ++ pushedLive c ops2 := by
  induction ops1 with
  | nil => rfl
  | cons op ops ih =>
    cases op with
    | push y =>
      simp only [List.cons_append, pushedLive, ih]
      split <;> simp
    | _ => simp [pushedLive, ih]

/-! ### `runRef` plumbing -/

theorem runRef_cons (m : List α) (op : Op α κ) (ops : List (Op α κ)) (rs : List (Ret α)) (m' : List α)
    (h : runRef c m (op :: ops) = some (rs, m')) :
    ∃ r m1 rs', stepRef c m op = some (r, m1) ∧ runRef c m1 ops = some (rs', m') ∧ rs = r :: rs' := by
  simp only [runRef] at h
  cases hs : stepRef c m op with
  | none => simp [hs] at h
  | some p =>
    obtain ⟨r, m1⟩ := p
    simp only [hs] at h
    cases hr : runRef c m1 ops with
    | none => simp [hr] at h
    | some q =>
      obtain ⟨rs', m2⟩ := q
      simp only [hr, Option.some.injEq, Prod.mk.injEq] at h
      obtain ⟨rfl, rfl⟩ := h
      exact ⟨r, m1, rs', rfl, hr, rfl⟩

theorem runRef_append (m : List α) (ops1 ops2 : List (Op α κ)) (rs : List (Ret α)) (m' : List α)
    (h : runRef c m (ops1 ++ ops2) = some (rs, m')) :
    ∃ rs1 m1 rs2, runRef c m ops1 = some (rs1, m1) ∧ runRef c m1 ops2 = some (rs2, m') ∧ rs = rs1 ++ rs2 := by
  induction ops1 generalizing m rs with
  | nil => exact ⟨[], m, rs, rfl, h, rfl⟩
  | cons op ops ih =>
    obtain ⟨r, m1, rs', h1, h2, rfl⟩ := runRef_cons m op (ops ++ ops2) rs m' h
    obtain ⟨rs1, m2, rs2, h3, h4, rfl⟩ := ih m1 rs' h2
    exact ⟨r :: rs1, m2, rs2, by simp [runRef, h1, h3], h4, rfl⟩

/-- One reference step: whatever is in the map afterwards was there before or is the live
item just pushed, and whatever is returned was in the map. -/
theorem stepRef_mem {m m' : List α} {op : Op α κ} {r : Ret α} (h : stepRef c m op = some (r, m')) :
    (∀ y ∈ m', y ∈ m ∨ (op = .push y ∧ c.isErased y = false)) ∧ (∀ y ∈ r.returned, y ∈ m) := by
  cases op with
  | push x =>
    simp only [stepRef] at h
    by_cases hx : c.isErased x = true
    · simp only [hx, if_true, Option.some.injEq, Prod.mk.injEq] at h
      obtain ⟨rfl, rfl⟩ := h
      exact ⟨fun y hy => Or.inl hy, by simp [Ret.returned]⟩
    · have hx' : c.isErased x = false := by simpa using hx
      simp only [hx', Bool.false_eq_true, if_false] at h
      have key : m' = m ++ [x] ∧ r = .unit := by
        cases hl : m.getLast? with
        | none => simp only [hl, Option.some.injEq, Prod.mk.injEq] at h; exact ⟨h.2.symm, h.1.symm⟩
        | some l =>
          simp only [hl] at h
          split at h
          · simp only [Option.some.injEq, Prod.mk.injEq] at h; exact ⟨h.2.symm, h.1.symm⟩
          · cases h
      obtain ⟨rfl, rfl⟩ := key
      refine ⟨fun y hy => ?_, by simp [Ret.returned]⟩
      rcases List.mem_append.1 hy with hy | hy
      · exact Or.inl hy
      · simp only [List.mem_singleton] at hy; subst hy; exact Or.inr ⟨rfl, hx'⟩
  | find k =>
    simp only [stepRef, Option.some.injEq, Prod.mk.injEq] at h
    obtain ⟨rfl, rfl⟩ := h
    refine ⟨fun y hy => Or.inl hy, fun y hy => ?_⟩
    simp only [Ret.returned, Option.mem_toList] at hy
    exact List.mem_of_find?_eq_some hy
  | remove k =>
    simp only [stepRef, Option.some.injEq, Prod.mk.injEq] at h
    obtain ⟨rfl, rfl⟩ := h
    refine ⟨fun y hy => Or.inl (List.mem_filter.1 hy).1, fun y hy => ?_⟩
    simp only [Ret.returned, Option.mem_toList] at hy
    exact List.mem_of_find?_eq_some hy
  | popFirst =>
    simp only [stepRef, Option.some.injEq, Prod.mk.injEq] at h
    obtain ⟨rfl, rfl⟩ := h
    refine ⟨fun y hy => Or.inl (List.mem_of_mem_drop hy), fun y hy => ?_⟩
    simp only [Ret.returned, Option.mem_toList] at hy
    exact List.mem_of_head? hy
  | popLast =>
    simp only [stepRef, Option.some.injEq, Prod.mk.injEq] at h
    obtain ⟨rfl, rfl⟩ := h
    refine ⟨fun y hy => Or.inl (List.dropLast_subset m hy), fun y hy => ?_⟩
    simp only [Ret.returned, Option.mem_toList] at hy
    exact List.mem_of_getLast? hy
  | first =>
    simp only [stepRef, Option.some.injEq, Prod.mk.injEq] at h
    obtain ⟨rfl, rfl⟩ := h
    refine ⟨fun y hy => Or.inl hy, fun y hy => ?_⟩
    simp only [Ret.returned, Option.mem_toList] at hy
    exact List.mem_of_head? hy
  | last =>
    simp only [stepRef, Option.some.injEq, Prod.mk.injEq] at h
    obtain ⟨rfl, rfl⟩ := h
    refine ⟨fun y hy => Or.inl hy, fun y hy => ?_⟩
    simp only [Ret.returned, Option.mem_toList] at hy
    exact List.mem_of_getLast? hy
  | isEmpty =>
    simp only [stepRef, Option.some.injEq, Prod.mk.injEq] at h
    obtain ⟨rfl, rfl⟩ := h
    exact ⟨fun y hy => Or.inl hy, by simp [Ret.returned]⟩
  | iter =>
    simp only [stepRef, Option.some.injEq, Prod.mk.injEq] at h
    obtain ⟨rfl, rfl⟩ := h
    exact ⟨fun y hy => Or.inl hy, fun y hy => by simpa [Ret.returned] using hy⟩
  | clear =>
    simp only [stepRef, Option.some.injEq, Prod.mk.injEq] at h
    obtain ⟨rfl, rfl⟩ := h
    exact ⟨by simp, by simp [Ret.returned]⟩

/-- Everything in the map after a run was there at the start or is a live item the run pushed. -/
theorem runRef_subset_pushed (m : List α) (ops : List (Op α κ)) (rs : List (Ret α)) (m' : List α)
    (h : runRef c m ops = some (rs, m')) : ∀ y ∈ m', y ∈ m ∨ y ∈ pushedLive c ops := by
  induction ops generalizing m rs with
  | nil => simp only [runRef, Option.some.injEq, Prod.mk.injEq] at h; obtain ⟨_, rfl⟩ := h; exact fun y hy => Or.inl hy
  | cons op ops ih =>
    obtain ⟨r, m1, rs', h1, h2, rfl⟩ := runRef_cons m op ops rs m' h
    intro y hy
    rcases ih m1 rs' h2 y hy with hy1 | hy1
    · rcases (stepRef_mem h1).1 y hy1 with hy2 | ⟨rfl, he⟩
      · exact Or.inl hy2
      · exact Or.inr (mem_pushedLive.2 ⟨by simp, he⟩)
    · refine Or.inr (mem_pushedLive.2 ?_)
      obtain ⟨a, b⟩ := mem_pushedLive.1 hy1
      exact ⟨by simp [a], b⟩

/-! ### Sortedness from any state -/

/-- Only iteration returns a list, and it returns the map. -/
theorem stepRef_items {m m' l : List α} {op : Op α κ} (h : stepRef c m op = some (.items l, m')) :
    l = m := by
  cases op with
  | push x =>
    simp only [stepRef] at h
    split at h
    · cases h
    · split at h
      · cases h
      · split at h <;> cases h
  | iter =>
    simp only [stepRef, Option.some.injEq, Prod.mk.injEq, Ret.items.injEq] at h
    exact h.1.symm
  | _ => simp [stepRef] at h

theorem runRef_sorted (hc : c.Lawful) (m : List α) (hs : Sorted c m) (ops : List (Op α κ))
    (rs : List (Ret α)) (m' : List α) (h : runRef c m ops = some (rs, m')) :
    Sorted c m' ∧ ∀ r ∈ rs, ∀ l, r = .items l → Sorted c l := by
  induction ops generalizing m rs with
  | nil =>
    simp only [runRef, Option.some.injEq, Prod.mk.injEq] at h; obtain ⟨rfl, rfl⟩ := h
    exact ⟨hs, by simp⟩
  | cons op ops ih =>
    obtain ⟨r, m1, rs', h1, h2, rfl⟩ := runRef_cons m op ops rs m' h
    obtain ⟨a, b⟩ := ih m1 (stepRef_sorted hc hs h1) rs' h2
    refine ⟨a, ?_⟩
    intro r' hr' l hl
    rcases List.mem_cons.1 hr' with rfl | hr'
    · subst hl
      rw [stepRef_items h1]; exact hs
    · exact b r' hr' l hl

/-! ### Gone stays gone -/

/-- In a strictly sorted list two different members have different keys. -/
theorem sorted_ne_key (hc : c.Lawful) {m : List α} (hs : Sorted c m) {x y : α} (hx : x ∈ m) (hy : y ∈ m)
    (hne : y ≠ x) : c.cmp (c.key y) (c.key x) ≠ .eq := by
  obtain ⟨pre, post, rfl⟩ := List.append_of_mem hx
  obtain ⟨hpre, hpost⟩ := sorted_split hc hs (hc.refl (c.key x))
  rcases List.mem_append.1 hy with h | h
  · rw [hpre y h]; decide
  · rcases List.mem_cons.1 h with h | h
    · exact absurd h hne
    · rw [hpost y h]; decide

/-- A key that is absent stays absent - from the map and from every result - along any
run that does not push it again. -/
theorem runRef_absent (k : κ) (m : List α) (hm : Absent c k m) (ops : List (Op α κ))
    (hno : ∀ x, Op.push x ∈ ops → c.isErased x = false → c.cmp (c.key x) k ≠ .eq)
    (rs : List (Ret α)) (m' : List α) (h : runRef c m ops = some (rs, m')) :
    Absent c k m' ∧ ∀ r ∈ rs, Absent c k r.returned := by
  induction ops generalizing m rs with
  | nil =>
    simp only [runRef, Option.some.injEq, Prod.mk.injEq] at h; obtain ⟨rfl, rfl⟩ := h
    exact ⟨hm, by simp⟩
  | cons op ops ih =>
    obtain ⟨r, m1, rs', h1, h2, rfl⟩ := runRef_cons m op ops rs m' h
    obtain ⟨hA, hB⟩ := stepRef_mem h1
    have hm1 : Absent c k m1 := by
      intro y hy
      rcases hA y hy with hy' | ⟨rfl, he⟩
      · exact hm y hy'
      · exact hno y (by simp) he
    obtain ⟨a, b⟩ := ih m1 hm1 (fun x hx he => hno x (by simp [hx]) he) rs' h2
    refine ⟨a, ?_⟩
    intro r' hr'
    rcases List.mem_cons.1 hr' with rfl | hr'
    · intro y hy; exact hm y (hB y hy)
    · exact b r' hr'

theorem find_absent {k : κ} {m : List α} (hm : Absent c k m) :
    stepRef c m (.find k) = some (.item none, m) := by
  have : m.find? (fun y => c.cmp (c.key y) k == .eq) = none := by
    rw [List.find?_eq_none]
    intro y hy
    simpa using hm y hy
  simp [stepRef, this]

/-- Whatever operation made a present item `x` vanish (remove of its key, a pop that
returned it, clear), no other item of the map has its key. -/
theorem absent_after_vanish (hc : c.Lawful) {m1 m2 : List α} (hs : Sorted c m1) {op : Op α κ} {r : Ret α}
    (hstep : stepRef c m1 op = some (r, m2)) {x : α} (hx : x ∈ m1) (hgone : x ∉ m2) :
    Absent c (c.key x) m2 := by
  intro y hy
  rcases (stepRef_mem hstep).1 y hy with hy1 | ⟨rfl, he⟩
  · exact sorted_ne_key hc hs hx hy1 (fun h => hgone (h ▸ hy))
  · exfalso
    -- a live push only appends: `x` would still be there
    simp only [stepRef, he, Bool.false_eq_true, if_false] at hstep
    have : m2 = m1 ++ [y] := by
      cases hl : m1.getLast? with
      | none => simp only [hl, Option.some.injEq, Prod.mk.injEq] at hstep; exact hstep.2.symm
      | some l =>
        simp only [hl] at hstep
        split at hstep
        · simp only [Option.some.injEq, Prod.mk.injEq] at hstep; exact hstep.2.symm
        · cases hstep
    exact hgone (this ▸ List.mem_append_left _ hx)

/-! ### Histories whose pushes increase globally -/

/-- "push_back_or_panic with increasing keys": the live items the history pushes are in
strictly increasing key order (over the whole history, whatever was removed in between). -/
def IncreasingPushes (c : Cmp α κ) (ops : List (Op α κ)) : Prop := Sorted c (pushedLive c ops)

/-- With increasing pushes the reference run never hits the specified panic, from any
sorted start all of whose keys are below every push. -/
theorem runRef_increasing_isSome (m : List α) (ops : List (Op α κ))
    (hinc : IncreasingPushes c ops)
    (hlow : ∀ y ∈ m, ∀ x ∈ pushedLive c ops, c.cmp (c.key y) (c.key x) = .lt) :
    (runRef c m ops).isSome = true := by
  induction ops generalizing m with
  | nil => rfl
  | cons op ops ih =>
    have hstep : ∃ r m1, stepRef c m op = some (r, m1) := by
      cases op with
      | push x =>
        simp only [stepRef]
        by_cases hx : c.isErased x = true
        · simp [hx]
        · have hx' : c.isErased x = false := by simpa using hx
          simp only [hx', Bool.false_eq_true, if_false]
          cases hl : m.getLast? with
          | none => simp
          | some l =>
            have := hlow l (List.mem_of_getLast? hl) x (by simp [pushedLive, hx'])
            simp [this]
      | _ => simp [stepRef]
    obtain ⟨r, m1, h1⟩ := hstep
    have hinc' : IncreasingPushes c ops := by
      unfold IncreasingPushes at hinc ⊢
      cases op with
      | push x =>
        simp only [pushedLive] at hinc
        split at hinc
        · exact hinc
        · exact (List.pairwise_cons.1 hinc).2
      | _ => simpa [pushedLive] using hinc
    have hlow' : ∀ y ∈ m1, ∀ x ∈ pushedLive c ops, c.cmp (c.key y) (c.key x) = .lt := by
      intro y hy x hx
      rcases (stepRef_mem h1).1 y hy with hy' | ⟨rfl, he⟩
      · refine hlow y hy' x ?_
        cases op with
        | push z => simp only [pushedLive]; split <;> simp [hx]
        | _ => simpa [pushedLive] using hx
      · unfold IncreasingPushes at hinc
        simp only [pushedLive, he, Bool.false_eq_true, if_false] at hinc
        exact (List.pairwise_cons.1 hinc).1 x hx
    have := ih m1 hinc' hlow'
    simp only [runRef, h1]
    cases hr : runRef c m1 ops with
    | none => simp [hr] at this
    | some q => simp

/-! ### Transfer to the model of the real code -/

/-- A successful model run is the reference run on the abstraction. -/
theorem run_eq_runRef {P : α → Prop} (hc : c.Lawful) (he : EraseOrder c P) {s : SortedDeque α}
    (hs : SInv c P s) (ops : List (Op α κ)) (hv : ∀ op ∈ ops, ValidOp c P op)
    (rs : List (Ret α)) (s' : SortedDeque α) (h : run c s ops = some (rs, s')) :
    runRef c (abs c s) ops = some (rs, abs c s') ∧ SInv c P s' := by
  have := run_spec hc he hs ops hv
  cases hr : runRef c (abs c s) ops with
  | none => rw [hr] at this; simp only at this; rw [this] at h; cases h
  | some p =>
    obtain ⟨rs', m⟩ := p
    rw [hr] at this
    obtain ⟨s2, h1, h2, h3⟩ := this
    rw [h1] at h
    simp only [Option.some.injEq, Prod.mk.injEq] at h
    obtain ⟨rfl, rfl⟩ := h
    exact ⟨by rw [h2], h3⟩

/-- In every state satisfying the invariant the present items are strictly sorted. -/
theorem SInv.abs_sorted {P : α → Prop} (he : EraseOrder c P) {s : SortedDeque α} (hs : SInv c P s) :
    Sorted c (abs c s) := by
  obtain ⟨gp, hg⟩ := hs.ghost
  exact List.Pairwise.sublist List.filter_sublist (hg.sorted_list he)

/-! ### Whole-item ordering on a history with distinct keys -/

/-- Checkable condition on a whole-item history: among the live items it pushes, the
key field determines the item. -/
def wholeKeysDistinct (ops : List (Op (Nat × Option Nat) (Nat × Option Nat))) : Bool :=
  (pushedLive wholeCmp ops).all fun x => (pushedLive wholeCmp ops).all fun y => x.1 != y.1 || x == y

theorem wholeKeysDistinct_spec {ops : List (Op (Nat × Option Nat) (Nat × Option Nat))}
    (h : wholeKeysDistinct ops = true) : DistinctKeys (fun x => x ∈ pushedLive wholeCmp ops) := by
  intro x y hx hy hk
  simp only [wholeKeysDistinct, List.all_eq_true] at h
  have := h x hx y hy
  simp only [Bool.or_eq_true, bne_iff_ne, ne_eq, beq_iff_eq] at this
  rcases this with h1 | h1
  · exact absurd hk h1
  · exact h1

theorem valid_of_pushedLive {ops : List (Op α κ)} :
    ∀ op ∈ ops, ValidOp c (fun x => x ∈ pushedLive c ops) op := by
  intro op hop
  cases op with
  | push x =>
    simp only [ValidOp]
    by_cases hx : c.isErased x = true
    · exact Or.inl hx
    · exact Or.inr (mem_pushedLive.2 ⟨hop, by simpa using hx⟩)
  | _ => simp [ValidOp]

end Woodpile.SortedDeque

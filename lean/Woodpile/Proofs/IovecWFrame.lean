/-
Layer B → Layer A for the full multi-object vocabulary (track `wabs`), part 2: what a `WOp` step does to
the handles it does NOT name (`frame_other`: same model value, same invariant, same bytes — for a
`backfill` through another iovec under `NoShare`), and the handle / token bookkeeping of `World.step`
(`step_book`: which handle a step creates, that it creates no other, which token it records).
-/
import Woodpile.Proofs.IovecWAbs

namespace Woodpile.Iovec
open Woodpile.Arena
open Woodpile.Pipe (Cell Pipe cellBytes fillCells)

/-! ### Handles the step does not name -/

theorem exts_mono_of_append {w w' : World} (h : ∃ t, w'.exts = w.exts ++ t) :
    ∀ b, (w.exts.getD b []).length ≤ (w'.exts.getD b []).length := by
  obtain ⟨t, ht⟩ := h
  intro b
  rw [ht]
  exact exts_append_mono _ _ _

/-- A `backfill` through iovec `X` leaves the bytes of every slice of an iovec `Y` that shares no pending
placeholder memory with `X` unchanged (`Proofs/IovecHeap.backfill_bytes_unchanged` with the pairwise
premise `NoShare` in place of the global `PendingPrivate`). -/
theorem backfill_bytes_noShare {w w' : World} {caps : Nat → Nat} {X b : Nat} {bs : List UInt8} (hg : GReach w caps)
    {Y : Nat} {vY : Iov} (hY : w.iov Y = some vY) (hp : NoShare w X Y) (h : w.step (.backfill X b bs) = some w')
    {s : Slice} (hs : s ∈ vY.slices) : w'.sliceBytes s = w.sliceBytes s := by
  have hext := (hg.reachable.inv.iovOk Y vY hY).extOk s hs
  refine sliceBytes_unchanged hext (step_exts h) ?_
  intro k j hr h1 h2
  apply Classical.byContradiction
  intro hne
  rcases step_frame_heap hg h k j hne with habove | ⟨X', b', bs', v, key, info, a, hop, hv, hm, hpr, h3, h4⟩
  · have := habove s (Or.inl ⟨Y, vY, hY, hs⟩) hr; omega
  · cases hop
    rcases hp v vY key info k a info.len hv hY hm hpr s hs hr with h0 | h0 | h0 <;> omega

/-- The frame of one step: an iovec `j` the op does not name keeps its model value, its invariant and the
bytes of all its slices — unconditionally for every op but `backfill`, and for a `backfill` through
another iovec `X` when no slice of `j` covers a pending range of `X` (`FillFree`). -/
theorem frame_other {w w' : World} {caps : Nat → Nat} {op : WOp} (hg : GReach w caps) (h : w.step op = some w')
    {j : Nat} {v : Iov} (hv : w.iov j = some v) (hj : op.iovTarget ≠ some j) (hi : W.IovInv w v)
    (hff : FillFree w op j) :
    w'.iov j = some v ∧ W.IovInv w' v ∧ ∀ s ∈ v.slices, w'.sliceBytes s = w.sliceBytes s := by
  refine ⟨step_frame_iov h hv hj, hi.of_world (exts_mono_of_append (step_exts h)) (step_astep h).next_le, ?_⟩
  intro s hs
  by_cases hb : ∃ X b bs, op = .backfill X b bs
  · obtain ⟨X, b, bs, rfl⟩ := hb
    have hXj : X ≠ j := by intro e; apply hj; simp [WOp.iovTarget, e]
    exact backfill_bytes_noShare hg hv (hff X b bs rfl hXj) h hs
  · exact step_bytes_unchanged hg h (fun i b bs e => hb ⟨i, b, bs, e⟩) (Or.inl ⟨j, v, hv, hs⟩)
      ((hg.reachable.inv.iovOk j v hv).extOk s hs)

/-- … the structural part needs no side condition. -/
theorem frame_other_inv {w w' : World} {op : WOp} (h : w.step op = some w')
    {j : Nat} {v : Iov} (hv : w.iov j = some v) (hj : op.iovTarget ≠ some j) (hi : W.IovInv w v) :
    w'.iov j = some v ∧ W.IovInv w' v :=
  ⟨step_frame_iov h hv hj, hi.of_world (exts_mono_of_append (step_exts h)) (step_astep h).next_le⟩

theorem absCells_congr {w w' : World} {v : Iov} (h : ∀ s ∈ v.slices, w'.sliceBytes s = w.sliceBytes s) :
    absCells w' v = absCells w v := by
  unfold absCells
  rw [flat_congr _ h]

theorem visible_congr {w w' : World} {v : Iov} (h : ∀ s ∈ v.slices, w'.sliceBytes s = w.sliceBytes s) :
    w'.visible v = w.visible v := by
  unfold World.visible
  exact flat_congr _ (fun s hs => h s (List.mem_of_mem_take hs))

/-! ### Handle and token bookkeeping -/

/-- Same handle table size, same token table. -/
def Book (w w' : World) : Prop := w'.iovs.length = w.iovs.length ∧ w'.brefs = w.brefs

theorem Book.refl (w : World) : Book w w := ⟨rfl, rfl⟩
theorem Book.trans {a b c : World} (h1 : Book a b) (h2 : Book b c) : Book a c :=
  ⟨h2.1.trans h1.1, h2.2.trans h1.2⟩

theorem setIov_length {w : World} {i : Nat} {v : Iov} (x : Option Iov) (h : w.iov i = some v) :
    (w.setIov i x).iovs.length = w.iovs.length := by
  have hi := iov_lt_of_some h
  simp [World.setIov, listSet, hi]

theorem book_setIov {w : World} {i : Nat} {v : Iov} (x : Option Iov) (h : w.iov i = some v) : Book w (w.setIov i x) :=
  ⟨setIov_length x h, rfl⟩

theorem book_pushCopy {w w' : World} {i : Nat} {src : List UInt8} (h : w.pushCopy i src = some w') : Book w w' := by
  obtain ⟨v, hv, ⟨_, rfl⟩ | ⟨_, arena', next', chunk, off, v2, _, _, rfl⟩⟩ := pushCopy_spec h
  · exact Book.refl _
  · exact ⟨setIov_length _ hv, rfl⟩

theorem book_pushBorrowed {w w' : World} {i : Nat} {s : Slice} (h : w.pushBorrowed i s = some w') : Book w w' := by
  obtain ⟨v, hv, ⟨_, rfl⟩ | ⟨_, v', _, rfl⟩⟩ := pushBorrowed_spec h
  · exact Book.refl _
  · exact book_setIov _ hv

theorem book_push {w w' : World} {i : Nat} {s : Slice} (h : w.push i s = some w') : Book w w' := by
  rcases push_cases h with h | h
  · exact book_pushCopy h
  · exact book_pushBorrowed h

theorem book_extend {w w' : World} {i : Nat} {slices : List Slice} (h : w.extend i slices = some w') : Book w w' := by
  have := extend_preserves (fun x => Book w x) (fun a b i s hp _ hb => hp.trans (book_pushBorrowed hb))
    slices w i w' (Book.refl w) h (fun _ _ => trivial)
  exact this

theorem book_consume {w w' : World} {i count k : Nat} (h : w.consume i count = some (w', k)) : Book w w' := by
  obtain ⟨v, n, v', hv, _, _, rfl⟩ := consume_spec h
  exact book_setIov _ hv

theorem book_advance {w w' : World} {i count c : Nat} (h : w.advance i count = some (w', c)) : Book w w' := by
  obtain ⟨v, n, v', k, hv, _, _, rfl⟩ := advance_spec h
  exact book_setIov _ hv

theorem book_readInto {w w' : World} {fuel i room : Nat} {acc out : List UInt8}
    (h : World.readInto fuel w i room acc = some (w', out)) : Book w w' :=
  readInto_preserves (fun x => Book w x) (fun _ _ _ _ _ hp hb => hp.trans (book_advance hb))
    fuel w i room acc w' out (Book.refl w) h

theorem book_backfill {w w' : World} {i : Nat} {b : Backref} {src : List UInt8} (h : w.backfill i b src = some w') :
    Book w w' := by
  obtain ⟨v, hv, ⟨_, _, rfl⟩ | ⟨key, info, target, k, _, _, _, _, _, _, _, rfl⟩⟩ := backfill_spec h
  · exact Book.refl _
  · exact ⟨setIov_length _ hv, rfl⟩

theorem book_registerPatch {w w' : World} {i : Nat} {pat : List UInt8} {b : Backref}
    (h : w.registerPatch i pat = some (w', b)) : Book w w' := by
  rcases registerPatch_spec h with ⟨_, rfl, _⟩ | ⟨_, w1, v, last, h1, hv, _, _, _, _, rfl⟩
  · exact Book.refl _
  · exact (book_pushCopy h1).trans (book_setIov _ hv)

/-- Does the op create an iovec handle? -/
def WOp.creates : WOp → Bool
  | .new | .newFromArena _ | .newFromSlices _ | .take _ | .clone _ => true
  | _ => false

/-- The handle / token bookkeeping of one step: a creating op appends exactly one handle, every other op
keeps the handle table size; `register` appends the token it returns to the token table, every other op
keeps it. -/
theorem step_book {w w' : World} {op : WOp} (h : w.step op = some w') :
    w'.iovs.length = w.iovs.length + (if op.creates then 1 else 0) ∧
    w'.brefs = PW.tokStep w.brefs op (w.ret op) := by
  have lift : Book w w' → op.creates = false → (∀ i p, op ≠ .register i p) →
      w'.iovs.length = w.iovs.length + (if op.creates then 1 else 0) ∧ w'.brefs = PW.tokStep w.brefs op (w.ret op) := by
    intro hb hc hr
    refine ⟨by rw [hc]; simpa using hb.1, ?_⟩
    rw [hb.2]
    cases op <;> first | rfl | (exact absurd rfl (hr _ _))
  cases op with
  | new => simp [World.step, World.addIov] at h; subst h; simp [WOp.creates, PW.tokStep]
  | newArena => simp [World.step, World.addArena] at h; subst h; simp [WOp.creates, PW.tokStep]
  | newFromArena a =>
    simp only [World.step] at h
    split at h
    · simp [World.addIov, World.setArena] at h; subst h; simp [WOp.creates, PW.tokStep]
    · simp at h
  | newFromSlices bufs =>
    simp only [World.step] at h
    obtain ⟨h1, _⟩ := addExts_spec w bufs
    simp at h; subst h
    simp [World.newFromSlices, World.addIov, h1, WOp.creates, PW.tokStep]
  | push i bs =>
    simp only [World.step, World.addExt] at h
    exact lift (Book.trans (b := { w with exts := w.exts ++ [bs] }) ⟨rfl, rfl⟩ (book_push h)) rfl (by intro _ _ e; cases e)
  | pushBorrowed i bs =>
    simp only [World.step, World.addExt] at h
    exact lift (Book.trans (b := { w with exts := w.exts ++ [bs] }) ⟨rfl, rfl⟩ (book_pushBorrowed h)) rfl (by intro _ _ e; cases e)
  | pushCopy i bs => exact lift (book_pushCopy h) rfl (by intro _ _ e; cases e)
  | register i pat =>
    simp only [World.step] at h
    split at h
    · rename_i w1 b hr
      simp at h; subst h
      have hb := book_registerPatch hr
      refine ⟨by simpa [WOp.creates, World.addBref] using hb.1, ?_⟩
      simp [World.ret, hr, PW.tokStep, World.addBref, hb.2]
    · simp at h
  | extend i bufs =>
    simp only [World.step] at h
    obtain ⟨h1, _⟩ := addExts_spec w bufs
    have hb := book_extend h
    rw [h1] at hb
    exact lift ⟨hb.1, hb.2⟩ rfl (by intro _ _ e; cases e)
  | consume i k =>
    simp only [World.step] at h
    split at h
    · rename_i w1 c hc; simp at h; subst h; exact lift (book_consume hc) rfl (by intro _ _ e; cases e)
    · simp at h
  | advance i k =>
    simp only [World.step] at h
    split at h
    · rename_i w1 c hc; simp at h; subst h; exact lift (book_advance hc) rfl (by intro _ _ e; cases e)
    · simp at h
  | read i k =>
    simp only [World.step] at h
    split at h
    · rename_i w1 c hc; simp at h; subst h; exact lift (book_readInto hc) rfl (by intro _ _ e; cases e)
    · simp at h
  | reserve i k =>
    simp only [World.step] at h
    split at h
    · rename_i v hv
      simp at h; subst h
      exact lift (Book.trans (b := { w with next := (ensureCapacity w.tun v.arena w.next k).2 }) ⟨rfl, rfl⟩
        (book_setIov _ hv)) rfl (by intro _ _ e; cases e)
    · simp at h
  | pushASlice i si =>
    simp only [World.step] at h
    split at h
    · rename_i a ha
      split at h
      · simp at h; subst h; exact lift ⟨rfl, rfl⟩ rfl (by intro _ _ e; cases e)
      · split at h
        · rename_i w1 hw1
          have hb1 := book_push hw1
          unfold World.pushAnchor at h
          split at h
          · simp at h
          · rename_i v1 hv1
            simp at h; subst h
            exact lift (Book.trans (b := w.setASlice si none) ⟨rfl, rfl⟩ (hb1.trans (book_setIov _ hv1))) rfl
              (by intro _ _ e; cases e)
        · simp at h
    · simp at h
  | swapArena i ai =>
    simp only [World.step] at h
    split at h
    · rename_i v ar hv har
      simp at h; subst h
      exact lift (Book.trans (b := w.setArena ai (some v.arena)) ⟨rfl, rfl⟩ (book_setIov _ (by simpa using hv))) rfl
        (by intro _ _ e; cases e)
    · simp at h
  | aReserve ai k =>
    simp only [World.step] at h
    split at h
    · simp at h; subst h; exact lift ⟨rfl, rfl⟩ rfl (by intro _ _ e; cases e)
    · simp at h
  | sSkip si k =>
    simp only [World.step] at h
    split at h
    · simp at h; subst h; exact lift ⟨rfl, rfl⟩ rfl (by intro _ _ e; cases e)
    · simp at h
  | sDropSuf si k =>
    simp only [World.step] at h
    split at h
    · simp at h; subst h; exact lift ⟨rfl, rfl⟩ rfl (by intro _ _ e; cases e)
    · simp at h
  | sSplit si k =>
    simp only [World.step] at h
    split at h
    · simp at h; subst h; exact lift ⟨rfl, rfl⟩ rfl (by intro _ _ e; cases e)
    · simp at h
  | backfill i bi bs =>
    simp only [World.step] at h
    split at h
    · exact lift (book_backfill h) rfl (by intro _ _ e; cases e)
    · simp at h
  | pop i =>
    simp only [World.step] at h
    split at h
    · rename_i w1 hc; simp at h; subst h; exact lift (book_consume hc) rfl (by intro _ _ e; cases e)
    · simp at h
  | clear i =>
    simp only [World.step, World.clear] at h
    split at h
    · simp at h
    · rename_i v hv
      simp at h; subst h; exact lift (book_setIov _ hv) rfl (by intro _ _ e; cases e)
  | take i =>
    simp only [World.step, World.take] at h
    split at h
    · rename_i w1 j ht
      split at ht
      · simp at ht
      · rename_i v hv
        simp at ht h
        subst h
        rw [← ht.1]
        have hl := setIov_length (some Iov.empty) hv
        simp [World.addIov, hl, WOp.creates, PW.tokStep]
        rfl
    · simp at h
  | clone i =>
    simp only [World.step, World.clone] at h
    split at h
    · rename_i w1 j ht
      split at ht
      · simp at ht
      · rename_i v hv
        simp only [Option.some.injEq] at ht
        simp at h
        subst h
        have e : w1 = (w.addIov { v with arena := ⟨none⟩ }).1 := by rw [ht]
        rw [e]
        simp [World.addIov, WOp.creates, PW.tokStep]
    · simp at h
  | drop i =>
    simp only [World.step, World.dropIov] at h
    split at h
    · simp at h
    · rename_i v hv
      simp at h; subst h; exact lift (book_setIov _ hv) rfl (by intro _ _ e; cases e)
  | flush i =>
    simp only [World.step] at h
    split at h
    · rename_i v hv
      simp at h; subst h; exact lift (book_setIov _ hv) rfl (by intro _ _ e; cases e)
    · simp at h
  | takeArena i =>
    simp only [World.step] at h
    split at h
    · rename_i v hv
      simp at h; subst h
      exact lift (Book.trans (book_setIov _ hv) ⟨rfl, rfl⟩) rfl (by intro _ _ e; cases e)
    · simp at h
  | aFlush ai =>
    simp only [World.step] at h
    split at h
    · simp at h; subst h; exact lift ⟨rfl, rfl⟩ rfl (by intro _ _ e; cases e)
    · simp at h
  | dropArena ai =>
    simp only [World.step] at h
    split at h
    · simp at h; subst h; exact lift ⟨rfl, rfl⟩ rfl (by intro _ _ e; cases e)
    · simp at h
  | sTake si =>
    simp only [World.step] at h
    split at h
    · simp at h; subst h; exact lift ⟨rfl, rfl⟩ rfl (by intro _ _ e; cases e)
    · simp at h
  | sClone si =>
    simp only [World.step] at h
    split at h
    · simp at h; subst h; exact lift ⟨rfl, rfl⟩ rfl (by intro _ _ e; cases e)
    · simp at h
  | sDrop si =>
    simp only [World.step] at h
    split at h
    · simp at h; subst h; exact lift ⟨rfl, rfl⟩ rfl (by intro _ _ e; cases e)
    · simp at h
  | readNIov i count attempts src script =>
    simp only [World.step, World.readNIov] at h
    split at h
    · simp at h
    · rename_i v hv
      rcases hr : w.readN v.arena ⟨src, script⟩ count attempts with ⟨w1, ar', res, o⟩
      simp only [hr] at h
      obtain ⟨hp', nx, rfl⟩ := readN_world hr
      have hiov : ({ w with heap := hp', next := nx } : World).iov i = some v := hv
      simp only [hiov] at h
      have hb : Book w (({ w with heap := hp', next := nx } : World).setIov i (some { v with arena := ar' })) :=
        Book.trans (b := { w with heap := hp', next := nx }) ⟨rfl, rfl⟩ (book_setIov _ hiov)
      cases res with
      | ok a => simp at h; subst h; exact lift ⟨hb.1, hb.2⟩ rfl (by intro _ _ e; cases e)
      | error k => simp at h; subst h; exact lift hb rfl (by intro _ _ e; cases e)
  | readNArena a count attempts src script =>
    simp only [World.step, World.readNArena] at h
    split at h
    · simp at h
    · rename_i ar har
      rcases hr : w.readN ar ⟨src, script⟩ count attempts with ⟨w1, ar', res, o⟩
      simp only [hr] at h
      obtain ⟨hp', nx, rfl⟩ := readN_world hr
      cases res with
      | ok x => simp at h; subst h; exact lift ⟨rfl, rfl⟩ rfl (by intro _ _ e; cases e)
      | error k => simp at h; subst h; exact lift ⟨rfl, rfl⟩ rfl (by intro _ _ e; cases e)
  | lend bs =>
    simp [World.step, World.addExt] at h; subst h; exact lift ⟨rfl, rfl⟩ rfl (by intro _ _ e; cases e)
  | pushAt i b off len =>
    simp only [World.step] at h
    split at h
    · exact lift (book_push h) rfl (by intro _ _ e; cases e)
    · simp at h
  | pushBorrowedAt i b off len =>
    simp only [World.step] at h
    split at h
    · exact lift (book_pushBorrowed h) rfl (by intro _ _ e; cases e)
    · simp at h

/-- A step that names an iovec handle `j` that is not live fails, or (four degenerate calls the model
lets through without looking at the handle: `register` of an empty pattern, `extend` by empty buffers, a
`read` into an empty buffer, `push_aslice` of an empty slice) leaves `j` not live. -/
theorem step_target_dead {w w' : World} {op : WOp} (h : w.step op = some w') {j : Nat}
    (hj : op.iovTarget = some j) (hv : w.iov j = none) : w'.iov j = none := by
  cases op with
  | register i pat =>
    simp only [WOp.iovTarget, Option.some.injEq] at hj; subst hj
    simp only [World.step, World.registerPatch, World.pushCopy, hv] at h
    split at h
    · rename_i w1 b hr
      simp at h; subst h
      split at hr
      · simp at hr; rw [← hr.1]; exact hv
      · simp at hr
    · simp at h
  | extend i bufs =>
    simp only [WOp.iovTarget, Option.some.injEq] at hj; subst hj
    simp only [World.step] at h
    obtain ⟨h1, _⟩ := addExts_spec w bufs
    have hv1 : (w.addExts bufs).1.iov i = none := by rw [h1]; exact hv
    have := extend_preserves (fun x => x.iov i = none)
      (fun a b i' s hp _ hb => by
        obtain ⟨v, hv', ⟨_, rfl⟩ | ⟨_, v', _, rfl⟩⟩ := pushBorrowed_spec hb
        · exact hp
        · by_cases e : i = i'
          · subst e; rw [hp] at hv'; cases hv'
          · simp [e, hp])
      _ _ i w' hv1 h (fun _ _ => trivial)
    exact this
  | read i k =>
    simp only [WOp.iovTarget, Option.some.injEq] at hj; subst hj
    simp only [World.step, World.readInto, hv] at h
    split at h
    · rename_i w1 c hc
      simp at h; subst h
      split at hc
      · simp at hc; rw [← hc.1]; exact hv
      · simp at hc
    · simp at h
  | pushASlice i si =>
    simp only [WOp.iovTarget, Option.some.injEq] at hj; subst hj
    simp only [World.step, World.push, iov_setASlice, hv] at h
    split at h
    · split at h
      · simp at h; subst h; simpa using hv
      · simp at h
    · simp at h
  | _ =>
    exfalso
    simp only [WOp.iovTarget, Option.some.injEq, reduceCtorEq] at hj <;> subst hj <;>
      simp [World.step, World.push, World.pushBorrowed, World.pushCopy,
        World.consume, World.advance, World.backfill, World.clear, World.take, World.clone,
        World.dropIov, World.readNIov, World.addExt, hv] at h

end Woodpile.Iovec

/-
Layer-B glue for the DECODER (track `c10enc`): a world predicate closed under what one emit, one lent
caller buffer and one drain do (`EncWorld.EncClosed`, `Proofs/EncGlue.lean`) is preserved by every
decoder run `decCalls` / `decRun` (`Decoder::new`, any `decode` / `decode_copy` calls, any drain
schedule, `finish`; the run stops at the first decoding error, after applying what was emitted before
it).  No simulation is needed: a decoder step only appends (the owed stuff sequence by copy, a prefix
of its input by the call's method), and the size of an append is bounded by the chunk size the step
before parsed (`DecSmall`).

Instances (`Props/C05H.lean`): `Good` (= `WorldInv ∧ ∃ caps, ArenaInv`), `CapGood`, `Lit` — the
decoder's world is literally a `WOp` history, hence `Reachable`.
-/
import Woodpile.Proofs.EncGlue

namespace Woodpile.EncWorld
open Woodpile.Hcobs Woodpile.Iovec Woodpile.Arena

/-- The decoder's state only ever waits for a chunk of at most `B` bytes. -/
def DecSmall (B : Nat) : DecState → Prop
  | .inChunk rem _ => rem ≤ B
  | _ => True

theorem dec_once_small (p : Params) (B : Nat) (hB : max p.maxInit p.maxSub ≤ B) (hB2 : 2 ≤ B) (m : Method)
    (s : DecState) (b : UInt8) (rest : List UInt8) (hs : DecSmall B s) :
    (∀ err es, Dec.once p m s b rest = .error (err, es) → ∀ e ∈ es, EmitSmall B e) ∧
    (∀ o, Dec.once p m s b rest = .ok o → (∀ e ∈ o.emits, EmitSmall B e) ∧ DecSmall B o.st) := by
  have hstuff : EmitSmall B (⟨.append [FE, FD], .copy⟩ : Emit) :=
    ⟨fun bs h => by cases h; simpa using hB2, fun n h => by cases h⟩
  constructor
  · intro err es h e he
    cases s with
    | initial =>
      simp only [Dec.once] at h
      split at h
      · cases h; cases he
      · split at h <;> cases h
    | beforeChunk ins =>
      simp only [Dec.once] at h
      split at h
      · cases h
        cases ins
        · cases he
        · simp only [if_true, List.mem_singleton] at he; subst he; exact hstuff
      · cases h
    | midHeader b0 =>
      simp only [Dec.once] at h
      split at h
      · cases h; cases he
      · split at h
        · cases h; cases he
        · split at h <;> cases h
    | inChunk rem term => simp only [Dec.once] at h; cases h
  · intro o h
    cases s with
    | initial =>
      simp only [Dec.once] at h
      split at h
      · cases h
      · rename_i hle
        split at h <;> (cases h; refine ⟨(by intro e he; cases he), ?_⟩; simp only [DecSmall]; try omega)
    | beforeChunk ins =>
      simp only [Dec.once] at h
      split at h
      · cases h
      · cases h
        refine ⟨?_, trivial⟩
        intro e he
        cases ins
        · cases he
        · simp only [if_true, List.mem_singleton] at he; subst he; exact hstuff
    | midHeader b0 =>
      simp only [Dec.once] at h
      split at h
      · cases h
      · split at h
        · cases h
        · rename_i hle
          split at h <;> (cases h; refine ⟨(by intro e he; cases he), ?_⟩; simp only [DecSmall]; try omega)
    | inChunk rem term =>
      simp only [Dec.once, Except.ok.injEq] at h
      subst h
      simp only [DecSmall] at hs
      refine ⟨?_, ?_⟩
      · intro e he
        simp only [List.mem_singleton] at he
        subst he
        refine ⟨fun bs hbs => ?_, fun n hn => by cases hn⟩
        simp only [Woodpile.Pipe.Op.append.injEq] at hbs
        subst hbs
        simp only [List.length_take, List.length_cons]
        omega
      · simp only
        split
        · simp only [DecSmall]; omega
        · trivial

/-- The emits of a decoder step are all appends. -/
theorem dec_once_appends (p : Params) (m : Method) (s : DecState) (b : UInt8) (rest : List UInt8) :
    (∀ err es, Dec.once p m s b rest = .error (err, es) → (es.map (·.op)).all Woodpile.Pipe.Op.isAppend = true) ∧
    (∀ o, Dec.once p m s b rest = .ok o → (o.emits.map (·.op)).all Woodpile.Pipe.Op.isAppend = true) := by
  constructor
  · intro err es h
    cases s with
    | initial =>
      simp only [Dec.once] at h
      split at h
      · cases h; rfl
      · split at h <;> cases h
    | beforeChunk ins =>
      simp only [Dec.once] at h
      split at h
      · cases h; cases ins <;> rfl
      · cases h
    | midHeader b0 =>
      simp only [Dec.once] at h
      split at h
      · cases h; rfl
      · split at h
        · cases h; rfl
        · split at h <;> cases h
    | inChunk rem term => simp only [Dec.once] at h; cases h
  · intro o h
    cases s with
    | initial =>
      simp only [Dec.once] at h
      split at h
      · cases h
      · split at h <;> (cases h; rfl)
    | beforeChunk ins =>
      simp only [Dec.once] at h
      split at h
      · cases h
      · cases h; cases ins <;> rfl
    | midHeader b0 =>
      simp only [Dec.once] at h
      split at h
      · cases h
      · split at h
        · cases h
        · split at h <;> (cases h; rfl)
    | inChunk rem term =>
      simp only [Dec.once, Except.ok.injEq] at h
      subst h
      rfl

/-- One `decode` / `decode_copy` call, carrying `P`. -/
theorem decFeed_closed {B : Nat} {P : World → List Backref → Prop} (hc : EncClosed B P) (p : Params)
    (hB : max p.maxInit p.maxSub ≤ B) (hB2 : 2 ≤ B) (i : Nat) (m : Method) (base : Slice) (fuel : Nat) :
    ∀ (w : World) (s : DecState) (input : List UInt8) (pos : Nat), DecSmall B s →
    (m = .borrow → ∃ b, base.region = .ext b ∧ InBuf w b (base.off + pos) input) → P w [] →
    ∀ w' res, decFeed p m fuel w i s base input pos = some (w', res) →
      P w' [] ∧ ∀ s', res = .ok s' → DecSmall B s' := by
  induction fuel with
  | zero =>
    intro w s input pos hs _ hP w' res h
    simp only [decFeed_zero, Option.some.injEq, Prod.mk.injEq] at h
    obtain ⟨rfl, rfl⟩ := h
    exact ⟨hP, fun s' hs' => by cases hs'; exact hs⟩
  | succ fuel ih =>
    intro w s input pos hs hbuf hP w' res h
    cases input with
    | nil =>
      simp only [decFeed_nil, Option.some.injEq, Prod.mk.injEq] at h
      obtain ⟨rfl, rfl⟩ := h
      exact ⟨hP, fun s' hs' => by cases hs'; exact hs⟩
    | cons b rest =>
      obtain ⟨hsm_err, hsm_ok⟩ := dec_once_small p B hB hB2 m s b rest hs
      obtain ⟨hsrc_err, hsrc_ok⟩ := dec_once_src p m s b rest
      obtain ⟨happ_err, happ_ok⟩ := dec_once_appends p m s b rest
      cases ho : Dec.once p m s b rest with
      | error ee =>
        obtain ⟨err, es⟩ := ee
        rw [decFeed_cons_error p m fuel w i s base b rest pos err es ho] at h
        cases h1 : applyStep w i [] es base with
        | none => rw [h1] at h; cases h
        | some x =>
          obtain ⟨w1, toks1⟩ := x
          rw [h1] at h
          simp only [Option.some.injEq, Prod.mk.injEq] at h
          obtain ⟨rfl, rfl⟩ := h
          have ht := applyStep_toks_appends es (happ_err err es ho) h1
          subst ht
          refine ⟨applyStep_closed hc i _ _ _ _ _ _ (srcOk_of_no_borrow (hsrc_err err es ho))
            (hsm_err err es ho) h1 hP, fun s' hs' => by cases hs'⟩
      | ok o =>
        rw [decFeed_cons_ok p m fuel w i s base b rest pos o ho] at h
        obtain ⟨hcons, hpre⟩ := hsrc_ok o ho
        obtain ⟨hsm, hs1⟩ := hsm_ok o ho
        cases h1 : applyStep w i [] o.emits { base with off := base.off + pos, len := base.len - pos } with
        | none => rw [h1] at h; cases h
        | some x =>
          obtain ⟨w1, toks1⟩ := x
          rw [h1] at h
          simp only at h
          have ht := applyStep_toks_appends o.emits (happ_ok o ho) h1
          subst ht
          have hsrc : SrcOk w { base with off := base.off + pos, len := base.len - pos } o.emits := by
            intro e he hb bs hop
            obtain ⟨hm, hp⟩ := hpre e he hb bs hop
            obtain ⟨bb, hb1, hb2⟩ := hbuf hm
            exact ⟨bb, hb1, hb2.prefix hp⟩
          have hP1 : P w1 [] := applyStep_closed hc i _ _ _ _ _ _ hsrc hsm h1 hP
          have hex : w1.exts = w.exts := by
            clear h hP1 hsrc
            revert h1
            generalize ([] : List Backref) = t0
            intro h1
            have : ∀ (es : List Emit) (wa wb : World) (ta tb : List Backref) (src : Slice),
                applyStep wa i ta es src = some (wb, tb) → wb.exts = wa.exts := by
              intro es
              induction es with
              | nil =>
                intro wa wb ta tb src h
                simp only [applyStep, Option.some.injEq, Prod.mk.injEq] at h
                rw [h.1]
              | cons e t ihh =>
                intro wa wb ta tb src h
                simp only [applyStep] at h
                cases h2 : applyEmit wa i ta e src with
                | none => rw [h2] at h; cases h
                | some y =>
                  obtain ⟨wc, tc⟩ := y
                  rw [h2] at h
                  rw [ihh wc wb tc tb src h, applyEmit_exts h2]
            exact this _ _ _ _ _ _ h1
          refine ih w1 o.st _ _ hs1 ?_ hP1 w' res h
          intro hm
          obtain ⟨bb, hb1, hb2⟩ := hbuf hm
          refine ⟨bb, hb1, ?_⟩
          have := (hb2.of_exts hex).drop _ hcons
          rwa [Nat.add_assoc] at this

theorem decFeedCall_closed {B : Nat} {P : World → List Backref → Prop} (hc : EncClosed B P) (p : Params)
    (hB : max p.maxInit p.maxSub ≤ B) (hB2 : 2 ≤ B) (i : Nat) (w : World) (s : DecState) (m : Method)
    (d : List UInt8) (hs : DecSmall B s) (hP : P w []) (w' : World) (res : Except DecErr DecState)
    (h : decFeedCall p i w s m d = some (w', res)) : P w' [] ∧ ∀ s', res = .ok s' → DecSmall B s' := by
  cases m with
  | copy =>
    exact decFeed_closed hc p hB hB2 i .copy _ _ w s d 0 hs (fun hm => by cases hm) hP w' res h
  | borrow =>
    exact decFeed_closed hc p hB hB2 i .borrow _ _ (w.addExt d).1 s d 0 hs
      (fun _ => ⟨w.exts.length, rfl, InBuf.addExt w d⟩) (hc.lend w [] d hP) w' res h

/-- The whole decoder run: `P` holds in the final world (for the world between two calls, take the
run of the calls made so far: `finish` does not touch the world). -/
theorem decCalls_closed {B : Nat} {P : World → List Backref → Prop} (hc : EncClosed B P) (p : Params)
    (hB : max p.maxInit p.maxSub ≤ B) (hB2 : 2 ≤ B) (i : Nat) (calls : List Call) :
    ∀ (w : World) (s : DecState) (dr : List UInt8), DecSmall B s → P w [] →
    ∀ w' dr' res, decCalls p i w s dr calls = some (w', dr', res) → P w' [] := by
  induction calls with
  | nil =>
    intro w s dr _ hP w' dr' res h
    simp only [decCalls, Option.some.injEq, Prod.mk.injEq] at h
    rw [← h.1]; exact hP
  | cons c t ih =>
    intro w s dr hs hP w' dr' res h
    cases c with
    | feed m d =>
      simp only [decCalls] at h
      cases h1 : decFeedCall p i w s m d with
      | none => rw [h1] at h; cases h
      | some x =>
        obtain ⟨w1, r1⟩ := x
        rw [h1] at h
        obtain ⟨hP1, hs1⟩ := decFeedCall_closed hc p hB hB2 i w s m d hs hP w1 r1 h1
        cases r1 with
        | ok s1 => exact ih w1 s1 dr (hs1 s1 rfl) hP1 w' dr' res h
        | error e =>
          simp only [Option.some.injEq, Prod.mk.injEq] at h
          rw [← h.1]; exact hP1
    | consume k =>
      simp only [decCalls] at h
      cases hv : w.iov i with
      | none => rw [hv] at h; cases h
      | some v =>
        cases hx : w.consume i k with
        | none => rw [hv, hx] at h; cases h
        | some x =>
          rw [hv, hx] at h
          exact ih x.1 s _ hs (hc.consume (n := x.2) (by rw [hx]) hP) w' dr' res h
    | advance k =>
      simp only [decCalls] at h
      cases hv : w.iov i with
      | none => rw [hv] at h; cases h
      | some v =>
        cases hx : w.advance i k with
        | none => rw [hv, hx] at h; cases h
        | some x =>
          rw [hv, hx] at h
          exact ih x.1 s _ hs (hc.advance (n := x.2) (by rw [hx]) hP) w' dr' res h

/-- `Decoder::new()` on a fresh iovec, any calls, `finish()`. -/
theorem decRun_closed {B : Nat} {P : World → List Backref → Prop} (hc : EncClosed B P) (p : Params)
    (hB : max p.maxInit p.maxSub ≤ B) (hB2 : 2 ≤ B) (pol : Policy) (tun : Tuning) (calls : List Call)
    (hP : P (World.fresh pol tun) []) (w' : World) (dr : List UInt8) (res : Except DecErr Unit)
    (h : decRun p pol tun calls = some (w', dr, res)) : P w' [] :=
  decCalls_closed hc p hB hB2 0 calls (World.fresh pol tun) .initial [] trivial hP w' dr res h

end Woodpile.EncWorld

/-
What the model drivers answer for `zenc` / `zdec` (one codec call on `n` zero bytes) without
running the state machines on a list of `n` bytes: by the refinement theorems of C01 and the
closed form of `Woodpile/Proofs/HcobsZeros.lean`, this *is* what `Enc` / `Dec` compute.
-/
import Woodpile.Proofs.HcobsZeros
import Woodpile.Props.C01

namespace Woodpile.Hcobs.Zeros
open Woodpile.Pipe Woodpile.Hcobs

/-- `zenc`: one `encode` / `encode_copy` call on `n` zeros, then `finish`: the output pipe
holds the closed form, nothing pending; its summary is `zeroSummary p n`. -/
theorem zenc_output (p : Params) (hp : p.Valid) (m : Method) (n : Nat) :
    (Enc.output p [(m, List.replicate n 0)]).bytes = encZeros p n ∧
    (Enc.output p [(m, List.replicate n 0)]).pending = false ∧
    summarize p (Enc.output p [(m, List.replicate n 0)]).bytes = zeroSummary p n := by
  have h := Woodpile.Props.C01.enc_impl_refines_spec p hp [(m, List.replicate n 0)]
  have e : ([(m, List.replicate n (0 : UInt8))].map (·.2)).flatten = List.replicate n 0 := by simp
  rw [e] at h
  refine ⟨by rw [h.1, encode_zeros p hp], h.2, ?_⟩
  rw [h.1, summarize_encode_zeros p hp]

/-- `zdec`: the first byte of the encoding of `n` zeros in one call, all the rest in a second
call, then `finish`: accepted, and the output is `n` zeros. -/
theorem zdec_output (p : Params) (hp : p.Valid) (m₁ m₂ : Method) (n : Nat) :
    Dec.output p [(m₁, (encZeros p n).take 1), (m₂, (encZeros p n).drop 1)]
      = .ok (List.replicate n 0) := by
  rw [← (Woodpile.Props.C01.dec_impl_refines_spec p hp _).1]
  have e : ([(m₁, (encZeros p n).take 1), (m₂, (encZeros p n).drop 1)].map (·.2)).flatten
      = encZeros p n := by
    simp only [List.map, List.flatten_cons, List.flatten_nil, List.append_nil, List.take_append_drop]
  rw [e]
  exact decode_encZeros p hp n

end Woodpile.Hcobs.Zeros

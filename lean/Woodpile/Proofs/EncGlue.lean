/-
Layer-B glue, part 2: the HCOBS encoder driving the iovec (`EncWorld`, `Proofs/EncWorldComp.lean`)
seen from the multi-object world invariants (`WorldInv`, `ArenaInv`; C05).

* `XOp` (`lend`, `pushAt`, `op`) steps are `WOp` runs (`xop_is_wstep`), given that a `pushAt` names an
  in-bounds range of a known caller buffer (`XOk`: in Rust, that the borrow type-checks); hence `Good`
  along every such history (`xop_run_good`).
* `EncClosed` / `encPrefix_closed` / `encRun_closed`: a world predicate preserved by what one emit, one
  `lend`, one `consume` / `advance` does is preserved by the whole encoder run (any calls, any drain
  schedule) — the induction of `encFeed_sim` once more, carrying the predicate along; every emit the
  encoder makes is small (`once_small`: appends of at most `max 1 maxChunk` bytes, placeholders of at
  most 2).
* `CapGood`: `WorldInv`, `ArenaInv` for a capacity ghost that is `≤ 2^20` on every allocated chunk,
  production tuning.  Preserved by the encoder's steps (`capGood_closed`) because every request is
  below 2^20 (`findHintSize_le_prod`).  Consequence (`enc_slices_in_cap`): between calls every owned
  slice of the encoder's iovec ends within 2^20 bytes of its chunk — the `hcap` hypothesis of
  `Props/C09W.enc_lag_le_partial`.
-/
import Woodpile.Proofs.EncWorldComp
import Woodpile.Proofs.IovecGlue
import Woodpile.Proofs.IovecWb

namespace Woodpile.EncWorld
open Woodpile.Hcobs Woodpile.Iovec Woodpile.Arena
open Woodpile.Hcobs.EncProof
open Woodpile.Pipe (Cell Pipe cellBytes fillCells Ev runEv prodOps stepEv)

/-! ### `XOp` steps are `WOp` runs -/

/-- `pushAt` names an in-bounds range of a caller buffer (what the Rust borrow checker enforces). -/
def XOk (w : World) : XOp → Prop
  | .pushAt sl => ∃ b, sl.region = .ext b ∧ sl.off + sl.len ≤ (w.exts.getD b []).length
  | _ => True

def XOp.toWOps (i : Nat) (w : World) : XOp → List WOp
  | .lend buf => [.lend buf]
  | .pushAt sl =>
    match sl.region with
    | .ext b => [.pushAt i b sl.off sl.len]
    | .chunk _ => []
  | .op o => o.toWOps i w

/-- As `Woodpile.Iovec.OpAgrees`; `lend` and `pushAt` give EQUAL worlds. -/
def XAgrees (i : Nat) (s : State) (x : XOp) (s' : State) (r : Ret) : Prop :=
  match x with
  | .op o => OpAgrees i s o s' r
  | x => s.w.run (x.toWOps i s.w) = some s'.w

theorem xop_is_wstep (i : Nat) (s s' : State) (x : XOp) (r : Ret) (hok : XOk s.w x)
    (h : xstep i s x = some (s', r)) : XAgrees i s x s' r := by
  cases x with
  | lend buf =>
    simp only [xstep, Option.some.injEq, Prod.mk.injEq] at h
    obtain ⟨rfl, _⟩ := h
    exact run_one (op := .lend buf) rfl
  | pushAt sl =>
    simp only [xstep, Option.map_eq_some_iff, Prod.mk.injEq] at h
    obtain ⟨w', hw', rfl, _⟩ := h
    obtain ⟨b, hb, hle⟩ := hok
    obtain ⟨reg, off, len⟩ := sl
    simp only at hb hle
    subst hb
    show s.w.run [.pushAt i b off len] = some w'
    exact run_one (op := .pushAt i b off len) (by simp only [World.step, if_pos hle]; exact hw')
  | op o => exact op_is_wstep i s s' o r h

theorem xop_step_good (i : Nat) (s s' : State) (x : XOp) (r : Ret) (hg : Good s.w) (hok : XOk s.w x)
    (h : xstep i s x = some (s', r)) : Good s'.w := by
  cases x with
  | op o => exact op_step_good i s s' o r hg h
  | lend buf => exact hg.run _ (xop_is_wstep i s s' _ r hok h)
  | pushAt sl => exact hg.run _ (xop_is_wstep i s s' _ r hok h)

/-- Every `pushAt` of the history is in bounds at the moment it is executed. -/
def XOkRun (i : Nat) : State → List XOp → Prop
  | _, [] => True
  | s, x :: t => XOk s.w x ∧ ∀ s' r, xstep i s x = some (s', r) → XOkRun i s' t

theorem xop_run_good (i : Nat) : ∀ (ops : List XOp) (s s' : State) (rs : List Ret), Good s.w → XOkRun i s ops →
    xrun i s ops = some (s', rs) → Good s'.w := by
  intro ops
  induction ops with
  | nil =>
    intro s s' rs hg _ h
    simp only [xrun, Option.some.injEq, Prod.mk.injEq] at h
    obtain ⟨rfl, _⟩ := h
    exact hg
  | cons x t ih =>
    intro s s' rs hg hok h
    simp only [xrun] at h
    cases h1 : xstep i s x with
    | none => rw [h1] at h; cases h
    | some y =>
      obtain ⟨s1, r⟩ := y
      rw [h1] at h
      simp only at h
      cases h2 : xrun i s1 t with
      | none => rw [h2] at h; cases h
      | some z =>
        obtain ⟨s2, rs'⟩ := z
        rw [h2] at h
        simp only [Option.some.injEq, Prod.mk.injEq] at h
        obtain ⟨rfl, _⟩ := h
        exact ih s1 s2 rs' (xop_step_good i s s1 x r hg hok.1 h1) (hok.2 s1 r h1) h2

/-! ### Every emit of the encoder is small -/

/-- Appends of at most `B` bytes, placeholders of at most 2 bytes. -/
def EmitSmall (B : Nat) (e : Emit) : Prop :=
  (∀ bs, e.op = .append bs → bs.length ≤ B) ∧ (∀ n, e.op = .register n → n ≤ 2)

theorem EmitSmall.mono {B B' : Nat} {e : Emit} (h : EmitSmall B e) (hb : B ≤ B') : EmitSmall B' e :=
  ⟨fun bs hbs => Nat.le_trans (h.1 bs hbs) hb, h.2⟩

theorem flushS_maxChunk (s : EncState) : (flushS s).maxChunk = s.maxChunk := by
  unfold flushS; split <;> rfl

theorem once_small (p : Params) (s : EncState) (nid : Nat) (m : Method) (input : List UInt8) :
    ∀ e ∈ (Enc.consumeOnce p s nid m input).emits, EmitSmall (max 1 s.maxChunk) e := by
  have hflush : ∀ e ∈ flushE s, EmitSmall (max 1 s.maxChunk) e := by
    intro e he
    unfold flushE at he
    split at he
    · simp only [List.mem_singleton] at he; subst he
      refine ⟨?_, ?_⟩
      · intro bs hbs
        simp only [Woodpile.Pipe.Op.append.injEq] at hbs
        subst hbs
        simp
        omega
      · intro n hn; cases hn
    · cases he
  have hwrite : ∀ (n : Nat) (X : List UInt8), X.length ≤ s.maxChunk → ∀ e ∈ writeE m n X,
      EmitSmall (max 1 s.maxChunk) e := by
    intro n X hX e he
    unfold writeE at he
    split at he
    · cases he
    · simp only [List.mem_singleton] at he; subst he
      refine ⟨?_, ?_⟩
      · intro bs hbs
        simp only [Woodpile.Pipe.Op.append.injEq] at hbs
        subst hbs
        omega
      · intro n hn; cases hn
  have hclose : ∀ s2, ∀ e ∈ closeE p s2, EmitSmall (max 1 s.maxChunk) e := by
    intro s2 e he
    simp only [closeE, Enc.closeHeader, List.mem_cons, List.not_mem_nil, or_false] at he
    rcases he with rfl | rfl
    · exact ⟨fun bs hbs => (by cases hbs), fun n hn => by cases hn⟩
    · refine ⟨fun bs hbs => (by cases hbs), fun n hn => ?_⟩
      simp only [Woodpile.Pipe.Op.register.injEq] at hn
      omega
  have hmc := flushS_maxChunk s
  have ht1 : ∀ r, (input.take ((flushS s).maxChunk - r)).length ≤ s.maxChunk := by
    intro r; simp only [List.length_take]; omega
  have ht2 : ∀ r k, ((input.take ((flushS s).maxChunk - r)).take k).length ≤ s.maxChunk := by
    intro r k; simp only [List.length_take]; omega
  intro e he
  by_cases hA : s.mid ∧ input.head? = some FD
  · rw [consumeOnce_mid p s nid m input hA] at he
    exact hclose _ e he
  · cases hfs : findStuff (input.take ((flushS s).maxChunk - (flushS s).cur)) with
    | some i =>
      rw [consumeOnce_stuff p s nid m input hA hfs] at he
      simp only [List.mem_append] at he
      rcases he with (he | he) | he
      · exact hflush e he
      · exact hwrite _ _ (ht2 _ _) e he
      · exact hclose _ e he
    | none =>
      by_cases hfull : (input.take ((flushS s).maxChunk - (flushS s).cur)).length
          = (flushS s).maxChunk - (flushS s).cur
      · rw [consumeOnce_full p s nid m input hA hfs hfull] at he
        simp only [List.mem_append] at he
        rcases he with (he | he) | he
        · exact hflush e he
        · exact hwrite _ _ (ht1 _) e he
        · exact hclose _ e he
      · rw [consumeOnce_part p s nid m input hA hfs hfull] at he
        simp only [List.mem_append] at he
        rcases he with he | he
        · exact hflush e he
        · exact hwrite _ _ (ht2 _ _) e he

theorem finish_small (p : Params) (s : EncState) : ∀ e ∈ Enc.finish p s, EmitSmall 1 e := by
  intro e he
  rw [finish_eq] at he
  simp only [List.mem_append, List.mem_singleton] at he
  rcases he with he | he
  · unfold flushE at he
    split at he
    · simp only [List.mem_singleton] at he; subst he
      refine ⟨?_, fun n hn => by cases hn⟩
      intro bs hbs
      simp only [Woodpile.Pipe.Op.append.injEq] at hbs
      subst hbs; simp
    · cases he
  · subst he
    exact ⟨fun bs hbs => (by cases hbs), fun n hn => by cases hn⟩

theorem init_small (p : Params) : ∀ e ∈ (Enc.init p 0).2, EmitSmall 1 e := by
  intro e he
  simp only [Enc.init, List.mem_singleton] at he
  subst he
  refine ⟨fun bs hbs => (by cases hbs), fun n hn => ?_⟩
  simp only [Woodpile.Pipe.Op.register.injEq] at hn
  omega

/-! ### A world predicate along the whole encoder run -/

/-- `P` is preserved by everything the encoder, its caller and its consumer do to the world: one
small emit whose borrowed bytes lie in a known caller buffer, a fresh caller buffer, a drain. -/
structure EncClosed (B : Nat) (P : World → List Backref → Prop) : Prop where
  emit : ∀ {w w' : World} {i : Nat} {toks toks' : List Backref} {e : Emit} {src : Slice},
    SrcOk w src [e] → EmitSmall B e → applyEmit w i toks e src = some (w', toks') → P w toks → P w' toks'
  lend : ∀ (w : World) (toks : List Backref) (d : List UInt8), P w toks → P (w.addExt d).1 toks
  consume : ∀ {w w' : World} {toks : List Backref} {i k n : Nat}, w.consume i k = some (w', n) → P w toks → P w' toks
  advance : ∀ {w w' : World} {toks : List Backref} {i k n : Nat}, w.advance i k = some (w', n) → P w toks → P w' toks

theorem applyEmit_exts {w w' : World} {i : Nat} {toks toks' : List Backref} {e : Emit} {src : Slice}
    (h : applyEmit w i toks e src = some (w', toks')) : w'.exts = w.exts := by
  obtain ⟨op, m⟩ := e
  cases op with
  | append bs =>
    cases m with
    | copy =>
      simp only [applyEmit, Option.map_eq_some_iff, Prod.mk.injEq] at h
      obtain ⟨w1, h1, rfl, _⟩ := h
      exact pushCopy_exts h1
    | borrow =>
      simp only [applyEmit, Option.map_eq_some_iff, Prod.mk.injEq] at h
      obtain ⟨w1, h1, rfl, _⟩ := h
      exact push_exts h1
  | register k =>
    simp only [applyEmit] at h
    cases h1 : w.registerPatch i (List.replicate k 0) with
    | none => rw [h1] at h; cases h
    | some x =>
      obtain ⟨w1, b⟩ := x
      rw [h1] at h
      simp only [Option.some.injEq, Prod.mk.injEq] at h
      obtain ⟨rfl, _⟩ := h
      rcases registerPatch_spec h1 with ⟨_, rfl, _⟩ | ⟨_, w2, v, last, hpc, hv, _, _, _, _, rfl⟩
      · rfl
      · exact (show w2.exts = w.exts from pushCopy_exts hpc)
  | fill id bs =>
    simp only [applyEmit] at h
    cases h0 : toks[id]? with
    | none => rw [h0] at h; cases h
    | some b =>
      rw [h0] at h
      simp only [Option.map_eq_some_iff, Prod.mk.injEq] at h
      obtain ⟨w1, h1, rfl, _⟩ := h
      obtain ⟨v, hv, ⟨_, _, rfl⟩ | ⟨key, info, target, k, _, _, _, _, _, _, _, rfl⟩⟩ := backfill_spec h1
      · rfl
      · rfl

theorem applyStep_closed {B : Nat} {P : World → List Backref → Prop} (hc : EncClosed B P) (i : Nat) (src : Slice) :
    ∀ (es : List Emit) (w w' : World) (toks toks' : List Backref), SrcOk w src es →
      (∀ e ∈ es, EmitSmall B e) → applyStep w i toks es src = some (w', toks') → P w toks → P w' toks' := by
  intro es
  induction es with
  | nil =>
    intro w w' toks toks' _ _ h hP
    simp only [applyStep, Option.some.injEq, Prod.mk.injEq] at h
    obtain ⟨rfl, rfl⟩ := h
    exact hP
  | cons e t ih =>
    intro w w' toks toks' hsrc hsm h hP
    simp only [applyStep] at h
    cases h1 : applyEmit w i toks e src with
    | none => rw [h1] at h; cases h
    | some x =>
      obtain ⟨w1, toks1⟩ := x
      rw [h1] at h
      have hP1 : P w1 toks1 := hc.emit (fun x hx => hsrc x (by simp only [List.mem_singleton] at hx; simp [hx]))
        (hsm e (by simp)) h1 hP
      refine ih w1 w' toks1 toks' ?_ (fun x hx => hsm x (by simp [hx])) h hP1
      intro x hx hb bs hop
      obtain ⟨b, hb1, hb2⟩ := hsrc x (by simp [hx]) hb bs hop
      exact ⟨b, hb1, hb2.of_exts (applyEmit_exts h1)⟩

theorem limit_le_max (p : Params) (first : Bool) : Spec.limit p first ≤ max p.maxInit p.maxSub := by
  cases first <;> simp [Spec.limit] <;> omega

/-- One `encode` / `encode_copy` call (the induction of `encFeed_sim`, carrying `P`). -/
theorem encFeed_closed {B : Nat} {P : World → List Backref → Prop} (hc : EncClosed B P) (p : Params) (hp : p.Valid)
    (hB : max 1 (max p.maxInit p.maxSub) ≤ B) (i : Nat) (m : Method) (g : List UInt8) (base : Slice)
    (fuel : Nat) :
    ∀ (w : World) (v : Iov) (e : EncW) (q : Pipe) (σ : BS) (input : List UInt8) (pos : Nat),
    w.iov i = some v → SimV w v g e.toks q → Rel p e.st e.nid q.total σ → σ.Inv p → σ.Inv2 →
    (m = .borrow → ∃ b, base.region = .ext b ∧ InBuf w b (base.off + pos) input) → P w e.toks →
    ∀ w' e', encFeed p fuel w i e m base input pos = some (w', e') → P w' e'.toks := by
  induction fuel with
  | zero =>
    intro w v e q σ input pos _ _ _ _ _ _ hP w' e' h
    simp only [encFeed_zero, Option.some.injEq, Prod.mk.injEq] at h
    obtain ⟨rfl, rfl⟩ := h
    exact hP
  | succ fuel ih =>
    intro w v e q σ input pos hv h hrel h1 h2 hbuf hP w' e' hfeed
    by_cases hne : input = []
    · subst hne
      simp only [encFeed_nil, Option.some.injEq, Prod.mk.injEq] at hfeed
      obtain ⟨rfl, rfl⟩ := hfeed
      exact hP
    · have hok := once_opsOk p hrel q rfl m input
      have hsrc : SrcOk w { base with off := base.off + pos, len := base.len - pos }
          (Enc.consumeOnce p e.st e.nid m input).emits := by
        intro x hx hb bs hop
        obtain ⟨hm, hpre⟩ := once_borrow_prefix p e.st e.nid m input x hx hb bs hop
        obtain ⟨b, hb1, hb2⟩ := hbuf hm
        exact ⟨b, hb1, hb2.prefix hpre⟩
      have hsmall : ∀ x ∈ (Enc.consumeOnce p e.st e.nid m input).emits, EmitSmall B x := by
        intro x hx
        refine (once_small p e.st e.nid m input x hx).mono ?_
        have hM : σ.M p = Spec.limit p σ.first := rfl
        have := limit_le_max p σ.first
        have := hrel.max
        omega
      obtain ⟨w1, v1, toks1, g1, g2, g3, g4⟩ := applyStep_sim i g _ _ w v e.toks q hv h hok hsrc
      have hP1 : P w1 toks1 := applyStep_closed hc i _ _ w w1 e.toks toks1 hsrc hsmall g1 hP
      obtain ⟨hc', hrel'⟩ := consumeOnce_sim p hp e.st e.nid q.total σ m input hrel h1
      obtain ⟨hc0, hc1, hfold⟩ := onceA_eq_fold p σ input hne h1
      rw [← hc'] at hc0 hc1 hfold
      obtain ⟨h1', h2'⟩ := fold_inv p hp (input.take (Enc.consumeOnce p e.st e.nid m input).consumed) σ h1 h2
      rw [← hfold] at h1' h2'
      have hrel'' : Rel p (Enc.consumeOnce p e.st e.nid m input).st (Enc.consumeOnce p e.st e.nid m input).nextId
          (q.run ((Enc.consumeOnce p e.st e.nid m input).emits.map (·.op))).total (onceA p σ input).1 := by
        rw [run_total]; exact hrel'
      rw [encFeed_succ p fuel w i e m base input pos hne, g1] at hfeed
      exact ih w1 v1
        ⟨(Enc.consumeOnce p e.st e.nid m input).st, (Enc.consumeOnce p e.st e.nid m input).nextId, toks1⟩
        _ _ (input.drop (Enc.consumeOnce p e.st e.nid m input).consumed)
        (pos + (Enc.consumeOnce p e.st e.nid m input).consumed) g2 g3 hrel'' h1' h2'
        (by
          intro hm
          obtain ⟨b, hb1, hb2⟩ := hbuf hm
          refine ⟨b, hb1, ?_⟩
          have := (hb2.of_exts g4).drop _ hc1
          rwa [Nat.add_assoc] at this) hP1 w' e' hfeed

/-- One call. -/
theorem encCall_closed {B : Nat} {P : World → List Backref → Prop} (hc : EncClosed B P) (p : Params) (hp : p.Valid)
    (hB : max 1 (max p.maxInit p.maxSub) ≤ B) (i : Nat) (r r' : Run) (c : Call) (input : List UInt8)
    (acc : List Emit) (hinv : RunInv p i r input acc) (hP : P r.w r.e.toks) (h : encCall p i r c = some r') :
    P r'.w r'.e.toks := by
  obtain ⟨w, e, g⟩ := r
  obtain ⟨v, q, evs, hv, hsim, hq, hev, hrel⟩ := hinv
  simp only at hv hsim hrel hP
  obtain ⟨h1, h2⟩ := fold_init_inv p hp input
  cases c with
  | feed m d =>
    cases m with
    | copy =>
      simp only [encCall, Option.map_eq_some_iff] at h
      obtain ⟨x, hx, rfl⟩ := h
      exact encFeed_closed hc p hp hB i .copy g ⟨.ext 0, 0, 0⟩ _ w v e q _ d 0 hv hsim hrel h1 h2
        (fun hm => by cases hm) hP x.1 x.2 hx
    | borrow =>
      simp only [encCall, Option.map_eq_some_iff] at h
      obtain ⟨x, hx, rfl⟩ := h
      exact encFeed_closed hc p hp hB i .borrow g ⟨.ext w.exts.length, 0, d.length⟩ _ (w.addExt d).1 v e q _ d 0
        hv (hsim.addExt d) hrel h1 h2 (fun _ => ⟨w.exts.length, rfl, InBuf.addExt w d⟩) (hc.lend w e.toks d hP) x.1 x.2 hx
  | consume k =>
    simp only [encCall, hv, Option.map_eq_some_iff] at h
    obtain ⟨x, hx, rfl⟩ := h
    exact hc.consume hx hP
  | advance k =>
    simp only [encCall, hv, Option.map_eq_some_iff] at h
    obtain ⟨x, hx, rfl⟩ := h
    exact hc.advance hx hP

theorem encCalls_closed {B : Nat} {P : World → List Backref → Prop} (hc : EncClosed B P) (p : Params) (hp : p.Valid)
    (hB : max 1 (max p.maxInit p.maxSub) ≤ B) (i : Nat) (calls : List Call) :
    ∀ (r r' : Run) (input : List UInt8) (acc : List Emit), RunInv p i r input acc → P r.w r.e.toks →
      encCalls p i r calls = some r' → P r'.w r'.e.toks := by
  induction calls with
  | nil =>
    intro r r' input acc _ hP h
    simp only [encCalls, Option.some.injEq] at h
    subst h; exact hP
  | cons c t ih =>
    intro r r' input acc hinv hP h
    obtain ⟨r1, acc1, h1, h2, _⟩ := encCall_sim p hp i r c input acc hinv
    simp only [encCalls, h1] at h
    exact ih r1 r' _ acc1 h2 (encCall_closed hc p hp hB i r r1 c input acc hinv hP h1) h

theorem srcOk_of_no_borrow {w : World} {src : Slice} {es : List Emit}
    (h : ∀ e ∈ es, e.method = .borrow → False) : SrcOk w src es :=
  fun e he hb => (h e he hb).elim

/-- `Encoder::new` and any calls: `P` holds between calls. -/
theorem encPrefix_closed {B : Nat} {P : World → List Backref → Prop} (hc : EncClosed B P) (p : Params) (hp : p.Valid)
    (hB : max 1 (max p.maxInit p.maxSub) ≤ B) (pol : Policy) (tun : Tuning) (calls : List Call) (r : Run)
    (hP : P (World.fresh pol tun) []) (h : encPrefix p pol tun calls = some r) : P r.w r.e.toks := by
  obtain ⟨w1, e1, k1, k2, _, _⟩ := encInit_sim p pol tun
  simp only [encPrefix, k1] at h
  have hP1 : P w1 e1.toks := by
    have hk := k1
    simp only [encInit] at hk
    cases h0 : applyStep (World.fresh pol tun) 0 [] (Enc.init p 0).2 ⟨.ext 0, 0, 0⟩ with
    | none => rw [h0] at hk; cases hk
    | some x =>
      obtain ⟨wa, toksa⟩ := x
      rw [h0] at hk
      simp only [Option.some.injEq, Prod.mk.injEq] at hk
      obtain ⟨rfl, rfl⟩ := hk
      refine applyStep_closed hc 0 _ _ _ _ _ _ (srcOk_of_no_borrow ?_)
        (fun e he => (init_small p e he).mono (by omega)) h0 hP
      intro e he hb
      simp only [Enc.init, List.mem_singleton] at he; subst he; cases hb
  exact encCalls_closed hc p hp hB 0 calls _ r [] _ k2 hP1 h

/-- … and `finish`. -/
theorem encRun_closed {B : Nat} {P : World → List Backref → Prop} (hc : EncClosed B P) (p : Params) (hp : p.Valid)
    (hB : max 1 (max p.maxInit p.maxSub) ≤ B) (pol : Policy) (tun : Tuning) (calls : List Call) (w' : World)
    (dr : List UInt8) (hP : P (World.fresh pol tun) []) (h : encRun p pol tun calls = some (w', dr)) :
    ∃ toks, P w' toks := by
  rw [encRun_eq] at h
  cases h1 : encPrefix p pol tun calls with
  | none => rw [h1] at h; cases h
  | some r =>
    rw [h1] at h
    simp only [encFinish, Option.map_eq_some_iff, Prod.mk.injEq] at h
    obtain ⟨wf, ⟨x, hx, rfl⟩, rfl, _⟩ := h
    have hPr := encPrefix_closed hc p hp hB pol tun calls r hP h1
    exact ⟨x.2, applyStep_closed hc 0 _ _ _ _ _ _ (srcOk_of_no_borrow (finish_no_borrow p _))
      (fun e he => (finish_small p _ e he).mono (by omega)) hx hPr⟩

/-! ### `Good` along the encoder run -/

theorem srcOk_bounds {w : World} {src : Slice} {bs : List UInt8} (h : SrcOk w src [⟨.append bs, .borrow⟩]) :
    ∃ b, src.region = .ext b ∧ src.off + bs.length ≤ (w.exts.getD b []).length := by
  obtain ⟨b, hb, pre, post, h1, h2⟩ := h ⟨.append bs, .borrow⟩ (by simp) rfl bs rfl
  refine ⟨b, hb, ?_⟩
  rw [h1]; simp; omega

theorem good_closed (B : Nat) : EncClosed B (fun w _ => Good w) where
  emit := by
    intro w w' i toks toks' e src hsrc _ h hg
    obtain ⟨op, m⟩ := e
    cases op with
    | append bs =>
      cases m with
      | copy =>
        simp only [applyEmit, Option.map_eq_some_iff, Prod.mk.injEq] at h
        obtain ⟨w1, h1, rfl, _⟩ := h
        exact hg.step (op := .pushCopy i bs) h1
      | borrow =>
        simp only [applyEmit, Option.map_eq_some_iff, Prod.mk.injEq] at h
        obtain ⟨w1, h1, rfl, _⟩ := h
        obtain ⟨b, hb, hle⟩ := srcOk_bounds hsrc
        obtain ⟨reg, off, len⟩ := src
        simp only at hb hle h1
        subst hb
        exact hg.step (op := .pushAt i b off bs.length) (by simp only [World.step, if_pos hle]; exact h1)
    | register k =>
      simp only [applyEmit] at h
      cases h1 : w.registerPatch i (List.replicate k 0) with
      | none => rw [h1] at h; cases h
      | some x =>
        obtain ⟨w1, b⟩ := x
        rw [h1] at h
        simp only [Option.some.injEq, Prod.mk.injEq] at h
        obtain ⟨rfl, _⟩ := h
        exact hg.registerPatch h1
    | fill id bs =>
      simp only [applyEmit] at h
      cases h0 : toks[id]? with
      | none => rw [h0] at h; cases h
      | some b =>
        rw [h0] at h
        simp only [Option.map_eq_some_iff, Prod.mk.injEq] at h
        obtain ⟨w1, h1, rfl, _⟩ := h
        exact hg.backfill h1
  lend := fun w _ d hg => hg.step (op := .lend d) rfl
  consume := by
    intro w w' _ i k n h hg
    exact hg.step (op := .consume i k) (by simp [World.step, h])
  advance := by
    intro w w' _ i k n h hg
    exact hg.step (op := .advance i k) (by simp [World.step, h])

theorem good_fresh (pol : Policy) (tun : Tuning) : Good (World.fresh pol tun) :=
  (good_init pol tun).step (op := .new) rfl

/-! ### Capacities of the encoder's chunks (production tuning) -/

/-- A chunk allocated by this step has capacity at most 2^20. -/
def FreshSmall (w w' : World) : Prop := ∀ h c, w'.cacheAt h = some c → w.next ≤ c.chunk → c.cap ≤ 1048576

theorem FreshSmall.of_caches {w w' : World} (hw : WorldInv w) (hc : ∀ h, w'.cacheAt h = w.cacheAt h) :
    FreshSmall w w' := by
  intro h c h1 h2
  rw [hc] at h1
  have := hw.cacheAt_lt h1; omega

/-- `WorldInv`, `ArenaInv` for a capacity ghost bounded by 2^20 on every allocated chunk, production
tuning. -/
def CapGood (w : World) : Prop :=
  w.tun = prodTuning ∧ WorldInv w ∧ ∃ caps, ArenaInv w caps ∧ ∀ k, k < w.next → caps k ≤ 1048576

theorem CapGood.good {w : World} (h : CapGood w) : Good w := by
  obtain ⟨_, hw, caps, ha, _⟩ := h
  exact ⟨hw, caps, ha⟩

theorem CapGood.astep {w w' : World} (hg : CapGood w) (ha : AStep w w') (hw' : WorldInv w') (ht : w'.tun = w.tun)
    (hf : FreshSmall w w') : CapGood w' := by
  obtain ⟨htun, hw, caps, hai, hcap⟩ := hg
  obtain ⟨caps', hold, hnew⟩ := ha.exists_caps hw hai
  refine ⟨by rw [ht, htun], hw', caps', ha.inv hw hai hold hnew, ?_⟩
  intro k hk
  by_cases hlt : k < w.next
  · rw [hold k hlt]; exact hcap k hlt
  · cases ha with
    | move o hn _ _ _ => omega
    | alloc X c' n hother hX hcase hs =>
      rcases hcase with ⟨c, _, _, _, hn⟩ | ⟨hck, _, _, hn⟩
      · omega
      · have hk' : k = c'.chunk := by omega
        rw [hk', hnew X c' hX]
        exact hf X c' hX (by omega)

theorem CapGood.quiet {w w' : World} (hg : CapGood w) (hq : Quiet w w') (hw' : WorldInv w') (ht : w'.tun = w.tun) :
    CapGood w' :=
  hg.astep hq.astep hw' ht (FreshSmall.of_caches hg.2.1 hq.2.1)

/-- A chunk that `alloc` installs for a request below 2^20 has capacity at most 2^20. -/
theorem alloc_fresh_cap_le_prod (a : Arena) (next len : Nat) (h : len < 1048576)
    (ha : ∀ c, a.cache = some c → c.chunk < next) :
    ∀ c', (alloc prodTuning a next len).1.cache = some c' → next ≤ c'.chunk → c'.cap ≤ 1048576 := by
  intro c' hc' hfresh
  unfold alloc ensureCapacity at hc'
  cases hca : a.cache with
  | none =>
    simp only [hca, Option.some.injEq] at hc'
    subst hc'
    exact findHintSize_le_prod len 0 h
  | some c =>
    simp only [hca] at hc'
    by_cases hr : c.remaining ≥ len
    · simp only [hr, if_true, hca, Option.some.injEq] at hc'
      subst hc'
      have := ha c hca
      simp only at hfresh
      omega
    · simp only [hr, if_false, Option.some.injEq] at hc'
      subst hc'
      exact findHintSize_le_prod len c.cap h

theorem CapGood.pushCopy {w w' : World} {i : Nat} {src : List UInt8} (hg : CapGood w) (hl : src.length < 1048576)
    (h : w.pushCopy i src = some w') : CapGood w' := by
  have hw := hg.2.1
  have htun := hg.1
  refine hg.astep (pushCopy_astep h) (hw.pushCopy h).1 ?_ ?_
  · obtain ⟨v, hv, ⟨_, rfl⟩ | ⟨hne, arena', next', chunk, off, v2, hal, ho, rfl⟩⟩ := pushCopy_spec h <;> rfl
  · obtain ⟨v, hv, ⟨_, rfl⟩ | ⟨hne, arena', next', chunk, off, v2, hal, ho, rfl⟩⟩ := pushCopy_spec h
    · exact FreshSmall.of_caches hw (fun _ => rfl)
    · intro hh c hc hfresh
      simp only [cacheAt_with_heap_next, cacheAt_setIov] at hc
      split at hc
      · simp only [Option.bind_some] at hc
        rw [optimize_arena ho] at hc
        simp only at hc
        rw [htun] at hal
        have : (alloc prodTuning v.arena w.next src.length).1 = arena' := by rw [hal]
        rw [← this] at hc
        exact alloc_fresh_cap_le_prod v.arena w.next src.length hl (hw.iovOk i v hv).cacheLt c hc hfresh
      · have := hw.cacheAt_lt hc; omega

theorem sliceBytes_length_le (w : World) (s : Slice) : (w.sliceBytes s).length ≤ s.len := by
  unfold World.sliceBytes
  cases s.region with
  | chunk k => simp [Woodpile.Iovec.Heap.read_length]
  | ext b => simp only [List.length_take]; omega

theorem CapGood.pushAt {w w' : World} {i b off len : Nat} (hg : CapGood w) (hl : len < 1048576)
    (hb : off + len ≤ (w.exts.getD b []).length) (h : w.push i ⟨.ext b, off, len⟩ = some w') : CapGood w' := by
  rcases push_cases h with h | h
  · refine hg.pushCopy ?_ h
    have := sliceBytes_length_le w ⟨.ext b, off, len⟩
    simp only at this; omega
  · refine hg.quiet (pushBorrowed_quiet h (Or.inl ⟨_, rfl⟩)) (hg.2.1.pushBorrowed_at h hb) ?_
    obtain ⟨v, hv, ⟨_, rfl⟩ | ⟨_, v', hp, rfl⟩⟩ := pushBorrowed_spec h <;> rfl

theorem CapGood.registerPatch {w w' : World} {i : Nat} {pat : List UInt8} {b : Backref} (hg : CapGood w)
    (hl : pat.length < 1048576) (h : w.registerPatch i pat = some (w', b)) : CapGood w' := by
  have hw' := hg.2.1.registerPatch h
  rcases registerPatch_spec h with ⟨_, rfl, _⟩ | ⟨_, w1, v, last, hpc, hv, _, _, _, _, rfl⟩
  · exact hg
  · have h1 := hg.pushCopy hl hpc
    refine h1.quiet (quiet_setIov_same hv rfl ?_) hw' rfl
    intro s hs
    exact World.HasSlice.derived (Or.inl ⟨i, v, hv, hs⟩)

theorem backfill_quiet {w w' : World} {i : Nat} {b : Backref} {src : List UInt8}
    (h : w.backfill i b src = some w') : Quiet w w' := by
  obtain ⟨v, hv, ⟨_, _, rfl⟩ | ⟨key, info, target, k, _, _, _, _, _, _, _, rfl⟩⟩ := backfill_spec h
  · exact Quiet.refl _
  · refine ⟨rfl, ?_, ?_⟩
    · intro h
      show (w.setIov i _).cacheAt h = _
      simp only [cacheAt_setIov]
      split
      · rename_i e; subst e; simp [cacheAt_iov hv]
      · rfl
    · intro s hs
      have hs' : (w.setIov i (some { v with backrefs := _ })).HasSlice s := hs
      rcases hasSlice_setIov hs' with ⟨x, hx, hm⟩ | h0
      · cases hx; exact World.HasSlice.derived (Or.inl ⟨i, v, hv, hm⟩)
      · exact h0.derived

theorem consume_quiet {w w' : World} {i count k : Nat} (h : w.consume i count = some (w', k)) : Quiet w w' := by
  obtain ⟨v, n, v', hv, _, hc, rfl⟩ := consume_spec h
  obtain ⟨h1, h2⟩ := consumeSlices_arena hc
  exact quiet_setIov_same hv h1 (fun s' hs' => World.HasSlice.derived (Or.inl ⟨i, v, hv, h2 s' hs'⟩))

/-- Every step of an encoder run with valid parameters (so every request is at most
`max maxInit maxSub ≤ 64008 < 2^20`) preserves `CapGood`. -/
theorem capGood_closed : EncClosed 64008 (fun w _ => CapGood w) where
  emit := by
    intro w w' i toks toks' e src hsrc hsm h hg
    obtain ⟨op, m⟩ := e
    cases op with
    | append bs =>
      have hlen : bs.length ≤ 64008 := hsm.1 bs rfl
      cases m with
      | copy =>
        simp only [applyEmit, Option.map_eq_some_iff, Prod.mk.injEq] at h
        obtain ⟨w1, h1, rfl, _⟩ := h
        exact hg.pushCopy (by omega) h1
      | borrow =>
        simp only [applyEmit, Option.map_eq_some_iff, Prod.mk.injEq] at h
        obtain ⟨w1, h1, rfl, _⟩ := h
        obtain ⟨b, hb, hle⟩ := srcOk_bounds hsrc
        obtain ⟨reg, off, len⟩ := src
        simp only at hb hle h1
        subst hb
        exact hg.pushAt (by omega) hle h1
    | register k =>
      have hk : k ≤ 2 := hsm.2 k rfl
      simp only [applyEmit] at h
      cases h1 : w.registerPatch i (List.replicate k 0) with
      | none => rw [h1] at h; cases h
      | some x =>
        obtain ⟨w1, b⟩ := x
        rw [h1] at h
        simp only [Option.some.injEq, Prod.mk.injEq] at h
        obtain ⟨rfl, _⟩ := h
        exact hg.registerPatch (by simp; omega) h1
    | fill id bs =>
      simp only [applyEmit] at h
      cases h0 : toks[id]? with
      | none => rw [h0] at h; cases h
      | some b =>
        rw [h0] at h
        simp only [Option.map_eq_some_iff, Prod.mk.injEq] at h
        obtain ⟨w1, h1, rfl, _⟩ := h
        refine hg.quiet (backfill_quiet h1) (hg.2.1.backfill h1) ?_
        obtain ⟨v, hv, ⟨_, _, rfl⟩ | ⟨key, info, target, k, _, _, _, _, _, _, _, rfl⟩⟩ := backfill_spec h1 <;> rfl
  lend := fun w _ d hg => hg.quiet (quiet_with_exts w _) (hg.2.1.with_exts [d]) rfl
  consume := by
    intro w w' _ i k n h hg
    refine hg.quiet (consume_quiet h) (hg.2.1.consume h) ?_
    obtain ⟨v, n, v', hv, _, hc, rfl⟩ := consume_spec h; rfl
  advance := by
    intro w w' _ i k n h hg
    refine hg.quiet (advance_quiet h) (hg.2.1.advance h) ?_
    obtain ⟨v, n, v', k, hv, _, hc, rfl⟩ := advance_spec h; rfl

theorem capGood_fresh (pol : Policy) : CapGood (World.fresh pol prodTuning) := by
  obtain ⟨hw, caps, ha⟩ := good_fresh pol prodTuning
  refine ⟨rfl, hw, caps, ha, ?_⟩
  intro k hk
  exact absurd hk (by simp [World.fresh, World.addIov, World.init])

theorem valid_max_le (p : Params) (hp : p.Valid) : max 1 (max p.maxInit p.maxSub) ≤ 64008 := by
  obtain ⟨h1, h2, h3, h4, h5, h6⟩ := hp
  have : p.radix * p.radix ≤ 253 * 253 := Nat.mul_le_mul h6 h6
  omega

/-- Between calls of an encoder run (valid parameters, production arena tuning, any policy, any
calls, any drain schedule): every owned slice of the encoder's iovec ends within 2^20 bytes of the
start of its chunk. -/
theorem enc_slices_in_cap (p : Params) (hp : p.Valid) (pol : Policy) (calls : List Call) (r : Run)
    (h : encPrefix p pol prodTuning calls = some r) :
    Good r.w ∧ ∀ v, r.w.iov 0 = some v → ∀ s ∈ v.slices, ∀ c, s.region = .chunk c → s.off + s.len ≤ 1048576 := by
  have hg := encPrefix_closed capGood_closed p hp (valid_max_le p hp) pol prodTuning calls r (capGood_fresh pol) h
  refine ⟨hg.good, ?_⟩
  obtain ⟨_, hw, caps, ha, hcap⟩ := hg
  intro v hv s hs c hc
  have hsl : r.w.HasSlice s := Or.inl ⟨0, v, hv, hs⟩
  have h1 := ha.inCap s c hsl hc
  have h2 := hcap c (hw.hasSlice_lt hsl hc)
  omega

/-! ### The encoder run, literally, as a `WOp` history

The encoder keeps the tokens `register_patch` returned in its own list (`EncW.toks`) and hands them
back by value; the `WOp` vocabulary keeps them in the world's handle table.  With the table set to the
encoder's list (`World.wb`), every emit, every lent buffer and every drain is ONE `World.step`. -/

/-- `w`, with `toks` as its handle table, is the world after some `WOp` history from `World.init`. -/
def Lit (pol : Policy) (tun : Tuning) (w : World) (toks : List Backref) : Prop :=
  ∃ wops, (World.init pol tun).run wops = some (w.wb toks)

theorem Lit.step {pol : Policy} {tun : Tuning} {w w' : World} {toks toks' : List Backref} {op : WOp}
    (h : Lit pol tun w toks) (hs : (w.wb toks).step op = some (w'.wb toks')) : Lit pol tun w' toks' := by
  obtain ⟨wops, hr⟩ := h
  exact ⟨wops ++ [op], run_append_some hr (run_one hs)⟩

theorem lit_closed (pol : Policy) (tun : Tuning) (B : Nat) : EncClosed B (Lit pol tun) where
  emit := by
    intro w w' i toks toks' e src hsrc _ h hl
    obtain ⟨op, m⟩ := e
    cases op with
    | append bs =>
      cases m with
      | copy =>
        simp only [applyEmit, Option.map_eq_some_iff, Prod.mk.injEq] at h
        obtain ⟨w1, h1, rfl, rfl⟩ := h
        refine hl.step (op := .pushCopy i bs) ?_
        show (w.wb toks).pushCopy i bs = _
        rw [pushCopy_wb, h1]; rfl
      | borrow =>
        simp only [applyEmit, Option.map_eq_some_iff, Prod.mk.injEq] at h
        obtain ⟨w1, h1, rfl, rfl⟩ := h
        obtain ⟨b, hb, hle⟩ := srcOk_bounds hsrc
        obtain ⟨reg, off, len⟩ := src
        simp only at hb hle h1
        subst hb
        refine hl.step (op := .pushAt i b off bs.length) ?_
        have hle' : off + bs.length ≤ ((w.wb toks).exts.getD b []).length := hle
        simp only [World.step, if_pos hle']
        rw [push_wb, h1]; rfl
    | register k =>
      simp only [applyEmit] at h
      cases h1 : w.registerPatch i (List.replicate k 0) with
      | none => rw [h1] at h; cases h
      | some x =>
        obtain ⟨w1, b⟩ := x
        rw [h1] at h
        simp only [Option.some.injEq, Prod.mk.injEq] at h
        obtain ⟨rfl, rfl⟩ := h
        refine hl.step (op := .register i (List.replicate k 0)) ?_
        simp only [World.step]
        rw [registerPatch_wb, h1]
        rfl
    | fill id bs =>
      simp only [applyEmit] at h
      cases h0 : toks[id]? with
      | none => rw [h0] at h; cases h
      | some b =>
        rw [h0] at h
        simp only [Option.map_eq_some_iff, Prod.mk.injEq] at h
        obtain ⟨w1, h1, rfl, rfl⟩ := h
        have hid : id < toks.length := by
          rcases Nat.lt_or_ge id toks.length with h2 | h2
          · exact h2
          · rw [List.getElem?_eq_none h2] at h0; cases h0
        have hget : toks.getD id none = b := by
          rw [List.getD_eq_getElem?_getD, h0]; rfl
        refine hl.step (op := .backfill i id bs) ?_
        simp only [World.step, wb_brefs, if_pos hid, hget]
        rw [backfill_wb, h1]; rfl
  lend := by
    intro w toks d hl
    exact hl.step (op := .lend d) rfl
  consume := by
    intro w w' toks i k n h hl
    refine hl.step (op := .consume i k) ?_
    simp only [World.step]
    rw [consume_wb, h]; rfl
  advance := by
    intro w w' toks i k n h hl
    refine hl.step (op := .advance i k) ?_
    simp only [World.step]
    rw [advance_wb, h]; rfl

theorem lit_fresh (pol : Policy) (tun : Tuning) : Lit pol tun (World.fresh pol tun) [] :=
  ⟨[.new], rfl⟩

/-- Between calls of ANY encoder run: the world, with the encoder's token list as handle table, is
literally the world after a `WOp` history from `World.init` — so every theorem about `Reachable`
worlds (C05, C10, C20) applies to it as stated. -/
theorem enc_prefix_is_wrun (p : Params) (hp : p.Valid) (pol : Policy) (tun : Tuning) (calls : List Call) (r : Run)
    (h : encPrefix p pol tun calls = some r) :
    ∃ wops, (World.init pol tun).run wops = some (r.w.wb r.e.toks) :=
  encPrefix_closed (lit_closed pol tun _) p hp (Nat.le_refl _) pol tun calls r (lit_fresh pol tun) h

/-- … and after `finish`. -/
theorem enc_run_is_wrun (p : Params) (hp : p.Valid) (pol : Policy) (tun : Tuning) (calls : List Call) (w' : World)
    (dr : List UInt8) (h : encRun p pol tun calls = some (w', dr)) :
    ∃ toks wops, (World.init pol tun).run wops = some (w'.wb toks) :=
  encRun_closed (lit_closed pol tun _) p hp (Nat.le_refl _) pol tun calls w' dr (lit_fresh pol tun) h

end Woodpile.EncWorld

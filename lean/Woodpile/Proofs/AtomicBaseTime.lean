/-
Helper lemmas for C13 / C18 (`Woodpile.Abt`).
-/
import Woodpile.Model.AtomicBaseTime

namespace Woodpile.Abt

theorem snapshot_no_lock_aux (chk : Nat → Nat → Bool) (th : Local) (h : th.pc.inSnap = true) :
    (∃ l o, th.next = .load l o) ∧
    ∀ val, (th.feedLoad chk val).pc.inSnap = true ∨ (th.feedLoad chk val).pc = .retSnap ∨
      (th.feedLoad chk val).pc = .sPanic := by
  obtain ⟨pc, ub, uv, sq, bits, base⟩ := th
  cases pc <;> simp [Pc.inSnap] at h <;> simp [Local.next, Local.feedLoad, Pc.inSnap]
  · intro val
    by_cases h1 : sq = val <;> by_cases h2 : chk base bits = true <;> simp [h1, h2]

@[simp] theorem upd_same {α β : Type} [DecidableEq α] (f : α → β) (a : α) (x : β) : upd f a x a = x := by
  simp [upd]
theorem upd_ne {α β : Type} [DecidableEq α] (f : α → β) (a : α) (x : β) {i : α} (h : i ≠ a) :
    upd f a x i = f i := by simp [upd, h]

theorem odd_succ (n : Nat) : odd (n + 1) = !odd n := by
  unfold odd
  rcases Nat.mod_two_eq_zero_or_one n with h | h <;> simp [Nat.add_mod, h]

theorem odd_succ_ne (n : Nat) : odd (n + 1) ≠ odd n := by
  rw [odd_succ]; cases odd n <;> simp

theorem sorted_get {h : List (Nat × Nat)} (hs : h.Pairwise (fun a b => a.1 ≤ b.1)) {k m : Nat}
    {p q : Nat × Nat} (hk : h[k]? = some p) (hm : h[m]? = some q) (hkm : k ≤ m) : p.1 ≤ q.1 := by
  rcases Nat.eq_or_lt_of_le hkm with rfl | hlt
  · rw [hk] at hm; cases hm; exact Nat.le_refl _
  · rw [List.pairwise_iff_getElem] at hs
    obtain ⟨hk1, hk2⟩ := List.getElem?_eq_some_iff.mp hk
    obtain ⟨hm1, hm2⟩ := List.getElem?_eq_some_iff.mp hm
    have := hs k m hk1 hm1 hlt
    rw [hk2, hm2] at this; exact this

namespace SC

/-- Writer-side facts, by program counter (only meaningful for the lock holder). -/
def WInv (chk : Nat → Nat → Bool) (mem : Loc → Nat) (th : Local) : Prop :=
  match th.pc with
  | .aV | .aB => th.sq = mem .seq
  | .aStB => th.sq = mem .seq ∧ chk th.ub th.uv = true ∧ mem (.b (odd (mem .seq))) ≤ th.ub
  | .aStV => th.sq = mem .seq ∧ chk th.ub th.uv = true ∧ mem (.b (odd (mem .seq))) ≤ th.ub ∧
      mem (.b (odd (mem .seq + 1))) = th.ub
  | .aStSeq => th.sq = mem .seq ∧ chk th.ub th.uv = true ∧ mem (.b (odd (mem .seq))) ≤ th.ub ∧
      mem (.b (odd (mem .seq + 1))) = th.ub ∧ mem (.v (odd (mem .seq + 1))) = th.uv
  | _ => True

/-- Reader-side facts, by program counter (`st` = number of updates published when the snapshot began). -/
def RInv (mem : Loc → Nat) (st : Nat) (th : Local) : Prop :=
  match th.pc with
  | .sSeq => st ≤ mem .seq
  | .sV => st ≤ th.sq ∧ th.sq ≤ mem .seq
  | .sB => st ≤ th.sq ∧ th.sq ≤ mem .seq ∧
      (th.sq = mem .seq → th.bits = mem (.v (odd (mem .seq))))
  | .sSeq2 => st ≤ th.sq ∧ th.sq ≤ mem .seq ∧
      (th.sq = mem .seq → th.bits = mem (.v (odd (mem .seq))) ∧ th.base = mem (.b (odd (mem .seq))))
  | .sPanic => False
  | _ => True

/-- Facts about the snapshots a thread has returned so far (most recent first). -/
def LInv (n : Nat) (hist : List (Nat × Nat)) (st : Nat) (lg : List (Nat × Nat)) (th : Local) : Prop :=
  lg.Pairwise (fun a b => b.1 ≤ a.1) ∧
  (∀ p ∈ lg, ∃ k, k ≤ (if th.pc.inSnap then st else n) ∧ hist[k]? = some p) ∧
  (th.pc = .retSnap → (th.base, th.bits) ∈ lg ∧ ∃ k, st ≤ k ∧ k ≤ n ∧ hist[k]? = some (th.base, th.bits))

structure Inv (chk : Nat → Nat → Bool) (s : State) : Prop where
  len : s.hist.length = s.mem .seq + 1
  cur : s.hist[s.mem .seq]? = some (s.mem (.b (odd (s.mem .seq))), s.mem (.v (odd (s.mem .seq))))
  chkAll : ∀ p ∈ s.hist, chk p.1 p.2 = true
  sorted : s.hist.Pairwise (fun a b => a.1 ≤ b.1)
  lock : ∀ t, (s.thr t).pc.inCS = true ↔ s.held = some t
  writer : ∀ t, s.held = some t → WInv chk s.mem (s.thr t)
  reader : ∀ t, RInv s.mem (s.start t) (s.thr t)
  logs : ∀ t, LInv (s.mem .seq) s.hist (s.start t) (s.log t) (s.thr t)

theorem inv_init (chk : Nat → Nat → Bool) (v0 : Nat) (h0 : chk 0 v0 = true) : Inv chk (init v0) := by
  refine ⟨rfl, rfl, ?_, ?_, ?_, ?_, ?_, ?_⟩
  · intro p hp; simp [init] at hp; subst hp; exact h0
  · simp [init]
  · intro t; simp [init, Pc.inCS]
  · intro t h; simp [init] at h
  · intro t; simp [RInv, init]
  · intro t; simp [LInv, init]

/-- A step that only changes thread `t`'s locals, its log and its `start` (and `poisoned`). -/
theorem inv_local {chk : Nat → Nat → Bool} {s s' : State} (hI : Inv chk s) (t : Nat)
    (hmem : s'.mem = s.mem) (hhist : s'.hist = s.hist) (hheld : s'.held = s.held)
    (hfr : ∀ t', t' ≠ t → s'.thr t' = s.thr t' ∧ s'.log t' = s.log t' ∧ s'.start t' = s.start t')
    (hcs : (s'.thr t).pc.inCS = (s.thr t).pc.inCS)
    (hw : s.held = some t → WInv chk s.mem (s'.thr t))
    (hr : RInv s.mem (s'.start t) (s'.thr t))
    (hl : LInv (s.mem .seq) s.hist (s'.start t) (s'.log t) (s'.thr t)) :
    Inv chk s' := by
  refine ⟨by rw [hmem, hhist]; exact hI.len, by rw [hmem, hhist]; exact hI.cur,
    by rw [hhist]; exact hI.chkAll, by rw [hhist]; exact hI.sorted, ?_, ?_, ?_, ?_⟩
  · intro t'; rw [hheld]; by_cases ht : t' = t
    · subst ht; rw [hcs]; exact hI.lock t'
    · rw [(hfr t' ht).1]; exact hI.lock t'
  · intro t' h; rw [hheld] at h; rw [hmem]; by_cases ht : t' = t
    · subst ht; exact hw h
    · rw [(hfr t' ht).1]; exact hI.writer t' h
  · intro t'; rw [hmem]; by_cases ht : t' = t
    · subst ht; exact hr
    · rw [(hfr t' ht).1, (hfr t' ht).2.2]; exact hI.reader t'
  · intro t'; rw [hmem, hhist]; by_cases ht : t' = t
    · subst ht; exact hl
    · rw [(hfr t' ht).1, (hfr t' ht).2.2, (hfr t' ht).2.1]; exact hI.logs t'

/-- A step by `t` that acquires or releases the lock (memory unchanged). -/
theorem inv_held {chk : Nat → Nat → Bool} {s s' : State} (hI : Inv chk s) (t : Nat)
    (hmem : s'.mem = s.mem) (hhist : s'.hist = s.hist)
    (hfr : ∀ t', t' ≠ t → s'.thr t' = s.thr t' ∧ s'.log t' = s.log t' ∧ s'.start t' = s.start t')
    (hold : s.held = none ∨ s.held = some t) (hnew : s'.held = none ∨ s'.held = some t)
    (hcs : (s'.thr t).pc.inCS = true ↔ s'.held = some t)
    (hw : s'.held = some t → WInv chk s.mem (s'.thr t))
    (hr : RInv s.mem (s'.start t) (s'.thr t))
    (hl : LInv (s.mem .seq) s.hist (s'.start t) (s'.log t) (s'.thr t)) :
    Inv chk s' := by
  refine ⟨by rw [hmem, hhist]; exact hI.len, by rw [hmem, hhist]; exact hI.cur,
    by rw [hhist]; exact hI.chkAll, by rw [hhist]; exact hI.sorted, ?_, ?_, ?_, ?_⟩
  · intro t'; by_cases ht : t' = t
    · subst ht; exact hcs
    · rw [(hfr t' ht).1]
      have h1 := hI.lock t'
      have h2 : s.held ≠ some t' := by
        rcases hold with h | h <;> rw [h] <;> simp <;> exact fun h => ht h.symm
      have h3 : s'.held ≠ some t' := by
        rcases hnew with h | h <;> rw [h] <;> simp <;> exact fun h => ht h.symm
      constructor
      · intro h; exact absurd (h1.1 h) h2
      · intro h; exact absurd h h3
  · intro t' h; rw [hmem]; by_cases ht : t' = t
    · subst ht; exact hw h
    · rcases hnew with h' | h' <;> rw [h'] at h <;> simp at h
      exact absurd h.symm ht
  · intro t'; rw [hmem]; by_cases ht : t' = t
    · subst ht; exact hr
    · rw [(hfr t' ht).1, (hfr t' ht).2.2]; exact hI.reader t'
  · intro t'; rw [hmem, hhist]; by_cases ht : t' = t
    · subst ht; exact hl
    · rw [(hfr t' ht).1, (hfr t' ht).2.2, (hfr t' ht).2.1]; exact hI.logs t'

theorem RInv_frame {mem mem' : Loc → Nat} {st : Nat} {th : Local}
    (h0 : mem' .seq = mem .seq) (h1 : mem' (.b (odd (mem .seq))) = mem (.b (odd (mem .seq))))
    (h2 : mem' (.v (odd (mem .seq))) = mem (.v (odd (mem .seq)))) (h : RInv mem st th) : RInv mem' st th := by
  unfold RInv at *
  rw [h0, h1, h2]; exact h

theorem RInv_seq {mem mem' : Loc → Nat} {st : Nat} {th : Local}
    (h0 : mem' .seq = mem .seq + 1) (h : RInv mem st th) : RInv mem' st th := by
  unfold RInv at *
  rw [h0]
  split <;> simp_all <;> omega

theorem LInv_seq {n : Nat} {hist : List (Nat × Nat)} {st : Nat} {lg : List (Nat × Nat)} {th : Local}
    (x : Nat × Nat) (h : LInv n hist st lg th) : LInv (n + 1) (hist ++ [x]) st lg th := by
  have happ : ∀ (k : Nat) (p : Nat × Nat), hist[k]? = some p → (hist ++ [x])[k]? = some p := by
    intro k p hk2
    have : k < hist.length := (List.getElem?_eq_some_iff.mp hk2).1
    rw [List.getElem?_append_left this]; exact hk2
  refine ⟨h.1, ?_, ?_⟩
  · intro p hp
    obtain ⟨k, hk1, hk2⟩ := h.2.1 p hp
    refine ⟨k, ?_, happ k p hk2⟩
    split at hk1 <;> simp_all <;> omega
  · intro hpc
    obtain ⟨hm, k, hk1, hk2, hk3⟩ := h.2.2 hpc
    exact ⟨hm, k, hk1, by omega, happ k _ hk3⟩

/-- The holder stores one word of the slot that is not the stable one. -/
theorem inv_slot {chk : Nat → Nat → Bool} {s s' : State} (hI : Inv chk s) (t : Nat) (l : Loc) (val : Nat)
    (hl : l = .b (odd (s.mem .seq + 1)) ∨ l = .v (odd (s.mem .seq + 1)))
    (hmem : s'.mem = upd s.mem l val) (hhist : s'.hist = s.hist) (hheld : s'.held = s.held)
    (hh : s.held = some t)
    (hfr : ∀ t', t' ≠ t → s'.thr t' = s.thr t' ∧ s'.log t' = s.log t' ∧ s'.start t' = s.start t')
    (hcs : (s'.thr t).pc.inCS = true)
    (hw : WInv chk s'.mem (s'.thr t))
    (hr : RInv s.mem (s'.start t) (s'.thr t))
    (hlg : LInv (s.mem .seq) s.hist (s'.start t) (s'.log t) (s'.thr t)) :
    Inv chk s' := by
  have hne := odd_succ_ne (s.mem .seq)
  have h0 : s'.mem .seq = s.mem .seq := by
    rw [hmem]; rcases hl with h | h <;> subst h <;> simp [upd]
  have h1 : s'.mem (.b (odd (s.mem .seq))) = s.mem (.b (odd (s.mem .seq))) := by
    rw [hmem]; rcases hl with h | h <;> subst h <;> simp [upd, hne.symm]
  have h2 : s'.mem (.v (odd (s.mem .seq))) = s.mem (.v (odd (s.mem .seq))) := by
    rw [hmem]; rcases hl with h | h <;> subst h <;> simp [upd, hne.symm]
  refine ⟨by rw [h0, hhist]; exact hI.len, by rw [h0, h1, h2, hhist]; exact hI.cur,
    by rw [hhist]; exact hI.chkAll, by rw [hhist]; exact hI.sorted, ?_, ?_, ?_, ?_⟩
  · intro t'; rw [hheld]; by_cases ht : t' = t
    · subst ht; simp [hcs, hh]
    · rw [(hfr t' ht).1]; exact hI.lock t'
  · intro t' h; rw [hheld, hh] at h; simp at h; subst h; exact hw
  · intro t'; by_cases ht : t' = t
    · subst ht; exact RInv_frame h0 h1 h2 hr
    · rw [(hfr t' ht).1, (hfr t' ht).2.2]; exact RInv_frame h0 h1 h2 (hI.reader t')
  · intro t'; rw [h0, hhist]; by_cases ht : t' = t
    · subst ht; exact hlg
    · rw [(hfr t' ht).1, (hfr t' ht).2.2, (hfr t' ht).2.1]; exact hI.logs t'

/-- The holder publishes: `sequence.store(next, Release)`. -/
theorem inv_seq {chk : Nat → Nat → Bool} {s s' : State} (hI : Inv chk s) (t : Nat) (ub uv : Nat)
    (hmem : s'.mem = upd s.mem .seq (s.mem .seq + 1)) (hhist : s'.hist = s.hist ++ [(ub, uv)])
    (hheld : s'.held = s.held) (hh : s.held = some t)
    (hfr : ∀ t', t' ≠ t → s'.thr t' = s.thr t' ∧ s'.log t' = s.log t' ∧ s'.start t' = s.start t')
    (hlog : s'.log t = s.log t) (hstart : s'.start t = s.start t)
    (hpc : (s'.thr t).pc = .aUnlock true) (hpc0 : (s.thr t).pc = .aStSeq)
    (hchk : chk ub uv = true) (hle : s.mem (.b (odd (s.mem .seq))) ≤ ub)
    (hb : s.mem (.b (odd (s.mem .seq + 1))) = ub) (hv : s.mem (.v (odd (s.mem .seq + 1))) = uv) :
    Inv chk s' := by
  have h0 : s'.mem .seq = s.mem .seq + 1 := by rw [hmem]; simp
  have h1 : ∀ o, s'.mem (.b o) = s.mem (.b o) := by intro o; rw [hmem]; simp [upd]
  have h2 : ∀ o, s'.mem (.v o) = s.mem (.v o) := by intro o; rw [hmem]; simp [upd]
  have hlen := hI.len
  refine ⟨?_, ?_, ?_, ?_, ?_, ?_, ?_, ?_⟩
  · rw [h0, hhist]; simp [hlen]
  · rw [h0, h1, h2, hhist, hb, hv]
    rw [List.getElem?_append_right (by omega)]; simp [hlen]
  · intro p hp; rw [hhist] at hp; simp at hp
    rcases hp with hp | hp
    · exact hI.chkAll p hp
    · subst hp; exact hchk
  · rw [hhist, List.pairwise_append]
    refine ⟨hI.sorted, by simp, ?_⟩
    intro p hp q hq; simp at hq; subst hq
    obtain ⟨k, hk, hkp⟩ := List.getElem_of_mem hp
    have hk' : s.hist[k]? = some p := by rw [List.getElem?_eq_getElem hk, hkp]
    have := sorted_get hI.sorted hk' hI.cur (by omega)
    simp at this ⊢; omega
  · intro t'; rw [hheld]; by_cases ht : t' = t
    · subst ht; simp [hpc, Pc.inCS, hh]
    · rw [(hfr t' ht).1]; exact hI.lock t'
  · intro t' h; rw [hheld, hh] at h; simp at h; subst h; simp [WInv, hpc]
  · intro t'; by_cases ht : t' = t
    · subst ht; simp [RInv, hpc]
    · rw [(hfr t' ht).1, (hfr t' ht).2.2]; exact RInv_seq h0 (hI.reader t')
  · intro t'; rw [h0, hhist]; by_cases ht : t' = t
    · subst ht
      have := LInv_seq (ub, uv) (hI.logs t')
      rw [hlog, hstart]
      simpa [LInv, hpc, hpc0, Pc.inSnap] using this
    · rw [(hfr t' ht).1, (hfr t' ht).2.2, (hfr t' ht).2.1]; exact LInv_seq _ (hI.logs t')

theorem inv_step (chk : Nat → Nat → Bool) (s s' : State) (l : Label) (hI : Inv chk s)
    (hs : step chk s l = some s') : Inv chk s' := by
  cases l with
  | sync t u => simp [step] at hs; subst hs; exact hI
  | start t op =>
    simp only [step] at hs
    split at hs
    · rename_i hterm
      simp at hs; subst hs
      have hncs : (s.thr t).pc.inCS = false := by
        revert hterm; cases (s.thr t).pc <;> simp [Pc.terminal, Pc.inCS]
      have hnsn : (s.thr t).pc.inSnap = false := by
        revert hterm; cases (s.thr t).pc <;> simp [Pc.terminal, Pc.inSnap]
      have hheld : s.held ≠ some t := by
        intro h; have := (hI.lock t).2 h; simp [hncs] at this
      refine inv_local hI t (by rfl) (by rfl) (by rfl) ?_ ?_ ?_ ?_ ?_
      · intro t' ht; simp [upd_ne _ _ _ ht]
      · rw [hncs]; cases op <;> simp [Local.start, Pc.inCS]
      · intro h; exact absurd h hheld
      · cases op <;> simp [Local.start, RInv, hI.len]
      · obtain ⟨hl1, hl2, _⟩ := hI.logs t
        simp only [hnsn] at hl2
        cases op <;> simp [Local.start, LInv, Pc.inSnap, hI.len] <;> exact ⟨hl1, by simpa using hl2⟩
    · simp at hs
  | run t ts =>
    simp only [step] at hs
    have hlk := hI.lock t; have hwr := hI.writer t; have hrd := hI.reader t; have hlg := hI.logs t
    generalize hth : s.thr t = th at hs hlk hwr hrd hlg
    obtain ⟨pc, ub, uv, sq, bits, base⟩ := th
    cases pc <;> simp only [Local.next] at hs
    case idle => simp at hs
    case retSnap => simp at hs
    case retBool => simp at hs
    case sPanic => simp at hs
    case aPanic => simp at hs
    case sSeq | sV | sB | aSeq | aV =>
      simp at hs; subst hs
      simp [WInv, RInv, LInv, Pc.inCS, Pc.inSnap] at hlk hwr hrd hlg
      refine inv_local hI t (by rfl) (by rfl) (by rfl) ?_ ?_ ?_ ?_ ?_
      · intro t' ht; simp [upd_ne _ _ _ ht]
      · simp [hth, Local.feedLoad, Pc.inCS]
      · intro h; simp [Local.feedLoad, WInv] <;> (first | omega | grind)
      · simp [Local.feedLoad, RInv] <;> (first | omega | grind)
      · simp [Local.feedLoad, LInv, logOf, Pc.inSnap] <;> (first | exact hlg | grind)
    case aB =>
      simp at hs; subst hs
      simp [WInv, RInv, LInv, Pc.inCS, Pc.inSnap] at hlk hwr hrd hlg
      by_cases h1 : ub < s.mem (.b (odd sq)) <;> by_cases h2 : chk ub uv = true <;>
      ( refine inv_local hI t (by rfl) (by rfl) (by rfl) ?_ ?_ ?_ ?_ ?_
        · intro t' ht; simp [upd_ne _ _ _ ht]
        · simp [hth, Local.feedLoad, h1, h2, Pc.inCS]
        · intro h; simp [Local.feedLoad, h1, h2, WInv] <;> grind
        · simp [Local.feedLoad, h1, h2, RInv]
        · simp [Local.feedLoad, h1, h2, logOf, LInv, Pc.inSnap] <;> exact hlg )
    case sSeq2 =>
      simp at hs; subst hs
      simp [WInv, RInv, LInv, Pc.inCS, Pc.inSnap] at hlk hwr hrd hlg
      have hcur := hI.cur
      have hsorted := hI.sorted
      obtain ⟨hr1, hr2, hr3⟩ := hrd
      by_cases h1 : sq = s.mem .seq
      · obtain ⟨hb, hv⟩ := hr3 h1
        have h2 : chk base bits = true := by
          have := hI.chkAll _ (List.mem_of_getElem? hcur)
          rw [hb, hv]; exact this
        subst hb hv
        refine inv_local hI t (by rfl) (by rfl) (by rfl) ?_ ?_ ?_ ?_ ?_
        · intro t' ht; simp [upd_ne _ _ _ ht]
        · simp [hth, Local.feedLoad, h1, h2, Pc.inCS]
        · intro h; simp [Local.feedLoad, h1, h2, WInv]
        · simp [Local.feedLoad, h1, h2, RInv]
        · simp [Local.feedLoad, h1, h2, logOf, LInv, Pc.inSnap]
          refine ⟨⟨?_, hlg.1⟩, ⟨⟨s.mem .seq, Nat.le_refl _, hcur⟩, ?_⟩, ⟨s.mem .seq, by omega, Nat.le_refl _, hcur⟩⟩
          · intro a b hab
            obtain ⟨k, hk1, hk2⟩ := hlg.2 a b hab
            exact sorted_get hsorted hk2 hcur (by omega)
          · intro a b hab
            obtain ⟨k, hk1, hk2⟩ := hlg.2 a b hab
            exact ⟨k, by omega, hk2⟩
      · refine inv_local hI t (by rfl) (by rfl) (by rfl) ?_ ?_ ?_ ?_ ?_
        · intro t' ht; simp [upd_ne _ _ _ ht]
        · simp [hth, Local.feedLoad, h1, Pc.inCS]
        · intro h; simp [Local.feedLoad, h1, WInv]
        · simp [Local.feedLoad, h1, RInv]; omega
        · simp [Local.feedLoad, h1, logOf, LInv, Pc.inSnap]; exact hlg
    case uClear | tClear =>
      simp at hs; subst hs
      simp [WInv, RInv, LInv, Pc.inCS, Pc.inSnap] at hlk hwr hrd hlg
      refine inv_local hI t (by rfl) (by rfl) (by rfl) ?_ ?_ ?_ ?_ ?_
      · intro t' ht; simp [upd_ne _ _ _ ht]
      · simp [hth, Local.feedUnit, Pc.inCS]
      · intro h; simp [Local.feedUnit, WInv]
      · simp [Local.feedUnit, RInv]
      · simp [Local.feedUnit, LInv, Pc.inSnap] <;> exact hlg
    case uLock =>
      simp [WInv, RInv, LInv, Pc.inCS, Pc.inSnap] at hlk hwr hrd hlg
      by_cases hh : s.held = none
      · simp [hh] at hs; subst hs
        refine inv_held hI t (by rfl) (by rfl) ?_ (Or.inl hh) (Or.inr (by rfl)) ?_ ?_ ?_ ?_
        · intro t' ht; simp [upd_ne _ _ _ ht]
        · cases s.poisoned <;> simp [Local.feedLock, Pc.inCS]
        · intro h; cases s.poisoned <;> simp [Local.feedLock, WInv]
        · cases s.poisoned <;> simp [Local.feedLock, RInv]
        · cases s.poisoned <;> simp [Local.feedLock, LInv, Pc.inSnap] <;> exact hlg
      · simp [hh] at hs
    case tTry =>
      simp [WInv, RInv, LInv, Pc.inCS, Pc.inSnap] at hlk hwr hrd hlg
      by_cases hh : s.held = none
      · simp [hh] at hs; subst hs
        refine inv_held hI t (by rfl) (by rfl) ?_ (Or.inl hh) (Or.inr (by rfl)) ?_ ?_ ?_ ?_
        · intro t' ht; simp [upd_ne _ _ _ ht]
        · cases s.poisoned <;> simp [Local.feedLock, Pc.inCS]
        · intro h; cases s.poisoned <;> simp [Local.feedLock, WInv]
        · cases s.poisoned <;> simp [Local.feedLock, RInv]
        · cases s.poisoned <;> simp [Local.feedLock, LInv, Pc.inSnap] <;> exact hlg
      · simp [hh] at hs; subst hs
        refine inv_local hI t (by rfl) (by rfl) (by rfl) ?_ ?_ ?_ ?_ ?_
        · intro t' ht; simp [upd_ne _ _ _ ht]
        · simp [hth, Local.feedLock, Pc.inCS]
        · intro h; simp [Local.feedLock, WInv]
        · simp [Local.feedLock, RInv]
        · simp [Local.feedLock, LInv, Pc.inSnap] <;> exact hlg
    case uUnlock | tUnlock | aUnlock | aUnlockPanic =>
      simp at hs; subst hs
      simp [WInv, RInv, LInv, Pc.inCS, Pc.inSnap] at hlk hwr hrd hlg
      refine inv_held hI t (by rfl) (by rfl) ?_ (Or.inr hlk) (Or.inl (by rfl)) ?_ ?_ ?_ ?_
      · intro t' ht; simp [upd_ne _ _ _ ht]
      · simp [Local.feedUnit, Pc.inCS]
      · intro h; simp at h
      · simp [Local.feedUnit, RInv]
      · simp [Local.feedUnit, LInv, Pc.inSnap] <;> exact hlg
    case aStB =>
      simp at hs; subst hs
      simp [WInv, RInv, LInv, Pc.inCS, Pc.inSnap] at hlk hwr hrd hlg
      obtain ⟨hsq, hc, hle⟩ := hwr hlk
      subst hsq
      have hne := odd_succ_ne (s.mem .seq)
      refine inv_slot hI t _ ub (Or.inl rfl) (by rfl) (by rfl) (by rfl) hlk ?_ ?_ ?_ ?_ ?_
      · intro t' ht; simp [upd_ne _ _ _ ht]
      · simp [Local.feedUnit, Pc.inCS]
      · simp [Local.feedUnit, WInv, upd, hne.symm, hc, hle]
      · simp [Local.feedUnit, RInv]
      · simp [Local.feedUnit, LInv, Pc.inSnap] <;> exact hlg
    case aStV =>
      simp at hs; subst hs
      simp [WInv, RInv, LInv, Pc.inCS, Pc.inSnap] at hlk hwr hrd hlg
      obtain ⟨hsq, hc, hle, hb⟩ := hwr hlk
      subst hsq
      have hne := odd_succ_ne (s.mem .seq)
      refine inv_slot hI t _ uv (Or.inr rfl) (by rfl) (by rfl) (by rfl) hlk ?_ ?_ ?_ ?_ ?_
      · intro t' ht; simp [upd_ne _ _ _ ht]
      · simp [Local.feedUnit, Pc.inCS]
      · simp [Local.feedUnit, WInv, upd, hc, hle, hb]
      · simp [Local.feedUnit, RInv]
      · simp [Local.feedUnit, LInv, Pc.inSnap] <;> exact hlg
    case aStSeq =>
      simp at hs; subst hs
      simp [WInv, RInv, LInv, Pc.inCS, Pc.inSnap] at hlk hwr hrd hlg
      obtain ⟨hsq, hc, hle, hb, hv⟩ := hwr hlk
      subst hsq
      refine inv_seq hI t ub uv (by rfl) (by rfl) (by rfl) hlk ?_ (by simp) (by rfl) ?_ ?_ hc hle hb hv
      · intro t' ht; simp [upd_ne _ _ _ ht]
      · simp [Local.feedUnit]
      · simp [hth]

theorem inv_run (chk : Nat → Nat → Bool) (ls : List Label) : ∀ (s s' : State), Inv chk s →
    run chk s ls = some s' → Inv chk s' := by
  induction ls with
  | nil => intro s s' hI h; simp [run] at h; subst h; exact hI
  | cons l ls ih =>
    intro s s' hI h
    simp only [run] at h
    cases hst : step chk s l with
    | none => simp [hst] at h
    | some s1 => simp [hst] at h; exact ih s1 s' (inv_step chk s s1 l hI hst) h

theorem inv_reachable {chk : Nat → Nat → Bool} {v0 : Nat} (h0 : chk 0 v0 = true) {s : State}
    (h : Reachable chk v0 s) : Inv chk s := by
  obtain ⟨ls, hls⟩ := h
  exact inv_run chk ls _ _ (inv_init chk v0 h0) hls

end SC

end Woodpile.Abt

namespace Woodpile.Abt.SC

theorem hist_step (chk : Nat → Nat → Bool) (s s' : State) (l : Label)
    (h : step chk s l = some s') :
    s'.hist = s.hist ∨
    ∃ t ts, l = .run t ts ∧ (s.thr t).pc = .aStSeq ∧ s'.hist = s.hist ++ [((s.thr t).ub, (s.thr t).uv)] := by
  cases l with
  | sync t u => simp [step] at h; subst h; exact Or.inl rfl
  | start t op =>
    simp only [step] at h
    split at h
    · simp at h; subst h; exact Or.inl rfl
    · simp at h
  | run t ts =>
    simp only [step] at h
    generalize hth : s.thr t = th at h
    obtain ⟨pc, ub, uv, sq, bits, base⟩ := th
    cases pc <;> simp only [Local.next] at h <;> (try (simp at h; done))
    case aStSeq =>
      simp at h; subst h
      exact Or.inr ⟨t, ts, rfl, by simp [hth], by simp [hth]⟩
    case uLock =>
      by_cases hh : s.held = none <;> simp [hh] at h
      subst h; exact Or.inl rfl
    case tTry =>
      by_cases hh : s.held = none <;> simp [hh] at h <;> (subst h; exact Or.inl rfl)
    all_goals (simp at h; subst h; exact Or.inl rfl)

theorem stale_ignored {chk : Nat → Nat → Bool} {s s' : State} (hI : Inv chk s) (t ts : Nat)
    (hpc : (s.thr t).pc = .aB)
    (cur : Nat × Nat) (hcur : s.hist.getLast? = some cur) (hstale : (s.thr t).ub < cur.1)
    (hs : step chk s (.run t ts) = some s') :
    (s'.thr t).pc = .aUnlock false ∧ s'.mem = s.mem ∧ s'.hist = s.hist ∧
    (s'.thr t).feedUnit.pc = .retBool false := by
  have hheld : s.held = some t := (hI.lock t).1 (by simp [hpc, Pc.inCS])
  have hw := hI.writer t hheld
  simp only [WInv, hpc] at hw
  have hlast : s.hist.getLast? = s.hist[s.mem .seq]? := by
    rw [List.getLast?_eq_getElem?, hI.len]; simp
  rw [hlast, hI.cur] at hcur
  simp at hcur
  simp only [step] at hs
  generalize hth : s.thr t = th at hs hpc hw hstale
  obtain ⟨pc, ub, uv, sq, bits, base⟩ := th
  simp at hpc hw hstale; subst hpc hw
  simp only [Local.next] at hs
  simp at hs; subst hs
  have : ub < s.mem (.b (odd (s.mem .seq))) := by rw [← hcur] at hstale; exact hstale
  simp [Local.feedLoad, this, Local.feedUnit]

end Woodpile.Abt.SC

namespace Woodpile.Abt

/-- Steps `try_update` still has to make, at most (its program has no loop). -/
def tuMeasure : Pc → Nat
  | .tTry => 9 | .aSeq => 8 | .aV => 7 | .aB => 6 | .aStB => 5 | .aStV => 4 | .aStSeq => 3
  | .tClear => 2 | .tUnlock => 1 | .aUnlock _ => 1 | .aUnlockPanic => 1
  | _ => 0

theorem tu_feedLoad (chk : Nat → Nat → Bool) (th : Local) (val : Nat) (l : Loc) (o : Ord)
    (h : th.next = .load l o) (hm : 0 < tuMeasure th.pc) :
    tuMeasure (th.feedLoad chk val).pc < tuMeasure th.pc := by
  obtain ⟨pc, ub, uv, sq, bits, base⟩ := th
  cases pc <;> simp [Local.next, tuMeasure] at h hm <;> simp [Local.feedLoad, tuMeasure]
  · by_cases h1 : ub < val <;> by_cases h2 : chk ub uv = true <;> simp [h1, h2]

theorem tu_feedLock (th : Local) (r : LockRes) (h : th.next = .tryLock) :
    tuMeasure (th.feedLock r).pc < tuMeasure th.pc := by
  obtain ⟨pc, ub, uv, sq, bits, base⟩ := th
  cases pc <;> simp [Local.next] at h
  cases r <;> simp [Local.feedLock, tuMeasure]

theorem tu_feedUnit (th : Local) (hm : 0 < tuMeasure th.pc)
    (h : ∀ l o, th.next ≠ .load l o) (h' : th.next ≠ .tryLock) :
    tuMeasure th.feedUnit.pc < tuMeasure th.pc := by
  obtain ⟨pc, ub, uv, sq, bits, base⟩ := th
  cases pc <;> simp [Local.next, tuMeasure] at h h' hm <;> simp [Local.feedUnit, tuMeasure]

theorem tu_no_lock (th : Local) (hm : 0 < tuMeasure th.pc) : th.next ≠ .lock ∧ th.next ≠ .none := by
  obtain ⟨pc, ub, uv, sq, bits, base⟩ := th
  cases pc <;> simp [tuMeasure] at hm <;> simp [Local.next]

theorem next_lock_iff (th : Local) : th.next = .lock ↔ th.pc = .uLock := by
  obtain ⟨pc, ub, uv, sq, bits, base⟩ := th
  cases pc <;> simp [Local.next]

namespace SC

theorem step_none_iff (chk : Nat → Nat → Bool) (s : State) (t ts : Nat) :
    step chk s (.run t ts) = none ↔
      ((s.thr t).next = .none ∨ ((s.thr t).pc = .uLock ∧ s.held ≠ none)) := by
  simp only [step]
  generalize s.thr t = th
  obtain ⟨pc, ub, uv, sq, bits, base⟩ := th
  cases pc <;> simp [Local.next]
  · by_cases hh : s.held = none <;> simp [hh]

theorem try_nonblocking (chk : Nat → Nat → Bool) (s : State) (t ts : Nat) (hpc : (s.thr t).pc = .tTry) :
    ∃ s', step chk s (.run t ts) = some s' ∧
      (s.held ≠ none → (s'.thr t).pc = .retBool false ∧ s'.mem = s.mem ∧ s'.held = s.held ∧ s'.hist = s.hist) := by
  simp only [step]
  generalize hth : s.thr t = th at hpc
  obtain ⟨pc, ub, uv, sq, bits, base⟩ := th
  simp at hpc; subst hpc
  simp only [Local.next]
  by_cases hh : s.held = none
  · simp [hh]
  · simp [hh, Local.feedLock]

/-- Own steps a reader still needs when everybody else is frozen. -/
def soloMeasure (s : State) (t : Nat) : Nat :=
  let th := s.thr t
  match th.pc with
  | .sSeq => 4
  | .sV => if th.sq = s.mem .seq then 3 else 6
  | .sB => if th.sq = s.mem .seq then 2 else 5
  | .sSeq2 => if th.sq = s.mem .seq then 1 else 4
  | _ => 0

theorem solo_step {chk : Nat → Nat → Bool} {s : State} (hI : Inv chk s) (t : Nat)
    (hpc : (s.thr t).pc.inSnap = true) :
    ∃ s', step chk s (.run t 0) = some s' ∧ s'.mem = s.mem ∧
      (((s'.thr t).pc = .retSnap ∧ soloMeasure s t = 1) ∨
       ((s'.thr t).pc.inSnap = true ∧ soloMeasure s' t + 1 = soloMeasure s t)) := by
  have hI' : ∀ s', step chk s (.run t 0) = some s' → Inv chk s' := fun s' h => inv_step chk s s' _ hI h
  have hrd := hI.reader t
  simp only [step] at hI' ⊢
  simp only [soloMeasure]
  generalize hth : s.thr t = th at hpc hI' hrd
  obtain ⟨pc, ub, uv, sq, bits, base⟩ := th
  cases pc <;> simp [Pc.inSnap] at hpc <;> simp only [Local.next] at hI' ⊢
  · -- sSeq
    refine ⟨_, rfl, rfl, Or.inr ?_⟩
    simp [Local.feedLoad, Pc.inSnap]
  · -- sV
    refine ⟨_, rfl, rfl, Or.inr ?_⟩
    simp [Local.feedLoad, Pc.inSnap]
    split <;> simp
  · -- sB
    refine ⟨_, rfl, rfl, Or.inr ?_⟩
    simp [Local.feedLoad, Pc.inSnap]
    split <;> simp
  · -- sSeq2
    have hI2 := hI' _ rfl
    have hr2 := hI2.reader t
    refine ⟨_, rfl, rfl, ?_⟩
    by_cases h1 : sq = s.mem .seq
    · left
      by_cases h2 : chk base bits = true
      · simp [Local.feedLoad, h1, h2]
      · simp [Local.feedLoad, h1, h2, RInv] at hr2
    · right
      simp [Local.feedLoad, h1, Pc.inSnap]

theorem soloMeasure_le (s : State) (t : Nat) : soloMeasure s t ≤ 6 := by
  simp only [soloMeasure]
  split <;> (try split) <;> omega

theorem solo_terminates {chk : Nat → Nat → Bool} (t : Nat) (m : Nat) : ∀ s : State, Inv chk s →
    (s.thr t).pc.inSnap = true → soloMeasure s t = m →
    ∃ s', run chk s (List.replicate m (.run t 0)) = some s' ∧ (s'.thr t).pc = .retSnap ∧ s'.mem = s.mem := by
  induction m with
  | zero =>
    intro s _ hpc hm
    exfalso
    simp only [soloMeasure] at hm
    generalize s.thr t = th at hpc hm
    obtain ⟨pc, ub, uv, sq, bits, base⟩ := th
    cases pc <;> simp [Pc.inSnap] at hpc <;> simp at hm <;> (split at hm <;> omega)
  | succ m ih =>
    intro s hI hpc hm
    obtain ⟨s1, hs1, hmem, h⟩ := solo_step hI t hpc
    rcases h with ⟨hret, h1⟩ | ⟨hin, h1⟩
    · have : m = 0 := by omega
      subst this
      exact ⟨s1, by simp [run, hs1], hret, hmem⟩
    · obtain ⟨s', hs', hret, hmem'⟩ := ih s1 (inv_step chk s s1 _ hI hs1) hin (by omega)
      exact ⟨s', by simp [List.replicate_succ, run, hs1, hs'], hret, by rw [hmem', hmem]⟩

theorem retry_publish {chk : Nat → Nat → Bool} {s s' : State} (hI : Inv chk s) (t ts : Nat)
    (hpc : (s.thr t).pc = .sSeq2) (hs : step chk s (.run t ts) = some s') (hretry : (s'.thr t).pc = .sV) :
    (s.thr t).sq < s.mem .seq ∧ (s.thr t).sq + 1 < s.hist.length ∧ (s'.thr t).sq = s.mem .seq := by
  have hrd := hI.reader t
  have hlen := hI.len
  simp only [step] at hs
  generalize hth : s.thr t = th at hpc hs hrd
  obtain ⟨pc, ub, uv, sq, bits, base⟩ := th
  simp at hpc; subst hpc
  simp only [Local.next] at hs
  simp at hs; subst hs
  simp [RInv] at hrd
  by_cases h1 : sq = s.mem .seq
  · by_cases h2 : chk base bits = true <;> simp [Local.feedLoad, h1, h2] at hretry
  · simp [Local.feedLoad, h1]; omega

end SC
end Woodpile.Abt

/-! ## Track abt2: statement-strength additions (claim audit gaps 7, 10, 18) -/

namespace Woodpile.Abt.SC

/-- `retry_publish` plus: the sequence number the failed iteration was based on is not older
than the snapshot's start, so the newer one (`sq + 1 ..= mem seq`) was published after the
snapshot began; a retry does not move `start`. -/
theorem retry_publish_during {chk : Nat → Nat → Bool} {s s' : State} (hI : Inv chk s) (t ts : Nat)
    (hpc : (s.thr t).pc = .sSeq2) (hs : step chk s (.run t ts) = some s') (hretry : (s'.thr t).pc = .sV) :
    s.start t ≤ (s.thr t).sq ∧ (s.thr t).sq < s.mem .seq ∧ s.start t + 1 < s.hist.length ∧
    (s'.thr t).sq = s.mem .seq ∧ s'.start t = s.start t := by
  have hrd := hI.reader t
  have hlen := hI.len
  obtain ⟨h1, _, h3⟩ := retry_publish hI t ts hpc hs hretry
  simp only [RInv, hpc] at hrd
  refine ⟨hrd.1, h1, by omega, h3, ?_⟩
  simp only [step] at hs
  generalize hth : s.thr t = th at hpc hs
  obtain ⟨pc, ub, uv, sq, bits, base⟩ := th
  simp at hpc; subst hpc
  simp only [Local.next] at hs
  simp at hs; subst hs; rfl

end Woodpile.Abt.SC

/-! ### Completed calls: the generic bookkeeping layer (gap 7) -/
namespace Woodpile.Abt

/-- One step of a thread's program: the local state after consuming the result of its next access. -/
inductive Local.Succ (chk : Nat → Nat → Bool) (th : Local) : Local → Prop
  | load (l : Loc) (o : Ord) (val : Nat) : th.next = .load l o → Local.Succ chk th (th.feedLoad chk val)
  | lock (r : LockRes) : th.next = .lock ∨ th.next = .tryLock → Local.Succ chk th (th.feedLock r)
  | unit : (∀ l o, th.next ≠ .load l o) → th.next ≠ .lock → th.next ≠ .tryLock → th.next ≠ .none →
      Local.Succ chk th th.feedUnit

/-- The (non-terminal) program counters each operation's program visits. -/
def OpPc : Op → Pc → Bool
  | .snapshot, pc => pc.inSnap
  | .update _ _, pc =>
    match pc with
    | .uLock | .uClear | .uUnlock | .aSeq | .aV | .aB | .aStB | .aStV | .aStSeq | .aUnlock _ | .aUnlockPanic => true
    | _ => false
  | .tryUpdate _ _, pc =>
    match pc with
    | .tTry | .tClear | .tUnlock | .aSeq | .aV | .aB | .aStB | .aStV | .aStSeq | .aUnlock _ | .aUnlockPanic => true
    | _ => false

/-- The locals hold the call's arguments; the panic path is entered only with an invalid pair. -/
def ArgsOK (chk : Nat → Nat → Bool) : Op → Local → Prop
  | .snapshot, _ => True
  | .update b v, th => th.ub = b ∧ th.uv = v ∧ (th.pc = .aUnlockPanic → chk b v = false)
  | .tryUpdate b v, th => th.ub = b ∧ th.uv = v ∧ (th.pc = .aUnlockPanic → chk b v = false)

/-- How an operation can end. -/
def EndOK (chk : Nat → Nat → Bool) (op : Op) (th th' : Local) : Prop :=
  match op with
  | .snapshot => th'.pc = .retSnap ∨ th'.pc = .sPanic
  | .update b v => (∃ r, th'.pc = .retBool r ∧ th.pc = .aUnlock r) ∨ (th'.pc = .aPanic ∧ chk b v = false)
  | .tryUpdate b v => (th'.pc = .retBool true ∧ th.pc = .aUnlock true) ∨ th'.pc = .retBool false ∨
      (th'.pc = .aPanic ∧ chk b v = false)

theorem succ_op {chk : Nat → Nat → Bool} {op : Op} {th th' : Local} (hpc : OpPc op th.pc = true)
    (ha : ArgsOK chk op th) (h : Local.Succ chk th th') :
    (OpPc op th'.pc = true ∧ ArgsOK chk op th') ∨ (th'.pc.terminal = true ∧ EndOK chk op th th') := by
  obtain ⟨pc, ub, uv, sq, bits, base⟩ := th
  cases op with
  | snapshot =>
    cases pc <;> simp [OpPc, Pc.inSnap] at hpc <;>
    ( cases h with
      | load l o val hn =>
        simp only [Local.feedLoad]
        (repeat' split) <;> simp [OpPc, Pc.inSnap, ArgsOK, EndOK, Pc.terminal]
      | lock r hn => simp [Local.next] at hn
      | unit h1 h2 h3 h4 => simp [Local.next] at h1 )
  | update b v =>
    simp only [ArgsOK] at ha
    obtain ⟨ha1, ha2, ha3⟩ := ha
    subst ha1 ha2
    cases pc <;> simp [OpPc] at hpc <;>
    ( cases h with
      | load l o val hn =>
        first
        | (simp [Local.next] at hn; done)
        | (simp only [Local.feedLoad]
           (repeat' split) <;> simp_all [OpPc, ArgsOK, EndOK, Pc.terminal])
      | lock r hn =>
        first
        | (simp [Local.next] at hn; done)
        | (cases r <;> simp_all [Local.feedLock, OpPc, ArgsOK, EndOK, Pc.terminal])
      | unit h1 h2 h3 h4 =>
        first
        | (simp [Local.next] at h1; done)
        | (simp [Local.next] at h2; done)
        | (simp [Local.next] at h3; done)
        | (simp_all [Local.feedUnit, OpPc, ArgsOK, EndOK, Pc.terminal]) )
  | tryUpdate b v =>
    simp only [ArgsOK] at ha
    obtain ⟨ha1, ha2, ha3⟩ := ha
    subst ha1 ha2
    cases pc <;> simp [OpPc] at hpc <;>
    ( cases h with
      | load l o val hn =>
        first
        | (simp [Local.next] at hn; done)
        | (simp only [Local.feedLoad]
           (repeat' split) <;> simp_all [OpPc, ArgsOK, EndOK, Pc.terminal])
      | lock r hn =>
        first
        | (simp [Local.next] at hn; done)
        | (cases r <;> simp_all [Local.feedLock, OpPc, ArgsOK, EndOK, Pc.terminal])
      | unit h1 h2 h3 h4 =>
        first
        | (simp [Local.next] at h1; done)
        | (simp [Local.next] at h2; done)
        | (simp [Local.next] at h3; done)
        | (simp_all [Local.feedUnit, OpPc, ArgsOK, EndOK, Pc.terminal]) )



/-- What a writer knows once `advance_once` has decided, in terms of the history and the
thread's own view of `sequence` (`vseq`): an accepted call's pair is published at an index its
view covers; an ignored call has seen a published pair with a newer base time. -/
def UInv (hist : List (Nat × Nat)) (vseq : Nat) (th : Local) : Prop :=
  match th.pc with
  | .aUnlock true | .retBool true => ∃ j, j ≤ vseq ∧ hist[j]? = some (th.ub, th.uv)
  | .aUnlock false => ∃ j p, j ≤ vseq ∧ hist[j]? = some p ∧ th.ub < p.1
  | _ => True

theorem getElem?_append_some {α : Type} {l : List α} {k : Nat} {p : α} (y : List α) (hk : l[k]? = some p) :
    (l ++ y)[k]? = some p := by
  have : k < l.length := (List.getElem?_eq_some_iff.mp hk).1
  rw [List.getElem?_append_left this]; exact hk

theorem UInv_mono {hist y : List (Nat × Nat)} {vseq vseq' : Nat} {th : Local} (hv : vseq ≤ vseq')
    (h : UInv hist vseq th) : UInv (hist ++ y) vseq' th := by
  unfold UInv at *
  split at h
  · obtain ⟨j, h1, h2⟩ := h; exact ⟨j, by omega, getElem?_append_some _ h2⟩
  · obtain ⟨j, h1, h2⟩ := h; exact ⟨j, by omega, getElem?_append_some _ h2⟩
  · obtain ⟨j, p, h1, h2, h3⟩ := h; exact ⟨j, p, by omega, getElem?_append_some _ h2, h3⟩
  · trivial

namespace Mach

/-- The facts about a machine the call bookkeeping rests on (`ok` = its inductive invariant;
`G` = "every thread's view of `sequence` is the global one", true on SC only). -/
structure Laws (M : Mach) (chk : Nat → Nat → Bool) (ok : M.σ → Prop) (G : Prop) : Prop where
  ok_step : ∀ {s s' : M.σ} {l : Label}, ok s → M.step s l = some s' → ok s'
  others : ∀ {s s' : M.σ} {l : Label}, ok s → M.step s l = some s' → ∀ t', t' ≠ actor l →
    M.loc s' t' = M.loc s t' ∧ M.startOf s' t' = M.startOf s t'
  vmono : ∀ {s s' : M.σ} {l : Label}, ok s → M.step s l = some s' → ∀ t', M.vseq s t' ≤ M.vseq s' t'
  hist_ext : ∀ {s s' : M.σ} {l : Label}, ok s → M.step s l = some s' → ∃ y, M.hist s' = M.hist s ++ y
  sync : ∀ {s s' : M.σ} {t u : Nat}, ok s → M.step s (.sync t u) = some s' →
    M.loc s' t = M.loc s t ∧ M.startOf s' t = M.startOf s t ∧ M.vseq s u ≤ M.vseq s' t
  start : ∀ {s s' : M.σ} {t : Nat} {op : Op}, ok s → M.step s (.start t op) = some s' →
    M.loc s' t = (M.loc s t).start op ∧ M.startOf s' t = M.vseq s t ∧ M.vseq s' t = M.vseq s t ∧
    (M.loc s t).pc.terminal = true
  run : ∀ {s s' : M.σ} {t ts : Nat}, ok s → M.step s (.run t ts) = some s' →
    Local.Succ chk (M.loc s t) (M.loc s' t) ∧ M.startOf s' t = M.startOf s t
  snapRet : ∀ {s : M.σ} {t : Nat}, ok s → (M.loc s t).pc = .retSnap →
    ∃ k, M.startOf s t ≤ k ∧ k ≤ M.vseq s t ∧ (M.hist s)[k]? = some ((M.loc s t).base, (M.loc s t).bits)
  noPanic : ∀ {s : M.σ} {t : Nat}, ok s → (M.loc s t).pc ≠ .sPanic
  uinv : ∀ {s : M.σ} {t : Nat}, ok s → UInv (M.hist s) (M.vseq s t) (M.loc s t)
  sorted : ∀ {s : M.σ}, ok s → (M.hist s).Pairwise (fun a b => a.1 ≤ b.1)
  global : G → ∀ (s : M.σ) (t u : Nat), M.vseq s t = M.vseq s u

/-- What is known about a completed call, in terms of the (append-only) history:
* `snapshot` returned a pair published with a sequence number between the caller's view of
  `sequence` at the start and at the return of the call (and never panics);
* `update(b, v)` that returned: some pair with base time ≥ `b` is published at an index its view
  at return covers - its own pair if it was accepted, a strictly newer one if it was ignored;
* `try_update(b, v)` that returned `true`: its own pair is published at such an index;
* a call that panicked was given an invalid pair. -/
def RecOK (chk : Nat → Nat → Bool) (hist : List (Nat × Nat)) (R : CallRec) : Prop :=
  R.vStart ≤ R.vRet ∧ R.tStart < R.tRet ∧
  match R.op, R.res with
  | .snapshot, .snap b v => ∃ k, R.vStart ≤ k ∧ k ≤ R.vRet ∧ hist[k]? = some (b, v)
  | .snapshot, _ => False
  | .update b v, .bool r => ∃ j p, j ≤ R.vRet ∧ hist[j]? = some p ∧ (if r then p = (b, v) else b < p.1)
  | .update _ _, .snap _ _ => False
  | .update b v, .panic => chk b v = false
  | .tryUpdate b v, .bool true => ∃ j, j ≤ R.vRet ∧ hist[j]? = some (b, v)
  | .tryUpdate _ _, .bool false => True
  | .tryUpdate _ _, .snap _ _ => False
  | .tryUpdate b v, .panic => chk b v = false

theorem RecOK_ext {chk : Nat → Nat → Bool} {hist : List (Nat × Nat)} {R : CallRec} (y : List (Nat × Nat))
    (h : RecOK chk hist R) : RecOK chk (hist ++ y) R := by
  obtain ⟨h1, h2, h3⟩ := h
  refine ⟨h1, h2, ?_⟩
  split at h3
  · obtain ⟨k, a, b, c⟩ := h3; exact ⟨k, a, b, getElem?_append_some _ c⟩
  · exact h3
  · obtain ⟨j, p, a, b, c⟩ := h3; exact ⟨j, p, a, getElem?_append_some _ b, c⟩
  · exact h3
  · exact h3
  · obtain ⟨j, a, b⟩ := h3; exact ⟨j, a, getElem?_append_some _ b⟩
  · exact h3
  · exact h3
  · exact h3

/-- Per thread: no call in progress iff the pc is terminal; a call in progress is inside its
own program with its own arguments, started before now, and every call that completed before
it started (on the same thread; on SC: on any thread) is covered by its recorded start view.
(`th`, `st`, `vs`: the thread's program state, recorded start view and current view.) -/
def CurOK (chk : Nat → Nat → Bool) (G : Prop) (th : Local) (st vs clock : Nat) (done : List CallRec) (t : Nat) :
    Option (Op × Nat) → Prop
  | none => th.pc.terminal = true
  | some (op, t0) =>
    OpPc op th.pc = true ∧ ArgsOK chk op th ∧ t0 < clock ∧ st ≤ vs ∧
    ∀ R ∈ done, (R.tid = t ∨ G) → R.tRet < t0 → R.vRet ≤ st

structure GInv (M : Mach) (chk : Nat → Nat → Bool) (ok : M.σ → Prop) (G : Prop) (g : M.GState) : Prop where
  ok : ok g.s
  recs : ∀ R ∈ g.done, RecOK chk (M.hist g.s) R ∧ R.tRet < g.clock ∧ ∀ t, (R.tid = t ∨ G) → R.vRet ≤ M.vseq g.s t
  cur : ∀ t, CurOK chk G (M.loc g.s t) (M.startOf g.s t) (M.vseq g.s t) g.clock g.done t (g.cur t)
  pairs : ∀ R1 ∈ g.done, ∀ R2 ∈ g.done, (R1.tid = R2.tid ∨ G) → R1.tRet < R2.tStart → R1.vRet ≤ R2.vStart

theorem CurOK_mono {chk : Nat → Nat → Bool} {G : Prop} {th : Local} {st vs vs' clock clock' : Nat}
    {done : List CallRec} {t : Nat} {c : Option (Op × Nat)} (hv : vs ≤ vs') (hc : clock ≤ clock')
    (h : CurOK chk G th st vs clock done t c) : CurOK chk G th st vs' clock' done t c := by
  cases c with
  | none => exact h
  | some x =>
    obtain ⟨op, t0⟩ := x
    obtain ⟨a, b, c, d, e⟩ := h
    exact ⟨a, b, by omega, by omega, e⟩

theorem CurOK_cons {chk : Nat → Nat → Bool} {G : Prop} {th : Local} {st vs clock : Nat}
    {done : List CallRec} {t : Nat} {c : Option (Op × Nat)} (R : CallRec) (hR : clock ≤ R.tRet + 1)
    (h : CurOK chk G th st vs clock done t c) : CurOK chk G th st vs clock (R :: done) t c := by
  cases c with
  | none => exact h
  | some x =>
    obtain ⟨op, t0⟩ := x
    obtain ⟨a, b, c, d, e⟩ := h
    refine ⟨a, b, c, d, ?_⟩
    intro R' hR' h1 h2
    rcases List.mem_cons.mp hR' with rfl | hm
    · omega
    · exact e R' hm h1 h2

theorem terminal_not_op {op : Op} {pc : Pc} (h : OpPc op pc = true) : pc.terminal = false := by
  cases op <;> cases pc <;> simp [OpPc, Pc.inSnap, Pc.terminal] at h ⊢

theorem succ_not_terminal {chk : Nat → Nat → Bool} {th th' : Local} (h : Local.Succ chk th th') :
    th.pc.terminal = false := by
  obtain ⟨pc, ub, uv, sq, bits, base⟩ := th
  cases h with
  | load l o val hn => cases pc <;> simp [Local.next] at hn <;> rfl
  | lock r hn => cases pc <;> simp [Local.next] at hn <;> rfl
  | unit h1 h2 h3 h4 => cases pc <;> simp [Local.next] at h4 <;> rfl

theorem start_op (chk : Nat → Nat → Bool) (th : Local) (op : Op) :
    OpPc op (th.start op).pc = true ∧ ArgsOK chk op (th.start op) := by
  cases op <;> simp [Local.start, OpPc, ArgsOK, Pc.inSnap]


theorem result_none {th : Local} (h : th.pc.terminal = false) : th.result = none := by
  obtain ⟨pc, ub, uv, sq, bits, base⟩ := th
  cases pc <;> simp [Pc.terminal] at h <;> rfl

theorem ginv_step {M : Mach} {chk : Nat → Nat → Bool} {ok : M.σ → Prop} {G : Prop} (L : Laws M chk ok G)
    {g : M.GState} {l : Label} {s' : M.σ} (hI : GInv M chk ok G g) (hs : M.step g.s l = some s') :
    GInv M chk ok G (M.gnext g l s') := by
  have hok' := L.ok_step hI.ok hs
  obtain ⟨y, hy⟩ := L.hist_ext hI.ok hs
  have hvm := L.vmono hI.ok hs
  have hoth := L.others hI.ok hs
  have hrec : ∀ R ∈ g.done, RecOK chk (M.hist s') R ∧ R.tRet < g.clock + 1 ∧
      ∀ t, (R.tid = t ∨ G) → R.vRet ≤ M.vseq s' t := by
    intro R hR
    obtain ⟨a, b, c⟩ := hI.recs R hR
    exact ⟨by rw [hy]; exact RecOK_ext y a, by omega, fun t ht => Nat.le_trans (c t ht) (hvm t)⟩
  have hkeep : ∀ t', M.loc s' t' = M.loc g.s t' → M.startOf s' t' = M.startOf g.s t' →
      CurOK chk G (M.loc s' t') (M.startOf s' t') (M.vseq s' t') (g.clock + 1) g.done t' (g.cur t') := by
    intro t' h1 h2
    rw [h1, h2]
    exact CurOK_mono (hvm t') (by omega) (hI.cur t')
  cases l with
  | sync t u =>
    obtain ⟨s1, s2, _⟩ := L.sync hI.ok hs
    refine ⟨hok', hrec, ?_, hI.pairs⟩
    intro t'
    by_cases ht : t' = t
    · subst ht; exact hkeep t' s1 s2
    · exact hkeep t' (hoth t' ht).1 (hoth t' ht).2
  | start t op =>
    obtain ⟨s1, s2, s3, _⟩ := L.start hI.ok hs
    refine ⟨hok', hrec, ?_, hI.pairs⟩
    intro t'
    simp only [gnext]
    by_cases ht : t' = t
    · subst ht
      simp only [upd_same]
      refine ⟨by rw [s1]; exact (start_op chk _ op).1, by rw [s1]; exact (start_op chk _ op).2, by omega,
        by omega, ?_⟩
      intro R hR h1 _
      rw [s2]; exact (hI.recs R hR).2.2 t' h1
    · rw [upd_ne _ _ _ ht]; exact hkeep t' (hoth t' ht).1 (hoth t' ht).2
  | run t ts =>
    obtain ⟨hsucc, hst⟩ := L.run hI.ok hs
    have hct := hI.cur t
    have hnt := succ_not_terminal hsucc
    cases hc : g.cur t with
    | none => rw [hc] at hct; simp only [CurOK] at hct; rw [hnt] at hct; cases hct
    | some x =>
      obtain ⟨op, t0⟩ := x
      rw [hc] at hct
      obtain ⟨c1, c2, c3, c4, c5⟩ := hct
      rcases succ_op c1 c2 hsucc with ⟨d1, d2⟩ | ⟨d1, d2⟩
      · -- still inside the operation
        have hres : (M.loc s' t).result = none := result_none (terminal_not_op d1)
        have hg : M.gnext g (.run t ts) s' = { s := s', clock := g.clock + 1, cur := g.cur, done := g.done } := by
          simp only [gnext, hc, hres]
        rw [hg]
        refine ⟨hok', hrec, ?_, hI.pairs⟩
        intro t'
        by_cases ht : t' = t
        · subst ht
          show CurOK chk G (M.loc s' t') (M.startOf s' t') (M.vseq s' t') (g.clock + 1) g.done t' (g.cur t')
          rw [hc, hst]
          exact ⟨d1, d2, by omega, Nat.le_trans c4 (hvm t'), c5⟩
        · exact hkeep t' (hoth t' ht).1 (hoth t' ht).2
      · -- the operation completes with this step
        have finish : ∀ r, (M.loc s' t).result = some r →
            RecOK chk (M.hist s') (⟨t, op, M.startOf s' t, M.vseq s' t, t0, g.clock, r⟩ : CallRec) →
            GInv M chk ok G (M.gnext g (.run t ts) s') := by
          intro r hres hR
          have hg : M.gnext g (.run t ts) s' = (⟨s', g.clock + 1, upd g.cur t none,
              (⟨t, op, M.startOf s' t, M.vseq s' t, t0, g.clock, r⟩ : CallRec) :: g.done⟩ : M.GState) := by
            simp only [gnext, hc, hres]
          rw [hg]
          refine ⟨hok', ?_, ?_, ?_⟩
          · intro R hRm
            rcases List.mem_cons.mp hRm with rfl | hm
            · refine ⟨hR, by show g.clock < g.clock + 1; omega, ?_⟩
              intro t' ht'
              rcases ht' with h | h
              · have h : t = t' := h
                subst h; exact Nat.le_refl _
              · show M.vseq s' t ≤ M.vseq s' t'
                rw [L.global h s' t t']; exact Nat.le_refl _
            · exact hrec R hm
          · intro t'
            by_cases ht : t' = t
            · subst ht
              show CurOK chk G _ _ _ _ _ t' (upd g.cur t' none t')
              rw [upd_same]; exact d1
            · show CurOK chk G _ _ _ _ _ t' (upd g.cur t none t')
              rw [upd_ne _ _ _ ht]
              exact CurOK_cons _ (Nat.le_refl (g.clock + 1)) (hkeep t' (hoth t' ht).1 (hoth t' ht).2)
          · intro R1 h1 R2 h2 hsame hlt
            rcases List.mem_cons.mp h1 with rfl | m1 <;> rcases List.mem_cons.mp h2 with rfl | m2
            · have : g.clock < t0 := hlt
              omega
            · have : g.clock < R2.tStart := hlt
              have a := (hI.recs R2 m2).1.2.1
              have b := (hI.recs R2 m2).2.1
              omega
            · show R1.vRet ≤ M.startOf s' t
              rw [hst]
              exact c5 R1 m1 hsame hlt
            · exact hI.pairs R1 m1 R2 m2 hsame hlt
        have hvv : M.startOf s' t ≤ M.vseq s' t := by rw [hst]; exact Nat.le_trans c4 (hvm t)
        have hU := L.uinv (t := t) hI.ok
        cases op with
        | snapshot =>
          rcases d2 with hp | hp
          · obtain ⟨k, k1, k2, k3⟩ := L.snapRet hok' hp
            exact finish (.snap (M.loc s' t).base (M.loc s' t).bits) (by simp [Local.result, hp])
              ⟨hvv, c3, k, k1, k2, k3⟩
          · exact absurd hp (L.noPanic hok')
        | update b v =>
          simp only [ArgsOK] at c2
          obtain ⟨a1, a2, _⟩ := c2
          rcases d2 with ⟨r, hp, hq⟩ | ⟨hp, hchk⟩
          · refine finish (.bool r) (by simp [Local.result, hp]) ⟨hvv, c3, ?_⟩
            simp only [UInv, hq] at hU
            cases r with
            | true =>
              obtain ⟨j, j1, j2⟩ := hU
              exact ⟨j, (b, v), Nat.le_trans j1 (hvm t), by rw [hy, ← a1, ← a2]; exact getElem?_append_some _ j2,
                by simp⟩
            | false =>
              obtain ⟨j, p, j1, j2, j3⟩ := hU
              exact ⟨j, p, Nat.le_trans j1 (hvm t), by rw [hy]; exact getElem?_append_some _ j2,
                by simp; omega⟩
          · exact finish .panic (by simp [Local.result, hp]) ⟨hvv, c3, hchk⟩
        | tryUpdate b v =>
          simp only [ArgsOK] at c2
          obtain ⟨a1, a2, _⟩ := c2
          rcases d2 with ⟨hp, hq⟩ | hp | ⟨hp, hchk⟩
          · refine finish (.bool true) (by simp [Local.result, hp]) ⟨hvv, c3, ?_⟩
            simp only [UInv, hq] at hU
            obtain ⟨j, j1, j2⟩ := hU
            exact ⟨j, Nat.le_trans j1 (hvm t), by rw [hy, ← a1, ← a2]; exact getElem?_append_some _ j2⟩
          · exact finish (.bool false) (by simp [Local.result, hp]) ⟨hvv, c3, trivial⟩
          · exact finish .panic (by simp [Local.result, hp]) ⟨hvv, c3, hchk⟩


theorem ginv_init {M : Mach} {chk : Nat → Nat → Bool} {ok : M.σ → Prop} {G : Prop} {s0 : M.σ} (h0 : ok s0)
    (hidle : ∀ t, (M.loc s0 t).pc.terminal = true) : GInv M chk ok G (M.ginit s0) :=
  { ok := h0
    recs := by intro R hR; simp [ginit] at hR
    cur := by intro t; exact hidle t
    pairs := by intro R hR; simp [ginit] at hR }

theorem ginv_run {M : Mach} {chk : Nat → Nat → Bool} {ok : M.σ → Prop} {G : Prop} (L : Laws M chk ok G)
    (ls : List Label) : ∀ (g g' : M.GState), GInv M chk ok G g → M.grun g ls = some g' → GInv M chk ok G g' := by
  induction ls with
  | nil => intro g g' hI h; simp [grun] at h; subst h; exact hI
  | cons l ls ih =>
    intro g g' hI h
    simp only [grun, gstep] at h
    cases hst : M.step g.s l with
    | none => simp [hst] at h
    | some s1 => simp only [hst] at h; exact ih _ g' (ginv_step L hI hst) h

@[simp] theorem gnext_s (M : Mach) (g : M.GState) (l : Label) (s1 : M.σ) : (M.gnext g l s1).s = s1 := by
  cases l <;> simp only [gnext]
  split <;> rfl

/-- Erasing the bookkeeping gives a run of the machine itself ... -/
theorem grun_erase (M : Mach) (ls : List Label) : ∀ (g g' : M.GState), M.grun g ls = some g' →
    M.run g.s ls = some g'.s := by
  induction ls with
  | nil => intro g g' h; simp [grun] at h; subst h; rfl
  | cons l ls ih =>
    intro g g' h
    simp only [grun, gstep] at h
    simp only [run]
    cases hst : M.step g.s l with
    | none => simp [hst] at h
    | some s1 =>
      simp only [hst] at h
      have := ih _ g' h
      rw [gnext_s] at this
      exact this

/-- ... and every run of the machine carries bookkeeping: the ghost layer restricts nothing. -/
theorem grun_lift (M : Mach) (ls : List Label) : ∀ (g : M.GState) (s' : M.σ), M.run g.s ls = some s' →
    ∃ g', M.grun g ls = some g' ∧ g'.s = s' := by
  induction ls with
  | nil => intro g s' h; simp [run] at h; exact ⟨g, rfl, h⟩
  | cons l ls ih =>
    intro g s' h
    simp only [run] at h
    cases hst : M.step g.s l with
    | none => simp [hst] at h
    | some s1 =>
      simp only [hst] at h
      have hs1 : (M.gnext g l s1).s = s1 := gnext_s M g l s1
      obtain ⟨g', h1, h2⟩ := ih (M.gnext g l s1) s' (by rw [hs1]; exact h)
      exact ⟨g', by simp only [grun, gstep, hst]; exact h1, h2⟩

/-- End to end: a completed `update(b, v)` (it returned, i.e. did not panic on an invalid pair), or
a `try_update(b, v)` that returned `true`, whose return the start of a `snapshot` call has seen
(`U.vRet ≤ S.vStart`: the snapshot's caller's view of `sequence` at its start includes the
updater's view at its return) is reflected by the snapshot: it returns a base time ≥ `b`. -/
theorem update_then_snapshot {M : Mach} {chk : Nat → Nat → Bool} {ok : M.σ → Prop} {G : Prop} (L : Laws M chk ok G)
    {g : M.GState} (hI : GInv M chk ok G g) (U S : CallRec) (hU : U ∈ g.done) (hS : S ∈ g.done) (b v sb sv : Nat)
    (hUop : (U.op = .update b v ∧ ∃ r, U.res = .bool r) ∨ (U.op = .tryUpdate b v ∧ U.res = .bool true))
    (hSop : S.op = .snapshot) (hSres : S.res = .snap sb sv) (hb : U.vRet ≤ S.vStart) : b ≤ sb := by
  obtain ⟨_, _, hs⟩ := (hI.recs S hS).1
  simp only [hSop, hSres] at hs
  obtain ⟨k, k1, _, k3⟩ := hs
  obtain ⟨_, _, hu⟩ := (hI.recs U hU).1
  have key : ∃ j p, j ≤ U.vRet ∧ (M.hist g.s)[j]? = some p ∧ b ≤ p.1 := by
    rcases hUop with ⟨h1, r, h2⟩ | ⟨h1, h2⟩
    · simp only [h1, h2] at hu
      obtain ⟨j, p, j1, j2, j3⟩ := hu
      refine ⟨j, p, j1, j2, ?_⟩
      cases r <;> simp at j3
      · omega
      · rw [j3]; exact Nat.le_refl _
    · simp only [h1, h2] at hu
      obtain ⟨j, j1, j2⟩ := hu
      exact ⟨j, (b, v), j1, j2, Nat.le_refl _⟩
  obtain ⟨j, p, j1, j2, j3⟩ := key
  have := sorted_get (L.sorted hI.ok) j2 k3 (by omega)
  exact Nat.le_trans j3 this

end Mach
end Woodpile.Abt

/-! ### The SC machine satisfies the bookkeeping laws -/
namespace Woodpile.Abt.SC

theorem run_append (chk : Nat → Nat → Bool) (l1 l2 : List Label) : ∀ (s : State),
    run chk s (l1 ++ l2) = (match run chk s l1 with | some s1 => run chk s1 l2 | none => none) := by
  induction l1 with
  | nil => intro s; simp [run]
  | cons l ls ih =>
    intro s
    simp only [List.cons_append, run]
    cases step chk s l with
    | none => rfl
    | some s1 => exact ih s1

theorem reachable_run {chk : Nat → Nat → Bool} {v0 : Nat} {s s' : State} (h : Reachable chk v0 s)
    (ls : List Label) (hr : run chk s ls = some s') : Reachable chk v0 s' := by
  obtain ⟨l0, h0⟩ := h
  exact ⟨l0 ++ ls, by rw [run_append, h0]; exact hr⟩

/-- Everything a step leaves alone or only grows (SC machine). -/
structure FrameSpec (chk : Nat → Nat → Bool) (s s' : State) (l : Label) : Prop where
  others : ∀ t', t' ≠ actor l → s'.thr t' = s.thr t' ∧ s'.start t' = s.start t'
  seqmono : s.mem .seq ≤ s'.mem .seq
  sync : ∀ t u, l = .sync t u → s' = s
  start : ∀ t op, l = .start t op → s'.thr t = (s.thr t).start op ∧ s'.start t = s.mem .seq ∧ s'.mem = s.mem ∧
      (s.thr t).pc.terminal = true
  run : ∀ t ts, l = .run t ts → Local.Succ chk (s.thr t) (s'.thr t) ∧ s'.start t = s.start t

theorem frame_run_aux (chk : Nat → Nat → Bool) (s : State) (t ts : Nat) (th' : Local) (lg' : Nat → List (Nat × Nat))
    (mem' : Loc → Nat) (held' : Option Nat) (p' : Bool) (hist' : List (Nat × Nat))
    (hm : s.mem .seq ≤ mem' .seq) (hsucc : Local.Succ chk (s.thr t) th') :
    FrameSpec chk s { s with thr := upd s.thr t th', log := lg', mem := mem', held := held', poisoned := p',
                             hist := hist' } (.run t ts) := by
  refine ⟨?_, hm, (by intro _ _ h; cases h), (by intro _ _ h; cases h), ?_⟩
  · intro t' ht; simp only [actor] at ht; simp [upd_ne _ _ _ ht]
  · intro t2 ts2 h; cases h
    simp only [upd_same]; exact ⟨hsucc, trivial⟩

theorem next_store_seq {th : Local} {o : Ord} {val : Nat} (h : th.next = .store .seq o val) :
    th.pc = .aStSeq ∧ val = th.sq + 1 := by
  obtain ⟨pc, ub, uv, sq, bits, base⟩ := th
  cases pc <;> simp [Local.next] at h
  exact ⟨rfl, h.2.symm⟩

theorem step_frame {chk : Nat → Nat → Bool} {s s' : State} (hI : Inv chk s) (l : Label) (h : step chk s l = some s') :
    FrameSpec chk s s' l := by
  cases l with
  | sync t u =>
    simp [step] at h; subst h
    exact ⟨fun _ _ => ⟨rfl, rfl⟩, Nat.le_refl _, fun _ _ _ => rfl, (by intro _ _ h; cases h), (by intro _ _ h; cases h)⟩
  | start t op =>
    simp only [step] at h
    split at h
    · rename_i hterm
      simp at h; subst h
      refine ⟨?_, Nat.le_refl _, (by intro _ _ h; cases h), ?_, (by intro _ _ h; cases h)⟩
      · intro t' ht; simp only [actor] at ht; simp [upd_ne _ _ _ ht]
      · intro t2 op2 h; cases h
        simp [hterm, hI.len]
    · simp at h
  | run t ts =>
    simp only [step] at h
    cases hnx : (s.thr t).next <;> simp only [hnx] at h
    case load l o =>
      simp at h; subst h
      exact frame_run_aux chk s t ts _ _ _ _ _ _ (Nat.le_refl _) (.load l o _ hnx)
    case store l o val =>
      simp at h; subst h
      refine frame_run_aux chk s t ts _ _ _ _ _ _ ?_ (.unit (by simp [hnx]) (by simp [hnx]) (by simp [hnx]) (by simp [hnx]))
      by_cases hl : l = .seq
      · subst hl
        obtain ⟨hpc, hval⟩ := next_store_seq hnx
        have hh : s.held = some t := (hI.lock t).1 (by simp [hpc, Pc.inCS])
        have hw := hI.writer t hh
        simp only [WInv, hpc] at hw
        simp [hval, hw.1]
      · have : Loc.seq ≠ l := fun h => hl h.symm
        simp [upd_ne _ _ _ this]
    case lock =>
      split at h <;> simp at h
      subst h
      exact frame_run_aux chk s t ts _ _ _ _ _ _ (Nat.le_refl _) (.lock _ (Or.inl hnx))
    case tryLock =>
      split at h <;> simp at h <;> subst h
      · exact frame_run_aux chk s t ts _ _ _ _ _ _ (Nat.le_refl _) (.lock _ (Or.inr hnx))
      · exact frame_run_aux chk s t ts _ _ _ _ _ _ (Nat.le_refl _) (.lock _ (Or.inr hnx))
    case unlock p =>
      simp at h; subst h
      exact frame_run_aux chk s t ts _ _ _ _ _ _ (Nat.le_refl _) (.unit (by simp [hnx]) (by simp [hnx]) (by simp [hnx]) (by simp [hnx]))
    case clearPoison =>
      simp at h; subst h
      exact frame_run_aux chk s t ts _ _ _ _ _ _ (Nat.le_refl _) (.unit (by simp [hnx]) (by simp [hnx]) (by simp [hnx]) (by simp [hnx]))
    case none => simp at h

theorem hist_ext {chk : Nat → Nat → Bool} {s s' : State} {l : Label} (h : step chk s l = some s') :
    ∃ y, s'.hist = s.hist ++ y := by
  rcases hist_step chk s s' l h with h | ⟨_, _, _, _, h⟩
  · exact ⟨[], by simp [h]⟩
  · exact ⟨_, h⟩



theorem uinv_step {chk : Nat → Nat → Bool} {s s' : State} (hI : Inv chk s) (l : Label)
    (hU : ∀ t, UInv s.hist (s.mem .seq) (s.thr t)) (hs : step chk s l = some s') :
    ∀ t, UInv s'.hist (s'.mem .seq) (s'.thr t) := by
  have hF := step_frame hI l hs
  obtain ⟨y, hy⟩ := hist_ext hs
  have hold : ∀ t', s'.thr t' = s.thr t' → UInv s'.hist (s'.mem .seq) (s'.thr t') := by
    intro t' h; rw [h, hy]; exact UInv_mono hF.seqmono (hU t')
  intro t'
  by_cases ht : t' ≠ actor l
  · exact hold t' (hF.others t' ht).1
  have ht : t' = actor l := Decidable.of_not_not ht
  subst ht
  cases l with
  | sync t u => rw [hF.sync t u rfl]; exact hU _
  | start t op =>
    simp only [actor]
    rw [(hF.start t op rfl).1]
    cases op <;> simp [UInv, Local.start]
  | run t ts =>
    simp only [actor]
    have hUt := hU t
    have hlk := hI.lock t
    have hwr := hI.writer t
    simp only [step] at hs
    cases hpc : (s.thr t).pc <;> simp only [Local.next, hpc] at hs
    case idle | retSnap | retBool | sPanic | aPanic => simp at hs
    case sSeq | sSeq2 | aSeq | sV | aV | sB =>
      simp at hs; subst hs
      simp only [upd_same, Local.feedLoad, hpc, UInv]
      all_goals (repeat' split)
      all_goals (try trivial)
      all_goals simp_all
    case aB =>
      simp at hs; subst hs
      have hh : s.held = some t := hlk.1 (by simp [hpc, Pc.inCS])
      have hw := hwr hh
      simp only [WInv, hpc] at hw
      simp only [upd_same, Local.feedLoad, hpc]
      by_cases h1 : (s.thr t).ub < s.mem (.b (odd (s.thr t).sq))
      · simp only [h1, if_true, UInv]
        exact ⟨s.mem .seq, _, Nat.le_refl _, hI.cur, by rw [hw] at h1; exact h1⟩
      · by_cases h2 : chk (s.thr t).ub (s.thr t).uv = true <;> simp [h1, h2, UInv]
    case aStB | aStV =>
      simp at hs; subst hs
      simp [upd_same, Local.feedUnit, hpc, UInv]
    case aStSeq =>
      simp at hs; subst hs
      have hh : s.held = some t := hlk.1 (by simp [hpc, Pc.inCS])
      have hw := hwr hh
      simp only [WInv, hpc] at hw
      simp only [upd_same, Local.feedUnit, hpc, UInv]
      refine ⟨s.mem .seq + 1, by rw [hw.1]; exact Nat.le_refl _, ?_⟩
      rw [← hI.len]; simp
    case uLock =>
      split at hs <;> simp at hs
      subst hs
      cases s.poisoned <;> simp [upd_same, Local.feedLock, hpc, UInv]
    case tTry =>
      split at hs <;> simp at hs <;> subst hs
      · cases s.poisoned <;> simp [upd_same, Local.feedLock, hpc, UInv]
      · simp [upd_same, Local.feedLock, hpc, UInv]
    case uClear | tClear | uUnlock | tUnlock | aUnlockPanic =>
      simp at hs; subst hs
      simp [upd_same, Local.feedUnit, hpc, UInv]
    case aUnlock r =>
      simp at hs; subst hs
      simp only [hpc, UInv] at hUt
      cases r <;> simp only [upd_same, Local.feedUnit, hpc, UInv]
      exact hUt

/-- The SC invariant extended with the writers' knowledge. -/
def Ok (chk : Nat → Nat → Bool) (s : State) : Prop :=
  Inv chk s ∧ ∀ t, UInv s.hist (s.mem .seq) (s.thr t)

theorem ok_init (chk : Nat → Nat → Bool) (v0 : Nat) (h0 : chk 0 v0 = true) : Ok chk (init v0) :=
  ⟨inv_init chk v0 h0, fun t => by simp [UInv, init]⟩

theorem ok_step {chk : Nat → Nat → Bool} {s s' : State} {l : Label} (h : Ok chk s) (hs : step chk s l = some s') :
    Ok chk s' :=
  ⟨inv_step chk s s' l h.1 hs, uinv_step h.1 l h.2 hs⟩

theorem ok_run (chk : Nat → Nat → Bool) (ls : List Label) : ∀ (s s' : State), Ok chk s →
    run chk s ls = some s' → Ok chk s' := by
  induction ls with
  | nil => intro s s' hI h; simp [run] at h; subst h; exact hI
  | cons l ls ih =>
    intro s s' hI h
    simp only [run] at h
    cases hst : step chk s l with
    | none => simp [hst] at h
    | some s1 => simp [hst] at h; exact ih s1 s' (ok_step hI hst) h

theorem ok_reachable {chk : Nat → Nat → Bool} {v0 : Nat} (h0 : chk 0 v0 = true) {s : State}
    (h : Reachable chk v0 s) : Ok chk s := by
  obtain ⟨ls, hls⟩ := h
  exact ok_run chk ls _ _ (ok_init chk v0 h0) hls

theorem laws (chk : Nat → Nat → Bool) : (mach chk).Laws chk (Ok chk) True where
  ok_step := by
    intro s s' l h hs
    exact ok_step (s := s) (s' := s') (l := l) h hs
  others := by
    intro s s' l h hs t' ht
    exact (step_frame (s := s) (s' := s') h.1 l hs).others t' ht
  vmono := by
    intro s s' l h hs _
    exact (step_frame (s := s) (s' := s') h.1 l hs).seqmono
  hist_ext := by
    intro s s' l _ hs
    exact hist_ext (s := s) (s' := s') (l := l) hs
  sync := by
    intro s s' t u h hs
    have : s' = s := (step_frame (s := s) (s' := s') h.1 (.sync t u) hs).sync t u rfl
    subst this
    exact ⟨rfl, rfl, Nat.le_refl _⟩
  start := by
    intro s s' t op h hs
    obtain ⟨a, b, c, d⟩ := (step_frame (s := s) (s' := s') h.1 (.start t op) hs).start t op rfl
    exact ⟨a, b, by show s'.mem .seq = s.mem .seq; rw [c], d⟩
  run := by
    intro s s' t ts h hs
    exact (step_frame (s := s) (s' := s') h.1 (.run t ts) hs).run _ _ rfl
  snapRet := by
    intro s t h hpc
    have hpc : (s.thr t).pc = .retSnap := hpc
    obtain ⟨_, k, k1, k2, k3⟩ := (h.1.logs t).2.2 hpc
    exact ⟨k, k1, k2, k3⟩
  noPanic := by
    intro s t h hpc
    have hpc : (s.thr t).pc = .sPanic := hpc
    have := h.1.reader t
    simp [RInv, hpc] at this
  uinv := fun h => h.2 _
  sorted := fun h => h.1.sorted
  global := fun _ _ _ _ => rfl

end Woodpile.Abt.SC

namespace Woodpile.Abt.SC

/-- The accept direction: when `advance_once` compares (at `aB`) and the argument's base time is
not older than the most recently published one, the call is not ignored: it goes on to the
slot stores if the pair is valid (to the panic path otherwise). -/
theorem fresh_accepted {chk : Nat → Nat → Bool} {s s' : State} (hI : Inv chk s) (t ts : Nat)
    (hpc : (s.thr t).pc = .aB)
    (cur : Nat × Nat) (hcur : s.hist.getLast? = some cur) (hfresh : cur.1 ≤ (s.thr t).ub)
    (hs : step chk s (.run t ts) = some s') :
    (s'.thr t).pc = (if chk (s.thr t).ub (s.thr t).uv then .aStB else .aUnlockPanic) ∧
    s'.mem = s.mem ∧ s'.hist = s.hist := by
  have hheld : s.held = some t := (hI.lock t).1 (by simp [hpc, Pc.inCS])
  have hw := hI.writer t hheld
  simp only [WInv, hpc] at hw
  have hlast : s.hist.getLast? = s.hist[s.mem .seq]? := by
    rw [List.getLast?_eq_getElem?, hI.len]; simp
  rw [hlast, hI.cur] at hcur
  simp at hcur
  simp only [step, Local.next, hpc] at hs
  simp at hs; subst hs
  have : ¬ (s.thr t).ub < s.mem (.b (odd (s.thr t).sq)) := by rw [hw]; subst hcur; simpa using hfresh
  by_cases h2 : chk (s.thr t).ub (s.thr t).uv = true <;> simp [Local.feedLoad, hpc, this, h2]

/-- Once accepted (`aStB`), the call's remaining four steps - two slot stores, the sequence
store, the guard drop - are enabled in every state, and taking them returns `true` with
exactly the call's pair appended to the history and the lock released. -/
theorem accepted_completes (chk : Nat → Nat → Bool) (s : State) (t : Nat) (hpc : (s.thr t).pc = .aStB) :
    ∃ s', run chk s (List.replicate 4 (.run t 0)) = some s' ∧ (s'.thr t).pc = .retBool true ∧
      s'.hist = s.hist ++ [((s.thr t).ub, (s.thr t).uv)] ∧ s'.held = none := by
  simp [List.replicate, run, step, Local.next, Local.feedUnit, hpc, upd_same]


theorem mach_run (chk : Nat → Nat → Bool) (ls : List Label) : ∀ s : State, (mach chk).run s ls = run chk s ls := by
  induction ls with
  | nil => intro s; rfl
  | cons l ls ih =>
    intro s
    simp only [run, Mach.run]
    cases step chk s l with
    | none => rfl
    | some s1 => exact ih s1

/-- The bookkeeping invariant holds in every reachable state of the bookkeeping machine. -/
theorem ginv_reachable {chk : Nat → Nat → Bool} {v0 : Nat} (h0 : chk 0 v0 = true) {g : (mach chk).GState}
    (h : GReachable chk v0 g) : (mach chk).GInv chk (Ok chk) True g := by
  obtain ⟨ls, hls⟩ := h
  exact Mach.ginv_run (laws chk) ls _ _ (Mach.ginv_init (ok_init chk v0 h0) (fun _ => rfl)) hls

/-- The bookkeeping restricts nothing: the machine states it reaches are exactly the reachable ones. -/
theorem greachable_iff (chk : Nat → Nat → Bool) (v0 : Nat) (s : State) :
    Reachable chk v0 s ↔ ∃ g : (mach chk).GState, GReachable chk v0 g ∧ g.s = s := by
  constructor
  · rintro ⟨ls, hls⟩
    obtain ⟨g', h1, h2⟩ := Mach.grun_lift (mach chk) ls ((mach chk).ginit (init v0)) s
      ((mach_run chk ls (init v0)).trans hls)
    exact ⟨g', ⟨ls, h1⟩, h2⟩
  · rintro ⟨g, ⟨ls, hls⟩, rfl⟩
    have := Mach.grun_erase (mach chk) ls _ g hls
    exact ⟨ls, (mach_run chk ls (init v0)).symm.trans this⟩

end Woodpile.Abt.SC

/-! ### The programs run alone refine the sequential specification (gap 10) -/
namespace Woodpile.Abt.SC

/-- The writer mutex is free and not poisoned (so, by `Inv.lock`, no thread is inside
`advance_once`; readers and threads about to lock may be anywhere). -/
def Quiescent (s : State) : Prop := s.held = none ∧ s.poisoned = false

/-- The cell's abstract value: the most recently published pair. -/
def cellOf (s : State) : Option (Nat × Nat) := s.hist.getLast?

theorem cell_mem {chk : Nat → Nat → Bool} {s : State} (hI : Inv chk s) {cur : Nat × Nat}
    (hcur : cellOf s = some cur) :
    s.mem (.b (odd (s.mem .seq))) = cur.1 ∧ s.mem (.v (odd (s.mem .seq))) = cur.2 := by
  have hlast : s.hist.getLast? = s.hist[s.mem .seq]? := by
    rw [List.getLast?_eq_getElem?, hI.len]; simp
  unfold cellOf at hcur
  rw [hlast, hI.cur] at hcur
  simp at hcur; subst hcur; exact ⟨rfl, rfl⟩

set_option linter.unusedSimpArgs false in
/-- The programs of `update` and `try_update`, run alone from a quiescent state: what they do
is `seqUpdate` of the cell's abstract value. -/
theorem writer_refines {chk : Nat → Nat → Bool} {s : State} (hI : Inv chk s) (hq : Quiescent s) (t : Nat)
    (hterm : (s.thr t).pc.terminal = true) (cur : Nat × Nat) (hcur : cellOf s = some cur) (b v : Nat)
    (op : Op) (hop : op = .update b v ∨ op = .tryUpdate b v) :
    match seqUpdate chk cur b v with
    | some (cur', r) =>
      ∃ s', run chk s (.start t op :: List.replicate (if r then 8 else 5) (.run t 0)) = some s' ∧
        (s'.thr t).pc = .retBool r ∧ Quiescent s' ∧ cellOf s' = some cur' ∧
        s'.hist = (if r then s.hist ++ [(b, v)] else s.hist)
    | none =>
      ∃ s', run chk s (.start t op :: List.replicate 5 (.run t 0)) = some s' ∧
        (s'.thr t).pc = .aPanic ∧ s'.held = none ∧ s'.poisoned = true ∧ s'.hist = s.hist := by
  obtain ⟨hb, hv⟩ := cell_mem hI hcur
  obtain ⟨hq1, hq2⟩ := hq
  unfold cellOf at *
  by_cases h1 : b < cur.1
  · simp only [seqUpdate, h1, if_true]
    rcases hop with rfl | rfl <;>
      simp [List.replicate, run, step, hterm, Local.start, Local.next, Local.feedLock, Local.feedLoad,
        Local.feedUnit, upd_same, hq1, hq2, hb, h1, Quiescent, cellOf, hcur]
  · by_cases h2 : chk b v = true
    · simp only [seqUpdate, h1, h2, if_false, Bool.not_true]
      rcases hop with rfl | rfl <;>
        simp [List.replicate, run, step, hterm, Local.start, Local.next, Local.feedLock, Local.feedLoad,
          Local.feedUnit, upd_same, hq1, hq2, hb, h1, h2, Quiescent, cellOf]
    · simp only [seqUpdate, h1, h2, if_false]
      rcases hop with rfl | rfl <;>
        simp [List.replicate, run, step, hterm, Local.start, Local.next, Local.feedLock, Local.feedLoad,
          Local.feedUnit, upd_same, hq1, hq2, hb, h1, h2, Quiescent, cellOf]


/-- `snapshot` run alone - from ANY reachable state: other threads may be anywhere, a writer may
hold the lock half way through its stores, the mutex may be poisoned - performs four loads,
changes nothing shared, and returns the cell's abstract value (`seqSnapshot`, whose assertion
cannot fire). -/
theorem snapshot_refines {chk : Nat → Nat → Bool} {s : State} (hI : Inv chk s) (t : Nat)
    (hterm : (s.thr t).pc.terminal = true) (cur : Nat × Nat) (hcur : cellOf s = some cur) :
    seqSnapshot chk cur = some cur ∧
    ∃ s', run chk s (.start t .snapshot :: List.replicate 4 (.run t 0)) = some s' ∧
      (s'.thr t).pc = .retSnap ∧ ((s'.thr t).base, (s'.thr t).bits) = cur ∧
      s'.mem = s.mem ∧ s'.held = s.held ∧ s'.poisoned = s.poisoned ∧ s'.hist = s.hist := by
  obtain ⟨hb, hv⟩ := cell_mem hI hcur
  have hc : chk cur.1 cur.2 = true := hI.chkAll cur (List.mem_of_getLast? hcur)
  refine ⟨by simp [seqSnapshot, hc], ?_⟩
  simp [List.replicate, run, step, hterm, Local.start, Local.next, Local.feedLoad, upd_same, hb, hv, hc]


set_option linter.unusedSimpArgs false in
/-- Where `update` and `try_update` differ when run alone: on a poisoned (free) mutex.  `update`
clears the poison (three extra steps: the poisoned `lock()`, `clear_poison`, dropping the
guard inside the error) and then behaves as on a clean mutex ... -/
theorem update_recovers_from_poison {chk : Nat → Nat → Bool} {s : State} (hI : Inv chk s)
    (hheld : s.held = none) (hpois : s.poisoned = true) (t : Nat)
    (hterm : (s.thr t).pc.terminal = true) (cur : Nat × Nat) (hcur : cellOf s = some cur) (b v : Nat) :
    match seqUpdate chk cur b v with
    | some (cur', r) =>
      ∃ s', run chk s (.start t (.update b v) :: List.replicate (if r then 11 else 8) (.run t 0)) = some s' ∧
        (s'.thr t).pc = .retBool r ∧ Quiescent s' ∧ cellOf s' = some cur' ∧
        s'.hist = (if r then s.hist ++ [(b, v)] else s.hist)
    | none =>
      ∃ s', run chk s (.start t (.update b v) :: List.replicate 8 (.run t 0)) = some s' ∧
        (s'.thr t).pc = .aPanic ∧ s'.held = none ∧ s'.poisoned = true ∧ s'.hist = s.hist := by
  obtain ⟨hb, hv⟩ := cell_mem hI hcur
  unfold cellOf at *
  by_cases h1 : b < cur.1
  · simp only [seqUpdate, h1, if_true]
    simp [List.replicate, run, step, hterm, Local.start, Local.next, Local.feedLock, Local.feedLoad,
        Local.feedUnit, upd_same, hheld, hpois, hb, h1, Quiescent, cellOf, hcur]
  · by_cases h2 : chk b v = true
    · simp only [seqUpdate, h1, h2, if_false, Bool.not_true]
      simp [List.replicate, run, step, hterm, Local.start, Local.next, Local.feedLock, Local.feedLoad,
          Local.feedUnit, upd_same, hheld, hpois, hb, h1, h2, Quiescent, cellOf]
    · simp only [seqUpdate, h1, h2, if_false]
      simp [List.replicate, run, step, hterm, Local.start, Local.next, Local.feedLock, Local.feedLoad,
          Local.feedUnit, upd_same, hheld, hpois, hb, h1, h2, Quiescent, cellOf]

/-- ... whereas `try_update` on a poisoned mutex clears the poison and returns `false` without
looking at its argument (three steps), whatever `seqUpdate` says.  (A mutex is poisoned only by
a panic inside `advance_once`, i.e. by an `update`/`try_update` with an invalid pair.) -/
theorem try_update_poisoned_returns_false (chk : Nat → Nat → Bool) (s : State)
    (hheld : s.held = none) (hpois : s.poisoned = true) (t : Nat)
    (hterm : (s.thr t).pc.terminal = true) (b v : Nat) :
    ∃ s', run chk s (.start t (.tryUpdate b v) :: List.replicate 3 (.run t 0)) = some s' ∧
      (s'.thr t).pc = .retBool false ∧ Quiescent s' ∧ s'.hist = s.hist ∧ s'.mem = s.mem := by
  simp [List.replicate, run, step, hterm, Local.start, Local.next, Local.feedLock, Local.feedUnit, upd_same,
    hheld, hpois, Quiescent]

end Woodpile.Abt.SC

/-! ### Synchronises-with at the level of calls -/
namespace Woodpile.Abt
namespace Mach

/-- Completed calls are never forgotten. -/
theorem done_mono_step (M : Mach) (g g' : M.GState) (l : Label) (h : M.gstep g l = some g') :
    ∀ R ∈ g.done, R ∈ g'.done := by
  simp only [gstep] at h
  cases hst : M.step g.s l with
  | none => simp [hst] at h
  | some s1 =>
    simp only [hst] at h
    cases h
    intro R hR
    cases l <;> simp only [gnext]
    · split
      · exact List.mem_cons_of_mem _ hR
      · exact hR
    · exact hR
    · exact hR

theorem done_mono (M : Mach) (ls : List Label) : ∀ (g g' : M.GState), M.grun g ls = some g' →
    ∀ R ∈ g.done, R ∈ g'.done := by
  induction ls with
  | nil => intro g g' h; simp [grun] at h; subst h; exact fun _ h => h
  | cons l ls ih =>
    intro g g' h R hR
    simp only [grun] at h
    cases hst : M.gstep g l with
    | none => simp [hst] at h
    | some g1 =>
      simp only [hst] at h
      exact ih g1 g' h R (done_mono_step M g g1 l hst R hR)

/-- "From step `c` on, thread `t`'s view of `sequence` is at least `n`": then so is the recorded
start view of every call of `t` that starts at or after step `c`. -/
structure After (M : Mach) (ok : M.σ → Prop) (t n c : Nat) (g : M.GState) : Prop where
  ok : ok g.s
  view : n ≤ M.vseq g.s t
  clock : c ≤ g.clock
  recs : ∀ S ∈ g.done, S.tid = t → c ≤ S.tStart → n ≤ S.vStart
  cur : ∀ op t0, g.cur t = some (op, t0) → c ≤ t0 → n ≤ M.startOf g.s t

theorem after_step {M : Mach} {chk : Nat → Nat → Bool} {ok : M.σ → Prop} {G : Prop} (L : Laws M chk ok G)
    {t n c : Nat} {g : M.GState} {l : Label} {s' : M.σ} (hA : After M ok t n c g) (hs : M.step g.s l = some s') :
    After M ok t n c (M.gnext g l s') := by
  have hv : n ≤ M.vseq s' t := Nat.le_trans hA.view (L.vmono hA.ok hs t)
  have hoth := L.others hA.ok hs
  cases l with
  | sync t1 u =>
    refine ⟨L.ok_step hA.ok hs, hv, by show c ≤ g.clock + 1; have := hA.clock; omega, hA.recs, ?_⟩
    intro op t0 h1 h2
    show n ≤ M.startOf s' t
    have : M.startOf s' t = M.startOf g.s t := by
      by_cases ht : t = t1
      · subst ht; exact (L.sync hA.ok hs).2.1
      · exact (hoth t ht).2
    rw [this]; exact hA.cur op t0 h1 h2
  | start t1 op1 =>
    refine ⟨L.ok_step hA.ok hs, hv, by show c ≤ g.clock + 1; have := hA.clock; omega, hA.recs, ?_⟩
    intro op t0 h1 h2
    show n ≤ M.startOf s' t
    by_cases ht : t = t1
    · subst ht
      rw [(L.start hA.ok hs).2.1]; exact hA.view
    · have h1 : g.cur t = some (op, t0) := by
        have : (upd g.cur t1 (some (op1, g.clock))) t = some (op, t0) := h1
        rwa [upd_ne _ _ _ ht] at this
      rw [(hoth t ht).2]; exact hA.cur op t0 h1 h2
  | run t1 ts =>
    have hst : ∀ op t0, g.cur t = some (op, t0) → c ≤ t0 → n ≤ M.startOf s' t := by
      intro op t0 h1 h2
      have : M.startOf s' t = M.startOf g.s t := by
        by_cases ht : t = t1
        · subst ht; exact (L.run hA.ok hs).2
        · exact (hoth t ht).2
      rw [this]; exact hA.cur op t0 h1 h2
    simp only [gnext]
    split
    · rename_i op t0 r hc hr
      refine ⟨L.ok_step hA.ok hs, hv, by show c ≤ g.clock + 1; have := hA.clock; omega, ?_, ?_⟩
      · intro S hS h1 h2
        rcases List.mem_cons.mp hS with rfl | hm
        · have h1 : t1 = t := h1
          subst h1
          exact hst op t0 hc h2
        · exact hA.recs S hm h1 h2
      · intro op' t0' h1 h2
        by_cases ht : t = t1
        · subst ht
          have : (upd g.cur t none) t = some (op', t0') := h1
          rw [upd_same] at this; cases this
        · have : (upd g.cur t1 none) t = some (op', t0') := h1
          rw [upd_ne _ _ _ ht] at this
          exact hst op' t0' this h2
    · exact ⟨L.ok_step hA.ok hs, hv, by show c ≤ g.clock + 1; have := hA.clock; omega, hA.recs, hst⟩

theorem after_run {M : Mach} {chk : Nat → Nat → Bool} {ok : M.σ → Prop} {G : Prop} (L : Laws M chk ok G)
    {t n c : Nat} (ls : List Label) : ∀ (g g' : M.GState), After M ok t n c g → M.grun g ls = some g' →
    After M ok t n c g' := by
  induction ls with
  | nil => intro g g' hA h; simp [grun] at h; subst h; exact hA
  | cons l ls ih =>
    intro g g' hA h
    simp only [grun, gstep] at h
    cases hst : M.step g.s l with
    | none => simp [hst] at h
    | some s1 => simp only [hst] at h; exact ih _ g' (after_step L hA hst) h

/-- Synchronises-with: after a `sync t u` step, every call of `t` that starts later has a start
view that includes the return view of every call `u` had completed before the `sync`. -/
theorem sync_order {M : Mach} {chk : Nat → Nat → Bool} {ok : M.σ → Prop} {G : Prop} (L : Laws M chk ok G)
    {g0 g1 g2 : M.GState} (hI : GInv M chk ok G g0) (U : CallRec) (hU : U ∈ g0.done) (t : Nat)
    (hsync : M.gstep g0 (.sync t U.tid) = some g1) (ls : List Label) (hrun : M.grun g1 ls = some g2)
    (S : CallRec) (hS : S ∈ g2.done) (hSt : S.tid = t) (hlater : g0.clock < S.tStart) : U.vRet ≤ S.vStart := by
  simp only [gstep] at hsync
  cases hst : M.step g0.s (.sync t U.tid) with
  | none => simp [hst] at hsync
  | some s1 =>
    simp only [hst] at hsync
    cases hsync
    have hA : After M ok t U.vRet (g0.clock + 1) (M.gnext g0 (.sync t U.tid) s1) := by
      refine ⟨L.ok_step hI.ok hst, ?_, Nat.le_refl _, ?_, ?_⟩
      · exact Nat.le_trans ((hI.recs U hU).2.2 U.tid (Or.inl rfl)) (L.sync hI.ok hst).2.2
      · intro S' hS' _ h2
        have a := (hI.recs S' hS').1.2.1
        have b := (hI.recs S' hS').2.1
        omega
      · intro op t0 h1 h2
        have h1 : g0.cur t = some (op, t0) := h1
        have := hI.cur t
        rw [h1] at this
        have := this.2.2.1
        omega
    exact (after_run L ls _ g2 hA hrun).recs S hS hSt (by omega)

theorem grun_append (M : Mach) (l1 l2 : List Label) : ∀ (g : M.GState),
    M.grun g (l1 ++ l2) = (match M.grun g l1 with | some g1 => M.grun g1 l2 | none => none) := by
  induction l1 with
  | nil => intro g; simp [grun]
  | cons l ls ih =>
    intro g
    simp only [List.cons_append, grun]
    cases M.gstep g l with
    | none => rfl
    | some g1 => exact ih g1

end Mach
end Woodpile.Abt

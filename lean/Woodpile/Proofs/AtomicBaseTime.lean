/-
Helper lemmas for C13 / C18 (`Woodpile.Abt`).
-/
import Woodpile.Model.AtomicBaseTime

namespace Woodpile.Abt

theorem snapshot_no_lock_aux (chk : Nat → Nat → Bool) (th : Local) (h : th.pc.inSnap = true) :
    (∃ l o, th.next = .load l o) ∧
    ∀ val, (th.feedLoad chk val).pc.inSnap = true ∨ (th.feedLoad chk val).pc = .retSnap ∨
      (th.feedLoad chk val).pc = .sPanic := by
  obtain ⟨pc, ub, uv, sq, bits, base⟩ := th
  cases pc <;> simp [Pc.inSnap] at h <;> simp [Local.next, Local.feedLoad, Pc.inSnap]
  · intro val
    by_cases h1 : sq = val <;> by_cases h2 : chk base bits = true <;> simp [h1, h2, Pc.inSnap]

end Woodpile.Abt

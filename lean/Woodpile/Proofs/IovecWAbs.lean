/-
Layer B → Layer A for the FULL multi-object vocabulary (track `wabs`), part 1: definitions.

`Props/C03.lean` / `C04.lean` are about ONE iovec and the 13-constructor vocabulary `Woodpile.Iovec.Op`.
The correspondence run replays `Woodpile.Iovec.WOp` histories (`Model/IovecOps.lean`, 38 constructors:
several iovecs, detached arenas, anchored slices, `take`, `clone`, arena swaps, …) through `World.step`.
Here:

* `GW` — a `World` plus, PER HANDLE, the two ghost components the abstraction needs (`ghost i`: the bytes
  handed to the consumer of iovec `i` since its last `clear`; `nid i`: its `register_patch` count).
  `GW.step` runs `World.step` (`GW.step_world`: the world component IS `World.step`'s result, the ghost
  changes nothing) and returns what the call handed back (`WRet`).
* `absW g i : Pipe` — `abs` of `Proofs/IovecAbs.lean` on handle `i` with the world's heap; `Pipe.empty` for
  a handle that does not name a live iovec.
* `PW` — the reference: a map handle ↦ `Pipe`, evolved by `PW.step` from the op and the returned value
  only (no model state): pushes append, `register` registers, `backfill` fills, consumer calls consume
  the reported count, `clear` clears, `take` MOVES the whole pipe to the fresh handle and leaves
  `Pipe.empty`, `clone` COPIES the pipe — holes included, see `Props/C03W.lean` for what that means —,
  `new*` / `drop` create / forget a pipe, everything else (arena traffic, detached-slice surgery, `read_n`)
  is the identity.
* the side condition of the step theorem (`NoShare` / `FillFree`).
-/
import Woodpile.Proofs.IovecAnchOps
import Woodpile.Proofs.IovecPriv
import Woodpile.Proofs.IovecXAnch

namespace Woodpile.Iovec
open Woodpile.Arena
open Woodpile.Pipe (Cell Pipe cellBytes fillCells)

/-! ### Ghost state per handle -/

def fupd {α : Type} (f : Nat → α) (i : Nat) (x : α) : Nat → α := fun j => if j = i then x else f j

@[simp] theorem fupd_same {α : Type} (f : Nat → α) (i : Nat) (x : α) : fupd f i x i = x := by simp [fupd]
theorem fupd_ne {α : Type} (f : Nat → α) {i j : Nat} (x : α) (h : j ≠ i) : fupd f i x j = f j := by simp [fupd, h]

/-- The model world with the per-handle ghost state. -/
structure GW where
  w : World
  /-- bytes handed to the consumer of iovec `i` since its last `clear` -/
  ghost : Nat → List UInt8
  /-- `register_patch` calls on iovec `i` -/
  nid : Nat → Nat

def GW.init (pol : Policy) (tun : Tuning) : GW := ⟨World.init pol tun, fun _ => [], fun _ => 0⟩

/-- The single-iovec history state of handle `i` (`Proofs/IovecAbs.lean`). -/
def GW.st (g : GW) (i : Nat) : State := ⟨g.w, g.ghost i, g.nid i⟩

/-- The abstraction of handle `i`: the `Pipe` of C03/C04 (`Pipe.empty` when `i` is not a live iovec). -/
def absW (g : GW) (i : Nat) : Pipe := abs i (g.st i)

/-- What a call hands back to the caller. -/
inductive WRet where
  | unit
  /-- `register_patch`: the token -/
  | token (b : Backref)
  /-- consumer calls: the count returned and the bytes that left the iovec through this call -/
  | took (n : Nat) (removed : List UInt8)
  /-- pushes of memory the caller already holds (`push_aslice`, sub-slice pushes): the bytes of the pushed
  slice, as the caller can read them when it makes the call -/
  | bytes (bs : List UInt8)
  /-- `new*`, `take`, `clone`: the fresh handle -/
  | handle (j : Nat)
  deriving Repr, DecidableEq

/-- The returned value of `op`, computed on the state BEFORE the call (`unit` where the call fails). -/
def World.ret (w : World) : WOp → WRet
  | .new | .newFromArena _ | .newFromSlices _ | .take _ | .clone _ => .handle w.iovs.length
  | .register i pat =>
    match w.registerPatch i pat with
    | some (_, b) => .token b
    | none => .unit
  | .consume i k =>
    match w.iov i, w.consume i k with
    | some v, some (_, n) => .took n (w.flat (v.slices.take n))
    | _, _ => .unit
  | .pop i =>
    match w.iov i with
    | some v => .took 1 (w.flat (v.slices.take 1))
    | none => .unit
  | .advance i k =>
    match w.iov i, w.advance i k with
    | some v, some (_, c) => .took c ((w.flat v.slices).take c)
    | _, _ => .unit
  | .read i k =>
    match World.readInto (k + 2) w i k [] with
    | some (_, bytes) => .took bytes.length bytes
    | none => .unit
  | .pushASlice _ si =>
    match w.aslice si with
    | some a => .bytes (w.sliceBytes a.slice)
    | none => .unit
  | .pushAt _ b off len => .bytes (w.sliceBytes ⟨.ext b, off, len⟩)
  | .pushBorrowedAt _ b off len => .bytes (w.sliceBytes ⟨.ext b, off, len⟩)
  | _ => .unit

def WRet.removed : WRet → List UInt8
  | .took _ rm => rm
  | _ => []

/-- Ghost update: the consumed log. -/
def GW.ghost' (g : GW) (op : WOp) : Nat → List UInt8 :=
  match op with
  | .consume i _ | .pop i | .advance i _ | .read i _ => fupd g.ghost i (g.ghost i ++ (g.w.ret op).removed)
  | .clear i | .drop i => fupd g.ghost i []
  | .take i => fupd (fupd g.ghost g.w.iovs.length (g.ghost i)) i []
  | .clone i => fupd g.ghost g.w.iovs.length (g.ghost i)
  | .new | .newFromArena _ | .newFromSlices _ => fupd g.ghost g.w.iovs.length []
  | _ => g.ghost

/-- Ghost update: the register counter. -/
def GW.nid' (g : GW) (op : WOp) : Nat → Nat :=
  match op with
  | .register i _ => fupd g.nid i (g.nid i + 1)
  | .drop i => fupd g.nid i 0
  | .take i => fupd (fupd g.nid g.w.iovs.length (g.nid i)) i 0
  | .clone i => fupd g.nid g.w.iovs.length (g.nid i)
  | .new | .newFromArena _ | .newFromSlices _ => fupd g.nid g.w.iovs.length 0
  | _ => g.nid

/-- One op line: `World.step` on the world, bookkeeping on the ghost. -/
def GW.step (g : GW) (op : WOp) : Option (GW × WRet) :=
  match g.w.step op with
  | none => none
  | some w' => some (⟨w', g.ghost' op, g.nid' op⟩, g.w.ret op)

def GW.run : GW → List WOp → Option (GW × List WRet)
  | g, [] => some (g, [])
  | g, op :: ops =>
    match g.step op with
    | none => none
    | some (g', r) =>
      match GW.run g' ops with
      | none => none
      | some (g'', rs) => some (g'', r :: rs)

/-- The ghost changes nothing: the world component of `GW.step` is `World.step`. -/
theorem GW.step_world (g : GW) (op : WOp) : (g.step op).map (·.1.w) = g.w.step op := by
  unfold GW.step
  cases g.w.step op <;> rfl

theorem GW.step_some {g g' : GW} {op : WOp} {r : WRet} (h : g.step op = some (g', r)) :
    g.w.step op = some g'.w ∧ g'.ghost = g.ghost' op ∧ g'.nid = g.nid' op ∧ r = g.w.ret op := by
  unfold GW.step at h
  cases hs : g.w.step op with
  | none => rw [hs] at h; cases h
  | some w' =>
    rw [hs] at h
    simp only [Option.some.injEq, Prod.mk.injEq] at h
    obtain ⟨rfl, rfl⟩ := h
    exact ⟨rfl, rfl, rfl, rfl⟩

/-- … and so is a whole history: `GW.run` is `World.run` with ghost bookkeeping. -/
theorem GW.run_world : ∀ (ops : List WOp) (g : GW), (g.run ops).map (·.1.w) = g.w.run ops := by
  intro ops
  induction ops with
  | nil => intro g; rfl
  | cons op ops ih =>
    intro g
    simp only [GW.run, World.run]
    have h1 := g.step_world op
    cases hs : g.step op with
    | none => rw [hs] at h1; simp only [Option.map_none] at h1; rw [← h1]; rfl
    | some gr =>
      obtain ⟨g', r⟩ := gr
      rw [hs] at h1
      simp only [Option.map_some] at h1
      rw [← h1]
      simp only
      have h2 := ih g'
      cases hr : g'.run ops with
      | none => rw [hr] at h2; simp only [Option.map_none] at h2; rw [← h2]; rfl
      | some x => obtain ⟨g'', rs⟩ := x; rw [hr] at h2; simp only [Option.map_some] at h2; rw [← h2]; rfl

theorem GW.run_reachable {pol : Policy} {tun : Tuning} {ops : List WOp} {g : GW} {rs : List WRet}
    (h : (GW.init pol tun).run ops = some (g, rs)) : Reachable g.w := by
  have := GW.run_world ops (GW.init pol tun)
  rw [h] at this
  exact ⟨pol, tun, ops, this.symm⟩

/-! ### The reference: one abstract pipe per handle -/

/-- The single-pipe operation (`Woodpile.Iovec.Op`, with its returned value) a call on iovec `i` amounts to
at the level of the abstract pipe; `none` for the calls that create, move or forget whole pipes and for
those that are the identity.  Every push is represented by `Op.pushCopy bs` (`specStep` = append `bs`);
`toks` = the tokens handed out so far (`backfill b<k>` presents the `k`-th). -/
def WOp.asOp (toks : List Backref) : WOp → WRet → Option (Nat × Op × Ret)
  | .push i bs, _ => some (i, .pushCopy bs, .unit)
  | .pushBorrowed i bs, _ => some (i, .pushCopy bs, .unit)
  | .pushCopy i bs, _ => some (i, .pushCopy bs, .unit)
  | .extend i bufs, _ => some (i, .pushCopy bufs.flatten, .unit)
  | .pushASlice i _, .bytes bs => some (i, .pushCopy bs, .unit)
  | .pushAt i _ _ _, .bytes bs => some (i, .pushCopy bs, .unit)
  | .pushBorrowedAt i _ _ _, .bytes bs => some (i, .pushCopy bs, .unit)
  | .register i pat, .token b => some (i, .registerPatch pat, .token b)
  | .backfill i bi bs, _ => some (i, .backfill (toks.getD bi none) bs, .unit)
  | .consume i k, .took n rm => some (i, .consume k, .took n rm)
  | .pop i, .took n rm => some (i, .pop, .took n rm)
  | .advance i k, .took n rm => some (i, .advance k, .took n rm)
  | .read i k, .took n rm => some (i, .readInto k, .took n rm)
  | .clear i, _ => some (i, .clear, .unit)
  | _, _ => none

/-- The reference state: a pipe per handle, the number of handles created, the tokens handed out. -/
structure PW where
  pipe : Nat → Pipe
  n : Nat
  toks : List Backref

def PW.init : PW := ⟨fun _ => Woodpile.Pipe.empty, 0, []⟩

def PW.tokStep (toks : List Backref) : WOp → WRet → List Backref
  | .register _ _, .token b => toks ++ [b]
  | _, _ => toks

/-- The calls that create, move or forget whole pipes. -/
def PW.structStep (s : PW) : WOp → PW
  | .new => { s with pipe := fupd s.pipe s.n Woodpile.Pipe.empty, n := s.n + 1 }
  | .newFromArena _ => { s with pipe := fupd s.pipe s.n Woodpile.Pipe.empty, n := s.n + 1 }
  | .newFromSlices bufs => { s with pipe := fupd s.pipe s.n (Woodpile.Pipe.empty.append bufs.flatten), n := s.n + 1 }
  | .take i => { s with pipe := fupd (fupd s.pipe s.n (s.pipe i)) i Woodpile.Pipe.empty, n := s.n + 1 }
  | .clone i => { s with pipe := fupd s.pipe s.n (s.pipe i), n := s.n + 1 }
  | .drop i => { s with pipe := fupd s.pipe i Woodpile.Pipe.empty }
  | _ => s

/-- One call, from the op and its returned value only. -/
def PW.step (s : PW) (op : WOp) (r : WRet) : PW :=
  match op.asOp s.toks r with
  | some (i, o, r') => { s with pipe := fupd s.pipe i (specStep (s.pipe i) o r'), toks := PW.tokStep s.toks op r }
  | none => s.structStep op

/-- The pipe-level side condition on the returned value (`specOk` of C03 for the target handle). -/
def PW.ok (s : PW) (op : WOp) (r : WRet) : Prop :=
  match op.asOp s.toks r with
  | some (i, o, r') => specOk (s.pipe i) o r'
  | none => True

def PW.run (s : PW) : List WOp → List WRet → PW
  | op :: ops, r :: rs => (s.step op r).run ops rs
  | _, _ => s

def PW.okRun (s : PW) : List WOp → List WRet → Prop
  | op :: ops, r :: rs => s.ok op r ∧ (s.step op r).okRun ops rs
  | [], [] => True
  | _, _ => False

/-! ### Side conditions -/

/-- No slice of iovec `Y` covers a byte of a pending placeholder range of iovec `X`.  (It holds for every
pair unless one of the two is a clone of the other taken while the placeholder was pending:
`Proofs/IovecWPriv.lean`, `Props/C20W.lean`.) -/
def NoShare (w : World) (X Y : Nat) : Prop :=
  ∀ vX vY key info k a n, w.iov X = some vX → w.iov Y = some vY → (key, info) ∈ vX.backrefs →
    vX.pendingRange info = some (k, a, n) → ∀ s ∈ vY.slices, s.region = .chunk k → Disj a n s

/-- The frame condition of handle `j` for one op: a `backfill` through ANOTHER iovec `X` must not land in
memory `j` references. -/
def FillFree (w : World) (op : WOp) (j : Nat) : Prop :=
  ∀ X b bs, op = .backfill X b bs → X ≠ j → NoShare w X j

/-- Every live iovec satisfies the single-iovec invariant of C03/C04 in the form that survives the
multi-object vocabulary (`W.IovInv`, `Proofs/IovecXInv.lean`: slice disjointness replaced by "no other slice of
the iovec covers a pending placeholder range"). -/
def AllInv (w : World) : Prop := ∀ i v, w.iov i = some v → W.IovInv w v

theorem allInv_init (pol : Policy) (tun : Tuning) : AllInv (World.init pol tun) := by
  intro i v h
  simp [World.init, World.iov] at h

/-- The reference state a ghost world is compared with. -/
def GW.pw (g : GW) : PW := ⟨absW g, g.w.iovs.length, g.w.brefs⟩

theorem absW_dead (g : GW) (i : Nat) (h : g.w.iov i = none) : absW g i = Woodpile.Pipe.empty := by
  unfold absW abs GW.st
  simp only [h]

theorem absW_live (g : GW) (i : Nat) (v : Iov) (h : g.w.iov i = some v) :
    absW g i = ⟨absCells g.w v, g.ghost i, g.nid i⟩ := by
  unfold absW abs GW.st
  simp only [h]

end Woodpile.Iovec

/-
Byte-level lemmas for the stream reader proofs: `findStuff` over appends, the
canonical split of a stream at its `FE FD` occurrences.
-/
import Woodpile.Model.Hcobs

namespace Woodpile.Hcobs

@[simp] theorem findStuff_nil : findStuff [] = none := rfl
@[simp] theorem findStuff_single (a : UInt8) : findStuff [a] = none := rfl

theorem findStuff_cons_cons (a b : UInt8) (t : List UInt8) :
    findStuff (a :: b :: t) =
      if a = FE ∧ b = FD then some 0 else (findStuff (b :: t)).map (· + 1) := rfl

theorem FE_ne_FD : FE ≠ FD := by decide

theorem findStuff_cons_cons_none (a b : UInt8) (t : List UInt8) :
    findStuff (a :: b :: t) = none ↔ ¬ (a = FE ∧ b = FD) ∧ findStuff (b :: t) = none := by
  rw [findStuff_cons_cons]
  by_cases h : a = FE ∧ b = FD
  · simp [h]
  · simp [h]

/-- No occurrence in `a ++ b` iff none in `a`, none in `b`, and none straddling. -/
theorem findStuff_append_none (a b : List UInt8) :
    findStuff (a ++ b) = none ↔
      findStuff a = none ∧ findStuff b = none ∧ ¬ (a.getLast? = some FE ∧ b.head? = some FD) := by
  induction a with
  | nil => simp
  | cons x a' ih =>
    cases a' with
    | nil =>
      cases b with
      | nil => simp
      | cons y t =>
        simp only [List.cons_append, List.nil_append, findStuff_cons_cons_none, findStuff_single,
          List.getLast?_singleton, List.head?_cons, Option.some.injEq, true_and]
        constructor
        · rintro ⟨h1, h2⟩; exact ⟨h2, h1⟩
        · rintro ⟨h1, h2⟩; exact ⟨h2, h1⟩
    | cons x' a'' =>
      have e : (x :: x' :: a'') ++ b = x :: x' :: (a'' ++ b) := rfl
      rw [e, findStuff_cons_cons_none, findStuff_cons_cons_none]
      have ih' := ih
      rw [show (x' :: a'') ++ b = x' :: (a'' ++ b) from rfl] at ih'
      rw [ih', List.getLast?_cons_cons]
      constructor
      · rintro ⟨h1, h2, h3, h4⟩; exact ⟨⟨h1, h2⟩, h3, h4⟩
      · rintro ⟨⟨h1, h2⟩, h3, h4⟩; exact ⟨h1, h2, h3, h4⟩

/-- The first occurrence is at `i`: the stream splits there, and nothing occurs
in the first `i + 1` bytes. -/
theorem findStuff_some (l : List UInt8) (i : Nat) (h : findStuff l = some i) :
    l = l.take i ++ FE :: FD :: l.drop (i + 2) ∧ findStuff (l.take i ++ [FE]) = none := by
  induction l generalizing i with
  | nil => simp at h
  | cons a t ih =>
    cases t with
    | nil => simp at h
    | cons b t' =>
      rw [findStuff_cons_cons] at h
      by_cases hp : a = FE ∧ b = FD
      · simp only [hp, and_self, if_true, Option.some.injEq] at h
        subst h
        obtain ⟨rfl, rfl⟩ := hp
        simp
      · simp only [hp, if_false, Option.map_eq_some_iff] at h
        obtain ⟨j, hj, rfl⟩ := h
        obtain ⟨h1, h2⟩ := ih j hj
        refine ⟨?_, ?_⟩
        · simp only [List.take_succ_cons, List.cons_append, List.drop_succ_cons]
          exact congrArg (a :: ·) h1
        · simp only [List.take_succ_cons, List.cons_append]
          -- a :: (take j (b :: t') ++ [FE])
          cases j with
          | zero =>
            -- occurrence at 0 of b :: t', so b = FE
            simp only [List.take_zero, List.nil_append]
            have hb : b = FE := by
              have := h1; simp at this; exact this.1
            rw [findStuff_cons_cons_none]
            refine ⟨?_, rfl⟩
            rintro ⟨_, h⟩; exact FE_ne_FD h
          | succ j' =>
            simp only [List.take_succ_cons, List.cons_append] at h2 ⊢
            rw [findStuff_cons_cons_none]
            exact ⟨hp, h2⟩

theorem findStuff_some_lt (l : List UInt8) (i : Nat) (h : findStuff l = some i) : i + 2 ≤ l.length := by
  have := (findStuff_some l i h).1
  have h2 := congrArg List.length this
  simp at h2
  omega

/-- A stuff-free piece followed by `FE FD`: the first occurrence is right after the piece. -/
theorem findStuff_append_stuff (p rest : List UInt8) (h : findStuff p = none) :
    findStuff (p ++ FE :: FD :: rest) = some p.length := by
  induction p with
  | nil => simp [findStuff_cons_cons]
  | cons a t ih =>
    cases t with
    | nil =>
      simp only [List.cons_append, List.nil_append, List.length_singleton]
      rw [findStuff_cons_cons]
      have : ¬ (a = FE ∧ FE = FD) := by rintro ⟨_, h⟩; exact FE_ne_FD h
      simp [this, findStuff_cons_cons]
    | cons b t' =>
      rw [findStuff_cons_cons_none] at h
      have e : (a :: b :: t') ++ FE :: FD :: rest = a :: b :: (t' ++ FE :: FD :: rest) := rfl
      rw [e, findStuff_cons_cons]
      simp only [h.1, if_false]
      have := ih h.2
      rw [show (b :: t') ++ FE :: FD :: rest = b :: (t' ++ FE :: FD :: rest) from rfl] at this
      rw [this]; simp

end Woodpile.Hcobs
